#!/usr/bin/env python3
"""srcmap: a function-level map between /repo/src/*.rs and the hand-written Lean model.

The model is tied to the code by the differential correspondence (bin/check); this map is the
*static* half of that tie: every `fn` item of the library source (test modules excluded) is listed
with the model definitions whose doc comments name it, or with the reason it has no model, and with
a digest of its body (comments and white space removed) as it was when the map was last reviewed
(`lean/srcmap.json`, pinned by `bin/srcmap.py --pin`).

On every run bin/check recomputes the digests from /repo's working tree and records in the
evidence (`coverage.source_map`): how many functions exist, how many are modelled, which functions
are new, gone or changed since the review.  A difference is *not* a violation (a harmless rewrite
changes a digest too) and never fails a check; it is printed into every replay file, so that a
VIOLATION — in particular a `no-failing-input-found` one — names the functions whose text differs
from the tree the model was written against.
"""
import hashlib, json, os, re, sys

VERIF = os.path.dirname(os.path.dirname(os.path.abspath(__file__)))
REPO = os.environ.get('VERIF_REPO', '/repo')
PIN = os.path.join(VERIF, 'lean', 'srcmap.json')
MODEL_DIR = os.path.join(VERIF, 'lean', 'Milhouse', 'Model')

# functions that are deliberately outside the model, by (file, name) pattern -> reason
OUT_OF_SCOPE = [
    (r'.*', r'^fmt$', 'Debug/Display formatting: out of scope (section 8)'),
    (r'.*', r'^arbitrary$|^size_hint_arbitrary$', 'Arbitrary impls: out of scope (section 8)'),
    (r'.*', r'^mem_usage|^size_of|^intra_size|^subtrees$', 'memory accounting helpers: observed only through dump sizes (C10), not modelled'),
    (r'.*', r'^arb_', 'helpers of the Arbitrary impls: out of scope (section 8)'),
    (r'.*', r'^verif_', 'read-only accessor hook of this project (feature `verif`, MANIFEST.hooks)'),
    (r'error\.rs', r'.*', 'error enum plumbing: variants are modelled as `Err` (Model/Basic.lean)'),
    (r'serde\.rs', r'.*', 'serde visitor plumbing: modelled as iterate / try_from_iter (Model/Ssz.lean), exercised by the ser/de operations'),
    (r'lib\.rs', r'.*', 're-exports and the Value trait'),
]

FN_RE = re.compile(r'^\s*(?:pub(?:\([a-z:]+\))?\s+)?(?:const\s+)?(?:unsafe\s+)?fn\s+([A-Za-z_0-9]+)')
IMPL_RE = re.compile(r'^\s*(?:unsafe\s+)?impl\b(.*)$')
MOD_RE = re.compile(r'^\s*(?:pub\s+)?mod\s+([a-z_0-9]+)\s*\{')


def strip_comments(text):
    text = re.sub(r'/\*.*?\*/', '', text, flags=re.S)
    out = []
    for line in text.split('\n'):
        # cut `//` comments that are not inside a string literal (good enough for this crate)
        m = re.search(r'//', line)
        if m and line[:m.start()].count('"') % 2 == 0:
            line = line[:m.start()]
        out.append(line)
    return '\n'.join(out)


def impl_name(rest):
    """`impl<T: Value, N: Unsigned> TreeHash for List<T, N, U>` -> `List:TreeHash`; `impl<..> List<..>` -> `List`."""
    s = rest
    # drop leading generics
    if s.lstrip().startswith('<'):
        s = s.lstrip()
        depth = 0
        for i, ch in enumerate(s):
            if ch == '<':
                depth += 1
            elif ch == '>' and (i == 0 or s[i - 1] != '-'):
                depth -= 1
                if depth == 0:
                    s = s[i + 1:]
                    break
    s = s.split(' where ')[0].split('{')[0].strip()
    def head(x):
        x = x.strip().lstrip('&').replace("'a ", '').strip()
        m = re.match(r"(?:'[a-z]+\s+)?(?:mut\s+)?([A-Za-z_0-9:]+)", x)
        return m.group(1).split('::')[-1] if m else x
    if ' for ' in s:
        tr, ty = s.split(' for ', 1)
        return '%s:%s' % (head(ty), head(tr))
    return head(s)


def scan(repo=REPO):
    """-> {key: {'file','name','line','end','digest'}} for every fn item outside test modules."""
    res = {}
    src = os.path.join(repo, 'src')
    for fn in sorted(os.listdir(src)):
        if not fn.endswith('.rs'):
            continue
        text = strip_comments(open(os.path.join(src, fn)).read())
        lines = text.split('\n')
        ctx = []          # stack of (kind, name, depth_at_open)
        depth = 0
        i = 0
        pending_test = False
        skip_until = None  # brace depth at which a test module ends
        while i < len(lines):
            line = lines[i]
            if skip_until is None:
                if re.match(r'^\s*#\[cfg\(test\)\]', line):
                    pending_test = True
                mm = MOD_RE.match(line)
                if mm:
                    if pending_test or mm.group(1) in ('test', 'tests'):
                        skip_until = depth
                    else:
                        ctx.append(('mod', mm.group(1), depth))
                    pending_test = False
                elif line.strip() and not line.strip().startswith('#['):
                    if pending_test and not FN_RE.match(line):
                        pending_test = False
                mi = IMPL_RE.match(line)
                if mi and skip_until is None:
                    # the header may span lines until the first `{`
                    hdr = mi.group(1)
                    j = i
                    while '{' not in hdr and j + 1 < len(lines):
                        j += 1
                        hdr += ' ' + lines[j].strip()
                    ctx.append(('impl', impl_name(hdr), depth))
                mf = FN_RE.match(line)
                if mf and skip_until is None:
                    # find the body: from this line to the matching close brace (or `;` for trait decls)
                    name = mf.group(1)
                    j, d, started, buf = i, 0, False, []
                    decl_only = False
                    while j < len(lines):
                        l2 = lines[j]
                        buf.append(l2)
                        for ch in l2:
                            if ch == '{':
                                d += 1; started = True
                            elif ch == '}':
                                d -= 1
                        if not started and l2.rstrip().endswith(';'):
                            decl_only = True
                            break
                        if started and d == 0:
                            break
                        j += 1
                    if not decl_only:
                        owner = next((c[1] for c in reversed(ctx) if c[0] == 'impl'), '')
                        key = '%s::%s%s' % (fn, owner + '::' if owner else '', name)
                        k2, n = key, 1
                        while k2 in res:
                            n += 1
                            k2 = '%s#%d' % (key, n)
                        body = re.sub(r'\s+', '', '\n'.join(buf))
                        res[k2] = {'file': fn, 'name': name, 'owner': owner, 'line': i + 1, 'end': j + 1,
                                   'digest': hashlib.sha256(body.encode()).hexdigest()[:16]}
                        # skip the body (nested closures/fns are part of it; its braces are balanced)
                        i = j + 1
                        continue
            # brace accounting
            for ch in line:
                if ch == '{':
                    depth += 1
                elif ch == '}':
                    depth -= 1
                    if skip_until is not None and depth == skip_until:
                        skip_until = None
                    while ctx and ctx[-1][2] == depth:
                        ctx.pop()
            i += 1
    return res


def model_mentions():
    """-> list of (lean file, def name, doc text) for every documented definition of the model."""
    out = []
    for f in sorted(os.listdir(MODEL_DIR)):
        if not f.endswith('.lean'):
            continue
        text = open(os.path.join(MODEL_DIR, f)).read()
        for m in re.finditer(r'/--((?:(?!-/).)*)-/\s*(?:@\[[^\]]*\]\s*)*(?:partial\s+)?(?:def|structure|inductive|abbrev)\s+([A-Za-z_0-9.\']+)', text, flags=re.S):
            out.append((f, m.group(2), m.group(1)))
        # documented structure fields (`/-- `opt_packing_factor::<T>()` -/  pf : Option Nat`)
        for m in re.finditer(r'/--((?:(?!-/).)*)-/\s*([a-z][A-Za-z_0-9]*)\s*:', text, flags=re.S):
            out.append((f, 'field ' + m.group(2), m.group(1)))
        hdr = re.search(r'/-!(.*?)-/', text, flags=re.S)
        if hdr:
            out.append((f, '(module)', hdr.group(1)))
    return out


def build_map(repo=REPO):
    fns = scan(repo)
    docs = model_mentions()
    res = {}
    for key, e in fns.items():
        name, file = e['name'], e['file']
        hits = []
        for lf, d, doc in docs:
            if d == '(module)':
                continue
            if re.search(r'(?<![A-Za-z_0-9])%s(?![A-Za-z_0-9])' % re.escape(name), doc) and (
                    file in doc or (e['owner'] and e['owner'].split(':')[0] in doc) or len(name) > 8):
                hits.append('%s:%s' % (lf[:-5], d))
        status, why = ('modelled', None) if hits else ('unmapped', None)
        for fp, np_, reason in OUT_OF_SCOPE:
            if re.search(fp, file) and re.search(np_, name) and (not hits or np_ != '.*'):
                status, why, hits = 'out-of-scope', reason, []
                break
        if status == 'unmapped':
            # a module header that names the file covers small helpers of that file
            mods = [lf[:-5] for lf, d, doc in docs if d == '(module)' and file in doc]
            if mods:
                status, why = 'modelled-by-module', 'helper of a file transliterated as a whole by ' + ', '.join(mods)
        res[key] = {'digest': e['digest'], 'status': status}
        if hits:
            res[key]['model'] = sorted(set(hits))[:6]
        if why:
            res[key]['why'] = why
    return res


def compare(repo=REPO):
    """-> summary dict for the evidence file."""
    cur = scan(repo)
    try:
        pin = json.load(open(PIN))['functions']
    except Exception as ex:  # no pinned map: report, never fail
        return {'error': 'no pinned map: %s' % ex, 'functions': len(cur)}
    changed = sorted(k for k in cur if k in pin and pin[k]['digest'] != cur[k]['digest'])
    new = sorted(k for k in cur if k not in pin)
    gone = sorted(k for k in pin if k not in cur)
    by = {}
    for k, v in pin.items():
        by[v['status']] = by.get(v['status'], 0) + 1
    return {
        'functions_in_src': len(cur), 'functions_in_reviewed_map': len(pin), 'by_status': by,
        'changed_since_review': [{'fn': k, 'lines': '%d-%d' % (cur[k]['line'], cur[k]['end']),
                                  'model': pin[k].get('model', [])} for k in changed],
        'new_since_review': new, 'gone_since_review': gone,
        'unmapped': sorted(k for k, v in pin.items() if v['status'] == 'unmapped'),
        'note': 'static tie only: a difference is reported, never a violation; the deciding tie is the differential correspondence',
    }


def replay_note(summary):
    ls = []
    if summary.get('changed_since_review') or summary.get('new_since_review') or summary.get('gone_since_review'):
        ls.append('// source functions whose text differs from the tree the model was reviewed against (lean/srcmap.json):')
        for c in summary.get('changed_since_review', []):
            ls.append('//   changed %s (lines %s)%s' % (c['fn'], c['lines'], '  model: ' + ', '.join(c['model']) if c['model'] else ''))
        for k in summary.get('new_since_review', []):
            ls.append('//   new     %s' % k)
        for k in summary.get('gone_since_review', []):
            ls.append('//   gone    %s' % k)
    return ls


if __name__ == '__main__':
    if '--pin' in sys.argv:
        m = build_map()
        import subprocess
        head = subprocess.run(['git', '-C', REPO, 'rev-parse', 'HEAD'], capture_output=True, text=True).stdout.strip()
        json.dump({'reviewed_at_repo_commit': head, 'functions': m}, open(PIN, 'w'), indent=1, sort_keys=True)
        by = {}
        for v in m.values():
            by[v['status']] = by.get(v['status'], 0) + 1
        print('pinned %d functions at %s: %s' % (len(m), head[:7], by))
        for k, v in sorted(m.items()):
            if v['status'] == 'unmapped':
                print('  unmapped:', k)
    else:
        print(json.dumps(compare(), indent=1))
