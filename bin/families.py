"""Scenario families per property. Each family function takes (rng, tier) and returns a list of
`Case`s: a script plus the names of the direct predicates to evaluate on the implementation's
outputs (see check.py `PREDICATES`)."""
import random
from gen import (HistGen, pick_configs, cfg_line, val, zero_val, PF, KIND_SIZE, KINDS, MAPS, SMALL_N,
                 BIG, HUGE, hexs, aim_index)


class Case:
    __slots__ = ('script', 'preds', 'family', 'meta', 'nontrivial')

    def __init__(self, script, family, preds=(), meta=None):
        self.script = script
        self.family = family
        self.preds = tuple(preds)
        self.meta = meta or {}


def sub(rng):
    return random.Random(rng.getrandbits(64))


def int_log(n):
    d = 0
    while (1 << d) < n:
        d += 1
    return d


def tree_depth(kind, N):
    pf = PF[kind]
    d = int_log(N)
    return max(0, d - int_log(pf)) if pf else d


def capacity(kind, N):
    pf = PF[kind]
    return (1 << tree_depth(kind, N)) * (pf or 1)


QUICK_FACTOR = 5
THOROUGH_FACTOR = 8


def scale(tier, quick, thorough):
    """number of configurations / cases: the figures in the family functions are base values; the
    machinery is fast (≈50k protocol lines per second), so both tiers multiply them."""
    return thorough * THOROUGH_FACTOR if tier == 'thorough' else quick * QUICK_FACTOR


# -------------------------------------------------------------------------------------------------
# generic histories

def hist_cases(rng, tier, family, ncfg, per_cfg, nops, weights=None, observe_all=False, nslots=3,
               pzero=0.4, invalid_rate=0.06, preds=(), kinds=None, ns=None, maps=None, dump_every=0,
               final_roots=False):
    out = []
    for cfg in pick_configs(rng, ncfg, kinds=kinds, ns=ns, maps=maps):
        for _ in range(per_cfg):
            r = sub(rng)
            obs = None
            if observe_all == 'lazy':
                # contents of every handle after every step, roots only now and then: handles stay
                # un-hashed for long stretches (a memo written into another handle's nodes shows later)
                obs = lambda g, _r=r: g.observe_all(root_p=0.12, rng=_r)
            elif observe_all:
                obs = lambda g: g.observe_all()
            elif dump_every:
                def obs(g, _k=[0]):
                    _k[0] += 1
                    if _k[0] % dump_every == 0 and g.sh.s:
                        g.lines.append('dump ' + ' '.join(str(h) for h in sorted(g.sh.s)))
            g = HistGen(r, cfg, weights=weights, nslots=nslots, pzero=pzero,
                        invalid_rate=invalid_rate, observe=obs)
            lines = g.run(nops)
            if final_roots:
                for h in sorted(g.sh.s):
                    lines.append('apply %d' % h)
                    lines.append('root %d' % h)
                    lines.append('tovec %d' % h)
                    lines.append('wf %d' % h)
                    c = g.sh.s[h]
                    # a freshly built collection with (what the generator believes are) the same
                    # contents: equality and root must agree with the plain-sequence oracle
                    lines.append('new 90 %s %s' % ('list' if c['k'] == 'list' else 'vec', ' '.join(c['xs'])))
                    lines.append('eq %d 90' % h)
                    lines.append('root 90')
            c = Case(lines, family, preds, {'cfg': cfg, 'ops': dict(g.stats)})
            out.append(c)
    return out


def fam_C01(rng, tier):
    n = scale(tier, 1, 6)
    cs = hist_cases(rng, tier, 'history', 60 * n, 4, 45, nslots=3,
                    weights={'read': 24, 'root': 2, 'sszrt': 0.5, 'serde': 0.5})
    cs += hist_cases(rng, tier, 'history-large-N', 12 * n, 3, 35, nslots=2,
                     ns=[1024, 2 ** 40, 2 ** 48, 2 ** 50], kinds=['u8', 'u64', 'u256', 'h256', 'var'],
                     weights={'read': 24, 'root': 2})
    cs += exhaustive_reads(rng, tier)
    cs += motif_histories(rng, tier)
    cs += exhaustive_histories(rng, tier)
    return cs


def exhaustive_histories(rng, tier):
    """ALL histories of length <= L over a 9-operation alphabet, for small N, three kinds and a few
    initial states (exhaustive small scope; L = 3 quick, 4 thorough)."""
    import itertools
    out = []
    L = 4 if tier == 'thorough' else 3
    for kind in ('u64', 'h256', 'u256'):
        Z = zero_val(kind)
        X = val(random.Random(7), kind, pzero=0.0)
        alphabet = ['push 0 %s' % Z, 'push 0 %s' % X, 'getmut 0 0 %s' % X, 'getmut 0 2 %s' % Z, 'apply 0',
                    'pop 0 1', 'pop 0 2', 'intra 0', 'rebase 0 1']
        for N in ((3, 4, 5) if tier == 'thorough' else (4, 5)):
            for init in ([], [X, Z], [Z] * N):
                m = rng.choice(MAPS)
                lines = [cfg_line((kind, N, m))]
                for hist in itertools.product(alphabet, repeat=L):
                    lines += ['new 0 list ' + ' '.join(init), 'clone 0 1', 'root 1']
                    for op in hist:
                        lines += [op, 'len 0', 'tovec 0']
                    lines += ['apply 0', 'root 0', 'wf 0', 'tovec 1']
                out.append(Case(lines, 'histories-exhaustive-len%d' % L, ('wellformed',), {'cfg': (kind, N, m)}))
    return out


def motif_histories(rng, tier):
    """histories that start from the pair motifs of the rebase family (zero suffixes, prefixes,
    shared/hashed states) and continue with reads, pops, pushes and flushes on both handles."""
    out = []
    for cfg in pick_configs(rng, scale(tier, 60, 300)):
        kind, N, m = cfg
        for _ in range(2):
            r = sub(rng)
            lines = [cfg_line(cfg)]
            motif = rebase_pair(r, kind, N, lines)
            lines += ['root 0' if r.random() < 0.7 else 'len 0', 'root 1' if r.random() < 0.7 else 'len 1']
            lines += [r.choice(['rebase 0 1', 'rebase 1 0', 'rebase 0 1', 'intra 0'])]
            pf = PF[kind] or 2
            for _ in range(10):
                h = r.choice([0, 1])
                c = r.randrange(8)
                if c == 0:
                    lines.append('pop %d %d' % (h, r.choice([0, 1, 2, 4, 8, 16, pf, 2 * pf, 3])))
                elif c == 1:
                    lines.append('push %d %s' % (h, val(r, kind)))
                elif c == 2:
                    lines.append('getmut %d %d %s' % (h, r.randrange(0, 8), val(r, kind)))
                elif c == 3:
                    lines.append('apply %d' % h)
                elif c == 4:
                    lines.append('rebase %d %d' % (h, 1 - h))
                elif c == 5:
                    lines += ['apply %d' % h, 'root %d' % h]
                elif c == 6:
                    lines.append('iterfrom %d %d' % (h, r.randrange(0, 6)))
                else:
                    lines.append('levels %d %d' % (h, r.choice([0, 1, 2, 4, 8, pf])))
                lines += ['len %d' % h, 'tovec %d' % h, 'wf %d' % h]
            out.append(Case(lines, 'history-from-' + motif, ('wellformed',), {'cfg': cfg}))
    return out


def exhaustive_reads(rng, tier):
    """all (len, i) for every read, N small."""
    out = []
    kinds = KINDS if tier == 'thorough' else ['u8', 'u64', 'u256', 'h256', 'var']
    ns = SMALL_N if tier == 'thorough' else [3, 8, 9, 33]
    for kind in kinds:
        for N in ns:
            m = rng.choice(MAPS)
            r = sub(rng)
            lines = [cfg_line((kind, N, m))]
            lens = range(0, N + 1) if tier == 'thorough' else sorted({0, 1, N // 2, N - 1, N})
            for ln in lens:
                xs = [val(r, kind) for _ in range(ln)]
                lines.append('new 0 list ' + ' '.join(xs))
                lines.append('len 0'); lines.append('isempty 0'); lines.append('tovec 0')
                for i in range(0, ln + 2):
                    lines.append('get 0 %d' % i)
                    lines.append('iterfrom 0 %d' % i)
            out.append(Case(lines, 'reads-exhaustive', (), {'cfg': (kind, N, m)}))
    return out


def fam_C02(rng, tier):
    n = scale(tier, 1, 6)
    w = {'root': 16, 'apply': 12, 'read': 4, 'intra': 5, 'rebase': 6, 'pop': 6, 'bulk_bad': 0.2}
    cs = hist_cases(rng, tier, 'roots-after-mutations', 60 * n, 4, 45, weights=w, pzero=0.6,
                    final_roots=True)
    cs += hist_cases(rng, tier, 'roots-large-N', 14 * n, 3, 30, weights=w, pzero=0.6, nslots=2,
                     ns=[1024, 2 ** 40, 2 ** 48, 2 ** 50], kinds=['u8', 'u64', 'u256', 'h256', 'var'],
                     final_roots=True)
    cs += root_paths(rng, tier)
    return ((cs) + huge_repeat(rng, tier)) + tree_direct(rng, tier)


def root_paths(rng, tier):
    """the same contents reached through different construction paths, then `root`."""
    out = []
    # empty and emptied collections (a single padding node) at every depth class
    for (kind, N) in [('u64', 2 ** 50), ('h256', 2 ** 48), ('u64', 2 ** 40), ('h256', 2 ** 40), ('u8', 2 ** 40),
                      ('u64', 1024), ('h256', 33), ('u64', 2 ** 60), ('h256', 2 ** 63)]:
        r = sub(rng)
        m = 'btree' if N > 2 ** 50 else r.choice(MAPS)
        xs = [val(r, kind) for _ in range(r.randint(1, 9))]
        lines = [cfg_line((kind, N, m)), 'empty 0', 'root 0', 'new 1 list', 'root 1', 'new 2 list ' + ' '.join(xs),
                 'root 2', 'pop 2 %d' % len(xs), 'len 2', 'root 2', 'eq 0 2', 'push 2 %s' % xs[0], 'apply 2', 'root 2']
        out.append(Case(lines, 'root-empty-and-emptied', (), {'cfg': (kind, N, m)}))
    for cfg in pick_configs(rng, scale(tier, 40, 200)):
        kind, N, m = cfg
        r = sub(rng)
        ln = r.choice([0, 1, min(N, 5), min(N, 33), r.randint(0, min(N, 40))])
        xs = [val(r, kind, pzero=0.6) for _ in range(ln)]
        if r.random() < 0.3:
            k = r.randint(0, ln)
            xs = xs[:k] + [zero_val(kind)] * (ln - k)     # zero suffix
        lines = [cfg_line(cfg)]
        lines.append('new 0 list ' + ' '.join(xs)); lines.append('root 0')
        lines.append('fromiterslow 1 ' + ' '.join(xs)); lines.append('root 1')
        lines.append('empty 2')
        for i, x in enumerate(xs):
            lines.append('push 2 %s' % x)
            if r.random() < 0.3:
                lines.append('apply 2'); lines.append('root 2')
        lines.append('apply 2'); lines.append('root 2')
        if ln == N and N <= 40:
            lines.append('tovector 0 3'); lines.append('root 3')
            lines.append('new 4 vec ' + ' '.join(xs)); lines.append('root 4')
        junk = [val(r, kind) for _ in range(r.randint(0, min(8, N - ln)))] if N > ln else []
        lines.append('new 5 list ' + ' '.join(junk + xs)); lines.append('root 5')
        lines.append('pop 5 %d' % len(junk)); lines.append('root 5')
        out.append(Case(lines, 'root-by-path', (), {'cfg': cfg}))
    return out


def fam_C03(rng, tier):
    """paired histories that differ only by inserted root computations (compared line by line on
    the implementation) + dumps whose memos are recomputed from scratch."""
    n = scale(tier, 1, 6)
    out = []
    w = {'root': 0, 'root_dirty': 0, 'rebase': 8, 'intra': 4, 'clone': 7, 'apply': 10, 'read': 6,
         'bulk_bad': 0, 'push_vec': 0}
    for cfg in pick_configs(rng, 50 * n):
        for _ in range(3):
            r = sub(rng)
            g = HistGen(r, cfg, weights=w, nslots=4, pzero=0.5, invalid_rate=0.02)
            flushed = []

            def obs(gg):
                flushed.append((len(gg.lines), [h for h in gg.sh.s if not gg.sh.s[h]['dirty']]))
            g.observe = obs
            base = g.run(30)
            tail = []
            for h in sorted(g.sh.s):
                tail += ['apply %d' % h, 'root %d' % h, 'tovec %d' % h]
            tail.append('dump ' + ' '.join(str(h) for h in sorted(g.sh.s)))
            # variant: root requests at a random subset of positions, on any flushed handle
            variant = []
            marks = dict(flushed)
            common = []          # (index in base script, index in variant script)
            for i, line in enumerate(base):
                common.append((i, len(variant)))
                variant.append(line)
                pos = i + 1
                if pos in marks and marks[pos] and r.random() < 0.5:
                    for h in r.sample(marks[pos], r.randint(1, len(marks[pos]))):
                        variant.append('root %d' % h)
                    if r.random() < 0.4:
                        variant.append('dump ' + ' '.join(str(h) for h in sorted(marks[pos])))
            nb, nv = len(base), len(variant)
            for k in range(len(tail)):
                common.append((nb + k, nv + k))
            out.append(Case(base + tail, 'roots-removed', ('memo',), {'cfg': cfg, 'pair': 'a'}))
            out.append(Case(variant + tail, 'roots-inserted', ('memo', 'pair_equal'),
                            {'cfg': cfg, 'pair': 'b', 'common': common}))
    out += readers_vs_hasher(rng, tier)
    return ((out) + tree_direct(rng, tier)) + [c for c in fam_C17(rng, tier) if c.family == 'builder-push-node-full-level']


def fam_C04(rng, tier):
    n = scale(tier, 1, 6)
    w = {'clone': 9, 'rebase': 8, 'tovector': 4, 'tolist': 4, 'intra': 3, 'read': 0, 'root': 2,
         'eq': 0}
    cs = hist_cases(rng, tier, 'interleaved-handles', 50 * n, 3, 22, weights=w, observe_all=True,
                    nslots=4)
    cs += hist_cases(rng, tier, 'interleaved-handles-lazy-roots', 40 * n, 3, 22, weights=w, observe_all='lazy',
                     nslots=4, final_roots=True)
    # pairs of related handles in the states the rebase family names, then a rebase either way and
    # only afterwards the roots of both and of witnesses cloned before
    for cfg in pick_configs(rng, scale(tier, 80, 400)):
        kind, N, m = cfg
        r = sub(rng)
        lines = [cfg_line(cfg)]
        motif = rebase_pair(r, kind, N, lines)
        lines += ['clone 0 8', 'clone 1 9', 'tovec 0', 'tovec 1']
        lines.append(r.choice(['rebase 0 1', 'rebase 1 0']))
        for h in (0, 1, 8, 9):
            lines += ['tovec %d' % h, 'pending %d' % h]
        lines += ['dump 0 1 8 9']
        for h in (0, 1, 8, 9):
            lines += ['apply %d' % h, 'root %d' % h]
        lines += ['eq 0 8', 'eq 1 9']
        cs.append(Case(lines, 'pair-then-rebase-' + motif, ('memo',), {'cfg': cfg, 'motif': motif}))
    cs += ssz_relatives(rng, tier)
    return cs


def ssz_relatives(rng, tier):
    out = []
    for cfg in pick_configs(rng, scale(tier, 20, 100)):
        kind, N, m = cfg
        r = sub(rng)
        ln = r.randint(0, min(N, 20))
        xs = [val(r, kind) for _ in range(ln)]
        lines = [cfg_line(cfg), 'new 0 list ' + ' '.join(xs), 'clone 0 1', 'rebasenew 0 1 2']
        for _ in range(8):
            h = r.randrange(3)
            c = r.randrange(4)
            if c == 0 and ln:
                lines.append('getmut %d %d %s' % (h, r.randrange(ln), val(r, kind)))
            elif c == 1:
                lines.append('apply %d' % h)
            elif c == 2:
                lines.append('pop %d %d' % (h, r.randint(0, 2)))
            else:
                lines.append('intra %d' % h)
            for k in range(3):
                lines.append('tovec %d' % k); lines.append('len %d' % k); lines.append('pending %d' % k)
        out.append(Case(lines, 'relatives', (), {'cfg': cfg}))
    return out


def fam_C05(rng, tier):
    """every constructor for every requested length 0..=capacity+1."""
    out = []
    kinds = KINDS
    ns = SMALL_N if tier == 'thorough' else [1, 3, 5, 8, 9, 17, 33]
    for kind in kinds:
        for N in ns:
            cap = capacity(kind, N)
            m = rng.choice(MAPS)
            r = sub(rng)
            lines = [cfg_line((kind, N, m))]
            lengths = list(range(0, cap + 2))
            if len(lengths) > 70 and tier != 'thorough':
                keep = {0, 1, N - 1, N, N + 1, cap - 1, cap, cap + 1}
                lengths = sorted(keep | set(r.sample(lengths, 12)))
            for n in lengths:
                x = val(r, kind)
                xs = [val(r, kind) for _ in range(n)]
                for ctor in ('new 0 list %s' % ' '.join(xs), 'fromiter 0 list %s' % ' '.join(xs),
                             'fromiterslow 0 %s' % ' '.join(xs), 'repeat 0 %d %s' % (n, x),
                             'repeatslow 0 %d %s' % (n, x), 'de 0 list %s' % ' '.join(xs),
                             'new 0 vec %s' % ' '.join(xs), 'fromiter 0 vec %s' % ' '.join(xs),
                             'de 0 vec %s' % ' '.join(xs)):
                    lines.append('drop 0')
                    lines.append(ctor.strip())
                    lines.append('len 0')
            lines += ['drop 0', 'default 0 list', 'len 0', 'drop 0', 'default 0 vec', 'len 0',
                      'drop 0', 'fromelem 0 %s' % val(r, kind), 'len 0', 'tolist 0 1', 'len 1']
            out.append(Case(lines, 'constructors-all-lengths', ('bounds',), {'cfg': (kind, N, m)}))
    # large N: boundary lengths only
    for kind, Ns in BIG.items():
        for N in Ns:
            if N < 2 ** 20:
                continue
            r = sub(rng)
            lines = [cfg_line((kind, N, 'btree'))]
            for n in (0, 1, 33):
                xs = [val(r, kind) for _ in range(n)]
                lines += ['new 0 list ' + ' '.join(xs), 'len 0', 'repeat 0 %d %s' % (n, val(r, kind)),
                          'len 0']
            lines += ['repeat 0 %d %s' % (N + 1, val(r, kind)), 'len 0']
            out.append(Case(lines, 'constructors-large-N', ('bounds',), {'cfg': (kind, N, 'btree')}))
    out += hist_cases(rng, tier, 'history-bounds', scale(tier, 30, 150), 3, 40,
                      weights={'push': 20, 'bulk': 8, 'bulk_bad': 3, 'tovector': 4, 'tolist': 4},
                      invalid_rate=0.15, preds=('bounds',), ns=SMALL_N)
    return (out) + huge_repeat(rng, tier)


def build_paths(r, kind, N, xs, slot0, lines):
    """Build `xs` through several construction paths into consecutive slots; returns the slots."""
    slots = []
    h = slot0

    def add(ls):
        nonlocal h
        lines.extend(ls)
        slots.append(h)
        h += 2          # odd slots are scratch (dropped again by the path that uses them)
    ln = len(xs)
    add(['new %d list %s' % (h, ' '.join(xs))])
    add(['fromiterslow %d %s' % (h, ' '.join(xs))])
    ls = ['empty %d' % h]
    for x in xs:
        ls.append('push %d %s' % (h, x))
        if r.random() < 0.25:
            ls.append('apply %d' % h)
    ls.append('apply %d' % h)
    add(ls)
    if ln and all(x == xs[0] for x in xs):
        add(['repeat %d %d %s' % (h, ln, xs[0])])
    add(['de %d list %s' % (h, ' '.join(xs))])
    if N > ln:
        junk = [val(r, kind) for _ in range(r.randint(1, min(9, N - ln)))]
        add(['new %d list %s' % (h, ' '.join(junk + xs)), 'pop %d %d' % (h, len(junk))])
    if ln:
        # overwrite every element of a same-length list
        ys = [val(r, kind) for _ in range(ln)]
        ls = ['new %d list %s' % (h, ' '.join(ys))]
        order = list(range(ln))
        r.shuffle(order)
        for i in order:
            ls.append('getmut %d %d %s' % (h, i, xs[i]))
        ls.append('apply %d' % h)
        add(ls)
    if ln >= 2:
        # prefix, then the rest through one bulk update whose keys are inserted in descending order
        k0 = r.randint(0, ln - 1)
        kvs = ['%d:%s' % (i, xs[i]) for i in range(ln - 1, k0 - 1, -1)]
        if k0 and r.random() < 0.5:
            kvs.append('%d:%s' % (0, xs[0]))
        add(['new %d list %s' % (h, ' '.join(xs[:k0])), 'bulk %d %s' % (h, ' '.join(kvs)), 'apply %d' % h])
    # rebased on a hashed base of a DIFFERENT length that only differs by zero values / is a prefix
    Zv = zero_val(kind)
    longer = xs + [Zv] * r.randint(1, max(1, min(N - ln, 9))) if ln < N else xs[:max(0, ln - r.randint(1, 3))]
    add(['new %d list %s' % (h, ' '.join(xs)), 'root %d' % h, 'new %d list %s' % (h + 1, ' '.join(longer)),
         'root %d' % (h + 1), 'rebase %d %d' % (h, h + 1), 'drop %d' % (h + 1)])
    # rebased on / deduplicated versions
    add(['clone %d %d' % (slots[0], h), 'root %d' % h, 'intra %d' % h])
    add(['new %d list %s' % (h, ' '.join(xs)), 'rebase %d %d' % (h, slots[1])])
    return slots


def periodic_contents(r, kind, N):
    """a block (a power-of-two number of leaves) whose tail is zero-valued, repeated, with the last
    repetition cut off exactly where the zeros begin: a partially filled right edge that hashes
    like the complete block before it."""
    pf = PF[kind] or 1
    Z = zero_val(kind)
    blk = pf * r.choice([1, 2, 4])
    while blk * 2 > max(2, min(N, 40)) and blk > 1:
        blk //= 2
    blk = max(blk, 2) if N >= 2 else 1
    tail = r.randint(1, max(1, blk - 1))
    B = [val(r, kind, pzero=0.0) for _ in range(blk - tail)] + [Z] * tail
    reps = r.randint(1, 3)
    xs = B * reps + B[:blk - tail]
    return xs[:min(N, 40)]


def fam_C06(rng, tier):
    out = []
    for cfg in pick_configs(rng, scale(tier, 70, 400)):
        kind, N, m = cfg
        r = sub(rng)
        ln = r.choice([0, 1, min(N, PF[kind] or 2), r.randint(0, min(N, 36)), min(N, 33)])
        xs = [val(r, kind, pzero=0.5) for _ in range(ln)]
        if r.random() < 0.35:
            k = r.randint(0, ln)
            xs = xs[:k] + [zero_val(kind)] * (ln - k)
        elif r.random() < 0.35:
            xs = periodic_contents(r, kind, N)
            ln = len(xs)
        lines = [cfg_line(cfg)]
        slots = build_paths(r, kind, N, xs, 0, lines)
        # a different content: one element changed, or one zero more / less
        c = r.randrange(3)
        if c == 0 and ln:
            ys = list(xs)
            i = r.randrange(ln)
            ys[i] = val(r, kind, pzero=0.0)
            if ys[i] == xs[i]:
                ys = xs + [zero_val(kind)] if ln < N else xs[:-1]
        elif c == 1 and ln < N:
            ys = xs + [zero_val(kind)]
        else:
            ys = xs[:-1] if ln else ([zero_val(kind)] if N >= 1 else [])
        base = slots[-1] + 2
        slots2 = build_paths(r, kind, N, ys, base, lines)
        allslots = slots + slots2
        for a in allslots:
            lines.append('pending %d' % a)
        for i, a in enumerate(allslots):
            for b in allslots[i:]:
                lines.append('eq %d %d' % (a, b))
        if ln == N and N <= 40:
            v0 = allslots[-1] + 2
            lines += ['tovector %d %d' % (slots[0], v0), 'tovector %d %d' % (slots[2], v0 + 1),
                      'new %d vec %s' % (v0 + 2, ' '.join(xs)), 'fromelem %d %s' % (v0 + 3, xs[0]),
                      'eq %d %d' % (v0, v0 + 1), 'eq %d %d' % (v0, v0 + 2), 'eq %d %d' % (v0 + 2, v0 + 3),
                      'tolist %d %d' % (v0 + 2, v0 + 4), 'eq %d %d' % (v0 + 4, slots[0])]
        out.append(Case(lines, 'construction-paths', (), {'cfg': cfg, 'len': ln}))
    out += hash_valued(rng, tier)
    return out


def rebase_pair(r, kind, N, lines):
    """(self=slot 0, base=slot 1) of the motifs the property names; returns a description."""
    maxl = min(N, 36)
    ln = r.randint(0, maxl)
    xs = [val(r, kind, pzero=0.5) for _ in range(ln)]
    motif = r.choice(['equal', 'zero-suffix', 'prefix', 'k-diff', 'unrelated', 'shared', 'pending-self',
                      'pending-base', 'converted', 'pending-compensates', 'left-diff-unhashed-base', 'siblings'])
    Z = zero_val(kind)
    if motif == 'equal':
        a, b = xs, list(xs)
    elif motif == 'zero-suffix':
        k = r.randint(0, ln)
        a = xs[:k] + [Z] * (ln - k)
        b = xs[:k] + [Z] * r.randint(0, max(0, min(maxl, N) - k))
        if r.random() < 0.5:
            a, b = b, a
    elif motif == 'prefix':
        k = r.randint(0, ln)
        a, b = xs, xs[:k]
        if r.random() < 0.5:
            a, b = b, a
    elif motif == 'k-diff':
        a = xs
        b = list(xs)
        for _ in range(r.randint(1, 3)):
            if ln:
                b[r.randrange(ln)] = val(r, kind)
    elif motif == 'unrelated':
        a = xs
        b = [val(r, kind) for _ in range(r.randint(0, maxl))]
    elif motif == 'pending-compensates':
        k = r.randint(0, ln)
        a = xs[:k] + [Z] * (ln - k)
        b = xs[:k]
    elif motif == 'left-diff-unhashed-base':
        a = xs
        b = list(xs)
        if ln:
            b[r.randrange(max(1, ln // 2))] = val(r, kind, pzero=0.0)
    else:
        a, b = xs, list(xs)
    lines.append('new 0 list ' + ' '.join(a))
    if motif == 'pending-compensates':
        lines += ['new 1 list ' + ' '.join(b), 'root 0', 'root 1']
        for _ in range(len(a) - len(b)):
            lines.append('push 1 %s' % (Z if r.random() < 0.7 else val(r, kind)))
        return motif
    if motif == 'left-diff-unhashed-base':
        lines += ['new 1 list ' + ' '.join(b), 'root 0']
        return motif
    if motif == 'siblings':
        # two descendants of a common (possibly hashed) ancestor: both wrote the same value at the same
        # place (equal content, distinct nodes), one of them wrote elsewhere too; the rest is one node
        if r.random() < 0.5:
            lines.append('root 0')
        lines.append('clone 0 1')
        if a:
            i = r.randrange(len(a)); v = val(r, kind, pzero=0.1)
            lines += ['getmut 0 %d %s' % (i, v), 'getmut 1 %d %s' % (i, v)]
            for _ in range(r.randint(1, 2)):
                lines.append('getmut %d %d %s' % (r.choice([0, 1, 1]), r.randrange(len(a)), val(r, kind, pzero=0.0)))
        lines += ['apply 0', 'apply 1']
        for h in (0, 1):
            if r.random() < 0.5:
                lines.append('root %d' % h)
        return motif
    if motif == 'shared':
        lines.append('clone 0 1')
        for _ in range(r.randint(0, 3)):
            if a:
                lines.append('getmut 1 %d %s' % (r.randrange(len(a)), val(r, kind)))
        lines.append('apply 1')
    else:
        lines.append('new 1 list ' + ' '.join(b))
    if motif == 'pending-self':
        for _ in range(r.randint(1, 3)):
            if a and r.random() < 0.6:
                lines.append('getmut 0 %d %s' % (r.randrange(len(a)), val(r, kind)))
            elif len(a) < N:
                lines.append('push 0 %s' % val(r, kind)); a = a + ['?']
    if motif == 'pending-base':
        for _ in range(r.randint(1, 3)):
            if b and r.random() < 0.6:
                lines.append('getmut 1 %d %s' % (r.randrange(len(b)), val(r, kind)))
            elif len(b) < N:
                lines.append('push 1 %s' % val(r, kind)); b = b + ['?']
    if motif == 'converted' and N <= 40:
        # base: hashed, then pushed up to N, converted to a vector and back
        lines.append('root 1')
        for _ in range(N - len(b)):
            lines.append('push 1 %s' % Z)
        lines += ['tovector 1 2', 'tolist 2 1']
        lines.append('new 0 list ' + ' '.join(b + [Z] * (N - len(b))))
    # memo states
    for h in (0, 1):
        if r.random() < 0.55:
            lines.append('root %d' % h)
    return motif


def fam_C07(rng, tier):
    out = []
    for cfg in pick_configs(rng, scale(tier, 120, 700)):
        kind, N, m = cfg
        for _ in range(2):
            r = sub(rng)
            lines = [cfg_line(cfg)]
            motif = rebase_pair(r, kind, N, lines)
            vec = motif not in ('pending-self', 'pending-base', 'converted') and N <= 16 and r.random() < 0.2
            lines += ['clone 0 8', 'clone 1 9']          # witnesses of the state before
            for h in (0, 1):
                lines += ['len %d' % h, 'tovec %d' % h, 'pending %d' % h]
            lines.append('rebase 0 1')
            for h in (0, 1):
                lines += ['len %d' % h, 'tovec %d' % h, 'pending %d' % h, 'eq %d %d' % (h, h + 8)]
            lines += ['apply 0', 'apply 8', 'apply 1', 'apply 9', 'eq 0 8', 'eq 1 9', 'root 0', 'root 8',
                      'root 1', 'root 9']
            # continuation on both
            g = HistGen(r, cfg, nslots=4, weights={'new': 0, 'clone': 1, 'tovector': 0, 'tolist': 0})
            g.lines = lines
            g.sh.s = {0: dict(k='list', xs=['?'] * 0, dirty=False), 1: dict(k='list', xs=[], dirty=False)}
            # the shadow does not know the contents; use only content-agnostic continuations
            for _ in range(8):
                c = r.randrange(7)
                h = r.choice([0, 1])
                if c == 0:
                    lines.append('push %d %s' % (h, val(r, kind)))
                elif c == 1:
                    lines.append('getmut %d %d %s' % (h, r.randrange(0, 6), val(r, kind)))
                elif c == 2:
                    lines.append('apply %d' % h)
                elif c == 3:
                    lines.append('pop %d %d' % (h, r.randrange(0, 4)))
                elif c == 4:
                    lines.append('rebase %d %d' % (h, 1 - h))
                elif c == 5:
                    lines.append('intra %d' % h)
                else:
                    lines.append('apply %d' % h); lines.append('root %d' % h)
                lines += ['len 0', 'tovec 0', 'len 1', 'tovec 1']
            lines += ['apply 0', 'apply 1', 'root 0', 'root 1']
            out.append(Case(lines, 'rebase-' + motif, (), {'cfg': cfg, 'motif': motif}))
    out += vector_rebase(rng, tier)
    return out


def vector_rebase(rng, tier):
    out = []
    for cfg in pick_configs(rng, scale(tier, 30, 150), ns=[1, 2, 3, 4, 5, 7, 8, 9, 16, 17, 32, 33]):
        kind, N, m = cfg
        r = sub(rng)
        xs = [val(r, kind, pzero=0.5) for _ in range(N)]
        ys = list(xs)
        for _ in range(r.randint(0, 3)):
            ys[r.randrange(N)] = val(r, kind)
        lines = [cfg_line(cfg), 'new 0 vec ' + ' '.join(xs), 'new 1 vec ' + ' '.join(ys)]
        for h in (0, 1):
            if r.random() < 0.5:
                lines.append('root %d' % h)
        if r.random() < 0.4:
            lines.append('getmut 0 %d %s' % (r.randrange(N), val(r, kind)))
        lines += ['clone 0 8', 'rebase 0 1', 'tovec 0', 'tovec 1', 'pending 0', 'apply 0', 'apply 8',
                  'eq 0 8', 'root 0', 'root 8', 'root 1', 'intra 0', 'root 0', 'eq 0 8']
        out.append(Case(lines, 'rebase-vector', (), {'cfg': cfg}))
    return out


def fam_C08(rng, tier):
    """independently allocated pairs; after `rebase a b` the dump of (a, b) must share every
    position with equal contents."""
    out = []
    for cfg in pick_configs(rng, scale(tier, 120, 700)):
        kind, N, m = cfg
        for _ in range(2):
            r = sub(rng)
            maxl = min(N, 40)
            ln = r.randint(0, maxl)
            xs = [val(r, kind, pzero=0.45) for _ in range(ln)]
            motif = r.choice(['equal', 'k-diff', 'k-diff', 'prefix', 'longer'])
            ys = list(xs)
            if motif == 'k-diff' and ln:
                for _ in range(r.choice([1, 1, 2, 3])):
                    ys[r.randrange(ln)] = val(r, kind, pzero=0.2)
            elif motif == 'prefix':
                ys = xs[:r.randint(0, ln)]
            elif motif == 'longer':
                ys = xs + [val(r, kind) for _ in range(r.randint(0, min(N, maxl + 4) - ln))]
            vec = ln == N and len(ys) == N and N <= 40 and r.random() < 0.4
            k = 'vec' if vec else 'list'
            lines = [cfg_line(cfg)]
            lines.append('new 1 %s %s' % (k, ' '.join(ys)))           # base
            how = r.randrange(3)
            if how == 0:
                lines.append('new 0 %s %s' % (k, ' '.join(xs)))        # independently built
            elif how == 1:
                lines.append('de 0 %s %s' % (k, ' '.join(xs)))
            else:
                lines += ['new 7 %s %s' % (k, ' '.join(xs)), 'ssz 7']   # decoded "from storage"
                lines.append('unsszprev 0 %s' % k)
            for h in (0, 1):
                if r.random() < 0.5:
                    lines.append('root %d' % h)
            lines += ['dump 0 1', 'rebase 0 1', 'dump 0 1', 'tovec 0', 'tovec 1']
            out.append(Case(lines, 'rebase-sharing-' + motif, ('sharing',),
                            {'cfg': cfg, 'motif': motif, 'equal': xs == ys}))
    # equal (or nearly equal) independent trees where one side has un-applied writes at rebase time:
    # the backing trees decide what is shared, pending writes do not
    for cfg in pick_configs(rng, scale(tier, 60, 300)):
        kind, N, m = cfg
        r = sub(rng)
        maxl = min(N, 40)
        ln = r.randint(0, max(0, maxl - 1))
        xs = [val(r, kind, pzero=0.4) for _ in range(ln)]
        ys = list(xs)
        if ln and r.random() < 0.4:
            ys[r.randrange(ln)] = val(r, kind, pzero=0.0)
        lines = [cfg_line(cfg), 'new 1 list ' + ' '.join(ys), 'new 0 list ' + ' '.join(xs)]
        for h in (0, 1):
            if r.random() < 0.5:
                lines.append('root %d' % h)
        who = r.choice([0, 1, 1])
        for _ in range(r.randint(1, 2)):
            if r.random() < 0.6 and ln < N:
                lines.append('push %d %s' % (who, val(r, kind)))
            elif ln:
                lines.append('getmut %d %d %s' % (who, r.randrange(ln), val(r, kind)))
        lines += ['dump 0 1', 'rebase 0 1', 'dump 0 1', 'tovec 0', 'tovec 1', 'apply 0', 'apply 1', 'tovec 0', 'tovec 1',
                  'root 0', 'root 1']
        out.append(Case(lines, 'rebase-sharing-pending-writes', ('sharing',), {'cfg': cfg, 'motif': 'pending', 'equal': xs == ys}))
    # the rebased collection has internal sharing (built by repetition, or de-duplicated): sibling
    # subtrees are one node; the base is independent and differs in a few places
    for cfg in pick_configs(rng, scale(tier, 60, 300)):
        kind, N, m = cfg
        r = sub(rng)
        maxl = min(N, 40)
        ln = r.choice([maxl, r.randint(1, maxl)])
        x = val(r, kind, pzero=0.2)
        ys = [x] * ln
        pfk = PF[kind] or 1
        # differences in the leftmost places of aligned blocks (and elsewhere)
        spots = {0} | {r.randrange(ln) for _ in range(r.choice([0, 1, 2]))}
        if ln > 2 * pfk and r.random() < 0.7:
            spots.add((r.randrange(ln // (2 * pfk)) * 2 * pfk))
        for i in spots:
            if i < ln:
                ys[i] = val(r, kind, pzero=0.0)
        vec = ln == N and N <= 40 and r.random() < 0.5
        k = 'vec' if vec else 'list'
        lines = [cfg_line(cfg), 'new 1 %s %s' % (k, ' '.join(ys))]
        how = r.randrange(3)
        if vec:
            lines.append('fromelem 0 %s' % x)
        elif how == 0:
            lines.append('repeat 0 %d %s' % (ln, x))
        elif how == 1:
            lines += ['new 0 list ' + ' '.join([x] * ln), 'intra 0']
        else:
            lines += ['repeat 0 %d %s' % (ln, x), 'intra 0']
        for h in (0, 1):
            if r.random() < 0.5:
                lines.append('root %d' % h)
        lines += ['dump 0 1', 'rebase 0 1', 'dump 0 1', 'tovec 0', 'tovec 1']
        out.append(Case(lines, 'rebase-sharing-repeated-self', ('sharing',), {'cfg': cfg, 'motif': 'repeated-self', 'equal': False}))
    return out


def fam_C09(rng, tier):
    out = []
    for cfg in pick_configs(rng, scale(tier, 120, 700)):
        kind, N, m = cfg
        for _ in range(2):
            r = sub(rng)
            maxl = min(N, 40)
            ln = r.choice([maxl, r.randint(0, maxl), r.randint(0, maxl)])
            Z = zero_val(kind)
            X = val(r, kind, pzero=0.0)
            # contents over {0, x} with runs of zeros
            xs = []
            while len(xs) < ln:
                run = r.choice([1, 2, 3, 4, 8, 16, PF[kind] or 2, 2 * (PF[kind] or 2)])
                xs += [r.choice([Z, Z, X])] * run
            xs = xs[:ln]
            if r.random() < 0.3:
                xs = periodic_contents(r, kind, N)
                ln = len(xs)
            vec = ln == N and N <= 40 and r.random() < 0.3
            k = 'vec' if vec else 'list'
            lines = [cfg_line(cfg), 'new 0 %s %s' % (k, ' '.join(xs))]
            c = r.randrange(6)
            if c == 0:
                lines.append('root 0')
            elif c == 1:
                # partially filled memos: hash a clone that shares only part of the tree
                lines += ['clone 0 1']
                if ln:
                    lines += ['getmut 1 %d %s' % (r.randrange(ln), X), 'apply 1', 'root 1']
            elif c == 2:
                lines += ['new 1 %s %s' % (k, ' '.join(xs)), 'rebase 0 1']     # unhashed base
            elif c == 3 and not vec and ln < N:
                lines += ['push 0 %s' % Z]                                      # pending write
            elif c == 4 and ln:
                # hashed self, un-hashed base that differs only in the (full) left part
                ys = list(xs)
                ys[r.randrange(max(1, ln // 2))] = val(r, kind, pzero=0.0)
                lines += ['root 0', 'new 1 %s %s' % (k, ' '.join(ys)), 'rebase 0 1']
            lines += ['clone 0 8', 'intra 0', 'len 0', 'tovec 0', 'pending 0', 'apply 8', 'eq 0 8',
                      'root 0', 'root 8']
            lines += ['new 9 %s %s' % (k, ' '.join(xs + ([Z] if (c == 3 and not vec and ln < N) else [])))]
            lines += ['eq 0 9', 'root 9']
            # continuations, mirrored on the fresh copy 9
            for _ in range(6):
                cc = r.randrange(6)
                if cc == 0 and not vec:
                    x = val(r, kind)
                    lines += ['push 0 %s' % x, 'push 9 %s' % x]
                elif cc == 1:
                    i, x = r.randrange(0, max(1, ln)), val(r, kind)
                    lines += ['getmut 0 %d %s' % (i, x), 'getmut 9 %d %s' % (i, x)]
                elif cc == 2 and not vec:
                    n = r.choice([0, 1, 2, 4, 8, PF[kind] or 3, r.randint(0, max(1, ln))])
                    lines += ['pop 0 %d' % n, 'pop 9 %d' % n]
                elif cc == 3:
                    lines += ['apply 0', 'apply 9', 'rebase 0 9', 'rebase 9 0']
                elif cc == 4:
                    lines += ['intra 0']
                else:
                    lines += ['apply 0', 'apply 9', 'root 0', 'root 9']
                lines += ['len 0', 'tovec 0', 'len 9', 'tovec 9']
            lines += ['apply 0', 'apply 9', 'eq 0 9', 'root 0', 'root 9']
            out.append(Case(lines, 'intra-rebase', (), {'cfg': cfg}))
    out += hash_valued(rng, tier)
    return (out) + huge_repeat(rng, tier)


def hash_valued(rng, tier):
    """elements whose value equals the hash of an inner node elsewhere in the same tree (32-byte
    kinds): a (depth, hash) key must not confuse a leaf-level chunk with a higher node."""
    import hashlib
    out = []
    for kind in ('h256', 'u256'):
        for N in (8, 9, 16, 17, 32, 33):
            for _ in range(scale(tier, 2, 6)):
                r = sub(rng)
                m = r.choice(MAPS)
                n = r.choice([8, min(N, 16), N if N in (8, 16, 32) else 8])
                xs = [bytes(r.randrange(256) for _ in range(32)) for _ in range(n)]
                # overwrite some positions with hashes of aligned pairs / quads found elsewhere
                def H(a, b):
                    return hashlib.sha256(a + b).digest()
                for _ in range(r.randint(1, 3)):
                    i = 2 * r.randrange(n // 2)
                    j = r.randrange(n)
                    if j in (i, i + 1):
                        continue
                    xs[j] = H(xs[i], xs[i + 1])
                if n >= 8 and r.random() < 0.7:
                    a = r.choice([0, 4]) if n >= 8 else 0
                    b = 4 - a
                    xs[b] = H(xs[a], xs[a + 1]); xs[b + 1] = H(xs[a + 2], xs[a + 3])
                hx = [x.hex() for x in xs]
                k = 'vec' if (n == N and r.random() < 0.4) else 'list'
                lines = [cfg_line((kind, N, m)), 'new 0 %s %s' % (k, ' '.join(hx)), 'clone 0 8', 'intra 0',
                         'len 0', 'tovec 0', 'wf 0', 'eq 0 8', 'root 0', 'root 8',
                         'new 9 %s %s' % (k, ' '.join(hx)), 'eq 0 9', 'root 9']
                for i in range(n + 1):
                    lines.append('get 0 %d' % i)
                if k == 'list':
                    lines += ['pop 0 4', 'pop 9 4', 'tovec 0', 'eq 0 9', 'root 0', 'root 9']
                out.append(Case(lines, 'intra-hash-valued-elements', ('wellformed',), {'cfg': (kind, N, m)}))
    # a partially filled subtree on the right edge, and earlier a FULL smaller subtree whose elements
    # are the hashes of the right edge's inner nodes (zero hashes for its padding): the two agree on
    # the hash, and for some choices also on the number of elements they hold
    zh = [bytes(32)]
    for _ in range(8):
        zh.append(hashlib.sha256(zh[-1] + zh[-1]).digest())
    for kind in ('h256', 'u256'):
        for N in (8, 16, 32, 9, 33):
            for _ in range(scale(tier, 3, 8)):
                r = sub(rng)
                m = r.choice(MAPS)
                cap = 8 if N <= 9 else (16 if N <= 16 else 32)
                cap = min(cap, 1 << (N.bit_length() - 1)) if N not in (8, 16, 32) else cap
                d = r.choice([dd for dd in (2, 3, 4) if 2 ** dd < cap] or [2])
                t = r.randint(1, 2 ** d - 1)                     # elements on the right edge
                j = r.randint(1, d - 1) if d > 1 else 1           # level whose nodes become elements
                starts = [q for q in range(2 ** d, cap, 2 ** d)]  # the edge subtree is not the first one
                if not starts:
                    continue
                st = r.choice(starts)
                n = st + t
                if n > N:
                    continue
                tail = [bytes(r.randrange(256) for _ in range(32)) if r.random() < 0.8 else bytes(32) for _ in range(t)]
                layer = tail + [None] * (2 ** d - t)

                def up(layer, lvl):
                    nxt = []
                    for q in range(0, len(layer), 2):
                        a, b = layer[q], layer[q + 1]
                        if a is None and b is None:
                            nxt.append(None)
                        else:
                            nxt.append(hashlib.sha256((a if a is not None else zh[lvl]) + (b if b is not None else zh[lvl])).digest())
                    return nxt
                for lvl in range(j):
                    layer = up(layer, lvl)
                nodes = [x if x is not None else zh[j] for x in layer]   # 2^(d-j) hashes
                xs = [bytes(r.randrange(256) for _ in range(32)) for _ in range(n)]
                xs[st:] = tail
                w = len(nodes)
                p0 = r.choice([q for q in range(0, st, w) if q + w <= st])
                xs[p0:p0 + w] = nodes
                hx = [x.hex() for x in xs]
                k = 'vec' if (n == N and r.random() < 0.5) else 'list'
                lines = [cfg_line((kind, N, m)), 'new 0 %s %s' % (k, ' '.join(hx)), 'clone 0 8', 'intra 0',
                         'len 0', 'tovec 0', 'wf 0', 'eq 0 8', 'root 0', 'root 8',
                         'new 9 %s %s' % (k, ' '.join(hx)), 'eq 0 9', 'root 9', 'dump 0']
                for i in range(n + 1):
                    lines.append('get 0 %d' % i)
                if k == 'list':
                    lines += ['pop 0 %d' % w, 'pop 9 %d' % w, 'tovec 0', 'eq 0 9', 'root 0', 'root 9', 'push 0 ' + hx[0],
                              'apply 0', 'tovec 0', 'root 0']
                out.append(Case(lines, 'intra-hash-valued-right-edge', ('wellformed', 'memo'), {'cfg': (kind, N, m)}))
    return out


def fam_C10(rng, tier):
    out = []
    nsmall = [3, 8, 9, 16, 17, 32, 33]
    for cfg in pick_configs(rng, scale(tier, 120, 600)):
        kind, N, m = cfg
        r = sub(rng)
        maxl = min(N, 40)
        ln = r.randint(0, maxl)
        xs = [val(r, kind) for _ in range(ln)]
        lines = [cfg_line(cfg), 'new 0 list ' + ' '.join(xs)]
        if r.random() < 0.7:
            lines.append('root 0')
        lines += ['dump 0', 'clone 0 1', 'dump 0 1']                    # clone allocates nothing
        # flush of k keys
        k = r.choice([1, 1, 2, 3, 8])
        keys = set()
        for _ in range(k):
            if ln and r.random() < 0.7:
                keys.add(aim_index(r, ln, PF[kind]))
        nxt = ln
        while len(keys) < k and nxt < N and nxt < maxl + 8:
            keys.add(nxt); nxt += 1
        for i in sorted(keys):
            if i < ln:
                lines.append('getmut 0 %d %s' % (i, val(r, kind)))
            else:
                lines.append('push 0 %s' % val(r, kind))
        # elements that are only READ through a copy-on-write handle must not become writes
        for _ in range(r.randint(0, 4)):
            if ln:
                lines.append('cow 0 %d read' % r.randrange(ln))
        lines += ['apply 0', 'dump 1 0']                                 # old version first
        meta = {'cfg': cfg, 'k': len(keys), 'len': ln}
        lines += ['root 0', 'dump 1 0']
        # front removal
        ln2 = max(ln, nxt if keys and max(keys) >= ln else ln)
        n = r.choice([0, 1, 2, 4, 8, 16, PF[kind] or 3, r.randint(0, max(1, ln2))])
        n = min(n, ln2)
        lines += ['clone 0 2', 'pop 0 %d' % n, 'dump 2 0', 'len 0']
        meta['pop'] = n
        out.append(Case(lines, 'path-copying', ('clone_free', 'flush_bound', 'size_bound', 'pop_reuse', 'root_memoises'), meta))
    # the flush performed by List -> Vector conversion copies only the touched paths too
    for cfg in pick_configs(rng, scale(tier, 30, 150), ns=[4, 5, 7, 8, 9, 16, 17, 32, 33]):
        kind, N, m = cfg
        r = sub(rng)
        xs = [val(r, kind) for _ in range(N)]
        lines = [cfg_line(cfg), 'new 0 list ' + ' '.join(xs)]
        if r.random() < 0.7:
            lines.append('root 0')
        lines.append('clone 0 1')
        k = r.choice([1, 1, 2, 3])
        keys = set(aim_index(r, N, PF[kind]) for _ in range(k))
        for i in sorted(keys):
            lines.append(r.choice(['getmut 0 %d %s', 'cow 0 %d intomut %s']) % (i, val(r, kind)))
        lines += ['tovector 0 3', 'dump 1 3']
        out.append(Case(lines, 'path-copying-conversion', ('flush_bound',), {'cfg': cfg, 'k': len(keys), 'len': N,
                                                                             'dump_line': 'dump 1 3'}))
    # ... and when the list reaches N only through pushes that are still pending
    for cfg in pick_configs(rng, scale(tier, 30, 150), ns=[4, 5, 7, 8, 9, 16, 17, 32, 33]):
        kind, N, m = cfg
        r = sub(rng)
        j = r.randint(1, min(3, N))
        xs = [val(r, kind) for _ in range(N - j)]
        lines = [cfg_line(cfg), 'new 0 list ' + ' '.join(xs)]
        if r.random() < 0.7:
            lines.append('root 0')
        lines.append('clone 0 1')
        for _ in range(j):
            lines.append('push 0 %s' % val(r, kind))
        keys = set(range(N - j, N))
        if xs and r.random() < 0.5:
            i = aim_index(r, len(xs), PF[kind])
            keys.add(i)
            lines.append('getmut 0 %d %s' % (i, val(r, kind)))
        lines += ['tovector 0 3', 'dump 1 3', 'tovec 3', 'root 3']
        out.append(Case(lines, 'path-copying-conversion-pushes', ('flush_bound',), {'cfg': cfg, 'k': len(keys), 'len': N,
                                                                                    'dump_line': 'dump 1 3'}))
    out += readers_vs_hasher(rng, tier)
    return (out) + huge_repeat(rng, tier)


def utils_direct(rng, tier):
    out = []
    # utils::int_log / compute_level compared directly on ranges and boundary values
    r = sub(rng)
    lines = [cfg_line(('u64', 8, 'btree'))]
    ns = list(range(0, 70)) + [2 ** k + d for k in range(6, 64) for d in (-1, 0, 1)] + [2 ** 64 - 1, 2 ** 63 + 5]
    for n in ns:
        lines.append('intlog %d' % n)
    for pd in (0, 1, 2, 3, 4, 5):
        for d in (0, 1, 3, 10, 40, 63 - pd):
            for i in list(range(0, 40)) + [2 ** k for k in range(5, 63, 7)] + [3 * 2 ** 20, 2 ** 62 + 2 ** 10]:
                lines.append('complevel %d %d %d' % (i, d, pd))
    out.append(Case(lines, 'utils-direct', (), {'cfg': ('u64', 8, 'btree')}))
    return out


def fam_C11(rng, tier):
    out = []
    kinds = KINDS
    ns = SMALL_N if tier == 'thorough' else [1, 3, 4, 8, 9, 17, 32, 33]
    for kind in kinds:
        for N in ns:
            r = sub(rng)
            m = r.choice(MAPS)
            lens = list(range(N + 1))
            if tier != 'thorough' and len(lens) > 6:
                lens = sorted({0, 1, N - 1, N} | set(r.sample(lens, 3)))
            lines = [cfg_line((kind, N, m))]
            for ln in lens:
                xs = [val(r, kind, pzero=0.3) for _ in range(ln)]
                how = r.randrange(3)
                if how == 0:
                    lines.append('new 0 list ' + ' '.join(xs))
                elif how == 1:
                    lines.append('fromiterslow 0 ' + ' '.join(xs))
                else:
                    junk = [val(r, kind) for _ in range(min(3, N - ln))]
                    lines += ['new 0 list ' + ' '.join(junk + xs), 'pop 0 %d' % len(junk)]
                if r.random() < 0.5:
                    lines.append('root 0')
                for i in range(ln + 2):
                    lines += ['iterfrom 0 %d' % i, 'levels 0 %d' % i, 'clone 0 1', 'pop 1 %d' % i, 'len 1',
                              'tovec 1', 'pending 1', 'root 1']
                    if i <= ln:
                        lines += ['new 2 list ' + ' '.join(xs[i:]), 'eq 1 2', 'root 2']
                    lines += ['clone 0 3', 'popslow 3 %d' % i, 'tovec 3', 'eq 3 1']
            out.append(Case(lines, 'suffix-all-indices', (), {'cfg': (kind, N, m)}))
    out += utils_direct(rng, tier)
    # large N, aligned indices, after prior histories
    for cfg in pick_configs(rng, scale(tier, 30, 200)):
        kind, N, m = cfg
        r = sub(rng)
        g = HistGen(r, cfg, nslots=1, weights={'clone': 0, 'tovector': 0, 'tolist': 0, 'rebase': 0, 'eq': 0})
        lines = g.run(15)
        h = sorted(g.sh.s)[0] if g.sh.s else None
        if h is None or g.sh.s[h]['k'] != 'list':
            continue
        ln = len(g.sh.s[h]['xs'])
        idx = sorted({0, 1, ln, ln + 1} | {i for i in (2, 4, 8, 16, 32, PF[kind] or 3) if i <= ln})
        lines.append('apply %d' % h)
        for i in idx:
            lines += ['iterfrom %d %d' % (h, i), 'levels %d %d' % (h, i), 'clone %d 5' % h, 'pop 5 %d' % i,
                      'len 5', 'tovec 5', 'root 5', 'clone %d 6' % h, 'popslow 6 %d' % i, 'eq 5 6', 'root 6']
        out.append(Case(lines, 'suffix-after-history', (), {'cfg': cfg}))
    # pop_front at a high level: n a multiple of 2^16 (and 2^17), lengths that are and are not
    # multiples of the subtree size, contents not uniform
    for kind in ('u64', 'h256'):
        for k, extra in ((2, 0), (3, 0), (3, 5), (4, 0), (2, 65535)):
            r = sub(rng)
            cfg = (kind, 1048576, r.choice(MAPS))
            ln = k * 65536 + extra
            v = val(r, kind)
            lines = [cfg_line(cfg), 'repeat 0 %d %s' % (ln, v)]
            marks = sorted({0, 1, 65535, 65536, 65537, 131071, 131072, ln - 1, r.randrange(ln), r.randrange(ln)})
            marks = [i for i in marks if i < ln]
            for i in marks:
                lines.append('set 0 %d %s' % (i, val(r, kind)))
            lines += ['apply 0', 'root 0']
            for n in (65536, 131072, 65536 * k, 32768, 196608):
                if n > ln + 1:
                    continue
                lines += ['clone 0 1', 'pop 1 %d' % n, 'len 1', 'pending 1', 'root 1', 'clone 0 2', 'popslow 2 %d' % n,
                          'eq 1 2', 'root 2', 'get 1 0', 'get 1 %d' % max(ln - n - 1, 0), 'get 1 %d' % max(ln - n, 0)]
                for i in marks:
                    if i >= n:
                        lines.append('get 1 %d' % (i - n))
                lines += ['push 1 %s' % val(r, kind), 'apply 1', 'len 1', 'root 1', 'get 1 %d' % max(ln - n, 0)]
            out.append(Case(lines, 'level16-pop', (), {'cfg': cfg, 'len': ln}))
    return (out) + huge_repeat(rng, tier)


def fixed_size(kind):
    return KIND_SIZE[kind]


def enc_seq(kind, xs):
    """canonical SSZ of a sequence of hex values (generator side, to build malformed inputs)."""
    bs = [bytes.fromhex(x) if x != '-' else b'' for x in xs]
    if KIND_SIZE[kind] is not None:
        return b''.join(bs)
    off = 4 * len(bs)
    head = b''
    for b in bs:
        head += off.to_bytes(4, 'little')
        off += len(b)
    return head + b''.join(bs)


def fam_C12(rng, tier):
    out = []
    # round trips of reachable collections (with pending writes)
    out += hist_cases(rng, tier, 'ssz-of-histories', scale(tier, 40, 200), 3, 25,
                      weights={'sszrt': 14, 'read': 3}, preds=('ssz_roundtrip',))
    # (the deepest capacities too: byte-length arithmetic against N must not overflow)
    for cfg in pick_configs(rng, scale(tier, 90, 500)) + [(k, n, 'btree') for (k, n) in HUGE] * 2:
        kind, N, m = cfg
        r = sub(rng)
        maxl = min(N, 24)
        ln = r.randint(0, maxl)
        xs = [val(r, kind) for _ in range(ln)]
        lines = [cfg_line(cfg), 'sszmeta list', 'sszmeta vec']
        good = enc_seq(kind, xs)
        cands = [good]
        fs = KIND_SIZE[kind]
        # truncations, extensions
        for k in sorted({0, 1, 2, 3, 4, 5, len(good) // 2, len(good) - 1} if good else {0}):
            if k < len(good):
                cands.append(good[:k])
        cands.append(good + b'\0'); cands.append(good + b'\x01\x02\x03')
        if fs:
            cands.append(enc_seq(kind, [val(r, kind) for _ in range(N + 1)]) if N <= 40 else good)
            cands.append(good + bytes(fs))
        else:
            # offset corruptions
            if ln:
                for _ in range(6):
                    b = bytearray(good)
                    j = 4 * r.randrange(ln)
                    c = r.randrange(6)
                    o = int.from_bytes(b[j:j + 4], 'little')
                    o2 = [o + 1, max(0, o - 1), 0, 3, len(good) + 1, 2 ** 32 - 1][c]
                    b[j:j + 4] = o2.to_bytes(4, 'little')
                    cands.append(bytes(b))
            over = [val(r, kind) for _ in range(N + 1)] if N <= 40 else xs
            cands.append(enc_seq(kind, over))
            cands.append(bytes([4, 0, 0, 0]) + bytes(9))          # one item longer than 8 bytes
            cands.append(bytes([5, 0, 0, 0, 0]))                  # first offset not a multiple of 4
            cands.append(bytes([8, 0, 0, 0, 7, 0, 0, 0]))          # decreasing
        for _ in range(3):
            cands.append(bytes(r.randrange(256) for _ in range(r.randint(0, 12))))
        for b in cands:
            for k in ('list', 'vec'):
                if k == 'vec' and N > 40:
                    continue
                lines += ['drop 0', 'unssz 0 %s %s' % (k, hexs(b)), 'sszifok 0 %s' % hexs(b), 'len 0',
                          'tovec 0']
        # decode(encode(x)) == flushed x
        lines += ['new 1 list ' + ' '.join(xs)]
        if ln and r.random() < 0.6:
            lines.append('getmut 1 %d %s' % (r.randrange(ln), val(r, kind)))
        if ln < N and r.random() < 0.6:
            lines.append('push 1 %s' % val(r, kind))
        lines += ['ssz 1', 'unsszprev 2 list', 'apply 1', 'eq 1 2', 'tovec 2', 'ssz 2']
        out.append(Case(lines, 'ssz-malformed-and-roundtrip', ('ssz_strict',), {'cfg': cfg}))
    # elements that are themselves lists (of fixed- and of variable-size items): nested offset tables
    for kind, Ns in (('nest2', [3, 4, 5, 8, 9, 17]), ('nest', [4, 8, 9, 33]), ('var', [3, 8, 9, 33])):
        for N in Ns:
            for _ in range(scale(tier, 2, 6)):
                r = sub(rng)
                m = r.choice(MAPS)
                ln = r.randint(0, min(N, 9))
                xs = [val(r, kind, pzero=0.2) for _ in range(ln)]
                lines = [cfg_line((kind, N, m)), 'sszmeta list', 'sszmeta vec', 'new 1 list ' + ' '.join(xs), 'ssz 1', 'unsszprev 2 list', 'eq 1 2',
                         'tovec 2', 'ssz 2']
                if ln:
                    lines.append('getmut 1 %d %s' % (r.randrange(ln), val(r, kind, pzero=0.0)))
                if ln < N:
                    lines.append('push 1 %s' % val(r, kind, pzero=0.0))
                lines += ['ssz 1', 'unsszprev 3 list', 'apply 1', 'eq 1 3', 'ssz 3', 'root 1', 'root 3']
                if ln == N:
                    lines += ['tovector 1 4', 'ssz 4', 'unsszprev 5 vec', 'eq 4 5']
                good = enc_seq(kind, xs)
                for b in ([good[:k] for k in sorted({0, 3, 4, 5, len(good) // 2, max(0, len(good) - 1)}) if k < len(good)]
                          + [good + b'\0']):
                    lines += ['drop 0', 'unssz 0 list %s' % hexs(b), 'sszifok 0 %s' % hexs(b)]
                out.append(Case(lines, 'ssz-nested-elements', ('ssz_strict', 'ssz_roundtrip'), {'cfg': (kind, N, m)}))
    # exhaustive: all byte strings of length <= 3 for the 1-byte kind, N <= 3
    for N in (1, 2, 3):
        for k in ('list', 'vec'):
            lines = [cfg_line(('u8', N, 'maxvec'))]
            import itertools
            space = [b'']
            for L in (1, 2, 3):
                if tier == 'thorough' or L < 3:
                    alpha = [0, 1, 255] if L == 3 else [0, 1, 2, 255]
                    space += [bytes(t) for t in itertools.product(alpha, repeat=L)]
            for b in space:
                lines += ['drop 0', 'unssz 0 %s %s' % (k, hexs(b)), 'sszifok 0 %s' % hexs(b), 'len 0']
            out.append(Case(lines, 'ssz-exhaustive-small', ('ssz_strict',), {'cfg': ('u8', N, 'maxvec')}))
    return (out) + unit_elements(rng, tier)


def fam_C13(rng, tier):
    out = []
    kinds = KINDS
    ns = SMALL_N if tier == 'thorough' else [1, 3, 4, 8, 9, 17, 33]
    for kind in kinds:
        for N in ns:
            r = sub(rng)
            m = r.choice(MAPS)
            lines = [cfg_line((kind, N, m))]
            for n in range(0, N + 4):
                xs = [val(r, kind) for _ in range(n)]
                for k in ('list', 'vec'):
                    lines += ['drop 0', 'de 0 %s %s' % (k, ' '.join(xs)), 'len 0', 'ser 0', 'tovec 0']
            # with pending writes: ser, de, compare with the flushed original
            for _ in range(4):
                ln = r.randint(0, N)
                xs = [val(r, kind) for _ in range(ln)]
                lines += ['new 1 list ' + ' '.join(xs)]
                if ln:
                    lines.append('getmut 1 %d %s' % (r.randrange(ln), val(r, kind)))
                if ln < N:
                    lines.append('push 1 %s' % val(r, kind))
                lines += ['ser 1', 'deprev 2 list', 'apply 1', 'eq 1 2', 'pending 2']
            xs = [val(r, kind) for _ in range(N)]
            lines += ['new 3 vec ' + ' '.join(xs), 'getmut 3 %d %s' % (r.randrange(N), val(r, kind)), 'ser 3',
                      'deprev 4 vec', 'apply 3', 'eq 3 4']
            out.append(Case(lines, 'serde-all-lengths', (), {'cfg': (kind, N, m)}))
    return out


def fam_C14(rng, tier):
    """every script is replayed on the three map types; the three implementation streams must be
    identical (except `eq` on handles with pending writes, which no clause fixes)."""
    out = []
    n = scale(tier, 1, 6)
    base = []
    for cfg in pick_configs(rng, 40 * n, maps=['btree']):
        for _ in range(3):
            r = sub(rng)
            g = HistGen(r, cfg, nslots=3, weights={'bulk': 9, 'bulk_bad': 0, 'root': 8, 'sszrt': 4,
                                                   'cow': 8, 'itercow': 4, 'eq': 0}, invalid_rate=0.03)
            g.entry_ext = False
            lines = g.run(40)
            for h in sorted(g.sh.s):
                lines += ['tovec %d' % h, 'apply %d' % h, 'root %d' % h, 'ssz %d' % h]
            base.append((cfg, lines))
    for gi, (cfg, lines) in enumerate(base):
        for m in MAPS:
            c2 = (cfg[0], cfg[1], m)
            out.append(Case([cfg_line(c2)] + lines[1:], 'three-maps', ('maps_agree',),
                            {'cfg': c2, 'group': gi}))
    return (out) + map_level(rng, tier)


def fam_C15(rng, tier):
    """fault enumeration: invalid arguments for every operation, then the well-formedness reads."""
    out = []
    cfgs = pick_configs(rng, scale(tier, 80, 400))
    cfgs += [(k, n, 'btree') for (k, n) in HUGE] * scale(tier, 2, 6)
    for cfg in cfgs:
        kind, N, m = cfg
        for _ in range(2):
            r = sub(rng)
            huge = N > 2 ** 41
            w = {'bulk_bad': 7, 'bulk': 3, 'push_vec': 2, 'root_dirty': 1.0, 'read': 6}
            g = HistGen(r, cfg, nslots=2, weights=w, invalid_rate=0.3, allow_vectors=not huge)
            probes = []

            def obs(gg):
                for h in sorted(gg.sh.s):
                    ln = len(gg.sh.s[h]['xs'])
                    gg.lines.append('wf %d' % h)
            g.observe = obs
            lines = g.run(22)
            if huge:
                lines += ['apply 0', 'root 0', 'sszmeta vec', 'sszmeta list']
                # decoding into the deepest capacities: byte-length arithmetic against N
                two = [val(r, kind), val(r, kind)]
                good = enc_seq(kind, two)
                lines += ['unssz 5 list %s' % hexs(good), 'len 5', 'tovec 5', 'unssz 6 list %s' % hexs(good[:-1]),
                          'unssz 6 vec %s' % hexs(good), 'de 7 list ' + ' '.join(two), 'len 7']
            out.append(Case(lines, 'faults' + ('-huge-N' if huge else ''), ('wellformed', 'error_atomic'),
                            {'cfg': cfg}))
    out += motif_histories(rng, tier)
    return (((out) + unit_elements(rng, tier)) + map_level(rng, tier)) + utils_direct(rng, tier)


def fam_C16(rng, tier):
    out = []
    for cfg in pick_configs(rng, scale(tier, 40, 240), ns=[8, 9, 16, 17, 32, 33, 1024],
                            kinds=['u8', 'u64', 'u256', 'h256', 'var', 'cont']):
        kind, N, m = cfg
        r = sub(rng)
        maxl = min(N, 40)
        ln = r.randint(1, maxl)
        lines = [cfg_line(cfg)]
        # shared collections: one with internal sharing (repeat / intra), one plain, one relative
        x = val(r, kind, pzero=0.2)
        lines.append('repeat 0 %d %s' % (ln, x))
        xs = [val(r, kind) for _ in range(ln)]
        lines.append('new 1 list ' + ' '.join(xs))
        lines += ['clone 1 2']
        if ln:
            lines += ['getmut 2 %d %s' % (r.randrange(ln), val(r, kind)), 'apply 2']
        if r.random() < 0.5:
            lines += ['clone 1 3', 'intra 3']
        else:
            lines += ['new 3 list ' + ' '.join([x] * ln), 'intra 3' if r.random() < 0.5 else 'len 3']
        shared = [0, 1, 2, 3]
        nthreads = r.choice([2, 3, 4, 8, 16])
        lines.append('conc-begin')
        for t in range(nthreads):
            priv = 100 + 10 * t
            role = r.randrange(3)
            ops = []
            if role == 0:      # hash / read shared collections by reference
                for _ in range(r.randint(3, 8)):
                    h = r.choice(shared)
                    ops.append(r.choice(['root %d' % h, 'root %d' % h, 'tovec %d' % h, 'len %d' % h,
                                         'get %d %d' % (h, r.randrange(ln + 1))]))
            elif role == 1:    # hash clones that share nodes
                for _ in range(r.randint(2, 4)):
                    h = r.choice(shared)
                    ops += ['clone %d %d' % (h, priv), 'root %d' % priv, 'tovec %d' % priv]
            else:              # private clone: modify, flush, rebase, hash, intra
                h = r.choice(shared)
                ops.append('clone %d %d' % (h, priv))
                for _ in range(r.randint(2, 6)):
                    c = r.randrange(6)
                    if c == 0:
                        ops.append('getmut %d %d %s' % (priv, r.randrange(ln), val(r, kind)))
                    elif c == 1:
                        ops.append('push %d %s' % (priv, val(r, kind)))
                    elif c == 2:
                        ops += ['apply %d' % priv, 'root %d' % priv]
                    elif c == 3:
                        ops.append('rebase %d %d' % (priv, r.choice(shared)))
                    elif c == 4:
                        ops.append('intra %d' % priv)
                    else:
                        ops.append('pop %d %d' % (priv, r.randrange(3)))
                ops += ['apply %d' % priv, 'root %d' % priv, 'tovec %d' % priv]
            for o in ops:
                lines.append('T %d %s' % (t, o))
        lines.append('conc-end')
        # whatever was hashed by some thread is memoised now (observed before anything is hashed again).
        # The memo state after the block does not depend on the schedule (ConcFinal.lean) unless some
        # thread rebased: rebase_on copies the memo it finds at that instant into the nodes it
        # rebuilds, and what a later root computation of the rebased handle still has to visit — also
        # inside the base's nodes it now shares — depends on that. Then the dump is only checked by the
        # predicates on the implementation's side, not compared with the model's one schedule.
        had_rebase = any(' rebase ' in l for l in lines if l.startswith('T '))
        lines.append('dumpi 0 1 2 3' if had_rebase else 'dump 0 1 2 3')
        for h in shared:
            lines += ['root %d' % h, 'tovec %d' % h]
        lines.append('dump 0 1 2 3')
        out.append(Case(lines, 'threads-%d' % nthreads, ('memo', 'no_deadlock', 'conc_memoises'), {'cfg': cfg, 'threads': nthreads}))
    out += conc_heavy(rng, tier)
    return out


def map_level(rng, tier):
    """the three update-map types driven directly through the public `UpdateMap` trait (insert,
    get, get_mut_with, len, is_empty, max_index, for_each_range with early exit and with an error,
    ==, clone), then handed to `bulk_update`. (`for_each_range` is only called with start <= end: for
    start > end the BTreeMap implementation panics inside `BTreeMap::range` while the Vec-backed ones
    return Ok — no collection operation calls it that way, and the properties speak about
    collections.)"""
    out = []
    for cfg in pick_configs(rng, scale(tier, 40, 240)):
        kind, N, m = cfg
        r = sub(rng)
        big = (m == 'btree')
        def key():
            c = [r.randrange(0, 12), r.randrange(0, 12), r.randrange(0, 40), r.randrange(0, 300)]
            if big:
                c += [2 ** 32 + r.randrange(4), 2 ** 63, 2 ** 64 - 1, 2 ** 64 - 2]
            else:
                c += [4095, r.randrange(300, 4096)]
            return r.choice(c)
        lines = [cfg_line(cfg), 'mnew 0', 'mcap 1 %d' % r.choice([0, 1, 8, 100]), 'misempty 0', 'misempty 1', 'mlen 1',
                 'mmax 0', 'mmax 1', 'meq 0 1']
        for _ in range(r.randint(8, 30)):
            mi = r.choice([0, 0, 1, 2])
            if mi == 2 and not any(l.startswith('mclone') for l in lines):
                lines.append('mclone %d 2' % r.choice([0, 1]))
            c = r.randrange(12)
            if c <= 2:
                lines.append('mins %d %d %s' % (mi, key(), val(r, kind)))
            elif c == 3:
                lines.append('mget %d %d' % (mi, key()))
            elif c <= 5:
                lines.append('mgm %d %d %s %s' % (mi, key(), r.choice(['none', val(r, kind), val(r, kind)]), val(r, kind)))
            elif c == 6:
                lines += ['mlen %d' % mi, 'misempty %d' % mi, 'mmax %d' % mi]
            elif c <= 8:
                a = key(); b = key()
                if a > b:
                    a, b = b, a
                b = min(r.choice([b, b + 1, a, 2 ** 64 - 1 if big else 4096]), 2 ** 64 - 1)
                if a > b:
                    a, b = b, a
                tail = r.choice(['', '', ' brk %d' % r.randint(1, 4), ' err %d' % r.randint(1, 4)])
                lines.append('mrange %d %d %d%s' % (mi, a, b, tail))
            elif c == 9:
                lines.append('meq %d %d' % (mi, r.choice([0, 1, 2]) if any(l.startswith('mclone') for l in lines) else r.choice([0, 1])))
            elif c == 10:
                lines.append('mclone %d 2' % r.choice([0, 1]))
            else:
                lines.append('mget %d %d' % (mi, key()))
            if r.random() < 0.25:
                lines.append('mrange %d 0 %d' % (mi, 2 ** 64 - 1 if big else 4096))
        # hand the maps to bulk_update
        n = r.randint(0, min(N, 12))
        xs = [val(r, kind) for _ in range(n)]
        for mi in (0, 1):
            lines += ['new %d list %s' % (5 + mi, ' '.join(xs)), 'mbulk %d %d' % (5 + mi, mi), 'len %d' % (5 + mi),
                      'pending %d' % (5 + mi), 'tovec %d' % (5 + mi), 'wf %d' % (5 + mi), 'apply %d' % (5 + mi),
                      'tovec %d' % (5 + mi), 'root %d' % (5 + mi)]
        # a map built to be admissible: overwrite some, extend contiguously
        lines.append('mnew 3')
        for i in r.sample(range(n), min(n, r.randint(0, 3))) if n else []:
            lines.append(r.choice(['mins 3 %d %s' % (i, val(r, kind)), 'mgm 3 %d %s %s' % (i, xs[i], val(r, kind))]))
        ext = list(range(n, min(N, n + r.randint(0, 3))))
        r.shuffle(ext)
        for i in ext:
            lines.append('mins 3 %d %s' % (i, val(r, kind)))
        lines += ['new 7 list ' + ' '.join(xs), 'mbulk 7 3', 'len 7', 'tovec 7', 'wf 7', 'apply 7', 'tovec 7', 'root 7',
                  'mbulk 7 3', 'len 7', 'apply 7', 'tovec 7']
        out.append(Case(lines, 'map-level', ('wellformed',), {'cfg': cfg}))
    return out


def unit_elements(rng, tier):
    """elements of SSZ length zero (a container without fields): the decoder must answer non-empty
    input with its ZeroLengthItem error, never with a division by zero; the in-memory operations
    work as for any other element."""
    out = []
    for N in (1, 2, 4, 5, 8):
        for m in MAPS:
            r = sub(rng)
            lines = [cfg_line(('unit', N, m)), 'sszmeta list', 'sszmeta vec']
            for b in (b'\0', b'\0\0', bytes(4), bytes(r.randrange(256) for _ in range(r.randint(1, 9)))):
                for k in ('list', 'vec'):
                    lines += ['unssz 0 %s %s' % (k, hexs(b))]
            lines += ['unssz 0 list -', 'len 0', 'unssz 1 vec -']
            n = r.randint(0, N)
            lines += [('new 2 list ' + ' '.join(['-'] * n)).rstrip(), 'len 2', 'tovec 2', 'root 2', 'iter 2']
            if n < N:
                lines += ['push 2 -', 'apply 2', 'len 2', 'root 2']
            lines += ['fromelem 3 -', 'len 3', 'root 3', 'new 4 list ' + ' '.join(['-'] * (N + 1)), 'repeat 5 %d -' % N, 'len 5',
                      'root 5', 'intra 5', 'root 5', 'pop 5 1', 'len 5', 'de 6 list ' + ' '.join(['-'] * min(N, 3)), 'len 6']
            out.append(Case(lines, 'unit-elements', ('wellformed',), {'cfg': ('unit', N, m)}))
    return out


def tree_direct(rng, tier):
    """`Tree::with_updated_leaf` and `Tree::tree_hash` used directly, interleaved: appends into a
    partially filled (packed) leaf that has already been hashed, overwrites of hashed leaves, then
    the hash again and the memo fields (no memo may survive a change of the subtree it labels)."""
    out = []
    for kind in KINDS:
        pf = PF[kind] or 1
        r = sub(rng)
        lines = [cfg_line((kind, 8, 'btree'))]
        for depth in (0, 1, 2, 3):
            cap = (1 << depth) * pf
            for _ in range(scale(tier, 1, 3)):
                k = r.randint(0, cap - 1) if cap > 1 else 0
                xs = [val(r, kind, pzero=0.3) for _ in range(k)]
                lines.append('bnew 0 %d 0' % depth)
                lines += ['bpush 0 %s' % x for x in xs]
                lines += ['bfinish 0 1']
                cur = 1
                n = k
                for step in range(r.randint(2, 6)):
                    if r.random() < 0.6:
                        lines.append('thash %d' % cur)
                    c = r.randrange(3)
                    if c == 0 and n < cap:
                        i = n; n += 1                      # append at the end of the filled part
                    elif n:
                        i = r.randrange(n)                 # overwrite
                    else:
                        i = 0; n = max(n, 1)
                    lines.append('tupd %d %d %s %d %d' % (cur, i, val(r, kind, pzero=0.2), depth, cur + 1))
                    cur += 1
                    lines += ['tlen %d' % cur, 'tget %d %d %d' % (cur, i, depth), 'tdump %d' % cur, 'thash %d' % cur,
                              'tdump %d' % cur]
        out.append(Case(lines, 'tree-direct-update-hash', ('memo',), {'cfg': (kind, 8, 'btree')}))
    return out


def huge_repeat(rng, tier):
    """collections far too long to materialise (2^23 .. 2^63 equal elements; a DAG of a few dozen
    nodes in the implementation and in the model, `n` copies of `v` symbolically on the spec side):
    lengths, reads at the ends, roots against the closed-form SSZ root, self-deduplication, aligned
    front removal, over-capacity requests."""
    out = []
    cfgs = [('u64', 2 ** 50), ('h256', 2 ** 48), ('u64', 2 ** 40), ('h256', 2 ** 40), ('u8', 2 ** 40),
            ('u256', 2 ** 40), ('var', 2 ** 40), ('u64', 2 ** 63), ('h256', 2 ** 63), ('u64', 2 ** 60)]
    for kind, N in cfgs * scale(tier, 1, 3):
        r = sub(rng)
        m = r.choice(MAPS)
        pfk = PF[kind] or 1
        lines = [cfg_line((kind, N, m))]
        for rnd in range(3):
            e = r.randint(23, N.bit_length() - 1)
            n = r.choice([2 ** e, 2 ** e + 1, 2 ** e - 1, 2 ** e + pfk, N, N - 1, r.randrange(2 ** 23, N + 1),
                          (r.randrange(2 ** 23, N + 1) // pfk) * pfk])
            n = max(2 ** 23, min(n, N))
            v = val(r, kind, pzero=0.2)
            lines += ['repeat 0 %d %s' % (n, v), 'len 0', 'isempty 0', 'pending 0', 'get 0 0', 'get 0 %d' % (n - 1),
                      'get 0 %d' % n, 'get 0 %d' % r.randrange(n)]
            if r.random() < 0.5:
                lines.append('root 0')
            lines += ['intra 0', 'len 0', 'get 0 %d' % (n - 1), 'root 0', 'dump 0']
            # front removal aligned with a high level; the last subtree of the suffix holds only a few
            # elements (pop_front counts the elements of the last subtree one by one)
            maxe = N.bit_length() - 1
            L = r.randint(max(23, maxe - 12), maxe - 1) if maxe > 23 else 22
            q = r.randint(1, max(1, min(8, N // 2 ** L - 1)))
            rem = r.choice([1, 2, 3, pfk, pfk + 1, 2 * pfk, 40])
            n2 = q * 2 ** L + rem
            if n2 <= N:
                mm = r.choice([m_ for m_ in range(1, q + 1) if m_ % 2 == 1])   # odd: the level is exactly L
                k = mm * 2 ** L
                lines += ['repeat 4 %d %s' % (n2, v), 'root 4' if r.random() < 0.5 else 'len 4', 'clone 4 1',
                          'pop 1 %d' % k, 'len 1', 'pending 1', 'root 1', 'get 1 0', 'get 1 %d' % (n2 - k - 1),
                          'get 1 %d' % (n2 - k), 'len 4', 'root 4', 'repeat 2 %d %s' % (n2 - k, v), 'root 2', 'dump 1 2']
            # three of the four quarter subtrees pushed into the builder by pop_front
            if N & (N - 1) == 0 and N >= 2 ** 26:
                Lq = N.bit_length() - 3
                n3 = 3 * 2 ** Lq + r.choice([1, 2, pfk + 1]) + 2 ** Lq * 0
                n4 = 4 * 2 ** Lq - 2 ** Lq + 2 ** Lq  # = N
                for nn, kk in ((n3 + 2 ** Lq if n3 + 2 ** Lq <= N else n3, 2 ** Lq), (n3, 2 ** Lq)):
                    lines += ['repeat 6 %d %s' % (nn, v), 'clone 6 7', 'pop 7 %d' % kk, 'len 7', 'root 7', 'get 7 0',
                              'get 7 %d' % (nn - kk - 1), 'get 7 %d' % (nn - kk)]
            lines += ['repeat 3 %d %s' % (N + r.choice([1, 2, 2 ** 20]), v), 'pop 0 %d' % (n + 1), 'len 0', 'apply 0',
                      'pending 0']
        out.append(Case(lines, 'huge-repeat', ('memo',), {'cfg': (kind, N, m)}))
    return out


def readers_vs_hasher(rng, tier):
    out = []
    # one thread hashes each shared, not yet hashed collection while many others only read its memo
    # fields (rebasing private clones on it walks both trees and takes every node's read lock): every
    # memo must be stored however the readers and the one writer interleave
    for cfg in [('h256', 1024, 'btree'), ('u64', 1024, 'maxvec'), ('cont', 33, 'vec'), ('h256', 1024, 'vec')] * scale(tier, 1, 2):
        kind, N, m = cfg
        r = sub(rng)
        lines = [cfg_line(cfg)]
        for rnd in range(scale(tier, 3, 4)):
            n = N
            xs = [val(r, kind, pzero=0.05) for _ in range(n)]
            ys = list(xs)
            for _ in range(3):
                ys[r.randrange(n)] = val(r, kind, pzero=0.0)
            lines += ['new 0 list ' + ' '.join(xs), 'new 1 list ' + ' '.join(ys), 'conc-begin']
            for t in range(16):
                priv = 100 + 10 * t
                if t == 0:
                    ops = ['root 0']
                elif t == 1:
                    ops = ['root 1']
                else:
                    a, b = (0, 1) if t % 2 == 0 else (1, 0)
                    ops = []
                    for k in range(3):
                        ops += ['clone %d %d' % (a, priv + k), 'rebase %d %d' % (priv + k, b)]
                for o in ops:
                    lines.append('T %d %s' % (t, o))
            lines += ['conc-end', 'dump 0 1', 'root 0', 'root 1']
        out.append(Case(lines, 'threads-readers-vs-hasher', ('no_deadlock', 'memo', 'conc_memoises'), {'cfg': cfg, 'threads': 16}))
    return out


def conc_heavy(rng, tier):
    """many threads hash the same large, not-yet-hashed collection at once (by reference and through
    clones that share its nodes), several rounds with a fresh collection each: un-packed leaves,
    nested-list elements whose own hashing forks, packed leaves."""
    out = []
    cfgs = [('h256', 1024, 'maxvec'), ('nest', 1024, 'maxvec'), ('nest', 33, 'btree'), ('cont', 33, 'vec'),
            ('u64', 1024, 'maxvec'), ('var', 1024, 'btree'), ('h256', 33, 'btree'), ('nest', 8, 'vec')]
    for cfg in cfgs * scale(tier, 1, 2):
        kind, N, m = cfg
        r = sub(rng)
        lines = [cfg_line(cfg)]
        for rnd in range(scale(tier, 2, 3)):
            n = min(N, r.choice([N, 200, 600]) if N > 40 else N)
            if kind == 'nest':
                # few outer elements, large inner lists: each element root is a deep rayon fork-join
                n = min(N, 48)
                xs = [hexs(bytes(r.randrange(256) for _ in range(8 * r.choice([256, 512, 1024])))) for _ in range(n)]
                if rnd % 2 == 1:
                    xs = [xs[0]] * n          # (built by `repeat` below: one leaf shared by every position)
            else:
                xs = [val(r, kind, pzero=0.1) for _ in range(n)]
            if kind == 'nest' and rnd % 2 == 1 and n:
                lines.append('repeat 0 %d %s' % (n, xs[0]))
            else:
                lines.append('new 0 list ' + ' '.join(xs))
            lines.append('clone 0 1')
            if n:
                lines += ['getmut 1 %d %s' % (r.randrange(n), val(r, kind, pzero=0.0)), 'apply 1']
            nthreads = 16
            lines.append('conc-begin')
            for t in range(nthreads):
                priv = 100 + 10 * t
                role = t % 4
                if role == 0:
                    ops = ['root 0', 'root 1', 'root 0']
                elif role == 1:
                    ops = ['clone 0 %d' % priv, 'root %d' % priv, 'root 1']
                elif role == 2:
                    ops = ['root 1', 'clone 1 %d' % priv, 'getmut %d %d %s' % (priv, r.randrange(max(1, n)), val(r, kind)),
                           'apply %d' % priv, 'root %d' % priv, 'root 0']
                else:
                    ops = ['clone 0 %d' % priv, 'rebase %d 1' % priv, 'root %d' % priv, 'intra %d' % priv, 'root %d' % priv]
                for o in ops:
                    lines.append('T %d %s' % (t, o))
            lines.append('conc-end')
            if kind != 'nest':
                lines.append('dumpi 0 1')      # (threads rebase here: see fam_C16)
            lines += ['root 0', 'root 1', 'len 0']
        out.append(Case(lines, 'threads-heavy-' + kind, ('no_deadlock', 'memo', 'conc_memoises'), {'cfg': cfg, 'threads': 16}))
    out += readers_vs_hasher(rng, tier)
    # many threads hash fresh, private, very deep and nearly empty trees at once (zero subtrees deeper
    # than the precomputed table are computed on the fly)
    for cfg in [('u64', 2 ** 60, 'btree'), ('h256', 2 ** 63, 'btree'), ('u64', 2 ** 63, 'btree')] * scale(tier, 16, 24):
        kind, N, m = cfg
        r = sub(rng)
        # shared, not yet hashed, very deep trees: every thread starts by hashing them at the same time
        lines = [cfg_line(cfg), 'new 0 list ' + ' '.join(val(r, kind) for _ in range(r.randint(0, 3))),
                 'new 1 list ' + ' '.join(val(r, kind) for _ in range(r.randint(1, 5))), 'conc-begin']
        for t in range(16):
            priv = 100 + 10 * t
            xs = [val(r, kind) for _ in range(r.randint(0, 5))]
            for o in ['root 0', 'root 1', 'new %d list %s' % (priv, ' '.join(xs)), 'root %d' % priv,
                      'push %d %s' % (priv, val(r, kind)), 'apply %d' % priv, 'root %d' % priv, 'pop %d 1' % priv,
                      'root %d' % priv]:
                lines.append('T %d %s' % (t, o))
        lines += ['conc-end', 'root 0', 'root 1', 'new 2 list ' + ' '.join(val(r, kind) for _ in range(3)), 'root 2',
                  'empty 3', 'root 3']
        # process-wide state (e.g. a lazily filled static table) is cold only once per process
        out.append(Case(lines, 'threads-deep-trees', ('no_deadlock',), {'cfg': cfg, 'threads': 16, 'isolate': True}))
    return out


def fam_C17(rng, tier):
    out = []
    # exhaustive small: depth <= D, k <= cap + 1, every packing factor
    D = 6 if tier == 'thorough' else 4
    for kind in KINDS:
        pf = PF[kind] or 1
        r = sub(rng)
        lines = [cfg_line((kind, 8, 'btree'))]
        for depth in range(0, D + 1):
            cap = (1 << depth) * pf
            ks = list(range(0, cap + 2))
            if len(ks) > 40 and tier != 'thorough':
                ks = sorted({0, 1, pf - 1, pf, pf + 1, cap - 1, cap, cap + 1} | set(r.sample(ks, 10)))
            elif len(ks) > 300:
                ks = sorted({0, 1, pf - 1, pf, pf + 1, cap - 1, cap, cap + 1} | set(r.sample(ks, 120)))
            for k in ks:
                xs = [val(r, kind, pzero=0.3) for _ in range(k)]
                lines.append('bnew 0 %d 0' % depth)
                for x in xs:
                    lines.append('bpush 0 %s' % x)
                if k <= cap:
                    lines += ['bfinish 0 0', 'tlen 0', 'thash 0']
                    for i in sorted({0, k - 1, k, cap - 1} & set(range(0, cap))):
                        lines.append('tget 0 %d %d' % (i, depth))
                    # one-at-a-time insertion into an empty tree
                    if k <= 48:
                        lines.append('tzero 1 %d' % depth)
                        for i, x in enumerate(xs):
                            lines.append('tupd 1 %d %s %d 1' % (i, x, depth))
                        lines += ['teq 0 1', 'tdump 0']
        out.append(Case(lines, 'builder-exhaustive-small', (), {'cfg': (kind, 8, 'btree')}))
    # deep sparse trees, depth limit
    for kind in KINDS:
        pf = PF[kind] or 1
        pd = int_log(pf)
        r = sub(rng)
        lines = [cfg_line((kind, 8, 'btree'))]
        for depth in [10, 20, 40, 48, 58, 63 - pd, 64 - pd, 64, 100, 2 ** 32, 2 ** 63, 2 ** 64 - 1 - pd, min(2 ** 64 - 1, 2 ** 64 - pd), 2 ** 64 - 1]:
            k = r.randint(0, 70)
            xs = [val(r, kind) for _ in range(k)]
            lines.append('bnew 0 %d 0' % depth)
            if depth + pd > 63:
                continue
            for x in xs:
                lines.append('bpush 0 %s' % x)
            lines += ['bfinish 0 0', 'tlen 0']
            if depth <= 48:
                lines.append('thash 0')
            for i in sorted({0, max(0, k - 1), k, 2 ** (depth + pd) - 1}):
                lines.append('tget 0 %d %d' % (i, depth))
            lines.append('tdump 0')
        out.append(Case(lines, 'builder-deep', (), {'cfg': (kind, 8, 'btree')}))
    # whole-subtree pushes at every level (as pop_front does)
    for cfg in pick_configs(rng, scale(tier, 40, 200), ns=[8, 9, 16, 17, 32, 33, 1024]):
        kind, N, m = cfg
        pf = PF[kind] or 1
        pd = int_log(pf)
        r = sub(rng)
        depth = tree_depth(kind, N)
        ln = r.randint(0, min(N, 40))
        xs = [val(r, kind) for _ in range(ln)]
        lines = [cfg_line(cfg), 'new 0 list ' + ' '.join(xs)]
        idx = [i for i in (1, 2, 4, 8, 16, 32, pf, 2 * pf, 3, 5, 6, 12) if i <= ln]
        for i in sorted(set(idx)):
            tz = (i & -i).bit_length() - 1
            level = 0 if tz < pd else tz
            lines += ['lvnodes 0 %d 10' % i, 'pushnodes 1 %d %d' % (depth, level), 'bfinish 1 2', 'tlen 2',
                      'thash 2', 'new 3 list ' + ' '.join(xs[i:]), 'treeof 3 4', 'teq 2 4']
        out.append(Case(lines, 'builder-push-node', (), {'cfg': cfg}))
    # every slot of a level filled by whole-subtree pushes (pop_front never fills the last one), then
    # one push too many
    for kind in KINDS:
        pf = PF[kind] or 1
        pd = int_log(pf)
        r = sub(rng)
        lines = [cfg_line((kind, 8, 'btree'))]
        slot = 10
        for depth in (1, 2, 3, 4):
            for L in sorted({pd, pd + 1, depth + pd - 1, depth + pd}):
                if L < pd or L > depth + pd or (L == 0 and pd > 0):
                    continue
                cnt = 2 ** (depth + pd - L)
                if cnt > 16 or 2 ** L > 64:
                    continue
                # a full subtree of 2^L elements
                vals_ = [val(r, kind) for _ in range(2 ** L)]
                lines.append('bnew 1 %d 0' % (L - pd))
                lines += ['bpush 1 %s' % x for x in vals_]
                lines.append('bfinish 1 %d' % slot)
                lines.append('bnew 2 %d %d' % (depth, L))
                fill = r.choice([cnt, cnt, cnt - 1]) if cnt > 1 else cnt
                for _ in range(fill):
                    lines.append('bpushnode 2 %d %d' % (slot, 2 ** L))
                if fill == cnt:
                    lines += ['bnew 3 %d %d' % (depth, L)]
                    for _ in range(cnt):
                        lines.append('bpushnode 3 %d %d' % (slot, 2 ** L))
                    lines.append(r.choice(['bpushnode 3 %d %d' % (slot, 2 ** L), 'bpushnode 3 %d 0' % slot]))   # one too many: BuilderFull, whatever its length
                lines += ['bfinish 2 %d' % (slot + 1), 'tlen %d' % (slot + 1), 'thash %d' % (slot + 1),
                          'tget %d %d %d' % (slot + 1, fill * 2 ** L - 1, depth), 'tget %d %d %d' % (slot + 1, fill * 2 ** L, depth)]
                slot += 2
        if pf > 1:
            # a value pushed after a whole (shared, possibly hashed) partial packed leaf was pushed as a
            # node: the builder must not extend a node it does not own
            for k in sorted({1, pf - 1, max(1, pf // 2)}):
                vals_ = [val(r, kind) for _ in range(k)]
                lines.append('bnew 1 0 0')
                lines += ['bpush 1 %s' % x for x in vals_]
                lines += ['bfinish 1 %d' % slot]
                if r.random() < 0.6:
                    lines.append('thash %d' % slot)
                lines += ['bnew 2 1 0', 'bpushnode 2 %d %d' % (slot, k), 'bpush 2 %s' % val(r, kind, pzero=0.0),
                          'bfinish 2 %d' % (slot + 1), 'tlen %d' % (slot + 1), 'thash %d' % (slot + 1), 'tdump %d' % (slot + 1),
                          'tdump %d' % slot]
                slot += 2
        out.append(Case(lines, 'builder-push-node-full-level', ('memo',), {'cfg': (kind, 8, 'btree')}))
    return (out) + huge_repeat(rng, tier)


def common_core(rng, tier):
    """a small shared pool run by every stateful property's check: motif-seeded histories with
    well-formedness probes and random histories ending in flush / root / equality with a freshly
    built copy. A change to the crate rarely respects the property boundaries."""
    cs = motif_histories(rng, tier)
    cs += hist_cases(rng, tier, 'core-history', scale(tier, 24, 100), 3, 40, final_roots=True, pzero=0.5,
                     weights={'root': 8, 'rebase': 7, 'intra': 4, 'pop': 6, 'bulk': 6, 'itercow': 3, 'cow': 6},
                     preds=('wellformed',))
    return cs


def _with_core(fam):
    def f(rng, tier):
        return fam(rng, tier) + common_core(rng, tier)
    return f


FAMILIES = {
    'C01': fam_C01, 'C02': fam_C02, 'C03': fam_C03, 'C04': fam_C04, 'C05': fam_C05, 'C06': fam_C06,
    'C07': fam_C07, 'C08': fam_C08, 'C09': fam_C09, 'C10': fam_C10, 'C11': fam_C11, 'C12': fam_C12,
    'C13': fam_C13, 'C14': fam_C14, 'C15': fam_C15, 'C16': fam_C16, 'C17': fam_C17,
}
for _p in ('C01', 'C02', 'C03', 'C04', 'C05', 'C06', 'C07', 'C08', 'C09', 'C10', 'C11', 'C15'):
    FAMILIES[_p] = _with_core(FAMILIES[_p])
