"""Parsing of `dump` / `tdump` output and the direct physical-structure predicates
(C03 memo validity, C08 sharing after rebase, C10 path copying / size), evaluated on the
*implementation's* dumps with an independent Python implementation of the hashes."""
import hashlib

ZERO = bytes(32)
_zero_hashes = [ZERO]


def zero_hash(d):
    while len(_zero_hashes) <= d:
        h = _zero_hashes[-1]
        _zero_hashes.append(hashlib.sha256(h + h).digest())
    return _zero_hashes[d]


def h2(a, b):
    return hashlib.sha256(a + b).digest()


def unhex(s):
    return b'' if s == '-' else bytes.fromhex(s)


def leaf_hash(kind, v):
    """T::tree_hash_root for the unpacked kinds."""
    if kind == 'h256':
        return v
    if kind == 'cont':
        a = v[0:8].ljust(32, b'\0')
        b = v[8:9].ljust(32, b'\0')
        c = v[9:41]
        return h2(h2(a, b), h2(c, ZERO))
    if kind == 'unit':
        return ZERO
    if kind == 'nestv':      # Vector<u64, U8>: two chunks, no length mixed in
        return h2(v[0:32], v[32:64])
    if kind == 'var':
        return h2(v.ljust(32, b'\0'), len(v).to_bytes(32, 'little'))
    if kind == 'nest':
        layer = [v[32 * i:32 * (i + 1)].ljust(32, b'\0') for i in range((len(v) + 31) // 32)]
        for d in range(8):
            if len(layer) % 2:
                layer.append(zero_hash(d))
            layer = [h2(layer[i], layer[i + 1]) for i in range(0, len(layer), 2)] or [zero_hash(d + 1)]
        return h2(layer[0], (len(v) // 8).to_bytes(32, 'little'))
    if kind == 'nest2':
        items = []
        if v:
            first = int.from_bytes(v[0:4], 'little')
            offs = [int.from_bytes(v[4 * i:4 * i + 4], 'little') for i in range(first // 4)] + [len(v)]
            items = [v[offs[i]:offs[i + 1]] for i in range(len(offs) - 1)]
        layer = [leaf_hash('var', it) for it in items] + [ZERO] * (4 - len(items))
        root = h2(h2(layer[0], layer[1]), h2(layer[2], layer[3]))
        return h2(root, len(items).to_bytes(32, 'little'))
    raise ValueError(kind)


class Node:
    __slots__ = ('num', 'tag', 'vals', 'memo', 'depth', 'l', 'r', '_hash', '_elems')

    def __init__(self, num, tag):
        self.num, self.tag = num, tag
        self.vals = None; self.memo = None; self.depth = None; self.l = None; self.r = None
        self._hash = None; self._elems = None


def parse_dump(text):
    """'ok [len,depth] <tree> [len,depth] <tree> ...' -> list of (len, depth, root Node) and the
    table num -> Node. For `tdump` (no headers) len/depth are None."""
    toks = text.split()
    assert toks[0] == 'ok', text
    toks = toks[1:]
    nodes = {}
    pos = [0]

    def tree():
        t = toks[pos[0]]
        pos[0] += 1
        if t.startswith('^'):
            return nodes[int(t[1:])]
        tag = t[0]
        if tag == 'Z':
            num, d = t[1:].split(':')
            n = Node(int(num), 'Z'); n.depth = int(d)
            nodes[n.num] = n
            return n
        if tag == 'L':
            num, v, m = t[1:].split(':')
            n = Node(int(num), 'L'); n.vals = [unhex(v)]; n.memo = None if m == '-' else unhex(m)
            nodes[n.num] = n
            return n
        if tag == 'P':
            num, vs, m = t[1:].split(':')
            n = Node(int(num), 'P')
            n.vals = [unhex(x) for x in vs.split(',')] if vs != '' else []
            n.memo = None if m == '-' else unhex(m)
            nodes[n.num] = n
            return n
        if tag == 'N':
            body = t[1:]
            assert body.endswith('(')
            num, m = body[:-1].split(':')
            n = Node(int(num), 'N'); n.memo = None if m == '-' else unhex(m)
            nodes[n.num] = n
            n.l = tree()
            n.r = tree()
            assert toks[pos[0]] == ')'
            pos[0] += 1
            return n
        raise ValueError('bad dump token ' + t)

    roots = []
    while pos[0] < len(toks):
        t = toks[pos[0]]
        if t.startswith('['):
            pos[0] += 1
            ln, d = t[1:-1].split(',')
            roots.append((int(ln), int(d), tree()))
        else:
            roots.append((None, None, tree()))
    return roots, nodes


def true_hash(kind, n):
    if n._hash is None:
        if n.tag == 'Z':
            n._hash = zero_hash(n.depth)
        elif n.tag == 'L':
            n._hash = leaf_hash(kind, n.vals[0])
        elif n.tag == 'P':
            n._hash = b''.join(n.vals).ljust(32, b'\0')
        else:
            n._hash = h2(true_hash(kind, n.l), true_hash(kind, n.r))
    return n._hash


def elems(n):
    if n._elems is None:
        if n.tag == 'Z':
            n._elems = ()
        elif n.tag in 'LP':
            n._elems = tuple(n.vals)
        else:
            n._elems = elems(n.l) + elems(n.r)
    return n._elems


def reachable(root):
    seen = {}
    st = [root]
    while st:
        n = st.pop()
        if n.num in seen:
            continue
        seen[n.num] = n
        if n.tag == 'N':
            st.append(n.l); st.append(n.r)
    return seen


def stale_memos(kind, nodes):
    """C03: every memo present must be the true Merkle hash of the subtree it labels."""
    bad = []
    for n in nodes.values():
        if n.tag != 'Z' and n.memo is not None and n.memo != true_hash(kind, n):
            bad.append(n.num)
    return bad


def shape(n):
    if n.tag == 'Z':
        return ('Z', n.depth)
    if n.tag in 'LP':
        return (n.tag, tuple(n.vals))
    return ('N', shape(n.l), shape(n.r))


def sharing_violations(a, b):
    """C08: walk both trees in lock step; wherever the two subtrees at one position hold the same
    elements over the same index range (equal shapes), they must be the same node. Returns the
    positions (paths) where equal content is not physically shared."""
    bad = []

    def walk(x, y, path):
        if x.num == y.num:
            return
        if shape(x) == shape(y):
            bad.append(path)
            return
        if x.tag == 'N' and y.tag == 'N':
            walk(x.l, y.l, path + 'L')
            walk(x.r, y.r, path + 'R')

    walk(a, b, '')
    return bad


def private_nodes_confined(a, b):
    """C08: every node of `a` not in `b` must be an ancestor-or-self of a position where the
    contents differ, i.e. its subtree must differ from the base's subtree at the same position.
    Equivalent to `sharing_violations` being empty for lock-step positions; kept separately as the
    count of private nodes."""
    rb = reachable(b)
    return [n for n in reachable(a) if n not in rb]
