"""Script generators. Every random choice derives from the `random.Random` passed in.

The generator keeps a plain-Python *shadow* of the contents only to aim indices and to keep most
operations valid; it is not an oracle (the oracle is the Lean spec stream)."""
import random

KIND_SIZE = {'u8': 1, 'u16': 2, 'u32': 4, 'u64': 8, 'u128': 16, 'u256': 32, 'h256': 32, 'cont': 41,
             'nestv': 64, 'var': None, 'nest': None, 'nest2': None, 'unit': 0}
PF = {'u8': 32, 'u16': 16, 'u32': 8, 'u64': 4, 'u128': 2, 'u256': 1, 'h256': None, 'cont': None,
      'nestv': None, 'var': None, 'nest': None, 'nest2': None, 'unit': None}
KINDS = [k for k in KIND_SIZE if k not in ('nest', 'nest2', 'unit')]   # 'nest' is only compiled for a few capacities
NEST_N = [4, 8, 9, 33, 1024]
NEST2_N = [3, 4, 5, 8, 9, 17]
MAPS = ['btree', 'vec', 'maxvec', 'maxbtree']
SMALL_N = [1, 2, 3, 4, 5, 7, 8, 9, 16, 17, 32, 33]
BIG = {'u8': [1024, 2 ** 40, 64, 100, 256], 'u16': [64, 100], 'u64': [1024, 2 ** 40, 2 ** 50],
       'u256': [1024, 2 ** 40], 'h256': [1024, 2 ** 40, 2 ** 48], 'var': [1024, 2 ** 40]}
HUGE = [('u64', 2 ** 63), ('h256', 2 ** 63), ('u64', 2 ** 60)]


def all_configs():
    out = []
    for k in KINDS:
        for n in SMALL_N + BIG.get(k, []):
            for m in MAPS:
                out.append((k, n, m))
    return out


def pick_configs(rng, count, kinds=None, ns=None, maps=None):
    """A sample that contains every kind, every map and every N-class when count allows."""
    kinds = kinds or KINDS
    maps = maps or MAPS
    out = []
    i = 0
    while len(out) < count:
        k = kinds[i % len(kinds)]
        pool = ns if ns is not None else (SMALL_N + BIG.get(k, []))
        pool = [n for n in pool if n in SMALL_N + BIG.get(k, [])] or SMALL_N
        n = rng.choice(pool)
        m = maps[(i // len(kinds) + i) % len(maps)]
        out.append((k, n, m))
        i += 1
    return out


def cfg_line(cfg):
    return 'cfg %s %d %s' % cfg


def hexs(b):
    return b.hex() if b else '-'


def val(rng, kind, prev=None, pzero=0.4):
    """A value of `kind` as SSZ hex; zeros, small values, all-ones and repeats are favoured."""
    size = KIND_SIZE[kind]
    r = rng.random()
    if kind == 'nest2':
        # canonical SSZ of 0..4 inner byte lists (each 0..8 bytes)
        k = 0 if r < pzero * 0.5 else rng.randint(0, 4)
        inner = [bytes(rng.choice([0, 1, 255, rng.randrange(256)]) for _ in range(rng.choice([0, 0, 1, 3, 8])))
                 for _ in range(k)]
        off = 4 * k
        head = b''
        for b in inner:
            head += off.to_bytes(4, 'little')
            off += len(b)
        return hexs(head + b''.join(inner))
    if kind == 'nest':
        if r < pzero:
            return hexs(bytes(8 * rng.choice([0, 1, 4, 5, 16])))
        if prev is not None and r < pzero + 0.15:
            return prev
        n = rng.choice([0, 1, 3, 4, 5, 8, 9, 16, 40])
        return hexs(bytes(rng.choice([0, 1, 255, rng.randrange(256)]) for _ in range(8 * n)))
    if kind == 'var':
        if r < pzero:
            return hexs(bytes(rng.choice([0, 0, 1, 2, 8])))
        if prev is not None and r < pzero + 0.15:
            return prev
        n = rng.choice([0, 1, 2, 3, 7, 8])
        return hexs(bytes(rng.choice([0, 1, 255, rng.randrange(256)]) for _ in range(n)))
    if r < pzero:
        return hexs(bytes(size))
    if prev is not None and r < pzero + 0.15:
        return prev
    c = rng.randrange(5)
    if c == 0:
        return hexs(bytes([1]) + bytes(size - 1))
    if c == 1:
        return hexs(bytes([2]) + bytes(size - 1))
    if c == 2:
        return hexs(bytes([255]) * size)
    if c == 3:
        return hexs(bytes(size - 1) + bytes([1]))
    return hexs(bytes(rng.randrange(256) for _ in range(size)))


def zero_val(kind):
    size = KIND_SIZE[kind]
    return '-' if size is None else hexs(bytes(size))


class Shadow:
    """slot -> dict(k='list'|'vec', xs=[hex], dirty=bool)"""

    def __init__(self):
        self.s = {}

    def lists(self, flushed=None):
        return [h for h, c in self.s.items() if c['k'] == 'list' and (flushed is None or c['dirty'] != flushed)]

    def vecs(self):
        return [h for h, c in self.s.items() if c['k'] == 'vec']

    def any(self):
        return list(self.s)


def aim_index(rng, n, pf=None, invalid=False, cap=None):
    """index into a sequence of length n: boundaries, multiples of pf, powers of two."""
    if invalid:
        c = [n, n + 1, n + 2, 2 ** 64 - 1]
        if cap and rng.random() < 0.35:
            # at and beyond the capacity of the physical tree (a power of two >= N): an index that
            # would wrap onto a stored element if only its low bits were used
            c = [cap, cap + 1, cap + max(n - 1, 0), 2 * cap, 2 * cap + rng.randrange(max(n, 1)), cap * (pf or 1),
                 cap * (pf or 1) + rng.randrange(max(n, 1)), 2 ** 32 + rng.randrange(max(n, 1)), 2 ** 63]
            c = [i for i in c if n <= i < 2 ** 64]
        return rng.choice(c)
    if n == 0:
        return 0
    c = [0, n - 1, n // 2, rng.randrange(n)]
    if pf:
        c += [i for i in (pf - 1, pf, 2 * pf - 1, 2 * pf) if i < n]
    p = 1
    while p < n:
        c.append(p)
        p *= 2
    return rng.choice(c)


class HistGen:
    """Random operation histories over a few slots of one configuration."""

    def __init__(self, rng, cfg, weights=None, max_len=None, nslots=3, invalid_rate=0.06,
                 pzero=0.4, observe=None, allow_vectors=True):
        self.rng = rng
        self.kind, self.N, self.map = cfg
        self.cfg = cfg
        self.pf = PF[self.kind]
        self.cap = 1 << max(self.N - 1, 0).bit_length()      # leaves' positions of the physical tree
        self.sh = Shadow()
        self.lines = [cfg_line(cfg)]
        self.nslots = nslots
        self.invalid_rate = invalid_rate
        self.pzero = pzero
        self.prev = None
        # cap on element counts so that scripts stay small for large N
        self.max_len = min(self.N, max_len if max_len is not None else 40)
        self.big = self.N > 1024
        self.allow_vectors = allow_vectors and not self.big and self.N <= 40
        self.observe = observe  # callable(self, slot) appending observation lines
        # may `k~v` (get_mut_with) entries of a bulk map lie at or beyond the current length? (a MaxMap
        # filled that way under-reports its largest key: inadmissible for MaxMap only, so the
        # three-map comparison of C14 keeps such entries below the length)
        self.entry_ext = True
        self.weights = dict(DEFAULT_WEIGHTS)
        if weights:
            self.weights.update(weights)
        self.stats = {}

    # -- helpers
    def v(self):
        x = val(self.rng, self.kind, self.prev, self.pzero)
        self.prev = x
        return x

    def emit(self, line, op=None):
        self.lines.append(line)
        op = op or line.split()[0]
        self.stats[op] = self.stats.get(op, 0) + 1

    def fresh_slot(self):
        free = [h for h in range(self.nslots) if h not in self.sh.s]
        if free:
            return self.rng.choice(free)
        return self.rng.randrange(self.nslots)

    def vals(self, n):
        return [self.v() for _ in range(n)]

    def rand_len(self):
        r = self.rng.random()
        m = self.max_len
        if r < 0.1:
            return 0
        if r < 0.25:
            return m
        if r < 0.35 and self.pf and self.pf <= m:
            return self.rng.choice([self.pf, self.pf - 1, min(m, self.pf + 1)])
        return self.rng.randint(0, m)

    # -- constructors
    def op_new(self):
        h = self.fresh_slot()
        rng = self.rng
        if self.allow_vectors and rng.random() < 0.3:
            n = self.N
            if rng.random() < self.invalid_rate:
                n = rng.choice([max(0, self.N - 1), self.N + 1])
            c = rng.randrange(4)
            if c == 0 and n == self.N:
                x = self.v()
                self.emit('fromelem %d %s' % (h, x))
                xs = [x] * n
            elif c == 1:
                xs = self.vals(n)
                self.emit('fromiter %d vec %s' % (h, ' '.join(xs)))
            elif c == 2 and n == self.N and rng.random() < 0.3:
                self.emit('default %d vec' % h)
                xs = [zero_val(self.kind)] * n
            else:
                xs = self.vals(n)
                self.emit('new %d vec %s' % (h, ' '.join(xs)))
            if n == self.N:
                self.sh.s[h] = dict(k='vec', xs=xs, dirty=False)
            return
        n = self.rand_len()
        over = rng.random() < self.invalid_rate and self.N < 64
        if over:
            n = self.N + rng.choice([1, 2])
        c = rng.randrange(7)
        if c == 0:
            x = self.v()
            self.emit('repeat %d %d %s' % (h, n, x))
            xs = [x] * n
        elif c == 1:
            x = self.v()
            self.emit('repeatslow %d %d %s' % (h, n, x))
            xs = [x] * n
        elif c == 2:
            xs = self.vals(n)
            self.emit('fromiterslow %d %s' % (h, ' '.join(xs)))
        elif c == 3 and not over:
            self.emit('empty %d' % h)
            xs = []
        elif c == 4:
            xs = self.vals(n)
            self.emit('fromiter %d list %s' % (h, ' '.join(xs)))
        else:
            xs = self.vals(n)
            self.emit('new %d list %s' % (h, ' '.join(xs)))
        if not over:
            self.sh.s[h] = dict(k='list', xs=xs, dirty=False)

    # -- mutators
    def op_push(self):
        ls = self.sh.lists()
        if not ls:
            return self.op_new()
        h = self.rng.choice(ls)
        c = self.sh.s[h]
        if len(c['xs']) >= self.max_len and len(c['xs']) < self.N:
            return self.op_pop()
        x = self.v()
        self.emit('push %d %s' % (h, x))
        if len(c['xs']) < self.N:
            c['xs'].append(x)
            c['dirty'] = True

    def op_push_vec(self):
        vs = self.sh.vecs()
        if not vs:
            return self.op_push()
        self.emit('push %d %s' % (self.rng.choice(vs), self.v()), 'push_vec')

    def op_getmut(self):
        hs = self.sh.any()
        if not hs:
            return self.op_new()
        h = self.rng.choice(hs)
        c = self.sh.s[h]
        inv = self.rng.random() < self.invalid_rate or not c['xs']
        if inv and self.map != 'btree' and self.rng.random() < 0.5:
            i = len(c['xs']) + self.rng.choice([0, 1, 2])
        else:
            i = aim_index(self.rng, len(c['xs']), self.pf, inv, self.cap)
        x = self.v()
        self.emit('getmut %d %d %s' % (h, i, x))
        if i < len(c['xs']):
            c['xs'][i] = x
            c['dirty'] = True

    def op_cow(self):
        hs = self.sh.any()
        if not hs:
            return self.op_new()
        h = self.rng.choice(hs)
        c = self.sh.s[h]
        inv = self.rng.random() < self.invalid_rate or not c['xs']
        i = aim_index(self.rng, len(c['xs']), self.pf, inv, self.cap)
        act = self.rng.choice(['read', 'intomut', 'makemut', 'makemut2'])
        if act == 'read':
            self.emit('cow %d %d read' % (h, i), 'cow_read')
        elif act == 'makemut2':
            x, y = self.v(), self.v()
            self.emit('cow %d %d makemut2 %s %s' % (h, i, x, y), 'cow_makemut2')
            if i < len(c['xs']):
                c['xs'][i] = y
                c['dirty'] = True
        else:
            x = self.v()
            self.emit('cow %d %d %s %s' % (h, i, act, x), 'cow_' + act)
            if i < len(c['xs']):
                c['xs'][i] = x
                c['dirty'] = True

    def op_itercow(self):
        ls = self.sh.lists()
        if not ls:
            return self.op_new()
        h = self.rng.choice(ls)
        c = self.sh.s[h]
        mode = self.rng.choice(['all', 'even', 'odd', 'first', 'none'])
        x = self.v()
        self.emit('itercow %d %s %s' % (h, mode, x))
        hit = {'all': lambda i: True, 'even': lambda i: i % 2 == 0, 'odd': lambda i: i % 2 == 1,
               'first': lambda i: i == 0, 'none': lambda i: False}[mode]
        ch = False
        for i in range(len(c['xs'])):
            if hit(i):
                c['xs'][i] = x
                ch = True
        c['dirty'] = c['dirty'] or ch

    def op_apply(self):
        hs = self.sh.any()
        if not hs:
            return self.op_new()
        dirty = [h for h in hs if self.sh.s[h]['dirty']]
        h = self.rng.choice(dirty or hs)
        self.emit('apply %d' % h)
        self.sh.s[h]['dirty'] = False

    def op_bulk(self, admissible=True):
        ls = self.sh.lists()
        if not ls:
            return self.op_new()
        clean = [h for h in ls if not self.sh.s[h]['dirty']]
        h = self.rng.choice(clean or ls)
        c = self.sh.s[h]
        n = len(c['xs'])
        rng = self.rng
        kvs = {}
        # in-range overwrites
        for _ in range(rng.randint(0, 3)):
            if n:
                kvs[aim_index(rng, n, self.pf)] = self.v()
        # contiguous extension
        ext = rng.randint(0, 3)
        for j in range(ext):
            if n + j < self.N and n + j < self.max_len + 3:
                kvs[n + j] = self.v()
        if not admissible:
            c2 = rng.randrange(4)
            if c2 == 0:
                kvs[n + ext + rng.choice([1, 2, 5])] = self.v()      # gap
            elif c2 == 1:
                kvs[self.N + rng.choice([0, 1])] = self.v()           # >= N
            elif c2 == 2 and self.map == 'btree':
                kvs[2 ** 64 - 1] = self.v()
            else:
                kvs[n + 1] = self.v()
            if self.map != 'btree':
                # the model stores Vec-backed (and MaxMap) maps densely: keep their keys small
                kvs = {k: v for k, v in kvs.items() if k < 4096}
        items = list(kvs.items())
        rng.shuffle(items)   # insertion order is arbitrary
        # some entries are filled through `get_mut_with` (`k~v`) instead of `insert` (`k:v`): the
        # default MaxMap does not raise its max_key for those
        via_entry = {k: (rng.random() < (0.3 if not admissible else 0.15)) and (self.entry_ext or k < n)
                     for k, _ in items}
        dup = None
        if rng.random() < 0.2 and items:
            k0, _ = items[0]
            dup = (k0, self.v())        # duplicate key: the later `insert` wins
            kvs[k0] = dup[1]
        toks = ['%d%s%s' % (k, '~' if via_entry[k] else ':', v) for k, v in items]
        if dup:
            toks.append('%d:%s' % dup)
        if rng.random() < 0.2:
            # a pre-sized map (`VecMap::with_capacity`), possibly without any entry
            if rng.random() < 0.3:
                toks, kvs, dup = [], {}, None
            self.emit(('bulkcap %d %d %s' % (h, rng.choice([0, 1, 4, 16, 100]), ' '.join(toks))).rstrip(),
                      'bulk' if admissible else 'bulk_bad')
        else:
            self.emit('bulk %d %s' % (h, ' '.join(toks)), 'bulk' if admissible else 'bulk_bad')
        ok = not c['dirty']
        if ok and kvs:
            keys = sorted(kvs)
            if self.map in ('maxvec', 'maxbtree'):
                ins = [k for k in keys if not via_entry[k] or (dup and k == dup[0])]
                mx = max(ins) if ins else 0
            else:
                mx = keys[-1]
            if mx >= self.N:
                ok = False
            nxt = n
            for k in keys:
                if k >= n:
                    if k != nxt or k > mx:
                        ok = False
                    nxt += 1
        if ok and kvs:
            for k in sorted(kvs):
                if k < len(c['xs']):
                    c['xs'][k] = kvs[k]
                else:
                    c['xs'].append(kvs[k])
            c['dirty'] = True

    def op_bulk_bad(self):
        return self.op_bulk(admissible=False)

    def op_pop(self, slow=False):
        ls = self.sh.lists()
        if not ls:
            return self.op_new()
        h = self.rng.choice(ls)
        c = self.sh.s[h]
        n = len(c['xs'])
        inv = self.rng.random() < self.invalid_rate
        k = aim_index(self.rng, n + 1, self.pf, inv, self.cap) if not inv else n + self.rng.choice([1, 2])
        if slow:
            self.emit('popslow %d %d' % (h, k))
            if k <= n:
                c['xs'] = c['xs'][k:]
                c['dirty'] = False
        else:
            self.emit('pop %d %d' % (h, k))
            c['dirty'] = False
            if k <= n:
                c['xs'] = c['xs'][k:]

    def op_popslow(self):
        return self.op_pop(slow=True)

    def op_clone(self):
        hs = self.sh.any()
        if not hs:
            return self.op_new()
        h = self.rng.choice(hs)
        h2 = self.fresh_slot()
        if h2 == h:
            return
        self.emit('clone %d %d' % (h, h2))
        c = self.sh.s[h]
        self.sh.s[h2] = dict(k=c['k'], xs=list(c['xs']), dirty=c['dirty'])

    def op_tovector(self):
        ls = self.sh.lists()
        if not ls or not self.allow_vectors:
            return self.op_push()
        full = [h for h in ls if len(self.sh.s[h]['xs']) == self.N]
        h = self.rng.choice(full or ls)
        h2 = self.fresh_slot()
        if h2 == h:
            return
        self.emit('tovector %d %d' % (h, h2))
        c = self.sh.s[h]
        if len(c['xs']) == self.N:
            self.sh.s[h2] = dict(k='vec', xs=list(c['xs']), dirty=False)

    def op_tolist(self):
        vs = self.sh.vecs()
        if not vs:
            return self.op_tovector()
        h = self.rng.choice(vs)
        h2 = self.fresh_slot()
        if h2 == h:
            return
        self.emit('tolist %d %d' % (h, h2))
        c = self.sh.s[h]
        self.sh.s[h2] = dict(k='list', xs=list(c['xs']), dirty=c['dirty'])

    def op_rebase(self):
        hs = self.sh.any()
        if len(hs) < 2:
            return self.op_clone()
        h = self.rng.choice(hs)
        same = [b for b in hs if b != h and self.sh.s[b]['k'] == self.sh.s[h]['k']]
        if not same:
            return self.op_clone()
        b = self.rng.choice(same)
        if self.rng.random() < 0.25:
            h2 = self.fresh_slot()
            if h2 in (h, b):
                return
            self.emit('rebasenew %d %d %d' % (h, b, h2))
            c = self.sh.s[h]
            self.sh.s[h2] = dict(k=c['k'], xs=list(c['xs']), dirty=c['dirty'])
        else:
            self.emit('rebase %d %d' % (h, b))

    def op_intra(self):
        hs = self.sh.any()
        if not hs:
            return self.op_new()
        h = self.rng.choice(hs)
        self.emit('intra %d' % h)
        self.sh.s[h]['dirty'] = False

    def op_root(self):
        hs = [h for h in self.sh.any() if not self.sh.s[h]['dirty']]
        if not hs:
            return self.op_apply()
        self.emit('root %d' % self.rng.choice(hs))

    def op_root_dirty(self):
        hs = [h for h in self.sh.any() if self.sh.s[h]['dirty']]
        if not hs:
            return self.op_root()
        self.emit('root %d' % self.rng.choice(hs), 'root_dirty')

    def op_eq(self):
        hs = self.sh.any()
        if len(hs) < 2:
            return self.op_clone()
        h = self.rng.choice(hs)
        same = [b for b in hs if self.sh.s[b]['k'] == self.sh.s[h]['k']]
        self.emit('eq %d %d' % (h, self.rng.choice(same)))

    def op_read(self):
        hs = self.sh.any()
        if not hs:
            return self.op_new()
        h = self.rng.choice(hs)
        c = self.sh.s[h]
        n = len(c['xs'])
        r = self.rng.randrange(9)
        inv = self.rng.random() < self.invalid_rate
        if r == 0:
            self.emit('len %d' % h)
        elif r == 1:
            self.emit('isempty %d' % h)
        elif r == 2:
            self.emit('pending %d' % h)
        elif r == 3:
            self.emit('tovec %d' % h)
        elif r == 4:
            self.emit('iter %d' % h)
        elif r == 5:
            i = aim_index(self.rng, n + 1, self.pf, inv, self.cap)
            self.emit('iterfrom %d %d' % (h, i))
        elif r == 6 and c['k'] == 'list':
            i = aim_index(self.rng, n + 1, self.pf, inv, self.cap)
            self.emit('levels %d %d' % (h, i))
        else:
            self.emit('get %d %d' % (h, aim_index(self.rng, n + 1, self.pf, inv, self.cap)))

    def op_sszrt(self):
        hs = self.sh.any()
        if not hs:
            return self.op_new()
        h = self.rng.choice(hs)
        self.emit('ssz %d' % h)

    def op_serde(self):
        hs = self.sh.any()
        if not hs:
            return self.op_new()
        self.emit('ser %d' % self.rng.choice(hs))

    def observe_all(self, root_p=1.0, rng=None):
        for h in sorted(self.sh.s):
            c = self.sh.s[h]
            self.lines.append('len %d' % h)
            self.lines.append('pending %d' % h)
            self.lines.append('tovec %d' % h)
            if not c['dirty'] and (root_p >= 1.0 or rng.random() < root_p):
                self.lines.append('root %d' % h)
        hs = sorted(self.sh.s)
        for i, a in enumerate(hs):
            for b in hs[i + 1:]:
                if self.sh.s[a]['k'] == self.sh.s[b]['k']:
                    self.lines.append('eq %d %d' % (a, b))

    def run(self, nops):
        ops = list(self.weights.items())
        names = [o for o, _ in ops]
        ws = [w for _, w in ops]
        self.op_new()
        for _ in range(nops):
            name = self.rng.choices(names, ws)[0]
            getattr(self, 'op_' + name)()
            if self.observe:
                self.observe(self)
        return self.lines


DEFAULT_WEIGHTS = {
    'new': 4, 'push': 10, 'push_vec': 0.5, 'getmut': 10, 'cow': 5, 'itercow': 2, 'apply': 8,
    'bulk': 4, 'bulk_bad': 0.7, 'pop': 4, 'popslow': 1, 'clone': 4, 'tovector': 2, 'tolist': 2,
    'rebase': 5, 'intra': 3, 'root': 6, 'root_dirty': 0.2, 'eq': 3, 'read': 14, 'sszrt': 1,
    'serde': 1,
}
