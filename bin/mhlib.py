"""Shared machinery of /verif/bin/check: builds, script execution on implementation and model,
comparison, shrinking, evidence."""
import hashlib, json, os, random, subprocess, sys, time, shutil, tempfile, re
from concurrent.futures import ThreadPoolExecutor

VERIF = os.path.dirname(os.path.dirname(os.path.abspath(__file__)))
LEAN = os.path.join(VERIF, 'lean')
HARNESS = os.path.join(VERIF, 'harness')
IMPL = os.path.join(HARNESS, 'target', 'release', 'mh-impl')
MODEL = os.path.join(LEAN, '.lake', 'build', 'bin', 'mhmodel')
WORK = os.path.join(VERIF, 'work')
REPO = '/repo'
NPROC = 16

class BuildError(Exception):
    pass

def sh(cmd, cwd=None, env=None, timeout=None):
    e = dict(os.environ)
    e.update({'CARGO_NET_OFFLINE': 'true'})
    if env:
        e.update(env)
    p = subprocess.run(cmd, cwd=cwd, env=e, shell=isinstance(cmd, str), stdout=subprocess.PIPE,
                       stderr=subprocess.STDOUT, text=True, timeout=timeout)
    return p.returncode, p.stdout

# ------------------------------------------------------------------------------------------------
# builds

def build_lean(targets):
    """lake build of the driver and the property's theorem modules."""
    rc, out = sh(['lake', 'build', 'mhmodel'] + list(targets), cwd=LEAN, timeout=3600)
    if rc != 0:
        raise BuildError('lake build failed:\n' + out[-4000:])
    return out

def build_harness():
    """Rebuild the Rust interpreter against /repo's current working tree (feature `verif`)."""
    lock_src = os.path.join(REPO, 'Cargo.lock')
    if os.path.exists(lock_src):
        shutil.copyfile(lock_src, os.path.join(HARNESS, 'Cargo.lock'))
    rc, out = sh(['cargo', 'build', '--release', '--offline', '--quiet'], cwd=HARNESS, timeout=3600)
    if rc != 0:
        raise BuildError('cargo build of the harness against /repo failed:\n' + out[-6000:])
    return out

# ------------------------------------------------------------------------------------------------
# running scripts

def _run_exe(exe, text, timeout):
    """(rc, stdout); a process that does not finish in time is killed and reported with rc 3 (the
    code of the harness's own deadlock watchdog) and whatever it had written."""
    try:
        p = subprocess.run([exe], input=text, stdout=subprocess.PIPE, stderr=subprocess.PIPE, text=True,
                           timeout=timeout)
    except subprocess.TimeoutExpired as e:
        out = e.stdout or ''
        if isinstance(out, bytes):
            out = out.decode('utf-8', 'replace')
        return 3, out
    return p.returncode, p.stdout

def run_both(scripts, timeout=600, isolate=None):
    """scripts: list of lists of lines (first line `cfg ...`). Returns, per script, a list of
    (line, impl_out, model_out, spec_out). A crash / deadlock of the implementation process is
    reported as impl_out = 'crash' for the remaining lines of its shard (then bisected)."""
    n = len(scripts)
    if n == 0:
        return []
    nshards = min(NPROC, n)
    shards = [[] for _ in range(nshards)]
    iso = []
    for i, s in enumerate(scripts):
        if isolate and isolate[i]:
            iso.append([i])          # its own process (e.g. behaviour that depends on process-wide state)
        else:
            shards[i % nshards].append(i)
    shards = [sh for sh in shards if sh] + iso
    nshards = min(NPROC, len(shards))
    def work(idx):
        text = ''.join(l + '\n' for i in idx for l in scripts[i])
        rc_i, out_i = _run_exe(IMPL, text, timeout)
        rc_m, out_m = _run_exe(MODEL, text, timeout)
        return idx, rc_i, out_i.split('\n'), rc_m, out_m.split('\n')
    results = [None] * n
    with ThreadPoolExecutor(max_workers=nshards) as ex:
        for idx, rc_i, li, rc_m, lm in ex.map(work, shards):
            pi = pm = 0
            if rc_m != 0:
                raise BuildError('model driver exited with %d' % rc_m)
            for i in idx:
                rows = []
                for line in scripts[i]:
                    io = li[pi] if pi < len(li) and li[pi] != '' else 'crash'
                    mo = lm[pm] if pm < len(lm) else 'model-missing'
                    pi += 1; pm += 1
                    if ' ||| ' in mo:
                        m, s = mo.split(' ||| ', 1)
                    else:
                        m, s = mo, mo
                    rows.append((line, io, m, s))
                results[i] = rows
            if rc_i != 0:
                # the implementation process died (abort / deadlock watchdog): isolate per script
                for i in idx:
                    text = ''.join(l + '\n' for l in scripts[i])
                    rc1, o1 = _run_exe(IMPL, text, min(timeout, 120))
                    l1 = o1.split('\n')
                    rows = []
                    for k, r in enumerate(results[i]):
                        io = l1[k] if k < len(l1) and l1[k] != '' else ('deadlock' if rc1 == 3 else 'crash')
                        rows.append((r[0], io, r[2], r[3]))
                    results[i] = rows
    return results

# outputs with which the harness itself reports that two public paths of the implementation
# disagreed on one input (each is a concrete failing input, not an error the property allows)
HARNESS_VERDICTS = {'err serde-paths-differ', 'err serde-text-form-differs', 'err trait-paths-differ',
                    'err iter-paths-differ'}

def oracle_ok(impl, spec):
    """Does the implementation's output satisfy the plain-sequence oracle? The oracle never demands
    more than the property states: `*` = anything, `err *` = any error (not a panic, not ok)."""
    if impl in HARNESS_VERDICTS:
        return False
    if spec == '*':
        return True
    if spec == 'err *':
        return impl.startswith('err')
    return impl == spec

def classify(rows):
    """Returns (oracle_failures, model_disagreements): lists of row indices."""
    of, md = [], []
    for k, (line, io, mo, so) in enumerate(rows):
        if line.startswith('#'):
            continue
        if not oracle_ok(io, so):
            of.append(k)
        if io != mo and not line.startswith('dumpi'):
            # (`dumpi` = a dump whose memo fields legitimately depend on the thread schedule: it is
            # only looked at by the predicates on the implementation's side)
            md.append(k)
    return of, md

# ------------------------------------------------------------------------------------------------
# shrinking

def shrink(script, still_fails, budget=400):
    """delta debugging over lines (keeping the cfg header), then values -> zero."""
    head, body = script[0], list(script[1:])
    calls = [0]
    def fails(b):
        calls[0] += 1
        if calls[0] > budget:
            return False
        return still_fails([head] + b)
    n = 2
    while len(body) >= 2:
        chunk = max(1, len(body) // n)
        reduced = False
        for i in range(0, len(body), chunk):
            cand = body[:i] + body[i + chunk:]
            if cand and fails(cand):
                body = cand
                n = max(n - 1, 2)
                reduced = True
                break
        if not reduced:
            if chunk == 1:
                break
            n = min(n * 2, len(body))
    return [head] + body

# ------------------------------------------------------------------------------------------------
# evidence

def script_digest(script):
    return hashlib.sha256('\n'.join(script).encode()).hexdigest()[:16]

def write_json(path, obj):
    os.makedirs(os.path.dirname(path), exist_ok=True)
    tmp = path + '.tmp'
    with open(tmp, 'w') as f:
        json.dump(obj, f, indent=1, sort_keys=True)
    os.replace(tmp, path)
