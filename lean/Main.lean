import Milhouse.Exec.Driver
open Milhouse Milhouse.Exec

def parseMap (s : String) : Option MapKind :=
  match s with
  | "btree" => some .btree
  | "vec" => some .vec
  | "maxvec" => some .maxvec
  | "maxbtree" => some .maxvec   -- `MaxMap<BTreeMap>`: same semantics as `MaxMap<VecMap>` in the model
  | _ => none

partial def loop (h : IO.FS.Stream) (out : IO.FS.Stream) (w : Option World) : IO Unit := do
  let line ← h.getLine
  if line.isEmpty then
    out.flush
    return ()
  let t := line.trimAscii.toString
  if t.isEmpty || t.startsWith "#" then
    out.putStrLn "#"
    loop h out w
  else
    let words := (t.splitOn " ").filter (· ≠ "")
    match words with
    | ["cfg", k, n, m] =>
      match kindOf k, n.toNat?, parseMap m with
      | some E, some n, some m =>
        out.putStrLn "cfg ||| cfg"
        loop h out (some (World.init E ⟨n, m⟩))
      | _, _, _ =>
        out.putStrLn "bad-cfg ||| bad-cfg"
        loop h out none
    | ["selftest"] =>
      let abc := Sha256.hash "abc".toUTF8
      let z1 := Sha256.hash32Concat zero32 zero32
      out.putStrLn s!"{hexOfBytes abc} {hexOfBytes z1} ||| *"
      loop h out w
    | ["conc-begin"] =>
      out.putStrLn "ok ||| ok"
      loop h out w
    | ["conc-end"] =>
      out.putStrLn "ok ||| ok"
      -- thread-private slots (>= 100) do not outlive the block
      loop h out (w.map fun w => { w with colls := w.colls.filter (·.1 < 100),
                                          scolls := w.scolls.filter (·.1 < 100) })
    | "T" :: _ :: rest =>
      match w with
      | none =>
        out.putStrLn "no-cfg ||| no-cfg"
        loop h out w
      | some w =>
        let (w', (m, s)) := step w (" ".intercalate rest)
        out.putStrLn s!"{m} ||| {s}"
        loop h out (some w')
    | _ =>
      match w with
      | none =>
        out.putStrLn "no-cfg ||| no-cfg"
        loop h out w
      | some w =>
        let (w', (m, s)) := step w t
        out.putStrLn s!"{m} ||| {s}"
        loop h out (some w')

def main : IO Unit := do
  let stdin ← IO.getStdin
  let stdout ← IO.getStdout
  loop stdin stdout none
