import Milhouse.Model.Ssz
import Milhouse.Spec.Merkle
import Milhouse.Exec.Driver
import Milhouse.Proofs
