import Milhouse.Model.Basic
