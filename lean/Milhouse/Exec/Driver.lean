import Milhouse.Exec.Kinds
import Milhouse.Proofs.WorldSsz
/-!
# Line-protocol driver

Interprets operation scripts on the model (`M`) and on the plain-sequence specification (`S`).
For every input line it prints `<model output> ||| <spec output>`. The spec output may be `*`
(the property says nothing here) or `err *` (the property only says "fails with an error").
-/
namespace Milhouse.Exec
open Milhouse

/-! ## Formatting -/

def hexDigit (n : Nat) : Char :=
  if n < 10 then Char.ofNat (48 + n) else Char.ofNat (87 + n)

def hexOfBytes (b : ByteArray) : String :=
  if b.size = 0 then "-"
  else String.ofList (b.toList.foldr (fun x acc => hexDigit (x.toNat / 16) :: hexDigit (x.toNat % 16) :: acc) [])

def hexVal (c : Char) : Option Nat :=
  if '0' ≤ c ∧ c ≤ '9' then some (c.toNat - 48)
  else if 'a' ≤ c ∧ c ≤ 'f' then some (c.toNat - 87)
  else none

def bytesOfHex (s : String) : Option ByteArray :=
  if s = "-" then some ByteArray.empty
  else
    let rec go : List Char → ByteArray → Option ByteArray
      | [], acc => some acc
      | [_], _ => none
      | a :: b :: rest, acc =>
        match hexVal a, hexVal b with
        | some x, some y => go rest (acc.push (UInt8.ofNat (16 * x + y)))
        | _, _ => none
    go s.toList ByteArray.empty

def fmtErr : Err → String
  | .outOfBoundsUpdate i l => s!"err OutOfBoundsUpdate index={i} len={l}"
  | .outOfBoundsIterFrom i l => s!"err OutOfBoundsIterFrom index={i} len={l}"
  | .listFull l => s!"err ListFull len={l}"
  | .packedLeafFull l => s!"err PackedLeafFull len={l}"
  | .leafUpdateMissing i => s!"err LeafUpdateMissing index={i}"
  | .packedLeafOutOfBounds s l => s!"err PackedLeafOutOfBounds sub_index={s} len={l}"
  | .nodeUpdatesMissing p => s!"err NodeUpdatesMissing prefix={p}"
  | .invalidListUpdate => "err InvalidListUpdate"
  | .invalidVectorUpdate => "err InvalidVectorUpdate"
  | .wrongVectorLength l e => s!"err WrongVectorLength len={l} expected={e}"
  | .pushNotSupported => "err PushNotSupported"
  | .updateLeafError => "err UpdateLeafError"
  | .updateLeavesError => "err UpdateLeavesError"
  | .invalidRebaseNode => "err InvalidRebaseNode"
  | .invalidRebaseLeaf => "err InvalidRebaseLeaf"
  | .builderInvalidDepth d => s!"err BuilderInvalidDepth depth={d}"
  | .builderExpectedLeaf => "err BuilderExpectedLeaf"
  | .builderStackEmptyMerge => "err BuilderStackEmptyMerge"
  | .builderStackEmptyMergeLeft => "err BuilderStackEmptyMergeLeft"
  | .builderStackEmptyMergeRight => "err BuilderStackEmptyMergeRight"
  | .builderStackEmptyFinish => "err BuilderStackEmptyFinish"
  | .builderStackEmptyFinishLeft => "err BuilderStackEmptyFinishLeft"
  | .builderStackEmptyFinishRight => "err BuilderStackEmptyFinishRight"
  | .builderStackEmptyFinalize => "err BuilderStackEmptyFinalize"
  | .builderStackLeftover => "err BuilderStackLeftover"
  | .builderFull => "err BuilderFull"
  | .bulkUpdateUnclean => "err BulkUpdateUnclean"
  | .cowMissingEntry => "err CowMissingEntry"
  | .levelIterPendingUpdates => "err LevelIterPendingUpdates"
  | .intraRebaseZeroHash => "err IntraRebaseZeroHash"
  | .intraRebaseZeroDepth => "err IntraRebaseZeroDepth"
  | .intraRebaseRepeatVisit => "err IntraRebaseRepeatVisit"
  | .panic => "panic"
  | .ssz => "err ssz"

def fmtVals (vs : List V) : String := " ".intercalate (vs.map hexOfBytes)

def fmtBool (b : Bool) : String := if b then "ok true" else "ok false"

/-! ## Slots -/

def slotGet {α : Type} (l : List (Nat × α)) (k : Nat) : Option α :=
  match l with
  | [] => none
  | (k', a) :: rest => if k = k' then some a else slotGet rest k

def slotSet {α : Type} (l : List (Nat × α)) (k : Nat) (a : α) : List (Nat × α) :=
  (k, a) :: l.filter (fun p => p.1 ≠ k)

def slotDel {α : Type} (l : List (Nat × α)) (k : Nat) : List (Nat × α) :=
  l.filter (fun p => p.1 ≠ k)

/-! ## The plain-sequence specification world -/

structure SColl where
  kind : CKind
  xs : List V
  dirty : Bool
  /-- a list too long to materialise: `n` copies of `v` (`xs` is unused then). Only the operations
  in `repOps` are answered for such a handle; the generator emits no others. -/
  rep : Option (Nat × V) := none

def SColl.len (s : SColl) : Nat := match s.rep with
  | some (n, _) => n
  | none => s.xs.length

def SColl.getAt (s : SColl) (i : Nat) : Option V := match s.rep with
  | some (n, v) => if i < n then some v else none
  | none => s.xs[i]?

/-- lengths from which `repeat` is kept symbolic on the spec side. -/
def repThreshold : Nat := 2 ^ 22

/-- operations that read a collection handle but are not answered for a symbolic one. -/
def collReadOps : List String :=
  ["tovec", "iter", "iterfrom", "getmut", "cow", "push", "bulk", "bulkcap", "popslow", "itercow", "levels",
   "lvnodes", "tovector", "tolist", "rebase", "rebasenew", "ssz", "sszifok", "wf", "ser", "treeof"]

structure STree where
  xs : List V
  depth : Nat

structure SBuilder where
  xs : List V
  depth : Nat
  level : Nat

/-- the plain meaning of an update map: a sorted association; plus what a `MaxMap` reports as its
largest key (it is raised only by `insert`), and whether some entry was created through
`get_mut_with` (then a `MaxMap`'s report and its derived `==` are not functions of the contents). -/
structure SMap where
  assoc : List (Nat × V) := []
  insMax : Nat := 0
  viaEntry : Bool := false

structure World where
  E : Elem V Hh
  cfg : Cfg
  heap : Heap Hh
  colls : List (Nat × Coll V)
  trees : List (Nat × Tree V)
  builders : List (Nat × Builder V)
  scolls : List (Nat × SColl)
  strees : List (Nat × STree)
  sbuilders : List (Nat × SBuilder)
  /-- the *proved* specification run side by side with the driver's own spec world: the plain state
  `SWorld` of `Proofs/World.lean` (what `xrun_refines` is about) and the protocol slot of each of its
  handles -/
  twinSw : SWorld V := []
  twinIdx : List (Nat × Nat) := []
  /-- builders into which whole nodes were pushed (`push_node`): the property says nothing about
  pushing single values after that -/
  bmixed : List Nat := []
  /-- update maps used directly (`m…` operations): the model's `UMap` and the plain association -/
  maps : List (Nat × UMap V) := []
  smaps : List (Nat × SMap) := []
  /-- model / spec bytes of the last `ssz`, values of the last `ser`, result of the last `lvnodes` -/
  lastSsz : List UInt8 × List UInt8 := ([], [])
  lastSer : List V × List V := ([], [])
  lastLv : Nat × List Nat := (0, [])
  /-- memo of `leafHash` by value for the spec side (unpacked kinds whose element root is costly) -/
  leafCache : Std.HashMap ByteArray ByteArray := {}

def World.init (E : Elem V Hh) (cfg : Cfg) : World :=
  { E := E, cfg := cfg, heap := Heap.empty, colls := [], trees := [], builders := [], scolls := [],
    strees := [], sbuilders := [] }

/-! ## Node-graph dump -/

structure DumpState where
  seen : List (Nat × Nat)   -- id ↦ first-visit number
  out : List String          -- reversed tokens

def fmtMemo (w : World) (id : Nat) : String :=
  let m := w.heap.read zero32 id
  if m = zero32 then "-" else hexOfBytes m

partial def dumpTree (w : World) (t : Tree V) (st : DumpState) : DumpState :=
  match slotGet st.seen t.id with
  | some k => { st with out := s!"^{k}" :: st.out }
  | none =>
    let k := st.seen.length
    let st := { st with seen := (t.id, k) :: st.seen }
    match t with
    | .leaf id v => { st with out := s!"L{k}:{hexOfBytes v}:{fmtMemo w id}" :: st.out }
    | .packed id vs =>
      { st with out := s!"P{k}:{",".intercalate (vs.map hexOfBytes)}:{fmtMemo w id}" :: st.out }
    | .zero _ d => { st with out := s!"Z{k}:{d}" :: st.out }
    | .node id l r =>
      let st := { st with out := s!"N{k}:{fmtMemo w id}(" :: st.out }
      let st := dumpTree w l st
      let st := dumpTree w r st
      { st with out := ")" :: st.out }

/-! ## Spec helpers -/

/-- the spec root; element roots are memoised by value across calls (pure caching: the cached
value is `E.leafHash v`). Returns the extended cache. -/
def specRoot (w : World) (s : SColl) : Hh × Std.HashMap ByteArray ByteArray :=
  let cache := if w.E.pf.isSome then w.leafCache else
    s.xs.foldl (fun c v => if c.contains v then c else c.insert v (w.E.leafHash v)) w.leafCache
  let E' : Elem V Hh := { w.E with leafHash := fun v => (cache.get? v).getD (w.E.leafHash v) }
  let r := match s.kind with
    | .list => Spec.listRoot E' alg mixIn w.cfg.N s.xs
    | .vector => Spec.vectorRoot E' alg w.cfg.N s.xs
  (r, cache)

/-- SSZ root of the list made of `n` copies of `v`, computed without materialising it
(`Spec.repRoot`; `Proofs/RepRoot.lean` proves it equal to `Spec.listRoot` of the replicated list). -/
def specRepRoot (E : Elem V Hh) (N n : Nat) (v : V) : Hh := Spec.repRoot E alg mixIn N n v

/-- independent SSZ decoder for the spec side: accepts exactly the canonical encodings. -/
def specDecode (E : Elem V Hh) (bs : List UInt8) : Option (List V) :=
  match E.fixedLen with
  | some k =>
    if bs.isEmpty then some []     -- (the empty list, whatever the item size)
    else if k = 0 ∨ bs.length % k ≠ 0 then none
    else
      let n := bs.length / k
      let items := (List.range n).map (fun i => ByteArray.mk ((bs.drop (i*k)).take k).toArray)
      if items.all (fun v => (E.dec v.toList).isSome) then some items else none
  | none =>
    if bs.isEmpty then some []
    else
      match readOffset bs with
      | none => none
      | some first =>
        if first % 4 ≠ 0 ∨ first = 0 ∨ first > bs.length then none
        else
          let n := first / 4
          let offs := (List.range n).map (fun i => (readOffset (bs.drop (4*i))).getD 0)
          let ends := offs.drop 1 ++ [bs.length]
          let pairs := offs.zip ends
          if pairs.all (fun p => p.1 ≤ p.2 ∧ p.2 ≤ bs.length ∧ first ≤ p.1) then
            let items := pairs.map (fun p => ByteArray.mk ((bs.drop p.1).take (p.2 - p.1)).toArray)
            if items.all (fun v => (E.dec v.toList).isSome) then some items else none
          else none

def specLevels (w : World) (xs : List V) (i : Nat) : String :=
  let pd := pdOf w.E.pf
  let depth := listDepth w.E.pf w.cfg.N
  let level := computeLevel i depth pd
  let rest := xs.drop i
  if level = 0 ∧ (w.E.pf.getD 1) > 1 then
    "ok" ++ String.join (rest.map (fun v => s!" P({hexOfBytes v})"))
  else
    let sz := 2 ^ level
    let groups := Spec.groups sz rest.length rest
    "ok" ++ String.join (groups.map (fun g => s!" I{g.length}({",".intercalate (g.map hexOfBytes)})"))

def fmtLevels (items : List (LevelNode V)) (pf : Option Nat) : String :=
  "ok" ++ String.join (items.map (fun it =>
    match it with
    | .packedLeaf v => s!" P({hexOfBytes v})"
    | .internal t =>
      let rec leaves : Tree V → List V
        | .leaf _ v => [v]
        | .packed _ vs => vs
        | .node _ l r => leaves l ++ leaves r
        | .zero _ _ => []
      let vs := leaves t
      let _ := pf
      s!" I{vs.length}({",".intercalate (vs.map hexOfBytes)})"))

def treeLeaves : Tree V → List V
  | .leaf _ v => [v]
  | .packed _ vs => vs
  | .node _ l r => treeLeaves l ++ treeLeaves r
  | .zero _ _ => []

/-! ## Step -/

def parseNat (s : String) : Option Nat := s.toNat?

def parseVals (ws : List String) : Option (List V) := ws.mapM bytesOfHex

/-- `k:v` = `insert(k, v)`; `k~v` = `get_mut_with(k, |_| Some(v))` (the value is only stored when
the key is vacant, and `MaxMap::max_key` is not raised). The flag is `true` for `~`. -/
def parseKVE (s : String) : Option (Bool × Nat × V) :=
  match s.splitOn ":" with
  | [k, v] => match k.toNat?, bytesOfHex v with
    | some k, some v => some (false, k, v)
    | _, _ => none
  | _ =>
    match s.splitOn "~" with
    | [k, v] => match k.toNat?, bytesOfHex v with
      | some k, some v => some (true, k, v)
      | _, _ => none
    | _ => none

def mkMapE (kind : MapKind) (kvs : List (Bool × Nat × V)) : UMap V :=
  kvs.foldl (fun m e =>
    if e.1 then (match m.get e.2.1 with
      | some _ => m
      | none => m.insertEntry e.2.1 e.2.2)
    else m.insert e.2.1 e.2.2) (UMap.empty kind)

/-- the plain association the entries denote (sorted, `:` overwrites, `~` keeps an existing value) -/
def specAssoc (kvs : List (Bool × Nat × V)) : List (Nat × V) :=
  kvs.foldl (fun (m : List (Nat × V)) e =>
    if e.1 then (match assocGet e.2.1 m with
      | some _ => m
      | none => assocInsert e.2.1 e.2.2 m)
    else assocInsert e.2.1 e.2.2 m) []

/-- the largest key the map type reports: `MaxMap` only tracks keys passed to `insert`. -/
def specMaxIndex (kind : MapKind) (kvs : List (Bool × Nat × V)) : Option Nat :=
  let es := specAssoc kvs
  if es.isEmpty then none
  else match kind with
    | .maxvec => some ((kvs.filter (fun e => !e.1)).foldl (fun a e => max a e.2.1) 0)
    | _ => es.getLast?.map (·.1)

/-- apply a write sequence to a plain list (later writes win; key = length appends). -/
def specWrites (xs : List V) (kvs : List (Bool × Nat × V)) : List V :=
  (specAssoc kvs).foldl (fun acc kv => if kv.1 < acc.length then acc.set kv.1 kv.2 else acc ++ [kv.2]) xs

/-- admissible: every key is below `N` and not above what the map reports as its largest key, and
the keys at or beyond the current length extend it contiguously. -/
def specAdmissible (kind : MapKind) (N : Nat) (xs : List V) (kvs : List (Bool × Nat × V)) : Bool :=
  let sorted := specAssoc kvs
  match specMaxIndex kind kvs with
  | none => true
  | some mx =>
    decide (mx < N) &&
      (Coll.gapCheckMax mx xs.length (sorted.filter (fun p => p.1 ≥ xs.length))).isNone

def iterCowPolicy (mode : String) (x : V) : Nat → V → Option V :=
  fun i _ =>
    match mode with
    | "all" => some x
    | "even" => if i % 2 = 0 then some x else none
    | "odd" => if i % 2 = 1 then some x else none
    | "first" => if i = 0 then some x else none
    | _ => none

def fmtIter (items : List (Nat × V)) (fin : Nat) : String :=
  "ok" ++ String.join (items.map (fun p => s!" {p.1}:{hexOfBytes p.2}")) ++ s!" {fin}: post=0"

def specIter (xs : List V) (i : Nat) : String :=
  let total := xs.length
  let rest := xs.drop i
  let items := rest.zipIdx.map (fun p => (total - (i + p.2), p.1))
  fmtIter items (total - (i + rest.length))

abbrev Out := String × String   -- (model, spec)

def bad : World × Out → World × Out := id

/-- Interpret one line. Unknown / malformed lines give `bad-op` on both sides. -/
def stepCore (w : World) (line : String) : World × Out :=
  let E := w.E
  let pf := E.pf
  let z := zero32
  let cfg := w.cfg
  let words := (line.trimAscii.toString.splitOn " ").filter (· ≠ "")
  let badop : World × Out := (w, ("bad-op", "bad-op"))
  let isRep (h : String) : Bool := match h.toNat? with
    | some k => (match slotGet w.scolls k with | some s => s.rep.isSome | none => false)
    | none => false
  -- symbolic (very long) handles answer only a few operations
  if (match words with
      | op :: h :: rest => collReadOps.contains op && (isRep h ||
          ((op = "rebase" || op = "rebasenew") && (match rest with | h2 :: _ => isRep h2 | [] => false)))
        -- (the derived `==` walks both trees node by node: not answered for symbolic handles)
        || (op = "eq" && (isRep h || (match rest with | h2 :: _ => isRep h2 | [] => false)))
      | _ => false) then badop else
  -- helper: store a constructor result in slot `h` on both sides
  let storeNew (hs : Nat) (r : Except Err (Coll V × Heap Hh)) (spec : Option SColl) (specOut : String)
      : World × Out :=
    match r with
    | .ok (c, heap) =>
      let w1 := { w with heap := heap, colls := slotSet w.colls hs c }
      let w2 := match spec with
        | some s => { w1 with scolls := slotSet w1.scolls hs s }
        | none => w1
      (w2, ("ok", specOut))
    | .error e => (w, (fmtErr e, specOut))
  match words with
  | ["new", hs, k] | "new" :: hs :: k :: _ =>
    match parseNat hs, parseVals (words.drop 3) with
    | some hs, some vs =>
      if k = "list" then
        let ok := vs.length ≤ cfg.N
        storeNew hs (Coll.tryFromIter pf z cfg vs w.heap)
          (if ok then some ⟨.list, vs, false, none⟩ else none) (if ok then "ok" else "err *")
      else if k = "vec" then
        let ok := vs.length = cfg.N
        storeNew hs (Coll.vectorNew pf z cfg vs w.heap)
          (if ok then some ⟨.vector, vs, false, none⟩ else none)
          (if ok then "ok" else s!"err WrongVectorLength len={vs.length} expected={cfg.N}")
      else badop
    | _, _ => badop
  | "fromiter" :: hs :: k :: rest =>
    match parseNat hs, parseVals rest with
    | some hs, some vs =>
      if k = "list" then
        let ok := vs.length ≤ cfg.N
        storeNew hs (Coll.tryFromIter pf z cfg vs w.heap)
          (if ok then some ⟨.list, vs, false, none⟩ else none) (if ok then "ok" else "err *")
      else if k = "vec" then
        let ok := vs.length = cfg.N
        storeNew hs (Coll.vectorFromIter pf z cfg vs w.heap)
          (if ok then some ⟨.vector, vs, false, none⟩ else none) (if ok then "ok" else "err *")
      else badop
    | _, _ => badop
  | "fromiterslow" :: hs :: rest =>
    match parseNat hs, parseVals rest with
    | some hs, some vs =>
      let ok := vs.length ≤ cfg.N
      storeNew hs (Coll.tryFromIterSlow pf z cfg vs w.heap)
        (if ok then some ⟨.list, vs, false, none⟩ else none) (if ok then "ok" else "err *")
    | _, _ => badop
  | ["empty", hs] =>
    match parseNat hs with
    | some hs => storeNew hs (.ok (Coll.empty pf z cfg w.heap)) (some ⟨.list, [], false, none⟩) "ok"
    | none => badop
  | ["default", hs, k] =>
    match parseNat hs with
    | some hs =>
      if k = "list" then
        storeNew hs (.ok (Coll.empty pf z cfg w.heap)) (some ⟨.list, [], false, none⟩) "ok"
      else if k = "vec" then
        let dv := defaultValue E
        match Coll.vectorFromElem pf z cfg dv w.heap with
        | .ok r => storeNew hs (.ok r) (some ⟨.vector, List.replicate cfg.N dv, false, none⟩) "ok"
        | .error _ => (w, ("panic", "ok"))
      else badop
    | none => badop
  | ["repeat", hs, n, v] =>
    match parseNat hs, parseNat n, bytesOfHex v with
    | some hs, some n, some v =>
      let ok := n ≤ cfg.N
      storeNew hs (Coll.repeat_ pf z cfg v n w.heap)
        (if ok then some (if n > repThreshold then { kind := .list, xs := [], dirty := false, rep := some (n, v) }
                          else ⟨.list, List.replicate n v, false, none⟩) else none) (if ok then "ok" else "err *")
    | _, _, _ => badop
  | ["repeatslow", hs, n, v] =>
    match parseNat hs, parseNat n, bytesOfHex v with
    | some hs, some n, some v =>
      let ok := n ≤ cfg.N
      storeNew hs (Coll.tryFromIter pf z cfg (List.replicate n v) w.heap)
        (if ok then some ⟨.list, List.replicate n v, false, none⟩ else none) (if ok then "ok" else "err *")
    | _, _, _ => badop
  | ["fromelem", hs, v] =>
    match parseNat hs, bytesOfHex v with
    | some hs, some v =>
      storeNew hs (Coll.vectorFromElem pf z cfg v w.heap)
        (some ⟨.vector, List.replicate cfg.N v, false, none⟩) "ok"
    | _, _ => badop
  | ["drop", hs] =>
    match parseNat hs with
    | some hs => ({ w with colls := slotDel w.colls hs, scolls := slotDel w.scolls hs }, ("ok", "ok"))
    | none => badop
  | ["len", hs] =>
    match parseNat hs with
    | some hs =>
      match slotGet w.colls hs, slotGet w.scolls hs with
      | some c, some s => (w, (s!"ok {c.len}", s!"ok {s.len}"))
      | _, _ => badop
    | none => badop
  | ["isempty", hs] =>
    match parseNat hs with
    | some hs =>
      match slotGet w.colls hs, slotGet w.scolls hs with
      | some c, some s => (w, (fmtBool c.isEmpty, fmtBool (s.len == 0)))
      | _, _ => badop
    | none => badop
  | ["pending", hs] =>
    match parseNat hs with
    | some hs =>
      match slotGet w.colls hs, slotGet w.scolls hs with
      | some c, some s => (w, (fmtBool c.hasPending, fmtBool s.dirty))
      | _, _ => badop
    | none => badop
  | ["get", hs, i] =>
    match parseNat hs, parseNat i with
    | some hs, some i =>
      match slotGet w.colls hs, slotGet w.scolls hs with
      | some c, some s =>
        let f : Option V → String := fun o => match o with
          | some v => s!"some {hexOfBytes v}"
          | none => "none"
        (w, (f (c.get pf i), f (s.getAt i)))
      | _, _ => badop
    | _, _ => badop
  | ["tovec", hs] =>
    match parseNat hs with
    | some hs =>
      match slotGet w.colls hs, slotGet w.scolls hs with
      | some c, some s =>
        let m := match c.toVec pf with
          | .ok vs => ("ok " ++ fmtVals vs).trimAscii.toString
          | .error e => fmtErr e
        (w, (m, ("ok " ++ fmtVals s.xs).trimAscii.toString))
      | _, _ => badop
    | none => badop
  | ["iter", hs] =>
    match parseNat hs with
    | some hs =>
      match slotGet w.colls hs, slotGet w.scolls hs with
      | some c, some s =>
        let m := match c.iterFromRaw pf 0 with
          | .ok (items, fin) => fmtIter items fin
          | .error e => fmtErr e
        (w, (m, specIter s.xs 0))
      | _, _ => badop
    | none => badop
  | ["iterfrom", hs, i] =>
    match parseNat hs, parseNat i with
    | some hs, some i =>
      match slotGet w.colls hs, slotGet w.scolls hs with
      | some c, some s =>
        let m := match c.iterFrom pf i with
          | .ok (items, fin) => fmtIter items fin
          | .error e => fmtErr e
        let sp := if i > s.xs.length then s!"err OutOfBoundsIterFrom index={i} len={s.xs.length}"
          else specIter s.xs i
        (w, (m, sp))
      | _, _ => badop
    | _, _ => badop
  | ["getmut", hs, i, v] =>
    match parseNat hs, parseNat i, bytesOfHex v with
    | some hs, some i, some v =>
      match slotGet w.colls hs, slotGet w.scolls hs with
      | some c, some s =>
        let (w1, m) : World × String := match c.getMutSet pf i v with
          | some (old, c') => ({ w with colls := slotSet w.colls hs c' }, s!"some {hexOfBytes old}")
          | none => (w, "none")
        let (w2, sp) : World × String := match s.xs[i]? with
          | some old => ({ w1 with scolls := slotSet w1.scolls hs { s with xs := s.xs.set i v, dirty := true } },
              s!"some {hexOfBytes old}")
          | none => (w1, "none")
        (w2, (m, sp))
      | _, _ => badop
    | _, _, _ => badop
  | "cow" :: hs :: i :: act :: rest =>
    match parseNat hs, parseNat i, parseVals rest with
    | some hs, some i, some vs =>
      let actO : Option (CowAct V) :=
        match act, vs with
        | "read", [] => some .read
        | "intomut", [x] => some (.intoMut x)
        | "makemut", [x] => some (.makeMut x)
        | "makemut2", [x, y] => some (.makeMut2 x y)
        | _, _ => none
      match actO, slotGet w.colls hs, slotGet w.scolls hs with
      | some a, some c, some s =>
        let (w1, m) : World × String := match c.getCow pf i a with
          | some (old, c') => ({ w with colls := slotSet w.colls hs c' }, s!"some {hexOfBytes old}")
          | none => (w, "none")
        let newVal : Option V := match a with
          | .read => none
          | .intoMut x => some x
          | .makeMut x => some x
          | .makeMut2 _ y => some y
        let (w2, sp) : World × String := match s.xs[i]? with
          | some old =>
            match newVal with
            | some x => ({ w1 with scolls := slotSet w1.scolls hs { s with xs := s.xs.set i x, dirty := true } },
                s!"some {hexOfBytes old}")
            | none => (w1, s!"some {hexOfBytes old}")
          | none => (w1, "none")
        (w2, (m, sp))
      | _, _, _ => badop
    | _, _, _ => badop
  | ["push", hs, v] =>
    match parseNat hs, bytesOfHex v with
    | some hs, some v =>
      match slotGet w.colls hs, slotGet w.scolls hs with
      | some c, some s =>
        let (w1, m) : World × String := match c.push cfg v with
          | .ok c' => ({ w with colls := slotSet w.colls hs c' }, "ok")
          | .error e => (w, fmtErr e)
        let (w2, sp) : World × String :=
          match s.kind with
          | .vector => (w1, "err PushNotSupported")
          | .list =>
            if s.xs.length = cfg.N then (w1, s!"err ListFull len={cfg.N}")
            else ({ w1 with scolls := slotSet w1.scolls hs { s with xs := s.xs ++ [v], dirty := true } }, "ok")
        (w2, (m, sp))
      | _, _ => badop
    | _, _ => badop
  | ["apply", hs] =>
    match parseNat hs with
    | some hs =>
      match slotGet w.colls hs, slotGet w.scolls hs with
      | some c, some s =>
        let (r, c', heap) := c.applyUpdates pf z cfg w.heap
        let m := match r with
          | .ok () => "ok"
          | .error e => fmtErr e
        ({ w with heap := heap, colls := slotSet w.colls hs c',
                  scolls := slotSet w.scolls hs { s with dirty := false } }, (m, "ok"))
      | _, _ => badop
    | none => badop
  | "bulkcap" :: hs :: _ :: rest | "bulk" :: hs :: rest =>
    -- (`bulkcap h n …`: the capacity hint of a pre-sized map is not part of its meaning)
    match parseNat hs, rest.mapM parseKVE with
    | some hs, some kvs =>
      match slotGet w.colls hs, slotGet w.scolls hs with
      | some c, some s =>
        if s.kind = .vector then badop
        else
          let (w1, m) : World × String := match c.bulkUpdate cfg (mkMapE cfg.map kvs) with
            | .ok c' => ({ w with colls := slotSet w.colls hs c' }, "ok")
            | .error e => (w, fmtErr e)
          let (w2, sp) : World × String :=
            if s.dirty then (w1, "err BulkUpdateUnclean")
            else if specAdmissible cfg.map cfg.N s.xs kvs then
              let s' : SColl := { s with xs := specWrites s.xs kvs, dirty := !kvs.isEmpty }
              ({ w1 with scolls := slotSet w1.scolls hs s' }, "ok")
            else (w1, "err *")
          (w2, (m, sp))
      | _, _ => badop
    | _, _ => badop
  -- ---- update maps through the public `UpdateMap` trait ----
  | ["mnew", ms] | ["mcap", ms, _] =>
    match parseNat ms with
    | some ms => ({ w with maps := slotSet w.maps ms (UMap.empty cfg.map), smaps := slotSet w.smaps ms {} }, ("ok", "ok"))
    | none => badop
  | ["mclone", a, b] =>
    match parseNat a, parseNat b with
    | some a, some b =>
      match slotGet w.maps a, slotGet w.smaps a with
      | some m, some sm => ({ w with maps := slotSet w.maps b m, smaps := slotSet w.smaps b sm }, ("ok", "ok"))
      | _, _ => badop
    | _, _ => badop
  | ["mins", ms, k, v] =>
    match parseNat ms, parseNat k, bytesOfHex v with
    | some ms, some k, some v =>
      match slotGet w.maps ms, slotGet w.smaps ms with
      | some m, some sm =>
        let f : Option V → String := fun o => match o with
          | some v => s!"ok some {hexOfBytes v}"
          | none => "ok none"
        ({ w with maps := slotSet w.maps ms (m.insert k v),
                  smaps := slotSet w.smaps ms { sm with assoc := assocInsert k v sm.assoc, insMax := max sm.insMax k } },
          (f (m.get k), f (assocGet k sm.assoc)))
      | _, _ => badop
    | _, _, _ => badop
  | ["mget", ms, k] =>
    match parseNat ms, parseNat k with
    | some ms, some k =>
      match slotGet w.maps ms, slotGet w.smaps ms with
      | some m, some sm =>
        let f : Option V → String := fun o => match o with
          | some v => s!"some {hexOfBytes v}"
          | none => "none"
        (w, (f (m.get k), f (assocGet k sm.assoc)))
      | _, _ => badop
    | _, _ => badop
  | ["mgm", ms, k, fv, x] =>
    match parseNat ms, parseNat k, bytesOfHex x with
    | some ms, some k, some x =>
      let backing : Option (Option V) := if fv = "none" then some none else (bytesOfHex fv).map some
      match backing, slotGet w.maps ms, slotGet w.smaps ms with
      | some backing, some m, some sm =>
        let (w1, mo) : World × String := match m.getMutSet k backing x with
          | some (old, m') => ({ w with maps := slotSet w.maps ms m' }, s!"ok {hexOfBytes old}")
          | none => (w, "none")
        let (sm', so) : SMap × String := match assocGet k sm.assoc with
          | some old => ({ sm with assoc := assocInsert k x sm.assoc }, s!"ok {hexOfBytes old}")
          | none => match backing with
            | some b => ({ sm with assoc := assocInsert k x sm.assoc, viaEntry := true }, s!"ok {hexOfBytes b}")
            | none => (sm, "none")
        ({ w1 with smaps := slotSet w1.smaps ms sm' }, (mo, so))
      | _, _, _ => badop
    | _, _, _ => badop
  | ["mlen", ms] =>
    match parseNat ms with
    | some ms =>
      match slotGet w.maps ms, slotGet w.smaps ms with
      | some m, some sm => (w, (s!"ok {m.len}", s!"ok {sm.assoc.length}"))
      | _, _ => badop
    | none => badop
  | ["misempty", ms] =>
    match parseNat ms with
    | some ms =>
      match slotGet w.maps ms, slotGet w.smaps ms with
      | some m, some sm => (w, (fmtBool m.isEmpty, fmtBool sm.assoc.isEmpty))
      | _, _ => badop
    | none => badop
  | ["mmax", ms] =>
    match parseNat ms with
    | some ms =>
      match slotGet w.maps ms, slotGet w.smaps ms with
      | some m, some sm =>
        let f : Option Nat → String := fun o => match o with
          | some k => s!"some {k}"
          | none => "none"
        let sp := if sm.assoc.isEmpty then "none"
          else match cfg.map with
            | .maxvec => if sm.viaEntry then "*" else f (some sm.insMax)
            | _ => f (sm.assoc.getLast?.map (·.1))
        (w, (f m.maxIndex, sp))
      | _, _ => badop
    | none => badop
  | "mrange" :: ms :: st :: en :: rest =>
    match parseNat ms, parseNat st, parseNat en with
    | some ms, some st, some en =>
      match slotGet w.maps ms, slotGet w.smaps ms with
      | some m, some sm =>
        let cut : Option (String × Nat) := match rest with
          | [] => some ("all", 0)
          | [md, j] => (parseNat j).map (fun j => (md, j))
          | _ => none
        match cut with
        | none => badop
        | some (md, j) =>
          let render (es : List (Nat × V)) : String :=
            let (vis, okk) : List (Nat × V) × Bool :=
              if md = "all" ∨ j = 0 ∨ es.length < j then (es, true)
              else (es.take j, md ≠ "err")
            (if okk then "ok" else "err") ++ String.join (vis.map (fun p => s!" {p.1}:{hexOfBytes p.2}"))
          (w, (render (m.range st en), render (sm.assoc.filter (fun p => st ≤ p.1 && p.1 < en))))
      | _, _ => badop
    | _, _, _ => badop
  | ["meq", a, b] =>
    match parseNat a, parseNat b with
    | some a, some b =>
      match slotGet w.maps a, slotGet w.maps b, slotGet w.smaps a, slotGet w.smaps b with
      | some ma, some mb, some sa, some sb =>
        let sp := if cfg.map = .maxvec ∧ (sa.viaEntry ∨ sb.viaEntry) then "*"
          else fmtBool (decide (sa.assoc = sb.assoc))
        (w, (fmtBool (ma.beq mb), sp))
      | _, _, _, _ => badop
    | _, _ => badop
  | ["mbulk", hs, ms] =>
    match parseNat hs, parseNat ms with
    | some hs, some ms =>
      match slotGet w.colls hs, slotGet w.scolls hs, slotGet w.maps ms, slotGet w.smaps ms with
      | some c, some s, some m, some sm =>
        if s.kind = .vector ∨ s.rep.isSome then badop
        else
          let (w1, mo) : World × String := match c.bulkUpdate cfg m with
            | .ok c' => ({ w with colls := slotSet w.colls hs c' }, "ok")
            | .error e => (w, fmtErr e)
          let reported : Option Nat := if sm.assoc.isEmpty then none
            else match cfg.map with
              | .maxvec => some sm.insMax
              | _ => sm.assoc.getLast?.map (·.1)
          let admissible : Bool := match reported with
            | none => true
            | some mx => decide (mx < cfg.N) &&
                (Coll.gapCheckMax mx s.xs.length (sm.assoc.filter (fun p => p.1 ≥ s.xs.length))).isNone
          let (w2, sp) : World × String :=
            if s.dirty then (w1, "err BulkUpdateUnclean")
            else if admissible then
              let xs' := sm.assoc.foldl (fun acc kv => if kv.1 < acc.length then acc.set kv.1 kv.2 else acc ++ [kv.2]) s.xs
              ({ w1 with scolls := slotSet w1.scolls hs { s with xs := xs', dirty := !sm.assoc.isEmpty } }, "ok")
            else (w1, "err *")
          (w2, (mo, sp))
      | _, _, _, _ => badop
    | _, _ => badop
  | ["pop", hs, n] =>
    match parseNat hs, parseNat n with
    | some hs, some n =>
      match slotGet w.colls hs, slotGet w.scolls hs with
      | some c, some s =>
        if s.kind = .vector then badop
        else
          let (r, c', heap) := c.popFront pf z cfg n w.heap
          let m := match r with
            | .ok () => "ok"
            | .error e => fmtErr e
          let w1 := { w with heap := heap, colls := slotSet w.colls hs c' }
          let (s', sp) : SColl × String :=
            if n > s.len then ({ s with dirty := false },
              s!"err OutOfBoundsIterFrom index={n} len={s.len}")
            else match s.rep with
              | some (k, v) =>
                if k - n > repThreshold then ({ s with rep := some (k - n, v), dirty := false }, "ok")
                else ({ s with rep := none, xs := List.replicate (k - n) v, dirty := false }, "ok")
              | none => ({ s with xs := s.xs.drop n, dirty := false }, "ok")
          ({ w1 with scolls := slotSet w1.scolls hs s' }, (m, sp))
      | _, _ => badop
    | _, _ => badop
  | ["popslow", hs, n] =>
    match parseNat hs, parseNat n with
    | some hs, some n =>
      match slotGet w.colls hs, slotGet w.scolls hs with
      | some c, some s =>
        if s.kind = .vector then badop
        else
          let (w1, m) : World × String := match c.popFrontSlow pf z cfg n w.heap with
            | .ok (c', heap) => ({ w with heap := heap, colls := slotSet w.colls hs c' }, "ok")
            | .error e => (w, fmtErr e)
          let (s', sp) : SColl × String :=
            if n > s.xs.length then (s, s!"err OutOfBoundsIterFrom index={n} len={s.xs.length}")
            else ({ s with xs := s.xs.drop n, dirty := false }, "ok")
          ({ w1 with scolls := slotSet w1.scolls hs s' }, (m, sp))
      | _, _ => badop
    | _, _ => badop
  | ["itercow", hs, mode, v] =>
    match parseNat hs, bytesOfHex v with
    | some hs, some v =>
      match slotGet w.colls hs, slotGet w.scolls hs with
      | some c, some s =>
        let f := iterCowPolicy mode v
        let (w1, m) : World × String :=
          match Coll.iterCow pf c f (c.len + 1) 0 (Iter.fromIndex 0 c.tree) c.updates with
          | .ok (items, u) =>
            ({ w with colls := slotSet w.colls hs { c with updates := u } },
              "ok" ++ String.join (items.map (fun p => s!" {p.1}:{hexOfBytes p.2}")))
          | .error e => (w, fmtErr e)
        let items := s.xs.zipIdx
        let xs' := items.map (fun p => match f p.2 p.1 with | some x => x | none => p.1)
        let changed := items.any (fun p => (f p.2 p.1).isSome)
        let sp := "ok" ++ String.join (items.map (fun p => s!" {p.2}:{hexOfBytes p.1}"))
        ({ w1 with scolls := slotSet w1.scolls hs { s with xs := xs', dirty := s.dirty || changed } },
          (m, sp))
      | _, _ => badop
    | _, _ => badop
  | ["levels", hs, i] =>
    match parseNat hs, parseNat i with
    | some hs, some i =>
      match slotGet w.colls hs, slotGet w.scolls hs with
      | some c, some s =>
        if s.kind = .vector then badop
        else
          let m := match c.levelIterFrom pf i with
            | .ok items => fmtLevels items pf
            | .error e => fmtErr e
          let sp := if i > s.xs.length then s!"err OutOfBoundsIterFrom index={i} len={s.xs.length}"
            else if s.dirty then "err LevelIterPendingUpdates"
            else specLevels w s.xs i
          (w, (m, sp))
      | _, _ => badop
    | _, _ => badop
  | ["lvnodes", hs, i, t0] =>
    -- store the internal nodes yielded by `level_iter_from(i)` in tree slots t0, t0+1, ...
    match parseNat hs, parseNat i, parseNat t0 with
    | some hs, some i, some t0 =>
      match slotGet w.colls hs, slotGet w.scolls hs with
      | some c, some _ =>
        match c.levelIterFrom pf i with
        | .ok items =>
          let nodes := items.filterMap (fun it => match it with
            | .internal t => some t
            | .packedLeaf _ => none)
          let level := computeLevel i c.depth (pdOf pf)
          let subDepth := level - pdOf pf
          let w1 := nodes.zipIdx.foldl (fun (w : World) p =>
            { w with trees := slotSet w.trees (t0 + p.2) p.1,
                     strees := slotSet w.strees (t0 + p.2) ⟨treeLeaves p.1, subDepth⟩ }) w
          let out := s!"ok {nodes.length}" ++ String.join (nodes.map (fun t => s!" {t.computeLen}"))
          ({ w1 with lastLv := (t0, nodes.map Tree.computeLen) }, (out, "*"))
        | .error e => (w, (fmtErr e, "*"))
      | _, _ => badop
    | _, _, _ => badop
  | ["clone", hs, h2] =>
    match parseNat hs, parseNat h2 with
    | some hs, some h2 =>
      match slotGet w.colls hs, slotGet w.scolls hs with
      | some c, some s =>
        ({ w with colls := slotSet w.colls h2 c, scolls := slotSet w.scolls h2 s }, ("ok", "ok"))
      | _, _ => badop
    | _, _ => badop
  | ["tovector", hs, h2] =>
    match parseNat hs, parseNat h2 with
    | some hs, some h2 =>
      match slotGet w.colls hs, slotGet w.scolls hs with
      | some c, some s =>
        if s.kind = .vector then badop
        else
          let (w1, m) : World × String := match c.toVector pf z cfg w.heap with
            | .ok (c', heap) => ({ w with heap := heap, colls := slotSet w.colls h2 c' }, "ok")
            | .error e => (w, fmtErr e)
          let (w2, sp) : World × String :=
            if s.xs.length = cfg.N then
              ({ w1 with scolls := slotSet w1.scolls h2 ⟨.vector, s.xs, false, none⟩ }, "ok")
            else (w1, s!"err WrongVectorLength len={s.xs.length} expected={cfg.N}")
          (w2, (m, sp))
      | _, _ => badop
    | _, _ => badop
  | ["tolist", hs, h2] =>
    match parseNat hs, parseNat h2 with
    | some hs, some h2 =>
      match slotGet w.colls hs, slotGet w.scolls hs with
      | some c, some s =>
        if s.kind = .list then badop
        else
          ({ w with colls := slotSet w.colls h2 (c.toList cfg),
                    scolls := slotSet w.scolls h2 { s with kind := .list } }, ("ok", "ok"))
      | _, _ => badop
    | _, _ => badop
  | ["rebase", hs, hb] =>
    match parseNat hs, parseNat hb with
    | some hs, some hb =>
      match slotGet w.colls hs, slotGet w.colls hb, slotGet w.scolls hs, slotGet w.scolls hb with
      | some c, some b, some s, some sb =>
        if s.kind ≠ sb.kind then badop
        else
          match Coll.rebaseOnColl pf z c b w.heap with
          | .ok (c', heap) => ({ w with heap := heap, colls := slotSet w.colls hs c' }, ("ok", "ok"))
          | .error e => (w, (fmtErr e, "ok"))
      | _, _, _, _ => badop
    | _, _ => badop
  | ["rebasenew", hs, hb, h2] =>
    match parseNat hs, parseNat hb, parseNat h2 with
    | some hs, some hb, some h2 =>
      match slotGet w.colls hs, slotGet w.colls hb, slotGet w.scolls hs, slotGet w.scolls hb with
      | some c, some b, some s, some sb =>
        if s.kind ≠ sb.kind then badop
        else
          match Coll.rebaseOnColl pf z c b w.heap with
          | .ok (c', heap) =>
            ({ w with heap := heap, colls := slotSet w.colls h2 c',
                      scolls := slotSet w.scolls h2 s }, ("ok", "ok"))
          | .error e => (w, (fmtErr e, "ok"))
      | _, _, _, _ => badop
    | _, _, _ => badop
  | ["intra", hs] =>
    match parseNat hs with
    | some hs =>
      match slotGet w.colls hs, slotGet w.scolls hs with
      | some c, some s =>
        let (r, c', heap) := Coll.intraRebaseColl E alg cfg c w.heap
        let m := match r with
          | .ok () => "ok"
          | .error e => fmtErr e
        ({ w with heap := heap, colls := slotSet w.colls hs c',
                  scolls := slotSet w.scolls hs { s with dirty := false } }, (m, "ok"))
      | _, _ => badop
    | none => badop
  | ["root", hs] =>
    match parseNat hs with
    | some hs =>
      match slotGet w.colls hs, slotGet w.scolls hs with
      | some c, some s =>
        let (w1, m) : World × String := match Coll.treeHashRoot E alg mixIn c w.heap with
          | .ok (r, heap) => ({ w with heap := heap }, s!"ok {hexOfBytes r}")
          | .error e => (w, fmtErr e)
        if s.dirty then (w1, (m, "panic"))
        else if let some (n, v) := s.rep then (w1, (m, s!"ok {hexOfBytes (specRepRoot E cfg.N n v)}"))
        else
          let (r, cache) := specRoot w s
          ({ w1 with leafCache := cache }, (m, s!"ok {hexOfBytes r}"))
      | _, _ => badop
    | none => badop
  | ["eq", h1, h2] =>
    match parseNat h1, parseNat h2 with
    | some h1, some h2 =>
      match slotGet w.colls h1, slotGet w.colls h2, slotGet w.scolls h1, slotGet w.scolls h2 with
      | some a, some b, some sa, some sb =>
        if sa.kind ≠ sb.kind then badop
        else
          let sp := if sa.dirty || sb.dirty then "*"
            else match sa.rep, sb.rep with
              | some (n, v), some (n', v') => fmtBool (n == n' && v == v')
              | none, none => fmtBool (decide (sa.xs = sb.xs))
              | _, _ => fmtBool (sa.len == sb.len && sa.len == 0)   -- different lengths (symbolic ones are long)
          (w, (fmtBool (a.beq b), sp))
      | _, _, _, _ => badop
    | _, _ => badop
  | ["ssz", hs] =>
    match parseNat hs with
    | some hs =>
      match slotGet w.colls hs, slotGet w.scolls hs with
      | some c, some s =>
        let (m, mb) : String × List UInt8 := match c.toVec pf with
          | .ok vs =>
            (s!"ok {hexOfBytes (ByteArray.mk (sszEncode E vs).toArray)} len={sszBytesLen E vs}",
              sszEncode E vs)
          | .error e => (fmtErr e, [])
        let sb := sszEncode E s.xs
        ({ w with lastSsz := (mb, sb) }, (m, s!"ok {hexOfBytes (ByteArray.mk sb.toArray)} len={sb.length}"))
      | _, _ => badop
    | none => badop
  | ["unssz", hs, k, hex] =>
    match parseNat hs, bytesOfHex hex with
    | some hs, some bytes =>
      let bs := bytes.toList
      let isVec := k = "vec"
      if k ≠ "list" ∧ k ≠ "vec" then badop
      else
        let r := if isVec then sszDecodeVector E z cfg bs w.heap else sszDecodeList E z cfg bs w.heap
        let spec : Option (List V) :=
          match specDecode E bs with
          | some xs => if isVec then (if xs.length = cfg.N then some xs else none)
                       else (if xs.length ≤ cfg.N then some xs else none)
          | none => none
        match spec with
        | some xs => storeNew hs r (some ⟨if isVec then .vector else .list, xs, false, none⟩) "ok"
        | none => storeNew hs r none "err *"
    | _, _ => badop
  | ["ser", hs] =>
    match parseNat hs with
    | some hs =>
      match slotGet w.colls hs, slotGet w.scolls hs with
      | some c, some s =>
        let (m, mv) : String × List V := match c.toVec pf with
          | .ok vs => (("ok " ++ fmtVals vs).trimAscii.toString, vs)
          | .error e => (fmtErr e, [])
        ({ w with lastSer := (mv, s.xs) }, (m, ("ok " ++ fmtVals s.xs).trimAscii.toString))
      | _, _ => badop
    | none => badop
  | "de" :: hs :: k :: rest =>
    match parseNat hs, parseVals rest with
    | some hs, some vs =>
      let mapErr (r : Except Err (Coll V × Heap Hh)) : Except Err (Coll V × Heap Hh) :=
        match r with
        | .ok x => .ok x
        | .error _ => .error .ssz
      if k = "list" then
        let ok := vs.length ≤ cfg.N
        match mapErr (Coll.tryFromIter pf z cfg vs w.heap) with
        | .ok r => storeNew hs (.ok r) (if ok then some ⟨.list, vs, false, none⟩ else none) (if ok then "ok" else "err *")
        | .error _ => (w, ("err serde", if ok then "ok" else "err *"))
      else if k = "vec" then
        let ok := vs.length = cfg.N
        match mapErr (Coll.vectorFromIter pf z cfg vs w.heap) with
        | .ok r => storeNew hs (.ok r) (if ok then some ⟨.vector, vs, false, none⟩ else none) (if ok then "ok" else "err *")
        | .error _ => (w, ("err serde", if ok then "ok" else "err *"))
      else badop
    | _, _ => badop
  | ["sszmeta", k] =>
    -- SSZ: a list is variable-size (4-byte offset when nested); a vector of fixed-size elements is
    -- fixed-size with length k * N, otherwise variable-size
    let out := if k = "list" then "ok fixed=false len=4 dfixed=false dlen=4"
      else match E.fixedLen with
        | some sz =>
          -- `usize` arithmetic saturates (fix F10): no buffer can hold such an encoding
          let n := min (sz * cfg.N) (2 ^ 64 - 1)
          s!"ok fixed=true len={n} dfixed=true dlen={n}"
        | none => "ok fixed=false len=4 dfixed=false dlen=4"
    if k = "list" ∨ k = "vec" then (w, (out, out)) else badop
  | ["unsszprev", hs, k] =>
    match parseNat hs with
    | some hs =>
      let isVec := k = "vec"
      if k ≠ "list" ∧ k ≠ "vec" then badop
      else
        let bs := w.lastSsz.1
        let r := if isVec then sszDecodeVector E z cfg bs w.heap else sszDecodeList E z cfg bs w.heap
        let spec : Option (List V) :=
          match specDecode E w.lastSsz.2 with
          | some xs => if isVec then (if xs.length = cfg.N then some xs else none)
                       else (if xs.length ≤ cfg.N then some xs else none)
          | none => none
        match spec with
        | some xs => storeNew hs r (some ⟨if isVec then .vector else .list, xs, false, none⟩) "ok"
        | none => storeNew hs r none "err *"
    | none => badop
  | ["sszifok", hs, hex] =>
    match parseNat hs, bytesOfHex hex with
    | some hs, some expect =>
      let m := match slotGet w.colls hs with
        | none => "none"
        | some c =>
          match c.toVec pf with
          | .ok vs =>
            let b := ByteArray.mk (sszEncode E vs).toArray
            if b = expect then "ok same" else s!"ok differs {hexOfBytes b}"
          | .error e => fmtErr e
      -- decoding succeeds only for the canonical encoding of an in-bounds collection
      let sp := match slotGet w.scolls hs with
        | none => "none"
        | some _ => "ok same"
      (w, (m, sp))
    | _, _ => badop
  | ["wf", hs] =>
    match parseNat hs with
    | some hs =>
      match slotGet w.colls hs, slotGet w.scolls hs with
      | some c, some s =>
        let len := c.len
        let count := match c.toVec pf with
          | .ok vs => vs.length
          | .error _ => 0
        let gets := String.ofList ((List.range (len + 2)).map (fun i => if (c.get pf i).isSome then '1' else '0'))
        let n := s.xs.length
        let sgets := String.ofList ((List.range (n + 2)).map (fun i => if i < n then '1' else '0'))
        (w, (s!"ok len={len} count={count} gets={gets}", s!"ok len={n} count={n} gets={sgets}"))
      | _, _ => badop
    | none => badop
  | ["deprev", hs, k] =>
    match parseNat hs with
    | some hs =>
      let vs := w.lastSer.1
      let svs := w.lastSer.2
      let mapErr (r : Except Err (Coll V × Heap Hh)) : Except Err (Coll V × Heap Hh) :=
        match r with
        | .ok x => .ok x
        | .error _ => .error .ssz
      if k = "list" then
        let ok := svs.length ≤ cfg.N
        match mapErr (Coll.tryFromIter pf z cfg vs w.heap) with
        | .ok r => storeNew hs (.ok r) (if ok then some ⟨.list, svs, false, none⟩ else none) (if ok then "ok" else "err *")
        | .error _ => (w, ("err serde", if ok then "ok" else "err *"))
      else if k = "vec" then
        let ok := svs.length = cfg.N
        match mapErr (Coll.vectorFromIter pf z cfg vs w.heap) with
        | .ok r => storeNew hs (.ok r) (if ok then some ⟨.vector, svs, false, none⟩ else none) (if ok then "ok" else "err *")
        | .error _ => (w, ("err serde", if ok then "ok" else "err *"))
      else badop
    | none => badop
  | ["pushnodes", b, d, l] =>
    match parseNat b, parseNat d, parseNat l with
    | some b, some d, some l =>
      match Builder.new pf d l with
      | .error e => (w, (fmtErr e, "*"))
      | .ok bl =>
        let (t0, lens) := w.lastLv
        let rec go (k : Nat) (lens : List Nat) (bl : Builder V) (heap : Heap Hh) (acc : List V) :
            Except Err (Builder V × Heap Hh × List V) :=
          match lens with
          | [] => .ok (bl, heap, acc)
          | real :: rest =>
            match slotGet w.trees (t0 + k), slotGet w.strees (t0 + k) with
            | some tr, some st =>
              let len := if rest.isEmpty then real else 2 ^ l
              match bl.pushNode z heap tr len with
              | .ok (bl', heap') => go (k+1) rest bl' heap' (acc ++ st.xs)
              | .error e => .error e
            | _, _ => .error .panic
        match go 0 lens bl w.heap [] with
        | .ok (bl', heap, acc) =>
          ({ w with heap := heap, builders := slotSet w.builders b bl',
                    sbuilders := slotSet w.sbuilders b ⟨acc, d, l⟩ }, ("ok", "*"))
        | .error e => (w, (fmtErr e, "*"))
    | _, _, _ => badop
  | "dumpi" :: rest | "dump" :: rest =>
    match rest.mapM parseNat with
    | some hsl =>
      match hsl.mapM (fun hs => slotGet w.colls hs) with
      | some cs =>
        let st := cs.foldl (fun st c =>
          let st := { st with out := s!"[{c.length},{c.depth}]" :: st.out }
          dumpTree w c.tree st) (⟨[], []⟩ : DumpState)
        (w, ("ok " ++ " ".intercalate st.out.reverse, "*"))
      | none => badop
    | none => badop
  -- builder / tree level operations
  | ["bnew", b, d, l] =>
    match parseNat b, parseNat d, parseNat l with
    | some b, some d, some l =>
      match Builder.new pf d l with
      | .ok bl => ({ w with builders := slotSet w.builders b bl, bmixed := w.bmixed.filter (· ≠ b),
                            sbuilders := slotSet w.sbuilders b ⟨[], d, l⟩ }, ("ok", "ok"))
      | .error e => (w, (fmtErr e, "err *"))
    | _, _, _ => badop
  | ["bpush", b, v] =>
    match parseNat b, bytesOfHex v with
    | some b, some v =>
      match slotGet w.builders b, slotGet w.sbuilders b with
      | some bl, some sb =>
        let cap := 2 ^ (sb.depth + pdOf pf)
        let sp := if w.bmixed.contains b then "*" else if sb.xs.length ≥ cap then "err *" else "ok"
        match bl.push z w.heap v with
        | .ok (bl', heap) =>
          ({ w with heap := heap, builders := slotSet w.builders b bl',
                    sbuilders := slotSet w.sbuilders b { sb with xs := sb.xs ++ [v] } }, ("ok", sp))
        | .error e =>
          ({ w with builders := slotDel w.builders b, sbuilders := slotDel w.sbuilders b }, (fmtErr e, sp))
      | _, _ => badop
    | _, _ => badop
  | ["bpushnode", b, t, len] =>
    match parseNat b, parseNat t, parseNat len with
    | some b, some t, some len =>
      match slotGet w.builders b, slotGet w.sbuilders b, slotGet w.trees t, slotGet w.strees t with
      | some bl, some sb, some tr, some st =>
        let w := { w with bmixed := b :: w.bmixed }
        match bl.pushNode z w.heap tr len with
        | .ok (bl', heap) =>
          ({ w with heap := heap, builders := slotSet w.builders b bl',
                    sbuilders := slotSet w.sbuilders b { sb with xs := sb.xs ++ st.xs } }, ("ok", "*"))
        | .error e =>
          ({ w with builders := slotDel w.builders b, sbuilders := slotDel w.sbuilders b }, (fmtErr e, "*"))
      | _, _, _, _ => badop
    | _, _, _ => badop
  | ["bfinish", b, t] =>
    match parseNat b, parseNat t with
    | some b, some t =>
      match slotGet w.builders b, slotGet w.sbuilders b with
      | some bl, some sb =>
        let w0 := { w with builders := slotDel w.builders b, sbuilders := slotDel w.sbuilders b }
        match bl.finish z w.heap with
        | .ok ((tree, depth, length), heap) =>
          ({ w0 with heap := heap, trees := slotSet w0.trees t tree,
                     strees := slotSet w0.strees t ⟨sb.xs, sb.depth⟩ },
            (s!"ok depth={depth} len={length}", s!"ok depth={sb.depth} len={sb.xs.length}"))
        | .error e => (w0, (fmtErr e, "*"))
      | _, _ => badop
    | _, _ => badop
  | ["tzero", t, d] =>
    match parseNat t, parseNat d with
    | some t, some d =>
      let (id, heap) := w.heap.alloc z
      ({ w with heap := heap, trees := slotSet w.trees t (.zero id d),
                strees := slotSet w.strees t ⟨[], d⟩ }, ("ok", "ok"))
    | _, _ => badop
  | ["tget", t, i, d] =>
    match parseNat t, parseNat i, parseNat d with
    | some t, some i, some d =>
      match slotGet w.trees t, slotGet w.strees t with
      | some tr, some st =>
        let f : Option V → String := fun o => match o with
          | some v => s!"some {hexOfBytes v}"
          | none => "none"
        let sp := if d = st.depth ∧ i < 2 ^ (d + pdOf pf) then f st.xs[i]? else "*"
        (w, (f (getRec pf tr i d), sp))
      | _, _ => badop
    | _, _, _ => badop
  | ["tlen", t] =>
    match parseNat t with
    | some t =>
      match slotGet w.trees t, slotGet w.strees t with
      | some tr, some st => (w, (s!"ok {tr.computeLen}", s!"ok {st.xs.length}"))
      | _, _ => badop
    | none => badop
  | ["thash", t] =>
    match parseNat t with
    | some t =>
      match slotGet w.trees t, slotGet w.strees t with
      | some tr, some st =>
        let (r, heap) := treeHash E alg w.heap tr
        ({ w with heap := heap },
          (s!"ok {hexOfBytes r}", s!"ok {hexOfBytes (Spec.merk alg st.depth (Spec.chunksOf E st.xs))}"))
      | _, _ => badop
    | none => badop
  | ["tupd", t, i, v, d, t2] =>
    match parseNat t, parseNat i, bytesOfHex v, parseNat d, parseNat t2 with
    | some t, some i, some v, some d, some t2 =>
      match slotGet w.trees t, slotGet w.strees t with
      | some tr, some st =>
        match updLeaf pf z i v w.heap tr d with
        | .ok (tr', heap) =>
          let xs' := if i < st.xs.length then st.xs.set i v else st.xs ++ [v]
          ({ w with heap := heap, trees := slotSet w.trees t2 tr',
                    strees := slotSet w.strees t2 ⟨xs', st.depth⟩ }, ("ok", "*"))
        | .error e => (w, (fmtErr e, "*"))
      | _, _ => badop
    | _, _, _, _, _ => badop
  | ["teq", t1, t2] =>
    match parseNat t1, parseNat t2 with
    | some t1, some t2 =>
      match slotGet w.trees t1, slotGet w.trees t2, slotGet w.strees t1, slotGet w.strees t2 with
      | some a, some b, some sa, some sb =>
        (w, (fmtBool (decide (a.erase = b.erase)),
             if sa.depth = sb.depth then fmtBool (decide (sa.xs = sb.xs)) else "*"))
      | _, _, _, _ => badop
    | _, _ => badop
  | "tdump" :: rest =>
    match rest.mapM parseNat with
    | some tsl =>
      match tsl.mapM (fun t => slotGet w.trees t) with
      | some ts =>
        let st := ts.foldl (fun st t => dumpTree w t st) (⟨[], []⟩ : DumpState)
        (w, ("ok " ++ " ".intercalate st.out.reverse, "*"))
      | none => badop
    | none => badop
  | ["intlog", n] =>
    match parseNat n with
    | some n =>
      -- spec: ceil(log2 n) via Nat.log2, 64 above 2^63 (checked_next_power_of_two overflows)
      let sp := if n ≤ 1 then 0 else if n > 2 ^ 63 then 64 else Nat.log2 (n - 1) + 1
      (w, (s!"ok {intLog n}", s!"ok {sp}"))
    | none => badop
  | ["complevel", i, d, pd] =>
    match parseNat i, parseNat d, parseNat pd with
    | some i, some d, some pd =>
      let rec tzs (fuel n : Nat) : Nat := match fuel with
        | 0 => 0
        | f+1 => if n % 2 = 1 then 0 else 1 + tzs f (n / 2)
      let raw := if i = 0 then d + pd else tzs 64 i
      (w, (s!"ok {computeLevel i d pd}", s!"ok {if raw < pd then 0 else raw}"))
    | _, _, _ => badop
  | ["treeof", hs, t] =>
    -- copy the backing tree root of a flushed collection into a tree slot
    match parseNat hs, parseNat t with
    | some hs, some t =>
      match slotGet w.colls hs, slotGet w.scolls hs with
      | some c, some s =>
        ({ w with trees := slotSet w.trees t c.tree, strees := slotSet w.strees t ⟨s.xs, c.depth⟩ },
          (s!"ok depth={c.depth}", "*"))
      | _, _ => badop
    | _, _ => badop
  | _ => badop


/-! ## The proved specification as a twin of the driver's spec world

The theorems (`xrun_refines`, `world_refines`) relate the model to the step function `xsstep` of
`Proofs/WorldSsz.lean` (`wsstep` / `sstep` inside it). The oracle the implementation is held to is
the spec world of this file, written separately and for a larger operation language. To tie the
two, every line that is expressible as an `XOp` is *also* executed by `xsstep` on a mirrored
`SWorld`; its output must be the driver's spec output and the resulting plain state of every
handle must be the driver's. A difference is printed in the spec column as `TWIN-MISMATCH …`
(which then fails the comparison with the implementation). Lines outside the `XOp` language only
resynchronise the mirror. -/

def fmtHOut : HOut V → Option String
  | .ok => some "ok"
  | .error e => some (fmtErr e)
  | .none => some "none"
  | .some v => some s!"some {hexOfBytes v}"
  | .nat n => some s!"ok {n}"
  | .bool b => some (fmtBool b)
  | .vals l => some ("ok " ++ fmtVals l).trimAscii.toString
  | .items l fin => some (fmtIter l fin)
  | .unsupported => none

def fmtXOut : XOut V Hh → Option String
  | .w (.out o) => fmtHOut o
  | .w (.hash h) => some s!"ok {hexOfBytes h}"
  | .bytes b len => some s!"ok {hexOfBytes (ByteArray.mk b.toArray)} len={len}"
  | .seq xs => some ("ok " ++ fmtVals xs).trimAscii.toString

/-- the `XOp` a protocol line denotes (with the slot that receives a new handle, if it creates
one), or `none` when the line is outside the proved operation language. -/
def twinOp (w : World) (words : List String) : Option (XOp V × Option Nat) :=
  let ix (h : String) : Option Nat := h.toNat?.bind (fun k => slotGet w.twinIdx k)
  let on (h : String) (op : HOp V) : Option (XOp V × Option Nat) := (ix h).map (fun i => (.w (.on i op), none))
  let kindOf (k : String) : Option CKind := if k = "list" then some .list else if k = "vec" then some .vector else none
  match words with
  | ["len", h] => on h .len
  | ["isempty", h] => on h .isEmpty
  | ["pending", h] => on h .pending
  | ["get", h, i] => i.toNat?.bind (fun i => on h (.get i))
  | ["tovec", h] => on h .toVec
  | ["iterfrom", h, i] => i.toNat?.bind (fun i => on h (.iterFrom i))
  | ["push", h, v] => (bytesOfHex v).bind (fun v => on h (.push v))
  | ["getmut", h, i, v] => match i.toNat?, bytesOfHex v with
    | some i, some v => on h (.getMut i v)
    | _, _ => none
  | "cow" :: h :: i :: act :: rest => match i.toNat?, parseVals rest with
    | some i, some vs =>
      (match act, vs with
        | "read", [] => some CowAct.read
        | "intomut", [x] => some (.intoMut x)
        | "makemut", [x] => some (.makeMut x)
        | "makemut2", [x, y] => some (.makeMut2 x y)
        | _, _ => none).bind (fun a => on h (.cow i a))
    | _, _ => none
  | "bulk" :: h :: rest => match rest.mapM parseKVE with
    | some kvs => if kvs.any (·.1) then none else on h (.bulk (kvs.map (·.2)))
    | none => none
  | ["apply", h] => on h .apply
  | ["clone", a, b] => match ix a, b.toNat? with
    | some i, some b => some (.w (.clone i), some b)
    | _, _ => none
  | "new" :: h :: k :: rest | "fromiter" :: h :: k :: rest => match h.toNat?, kindOf k, parseVals rest with
    | some h, some k, some vs =>
      -- (`Vector::new(vec)` reports a wrong length differently from `Vector::try_from_iter`, which
      -- is what `newFromIter .vector` stands for)
      if words.head? = some "new" ∧ k = .vector then none else some (.w (.newFromIter k vs), some h)
    | _, _, _ => none
  | ["repeat", h, n, v] => match h.toNat?, n.toNat?, bytesOfHex v with
    | some h, some n, some v => if n > repThreshold then none else some (.w (.newRepeat v n), some h)
    | _, _, _ => none
  | ["fromelem", h, v] => match h.toNat?, bytesOfHex v with
    | some h, some v => some (.w (.fromElem v), some h)
    | _, _ => none
  | ["pop", h, n] => match ix h, n.toNat? with
    | some i, some n => some (.w (.pop i n), none)
    | _, _ => none
  | ["tovector", a, b] => match ix a, b.toNat? with
    | some i, some b => some (.w (.toVector i), some b)
    | _, _ => none
  | ["tolist", a, b] => match ix a, b.toNat? with
    | some i, some b => some (.w (.toList i), some b)
    | _, _ => none
  | ["rebase", a, b] => match ix a, ix b with
    | some i, some j => some (.w (.rebase i j), none)
    | _, _ => none
  | ["intra", h] => (ix h).map (fun i => (.w (.intra i), none))
  | ["root", h] => (ix h).map (fun i => (.w (.root i), none))
  | ["eq", a, b] => match ix a, ix b with
    | some i, some j => some (.w (.eqFlushed i j), none)
    | _, _ => none
  | ["ssz", h] => (ix h).map (fun i => (.sszEncode i, none))
  | ["unssz", h, k, hex] => match h.toNat?, kindOf k, bytesOfHex hex with
    | some h, some k, some b => some (.newFromSsz k b.toList, some h)
    | _, _, _ => none
  | ["ser", h] => (ix h).map (fun i => (.serdeSer i, none))
  | "de" :: h :: k :: rest => match h.toNat?, kindOf k, parseVals rest with
    | some h, some k, some vs => some (.newFromSerde k vs, some h)
    | _, _, _ => none
  | _ => none

/-- does the mirrored entry equal the driver's plain state of that handle? -/
def twinSame (s : SColl) (e : CKind × List V × Bool) : Bool :=
  decide (s.kind = e.1) && decide (s.xs = e.2.1) && s.dirty == e.2.2

/-- make the mirror agree with the driver's spec world (after a line outside the proved language):
unknown or changed handles are appended afresh, dropped ones forgotten. Symbolic handles are not
mirrored. -/
def twinResync (w : World) : World :=
  let live := w.scolls.filter (fun p => p.2.rep.isNone)
  let (sw, idx) := live.foldl (fun (acc : SWorld V × List (Nat × Nat)) p =>
    let keep := match slotGet w.twinIdx p.1 with
      | some i => (match acc.1[i]? with | some e => twinSame p.2 e | none => false)
      | none => false
    if keep then (acc.1, (p.1, (slotGet w.twinIdx p.1).getD 0) :: acc.2)
    else (acc.1 ++ [(p.2.kind, p.2.xs, p.2.dirty)], (p.1, acc.1.length) :: acc.2)) (w.twinSw, [])
  { w with twinSw := sw, twinIdx := idx }

def step (w : World) (line : String) : World × Out :=
  let (w', (m, sp)) := stepCore w line
  let words := (line.trimAscii.toString.splitOn " ").filter (· ≠ "")
  if m = "bad-op" then (w', (m, sp)) else
  match twinOp w words with
  | none => (twinResync w', (m, sp))
  | some (op, newSlot) =>
    -- element roots are served from the cache the driver's own spec root has just filled
    let E' : Elem V Hh := if w'.E.pf.isSome then w'.E else
      { w'.E with leafHash := fun v => (w'.leafCache.get? v).getD (w'.E.leafHash v) }
    let (o, sw') := xsstep E' alg mixIn w'.cfg.N w.twinSw op
    let idx' := if sw'.length > w.twinSw.length then
        (match newSlot with | some h => slotSet w.twinIdx h (sw'.length - 1) | none => w.twinIdx)
      else w.twinIdx
    let outOK : Bool := match fmtXOut o with
      | none => true
      | some t => sp = "*" || (sp = "err *" && t.startsWith "err") || t = sp
    let stOK : Bool := idx'.all (fun p => match slotGet w'.scolls p.1, sw'[p.2]? with
      | some s, some e => s.rep.isSome || twinSame s e
      | none, _ => true
      | some _, none => false)
    let w'' := twinResync { w' with twinSw := sw', twinIdx := idx' }
    if outOK && stOK then (w'', (m, sp))
    else (w'', (m, s!"TWIN-MISMATCH out={(fmtXOut o).getD "-"} state-ok={stOK} driver-spec={sp}"))

end Milhouse.Exec
