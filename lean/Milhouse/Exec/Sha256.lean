/-!
# SHA-256 (FIPS 180-4) in core Lean, for the executable instance only

Used to instantiate `HashAlg.h2` with `hash32_concat` when the driver runs. No theorem depends
on it; it is validated on every run against the implementation's roots, and by the known-answer
tests in `Main.lean`'s `selftest`.
-/
namespace Milhouse.Sha256

def K : Array UInt32 := #[
  0x428a2f98, 0x71374491, 0xb5c0fbcf, 0xe9b5dba5, 0x3956c25b, 0x59f111f1, 0x923f82a4, 0xab1c5ed5,
  0xd807aa98, 0x12835b01, 0x243185be, 0x550c7dc3, 0x72be5d74, 0x80deb1fe, 0x9bdc06a7, 0xc19bf174,
  0xe49b69c1, 0xefbe4786, 0x0fc19dc6, 0x240ca1cc, 0x2de92c6f, 0x4a7484aa, 0x5cb0a9dc, 0x76f988da,
  0x983e5152, 0xa831c66d, 0xb00327c8, 0xbf597fc7, 0xc6e00bf3, 0xd5a79147, 0x06ca6351, 0x14292967,
  0x27b70a85, 0x2e1b2138, 0x4d2c6dfc, 0x53380d13, 0x650a7354, 0x766a0abb, 0x81c2c92e, 0x92722c85,
  0xa2bfe8a1, 0xa81a664b, 0xc24b8b70, 0xc76c51a3, 0xd192e819, 0xd6990624, 0xf40e3585, 0x106aa070,
  0x19a4c116, 0x1e376c08, 0x2748774c, 0x34b0bcb5, 0x391c0cb3, 0x4ed8aa4a, 0x5b9cca4f, 0x682e6ff3,
  0x748f82ee, 0x78a5636f, 0x84c87814, 0x8cc70208, 0x90befffa, 0xa4506ceb, 0xbef9a3f7, 0xc67178f2]

def H0 : Array UInt32 := #[
  0x6a09e667, 0xbb67ae85, 0x3c6ef372, 0xa54ff53a, 0x510e527f, 0x9b05688c, 0x1f83d9ab, 0x5be0cd19]

@[inline] def rotr (x : UInt32) (n : UInt32) : UInt32 := (x >>> n) ||| (x <<< (32 - n))

def schedule (block : ByteArray) (off : Nat) : Array UInt32 := Id.run do
  let mut w : Array UInt32 := Array.mkEmpty 64
  for i in [0:16] do
    let b0 := (block.get! (off + 4*i)).toUInt32
    let b1 := (block.get! (off + 4*i + 1)).toUInt32
    let b2 := (block.get! (off + 4*i + 2)).toUInt32
    let b3 := (block.get! (off + 4*i + 3)).toUInt32
    w := w.push ((b0 <<< 24) ||| (b1 <<< 16) ||| (b2 <<< 8) ||| b3)
  for i in [16:64] do
    let w15 := w[i-15]!
    let w2 := w[i-2]!
    let s0 := rotr w15 7 ^^^ rotr w15 18 ^^^ (w15 >>> 3)
    let s1 := rotr w2 17 ^^^ rotr w2 19 ^^^ (w2 >>> 10)
    w := w.push (w[i-16]! + s0 + w[i-7]! + s1)
  return w

def compress (st : Array UInt32) (block : ByteArray) (off : Nat) : Array UInt32 := Id.run do
  let w := schedule block off
  let mut a := st[0]!
  let mut b := st[1]!
  let mut c := st[2]!
  let mut d := st[3]!
  let mut e := st[4]!
  let mut f := st[5]!
  let mut g := st[6]!
  let mut h := st[7]!
  for i in [0:64] do
    let s1 := rotr e 6 ^^^ rotr e 11 ^^^ rotr e 25
    let ch := (e &&& f) ^^^ ((~~~ e) &&& g)
    let t1 := h + s1 + ch + K[i]! + w[i]!
    let s0 := rotr a 2 ^^^ rotr a 13 ^^^ rotr a 22
    let maj := (a &&& b) ^^^ (a &&& c) ^^^ (b &&& c)
    let t2 := s0 + maj
    h := g; g := f; f := e; e := d + t1; d := c; c := b; b := a; a := t1 + t2
  return #[st[0]! + a, st[1]! + b, st[2]! + c, st[3]! + d, st[4]! + e, st[5]! + f, st[6]! + g,
    st[7]! + h]

def pad (msg : ByteArray) : ByteArray := Id.run do
  let len := msg.size
  let mut m := msg.push 0x80
  while m.size % 64 ≠ 56 do
    m := m.push 0
  let bits := len * 8
  for i in [0:8] do
    m := m.push (UInt8.ofNat ((bits >>> (8 * (7 - i))) % 256))
  return m

def hash (msg : ByteArray) : ByteArray := Id.run do
  let m := pad msg
  let mut st := H0
  for i in [0:m.size / 64] do
    st := compress st m (64 * i)
  let mut out := ByteArray.emptyWithCapacity 32
  for i in [0:8] do
    let x := st[i]!
    out := out.push (x >>> 24).toUInt8
    out := out.push (x >>> 16).toUInt8
    out := out.push (x >>> 8).toUInt8
    out := out.push x.toUInt8
  return out

/-- `hash32_concat`. -/
def hash32Concat (a b : ByteArray) : ByteArray := hash (a ++ b)

end Milhouse.Sha256
