import Milhouse.Model.Ssz
import Milhouse.Spec.Merkle
import Milhouse.Exec.Sha256
import Std.Data.HashMap
/-!
# Concrete instantiation used by the driver

Elements are represented by their SSZ bytes (`ByteArray`); hashes are 32-byte `ByteArray`s and
`h2` is SHA-256 of the concatenation.
-/
namespace Milhouse.Exec
open Milhouse

abbrev V := ByteArray
abbrev Hh := ByteArray

def zero32 : ByteArray := ByteArray.mk (Array.replicate 32 0)

def alg : HashAlg Hh := ⟨zero32, Sha256.hash32Concat⟩

def padTo32 (b : ByteArray) : ByteArray := Id.run do
  let mut r := b
  while r.size < 32 do r := r.push 0
  return r

def natLe32 (n : Nat) : ByteArray := Id.run do
  let mut r := ByteArray.emptyWithCapacity 32
  let mut k := n
  for _ in [0:32] do
    r := r.push (UInt8.ofNat (k % 256))
    k := k / 256
  return r

/-- `tree_hash::mix_in_length`. -/
def mixIn (root : Hh) (len : Nat) : Hh := Sha256.hash32Concat root (natLe32 len)

def concatAll (vs : List ByteArray) : ByteArray := vs.foldl (· ++ ·) ByteArray.empty

/-- fixed-size basic kind of `size` bytes (`u8`..`U256`): packed `32/size` per chunk. -/
def basicKind (size : Nat) : Elem V Hh where
  pf := some (32 / size)
  leafHash := fun v => padTo32 v
  packHash := fun vs => padTo32 (concatAll vs)
  fixedLen := some size
  enc := fun v => v.toList
  dec := fun bs => if bs.length = size then some (ByteArray.mk bs.toArray) else none

/-- `Hash256` (`B256`): a 32-byte vector, unpacked; its root is itself. -/
def h256Kind : Elem V Hh where
  pf := none
  leafHash := fun v => v
  packHash := fun _ => zero32
  fixedLen := some 32
  enc := fun v => v.toList
  dec := fun bs => if bs.length = 32 then some (ByteArray.mk bs.toArray) else none

/-- container `{ a: u64, b: u8, c: Hash256 }` (41 bytes): root = merkleize of the three field
roots padded to four chunks. -/
def contKind : Elem V Hh where
  pf := none
  leafHash := fun v =>
    let a := padTo32 (v.extract 0 8)
    let b := padTo32 (v.extract 8 9)
    let c := v.extract 9 41
    Sha256.hash32Concat (Sha256.hash32Concat a b) (Sha256.hash32Concat c zero32)
  packHash := fun _ => zero32
  fixedLen := some 41
  enc := fun v => v.toList
  dec := fun bs => if bs.length = 41 then some (ByteArray.mk bs.toArray) else none

/-- element that is a `Vector<u64, U8>` (64 bytes, fixed size): root = merkleize of its two chunks,
no length mixed in. Exercises the `Vector` trait impls as an *element* (`tree_hash_type`,
`ssz_fixed_len`, `Default`, `Deserialize`). -/
def nestvKind : Elem V Hh where
  pf := none
  leafHash := fun v => Sha256.hash32Concat (v.extract 0 32) (v.extract 32 64)
  packHash := fun _ => zero32
  fixedLen := some 64
  enc := fun v => v.toList
  dec := fun bs => if bs.length = 64 then some (ByteArray.mk bs.toArray) else none

/-- a container without fields: SSZ length zero, root = the zero chunk. Not a legal SSZ type; kept
to exercise the decoder's `ZeroLengthItem` branch (`sszDecodeItems`, `k = 0`). -/
def unitKind : Elem V Hh where
  pf := none
  leafHash := fun _ => zero32
  packHash := fun _ => zero32
  fixedLen := some 0
  enc := fun _ => []
  dec := fun bs => if bs.isEmpty then some ByteArray.empty else none

/-- variable-size element: an inner `List<u8, U8>` (0..8 bytes): root = mix_in_length(chunk, n). -/
def varKind : Elem V Hh where
  pf := none
  leafHash := fun v => mixIn (padTo32 v) v.size
  packHash := fun _ => zero32
  fixedLen := none
  enc := fun v => v.toList
  dec := fun bs => if bs.length ≤ 8 then some (ByteArray.mk bs.toArray) else none

/-- element that is itself a `List<u64, U1024>` (0..1024 values, 8 bytes each): root =
mix_in_length(merkleize(pack(values), limit = 256 chunks), n). Hashing it forks with rayon. -/
def nestKind : Elem V Hh where
  pf := none
  leafHash := fun v =>
    let nchunks := (v.size + 31) / 32
    let chunks := (List.range nchunks).map (fun i => padTo32 (v.extract (32 * i) (min v.size (32 * (i + 1)))))
    mixIn (Spec.merk alg 8 chunks) (v.size / 8)
  packHash := fun _ => zero32
  fixedLen := none
  enc := fun v => v.toList
  dec := fun bs => if bs.length % 8 = 0 ∧ bs.length / 8 ≤ 1024 then some (ByteArray.mk bs.toArray) else none

/-- element that is a `List<List<u8, U8>, U4>`: a list of variable-size items, SSZ-encoded with
its own offset table. Root = mix_in_length(merkleize(item roots, limit 4), n). Decoding accepts
exactly the canonical encodings (the model of `List::from_ssz_bytes`, `sszDecodeItems`). -/
def nest2Items (bs : List UInt8) : Option (List V) := sszDecodeItems varKind 4 bs

def nest2Kind : Elem V Hh where
  pf := none
  leafHash := fun v =>
    let items := (nest2Items v.toList).getD []
    mixIn (Spec.merk alg 2 (items.map varKind.leafHash)) items.length
  packHash := fun _ => zero32
  fixedLen := none
  enc := fun v => v.toList
  dec := fun bs => match nest2Items bs with
    | some items => if sszEncode varKind items = bs then some (ByteArray.mk bs.toArray) else none
    | none => none

def kindOf (name : String) : Option (Elem V Hh) :=
  match name with
  | "u8" => some (basicKind 1)
  | "u16" => some (basicKind 2)
  | "u32" => some (basicKind 4)
  | "u64" => some (basicKind 8)
  | "u128" => some (basicKind 16)
  | "u256" => some (basicKind 32)
  | "h256" => some h256Kind
  | "cont" => some contKind
  | "unit" => some unitKind
  | "nestv" => some nestvKind
  | "var" => some varKind
  | "nest" => some nestKind
  | "nest2" => some nest2Kind
  | _ => none

/-- `T::default()` in SSZ bytes. -/
def defaultValue (E : Elem V Hh) : V :=
  match E.fixedLen with
  | some k => ByteArray.mk (Array.replicate k 0)
  | none => ByteArray.empty

end Milhouse.Exec
