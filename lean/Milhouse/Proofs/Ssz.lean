import Milhouse.Model.Ssz
/-!
# C12 — SSZ encoding / decoding of `List` / `Vector`

The element codec is abstract (`Elem.enc`, `Elem.dec`, `Elem.fixedLen`); its laws are the
hypotheses collected in `CodecOK`.

* `C12_len`             : the reported length is the actual length.
* `C12_roundtrip_items` : decoding the encoding of an in-bounds sequence gives the sequence back.
* `C12_strict`          : decoding succeeds only on the canonical encoding of an in-bounds sequence.
* `C12_decodeList_*`, `C12_decodeVector_*` : the collection level (never `panic`, success only
  through `sszDecodeItems` + `Coll.tryFromIter`).

Totality / no-panic of `sszDecodeItems` is by construction: it is a total function into `Option`.
-/
namespace Milhouse
variable {T H : Type}

/-- the laws of an element codec (`Encode` / `Decode` of `T`). -/
structure CodecOK (E : Elem T H) : Prop where
  dec_enc : ∀ x, E.dec (E.enc x) = some x
  enc_dec : ∀ bs x, E.dec bs = some x → E.enc x = bs
  fixed_len : ∀ k x, E.fixedLen = some k → (E.enc x).length = k
  fixed_pos : ∀ k, E.fixedLen = some k → 0 < k

/-! ## `CodecOK` is satisfiable (fixed-size and variable-size instances) -/

/-- byte lists of length exactly 2, fixed size 2 (the carrier is a subtype so that `dec_enc` holds
for every value). -/
def sszExFixed2 : Elem {x : List UInt8 // x.length = 2} Unit where
  pf := none
  leafHash := fun _ => ()
  packHash := fun _ => ()
  fixedLen := some 2
  enc := fun x => x.1
  dec := fun bs => if h : bs.length = 2 then some ⟨bs, h⟩ else none

theorem sszExFixed2_ok : CodecOK sszExFixed2 where
  dec_enc := by intro x; simp [sszExFixed2, x.2]
  enc_dec := by
    intro bs x h
    simp only [sszExFixed2] at h ⊢
    split at h
    · cases h; rfl
    · cases h
  fixed_len := by intro k x h; simp only [sszExFixed2] at h ⊢; cases h; exact x.2
  fixed_pos := by intro k h; simp only [sszExFixed2] at h; cases h; decide

/-- byte blobs of length at most 8, variable size. -/
def sszExVar : Elem {x : List UInt8 // x.length ≤ 8} Unit where
  pf := none
  leafHash := fun _ => ()
  packHash := fun _ => ()
  fixedLen := none
  enc := fun x => x.1
  dec := fun bs => if h : bs.length ≤ 8 then some ⟨bs, h⟩ else none

theorem sszExVar_ok : CodecOK sszExVar where
  dec_enc := by intro x; simp [sszExVar, x.2]
  enc_dec := by
    intro bs x h
    simp only [sszExVar] at h ⊢
    split at h
    · cases h; rfl
    · cases h
  fixed_len := by intro k x h; simp [sszExVar] at h
  fixed_pos := by intro k h; simp [sszExVar] at h

example : ∃ E : Elem {x : List UInt8 // x.length = 2} Unit, CodecOK E ∧ E.fixedLen = some 2 :=
  ⟨sszExFixed2, sszExFixed2_ok, rfl⟩
example : ∃ E : Elem {x : List UInt8 // x.length ≤ 8} Unit, CodecOK E ∧ E.fixedLen = none :=
  ⟨sszExVar, sszExVar_ok, rfl⟩

/-! ## Lengths -/

theorem sszOffsets_length (off : Nat) (ns : List Nat) :
    (sszOffsets off ns).length = 4 * ns.length := by
  induction ns generalizing off with
  | nil => simp [sszOffsets]
  | cons n rest ih => simp [sszOffsets, encodeLength, ih]; omega

theorem flatten_enc_length_fixed {E : Elem T H} (hE : CodecOK E) {k : Nat}
    (hk : E.fixedLen = some k) (xs : List T) :
    ((xs.map E.enc).flatten).length = k * xs.length := by
  induction xs with
  | nil => simp
  | cons x xs ih =>
    simp only [List.map_cons, List.flatten_cons, List.length_append, ih, List.length_cons,
      hE.fixed_len k x hk]
    rw [Nat.mul_succ]; omega

/-- **C12 (length)**: `ssz_bytes_len` is the number of bytes `ssz_append` writes. -/
theorem C12_len {E : Elem T H} (hE : CodecOK E) (xs : List T) :
    sszBytesLen E xs = (sszEncode E xs).length := by
  unfold sszBytesLen sszEncode
  cases hk : E.fixedLen with
  | some k => simp only; rw [flatten_enc_length_fixed hE hk]
  | none =>
    simp only [List.length_append, sszOffsets_length, List.length_map, List.length_flatten,
      List.map_map]
    have : (List.length ∘ E.enc) = fun x => (E.enc x).length := rfl
    rw [this]; omega

/-! ## `decodeAll` -/

theorem decodeAll_map_enc {E : Elem T H} (hE : CodecOK E) (xs : List T) :
    decodeAll E (xs.map E.enc) = some xs := by
  induction xs with
  | nil => rfl
  | cons x xs ih => simp [decodeAll, hE.dec_enc, ih]

theorem decodeAll_some {E : Elem T H} (hE : CodecOK E) :
    ∀ (cs : List (List UInt8)) (xs : List T), decodeAll E cs = some xs → xs.map E.enc = cs
  | [], xs, h => by simp [decodeAll] at h; subst h; rfl
  | c :: rest, xs, h => by
    unfold decodeAll at h
    cases hd : E.dec c with
    | none => simp [hd] at h
    | some x =>
      cases hr : decodeAll E rest with
      | none => simp [hd, hr] at h
      | some ys =>
        simp [hd, hr] at h
        subst h
        simp [hE.enc_dec c x hd, decodeAll_some hE rest ys hr]

/-! ## `chunksOf` -/

/-- cutting a concatenation of `k`-byte blocks into `k`-byte chunks gives the blocks back. -/
theorem chunksOf_flatten {k : Nat} (hk : 0 < k) :
    ∀ (fuel : Nat) (cs : List (List UInt8)), (∀ c ∈ cs, c.length = k) → cs.length ≤ fuel →
      chunksOf k fuel cs.flatten = cs
  | 0, cs, _, hf => by
    have : cs = [] := List.eq_nil_of_length_eq_zero (by omega)
    subst this; rfl
  | fuel+1, [], _, _ => by simp [chunksOf]
  | fuel+1, c :: cs, hall, hf => by
    have hc : c.length = k := hall c (by simp)
    have hne : (c ++ cs.flatten).isEmpty = false := by
      cases c with
      | nil => simp at hc; omega
      | cons a c => rfl
    simp only [chunksOf, List.flatten_cons, hne, Bool.false_eq_true, if_false]
    rw [List.take_left' hc, List.drop_left' hc]
    rw [chunksOf_flatten hk fuel cs (fun c' h' => hall c' (by simp [h'])) (by simp at hf; omega)]

/-- the chunks concatenate to the input. -/
theorem flatten_chunksOf (k : Nat) (hk : 0 < k) :
    ∀ (fuel : Nat) (bs : List UInt8), bs.length ≤ fuel → (chunksOf k fuel bs).flatten = bs
  | 0, bs, hf => by
    have : bs = [] := List.eq_nil_of_length_eq_zero (by omega)
    subst this; rfl
  | fuel+1, bs, hf => by
    unfold chunksOf
    cases hb : bs.isEmpty with
    | true => simp at hb; subst hb; rfl
    | false =>
      simp only [Bool.false_eq_true, if_false, List.flatten_cons]
      have hpos : 0 < bs.length := by
        cases bs with
        | nil => simp at hb
        | cons a bs => simp
      rw [flatten_chunksOf k hk fuel (bs.drop k) (by simp; omega)]
      exact List.take_append_drop k bs

/-! ## `encodeLength` / `readOffset` -/

theorem encodeLength_length (n : Nat) : (encodeLength n).length = 4 := rfl

theorem readOffset_encodeLength (n : Nat) (hn : n < 2 ^ 32) (rest : List UInt8) :
    readOffset (encodeLength n ++ rest) = some n := by
  simp only [encodeLength, readOffset, List.cons_append, List.nil_append, UInt8.toNat_ofNat',
    Option.some.injEq]
  omega

theorem readOffset_some_length {bs : List UInt8} {n : Nat} (h : readOffset bs = some n) :
    4 ≤ bs.length := by
  match bs, h with
  | a :: b :: c :: d :: rest, _ => simp

theorem readOffset_some_lt {bs : List UInt8} {n : Nat} (h : readOffset bs = some n) :
    n < 2 ^ 32 := by
  match bs, h with
  | a :: b :: c :: d :: rest, h =>
    simp only [readOffset, Option.some.injEq] at h
    have := a.toNat_lt; have := b.toNat_lt; have := c.toNat_lt; have := d.toNat_lt
    omega

/-- the four bytes read by `read_offset` are the `encode_length` of the value read. -/
theorem readOffset_some_take {bs : List UInt8} {n : Nat} (h : readOffset bs = some n) :
    bs.take 4 = encodeLength n := by
  match bs, h with
  | a :: b :: c :: d :: rest, h =>
    simp only [readOffset, Option.some.injEq] at h
    have ha := a.toNat_lt; have hb := b.toNat_lt; have hc := c.toNat_lt; have hd := d.toNat_lt
    have e1 : n % 256 = a.toNat := by omega
    have e2 : n / 256 % 256 = b.toNat := by omega
    have e3 : n / 65536 % 256 = c.toNat := by omega
    have e4 : n / 16777216 % 256 = d.toNat := by omega
    simp only [encodeLength, e1, e2, e3, e4, UInt8.ofNat_toNat, List.take_succ_cons, List.take_zero]

/-! ## Fixed-size elements -/

theorem ssz_isEmpty_false_of_length_pos {bs : List UInt8} (h : 0 < bs.length) : bs.isEmpty = false := by
  cases bs with
  | nil => simp at h
  | cons a bs => rfl

theorem C12_roundtrip_fixed {E : Elem T H} (hE : CodecOK E) {k : Nat} (hk : E.fixedLen = some k)
    (N : Nat) (xs : List T) (hN : xs.length ≤ N) :
    sszDecodeItems E N (sszEncode E xs) = some xs := by
  have hk0 : 0 < k := hE.fixed_pos k hk
  have henc : sszEncode E xs = (xs.map E.enc).flatten := by simp [sszEncode, hk]
  have hlen : (sszEncode E xs).length = k * xs.length := by
    rw [henc, flatten_enc_length_fixed hE hk]
  cases xs with
  | nil => simp [henc, sszDecodeItems]
  | cons x xs =>
    have hpos : 0 < (sszEncode E (x :: xs)).length := by
      rw [hlen]; exact Nat.mul_pos hk0 (by simp)
    unfold sszDecodeItems
    rw [ssz_isEmpty_false_of_length_pos hpos]
    simp only [Bool.false_eq_true, if_false, hk, Nat.ne_of_gt hk0, hlen,
      Nat.mul_div_cancel_left _ hk0]
    rw [if_neg (by omega), henc]
    rw [chunksOf_flatten hk0]
    · exact decodeAll_map_enc hE _
    · intro c hc
      rcases List.mem_map.1 hc with ⟨y, _, rfl⟩
      exact hE.fixed_len k y hk
    · have := Nat.le_mul_of_pos_left (x :: xs).length hk0
      simp only [List.length_map]; omega

theorem C12_strict_fixed {E : Elem T H} (hE : CodecOK E) {k : Nat} (hk : E.fixedLen = some k)
    (N : Nat) (bs : List UInt8) (xs : List T) (h : sszDecodeItems E N bs = some xs) :
    sszEncode E xs = bs ∧ xs.length ≤ N := by
  have hk0 : 0 < k := hE.fixed_pos k hk
  have henc : sszEncode E xs = (xs.map E.enc).flatten := by simp [sszEncode, hk]
  unfold sszDecodeItems at h
  cases hb : bs.isEmpty with
  | true =>
    simp only [hb, if_true, Option.some.injEq] at h
    simp at hb; subst hb; subst h
    simp [henc]
  | false =>
    simp only [hb, Bool.false_eq_true, if_false, hk, Nat.ne_of_gt hk0] at h
    split at h
    · cases h
    · rename_i hle
      have hcs := decodeAll_some hE _ _ h
      have hflat := flatten_chunksOf k hk0 (bs.length + 1) bs (by omega)
      rw [← hcs] at hflat
      refine ⟨by rw [henc, hflat], ?_⟩
      have hl : bs.length = k * xs.length := by
        rw [← hflat, flatten_enc_length_fixed hE hk]
      rw [hl, Nat.mul_div_cancel_left _ hk0] at hle
      omega

/-! ## Variable-size elements: the offset table -/

/-- one step of the offset table: the four bytes at position `4*j` of the table are the
`encode_length` of the offset read there. -/
theorem sszTable_step (bs : List UInt8) (m j next : Nat) (hj : 4 * j + 4 ≤ m)
    (h : readOffset (bs.drop (j * 4)) = some next) :
    (bs.take m).drop (4 * j) = encodeLength next ++ (bs.take m).drop (4 * (j + 1)) := by
  have h4 := readOffset_some_take h
  have e : (bs.take m).drop (4 * j) =
      ((bs.take m).drop (4 * j)).take 4 ++ ((bs.take m).drop (4 * j)).drop 4 :=
    (List.take_append_drop 4 _).symm
  rw [e]
  congr 1
  · rw [← h4, List.drop_take, List.take_take, Nat.mul_comm j 4]
    congr 1; omega
  · rw [List.drop_drop, Nat.mul_succ]

/-- soundness of the item loop: whatever `varSlices` accepts is a non-empty list of slices that
tile `bs` from `offset` on, and the remaining offset table is the one `sszOffsets` writes. -/
theorem varSlices_sound (bs : List UInt8) (first n : Nat) (h4n : 4 * n ≤ bs.length) :
    ∀ (fuel i offset : Nat) (slices : List (List UInt8)), i ≤ n → n - i < fuel →
      varSlices bs first n fuel i offset = some slices →
      ∃ s rest, slices = s :: rest ∧ rest.length = n - i ∧ s ++ rest.flatten = bs.drop offset ∧
        offset ≤ bs.length ∧
        (bs.take (4 * n)).drop (4 * i) = sszOffsets (offset + s.length) (rest.map List.length)
  | 0, _, _, _, _, hf, _ => by omega
  | fuel+1, i, offset, slices, hi, hf, h => by
    simp only [varSlices] at h
    rw [if_neg (by omega)] at h
    by_cases hin : i = n
    · subst hin
      rw [if_pos rfl] at h
      split at h
      · rename_i hle
        cases h
        refine ⟨_, [], rfl, by simp, by simp, hle, ?_⟩
        rw [List.drop_of_length_le (by simp; omega)]
        rfl
      · cases h
    · rw [if_neg hin] at h
      cases hro : readOffset (bs.drop (i * 4)) with
      | none => simp [hro] at h
      | some next =>
        simp only [hro] at h
        split at h
        · cases h
        · split at h
          · cases h
          · split at h
            · cases h
            · rename_i h1 h2 h3
              cases hrec : varSlices bs first n fuel (i + 1) next with
              | none => simp [hrec] at h
              | some rest =>
                simp only [hrec, Option.some.injEq] at h
                subst h
                obtain ⟨s', rest', hr, hlen, hcat, hnb, htbl⟩ :=
                  varSlices_sound bs first n h4n fuel (i + 1) next rest (by omega) (by omega) hrec
                subst hr
                have hsl : ((bs.drop offset).take (next - offset)).length = next - offset := by
                  simp only [List.length_take, List.length_drop]; omega
                refine ⟨_, _, rfl, by simp [hlen]; omega, ?_, by omega, ?_⟩
                · rw [List.flatten_cons, hcat]
                  have : bs.drop next = (bs.drop offset).drop (next - offset) := by
                    rw [List.drop_drop]; congr 1; omega
                  rw [this, List.take_append_drop]
                · rw [sszTable_step bs (4 * n) i next (by omega) hro, htbl, hsl]
                  have : offset + (next - offset) = next := by omega
                  rw [this]
                  simp only [List.map_cons, sszOffsets]

/-- completeness of the item loop: it accepts the offset table written by `sszOffsets` and cuts
exactly the bodies. -/
theorem varSlices_complete (bs : List UInt8) (n : Nat) (h4n : 4 * n ≤ bs.length)
    (hlt : bs.length < 2 ^ 32) :
    ∀ (fuel i offset : Nat) (s : List UInt8) (rest : List (List UInt8)), i ≤ n → n - i < fuel →
      rest.length = n - i → 4 * n ≤ offset → offset ≤ bs.length →
      s ++ rest.flatten = bs.drop offset →
      (bs.take (4 * n)).drop (4 * i) = sszOffsets (offset + s.length) (rest.map List.length) →
      varSlices bs (4 * n) n fuel i offset = some (s :: rest)
  | 0, _, _, _, _, _, hf, _, _, _, _, _ => by omega
  | fuel+1, i, offset, s, rest, hi, hf, hlen, hoff, hob, hcat, htbl => by
    simp only [varSlices]
    rw [if_neg (by omega)]
    by_cases hin : i = n
    · subst hin
      have : rest = [] := List.eq_nil_of_length_eq_zero (by omega)
      subst this
      rw [if_pos rfl, if_pos hob]
      simp at hcat
      rw [hcat]
    · rw [if_neg hin]
      cases rest with
      | nil => simp at hlen; omega
      | cons s' rest' =>
        have hslen : offset + s.length ≤ bs.length := by
          have := congrArg List.length hcat
          simp only [List.length_append, List.length_drop] at this
          omega
        have hdrop : bs.drop (i * 4) =
            encodeLength (offset + s.length) ++
              (sszOffsets (offset + s.length + s'.length) (rest'.map List.length) ++
                bs.drop (4 * n)) := by
          have e : bs.drop (i * 4) = (bs.take (4 * n) ++ bs.drop (4 * n)).drop (4 * i) := by
            rw [List.take_append_drop, Nat.mul_comm]
          rw [e, List.drop_append_of_le_length (by simp; omega), htbl]
          simp only [List.map_cons, sszOffsets, List.append_assoc]
        rw [hdrop, readOffset_encodeLength _ (by omega)]
        simp only
        rw [if_neg (by omega), if_neg (by omega), if_neg (by omega)]
        have hrec := varSlices_complete bs n h4n hlt fuel (i + 1) (offset + s.length) s' rest'
          (by omega) (by omega) (by simp at hlen; omega) (by omega) hslen
          (by
            have : bs.drop (offset + s.length) = (bs.drop offset).drop s.length := by
              rw [List.drop_drop]
            rw [this, ← hcat, List.drop_left' rfl, List.flatten_cons])
          (by
            have : (bs.take (4 * n)).drop (4 * (i + 1)) = ((bs.take (4 * n)).drop (4 * i)).drop 4 := by
              rw [List.drop_drop, Nat.mul_succ]
            rw [this, htbl]
            simp only [List.map_cons, sszOffsets]
            rw [List.drop_left' (encodeLength_length _)])
        rw [hrec]
        simp only [Option.some.injEq, List.cons.injEq, and_true]
        have : offset + s.length - offset = s.length := by omega
        rw [this, ← hcat, List.take_left' rfl]

theorem C12_roundtrip_var {E : Elem T H} (hE : CodecOK E) (hk : E.fixedLen = none)
    (N : Nat) (xs : List T) (hN : xs.length ≤ N) (h32 : (sszEncode E xs).length < 2 ^ 32) :
    sszDecodeItems E N (sszEncode E xs) = some xs := by
  have henc : sszEncode E xs =
      sszOffsets (4 * xs.length) ((xs.map E.enc).map List.length) ++ (xs.map E.enc).flatten := by
    simp [sszEncode, hk]
  cases hcs : xs.map E.enc with
  | nil =>
    have : xs = [] := by simpa using hcs
    subst this
    simp [henc, sszDecodeItems, sszOffsets]
  | cons s rest =>
    have hn : xs.length = rest.length + 1 := by
      have := congrArg List.length hcs; simpa using this
    generalize hbs : sszEncode E xs = bs at *
    rw [hcs] at henc
    have htl : (sszOffsets (4 * xs.length) ((s :: rest).map List.length)).length = 4 * xs.length := by
      rw [sszOffsets_length]; simp [hn]
    have h4n : 4 * xs.length ≤ bs.length := by
      rw [henc, List.length_append, htl]; omega
    have hro : readOffset bs = some (4 * xs.length) := by
      rw [henc]
      simp only [List.map_cons, sszOffsets, List.append_assoc]
      exact readOffset_encodeLength _ (by omega) _
    have htake : bs.take (4 * xs.length) =
        sszOffsets (4 * xs.length) ((s :: rest).map List.length) := by
      rw [henc, List.take_left' htl]
    have hdrop : bs.drop (4 * xs.length) = (s :: rest).flatten := by
      rw [henc, List.drop_left' htl]
    have hvs := varSlices_complete bs xs.length h4n h32 (xs.length + 1) 1 (4 * xs.length) s rest
      (by omega) (by omega) (by omega) (Nat.le_refl _) h4n
      (by rw [hdrop, List.flatten_cons])
      (by
        rw [htake]
        simp only [List.map_cons, sszOffsets]
        rw [List.drop_left' (encodeLength_length _)])
    unfold sszDecodeItems
    rw [ssz_isEmpty_false_of_length_pos (by omega)]
    simp only [Bool.false_eq_true, if_false, hk, hro]
    rw [if_neg (by omega)]
    have hb : (decide ((4 * xs.length) % 4 ≠ 0) || decide (4 * xs.length < 4)) = false := by
      simp only [Bool.or_eq_false_iff, decide_eq_false_iff_not]; omega
    have hdiv : 4 * xs.length / 4 = xs.length := by omega
    simp only [ne_eq, hb, Bool.false_eq_true, if_false, hdiv]
    rw [if_neg (by omega), hvs]
    simp only
    rw [← hcs]
    exact decodeAll_map_enc hE xs

theorem C12_strict_var {E : Elem T H} (hE : CodecOK E) (hk : E.fixedLen = none)
    (N : Nat) (bs : List UInt8) (xs : List T) (h : sszDecodeItems E N bs = some xs) :
    sszEncode E xs = bs ∧ xs.length ≤ N := by
  have henc : sszEncode E xs =
      sszOffsets (4 * xs.length) ((xs.map E.enc).map List.length) ++ (xs.map E.enc).flatten := by
    simp [sszEncode, hk]
  unfold sszDecodeItems at h
  cases hb : bs.isEmpty with
  | true =>
    simp only [hb, if_true, Option.some.injEq] at h
    simp at hb; subst hb; subst h
    simp [henc, sszOffsets]
  | false =>
    simp only [hb, Bool.false_eq_true, if_false, hk] at h
    cases hro : readOffset bs with
    | none => simp [hro] at h
    | some first =>
      simp only [hro] at h
      split at h
      · cases h
      · rename_i hfl
        split at h
        · cases h
        · rename_i hal
          simp only [ne_eq, Bool.or_eq_true, decide_eq_true_eq, not_or, Decidable.not_not,
            Nat.not_lt] at hal
          split at h
          · cases h
          · rename_i hnN
            cases hvs : varSlices bs first (first / 4) (first / 4 + 1) 1 first with
            | none => simp [hvs] at h
            | some slices =>
              simp only [hvs] at h
              have hcs := decodeAll_some hE _ _ h
              have hfirst : 4 * (first / 4) = first := by omega
              obtain ⟨s, rest, hsl, hlen, hcat, _, htbl⟩ :=
                varSlices_sound bs first (first / 4) (by omega) (first / 4 + 1) 1 first slices
                  (by omega) (by omega) hvs
              subst hsl
              have hxl : xs.length = first / 4 := by
                have := congrArg List.length hcs
                simp only [List.length_map, List.length_cons] at this
                omega
              refine ⟨?_, by omega⟩
              rw [henc, hcs, hxl, hfirst]
              have h4 := readOffset_some_take hro
              have htake : bs.take first = sszOffsets first ((s :: rest).map List.length) := by
                have e : bs.take first = (bs.take first).take 4 ++ (bs.take first).drop 4 :=
                  (List.take_append_drop 4 _).symm
                rw [e, List.take_take, Nat.min_eq_left hal.2, h4]
                rw [hfirst] at htbl
                rw [show (4 : Nat) = 4 * 1 from rfl, htbl]
                simp only [List.map_cons, sszOffsets]
              rw [← htake, List.flatten_cons, hcat, List.take_append_drop]

/-! ## C12 at the level of element sequences -/

/-- **C12 (round trip)**: decoding the encoding of an in-bounds sequence yields the sequence.
The size hypothesis says the offsets fit in four bytes; it is only used for variable-size kinds
(see `C12_roundtrip_items_fixed`). -/
theorem C12_roundtrip_items {E : Elem T H} (hE : CodecOK E) (N : Nat) (xs : List T)
    (hN : xs.length ≤ N) (h32 : (sszEncode E xs).length < 2 ^ 32) :
    sszDecodeItems E N (sszEncode E xs) = some xs := by
  cases hk : E.fixedLen with
  | some k => exact C12_roundtrip_fixed hE hk N xs hN
  | none => exact C12_roundtrip_var hE hk N xs hN h32

/-- for fixed-size kinds the size bound is not needed. -/
theorem C12_roundtrip_items_fixed {E : Elem T H} (hE : CodecOK E) {k : Nat}
    (hk : E.fixedLen = some k) (N : Nat) (xs : List T) (hN : xs.length ≤ N) :
    sszDecodeItems E N (sszEncode E xs) = some xs :=
  C12_roundtrip_fixed hE hk N xs hN

/-- **C12 (strictness)**: for EVERY byte string, decoding succeeds only if the bytes are the
canonical encoding of the decoded, in-bounds sequence. (Totality — "never panics" — is by
construction: `sszDecodeItems` is a total function into `Option`.) -/
theorem C12_strict {E : Elem T H} (hE : CodecOK E) (N : Nat) (bs : List UInt8) (xs : List T)
    (h : sszDecodeItems E N bs = some xs) : sszEncode E xs = bs ∧ xs.length ≤ N := by
  cases hk : E.fixedLen with
  | some k => exact C12_strict_fixed hE hk N bs xs h
  | none => exact C12_strict_var hE hk N bs xs h

/-- decoding is injective on the byte strings it accepts, and — with the round trip — it is a
bijection between in-bounds sequences (of encoded size `< 2^32`) and accepted byte strings. -/
theorem C12_decode_inj {E : Elem T H} (hE : CodecOK E) (N : Nat) (bs bs' : List UInt8)
    (xs : List T) (h : sszDecodeItems E N bs = some xs) (h' : sszDecodeItems E N bs' = some xs) :
    bs = bs' := by
  rw [← (C12_strict hE N bs xs h).1, ← (C12_strict hE N bs' xs h').1]

/-! ## C12 at the collection level (`List::from_ssz_bytes`, `Vector::from_ssz_bytes`) -/

theorem sszEncode_eq_nil_iff {E : Elem T H} (hE : CodecOK E) (xs : List T) :
    sszEncode E xs = [] ↔ xs = [] := by
  constructor
  · intro h
    cases xs with
    | nil => rfl
    | cons x xs =>
      exfalso
      have hl := C12_len hE (x :: xs)
      rw [h] at hl
      unfold sszBytesLen at hl
      cases hk : E.fixedLen with
      | some k =>
        have := hE.fixed_pos k hk
        simp only [hk, List.length_cons, List.length_nil] at hl
        have : 0 < k * (xs.length + 1) := Nat.mul_pos this (Nat.succ_pos _)
        omega
      | none =>
        simp only [hk, List.length_cons, List.length_nil] at hl
        omega
  · intro h; subst h
    unfold sszEncode
    cases E.fixedLen <;> simp [sszOffsets]

/-- **C12 (collection level, no panic)**: every failure of `List::from_ssz_bytes` is an
`ssz::DecodeError`, never a panic (nor any other milhouse error). -/
theorem C12_decodeList_error (E : Elem T H) (z : H) (cfg : Cfg) (bs : List UInt8) (h : Heap H)
    (e : Err) (he : sszDecodeList E z cfg bs h = .error e) : e = .ssz := by
  unfold sszDecodeList at he
  split at he
  · cases he
  · split at he
    · cases he; rfl
    · split at he
      · cases he; rfl
      · cases he

/-- **C12 (collection level, success)**: `List::from_ssz_bytes` succeeds only on the empty byte
string (giving `List::empty`) or through `sszDecodeItems` followed by `try_from_iter` on the
decoded items. -/
theorem C12_decodeList_ok (E : Elem T H) (z : H) (cfg : Cfg) (bs : List UInt8) (h : Heap H)
    (c : Coll T) (h' : Heap H) (hok : sszDecodeList E z cfg bs h = .ok (c, h')) :
    (bs = [] ∧ Coll.empty E.pf z cfg h = (c, h')) ∨
    (bs ≠ [] ∧ ∃ xs, sszDecodeItems E cfg.N bs = some xs ∧
      Coll.tryFromIter E.pf z cfg xs h = .ok (c, h')) := by
  unfold sszDecodeList at hok
  split at hok
  · rename_i hb
    left
    exact ⟨by simpa using hb, by cases hok; rfl⟩
  · rename_i hb
    right
    refine ⟨by simpa using hb, ?_⟩
    split at hok
    · cases hok
    · rename_i xs hxs
      split at hok
      · cases hok
      · rename_i r hr
        cases hok
        exact ⟨xs, hxs, hr⟩

/-- **C12 (collection level, strictness)**: if `List::from_ssz_bytes` succeeds, the input is the
canonical encoding of an in-bounds element sequence `xs`, and the result is what `List::empty`
(`xs = []`) resp. `try_from_iter xs` builds. -/
theorem C12_decodeList_strict {E : Elem T H} (hE : CodecOK E) (z : H) (cfg : Cfg)
    (bs : List UInt8) (h : Heap H) (c : Coll T) (h' : Heap H)
    (hok : sszDecodeList E z cfg bs h = .ok (c, h')) :
    ∃ xs, sszEncode E xs = bs ∧ xs.length ≤ cfg.N ∧
      ((xs = [] ∧ Coll.empty E.pf z cfg h = (c, h')) ∨
       (xs ≠ [] ∧ Coll.tryFromIter E.pf z cfg xs h = .ok (c, h'))) := by
  rcases C12_decodeList_ok E z cfg bs h c h' hok with ⟨hb, he⟩ | ⟨hb, xs, hxs, htf⟩
  · subst hb
    exact ⟨[], (sszEncode_eq_nil_iff hE []).2 rfl, Nat.zero_le _, Or.inl ⟨rfl, he⟩⟩
  · obtain ⟨h1, h2⟩ := C12_strict hE cfg.N bs xs hxs
    refine ⟨xs, h1, h2, Or.inr ⟨?_, htf⟩⟩
    intro hx
    exact hb (by rw [← h1]; exact (sszEncode_eq_nil_iff hE xs).2 hx)

/-- **C12 (collection level, round trip)**: on the encoding of a non-empty in-bounds sequence,
`List::from_ssz_bytes` is `try_from_iter` on that sequence (errors mapped to `DecodeError`). -/
theorem C12_decodeList_roundtrip {E : Elem T H} (hE : CodecOK E) (z : H) (cfg : Cfg)
    (xs : List T) (h : Heap H) (hne : xs ≠ []) (hN : xs.length ≤ cfg.N)
    (h32 : (sszEncode E xs).length < 2 ^ 32) :
    sszDecodeList E z cfg (sszEncode E xs) h =
      match Coll.tryFromIter E.pf z cfg xs h with
      | .error _ => .error .ssz
      | .ok r => .ok r := by
  unfold sszDecodeList
  have hb : (sszEncode E xs).isEmpty = false := by
    cases hs : sszEncode E xs with
    | nil => exact absurd ((sszEncode_eq_nil_iff hE xs).1 hs) hne
    | cons a l => rfl
  rw [hb, C12_roundtrip_items hE cfg.N xs hN h32]
  simp only [Bool.false_eq_true, if_false]
  cases Coll.tryFromIter E.pf z cfg xs h <;> rfl

/-- the empty sequence decodes to `List::empty`. -/
theorem C12_decodeList_roundtrip_nil {E : Elem T H} (hE : CodecOK E) (z : H) (cfg : Cfg)
    (h : Heap H) :
    sszDecodeList E z cfg (sszEncode E []) h = .ok (Coll.empty E.pf z cfg h) := by
  rw [(sszEncode_eq_nil_iff hE []).2 rfl]
  rfl

/-- **C12 (collection level, round trip to the canonical collection)**. `htfi` is the fact —
proved elsewhere (builder / `try_from_iter` correctness) — that `try_from_iter` on an in-bounds
sequence succeeds with a collection satisfying `P` (e.g. "is the canonical tree of `xs`");
`hempty` is the same fact for `List::empty`. -/
theorem C12_decodeList_roundtrip_of_tryFromIter {E : Elem T H} (hE : CodecOK E) (z : H) (cfg : Cfg)
    (P : Coll T → List T → Prop)
    (htfi : ∀ xs h, xs.length ≤ cfg.N →
      ∃ c h', Coll.tryFromIter E.pf z cfg xs h = .ok (c, h') ∧ P c xs)
    (hempty : ∀ h, P (Coll.empty E.pf z cfg h).1 [])
    (xs : List T) (h : Heap H) (hN : xs.length ≤ cfg.N)
    (h32 : (sszEncode E xs).length < 2 ^ 32) :
    ∃ c h', sszDecodeList E z cfg (sszEncode E xs) h = .ok (c, h') ∧ P c xs := by
  by_cases hne : xs = []
  · subst hne
    exact ⟨_, _, C12_decodeList_roundtrip_nil hE z cfg h, hempty h⟩
  · obtain ⟨c, h', htf, hP⟩ := htfi xs h hN
    refine ⟨c, h', ?_, hP⟩
    rw [C12_decodeList_roundtrip hE z cfg xs h hne hN h32, htf]

/-- `Vector::from_ssz_bytes` never panics: every failure is an `ssz::DecodeError`. -/
theorem C12_decodeVector_error (E : Elem T H) (z : H) (cfg : Cfg) (bs : List UInt8) (h : Heap H)
    (e : Err) (he : sszDecodeVector E z cfg bs h = .error e) : e = .ssz := by
  unfold sszDecodeVector at he
  split at he
  · cases he; rfl
  · split at he
    · cases he; rfl
    · cases he

/-- `Vector::from_ssz_bytes` succeeds only through a successful `List::from_ssz_bytes` of
exactly `N` elements followed by the `List → Vector` conversion. -/
theorem C12_decodeVector_ok (E : Elem T H) (z : H) (cfg : Cfg) (bs : List UInt8) (h : Heap H)
    (v : Coll T) (h'' : Heap H) (hok : sszDecodeVector E z cfg bs h = .ok (v, h'')) :
    ∃ c h', sszDecodeList E z cfg bs h = .ok (c, h') ∧ c.len = cfg.N ∧
      Coll.toVector E.pf z cfg c h' = .ok (v, h'') := by
  unfold sszDecodeVector at hok
  split at hok
  · cases hok
  · rename_i c h' hl
    split at hok
    · cases hok
    · rename_i r hr
      cases hok
      refine ⟨c, h', hl, ?_, hr⟩
      unfold Coll.toVector at hr
      split at hr
      · assumption
      · cases hr

/-- strictness for vectors: a successful `Vector::from_ssz_bytes` was given the canonical
encoding of an in-bounds sequence. -/
theorem C12_decodeVector_strict {E : Elem T H} (hE : CodecOK E) (z : H) (cfg : Cfg)
    (bs : List UInt8) (h : Heap H) (v : Coll T) (h'' : Heap H)
    (hok : sszDecodeVector E z cfg bs h = .ok (v, h'')) :
    ∃ xs, sszEncode E xs = bs ∧ xs.length ≤ cfg.N := by
  obtain ⟨c, h', hl, _, _⟩ := C12_decodeVector_ok E z cfg bs h v h'' hok
  obtain ⟨xs, h1, h2, _⟩ := C12_decodeList_strict hE z cfg bs h c h' hl
  exact ⟨xs, h1, h2⟩

/-! ## Non-vacuity: concrete runs -/

section Examples

/-- three two-byte values. -/
def sszExF : List {x : List UInt8 // x.length = 2} := [⟨[1, 2], rfl⟩, ⟨[3, 4], rfl⟩, ⟨[5, 6], rfl⟩]
/-- three variable-size values, the middle one empty. -/
def sszExV : List {x : List UInt8 // x.length ≤ 8} :=
  [⟨[1, 2, 3], by decide⟩, ⟨[], by decide⟩, ⟨[9], by decide⟩]

example : sszEncode sszExFixed2 sszExF = [1, 2, 3, 4, 5, 6] := by decide
example : sszEncode sszExVar sszExV = [12, 0, 0, 0, 15, 0, 0, 0, 15, 0, 0, 0, 1, 2, 3, 9] := by decide
example : sszBytesLen sszExFixed2 sszExF = 6 ∧ sszBytesLen sszExVar sszExV = 16 := by decide

-- hypotheses of `C12_len` / `C12_roundtrip_items` on concrete inputs, and their conclusions
example : sszBytesLen sszExVar sszExV = (sszEncode sszExVar sszExV).length := C12_len sszExVar_ok sszExV
example : sszDecodeItems sszExFixed2 4 (sszEncode sszExFixed2 sszExF) = some sszExF :=
  C12_roundtrip_items sszExFixed2_ok 4 sszExF (by decide) (by decide)
example : sszDecodeItems sszExVar 4 (sszEncode sszExVar sszExV) = some sszExV :=
  C12_roundtrip_items sszExVar_ok 4 sszExV (by decide) (by decide)
-- the same by evaluation
example : sszDecodeItems sszExFixed2 4 [1, 2, 3, 4, 5, 6] = some sszExF := by decide
example : sszDecodeItems sszExVar 4 [12, 0, 0, 0, 15, 0, 0, 0, 15, 0, 0, 0, 1, 2, 3, 9] = some sszExV := by
  decide
-- the empty collection
example : sszEncode sszExVar [] = [] ∧ sszDecodeItems sszExVar 4 [] = some [] := by decide

-- hypothesis of `C12_strict` on a concrete byte string, and its conclusion
example : sszEncode sszExVar sszExV = [12, 0, 0, 0, 15, 0, 0, 0, 15, 0, 0, 0, 1, 2, 3, 9] ∧ sszExV.length ≤ 4 :=
  C12_strict sszExVar_ok 4 _ sszExV (by decide)

-- non-canonical or out-of-bounds byte strings are rejected
example : sszDecodeItems sszExFixed2 4 [1, 2, 3] = none := by decide              -- trailing byte
example : sszDecodeItems sszExFixed2 2 [1, 2, 3, 4, 5, 6] = none := by decide     -- more than `N`
example : sszDecodeItems sszExVar 2 [12, 0, 0, 0, 15, 0, 0, 0, 15, 0, 0, 0, 1, 2, 3, 9] = none := by
  decide                                                                         -- more than `N`
example : sszDecodeItems sszExVar 4 [6, 0, 0, 0, 6, 0, 7, 7] = none := by decide   -- offset % 4 ≠ 0
example : sszDecodeItems sszExVar 4 [8, 0, 0, 0, 7, 0, 0, 0, 1] = none := by decide -- offset into table
example : sszDecodeItems sszExVar 4 [8, 0, 0, 0, 10, 0, 0, 0, 1] = none := by decide -- offset past end
example : sszDecodeItems sszExVar 4 [12, 0, 0, 0, 14, 0, 0, 0, 13, 0, 0, 0, 1, 2] = none := by
  decide                                                                         -- decreasing
example : sszDecodeItems sszExVar 4 [0, 0, 0, 0] = none := by decide               -- first offset 0
example : sszDecodeItems sszExVar 4 [4, 0, 0] = none := by decide                  -- short table

-- collection level: a successful list decode, a successful vector decode (`N = 3`), a vector
-- decode of the wrong length and a list decode of garbage (both `DecodeError`, no panic)
example : (match sszDecodeList sszExVar () ⟨4, .btree⟩ (sszEncode sszExVar sszExV) Heap.empty with
    | .ok (c, _) => c.length == 3 && c.kind == .list
    | .error _ => false) = true := by decide
example : (match sszDecodeVector sszExVar () ⟨3, .btree⟩ (sszEncode sszExVar sszExV) Heap.empty with
    | .ok (c, _) => c.length == 3 && c.kind == .vector
    | .error _ => false) = true := by decide
example : (match sszDecodeVector sszExVar () ⟨4, .btree⟩ (sszEncode sszExVar sszExV) Heap.empty with
    | .ok _ => false
    | .error e => e == .ssz) = true := by decide
example : (match sszDecodeList sszExVar () ⟨4, .btree⟩ [6, 0, 0, 0, 6, 0, 7, 7] Heap.empty with
    | .ok _ => false
    | .error e => e == .ssz) = true := by decide
-- `htfi` of `C12_decodeList_roundtrip_of_tryFromIter` on a concrete input: `try_from_iter` succeeds
example : (match Coll.tryFromIter sszExVar.pf () ⟨4, .btree⟩ sszExV (Heap.empty : Heap Unit) with
    | .ok (c, _) => c.length == 3
    | .error _ => false) = true := by decide
example : (match sszDecodeList sszExFixed2 () ⟨4, .btree⟩ [] Heap.empty with
    | .ok (c, _) => c.length == 0
    | .error _ => false) = true := by decide

end Examples

end Milhouse
