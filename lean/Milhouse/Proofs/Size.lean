import Milhouse.Proofs.CollInv
import Milhouse.Proofs.CollOps
import Milhouse.Proofs.Rebase
import Milhouse.Proofs.Repeat
/-!
# C10 (part): the node count follows the number of stored elements, not the capacity

* `canon_size_le` — the canonical tree of `n` elements at depth `d` has at most
  `2 * ceil(n / lcap) + 2 * d + 1` nodes: twice the number of (packed) leaves plus two nodes per
  level. The bound does not mention `cap pf d` (that is, `N`): empty regions are single `zero`
  nodes. `canon_full_size`: a full subtree of depth `d` has exactly `2^(d+1) - 1` nodes.
* `C10_size_follows_length` — the same bound for the backing tree of every collection satisfying
  `CollInv`, together with `depth ≤ 64`.
* `C10_clone_allocates_nothing` — a clone shares the root and allocates nothing.
* `C10_repeat_size` — the tree built by `repeat_list` consists of at most `3 * d + 2` distinct
  nodes (it is a DAG: its size as a tree is `Θ(n)`).
-/
namespace Milhouse
variable {T H : Type}

/-! ## node count of a shape -/

/-- number of nodes of a shape (as `Tree.size`). -/
def Shape.size : Shape T → Nat
  | .node l r => l.size + r.size + 1
  | _ => 1

/-- `Tree.size` only depends on the shape. -/
theorem Tree.size_erase (t : Tree T) : t.size = t.erase.size := by
  induction t with
  | leaf id v => simp [Tree.size, Tree.erase, Shape.size]
  | packed id vs => simp [Tree.size, Tree.erase, Shape.size]
  | zero id d => simp [Tree.size, Tree.erase, Shape.size]
  | node id l r ihl ihr => simp [Tree.size, Tree.erase, Shape.size, ihl, ihr]

theorem Shape.size_pos (s : Shape T) : 1 ≤ s.size := by
  cases s <;> simp [Shape.size]

/-- an empty region is a single node, whatever its depth. -/
theorem canon_nil_size (pf : Option Nat) (d : Nat) : (canon pf d ([] : List T)).size = 1 := by
  rw [canon_nil]; simp [Shape.size]

/-- depth 0: one node. -/
theorem canon_zero_size (pf : Option Nat) (xs : List T) : (canon pf 0 xs).size = 1 := by
  cases xs with
  | nil => simp [canon, Shape.size]
  | cons x rest => cases pf <;> simp [canon, Shape.size]

/-- a full subtree of depth `d`: `2^(d+1) - 1` nodes (stated without subtraction). -/
theorem canon_full_size_succ (pf : Option Nat) (hpf : PfOK pf) :
    ∀ (d : Nat) (xs : List T), xs.length = cap pf d → (canon pf d xs).size + 1 = 2 ^ (d + 1) := by
  intro d
  induction d with
  | zero => intro xs _; rw [canon_zero_size]
  | succ d ih =>
    intro xs hlen
    have hc := cap_pos pf hpf d
    rw [cap_succ] at hlen
    cases xs with
    | nil => simp at hlen; omega
    | cons x rest =>
      rw [canon_succ_cons]
      have h1 := ih ((x :: rest).take (cap pf d)) (by simp only [List.length_take]; omega)
      have h2 := ih ((x :: rest).drop (cap pf d)) (by simp only [List.length_drop]; omega)
      simp only [Shape.size]
      rw [Nat.pow_succ 2 (d + 1)]
      omega

/-- a full subtree of depth `d` has exactly `2^(d+1) - 1` nodes. -/
theorem canon_full_size (pf : Option Nat) (hpf : PfOK pf) (d : Nat) (xs : List T)
    (hlen : xs.length = cap pf d) : (canon pf d xs).size = 2 ^ (d + 1) - 1 := by
  have := canon_full_size_succ pf hpf d xs hlen
  omega

/-- number of depth-0 nodes needed for `n` elements: `ceil (n / lcap)`. -/
def leavesFor (pf : Option Nat) (n : Nat) : Nat := (n + lcap pf - 1) / lcap pf

/-- removing a full left half removes exactly `2^d` leaves. -/
theorem leavesFor_sub_cap (pf : Option Nat) (hpf : PfOK pf) (d n : Nat) (h : cap pf d ≤ n) :
    leavesFor pf (n - cap pf d) + 2 ^ d = leavesFor pf n := by
  have hl := lcap_pos pf hpf
  unfold leavesFor
  have hcap : cap pf d = 2 ^ d * lcap pf := rfl
  rw [← Nat.add_mul_div_right _ _ hl]
  congr 1
  rw [← hcap]
  omega

theorem leavesFor_le (pf : Option Nat) (hpf : PfOK pf) (n : Nat) : leavesFor pf n ≤ n := by
  have hl := lcap_pos pf hpf
  unfold leavesFor
  cases n with
  | zero => rw [Nat.div_eq_of_lt (by omega)]; omega
  | succ n =>
    apply Nat.div_le_of_le_mul
    have : lcap pf * (n + 1) = lcap pf * n + lcap pf := by rw [Nat.mul_succ]
    have h2 : n ≤ lcap pf * n := Nat.le_mul_of_pos_left n hl
    omega

/-- **C10**: the canonical tree of `n` elements at depth `d` has at most
`2 * ceil (n / lcap) + 2 * d + 1` nodes — twice the number of (packed) leaves plus two nodes per
level, independent of the capacity `cap pf d`. -/
theorem canon_size_le (pf : Option Nat) (hpf : PfOK pf) :
    ∀ (d : Nat) (xs : List T), xs.length ≤ cap pf d →
      (canon pf d xs).size ≤ 2 * ((xs.length + lcap pf - 1) / lcap pf) + 2 * d + 1 := by
  intro d
  induction d with
  | zero => intro xs _; rw [canon_zero_size]; omega
  | succ d ih =>
    intro xs hlen
    have hc := cap_pos pf hpf d
    rw [cap_succ] at hlen
    cases xs with
    | nil => rw [canon_nil_size]; omega
    | cons x rest =>
      rw [canon_succ_cons]
      simp only [Shape.size]
      by_cases hle : (x :: rest).length ≤ cap pf d
      · -- everything fits in the left half; the right half is one `zero` node
        rw [List.take_of_length_le hle, List.drop_of_length_le hle, canon_nil_size]
        have := ih (x :: rest) hle
        omega
      · -- the left half is full
        have hfull := canon_full_size_succ pf hpf d ((x :: rest).take (cap pf d))
          (by simp only [List.length_take]; omega)
        have hr := ih ((x :: rest).drop (cap pf d)) (by simp only [List.length_drop]; omega)
        have hL := leavesFor_sub_cap pf hpf d (x :: rest).length (by omega)
        unfold leavesFor at hL
        rw [List.length_drop] at hr
        rw [Nat.pow_succ] at hfull
        omega

/-- the empty tree is one node at every depth. -/
example : (canon (some 4) 40 ([] : List Nat)).size = 1 := canon_nil_size _ _

/-- `n` elements in a depth-40 tree (`N = 2^40` leaves): at most `2 * ceil (n / lcap) + 81` nodes. -/
theorem canon_size_le_depth40 (pf : Option Nat) (hpf : PfOK pf) (xs : List T)
    (h : xs.length ≤ cap pf 40) :
    (canon pf 40 xs).size ≤ 2 * ((xs.length + lcap pf - 1) / lcap pf) + 81 :=
  canon_size_le pf hpf 40 xs h

private theorem size_pfOK_some4 : PfOK (some 4) := by
  intro p hp; cases hp; exact ⟨2, by decide, rfl⟩
private theorem size_pfOK_none : PfOK none := by
  intro p hp; cases hp

/-- non-vacuity of `canon_size_le`: 9 packed values (3 leaves) in a depth-3 tree (capacity 32);
the tree has 9 nodes, the bound gives 13. -/
example : (([1,2,3,4,5,6,7,8,9] : List Nat).length ≤ cap (some 4) 3) ∧
    (canon (some 4) 3 [1,2,3,4,5,6,7,8,9]).size = 9 ∧
    2 * ((([1,2,3,4,5,6,7,8,9] : List Nat).length + lcap (some 4) - 1) / lcap (some 4)) + 2 * 3 + 1
      = 13 := by
  refine ⟨by decide, by decide, by decide⟩

/-- the bound is attained up to the `2*d` slack: a full unpacked depth-2 tree has 7 nodes. -/
example : (canon none 2 [1,2,3,4]).size = 7 ∧ (canon none 2 [1,2,3,4]).size = 2 ^ (2+1) - 1 :=
  ⟨by decide, canon_full_size none size_pfOK_none 2 _ (by decide)⟩

/-! ## collections -/

/-- **C10** for collections: the number of nodes of the backing tree of any well-formed
collection is at most twice the number of (packed) leaves needed for its contents plus twice the
depth plus one, and the depth is at most 64 (indeed `depth + packing depth ≤ 63`). `cfg.N` does not
occur in the bound. -/
theorem C10_size_follows_length (pf : Option Nat) (cfg : Cfg) (hcfg : CfgOK pf cfg)
    (c : Coll T) (xs : List T) (hinv : CollInv pf cfg c xs) :
    c.tree.size ≤ 2 * ((xs.length + lcap pf - 1) / lcap pf) + 2 * c.depth + 1 ∧
    c.depth ≤ 64 := by
  obtain ⟨hd, hcapN⟩ := listDepth_ok pf hcfg.pf cfg.N hcfg.le
  have hlen : xs.length ≤ cfg.N := by
    have := hinv.bound
    split at this <;> omega
  have hfits : xs.length ≤ cap pf c.depth := by rw [hinv.depth]; omega
  refine ⟨?_, by rw [hinv.depth]; omega⟩
  rw [Tree.size_erase, hinv.shape]
  exact canon_size_le pf hcfg.pf c.depth xs hfits

/-- the sharper depth fact available from `CfgOK`. -/
theorem C10_depth_le_63 (pf : Option Nat) (cfg : Cfg) (hcfg : CfgOK pf cfg)
    (c : Coll T) (xs : List T) (hinv : CollInv pf cfg c xs) : c.depth + pdOf pf ≤ 63 := by
  rw [hinv.depth]; exact (listDepth_ok pf hcfg.pf cfg.N hcfg.le).1

/-- a capacity-free numeric corollary: at most `2 * len + 129` nodes, for every supported `N`. -/
theorem C10_size_le_linear (pf : Option Nat) (cfg : Cfg) (hcfg : CfgOK pf cfg)
    (c : Coll T) (xs : List T) (hinv : CollInv pf cfg c xs) :
    c.tree.size ≤ 2 * xs.length + 129 := by
  obtain ⟨h1, h2⟩ := C10_size_follows_length pf cfg hcfg c xs hinv
  have h3 := leavesFor_le pf hcfg.pf xs.length
  unfold leavesFor at h3
  omega

/-! ### non-vacuity -/

/-- `List<u64-like, 2^40>` (unpacked): a supported configuration. -/
private theorem size_cfgOK_big : CfgOK none (⟨2 ^ 40, .btree⟩ : Cfg) :=
  ⟨size_pfOK_none, Nat.pow_pos (by decide),
    Nat.pow_le_pow_right (by decide) (by decide)⟩

/-- three elements in a list of capacity `N = 2^40` (depth 40): `try_from_iter` succeeds and the
tree has at most `2*3 + 2*40 + 1 = 87` nodes, although `N = 2^40`. -/
example : ∃ c h', Coll.tryFromIter none (0 : Nat) ⟨2 ^ 40, .btree⟩ [1, 2, 3] Heap.empty = .ok (c, h') ∧
    CollInv none ⟨2 ^ 40, .btree⟩ c [1, 2, 3] ∧ c.depth = 40 ∧ c.tree.size ≤ 87 := by
  obtain ⟨c, h', h1, h2, _⟩ := C05_tryFromIter_inv size_cfgOK_big (0 : Nat) [1, 2, 3]
    (by show 3 ≤ 2 ^ 40; exact Nat.le_trans (by decide) (Nat.pow_le_pow_right (by decide)
      (show 2 ≤ 40 by decide))) Heap.empty
  have hd : c.depth = 40 := by
    rw [h2.depth]; show intLog (2 ^ 40) = 40; exact intLog_pow 40 (by decide)
  have := (C10_size_follows_length none _ size_cfgOK_big c _ h2).1
  rw [hd] at this
  refine ⟨c, h', h1, h2, hd, ?_⟩
  have hl : lcap none = 1 := rfl
  rw [hl] at this
  simpa using this

/-- a list with a non-empty pending-update map (`CollOpsExample.exPending`, all three map kinds):
backing contents `[10, 11, 12]`, `N = 4`, depth 2: 7 nodes, the bound gives 11. -/
example (k : MapKind) : (CollOpsExample.exPending k).tree.size = 7 ∧
    (CollOpsExample.exPending k).tree.size ≤ 2 * ((3 + lcap none - 1) / lcap none) + 2 * 2 + 1 ∧
    (CollOpsExample.exPending k).depth ≤ 64 :=
  ⟨by cases k <;> decide, C10_size_follows_length none _ (CollOpsExample.exCfgOK k) _ _
    (CollOpsExample.exPending_inv k)⟩

/-- packed: `[1..6]`, 4 values per leaf, `N = 8`, depth 1: 3 nodes, the bound gives 7. -/
example (k : MapKind) : (CollOpsExample.exBaseP k).tree.size = 3 ∧
    (CollOpsExample.exBaseP k).tree.size ≤ 2 * ((6 + lcap (some 4) - 1) / lcap (some 4)) + 2 * 1 + 1 :=
  ⟨by cases k <;> decide, (C10_size_follows_length (some 4) _ (CollOpsExample.exCfgPOK k) _ _
    (CollOpsExample.exBaseP_inv k)).1⟩

/-! ## clone -/

/-- `Clone` for `List<T, N, U>` / `Vector<T, N, U>`. Both derive `Clone` (`list.rs:22-41`:
`#[derive(Clone)] pub struct List { interface: Interface<..> }`, and `ListInner { tree: Arc<Tree<T>>,
length, depth, packing_depth }` is `#[derive(Clone)]` too), so cloning a collection clones the root
`Arc` — a reference-count increment, no `Arc::new` — copies the scalar fields and deep-copies the
pending-update map (which holds values, not tree nodes). In the model a collection is a value, and
`Arc` identity is the node id, so the clone *is* `c`: the function returns the original, the clone,
and the untouched heap. -/
def cloneColl (c : Coll T) (h : Heap H) : Coll T × Coll T × Heap H := (c, c, h)

/-- **C10**: cloning a collection allocates no tree nodes: the clone has the same backing tree
(in particular the same root identity, i.e. the same `Arc`), the original is unchanged, all scalar
fields and the pending map are equal, and the heap — hence the next fresh node id — is unchanged. -/
theorem C10_clone_allocates_nothing (c : Coll T) (h : Heap H) :
    (cloneColl c h).1 = c ∧
    (cloneColl c h).2.1.tree = c.tree ∧
    (cloneColl c h).2.1.tree.id = c.tree.id ∧
    (cloneColl c h).2.1 = c ∧
    (cloneColl c h).2.2 = h ∧
    (cloneColl c h).2.2.next = h.next :=
  ⟨rfl, rfl, rfl, rfl, rfl, rfl⟩

/-- cloning preserves the invariant with the same contents, for both handles. -/
theorem C10_clone_inv (pf : Option Nat) (cfg : Cfg) (c : Coll T) (xs : List T) (h : Heap H)
    (hinv : CollInv pf cfg c xs) :
    CollInv pf cfg (cloneColl c h).1 xs ∧ CollInv pf cfg (cloneColl c h).2.1 xs :=
  ⟨hinv, hinv⟩

/-- non-vacuity: cloning the list with pending writes on a heap with three memo slots. -/
example : (cloneColl (CollOpsExample.exPending .vec) (⟨#[0, 0, 0]⟩ : Heap Nat)).2.1.tree.id
      = (CollOpsExample.exPending .vec).tree.id ∧
    (cloneColl (CollOpsExample.exPending .vec) (⟨#[0, 0, 0]⟩ : Heap Nat)).2.2.next = 3 ∧
    CollInv none (CollOpsExample.exCfg .vec)
      (cloneColl (CollOpsExample.exPending .vec) (⟨#[0, 0, 0]⟩ : Heap Nat)).2.1 [10, 11, 12] :=
  ⟨(C10_clone_allocates_nothing _ _).2.2.1, rfl,
    (C10_clone_inv none _ _ _ _ (CollOpsExample.exPending_inv .vec)).2⟩

/-! ## `repeat_list`: the result is a DAG with `O(depth)` distinct nodes -/

/-- all node identities of `t` lie in `[lo, hi)`. -/
def Tree.IdsIn (lo hi : Nat) (t : Tree T) : Prop := ∀ i ∈ t.ids, lo ≤ i ∧ i < hi

theorem Tree.IdsIn.mono {lo hi hi' : Nat} {t : Tree T} (h : t.IdsIn lo hi) (hh : hi ≤ hi') :
    t.IdsIn lo hi' := fun i hi => ⟨(h i hi).1, Nat.lt_of_lt_of_le (h i hi).2 hh⟩

theorem Tree.IdsIn.node {lo hi id : Nat} {l r : Tree T} (h1 : lo ≤ id) (h2 : id < hi)
    (hl : l.IdsIn lo hi) (hr : r.IdsIn lo hi) : (Tree.node id l r).IdsIn lo hi := by
  intro i hi'
  simp only [Tree.ids, List.mem_cons, List.mem_append] at hi'
  rcases hi' with rfl | hi' | hi'
  · exact ⟨h1, h2⟩
  · exact hl i hi'
  · exact hr i hi'

theorem Tree.IdsIn.zero {lo hi id d : Nat} (h1 : lo ≤ id) (h2 : id < hi) :
    (Tree.zero id d : Tree T).IdsIn lo hi := by
  intro i hi'
  simp only [Tree.ids, List.mem_cons, List.not_mem_nil, or_false] at hi'
  subst hi'; exact ⟨h1, h2⟩

/-- every tree of a layer has its identities in `[lo, hi)`. -/
def LayerIdsIn (lo hi : Nat) (layer : List (Tree T × Nat)) : Prop :=
  ∀ p ∈ layer, p.1.IdsIn lo hi

/-- one step of `repeat_list` only combines nodes of the previous layer with fresh ones. -/
theorem repeatStep_ids (z : H) (k : Nat) (h h' : Heap H) (layer layer' : List (Tree T × Nat))
    (lo : Nat) (hlo : lo ≤ h.next) (hin : LayerIdsIn lo h.next layer)
    (hok : repeatStep z k h layer = .ok (layer', h')) :
    h.next ≤ h'.next ∧ LayerIdsIn lo h'.next layer' := by
  unfold repeatStep at hok
  split at hok
  · -- `[(a, c)]`
    rename_i a c
    have ha : a.IdsIn lo h.next := hin (a, c) (by simp)
    split at hok
    · simp only [Heap.alloc, Except.ok.injEq, Prod.mk.injEq] at hok
      obtain ⟨rfl, rfl⟩ := hok
      simp only [Heap.next, Array.size_push] at *
      refine ⟨by omega, ?_⟩
      intro p hp
      simp only [List.mem_cons, List.not_mem_nil, or_false] at hp
      subst hp
      exact Tree.IdsIn.node (by omega) (by omega) (ha.mono (by omega))
        (Tree.IdsIn.zero (by omega) (by omega))
    · split at hok
      · simp only [Heap.alloc, Except.ok.injEq, Prod.mk.injEq] at hok
        obtain ⟨rfl, rfl⟩ := hok
        simp only [Heap.next, Array.size_push] at *
        refine ⟨by omega, ?_⟩
        intro p hp
        simp only [List.mem_cons, List.not_mem_nil, or_false] at hp
        subst hp
        exact Tree.IdsIn.node (by omega) (by omega) (ha.mono (by omega)) (ha.mono (by omega))
      · simp only [Heap.alloc, Except.ok.injEq, Prod.mk.injEq] at hok
        obtain ⟨rfl, rfl⟩ := hok
        simp only [Heap.next, Array.size_push] at *
        refine ⟨by omega, ?_⟩
        intro p hp
        simp only [List.mem_cons, List.not_mem_nil, or_false] at hp
        rcases hp with rfl | rfl
        · exact Tree.IdsIn.node (by omega) (by omega) (ha.mono (by omega)) (ha.mono (by omega))
        · exact Tree.IdsIn.node (by omega) (by omega) (ha.mono (by omega))
            (Tree.IdsIn.zero (by omega) (by omega))
  · -- `[(a, c), (b, 1)]`
    rename_i a c b
    have ha : a.IdsIn lo h.next := hin (a, c) (by simp)
    have hb : b.IdsIn lo h.next := hin (b, 1) (by simp)
    split at hok
    · simp only [Heap.alloc, Except.ok.injEq, Prod.mk.injEq] at hok
      obtain ⟨rfl, rfl⟩ := hok
      simp only [Heap.next, Array.size_push] at *
      refine ⟨by omega, ?_⟩
      intro p hp
      simp only [List.mem_cons, List.not_mem_nil, or_false] at hp
      subst hp
      exact Tree.IdsIn.node (by omega) (by omega) (ha.mono (by omega)) (hb.mono (by omega))
    · split at hok
      · simp only [Heap.alloc, Except.ok.injEq, Prod.mk.injEq] at hok
        obtain ⟨rfl, rfl⟩ := hok
        simp only [Heap.next, Array.size_push] at *
        refine ⟨by omega, ?_⟩
        intro p hp
        simp only [List.mem_cons, List.not_mem_nil, or_false] at hp
        rcases hp with rfl | rfl
        · exact Tree.IdsIn.node (by omega) (by omega) (ha.mono (by omega)) (ha.mono (by omega))
        · exact Tree.IdsIn.node (by omega) (by omega) (hb.mono (by omega))
            (Tree.IdsIn.zero (by omega) (by omega))
      · simp only [Heap.alloc, Except.ok.injEq, Prod.mk.injEq] at hok
        obtain ⟨rfl, rfl⟩ := hok
        simp only [Heap.next, Array.size_push] at *
        refine ⟨by omega, ?_⟩
        intro p hp
        simp only [List.mem_cons, List.not_mem_nil, or_false] at hp
        rcases hp with rfl | rfl
        · exact Tree.IdsIn.node (by omega) (by omega) (ha.mono (by omega)) (ha.mono (by omega))
        · exact Tree.IdsIn.node (by omega) (by omega) (ha.mono (by omega)) (hb.mono (by omega))
  · cases hok

theorem repeatLoop_ids (z : H) (lo : Nat) :
    ∀ (m k : Nat) (h h' : Heap H) (layer layer' : List (Tree T × Nat)),
      lo ≤ h.next → LayerIdsIn lo h.next layer →
      repeatLoop z m k h layer = .ok (layer', h') →
      h.next ≤ h'.next ∧ LayerIdsIn lo h'.next layer' := by
  intro m
  induction m with
  | zero =>
    intro k h h' layer layer' _ hin hok
    simp only [repeatLoop, Except.ok.injEq, Prod.mk.injEq] at hok
    obtain ⟨rfl, rfl⟩ := hok
    exact ⟨Nat.le_refl _, hin⟩
  | succ m ih =>
    intro k h h' layer layer' hlo hin hok
    simp only [repeatLoop] at hok
    split at hok
    · cases hok
    · rename_i l1 h1 hs
      obtain ⟨a1, a2⟩ := repeatStep_ids z k h h1 layer l1 lo hlo hin hs
      obtain ⟨b1, b2⟩ := ih (k+1) h1 h' l1 layer' (by omega) a2 hok
      exact ⟨by omega, b2⟩

theorem repeatInit_ids (pf : Option Nat) (z : H) (x : T) (n : Nat) (h h' : Heap H)
    (layer : List (Tree T × Nat)) (hok : repeatInit pf z x n h = .ok (layer, h')) :
    h.next ≤ h'.next ∧ LayerIdsIn h.next h'.next layer := by
  have hleaf : ∀ (lo hi id : Nat) (vs : List T), lo ≤ id → id < hi →
      (Tree.packed id vs).IdsIn lo hi := by
    intro lo hi id vs h1 h2 i hi'
    simp only [Tree.ids, List.mem_cons, List.not_mem_nil, or_false] at hi'
    subst hi'; exact ⟨h1, h2⟩
  unfold repeatInit at hok
  split at hok
  · split at hok
    · cases hok
    · simp only [Heap.alloc] at hok
      split at hok
      · cases hok
      · split at hok
        · simp only [Except.ok.injEq, Prod.mk.injEq] at hok
          obtain ⟨rfl, rfl⟩ := hok
          simp only [Heap.next, Array.size_push]
          refine ⟨by omega, ?_⟩
          intro p hp
          simp only [List.mem_cons, List.not_mem_nil, or_false] at hp
          subst hp
          exact hleaf _ _ _ _ (by omega) (by omega)
        · split at hok
          · simp only [Except.ok.injEq, Prod.mk.injEq] at hok
            obtain ⟨rfl, rfl⟩ := hok
            simp only [Heap.next, Array.size_push]
            refine ⟨by omega, ?_⟩
            intro p hp
            simp only [List.mem_cons, List.not_mem_nil, or_false] at hp
            subst hp
            exact hleaf _ _ _ _ (by omega) (by omega)
          · simp only [Except.ok.injEq, Prod.mk.injEq] at hok
            obtain ⟨rfl, rfl⟩ := hok
            simp only [Heap.next, Array.size_push]
            refine ⟨by omega, ?_⟩
            intro p hp
            simp only [List.mem_cons, List.not_mem_nil, or_false] at hp
            rcases hp with rfl | rfl
            · exact hleaf _ _ _ _ (by omega) (by omega)
            · exact hleaf _ _ _ _ (by omega) (by omega)
  · simp only [Heap.alloc, Except.ok.injEq, Prod.mk.injEq] at hok
    obtain ⟨rfl, rfl⟩ := hok
    simp only [Heap.next, Array.size_push]
    refine ⟨by omega, ?_⟩
    intro p hp
    simp only [List.mem_cons, List.not_mem_nil, or_false] at hp
    subst hp
    intro i hi'
    simp only [Tree.ids, List.mem_cons, List.not_mem_nil, or_false] at hi'
    subst hi'; omega

/-- every node of the tree returned by `repeat_list` was allocated by this very call. -/
theorem repeatTree_ids_fresh (pf : Option Nat) (z : H) (N d : Nat) (x : T) (n : Nat)
    (h : Heap H) (root : Tree T) (h' : Heap H)
    (hok : repeatTree pf z N d x n h = .ok (root, h')) : root.IdsIn h.next h'.next := by
  rw [repeatTree_eq] at hok
  split at hok
  · cases hok
  · split at hok
    · cases hok
    · rename_i l0 h0 hinit
      obtain ⟨a1, a2⟩ := repeatInit_ids pf z x n h h0 l0 hinit
      split at hok
      · cases hok
      · rename_i l1 h1 hloop
        obtain ⟨b1, b2⟩ := repeatLoop_ids z h.next d 0 h0 h1 l0 l1 a1 a2 hloop
        split at hok
        · cases hok
        · rename_i rt count rest hrev
          split at hok
          · cases hok
          · simp only [Except.ok.injEq, Prod.mk.injEq] at hok
            obtain ⟨rfl, rfl⟩ := hok
            have hmem : (rt, count) ∈ l1 := by
              rw [← List.mem_reverse, hrev]; simp
            exact b2 _ hmem

/-- pigeonhole: a list whose elements all belong to a duplicate-free list `S` has at most
`S.length` distinct elements. -/
theorem eraseDups_length_le_of_subset :
    ∀ (m : Nat) (l S : List Nat), l.length ≤ m → S.Nodup → (∀ i ∈ l, i ∈ S) →
      l.eraseDups.length ≤ S.length := by
  intro m
  induction m with
  | zero =>
    intro l S hl _ _
    have : l = [] := List.eq_nil_of_length_eq_zero (by omega)
    subst this; simp
  | succ m ih =>
    intro l S hl hS hsub
    cases l with
    | nil => simp
    | cons a as =>
      rw [List.eraseDups_cons, List.length_cons]
      have haS : a ∈ S := hsub a (by simp)
      have hlen : (S.erase a).length = S.length - 1 := by
        rw [List.length_erase]; simp [haS]
      have hpos : 0 < S.length := List.length_pos_of_mem haS
      have := ih (as.filter fun b => !b == a) (S.erase a)
        (by
          have := List.length_filter_le (fun b => !b == a) as
          simp only [List.length_cons] at hl; omega)
        (hS.erase a)
        (by
          intro i hi
          rw [List.mem_filter] at hi
          rw [hS.mem_erase_iff]
          refine ⟨?_, hsub i (by simp [hi.1])⟩
          intro e; subst e; simp at hi)
      omega

/-- the number of distinct elements of a list of naturals in `[lo, hi)` is at most `hi - lo`. -/
theorem eraseDups_length_le_of_range (l : List Nat) (lo hi : Nat)
    (h : ∀ i ∈ l, lo ≤ i ∧ i < hi) : l.eraseDups.length ≤ hi - lo := by
  have := eraseDups_length_le_of_subset l.length l (List.range' lo (hi - lo)) (Nat.le_refl _)
    (List.nodup_range' (s := lo) (n := hi - lo))
    (by
      intro i hi'
      rw [List.mem_range'_1]
      have := h i hi'
      omega)
  rwa [List.length_range'] at this

/-- **C10** for `repeat_list` (`List::repeat`, `Vector::from_elem`): the returned tree, which as a
tree has `Θ(n)` nodes, consists of at most `3 * d + 2` *distinct* nodes (`Arc` allocations) —
whatever `n` and `N` are. `root.ids.eraseDups` is the duplicate-free list of the node identities
occurring in `root`. -/
theorem C10_repeat_size (pf : Option Nat) (hpf : PfOK pf) (z : H) (N d : Nat) (x : T)
    (n : Nat) (h : Heap H) (hn : 1 ≤ n) (root : Tree T) (h' : Heap H)
    (hok : repeatTree pf z N d x n h = .ok (root, h')) :
    root.ids.eraseDups.length ≤ 3 * d + 2 := by
  have h1 := repeatTree_ids_fresh pf z N d x n h root h' hok
  have h2 := repeatTree_alloc_bound pf hpf z N d x n h hn root h' hok
  have h3 := eraseDups_length_le_of_range root.ids h.next h'.next h1
  omega

/-- non-vacuity: `2^40` copies in a depth-40 tree (`2^41 - 1` tree nodes by `canon_full_size`): the
call succeeds and the result consists of at most 122 distinct nodes. -/
example : ∃ root h', repeatTree none (0 : Nat) (2 ^ 40) 40 (7 : Nat) (2 ^ 40) Heap.empty
      = .ok (root, h') ∧ root.ids.eraseDups.length ≤ 122 ∧ root.size = 2 ^ 41 - 1 := by
  have hcap : cap none 40 = 2 ^ 40 := by simp [cap, lcap]
  obtain ⟨root, h', hok, hshape, _⟩ := repeatTree_canon none size_pfOK_none (0 : Nat) (2 ^ 40) 40
    (7 : Nat) (2 ^ 40) Heap.empty (Nat.pow_pos (by decide)) (Nat.le_refl _) (by rw [hcap]; exact Nat.le_refl _)
  refine ⟨root, h', hok, ?_, ?_⟩
  · exact C10_repeat_size none size_pfOK_none 0 (2 ^ 40) 40 7 (2 ^ 40) Heap.empty
      (Nat.pow_pos (by decide)) root h' hok
  · rw [Tree.size_erase, hshape]
    exact canon_full_size none size_pfOK_none 40 _ (by rw [List.length_replicate, hcap])

/-- a small instance by evaluation: 5 copies, packing factor 4, depth 1: three distinct nodes. -/
example : (match repeatTree (some 4) (0 : Nat) 5 1 (7 : Nat) 5 Heap.empty with
    | .ok (r, h) => some (r.ids.eraseDups.length, r.size, h.next)
    | .error _ => none) = some (3, 3, 3) := by decide

end Milhouse
