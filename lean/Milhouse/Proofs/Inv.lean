import Milhouse.Proofs.Canon
import Milhouse.Model.Rebase
/-!
# Shared invariants: node registry and memo validity

Physical identity is modelled by node ids. A *registry* records which node each live id denotes;
`HeapOK` says every registered id is allocated and its memo is either absent (zero) or the true
Merkle hash of the node it labels — the statement of C03's "no stale memo".
-/
namespace Milhouse
variable {T H : Type}

/-- all subtrees of a tree, itself included. -/
def Tree.subtrees : Tree T → List (Tree T)
  | .node id l r => .node id l r :: (l.subtrees ++ r.subtrees)
  | t => [t]

theorem Tree.self_mem_subtrees (t : Tree T) : t ∈ t.subtrees := by
  cases t <;> simp [Tree.subtrees]

/-- which node an id denotes. -/
abbrev Registry (T : Type) := Nat → Option (Tree T)

/-- every node of `t` is the node its id denotes: same id ⇒ same physical node. -/
def Registered (f : Registry T) (t : Tree T) : Prop := ∀ s ∈ t.subtrees, f s.id = some s

/-- the registry and the memo store agree: registered ids are allocated, and a memo that is
present is the true hash of the registered node. -/
structure HeapOK (E : Elem T H) (A : HashAlg H) (f : Registry T) (h : Heap H) : Prop where
  bound : ∀ id s, f id = some s → id < h.next
  memo : ∀ id s, f id = some s → h.read A.zero id = A.zero ∨ h.read A.zero id = trueHash E A s

theorem Registered.node_left {f : Registry T} {id : Nat} {l r : Tree T}
    (h : Registered f (.node id l r)) : Registered f l := by
  intro s hs; apply h; simp [Tree.subtrees]; right; left; exact hs

theorem Registered.node_right {f : Registry T} {id : Nat} {l r : Tree T}
    (h : Registered f (.node id l r)) : Registered f r := by
  intro s hs; apply h; simp [Tree.subtrees]; right; right; exact hs

theorem Registered.self {f : Registry T} {t : Tree T} (h : Registered f t) : f t.id = some t :=
  h t t.self_mem_subtrees

/-! ## heap primitives -/

theorem Heap.read_alloc_old (h : Heap H) (z m : H) (i : Nat) (hi : i < h.next) :
    (h.alloc m).2.read z i = h.read z i := by
  simp [Heap.alloc, Heap.read, Heap.next] at *
  rw [Array.getElem?_push]; simp [Nat.ne_of_lt hi]

theorem Heap.read_alloc_new (h : Heap H) (z m : H) :
    (h.alloc m).2.read z (h.alloc m).1 = m := by
  simp [Heap.alloc, Heap.read]

theorem Heap.next_alloc (h : Heap H) (m : H) : (h.alloc m).2.next = h.next + 1 := by
  simp [Heap.alloc, Heap.next]

theorem Heap.alloc_fst (h : Heap H) (m : H) : (h.alloc m).1 = h.next := rfl

theorem Heap.next_write (h : Heap H) (i : Nat) (v : H) : (h.write i v).next = h.next := by
  simp [Heap.write, Heap.next]

theorem Heap.read_write_same (h : Heap H) (z : H) (i : Nat) (v : H) (hi : i < h.next) :
    (h.write i v).read z i = v := by
  simp only [Heap.next] at hi
  simp [Heap.write, Heap.read, hi]

theorem Heap.read_write_other (h : Heap H) (z : H) (i j : Nat) (v : H) (hij : i ≠ j) :
    (h.write i v).read z j = h.read z j := by
  simp [Heap.write, Heap.read]
  rw [Array.getElem?_setIfInBounds]; simp [hij]

theorem Heap.read_fresh (h : Heap H) (z : H) (i : Nat) (hi : h.next ≤ i) : h.read z i = z := by
  simp [Heap.read, Heap.next] at *
  rw [Array.getElem?_eq_none (by omega)]; rfl

end Milhouse
