import Milhouse.Proofs.UMap
import Milhouse.Proofs.Inv
import Milhouse.Model.Collection
/-!
# Flushing pending writes (`Tree::with_updated_leaves`, C01 / C10)

For every admissible update map (all keys inside the tree; keys at or beyond the current length
extend it without gaps) `updLeaves` succeeds and returns the canonical tree of the overlaid
contents. Along the way: the heap is only extended (old memos untouched, new memos zero), every
node of the result is an old node or freshly allocated, subtrees without keys are shared, and the
number of allocations is bounded by `keys * (3 * depth + 3)`.

Main results: `updLeaves_block` (induction over aligned blocks), `updLeaves_root`,
`updLeaves_frame`, `updLeaves_unchanged`, `updLeaves_alloc_bound`, `updLeaves_node_missing`,
`getElem?_applyEntries`, `length_applyEntries`, `C01_flush_canonical`.
-/
namespace Milhouse
variable {T H : Type}

open Coll (gapCheck)

/-! ## list-level overlay -/

/-- the contents after `bulk_update`-style application of ascending entries: keys inside the list
overwrite, keys at the end append. -/
def applyEntries (xs : List T) (es : List (Nat × T)) : List T :=
  es.foldl (fun acc kv => if kv.1 < acc.length then acc.set kv.1 kv.2 else acc ++ [kv.2]) xs

/-- the same relative to a block starting at `pfx`. -/
def applyOff (pfx : Nat) (xs : List T) (es : List (Nat × T)) : List T :=
  es.foldl (fun acc kv =>
    if kv.1 - pfx < acc.length then acc.set (kv.1 - pfx) kv.2 else acc ++ [kv.2]) xs

theorem applyEntries_eq_applyOff (xs : List T) (es : List (Nat × T)) :
    applyEntries xs es = applyOff 0 xs es := by
  simp [applyEntries, applyOff]

/-- overwrite the elements of `B` (sitting at indices `k, k+1, …`) by the values of `g`. -/
def overlayHead (g : Nat → Option T) : Nat → List T → List T
  | _, [] => []
  | k, b :: bs => (g k).getD b :: overlayHead g (k+1) bs

/-- the contents of the block `[pfx, pfx + c)` after the flush: old elements overwritten where the
map has a key, followed by the values of the keys beyond the old contents. -/
def overlayBlock (B : List T) (m : UMap T) (pfx c : Nat) : List T :=
  overlayHead m.get pfx B ++ (m.range (pfx + B.length) (pfx + c)).map (·.2)

@[simp] theorem length_overlayHead (g : Nat → Option T) (k : Nat) (B : List T) :
    (overlayHead g k B).length = B.length := by
  induction B generalizing k with
  | nil => rfl
  | cons b bs ih => simp [overlayHead, ih]

theorem overlayHead_append (g : Nat → Option T) (k : Nat) (A R : List T) :
    overlayHead g k (A ++ R) = overlayHead g k A ++ overlayHead g (k + A.length) R := by
  induction A generalizing k with
  | nil => simp [overlayHead]
  | cons a as ih =>
    simp only [List.cons_append, overlayHead, List.length_cons, ih]
    rw [show k + 1 + as.length = k + (as.length + 1) by omega]

theorem overlayHead_congr (g g' : Nat → Option T) (k : Nat) (B : List T)
    (h : ∀ j, j < B.length → g (k + j) = g' (k + j)) : overlayHead g k B = overlayHead g' k B := by
  induction B generalizing k with
  | nil => rfl
  | cons b bs ih =>
    simp only [overlayHead]
    rw [show g k = g' k from h 0 (by simp)]
    rw [ih (k+1) (fun j hj => by
      have := h (j+1) (by simp; omega)
      rw [show k + 1 + j = k + (j + 1) by omega]; exact this)]

theorem overlayHead_none (g : Nat → Option T) (k : Nat) (B : List T)
    (h : ∀ j, j < B.length → g (k + j) = none) : overlayHead g k B = B := by
  induction B generalizing k with
  | nil => rfl
  | cons b bs ih =>
    simp only [overlayHead]
    rw [show g k = none from h 0 (by simp)]
    rw [ih (k+1) (fun j hj => by
      have := h (j+1) (by simp; omega)
      rw [show k + 1 + j = k + (j + 1) by omega]; exact this)]
    rfl

theorem getElem?_overlayHead (g : Nat → Option T) (k : Nat) (B : List T) (j : Nat) :
    (overlayHead g k B)[j]? = (B[j]?).map (fun b => (g (k + j)).getD b) := by
  induction B generalizing k j with
  | nil => simp [overlayHead]
  | cons b bs ih =>
    cases j with
    | zero => simp [overlayHead]
    | succ j =>
      simp only [overlayHead, List.getElem?_cons_succ, ih]
      rw [show k + 1 + j = k + (j + 1) by omega]

theorem overlayHead_ne_nil (g : Nat → Option T) (k : Nat) (B : List T) (h : B ≠ []) :
    overlayHead g k B ≠ [] := by
  cases B with
  | nil => exact absurd rfl h
  | cons b bs => simp [overlayHead]

/-! ## `gapCheck` -/

theorem gapCheck_append (n : Nat) (es1 es2 : List (Nat × T)) :
    gapCheck n (es1 ++ es2) = none ↔
      gapCheck n es1 = none ∧ gapCheck (n + es1.length) es2 = none := by
  induction es1 generalizing n with
  | nil => simp [gapCheck]
  | cons q rest ih =>
    obtain ⟨k, v⟩ := q
    simp only [List.cons_append, gapCheck, List.length_cons]
    by_cases hk : k = n
    · simp only [hk, if_true, ih]
      rw [show n + 1 + rest.length = n + (rest.length + 1) by omega]
    · simp [hk]

theorem gapCheck_head (n : Nat) (q : Nat × T) (rest : List (Nat × T))
    (h : gapCheck n (q :: rest) = none) : q.1 = n := by
  obtain ⟨k, v⟩ := q
  simp only [gapCheck] at h
  by_cases hk : k = n
  · exact hk
  · simp [hk] at h

theorem gapCheck_bound (n : Nat) (es : List (Nat × T)) (h : gapCheck n es = none) :
    ∀ q ∈ es, n ≤ q.1 ∧ q.1 < n + es.length := by
  induction es generalizing n with
  | nil => simp
  | cons p rest ih =>
    obtain ⟨k, v⟩ := p
    simp only [gapCheck] at h
    by_cases hk : k = n
    · subst hk
      simp only [if_true] at h
      intro q hq
      simp only [List.mem_cons] at hq
      rcases hq with hq | hq
      · subst hq; simp
      · have := ih _ h q hq; simp only [List.length_cons]; omega
    · simp [hk] at h

theorem gapCheck_mem (n : Nat) (es : List (Nat × T)) (h : gapCheck n es = none) :
    ∀ j, n ≤ j → j < n + es.length → ∃ v, (j, v) ∈ es := by
  induction es generalizing n with
  | nil => intro j h1 h2; simp at h2; omega
  | cons p rest ih =>
    obtain ⟨k, v⟩ := p
    simp only [gapCheck] at h
    by_cases hk : k = n
    · subst hk
      simp only [if_true] at h
      intro j h1 h2
      by_cases hj : j = k
      · subst hj; exact ⟨v, by simp⟩
      · obtain ⟨w, hw⟩ := ih _ h j (by omega) (by simp only [List.length_cons] at h2; omega)
        exact ⟨w, by simp [hw]⟩
    · simp [hk] at h

theorem gapCheck_length_le (n e : Nat) (es : List (Nat × T)) (h : gapCheck n es = none)
    (hlt : ∀ q ∈ es, q.1 < e) (hne : n ≤ e) : n + es.length ≤ e := by
  induction es generalizing n with
  | nil => simpa using hne
  | cons p rest ih =>
    have hk := gapCheck_head n p rest h
    obtain ⟨k, v⟩ := p
    simp only at hk
    subst hk
    simp only [gapCheck, if_true] at h
    have h1 := hlt (k, v) (by simp)
    have := ih (k+1) h (fun q hq => hlt q (by simp [hq])) (by simp only at h1; omega)
    simp only [List.length_cons]; omega

/-! ## folding entries into a block -/

theorem length_applyOff_of_lt (pfx : Nat) (es : List (Nat × T)) (B : List T)
    (h : ∀ q ∈ es, q.1 < pfx + B.length) (hge : ∀ q ∈ es, pfx ≤ q.1) :
    (applyOff pfx B es).length = B.length := by
  induction es generalizing B with
  | nil => rfl
  | cons q rest ih =>
    have h1 := h q (by simp)
    have h2 := hge q (by simp)
    simp only [applyOff, List.foldl_cons]
    rw [if_pos (by omega)]
    have := ih (B.set (q.1 - pfx) q.2) (by simpa using fun a b hq => h (a, b) (by simp [hq]))
      (fun q hq => hge q (by simp [hq]))
    simpa [applyOff] using this

/-- entries with keys inside the block overwrite. -/
theorem applyOff_set (pfx : Nat) (es : List (Nat × T)) (B : List T) (hs : KeysAsc es)
    (h : ∀ q ∈ es, pfx ≤ q.1 ∧ q.1 < pfx + B.length) :
    applyOff pfx B es = overlayHead (fun k => assocGet k es) pfx B := by
  induction es generalizing B with
  | nil =>
    simp only [applyOff, List.foldl_nil]
    exact (overlayHead_none _ _ _ (fun j _ => rfl)).symm
  | cons q rest ih =>
    obtain ⟨k, v⟩ := q
    have hs' := List.pairwise_cons.1 hs
    have h1 := h (k, v) (by simp)
    simp only at h1
    have hstep : applyOff pfx B ((k, v) :: rest) = applyOff pfx (B.set (k - pfx) v) rest := by
      simp only [applyOff, List.foldl_cons]
      rw [if_pos (by omega)]
    rw [hstep, ih (B.set (k - pfx) v) hs'.2
      (fun q hq => by have := h q (by simp [hq]); simpa using this)]
    apply List.ext_getElem?
    intro j
    rw [getElem?_overlayHead, getElem?_overlayHead]
    by_cases hj : j = k - pfx
    · subst hj
      rw [List.getElem?_set_self (by omega)]
      have hk : pfx + (k - pfx) = k := by omega
      rw [hk]
      have hnone : assocGet k rest = none :=
        assocGet_none_of_lt k rest (fun q hq => hs'.1 q hq)
      rw [List.getElem?_eq_getElem (by omega : k - pfx < B.length)]
      simp [assocGet, hnone]
    · rw [List.getElem?_set_ne (Ne.symm hj)]
      have hk : ¬ (pfx + j = k) := by omega
      simp [assocGet, hk]

/-- entries continuing the block without gaps append. -/
theorem applyOff_append (pfx : Nat) (es : List (Nat × T)) (acc : List T)
    (h : gapCheck (pfx + acc.length) es = none) :
    applyOff pfx acc es = acc ++ es.map (·.2) := by
  induction es generalizing acc with
  | nil => simp [applyOff]
  | cons q rest ih =>
    have hk := gapCheck_head _ q rest h
    obtain ⟨k, v⟩ := q
    simp only at hk
    have hstep : applyOff pfx acc ((k, v) :: rest) = applyOff pfx (acc ++ [v]) rest := by
      simp only [applyOff, List.foldl_cons]
      rw [if_neg (by omega)]
    rw [hstep, ih (acc ++ [v])]
    · simp
    · simp only [gapCheck, hk, if_true] at h
      simpa [Nat.add_assoc] using h

theorem applyOff_app (pfx : Nat) (B : List T) (es1 es2 : List (Nat × T)) :
    applyOff pfx B (es1 ++ es2) = applyOff pfx (applyOff pfx B es1) es2 := by
  simp [applyOff, List.foldl_append]

/-- block-local admissibility: the keys of the block beyond the old contents extend it without
gaps. -/
def Adm (m : UMap T) (pfx n c : Nat) : Prop :=
  gapCheck (pfx + n) (m.range (pfx + n) (pfx + c)) = none

/-- folding the block's entries over its old contents gives `overlayBlock`. -/
theorem applyOff_range (m : UMap T) (hm : m.WF) (pfx c : Nat) (B : List T) (hB : B.length ≤ c)
    (hadm : Adm m pfx B.length c) :
    applyOff pfx B (m.range pfx (pfx + c)) = overlayBlock B m pfx c := by
  rw [UMap.range_split m hm pfx (pfx + B.length) (pfx + c) (by omega) (by omega), applyOff_app]
  have h1 : applyOff pfx B (m.range pfx (pfx + B.length)) = overlayHead m.get pfx B := by
    rw [applyOff_set pfx _ B (UMap.range_keysAsc m hm _ _)
      (fun q hq => UMap.mem_range_bounds m _ _ q hq)]
    apply overlayHead_congr
    intro j hj
    simp only [UMap.assocGet_range]
    rw [if_pos (by omega)]
  rw [h1, applyOff_append pfx _ _ (by simpa [Adm] using hadm)]
  rfl

theorem length_overlayBlock (B : List T) (m : UMap T) (pfx c : Nat) :
    (overlayBlock B m pfx c).length = B.length + (m.range (pfx + B.length) (pfx + c)).length := by
  simp [overlayBlock]

theorem length_overlayBlock_le (B : List T) (m : UMap T) (pfx c : Nat) (hB : B.length ≤ c)
    (hadm : Adm m pfx B.length c) : (overlayBlock B m pfx c).length ≤ c := by
  rw [length_overlayBlock]
  have := gapCheck_length_le (pfx + B.length) (pfx + c) _ hadm
    (fun q hq => (UMap.mem_range_bounds m _ _ q hq).2) (by omega)
  omega

theorem overlayBlock_ne_nil (B : List T) (m : UMap T) (pfx c : Nat)
    (has : m.hasInRange pfx (pfx + c) = true) : overlayBlock B m pfx c ≠ [] := by
  cases B with
  | nil =>
    simp only [overlayBlock, overlayHead, List.length_nil, Nat.add_zero, List.nil_append]
    rw [UMap.hasInRange_eq_true_iff_ne_nil] at has
    simpa using has
  | cons b bs => simp [overlayBlock, overlayHead]

/-- a block without keys is unchanged. -/
theorem overlayBlock_of_no_keys (B : List T) (m : UMap T) (pfx c : Nat) (hB : B.length ≤ c)
    (hno : m.hasInRange pfx (pfx + c) = false) : overlayBlock B m pfx c = B := by
  have hnone : ∀ k, pfx ≤ k → k < pfx + c → m.get k = none := by
    intro k h1 h2
    cases hg : m.get k with
    | none => rfl
    | some v =>
      have : m.hasInRange pfx (pfx + c) = true :=
        (UMap.hasInRange_iff m _ _).2 ⟨k, h1, h2, by simp [hg]⟩
      rw [hno] at this; cases this
  unfold overlayBlock
  rw [overlayHead_none _ _ _ (fun j hj => hnone _ (by omega) (by omega))]
  have : m.range (pfx + B.length) (pfx + c) = [] := by
    cases hr : m.range (pfx + B.length) (pfx + c) with
    | nil => rfl
    | cons q rest =>
      have hq : q ∈ m.range (pfx + B.length) (pfx + c) := by rw [hr]; simp
      have hb := UMap.mem_range_bounds m _ _ q hq
      rw [UMap.range_def, List.mem_filter] at hq
      have := (UMap.get_isSome_iff m q.1).2 ⟨q.2, hq.1⟩
      rw [hnone q.1 (by omega) hb.2] at this; simp at this
  rw [this]; simp

/-! ## the packed leaf -/

theorem mod_of_aligned (pfx p k : Nat) (ha : pfx % p = 0) (h1 : pfx ≤ k) (h2 : k < pfx + p) :
    k % p = k - pfx := by
  have e : k = pfx + (k - pfx) := by omega
  have hp : 0 < p := by omega
  have hq : pfx = p * (pfx / p) := by
    have := Nat.div_add_mod pfx p; omega
  rw [e, hq, Nat.mul_add_mod, Nat.mod_eq_of_lt (by omega)]
  omega

theorem packedApply_set (p pfx : Nat) (ha : pfx % p = 0) (es1 es2 : List (Nat × T)) (B : List T)
    (hB : B.length ≤ p) (h : ∀ q ∈ es1, pfx ≤ q.1 ∧ q.1 < pfx + B.length) :
    packedApply p B (es1 ++ es2) = packedApply p (applyOff pfx B es1) es2 := by
  induction es1 generalizing B with
  | nil => rfl
  | cons q rest ih =>
    obtain ⟨k, v⟩ := q
    have h1 := h (k, v) (by simp)
    simp only at h1
    have hmod := mod_of_aligned pfx p k ha h1.1 (by omega)
    simp only [List.cons_append, packedApply, hmod, packedInsert]
    rw [if_neg (by omega), if_pos (by omega)]
    simp only
    rw [ih (B.set (k - pfx) v) (by simpa using hB)
      (fun q hq => by have := h q (by simp [hq]); simpa using this)]
    simp only [applyOff, List.foldl_cons]
    rw [if_pos (by omega)]

theorem packedApply_append (p pfx : Nat) (ha : pfx % p = 0) (es : List (Nat × T)) (acc : List T)
    (h : gapCheck (pfx + acc.length) es = none) (hlt : ∀ q ∈ es, q.1 < pfx + p) :
    packedApply p acc es = .ok (acc ++ es.map (·.2)) := by
  induction es generalizing acc with
  | nil => simp [packedApply]
  | cons q rest ih =>
    have hk := gapCheck_head _ q rest h
    obtain ⟨k, v⟩ := q
    simp only at hk
    have h1 := hlt (k, v) (by simp)
    simp only at h1
    have hmod := mod_of_aligned pfx p k ha (by omega) h1
    simp only [packedApply, hmod, packedInsert]
    rw [if_pos (by omega)]
    simp only
    rw [ih (acc ++ [v])]
    · simp
    · simp only [gapCheck, hk, if_true] at h
      simpa [Nat.add_assoc] using h
    · exact fun q hq => hlt q (by simp [hq])

/-- `PackedLeaf::update` over the block's entries yields the overlaid block. -/
theorem packedApply_range (m : UMap T) (hm : m.WF) (p pfx : Nat) (ha : pfx % p = 0) (B : List T)
    (hB : B.length ≤ p) (hadm : Adm m pfx B.length p) :
    packedApply p B (m.range pfx (pfx + p)) = .ok (overlayBlock B m pfx p) := by
  rw [← applyOff_range m hm pfx p B hB hadm]
  rw [UMap.range_split m hm pfx (pfx + B.length) (pfx + p) (by omega) (by omega)]
  generalize he1 : m.range pfx (pfx + B.length) = es1
  generalize he2 : m.range (pfx + B.length) (pfx + p) = es2
  have hb1 : ∀ q ∈ es1, pfx ≤ q.1 ∧ q.1 < pfx + B.length := by
    intro q hq; rw [← he1] at hq; exact UMap.mem_range_bounds m _ _ q hq
  have hb2 : ∀ q ∈ es2, q.1 < pfx + p := by
    intro q hq; rw [← he2] at hq; exact (UMap.mem_range_bounds m _ _ q hq).2
  have hg : gapCheck (pfx + B.length) es2 = none := by rw [← he2]; exact hadm
  rw [packedApply_set p pfx ha es1 es2 B hB hb1, applyOff_app]
  have hlen : (applyOff pfx B es1).length = B.length :=
    length_applyOff_of_lt pfx es1 B (fun q hq => (hb1 q hq).2) (fun q hq => (hb1 q hq).1)
  rw [packedApply_append p pfx ha es2 (applyOff pfx B es1) (by rw [hlen]; exact hg) hb2]
  rw [applyOff_append pfx es2 (applyOff pfx B es1) (by rw [hlen]; exact hg)]

/-! ## splitting a block into halves -/

theorem adm_left (m : UMap T) (hm : m.WF) (pfx c : Nat) (B : List T)
    (hadm : Adm m pfx B.length (c + c)) : Adm m pfx (B.take c).length c := by
  unfold Adm at *
  by_cases hB : B.length ≤ c
  · rw [List.take_of_length_le hB]
    rw [UMap.range_split m hm (pfx + B.length) (pfx + c) (pfx + (c + c)) (by omega) (by omega),
      gapCheck_append] at hadm
    exact hadm.1
  · rw [List.length_take, Nat.min_eq_left (by omega), UMap.range_empty_of_le m _ _ (by omega)]
    rfl

theorem adm_right (m : UMap T) (hm : m.WF) (pfx c : Nat) (B : List T)
    (hadm : Adm m pfx B.length (c + c)) : Adm m (pfx + c) (B.drop c).length c := by
  unfold Adm at *
  by_cases hB : B.length ≤ c
  · rw [List.drop_of_length_le hB]
    rw [UMap.range_split m hm (pfx + B.length) (pfx + c) (pfx + (c + c)) (by omega) (by omega),
      gapCheck_append] at hadm
    simp only [List.length_nil, Nat.add_zero]
    rw [show pfx + c + c = pfx + (c + c) by omega]
    cases hr : m.range (pfx + c) (pfx + (c + c)) with
    | nil => rfl
    | cons q rest =>
      have h2 := hadm.2
      rw [hr] at h2
      have hq := gapCheck_head _ q rest h2
      have hqb := UMap.mem_range_bounds m (pfx + c) (pfx + (c + c)) q (by rw [hr]; simp)
      have hlen := gapCheck_length_le _ (pfx + c) _ hadm.1
        (fun q hq => (UMap.mem_range_bounds m _ _ q hq).2) (by omega)
      have e : pfx + B.length + (m.range (pfx + B.length) (pfx + c)).length = pfx + c := by omega
      rw [e] at h2; exact h2
  · rw [List.length_drop]
    rw [show pfx + c + (B.length - c) = pfx + B.length by omega,
        show pfx + c + c = pfx + (c + c) by omega]
    exact hadm

theorem overlayBlock_split (m : UMap T) (hm : m.WF) (pfx c : Nat) (B : List T) :
    overlayBlock (B.take c) m pfx c ++ overlayBlock (B.drop c) m (pfx + c) c =
      overlayBlock B m pfx (c + c) := by
  unfold overlayBlock
  by_cases hB : B.length ≤ c
  · rw [List.take_of_length_le hB, List.drop_of_length_le hB]
    simp only [overlayHead, List.length_nil, Nat.add_zero, List.nil_append]
    rw [UMap.range_split m hm (pfx + B.length) (pfx + c) (pfx + (c + c)) (by omega) (by omega)]
    rw [show pfx + c + c = pfx + (c + c) by omega]
    simp
  · have hlt : (B.take c).length = c := by rw [List.length_take]; omega
    rw [hlt, UMap.range_empty_of_le m (pfx + c) (pfx + c) (by omega)]
    simp only [List.map_nil, List.append_nil, List.length_drop]
    rw [show pfx + c + (B.length - c) = pfx + B.length by omega,
        show pfx + c + c = pfx + (c + c) by omega]
    rw [← List.append_assoc]
    congr 1
    conv => rhs; rw [← List.take_append_drop c B]
    rw [overlayHead_append, hlt]

theorem overlayBlock_full_or_nil (m : UMap T) (hm : m.WF) (pfx c : Nat) (B : List T)
    (hB : B.length ≤ c + c) (hadm : Adm m pfx B.length (c + c)) :
    (overlayBlock (B.take c) m pfx c).length = c ∨ overlayBlock (B.drop c) m (pfx + c) c = [] := by
  by_cases hBc : B.length ≤ c
  · have hadm' := hadm
    unfold Adm at hadm'
    rw [UMap.range_split m hm (pfx + B.length) (pfx + c) (pfx + (c + c)) (by omega) (by omega),
      gapCheck_append] at hadm'
    cases hr : m.range (pfx + c) (pfx + (c + c)) with
    | nil =>
      right
      rw [List.drop_of_length_le hBc]
      simp only [overlayBlock, overlayHead, List.length_nil, Nat.add_zero, List.nil_append]
      rw [show pfx + c + c = pfx + (c + c) by omega, hr]; rfl
    | cons q rest =>
      left
      have h2 := hadm'.2
      rw [hr] at h2
      have hq := gapCheck_head _ q rest h2
      have hqb := UMap.mem_range_bounds m (pfx + c) (pfx + (c + c)) q (by rw [hr]; simp)
      have hlen := gapCheck_length_le _ (pfx + c) _ hadm'.1
        (fun q hq => (UMap.mem_range_bounds m _ _ q hq).2) (by omega)
      rw [length_overlayBlock, List.take_of_length_le hBc]
      omega
  · left
    have hlt : (B.take c).length = c := by rw [List.length_take]; omega
    rw [length_overlayBlock, hlt, UMap.range_empty_of_le m (pfx + c) (pfx + c) (by omega)]
    simp

/-! ## the recursion step of `updLeaves` -/

/-- recurse into a child only if it has a key. -/
def optUpd (pf : Option Nat) (z : H) (m : UMap T) (b : Bool) (h : Heap H) (t : Tree T)
    (pfx d : Nat) : Except Err (Tree T × Heap H) :=
  if b = true then updLeaves pf z m h t pfx d else .ok (t, h)

/-- the common body of the `Node` and the zero-splitting case of `with_updated_leaves`; `rp` is
the prefix of the right child, `rend` the end of the block. -/
def nodeBody (pf : Option Nat) (z : H) (m : UMap T) (h : Heap H) (l r : Tree T)
    (pfx rp rend d : Nat) : Except Err (Tree T × Heap H) :=
  if (!m.hasInRange pfx rp && !m.hasInRange rp rend) = true then
    .error (.nodeUpdatesMissing pfx)
  else
    match optUpd pf z m (m.hasInRange pfx rp) h l pfx d with
    | .error e => .error e
    | .ok (l', h) =>
      match optUpd pf z m (m.hasInRange rp rend) h r rp d with
      | .error e => .error e
      | .ok (r', h) => .ok (.node h.next l' r', (h.alloc z).2)

theorem updLeaves_node (pf : Option Nat) (z : H) (m : UMap T) (h : Heap H) (id : Nat)
    (l r : Tree T) (pfx d : Nat) :
    updLeaves pf z m h (.node id l r) pfx (d+1) =
      nodeBody pf z m h l r pfx (pfx ||| 2 ^ (d + pdOf pf)) (pfx + 2 ^ (d + 1 + pdOf pf)) d := by
  simp only [updLeaves, nodeBody, optUpd, Heap.alloc_fst]
  try rfl

theorem updLeaves_zero_succ (pf : Option Nat) (z : H) (m : UMap T) (h : Heap H) (id : Nat)
    (pfx d : Nat) :
    updLeaves pf z m h (.zero id (d+1)) pfx (d+1) =
      nodeBody pf z m ((h.alloc z).2.alloc z).2 (.zero h.next d) (.zero h.next d) pfx
        (pfx ||| 2 ^ (d + pdOf pf)) (pfx + 2 ^ (d + 1 + pdOf pf)) d := by
  simp only [updLeaves, nodeBody, optUpd, if_true, Heap.alloc_fst]
  rfl

/-- success of the step, decomposed. -/
theorem nodeBody_eq_ok_iff (pf : Option Nat) (z : H) (m : UMap T) (h : Heap H) (l r : Tree T)
    (pfx rp rend d : Nat) (t' : Tree T) (h' : Heap H) :
    nodeBody pf z m h l r pfx rp rend d = .ok (t', h') ↔
      ∃ l' h1 r' h2,
        (m.hasInRange pfx rp = true ∨ m.hasInRange rp rend = true) ∧
        optUpd pf z m (m.hasInRange pfx rp) h l pfx d = .ok (l', h1) ∧
        optUpd pf z m (m.hasInRange rp rend) h1 r rp d = .ok (r', h2) ∧
        t' = .node h2.next l' r' ∧ h' = (h2.alloc z).2 := by
  unfold nodeBody
  by_cases hno : (!m.hasInRange pfx rp && !m.hasInRange rp rend) = true
  · rw [if_pos hno]
    have hnot : ¬ (m.hasInRange pfx rp = true ∨ m.hasInRange rp rend = true) := by
      simpa using hno
    constructor
    · intro e; cases e
    · rintro ⟨_, _, _, _, hor, _⟩; exact absurd hor hnot
  · rw [if_neg hno]
    have hor : m.hasInRange pfx rp = true ∨ m.hasInRange rp rend = true := by
      cases h1 : m.hasInRange pfx rp <;> cases h2 : m.hasInRange rp rend <;> simp [h1, h2] at hno ⊢
    cases hl : optUpd pf z m (m.hasInRange pfx rp) h l pfx d with
    | error e =>
      constructor
      · intro e; cases e
      · rintro ⟨_, _, _, _, _, e1, _⟩; cases e1
    | ok res =>
      obtain ⟨l', h1⟩ := res
      simp only
      cases hr : optUpd pf z m (m.hasInRange rp rend) h1 r rp d with
      | error e =>
        constructor
        · intro e; cases e
        · rintro ⟨_, _, _, _, _, e1, e2, _⟩; cases e1; rw [hr] at e2; cases e2
      | ok res2 =>
        obtain ⟨r', h2⟩ := res2
        constructor
        · intro e; cases e; exact ⟨l', h1, r', h2, hor, rfl, hr, rfl, rfl⟩
        · rintro ⟨_, _, _, _, _, e1, e2, rfl, rfl⟩
          cases e1; rw [hr] at e2; cases e2; rfl

/-! ## alignment -/

theorem aligned_or (pf : Option Nat) (hpf : PfOK pf) (d pfx : Nat)
    (ha : pfx % cap pf (d+1) = 0) : pfx ||| 2 ^ (d + pdOf pf) = pfx + cap pf d := by
  rw [cap_eq_pow pf hpf (d+1)] at ha
  rw [cap_eq_pow pf hpf d]
  have hq : pfx = 2 ^ (d + 1 + pdOf pf) * (pfx / 2 ^ (d + 1 + pdOf pf)) := by
    have := Nat.div_add_mod pfx (2 ^ (d + 1 + pdOf pf)); omega
  have hlt : 2 ^ (d + pdOf pf) < 2 ^ (d + 1 + pdOf pf) :=
    Nat.pow_lt_pow_right (by decide) (by omega)
  have := Nat.two_pow_add_eq_or_of_lt hlt (pfx / 2 ^ (d + 1 + pdOf pf))
  rw [← hq] at this
  exact this.symm

theorem aligned_end (pf : Option Nat) (hpf : PfOK pf) (d pfx : Nat) :
    pfx + 2 ^ (d + 1 + pdOf pf) = pfx + (cap pf d + cap pf d) := by
  rw [cap_eq_pow pf hpf d, show d + 1 + pdOf pf = (d + pdOf pf) + 1 by omega, Nat.pow_succ]
  omega

theorem aligned_left (pf : Option Nat) (d pfx : Nat) (ha : pfx % cap pf (d+1) = 0) :
    pfx % cap pf d = 0 := by
  rw [cap_succ] at ha
  have : cap pf d ∣ pfx := Nat.dvd_trans ⟨2, by omega⟩ (Nat.dvd_of_mod_eq_zero ha)
  exact Nat.mod_eq_zero_of_dvd this

theorem aligned_right (pf : Option Nat) (d pfx : Nat) (ha : pfx % cap pf (d+1) = 0) :
    (pfx + cap pf d) % cap pf d = 0 := by
  have := aligned_left pf d pfx ha
  rw [Nat.add_mod, this]; simp

theorem hasInRange_split (m : UMap T) (hm : m.WF) (s mid e : Nat) (h1 : s ≤ mid) (h2 : mid ≤ e) :
    m.hasInRange s e = (m.hasInRange s mid || m.hasInRange mid e) := by
  unfold UMap.hasInRange
  rw [UMap.range_split m hm s mid e h1 h2]
  cases m.range s mid <;> cases m.range mid e <;> simp

/-! ## shape inversion -/

theorem erase_eq_zero {t : Tree T} {k : Nat} (h : t.erase = .zero k) : ∃ id, t = .zero id k := by
  cases t <;> simp [Tree.erase] at h
  subst h; exact ⟨_, rfl⟩

theorem erase_eq_leaf {t : Tree T} {x : T} (h : t.erase = .leaf x) : ∃ id, t = .leaf id x := by
  cases t <;> simp [Tree.erase] at h
  subst h; exact ⟨_, rfl⟩

theorem erase_eq_packed {t : Tree T} {vs : List T} (h : t.erase = .packed vs) :
    ∃ id, t = .packed id vs := by
  cases t <;> simp [Tree.erase] at h
  subst h; exact ⟨_, rfl⟩

theorem erase_eq_node {t : Tree T} {a b : Shape T} (h : t.erase = .node a b) :
    ∃ id l r, t = .node id l r ∧ l.erase = a ∧ r.erase = b := by
  cases t <;> simp [Tree.erase] at h
  exact ⟨_, _, _, rfl, h.1, h.2⟩

/-! ## the main induction -/

/-- the statement proved by induction on the depth: on an aligned block whose tree is canonical
for `B`, with at least one key and block-local admissibility, `updLeaves` succeeds with the
canonical tree of the overlaid block. -/
def BlockSpec (pf : Option Nat) (z : H) (m : UMap T) (d : Nat) : Prop :=
  ∀ (h : Heap H) (t : Tree T) (pfx : Nat) (B : List T),
    pfx % cap pf d = 0 → t.erase = canon pf d B → B.length ≤ cap pf d →
    m.hasInRange pfx (pfx + cap pf d) = true → Adm m pfx B.length (cap pf d) →
    ∃ t' h', updLeaves pf z m h t pfx d = .ok (t', h') ∧
      t'.erase = canon pf d (overlayBlock B m pfx (cap pf d))

theorem optUpd_canon (pf : Option Nat) (z : H) (m : UMap T) (d : Nat)
    (ih : BlockSpec pf z m d) (h : Heap H) (t : Tree T) (pfx : Nat) (B : List T)
    (ha : pfx % cap pf d = 0) (ht : t.erase = canon pf d B) (hB : B.length ≤ cap pf d)
    (hadm : Adm m pfx B.length (cap pf d)) :
    ∃ t' h', optUpd pf z m (m.hasInRange pfx (pfx + cap pf d)) h t pfx d = .ok (t', h') ∧
      t'.erase = canon pf d (overlayBlock B m pfx (cap pf d)) := by
  cases has : m.hasInRange pfx (pfx + cap pf d) with
  | true => simp only [optUpd, if_true]; exact ih h t pfx B ha ht hB has hadm
  | false =>
    refine ⟨t, h, by simp [optUpd], ?_⟩
    rw [overlayBlock_of_no_keys B m pfx _ hB has]; exact ht

theorem nodeBody_canon (pf : Option Nat) (hpf : PfOK pf) (z : H) (m : UMap T) (hm : m.WF)
    (d : Nat) (ih : BlockSpec pf z m d) (h : Heap H) (l r : Tree T) (pfx : Nat) (B : List T)
    (ha : pfx % cap pf (d+1) = 0)
    (hl : l.erase = canon pf d (B.take (cap pf d))) (hr : r.erase = canon pf d (B.drop (cap pf d)))
    (hB : B.length ≤ cap pf d + cap pf d)
    (has : m.hasInRange pfx (pfx + (cap pf d + cap pf d)) = true)
    (hadm : Adm m pfx B.length (cap pf d + cap pf d)) :
    ∃ t' h', nodeBody pf z m h l r pfx (pfx + cap pf d) (pfx + (cap pf d + cap pf d)) d
        = .ok (t', h') ∧
      t'.erase = canon pf (d+1) (overlayBlock B m pfx (cap pf d + cap pf d)) := by
  have hc := cap_pos pf hpf d
  have hadmL := adm_left m hm pfx (cap pf d) B hadm
  have hadmR := adm_right m hm pfx (cap pf d) B hadm
  have hAlen : (B.take (cap pf d)).length ≤ cap pf d := by rw [List.length_take]; omega
  have hRlen : (B.drop (cap pf d)).length ≤ cap pf d := by rw [List.length_drop]; omega
  obtain ⟨l', h1, hL, hl'⟩ := optUpd_canon pf z m d ih h l pfx _ (aligned_left pf d pfx ha) hl
    hAlen hadmL
  obtain ⟨r', h2, hR, hr'⟩ := optUpd_canon pf z m d ih h1 r (pfx + cap pf d) _
    (aligned_right pf d pfx ha) hr hRlen hadmR
  rw [show pfx + cap pf d + cap pf d = pfx + (cap pf d + cap pf d) by omega] at hR
  have hor : m.hasInRange pfx (pfx + cap pf d) = true ∨
      m.hasInRange (pfx + cap pf d) (pfx + (cap pf d + cap pf d)) = true := by
    rw [hasInRange_split m hm pfx (pfx + cap pf d) _ (by omega) (by omega)] at has
    simpa using has
  refine ⟨_, _, (nodeBody_eq_ok_iff pf z m h l r pfx _ _ d _ _).2
    ⟨l', h1, r', h2, hor, hL, hR, rfl, rfl⟩, ?_⟩
  simp only [Tree.erase, hl', hr']
  have hsplit := overlayBlock_split m hm pfx (cap pf d) B
  have hfull := overlayBlock_full_or_nil m hm pfx (cap pf d) B hB hadm
  have hle := length_overlayBlock_le _ m pfx (cap pf d) hAlen hadmL
  have hne : overlayBlock (B.take (cap pf d)) m pfx (cap pf d) ≠ [] := by
    intro hnil
    have hne' := overlayBlock_ne_nil B m pfx (cap pf d + cap pf d) has
    rw [← hsplit, hnil] at hne'
    rcases hfull with hf | hf
    · rw [hnil] at hf; simp at hf; omega
    · rw [hf] at hne'; exact hne' rfl
  rw [canon_node pf d _ _ hne hfull hle, hsplit]

theorem updLeaves_block (pf : Option Nat) (hpf : PfOK pf) (z : H) (m : UMap T) (hm : m.WF) :
    ∀ d, BlockSpec (H := H) pf z m d := by
  intro d
  induction d with
  | zero =>
    intro h t pfx B ha ht hB has hadm
    rw [cap_zero] at *
    cases pf with
    | none =>
      simp only [lcap, Option.getD_none] at *
      -- the single key of the block
      obtain ⟨k, hk1, hk2, hk3⟩ := (UMap.hasInRange_iff m _ _).1 has
      have hkp : k = pfx := by omega
      subst hkp
      obtain ⟨x, hx⟩ := Option.isSome_iff_exists.1 hk3
      have hsing := UMap.range_singleton m hm k
      rw [hx] at hsing
      simp only at hsing
      cases B with
      | nil =>
        obtain ⟨id, rfl⟩ := erase_eq_zero (by simpa [canon] using ht)
        refine ⟨.leaf h.next x, (h.alloc z).2, by simp [updLeaves, hx, Heap.alloc_fst], ?_⟩
        simp [overlayBlock, overlayHead, hsing, canon, Tree.erase]
      | cons b bs =>
        cases bs with
        | nil =>
          obtain ⟨id, rfl⟩ := erase_eq_leaf (by simpa [canon] using ht)
          refine ⟨.leaf h.next x, (h.alloc z).2, by simp [updLeaves, hx, Heap.alloc_fst], ?_⟩
          simp [overlayBlock, overlayHead, hx, canon, Tree.erase,
            UMap.range_empty_of_le m (k + 1) (k + 1) (Nat.le_refl _)]
        | cons b' bs' => simp at hB
    | some p =>
      simp only [lcap, Option.getD_some] at *
      have hpa := packedApply_range m hm p pfx ha B hB hadm
      have hne := overlayBlock_ne_nil B m pfx p has
      have hcanon : canon (some p) 0 (overlayBlock B m pfx p) = .packed (overlayBlock B m pfx p) := by
        cases ho : overlayBlock B m pfx p with
        | nil => exact absurd ho hne
        | cons a as => simp [canon]
      cases B with
      | nil =>
        obtain ⟨id, rfl⟩ := erase_eq_zero (by simpa [canon] using ht)
        refine ⟨.packed h.next (overlayBlock [] m pfx p), (h.alloc z).2, ?_, ?_⟩
        · simp only [updLeaves, if_true, hpa, Heap.alloc_fst]
        · rw [hcanon]; rfl
      | cons b bs =>
        obtain ⟨id, rfl⟩ := erase_eq_packed (by simpa [canon] using ht)
        refine ⟨.packed h.next (overlayBlock (b :: bs) m pfx p), (h.alloc z).2, ?_, ?_⟩
        · simp only [updLeaves, Option.getD_some, hpa, Heap.alloc_fst]
        · rw [hcanon]; rfl
  | succ d ih =>
    intro h t pfx B ha ht hB has hadm
    rw [cap_succ, Nat.two_mul] at hB has hadm ⊢
    cases B with
    | nil =>
      obtain ⟨id, rfl⟩ := erase_eq_zero (by simpa [canon] using ht)
      rw [updLeaves_zero_succ, aligned_or pf hpf d pfx ha, aligned_end pf hpf d pfx]
      exact nodeBody_canon pf hpf z m hm d ih _ _ _ pfx [] ha
        (by simp [Tree.erase, canon_nil]) (by simp [Tree.erase, canon_nil]) hB has hadm
    | cons b bs =>
      rw [canon_succ_cons] at ht
      obtain ⟨id, l, r, rfl, hl, hr⟩ := erase_eq_node ht
      rw [updLeaves_node, aligned_or pf hpf d pfx ha, aligned_end pf hpf d pfx]
      exact nodeBody_canon pf hpf z m hm d ih _ _ _ pfx (b :: bs) ha hl hr hB has hadm

/-! ## frame: heap extension, fresh nodes -/

/-- `h'` extends `h` by allocations with memo `z` only: old memos untouched, everything from
`h.next` on reads `z`. -/
def Heap.Ext (z : H) (h h' : Heap H) : Prop :=
  h.next ≤ h'.next ∧ (∀ i, i < h.next → h'.read z i = h.read z i) ∧
    (∀ i, h.next ≤ i → h'.read z i = z)

theorem Heap.Ext.refl (z : H) (h : Heap H) : Heap.Ext z h h :=
  ⟨Nat.le_refl _, fun _ _ => rfl, fun i hi => Heap.read_fresh h z i hi⟩

theorem Heap.Ext.trans {z : H} {h h1 h2 : Heap H} (a : Heap.Ext z h h1) (b : Heap.Ext z h1 h2) :
    Heap.Ext z h h2 := by
  refine ⟨Nat.le_trans a.1 b.1, ?_, ?_⟩
  · intro i hi; rw [b.2.1 i (by have := a.1; omega), a.2.1 i hi]
  · intro i hi
    by_cases h1i : i < h1.next
    · rw [b.2.1 i h1i, a.2.2 i hi]
    · exact b.2.2 i (by omega)

theorem Heap.Ext.alloc (z : H) (h : Heap H) : Heap.Ext z h (h.alloc z).2 := by
  refine ⟨by rw [Heap.next_alloc]; omega, fun i hi => Heap.read_alloc_old h z z i hi, ?_⟩
  intro i hi
  by_cases e : i = h.next
  · subst e; exact Heap.read_alloc_new h z z
  · exact Heap.read_fresh _ z i (by rw [Heap.next_alloc]; omega)

/-- what `updLeaves` guarantees about identities and memos, whatever the tree and the map. -/
def Frame (z : H) (h : Heap H) (t t' : Tree T) (h' : Heap H) : Prop :=
  Heap.Ext z h h' ∧
  (∀ s ∈ t'.subtrees, s ∈ t.subtrees ∨ (h.next ≤ s.id ∧ s.id < h'.next)) ∧
  h.next ≤ t'.id ∧ t'.id < h'.next

theorem frame_alloc (z : H) (h : Heap H) (t t' : Tree T) (hs : t'.subtrees = [t'])
    (hid : t'.id = h.next) : Frame z h t t' (h.alloc z).2 := by
  refine ⟨Heap.Ext.alloc z h, ?_, by omega, by rw [Heap.next_alloc]; omega⟩
  intro s hs'
  rw [hs] at hs'
  simp only [List.mem_singleton] at hs'
  subst hs'
  right; rw [Heap.next_alloc]; omega

theorem optUpd_frame (pf : Option Nat) (z : H) (m : UMap T) (d : Nat)
    (ih : ∀ (h : Heap H) (t : Tree T) (pfx : Nat) (t' : Tree T) (h' : Heap H),
      updLeaves pf z m h t pfx d = .ok (t', h') → Frame z h t t' h')
    (b : Bool) (h : Heap H) (t : Tree T) (pfx : Nat) (t' : Tree T) (h' : Heap H)
    (he : optUpd pf z m b h t pfx d = .ok (t', h')) :
    Heap.Ext z h h' ∧
      (∀ s ∈ t'.subtrees, s ∈ t.subtrees ∨ (h.next ≤ s.id ∧ s.id < h'.next)) := by
  cases b with
  | true =>
    simp only [optUpd, if_true] at he
    have := ih h t pfx t' h' he
    exact ⟨this.1, this.2.1⟩
  | false =>
    simp only [optUpd, Bool.false_eq_true, if_false, Except.ok.injEq, Prod.mk.injEq] at he
    obtain ⟨rfl, rfl⟩ := he
    exact ⟨Heap.Ext.refl z _, fun s hs => Or.inl hs⟩

theorem nodeBody_frame (pf : Option Nat) (z : H) (m : UMap T) (d : Nat)
    (ih : ∀ (h : Heap H) (t : Tree T) (pfx : Nat) (t' : Tree T) (h' : Heap H),
      updLeaves pf z m h t pfx d = .ok (t', h') → Frame z h t t' h')
    (h : Heap H) (l r : Tree T) (pfx rp rend : Nat) (t' : Tree T) (h' : Heap H)
    (he : nodeBody pf z m h l r pfx rp rend d = .ok (t', h')) :
    Heap.Ext z h h' ∧
      (∀ s ∈ t'.subtrees, s ∈ l.subtrees ∨ s ∈ r.subtrees ∨ (h.next ≤ s.id ∧ s.id < h'.next)) ∧
      h.next ≤ t'.id ∧ t'.id < h'.next := by
  obtain ⟨l', h1, r', h2, _, hL, hR, rfl, rfl⟩ := (nodeBody_eq_ok_iff pf z m h l r pfx rp rend d _ _).1 he
  obtain ⟨eL, sL⟩ := optUpd_frame pf z m d ih _ h l pfx l' h1 hL
  obtain ⟨eR, sR⟩ := optUpd_frame pf z m d ih _ h1 r rp r' h2 hR
  have e2 := Heap.Ext.alloc z h2
  have n1 := eL.1
  have n2 := eR.1
  have n3 : (h2.alloc z).2.next = h2.next + 1 := Heap.next_alloc h2 z
  refine ⟨eL.trans (eR.trans e2), ?_, by simp only [Tree.id]; omega, by simp only [Tree.id]; omega⟩
  intro s hs
  simp only [Tree.subtrees, List.mem_cons, List.mem_append] at hs
  rcases hs with hs | hs | hs
  · subst hs; right; right; simp only [Tree.id]; omega
  · rcases sL s hs with h' | h'
    · left; exact h'
    · right; right; omega
  · rcases sR s hs with h' | h'
    · right; left; exact h'
    · right; right; omega

/-- **Frame** (C03/C10): `updLeaves` only allocates (old memos untouched, new memos `z`), and every
node of the result is a node of the input (same value, same id) or has a fresh id; the root is
always fresh. Holds for every tree, map and prefix. -/
theorem updLeaves_frame (pf : Option Nat) (z : H) (m : UMap T) :
    ∀ (d : Nat) (h : Heap H) (t : Tree T) (pfx : Nat) (t' : Tree T) (h' : Heap H),
      updLeaves pf z m h t pfx d = .ok (t', h') → Frame z h t t' h' := by
  intro d
  induction d with
  | zero =>
    intro h t pfx t' h' he
    cases t with
    | leaf id v =>
      simp only [updLeaves] at he
      split at he
      · simp only [Except.ok.injEq, Prod.mk.injEq] at he
        obtain ⟨rfl, rfl⟩ := he
        exact frame_alloc z h _ _ rfl rfl
      · cases he
    | packed id vs =>
      simp only [updLeaves] at he
      split at he
      · simp only [Except.ok.injEq, Prod.mk.injEq] at he
        obtain ⟨rfl, rfl⟩ := he
        exact frame_alloc z h _ _ rfl rfl
      · cases he
    | node id l r => simp [updLeaves] at he
    | zero id zd =>
      simp only [updLeaves] at he
      split at he
      · split at he
        · split at he
          · simp only [Except.ok.injEq, Prod.mk.injEq] at he
            obtain ⟨rfl, rfl⟩ := he
            exact frame_alloc z h _ _ rfl rfl
          · cases he
        · split at he
          · simp only [Except.ok.injEq, Prod.mk.injEq] at he
            obtain ⟨rfl, rfl⟩ := he
            exact frame_alloc z h _ _ rfl rfl
          · cases he
      · cases he
  | succ d ih =>
    intro h t pfx t' h' he
    cases t with
    | leaf id v => simp [updLeaves] at he
    | packed id vs => simp [updLeaves] at he
    | node id l r =>
      rw [updLeaves_node] at he
      obtain ⟨e, s, i1, i2⟩ := nodeBody_frame pf z m d ih h l r pfx _ _ t' h' he
      refine ⟨e, ?_, i1, i2⟩
      intro s' hs'
      rcases s s' hs' with h1 | h1 | h1
      · left; simp [Tree.subtrees, h1]
      · left; simp [Tree.subtrees, h1]
      · right; exact h1
    | zero id zd =>
      by_cases hz : zd = d + 1
      · subst hz
        rw [updLeaves_zero_succ] at he
        obtain ⟨e, s, i1, i2⟩ := nodeBody_frame pf z m d ih _ _ _ pfx _ _ t' h' he
        have ea := (Heap.Ext.alloc z h).trans (Heap.Ext.alloc z (h.alloc z).2)
        have n2 : ((h.alloc z).2.alloc z).2.next = h.next + 2 := by
          rw [Heap.next_alloc, Heap.next_alloc]
        refine ⟨ea.trans e, ?_, by omega, i2⟩
        intro s' hs'
        have hfresh : ∀ x ∈ (Tree.zero h.next d : Tree T).subtrees,
            h.next ≤ x.id ∧ x.id < h'.next := by
          intro x hx
          simp only [Tree.subtrees, List.mem_singleton] at hx
          subst hx; simp only [Tree.id]; omega
        rcases s s' hs' with h1 | h1 | h1
        · right; exact hfresh _ h1
        · right; exact hfresh _ h1
        · right; omega
      · simp [updLeaves, hz] at he

/-! ## frame: untouched subtrees are shared -/

/-- `SubAt pf t pfx d s sp sd`: the tree `t` (covering the block starting at `pfx`, depth `d`)
has `s` as its subtree at prefix `sp` and depth `sd`. -/
inductive SubAt (pf : Option Nat) : Tree T → Nat → Nat → Tree T → Nat → Nat → Prop
  | here (t : Tree T) (pfx d : Nat) : SubAt pf t pfx d t pfx d
  | left {id : Nat} {l r : Tree T} {pfx d : Nat} {s : Tree T} {sp sd : Nat} :
      SubAt pf l pfx d s sp sd → SubAt pf (.node id l r) pfx (d+1) s sp sd
  | right {id : Nat} {l r : Tree T} {pfx d : Nat} {s : Tree T} {sp sd : Nat} :
      SubAt pf r (pfx + cap pf d) d s sp sd → SubAt pf (.node id l r) pfx (d+1) s sp sd

/-- subtrees of `t` whose index range contains no key of `m` appear in the result at the same
position, unchanged (same `Tree` value, ids included). -/
theorem updLeaves_unchanged (pf : Option Nat) (hpf : PfOK pf) (z : H) (m : UMap T) :
    ∀ (d : Nat) (h : Heap H) (t : Tree T) (pfx : Nat) (t' : Tree T) (h' : Heap H),
      pfx % cap pf d = 0 → m.hasInRange pfx (pfx + cap pf d) = true →
      updLeaves pf z m h t pfx d = .ok (t', h') →
      ∀ (s : Tree T) (sp sd : Nat), SubAt pf t pfx d s sp sd →
        m.hasInRange sp (sp + cap pf sd) = false → SubAt pf t' pfx d s sp sd := by
  intro d
  induction d with
  | zero =>
    intro h t pfx t' h' _ has _ s sp sd hsub hno
    cases hsub
    rw [has] at hno; cases hno
  | succ d ih =>
    intro h t pfx t' h' ha has he s sp sd hsub hno
    cases hsub with
    | here => rw [has] at hno; cases hno
    | left hsub =>
      rw [updLeaves_node, aligned_or pf hpf d pfx ha, aligned_end pf hpf d pfx] at he
      obtain ⟨l', h1, r', h2, _, hL, hR, rfl, rfl⟩ := (nodeBody_eq_ok_iff _ _ _ _ _ _ _ _ _ _ _ _).1 he
      apply SubAt.left
      cases hasL : m.hasInRange pfx (pfx + cap pf d) with
      | true =>
        rw [hasL] at hL
        simp only [optUpd, if_true] at hL
        exact ih h _ pfx l' h1 (aligned_left pf d pfx ha) hasL hL s sp sd hsub hno
      | false =>
        rw [hasL] at hL
        simp only [optUpd, Bool.false_eq_true, if_false, Except.ok.injEq, Prod.mk.injEq] at hL
        rw [← hL.1]; exact hsub
    | right hsub =>
      rw [updLeaves_node, aligned_or pf hpf d pfx ha, aligned_end pf hpf d pfx] at he
      obtain ⟨l', h1, r', h2, _, hL, hR, rfl, rfl⟩ := (nodeBody_eq_ok_iff _ _ _ _ _ _ _ _ _ _ _ _).1 he
      apply SubAt.right
      cases hasR : m.hasInRange (pfx + cap pf d) (pfx + (cap pf d + cap pf d)) with
      | true =>
        rw [hasR] at hR
        simp only [optUpd, if_true] at hR
        exact ih h1 _ (pfx + cap pf d) r' h2 (aligned_right pf d pfx ha)
          (by rw [show pfx + cap pf d + cap pf d = pfx + (cap pf d + cap pf d) by omega]; exact hasR)
          hR s sp sd hsub hno
      | false =>
        rw [hasR] at hR
        simp only [optUpd, Bool.false_eq_true, if_false, Except.ok.injEq, Prod.mk.injEq] at hR
        rw [← hR.1]; exact hsub

/-! ## allocation bound -/

theorem updLeaves_depth0_heap (pf : Option Nat) (z : H) (m : UMap T) (h : Heap H) (t : Tree T)
    (pfx : Nat) (t' : Tree T) (h' : Heap H) (he : updLeaves pf z m h t pfx 0 = .ok (t', h')) :
    h' = (h.alloc z).2 := by
  cases t with
  | leaf id v =>
    simp only [updLeaves] at he
    split at he
    · simp only [Except.ok.injEq, Prod.mk.injEq] at he; exact he.2.symm
    · cases he
  | packed id vs =>
    simp only [updLeaves] at he
    split at he
    · simp only [Except.ok.injEq, Prod.mk.injEq] at he; exact he.2.symm
    · cases he
  | node id l r => simp [updLeaves] at he
  | zero id zd =>
    simp only [updLeaves] at he
    split at he
    · split at he
      · split at he
        · simp only [Except.ok.injEq, Prod.mk.injEq] at he; exact he.2.symm
        · cases he
      · split at he
        · simp only [Except.ok.injEq, Prod.mk.injEq] at he; exact he.2.symm
        · cases he
    · cases he

theorem range_length_pos (m : UMap T) (s e : Nat) (h : m.hasInRange s e = true) :
    1 ≤ (m.range s e).length := by
  rw [UMap.hasInRange_eq_true_iff_ne_nil] at h
  cases hr : m.range s e with
  | nil => exact absurd hr h
  | cons q rest => simp

/-- the allocation bound proved by induction on the depth. -/
def AllocSpec (pf : Option Nat) (z : H) (m : UMap T) (d : Nat) : Prop :=
  ∀ (h : Heap H) (t : Tree T) (pfx : Nat) (t' : Tree T) (h' : Heap H),
    pfx % cap pf d = 0 → m.hasInRange pfx (pfx + cap pf d) = true →
    updLeaves pf z m h t pfx d = .ok (t', h') →
    h'.next ≤ h.next + (m.range pfx (pfx + cap pf d)).length * (3 * d + 3)

theorem optUpd_alloc (pf : Option Nat) (z : H) (m : UMap T) (d : Nat) (ih : AllocSpec pf z m d)
    (h : Heap H) (t : Tree T) (pfx : Nat) (t' : Tree T) (h' : Heap H) (ha : pfx % cap pf d = 0)
    (he : optUpd pf z m (m.hasInRange pfx (pfx + cap pf d)) h t pfx d = .ok (t', h')) :
    h'.next ≤ h.next + (m.range pfx (pfx + cap pf d)).length * (3 * d + 3) := by
  cases has : m.hasInRange pfx (pfx + cap pf d) with
  | true =>
    rw [has] at he
    simp only [optUpd, if_true] at he
    exact ih h t pfx t' h' ha has he
  | false =>
    rw [has] at he
    simp only [optUpd, Bool.false_eq_true, if_false, Except.ok.injEq, Prod.mk.injEq] at he
    rw [← he.2]; omega

theorem nodeBody_alloc (pf : Option Nat) (z : H) (m : UMap T) (hm : m.WF) (d : Nat)
    (ih : AllocSpec pf z m d) (h : Heap H) (l r : Tree T) (pfx : Nat) (t' : Tree T) (h' : Heap H)
    (ha : pfx % cap pf (d+1) = 0)
    (he : nodeBody pf z m h l r pfx (pfx + cap pf d) (pfx + (cap pf d + cap pf d)) d
      = .ok (t', h')) :
    h'.next ≤ h.next + (m.range pfx (pfx + (cap pf d + cap pf d))).length * (3 * d + 3) + 1 := by
  obtain ⟨l', h1, r', h2, _, hL, hR, rfl, rfl⟩ := (nodeBody_eq_ok_iff _ _ _ _ _ _ _ _ _ _ _ _).1 he
  have bL := optUpd_alloc pf z m d ih h l pfx l' h1 (aligned_left pf d pfx ha) hL
  rw [show pfx + (cap pf d + cap pf d) = pfx + cap pf d + cap pf d by omega] at hR
  have bR := optUpd_alloc pf z m d ih h1 r (pfx + cap pf d) r' h2 (aligned_right pf d pfx ha) hR
  rw [Heap.next_alloc]
  rw [UMap.range_split m hm pfx (pfx + cap pf d) (pfx + (cap pf d + cap pf d)) (by omega)
    (by omega), List.length_append, Nat.add_mul]
  rw [show pfx + (cap pf d + cap pf d) = pfx + cap pf d + cap pf d by omega]
  omega

/-- **Allocation bound**: a flush of a block with `n ≥ 1` keys at depth `d` allocates at most
`n * (3 * d + 3)` nodes (`3` per level and key: the new node plus, when a zero subtree is split,
the shared zero child and the transient node). -/
theorem updLeaves_alloc_bound (pf : Option Nat) (hpf : PfOK pf) (z : H) (m : UMap T)
    (hm : m.WF) : ∀ d, AllocSpec (H := H) pf z m d := by
  intro d
  induction d with
  | zero =>
    intro h t pfx t' h' _ has he
    rw [updLeaves_depth0_heap pf z m h t pfx t' h' he, Heap.next_alloc]
    have := range_length_pos m _ _ has
    omega
  | succ d ih =>
    intro h t pfx t' h' ha has he
    have hpos := range_length_pos m _ _ has
    rw [cap_succ, Nat.two_mul] at has hpos ⊢
    have hmul : (m.range pfx (pfx + (cap pf d + cap pf d))).length * (3 * (d + 1) + 3) =
        (m.range pfx (pfx + (cap pf d + cap pf d))).length * (3 * d + 3) +
          3 * (m.range pfx (pfx + (cap pf d + cap pf d))).length := by
      rw [show 3 * (d + 1) + 3 = (3 * d + 3) + 3 by omega, Nat.mul_add]; omega
    cases t with
    | leaf id v => simp [updLeaves] at he
    | packed id vs => simp [updLeaves] at he
    | node id l r =>
      rw [updLeaves_node, aligned_or pf hpf d pfx ha, aligned_end pf hpf d pfx] at he
      have := nodeBody_alloc pf z m hm d ih h l r pfx t' h' ha he
      omega
    | zero id zd =>
      by_cases hz : zd = d + 1
      · subst hz
        rw [updLeaves_zero_succ, aligned_or pf hpf d pfx ha, aligned_end pf hpf d pfx] at he
        have := nodeBody_alloc pf z m hm d ih _ _ _ pfx t' h' ha he
        rw [Heap.next_alloc, Heap.next_alloc] at this
        omega
      · simp [updLeaves, hz] at he

/-! ## the error side -/

/-- a `Node` reached without any key in its block reports `NodeUpdatesMissing`. -/
theorem updLeaves_node_missing (pf : Option Nat) (hpf : PfOK pf) (z : H) (m : UMap T) (hm : m.WF)
    (h : Heap H) (id : Nat) (l r : Tree T) (pfx d : Nat) (ha : pfx % cap pf (d+1) = 0)
    (hno : m.hasInRange pfx (pfx + cap pf (d+1)) = false) :
    updLeaves pf z m h (.node id l r) pfx (d+1) = .error (.nodeUpdatesMissing pfx) := by
  rw [cap_succ, Nat.two_mul,
    hasInRange_split m hm pfx (pfx + cap pf d) _ (by omega) (by omega)] at hno
  rw [updLeaves_node, aligned_or pf hpf d pfx ha, aligned_end pf hpf d pfx]
  simp only [Bool.or_eq_false_iff] at hno
  simp [nodeBody, hno.1, hno.2]

/-! ## the root -/

/-- the whole-tree overlay is the fold of all entries. -/
theorem overlayBlock_root (m : UMap T) (hm : m.WF) (c : Nat) (xs : List T) (hlen : xs.length ≤ c)
    (hkeys : ∀ k v, (k, v) ∈ m.entries → k < c)
    (hgap : gapCheck xs.length (m.range xs.length c) = none) :
    overlayBlock xs m 0 c = applyEntries xs m.entries := by
  have hadm : Adm m 0 xs.length c := by simpa [Adm] using hgap
  rw [← applyOff_range m hm 0 c xs hlen hadm, applyEntries_eq_applyOff]
  rw [Nat.zero_add, UMap.range_all m c (fun q hq => hkeys q.1 q.2 hq)]

/-- **C01/C10 (tree level)**: for every admissible update map (all keys inside the tree, keys at
or beyond the current length extend it contiguously) the flush succeeds and produces the canonical
tree of the overlaid contents. -/
theorem updLeaves_root (pf : Option Nat) (hpf : PfOK pf) (z : H) (m : UMap T) (hm : m.WF)
    (d : Nat) (hd : d + pdOf pf ≤ 63) (h : Heap H) (t : Tree T) (xs : List T)
    (ht : t.erase = canon pf d xs) (hlen : xs.length ≤ cap pf d)
    (hne : m.isEmpty = false)
    (hkeys : ∀ k v, (k, v) ∈ m.entries → k < cap pf d)
    (hgap : Coll.gapCheck xs.length (m.range xs.length (cap pf d)) = none) :
    ∃ t' h', updLeaves pf z m h t 0 d = .ok (t', h') ∧
      t'.erase = canon pf d (applyEntries xs m.entries) ∧ h.next ≤ h'.next := by
  have _ := hd
  have has : m.hasInRange 0 (0 + cap pf d) = true := by
    obtain ⟨k, hk⟩ := (UMap.isEmpty_eq_false_iff m).1 hne
    obtain ⟨v, hv⟩ := (UMap.get_isSome_iff m k).1 hk
    exact (UMap.hasInRange_iff m _ _).2 ⟨k, by omega, by have := hkeys k v hv; omega, hk⟩
  have hadm : Adm m 0 xs.length (cap pf d) := by simpa [Adm] using hgap
  obtain ⟨t', h', he, ht'⟩ := updLeaves_block pf hpf z m hm d h t 0 xs (Nat.zero_mod _) ht hlen
    has hadm
  rw [overlayBlock_root m hm _ xs hlen hkeys hgap] at ht'
  exact ⟨t', h', he, ht', (updLeaves_frame pf z m d h t 0 t' h' he).1.1⟩

theorem gapCheck_getElem? (n : Nat) (es : List (Nat × T)) (h : gapCheck n es = none) :
    ∀ j q, es[j]? = some q → q.1 = n + j := by
  induction es generalizing n with
  | nil => intro j q hq; simp at hq
  | cons p rest ih =>
    have hk := gapCheck_head n p rest h
    obtain ⟨k, v⟩ := p
    simp only at hk
    subst hk
    simp only [gapCheck, if_true] at h
    intro j q hq
    cases j with
    | zero => simp at hq; subst hq; rfl
    | succ j =>
      simp only [List.getElem?_cons_succ] at hq
      have := ih (k+1) h j q hq
      omega

/-- **C10 (contents)**: reading the flushed contents is reading through the pending map first and
the old contents second — what `Interface::get` answered before the flush. -/
theorem getElem?_applyEntries (m : UMap T) (hm : m.WF) (c : Nat) (xs : List T)
    (hlen : xs.length ≤ c) (hkeys : ∀ k v, (k, v) ∈ m.entries → k < c)
    (hgap : gapCheck xs.length (m.range xs.length c) = none) (i : Nat) :
    (applyEntries xs m.entries)[i]? = (m.get i).or xs[i]? := by
  rw [← overlayBlock_root m hm c xs hlen hkeys hgap]
  unfold overlayBlock
  simp only [Nat.zero_add]
  by_cases hi : i < xs.length
  · rw [List.getElem?_append_left (by simpa using hi), getElem?_overlayHead,
      List.getElem?_eq_getElem hi, Nat.zero_add]
    cases m.get i <;> simp
  · rw [List.getElem?_append_right (by simpa using hi), length_overlayHead,
      List.getElem?_eq_none (l := xs) (by omega), Option.or_none, List.getElem?_map]
    cases hq : (m.range xs.length c)[i - xs.length]? with
    | some q =>
      have hk := gapCheck_getElem? _ _ hgap _ q hq
      have hmem : (q.1, q.2) ∈ m.range xs.length c := List.mem_of_getElem? hq
      have := ((UMap.mem_range_iff m hm _ _ _ _).1 hmem).1
      rw [show i = q.1 by omega, this]; rfl
    | none =>
      have hge : (m.range xs.length c).length ≤ i - xs.length := by
        rcases Nat.lt_or_ge (i - xs.length) (m.range xs.length c).length with hlt | hge
        · rw [List.getElem?_eq_getElem hlt] at hq; cases hq
        · exact hge
      cases hg : m.get i with
      | none => rfl
      | some v =>
        have hic : i < c := hkeys i v ((UMap.get_eq_some_iff m hm i v).1 hg)
        have hin : (i, v) ∈ m.range xs.length c :=
          (UMap.mem_range_iff m hm _ _ _ _).2 ⟨hg, by omega, hic⟩
        have := (gapCheck_bound _ _ hgap _ hin).2
        simp only at this
        omega

/-! ## the collection level: `Interface::apply_updates` on a list -/

theorem range_upper_congr (m : UMap T) (s e1 e2 : Nat) (h : ∀ q ∈ m.entries, q.1 < e1)
    (h12 : e1 ≤ e2) : m.range s e1 = m.range s e2 := by
  rw [UMap.range_def, UMap.range_def]
  apply List.filter_congr
  intro q hq
  have := h q hq
  have h2 : q.1 < e2 := by omega
  simp [this, h2]

/-- the new cached length `max (max_index + 1) length` is the length of the overlaid contents. -/
theorem length_applyEntries (m : UMap T) (hm : m.WF) (hx : m.MaxExact) (c : Nat) (xs : List T)
    (hlen : xs.length ≤ c) (hkeys : ∀ k v, (k, v) ∈ m.entries → k < c)
    (hgap : gapCheck xs.length (m.range xs.length c) = none) (mx : Nat)
    (hmx : m.maxIndex = some mx) :
    (applyEntries xs m.entries).length = max (mx + 1) xs.length := by
  rw [← overlayBlock_root m hm c xs hlen hkeys hgap, length_overlayBlock]
  simp only [Nat.zero_add]
  obtain ⟨hsome, hub⟩ := (UMap.maxIndex_eq_some_iff m hm hx mx).1 hmx
  obtain ⟨v, hv⟩ := Option.isSome_iff_exists.1 hsome
  have hmxc : mx < c := hkeys mx v ((UMap.get_eq_some_iff m hm mx v).1 hv)
  have hbound := gapCheck_bound _ _ hgap
  have hmem := gapCheck_mem _ _ hgap
  by_cases hlt : mx < xs.length
  · -- no key beyond the old contents
    cases hr : m.range xs.length c with
    | nil => simp; omega
    | cons q rest =>
      have hq : q ∈ m.range xs.length c := by rw [hr]; simp
      have hb := UMap.mem_range_bounds m _ _ q hq
      have : (q.1, q.2) ∈ m.range xs.length c := hq
      rw [UMap.mem_range_iff m hm] at this
      have := hub q.1 (by simp [this.1])
      omega
  · have hin : (mx, v) ∈ m.range xs.length c :=
      (UMap.mem_range_iff m hm _ _ _ _).2 ⟨hv, by omega, hmxc⟩
    have h1 := (hbound _ hin).2
    simp only at h1
    obtain ⟨w, hw⟩ := hmem (xs.length + (m.range xs.length c).length - 1) (by omega) (by omega)
    have h2 := hub _ (by rw [((UMap.mem_range_iff m hm _ _ _ _).1 hw).1]; rfl)
    omega

/-- **C01** (`apply_updates` on a list): with a canonical backing tree for `xs`, a non-empty,
well-formed update map all of whose keys are `< N` and extend `xs` contiguously, the flush
succeeds, the new tree is the canonical tree of the overlaid contents, the cached length is its
length, and the pending map is empty again. For `MaxMap` the hypothesis `MaxExact` (trivial for
the other two kinds) is needed: `max_index` must be the true largest key. -/
theorem C01_flush_canonical (pf : Option Nat) (hpf : PfOK pf) (z : H) (cfg : Cfg) (c : Coll T)
    (h : Heap H) (xs : List T)
    (hkind : c.kind = .list) (ht : c.tree.erase = canon pf c.depth xs)
    (hlen : c.length = xs.length) (hdepth : c.depth = listDepth pf cfg.N)
    (hd : c.depth + pdOf pf ≤ 63) (hxs : xs.length ≤ cfg.N) (hN : cfg.N ≤ cap pf c.depth)
    (hne : c.updates.isEmpty = false) (hwf : c.updates.WF) (hmax : c.updates.MaxExact)
    (hkeys : ∀ k v, (k, v) ∈ c.updates.entries → k < cfg.N)
    (hgap : Coll.gapCheck xs.length (c.updates.range xs.length cfg.N) = none) :
    ∃ c' h', Coll.applyUpdates pf z cfg c h = (.ok (), c', h') ∧
      c'.tree.erase = canon pf c.depth (applyEntries xs c.updates.entries) ∧
      c'.length = (applyEntries xs c.updates.entries).length ∧
      c'.updates = UMap.empty cfg.map ∧ c'.kind = .list ∧ c'.depth = c.depth ∧
      h.next ≤ h'.next := by
  have _ := hdepth
  have hkeys' : ∀ k v, (k, v) ∈ c.updates.entries → k < cap pf c.depth :=
    fun k v hkv => Nat.lt_of_lt_of_le (hkeys k v hkv) hN
  have hgap' : Coll.gapCheck xs.length (c.updates.range xs.length (cap pf c.depth)) = none := by
    rw [← range_upper_congr c.updates xs.length cfg.N _ (fun q hq => hkeys q.1 q.2 hq) hN]
    exact hgap
  obtain ⟨t', h', he, ht', hn⟩ := updLeaves_root pf hpf z c.updates hwf c.depth hd h c.tree xs ht
    (Nat.le_trans hxs hN) hne hkeys' hgap'
  cases hmi : c.updates.maxIndex with
  | none =>
    rw [UMap.maxIndex_eq_none_iff, hne] at hmi; cases hmi
  | some mx =>
    have hl := length_applyEntries c.updates hwf hmax _ xs (Nat.le_trans hxs hN) hkeys' hgap' mx hmi
    obtain ⟨hsome, _⟩ := (UMap.maxIndex_eq_some_iff _ hwf hmax mx).1 hmi
    obtain ⟨v, hv⟩ := Option.isSome_iff_exists.1 hsome
    have hmxN : mx < cfg.N := hkeys mx v ((UMap.get_eq_some_iff _ hwf mx v).1 hv)
    refine ⟨{ c with updates := UMap.empty cfg.map, length := max (mx + 1) c.length, tree := t' },
      h', ?_, ht', ?_, rfl, hkind, rfl, hn⟩
    · simp only [Coll.applyUpdates, hne, Bool.false_eq_true, if_false, Coll.backingUpdate, hmi,
        hkind, ge_iff_le, Nat.not_le.2 hmxN, he]
    · simp only [hl, hlen]

/-! ## non-vacuity: the hypotheses of the main theorems on concrete inputs -/

namespace UpdLeavesExample

theorem exPfOK_four : PfOK (some 4) := by
  intro p hp; cases hp; exact ⟨2, by decide, rfl⟩

theorem exPfOK_none : PfOK none := by intro p hp; cases hp

/-- packed `u64`-like elements (4 per leaf), depth 1: five elements, one overwrite and two
appends spilling into the second leaf. -/
def exTree : Tree Nat := .node 0 (.packed 1 [1, 2, 3, 4]) (.packed 2 [5])
def exMap : UMap Nat := .btree [(1, 20), (5, 60), (6, 70)]
def exHeap : Heap Nat := ⟨#[0, 0, 0]⟩

example : applyEntries [1, 2, 3, 4, 5] exMap.entries = [1, 20, 3, 4, 5, 60, 70] := by decide

example : ∃ t' h', updLeaves (some 4) 0 exMap exHeap exTree 0 1 = .ok (t', h') ∧
    t'.erase = canon (some 4) 1 (applyEntries [1, 2, 3, 4, 5] exMap.entries) ∧
    exHeap.next ≤ h'.next :=
  updLeaves_root (some 4) exPfOK_four 0 exMap (by simp [exMap, UMap.WF, KeysAsc]) 1 (by decide)
    exHeap exTree [1, 2, 3, 4, 5] (by decide) (by decide) (by decide)
    (by intro k v hkv; simp [exMap, UMap.entries] at hkv; have : cap (some 4) 1 = 8 := by decide
        omega)
    (by decide)

/-- the same run, evaluated: the model really returns that tree (3 allocations). -/
example : updLeaves (some 4) 0 exMap exHeap exTree 0 1 =
    .ok (.node 5 (.packed 3 [1, 20, 3, 4]) (.packed 4 [5, 60, 70]), ⟨#[0, 0, 0, 0, 0, 0]⟩) := by
  rfl

/-- unpacked elements, a `VecMap`, depth 2 with zero subtrees that get split. -/
def exTree2 : Tree Nat := .node 0 (.node 1 (.leaf 2 1) (.zero 3 0)) (.zero 4 1)
def exMap2 : UMap Nat := .vec [none, some 5, some 6]

example : ∃ t' h', updLeaves none 0 exMap2 exHeap exTree2 0 2 = .ok (t', h') ∧
    t'.erase = canon none 2 (applyEntries [1] exMap2.entries) ∧ exHeap.next ≤ h'.next :=
  updLeaves_root none exPfOK_none 0 exMap2 trivial 2 (by decide)
    exHeap exTree2 [1] (by decide) (by decide) (by decide)
    (by intro k v hkv; have : cap none 2 = 4 := by decide
        simp [exMap2, UMap.entries, vecEntriesFrom] at hkv; omega)
    (by decide)

/-- `BlockSpec` at a non-zero prefix: the block `[2, 4)` of a depth-1 subtree. -/
example : ∃ t' h', updLeaves none 0 (.btree [(3, 9)]) exHeap
      (.node 0 (.leaf 1 7) (.zero 2 0)) 2 1 = .ok (t', h') ∧
    t'.erase = canon none 1 (overlayBlock [7] (.btree [(3, 9)]) 2 (cap none 1)) :=
  updLeaves_block none exPfOK_none 0 (.btree [(3, 9)]) (by simp [UMap.WF, KeysAsc]) 1 exHeap
    (.node 0 (.leaf 1 7) (.zero 2 0)) 2 [7] (by decide) (by decide) (by decide) (by decide)
    (by unfold Adm; decide)

/-- `updLeaves_unchanged` / `updLeaves_frame` / `updLeaves_alloc_bound`: the untouched left leaf of
the previous example is shared. -/
example : ∀ t' h', updLeaves none (0 : Nat) (.btree [(3, 9)]) exHeap
      (.node 0 (.leaf 1 7) (.zero 2 0)) 2 1 = .ok (t', h') →
    SubAt none t' 2 1 (.leaf 1 7) 2 0 ∧ Frame 0 exHeap (.node 0 (.leaf 1 7) (.zero 2 0)) t' h' ∧
    h'.next ≤ exHeap.next + 1 * (3 * 1 + 3) := by
  intro t' h' he
  refine ⟨updLeaves_unchanged none exPfOK_none 0 _ 1 exHeap _ 2 t' h' (by decide) (by decide) he
      (.leaf 1 7) 2 0 (SubAt.left (SubAt.here _ _ _)) (by decide),
    updLeaves_frame none 0 _ 1 exHeap _ 2 t' h' he, ?_⟩
  exact updLeaves_alloc_bound none exPfOK_none 0 _ (by simp [UMap.WF, KeysAsc]) 1 exHeap _ 2 t' h'
    (by decide) (by decide) he

/-- C01 on a concrete `List<u64-like, 8>` with a `MaxMap` holding one overwrite and two pushes. -/
def exColl : Coll Nat :=
  ⟨.list, exTree, 5, 1, ((((UMap.empty .maxvec).insert 5 60).insert 6 70).insertEntry 1 20)⟩

example : ∃ c' h', Coll.applyUpdates (some 4) 0 ⟨8, .maxvec⟩ exColl exHeap = (.ok (), c', h') ∧
    c'.tree.erase = canon (some 4) exColl.depth (applyEntries [1, 2, 3, 4, 5] exColl.updates.entries) ∧
    c'.length = (applyEntries [1, 2, 3, 4, 5] exColl.updates.entries).length ∧
    c'.updates = UMap.empty .maxvec ∧ c'.kind = .list ∧ c'.depth = exColl.depth ∧
    exHeap.next ≤ h'.next :=
  C01_flush_canonical (some 4) exPfOK_four 0 ⟨8, .maxvec⟩ exColl exHeap [1, 2, 3, 4, 5]
    rfl (by decide) rfl (by decide) (by decide) (by decide) (by decide) (by decide) trivial
    (UMap.MaxExact_insertEntry _ (UMap.MaxExact_insert _ (UMap.MaxExact_insert _
      (UMap.MaxExact_empty .maxvec) 5 60) 6 70) 1 20 (by intro v mk e; cases e; decide))
    (by intro k v hkv
        have e : exColl.updates.entries = [(1, 20), (5, 60), (6, 70)] := by decide
        rw [e] at hkv; simp at hkv; show k < 8; omega)
    (by decide)

end UpdLeavesExample

end Milhouse
