import Milhouse.Proofs.World
import Milhouse.Proofs.Registry
/-!
# The multi-handle whole-history refinement, closed

`World.lean` proves the refinement of a family of handles sharing one heap against plain
sequences under a structure `RegFacts` of registry-preservation hypotheses (it could not import
`Registry.lean`, which was written in parallel). This file discharges `RegFacts` with the theorems
of `Registry.lean` and restates the headline results without that hypothesis: what remains are
`CfgOK` (1 ≤ N ≤ 2^63, packing factor a power of two ≤ 32) and the hash assumptions
`CollisionFree`, `NoZeroNode` (needed only because the operation language contains `rebase` and
`intra`).
-/
set_option linter.unusedSectionVars false

namespace Milhouse
variable {T H : Type} [DecidableEq T] [DecidableEq H]
variable {E : Elem T H} {A : HashAlg H} {mixIn : H → Nat → H} {cfg : Cfg}

/-- every allocating operation keeps the registry / memo-store invariant (`Registry.lean`). -/
theorem regFacts_holds (E : Elem T H) (A : HashAlg H) (cfg : Cfg) : RegFacts E A cfg :=
  ⟨fun f h c r c' h' hok hc he => applyUpdates_reg E A E.pf cfg c c' f h h' r hok hc he,
   fun f h c n r c' h' hok hc he => popFront_reg E A E.pf cfg c c' n f h h' r hok hc he,
   fun f h xs c' h' hok he => tryFromIter_reg E A E.pf cfg xs f h h' c' hok he,
   fun f h x n c' h' hok he => repeat_reg E A E.pf cfg x n f h h' c' hok he⟩

/-- **Whole-history refinement, several handles, one shared memo store.** For EVERY finite list
of operations (construct, clone, write / push / bulk-update / flush / read on any handle,
`pop_front`, List ↔ Vector conversion, `rebase_on`, `intra_rebase`, root, equality of flushed
handles) the outputs of the model equal the outputs of independent plain sequences, and the world
invariant (one registry, valid memos, every handle canonical) holds at the end. -/
theorem world_refines (K : CfgOK E.pf cfg) (hcf : CollisionFree E A) (nz : NoZeroNode A)
    (ops : List (WOp T)) :
    (wrun E A mixIn cfg MWorld.empty ops).1 = (wsrun E A mixIn cfg.N [] ops).1 ∧
      WInv E A cfg (wrun E A mixIn cfg MWorld.empty ops).2 (wsrun E A mixIn cfg.N [] ops).2 :=
  wrun_refines K hcf nz (regFacts_holds E A cfg) ops

/-- **C03.** Two histories that differ only by inserted / removed root computations (on any
handle, at any positions) agree on all their other outputs. -/
theorem C03_roots_invisible_closed (K : CfgOK E.pf cfg) (hcf : CollisionFree E A)
    (nz : NoZeroNode A) (ops1 ops2 : List (WOp T)) (h : stripRoots ops1 = stripRoots ops2) :
    nonRootOuts ops1 (wrun E A mixIn cfg MWorld.empty ops1).1 =
      nonRootOuts ops2 (wrun E A mixIn cfg MWorld.empty ops2).1 :=
  C03_roots_invisible_two K hcf nz (regFacts_holds E A cfg) ops1 ops2 h

/-- **C03.** After every history, every memoised hash of every node reachable from every live
handle is absent or the true Merkle hash of the subtree it labels. -/
theorem C03_no_stale_memo_closed (K : CfgOK E.pf cfg) (hcf : CollisionFree E A)
    (nz : NoZeroNode A) (ops : List (WOp T)) :
    ∀ c ∈ (wrun E A mixIn cfg MWorld.empty ops).2.colls, ∀ s ∈ c.tree.subtrees,
      (wrun E A mixIn cfg MWorld.empty ops).2.heap.read A.zero s.id = A.zero ∨
      (wrun E A mixIn cfg MWorld.empty ops).2.heap.read A.zero s.id = trueHash E A s :=
  C03_memos_valid_always K hcf nz (regFacts_holds E A cfg) ops

/-- **C04.** An operation `o` never changes what any later observation `r` shows through handles
that `o` does not write (handles existing before `o`). -/
theorem C04_isolation_closed (K : CfgOK E.pf cfg) (hcf : CollisionFree E A) (nz : NoZeroNode A)
    (ops : List (WOp T)) (o r : WOp T)
    (hr : ∀ k ∈ r.handles, k < (wrun E A mixIn cfg MWorld.empty ops).2.colls.length ∧
      o.writes ≠ some k) :
    (wstep E A mixIn cfg (wrun E A mixIn cfg MWorld.empty (ops ++ [o])).2 r).1 =
      (wstep E A mixIn cfg (wrun E A mixIn cfg MWorld.empty ops).2 r).1 :=
  C04_isolation K hcf nz (regFacts_holds E A cfg) ops o r hr

/-- **C07.** Inserting `rebase i j` anywhere in any history changes no other output, and the
rebase itself succeeds (or the handles do not exist / have different kinds). -/
theorem C07_history_closed (K : CfgOK E.pf cfg) (hcf : CollisionFree E A) (nz : NoZeroNode A)
    (pre post : List (WOp T)) (i j : Nat) :
    (wrun E A mixIn cfg MWorld.empty (pre ++ .rebase i j :: post)).1.eraseIdx pre.length =
        (wrun E A mixIn cfg MWorld.empty (pre ++ post)).1 ∧
      ((wstep E A mixIn cfg (wrun E A mixIn cfg MWorld.empty pre).2 (.rebase i j)).1 = .out .ok ∨
       (wstep E A mixIn cfg (wrun E A mixIn cfg MWorld.empty pre).2 (.rebase i j)).1 =
          .out .unsupported) :=
  C07_history K hcf nz (regFacts_holds E A cfg) pre post i j

/-- **C09.** In any history `intra i` behaves exactly like a plain flush of handle `i` (every
output, its own included, is the same), and it succeeds on every existing handle. -/
theorem C09_history_closed (K : CfgOK E.pf cfg) (hcf : CollisionFree E A) (nz : NoZeroNode A)
    (pre post : List (WOp T)) (i : Nat) :
    (wrun E A mixIn cfg MWorld.empty (pre ++ .intra i :: post)).1 =
        (wrun E A mixIn cfg MWorld.empty (pre ++ .on i .apply :: post)).1 ∧
      (i < (wrun E A mixIn cfg MWorld.empty pre).2.colls.length →
        (wstep E A mixIn cfg (wrun E A mixIn cfg MWorld.empty pre).2 (.intra i)).1 = .out .ok) :=
  C09_history K hcf nz (regFacts_holds E A cfg) pre post i

/-- **C02.** After any history, the root of a handle without pending writes is the SSZ
`hash_tree_root` of the plain contents the history produces — it depends on nothing else. -/
theorem C02_history_closed (K : CfgOK E.pf cfg) (hcf : CollisionFree E A) (nz : NoZeroNode A)
    (ops : List (WOp T)) (i : Nat) (k : CKind) (xs : List T)
    (h : (wsrun E A mixIn cfg.N [] ops).2[i]? = some (k, xs, false)) :
    (wstep E A mixIn cfg (wrun E A mixIn cfg MWorld.empty ops).2 (.root i)).1 =
      .hash (specRoot E A mixIn cfg.N k xs) :=
  C02_history K hcf nz (regFacts_holds E A cfg) ops i k xs h

end Milhouse
