import Milhouse.Proofs.UpdLeaves
import Milhouse.Proofs.Merkle
import Milhouse.Proofs.Registry
import Milhouse.Proofs.ConcFinal
import Milhouse.Proofs.Size
/-!
# C10, cost clause: after a flush the next root computation rehashes only the rewritten paths

* 1. `treeHashC` — `treeHash` (Model/Rebase.lean) with a counter of hash evaluations (one
  `leafHash` / `packHash` / `h2` per node whose memo is absent when visited; a memo hit and a `Zero`
  node cost nothing). `treeHashC_fst`: `(treeHashC E A h t).1 = treeHash E A h t`.
* 2. `treeHash_changes` (a changed memo belongs to a memo-carrying subtree),
  `Registered.id_not_below`, `treeHash_absent_mono`, `treeHash_children_keep`.
* 3. `treeHashC_le_absent_occ` — cost ≤ number of *occurrences* of absent-memo subtrees (no
  hypothesis on hash values). `treeHashC_potential`, `treeHashC_le_of_nodup`,
  `treeHashC_le_absent` (= `treeHashC_le_absentIds`) — cost ≤ number of *distinct* absent memos,
  under the explicit hypothesis `hnz` that the true hashes of the absent-memo subtrees are not the
  all-zero word; `treeHashC_zero_hash_counterexample` shows `hnz` cannot be dropped.
  `treeHashC_memoised_zero`, `treeHashC_second_zero`.
* 4. `updLeaves_fresh` — each fresh memo-carrying node occurs once in the flushed tree.
* 5. `C10_rehash_le_allocated`, **`C10_rehash_only_rewritten`**, `C10_rehash_only_rewritten_root`,
  `C10_applyUpdates_rehash` (collection level).
* 6. `MemoClosed`, `treeHash_memoises_all`, `C10_cycle_memoised`: the hypothesis "every
  memo-carrying node memoised" is established by a root computation and re-established by each
  flush + root computation.
* 7. examples.
-/

namespace Milhouse
variable {T H : Type}

/-! ## 1. the counting twin of `treeHash` -/

/-- `treeHash` with a cost counter: the second component is the number of hash evaluations
performed (`leafHash` / `packHash` / `h2`), one per node whose memo was absent when visited. A memo
hit and a `Zero` node cost nothing. -/
def treeHashC [DecidableEq H] (E : Elem T H) (A : HashAlg H) :
    Heap H → Tree T → (H × Heap H) × Nat
  | h, .leaf id v =>
    let existing := h.read A.zero id
    if existing ≠ A.zero then ((existing, h), 0)
    else let x := E.leafHash v; ((x, h.write id x), 1)
  | h, .packed id vs =>
    let existing := h.read A.zero id
    if existing ≠ A.zero then ((existing, h), 0)
    else let x := E.packHash vs; ((x, h.write id x), 1)
  | h, .zero _ d => ((zeroHash A d, h), 0)
  | h, .node id l r =>
    let existing := h.read A.zero id
    if existing ≠ A.zero then ((existing, h), 0)
    else
      let ((lh, h), cl) := treeHashC E A h l
      let ((rh, h), cr) := treeHashC E A h r
      let x := A.h2 lh rh
      ((x, h.write id x), cl + cr + 1)

/-- **the counter is an erasable annotation.** -/
theorem treeHashC_fst [DecidableEq H] (E : Elem T H) (A : HashAlg H) (t : Tree T) :
    ∀ h : Heap H, (treeHashC E A h t).1 = treeHash E A h t := by
  induction t with
  | leaf id v => intro h; simp only [treeHashC, treeHash]; split <;> rfl
  | packed id vs => intro h; simp only [treeHashC, treeHash]; split <;> rfl
  | zero id d => intro h; rfl
  | node id l r ihl ihr =>
    intro h
    simp only [treeHashC, treeHash]
    split
    · rfl
    · rw [← ihl h, ← ihr (treeHashC E A h l).1.2]

theorem treeHashC_hit [DecidableEq H] (E : Elem T H) (A : HashAlg H) (h : Heap H) (t : Tree T)
    (hm : t.hasMemo = true → h.read A.zero t.id ≠ A.zero) :
    (treeHashC E A h t).2 = 0 ∧ (treeHash E A h t).2 = h := by
  cases t with
  | zero id d => exact ⟨rfl, rfl⟩
  | leaf id v =>
    have := hm rfl
    simp only [Tree.id] at this
    simp only [treeHashC, treeHash]
    rw [if_pos this, if_pos this]; exact ⟨rfl, rfl⟩
  | packed id vs =>
    have := hm rfl
    simp only [Tree.id] at this
    simp only [treeHashC, treeHash]
    rw [if_pos this, if_pos this]; exact ⟨rfl, rfl⟩
  | node id l r =>
    have := hm rfl
    simp only [Tree.id] at this
    simp only [treeHashC, treeHash]
    rw [if_pos this, if_pos this]; exact ⟨rfl, rfl⟩

theorem treeHashC_node_miss [DecidableEq H] (E : Elem T H) (A : HashAlg H) (h : Heap H)
    (id : Nat) (l r : Tree T) (hz : h.read A.zero id = A.zero) :
    (treeHashC E A h (.node id l r)).2 =
      (treeHashC E A h l).2 + (treeHashC E A (treeHash E A h l).2 r).2 + 1 := by
  simp only [treeHashC, hz, ne_eq, not_true_eq_false, if_false]
  rw [← treeHashC_fst]

theorem treeHash_node_miss [DecidableEq H] (E : Elem T H) (A : HashAlg H) (h : Heap H)
    (id : Nat) (l r : Tree T) (hz : h.read A.zero id = A.zero) :
    treeHash E A h (.node id l r) =
      (A.h2 (treeHash E A h l).1 (treeHash E A (treeHash E A h l).2 r).1,
        (treeHash E A (treeHash E A h l).2 r).2.write id
          (A.h2 (treeHash E A h l).1 (treeHash E A (treeHash E A h l).2 r).1)) := by
  simp only [treeHash, hz, ne_eq, not_true_eq_false, if_false]

/-! ## 2. what a root computation writes -/

/-- purely structural: a memo that differs after `treeHash` belongs to a memo-carrying subtree. -/
theorem treeHash_changes [DecidableEq H] (E : Elem T H) (A : HashAlg H) (t : Tree T) :
    ∀ (h : Heap H) (i : Nat), (treeHash E A h t).2.read A.zero i ≠ h.read A.zero i →
      ∃ s ∈ t.subtrees, s.hasMemo = true ∧ s.id = i := by
  induction t with
  | leaf id v =>
    intro h i hne
    simp only [treeHash] at hne
    split at hne
    · exact absurd rfl hne
    · by_cases e : id = i
      · exact ⟨_, Tree.self_mem_subtrees _, rfl, e⟩
      · rw [Heap.read_write_other _ _ _ _ _ e] at hne; exact absurd rfl hne
  | packed id vs =>
    intro h i hne
    simp only [treeHash] at hne
    split at hne
    · exact absurd rfl hne
    · by_cases e : id = i
      · exact ⟨_, Tree.self_mem_subtrees _, rfl, e⟩
      · rw [Heap.read_write_other _ _ _ _ _ e] at hne; exact absurd rfl hne
  | zero id d => intro h i hne; exact absurd rfl hne
  | node id l r ihl ihr =>
    intro h i hne
    by_cases hz : h.read A.zero id = A.zero
    · rw [treeHash_node_miss E A h id l r hz] at hne
      by_cases e : id = i
      · exact ⟨_, Tree.self_mem_subtrees _, rfl, e⟩
      · rw [Heap.read_write_other _ _ _ _ _ e] at hne
        by_cases e1 : (treeHash E A h l).2.read A.zero i = h.read A.zero i
        · rw [← e1] at hne
          obtain ⟨s, hs, hm, hi⟩ := ihr _ i hne
          exact ⟨s, by simp [Tree.subtrees, hs], hm, hi⟩
        · obtain ⟨s, hs, hm, hi⟩ := ihl _ i e1
          exact ⟨s, by simp [Tree.subtrees, hs], hm, hi⟩
    · have := (treeHashC_hit E A h (.node id l r) (fun _ => hz)).2
      rw [this] at hne; exact absurd rfl hne

theorem Tree.size_le_of_mem_subtrees {s t : Tree T} (hs : s ∈ t.subtrees) : s.size ≤ t.size := by
  induction t with
  | node id l r ihl ihr =>
    simp only [Tree.subtrees, List.mem_cons, List.mem_append] at hs
    rcases hs with rfl | hs | hs
    · exact Nat.le_refl _
    · have := ihl hs; simp only [Tree.size]; omega
    · have := ihr hs; simp only [Tree.size]; omega
  | leaf id v => simp only [Tree.subtrees, List.mem_singleton] at hs; subst hs; exact Nat.le_refl _
  | packed id vs => simp only [Tree.subtrees, List.mem_singleton] at hs; subst hs; exact Nat.le_refl _
  | zero id d => simp only [Tree.subtrees, List.mem_singleton] at hs; subst hs; exact Nat.le_refl _

/-- in a registered tree the identity of a node does not occur strictly below it. -/
theorem Registered.id_not_below {f : Registry T} {id : Nat} {l r : Tree T}
    (hr : Registered f (.node id l r)) {s : Tree T}
    (hs : s ∈ l.subtrees ∨ s ∈ r.subtrees) : s.id ≠ id := by
  intro e
  have h1 : f s.id = some s := hr s (by
    simp only [Tree.subtrees, List.mem_cons, List.mem_append]; exact Or.inr hs)
  have h2 : f id = some (.node id l r) := hr.self
  rw [e, h2] at h1
  cases h1
  rcases hs with hs | hs
  · have := Tree.size_le_of_mem_subtrees hs; simp only [Tree.size] at this; omega
  · have := Tree.size_le_of_mem_subtrees hs; simp only [Tree.size] at this; omega

/-- memos only go from absent to present. -/
theorem treeHash_absent_mono [DecidableEq H] (E : Elem T H) (A : HashAlg H) (f : Registry T)
    (t : Tree T) (h : Heap H) (hok : HeapOK E A f h) (hreg : Registered f t) (i : Nat)
    (hz : (treeHash E A h t).2.read A.zero i = A.zero) : h.read A.zero i = A.zero := by
  rcases treeHash_frame E A f t h hok hreg i with e | ⟨e, _⟩
  · rw [← e]; exact hz
  · exact e

/-- while the children of a node are hashed the memo of the node itself is not touched. -/
theorem treeHash_children_keep [DecidableEq H] (E : Elem T H) (A : HashAlg H) (f : Registry T)
    (h : Heap H) (id : Nat) (l r : Tree T) (hreg : Registered f (.node id l r)) :
    (treeHash E A (treeHash E A h l).2 r).2.read A.zero id = h.read A.zero id := by
  have a : (treeHash E A h l).2.read A.zero id = h.read A.zero id := by
    apply Classical.byContradiction; intro hne
    obtain ⟨s, hs, _, hi⟩ := treeHash_changes E A l h id hne
    exact hreg.id_not_below (Or.inl hs) hi
  have b : (treeHash E A (treeHash E A h l).2 r).2.read A.zero id
      = (treeHash E A h l).2.read A.zero id := by
    apply Classical.byContradiction; intro hne
    obtain ⟨s, hs, _, hi⟩ := treeHash_changes E A r _ id hne
    exact hreg.id_not_below (Or.inr hs) hi
  rw [b, a]

/-! ## 3. the cost is bounded by the absent memos -/

/-- `s` carries a memo and that memo is absent in `h`. -/
def Tree.absentIn [DecidableEq H] (A : HashAlg H) (h : Heap H) (s : Tree T) : Bool :=
  s.hasMemo && decide (h.read A.zero s.id = A.zero)

/-- **No hypothesis on hash values**: the number of hash evaluations is at most the number of
*occurrences* of memo-carrying subtrees whose memo is absent. -/
theorem treeHashC_le_absent_occ [DecidableEq H] (E : Elem T H) (A : HashAlg H) (f : Registry T)
    (t : Tree T) : ∀ (h : Heap H), HeapOK E A f h → Registered f t →
      (treeHashC E A h t).2 ≤ t.subtrees.countP (Tree.absentIn A h) := by
  induction t with
  | leaf id v =>
    intro h _ _
    simp only [treeHashC]
    split
    · exact Nat.zero_le _
    · rename_i hz
      have hz' : h.read A.zero id = A.zero := Decidable.not_not.1 hz
      simp [Tree.subtrees, Tree.absentIn, Tree.hasMemo, Tree.id, hz']
  | packed id vs =>
    intro h _ _
    simp only [treeHashC]
    split
    · exact Nat.zero_le _
    · rename_i hz
      have hz' : h.read A.zero id = A.zero := Decidable.not_not.1 hz
      simp [Tree.subtrees, Tree.absentIn, Tree.hasMemo, Tree.id, hz']
  | zero id d => intro h _ _; exact Nat.zero_le _
  | node id l r ihl ihr =>
    intro h hok hreg
    by_cases hz : h.read A.zero id = A.zero
    · rw [treeHashC_node_miss E A h id l r hz]
      have hl := ihl h hok hreg.node_left
      obtain ⟨_, hok1, _⟩ := treeHash_spec E A f l h hok hreg.node_left
      have hr := ihr _ hok1 hreg.node_right
      have hmono : r.subtrees.countP (Tree.absentIn A (treeHash E A h l).2)
          ≤ r.subtrees.countP (Tree.absentIn A h) := by
        apply List.countP_mono_left
        intro s _ hs
        simp only [Tree.absentIn, Bool.and_eq_true, decide_eq_true_eq] at hs ⊢
        exact ⟨hs.1, treeHash_absent_mono E A f l h hok hreg.node_left _ hs.2⟩
      have hroot : Tree.absentIn A h (.node id l r) = true := by
        simp [Tree.absentIn, Tree.hasMemo, Tree.id, hz]
      simp only [Tree.subtrees, List.countP_cons, List.countP_append, hroot, if_true]
      omega
    · rw [(treeHashC_hit E A h (.node id l r) (fun _ => hz)).1]; exact Nat.zero_le _

/-- number of ids of `S` whose memo is absent in `h`. -/
def absCnt [DecidableEq H] (A : HashAlg H) (h : Heap H) (S : List Nat) : Nat :=
  S.countP (fun i => decide (h.read A.zero i = A.zero))

theorem absCnt_le_length [DecidableEq H] (A : HashAlg H) (h : Heap H) (S : List Nat) :
    absCnt A h S ≤ S.length := List.countP_le_length

theorem absCnt_write_notin [DecidableEq H] (A : HashAlg H) (h : Heap H) (S : List Nat) (id : Nat)
    (x : H) (hn : id ∉ S) : absCnt A (h.write id x) S = absCnt A h S := by
  unfold absCnt
  apply List.countP_congr
  intro i hi
  have : id ≠ i := fun e => hn (e ▸ hi)
  rw [Heap.read_write_other _ _ _ _ _ this]

theorem absCnt_write [DecidableEq H] (A : HashAlg H) (h : Heap H) (id : Nat) (x : H)
    (hz : h.read A.zero id = A.zero) (hx : x ≠ A.zero) (hb : id < h.next) :
    ∀ (S : List Nat), S.Nodup → id ∈ S → absCnt A (h.write id x) S + 1 = absCnt A h S := by
  intro S
  induction S with
  | nil => intro _ hm; cases hm
  | cons a S ih =>
    intro hnd hm
    rw [List.nodup_cons] at hnd
    by_cases e : a = id
    · subst e
      have := absCnt_write_notin A h S a x hnd.1
      unfold absCnt at this ⊢
      simp only [List.countP_cons, this, Heap.read_write_same _ _ _ _ hb, hz, hx, decide_true,
        decide_false, if_true]
      simp
    · have hm' : id ∈ S := by
        rcases List.mem_cons.1 hm with e' | e'
        · exact absurd e'.symm e
        · exact e'
      have := ih hnd.2 hm'
      unfold absCnt at this ⊢
      simp only [List.countP_cons, Heap.read_write_other _ _ _ _ _ (Ne.symm e)]
      omega

/-- **potential argument**: if every hash value that gets written is non-zero (`hnz`, needed for a
written memo to be *seen* as present), each hash evaluation makes exactly one id of `S` present. -/
theorem treeHashC_potential [DecidableEq H] (E : Elem T H) (A : HashAlg H) (f : Registry T)
    (S : List Nat) (hS : S.Nodup) (t : Tree T) :
    ∀ (h : Heap H), HeapOK E A f h → Registered f t →
      (∀ s ∈ t.subtrees, s.hasMemo = true → h.read A.zero s.id = A.zero →
        trueHash E A s ≠ A.zero) →
      (∀ s ∈ t.subtrees, s.hasMemo = true → h.read A.zero s.id = A.zero → s.id ∈ S) →
      (treeHashC E A h t).2 + absCnt A (treeHash E A h t).2 S = absCnt A h S := by
  induction t with
  | leaf id v =>
    intro h hok hreg hnz hin
    by_cases hz : h.read A.zero id = A.zero
    · have hx := hnz _ (Tree.self_mem_subtrees _) rfl hz
      have hi := hin _ (Tree.self_mem_subtrees _) rfl hz
      have := absCnt_write A h id _ hz hx (hok.bound _ _ hreg.self) S hS hi
      simp only [treeHashC, treeHash, hz, ne_eq, not_true_eq_false, if_false]
      simp only [trueHash] at this
      omega
    · obtain ⟨a, b⟩ := treeHashC_hit E A h (.leaf id v) (fun _ => hz)
      rw [a, b]; omega
  | packed id vs =>
    intro h hok hreg hnz hin
    by_cases hz : h.read A.zero id = A.zero
    · have hx := hnz _ (Tree.self_mem_subtrees _) rfl hz
      have hi := hin _ (Tree.self_mem_subtrees _) rfl hz
      have := absCnt_write A h id _ hz hx (hok.bound _ _ hreg.self) S hS hi
      simp only [treeHashC, treeHash, hz, ne_eq, not_true_eq_false, if_false]
      simp only [trueHash] at this
      omega
    · obtain ⟨a, b⟩ := treeHashC_hit E A h (.packed id vs) (fun _ => hz)
      rw [a, b]; omega
  | zero id d => intro h _ _ _ _; simp only [treeHashC, treeHash]; omega
  | node id l r ihl ihr =>
    intro h hok hreg hnz hin
    by_cases hz : h.read A.zero id = A.zero
    · have hx := hnz _ (Tree.self_mem_subtrees _) rfl hz
      have hi := hin _ (Tree.self_mem_subtrees _) rfl hz
      obtain ⟨l1, hok1, _⟩ := treeHash_spec E A f l h hok hreg.node_left
      obtain ⟨r1, hok2, _⟩ := treeHash_spec E A f r _ hok1 hreg.node_right
      have hsubL : ∀ s ∈ l.subtrees, s ∈ (Tree.node id l r).subtrees := fun s hs => by
        simp [Tree.subtrees, hs]
      have hsubR : ∀ s ∈ r.subtrees, s ∈ (Tree.node id l r).subtrees := fun s hs => by
        simp [Tree.subtrees, hs]
      have eL := ihl h hok hreg.node_left (fun s hs => hnz s (hsubL s hs))
        (fun s hs => hin s (hsubL s hs))
      have back := treeHash_absent_mono E A f l h hok hreg.node_left
      have eR := ihr _ hok1 hreg.node_right
        (fun s hs hm hz1 => hnz s (hsubR s hs) hm (back _ hz1))
        (fun s hs hm hz1 => hin s (hsubR s hs) hm (back _ hz1))
      have hkeep := treeHash_children_keep E A f h id l r hreg
      have hw := absCnt_write A (treeHash E A (treeHash E A h l).2 r).2 id
        (A.h2 (treeHash E A h l).1 (treeHash E A (treeHash E A h l).2 r).1)
        (by rw [hkeep]; exact hz)
        (by rw [l1, r1]; exact hx)
        (hok2.bound _ _ hreg.self) S hS hi
      rw [treeHashC_node_miss E A h id l r hz, treeHash_node_miss E A h id l r hz]
      simp only []
      omega
    · obtain ⟨a, b⟩ := treeHashC_hit E A h (.node id l r) (fun _ => hz)
      rw [a, b]; omega

/-- **Cost ≤ distinct absent memos (`Nodup` form).** `S` is any duplicate-free list of ids
containing the ids of the memo-carrying subtrees of `t` whose memo is absent in `h`.
`hnz`: the true hashes of those subtrees are not the all-zero word (otherwise the model — like the
crate — does not *see* the memo it has just written and hashes a shared subtree again). -/
theorem treeHashC_le_of_nodup [DecidableEq H] (E : Elem T H) (A : HashAlg H) (f : Registry T)
    (t : Tree T) (h : Heap H) (hok : HeapOK E A f h) (hreg : Registered f t)
    (hnz : ∀ s ∈ t.subtrees, s.hasMemo = true → h.read A.zero s.id = A.zero →
      trueHash E A s ≠ A.zero)
    (S : List Nat) (hS : S.Nodup)
    (hin : ∀ s ∈ t.subtrees, s.hasMemo = true → h.read A.zero s.id = A.zero → s.id ∈ S) :
    (treeHashC E A h t).2 ≤ S.length := by
  have := treeHashC_potential E A f S hS t h hok hreg hnz hin
  have := absCnt_le_length A h S
  omega

theorem hashCost_nodup_eraseDups :
    ∀ (m : Nat) (l : List Nat), l.length ≤ m → l.eraseDups.Nodup := by
  intro m
  induction m with
  | zero =>
    intro l hl
    have : l = [] := List.eq_nil_of_length_eq_zero (by omega)
    subst this; simp
  | succ m ih =>
    intro l hl
    cases l with
    | nil => simp
    | cons a as =>
      rw [List.eraseDups_cons, List.nodup_cons]
      refine ⟨?_, ih _ ?_⟩
      · rw [List.mem_eraseDups, List.mem_filter]
        rintro ⟨_, hne⟩; simp at hne
      · have := List.length_filter_le (fun b => !b == a) as
        simp only [List.length_cons] at hl; omega

/-- the distinct ids of the memo-carrying subtrees of `t` whose memo is absent in `h`. -/
def Tree.absentIds [DecidableEq H] (A : HashAlg H) (h : Heap H) (t : Tree T) : List Nat :=
  ((t.subtrees.filter (Tree.absentIn A h)).map Tree.id).eraseDups

/-- **Target 2: cost ≤ number of DISTINCT absent memos** (a shared subtree is hashed once), under
the explicit hypothesis `hnz` that the true hashes of the absent-memo subtrees are non-zero.
Without `hnz` the statement is false in the model (and in the crate): see
`treeHashC_zero_hash_counterexample`. -/
theorem treeHashC_le_absent [DecidableEq H] (E : Elem T H) (A : HashAlg H) (f : Registry T)
    (t : Tree T) (h : Heap H) (hok : HeapOK E A f h) (hreg : Registered f t)
    (hnz : ∀ s ∈ t.subtrees, s.hasMemo = true → h.read A.zero s.id = A.zero →
      trueHash E A s ≠ A.zero) :
    (treeHashC E A h t).2 ≤
      ((t.subtrees.filter (fun s => s.hasMemo && decide (h.read A.zero s.id = A.zero))).map
        Tree.id).eraseDups.length := by
  apply treeHashC_le_of_nodup E A f t h hok hreg hnz _ (hashCost_nodup_eraseDups _ _ (Nat.le_refl _))
  intro s hs hm hz
  rw [List.mem_eraseDups, List.mem_map]
  refine ⟨s, ?_, rfl⟩
  rw [List.mem_filter]
  exact ⟨hs, by simp [hm, hz]⟩

theorem treeHashC_le_absentIds [DecidableEq H] (E : Elem T H) (A : HashAlg H) (f : Registry T)
    (t : Tree T) (h : Heap H) (hok : HeapOK E A f h) (hreg : Registered f t)
    (hnz : ∀ s ∈ t.subtrees, s.hasMemo = true → h.read A.zero s.id = A.zero →
      trueHash E A s ≠ A.zero) :
    (treeHashC E A h t).2 ≤ (t.absentIds A h).length :=
  treeHashC_le_absent E A f t h hok hreg hnz

/-- **Target 3: a root computation on a fully memoised tree costs nothing** (and writes nothing). -/
theorem treeHashC_memoised_zero [DecidableEq H] (E : Elem T H) (A : HashAlg H) (h : Heap H)
    (t : Tree T)
    (hm : ∀ s ∈ t.subtrees, s.hasMemo = true → h.read A.zero s.id ≠ A.zero) :
    (treeHashC E A h t).2 = 0 ∧ (treeHash E A h t).2 = h :=
  treeHashC_hit E A h t (hm t (Tree.self_mem_subtrees t))

/-- after a root computation every memo-carrying subtree reached is memoised; in particular the
root is, so the *second* root computation costs nothing — provided the root hash is non-zero. -/
theorem treeHashC_second_zero [DecidableEq H] (E : Elem T H) (A : HashAlg H) (f : Registry T)
    (t : Tree T) (h : Heap H) (hok : HeapOK E A f h) (hreg : Registered f t)
    (hnz : trueHash E A t ≠ A.zero) :
    (treeHashC E A (treeHash E A h t).2 t).2 = 0 := by
  apply (treeHashC_hit E A _ t _).1
  intro hm
  cases t with
  | zero id d => cases hm
  | leaf id v =>
    have hb : id < h.next := hok.bound _ _ hreg.self
    simp only [Tree.id, treeHash]
    split
    · assumption
    · simp only []
      rw [Heap.read_write_same _ _ _ _ hb]; exact hnz
  | packed id vs =>
    have hb : id < h.next := hok.bound _ _ hreg.self
    simp only [Tree.id, treeHash]
    split
    · assumption
    · simp only []
      rw [Heap.read_write_same _ _ _ _ hb]; exact hnz
  | node id l r =>
    simp only [Tree.id]
    by_cases hz : h.read A.zero id = A.zero
    · obtain ⟨l1, hok1, _⟩ := treeHash_spec E A f l h hok hreg.node_left
      obtain ⟨r1, hok2, _⟩ := treeHash_spec E A f r _ hok1 hreg.node_right
      have hb : id < (treeHash E A (treeHash E A h l).2 r).2.next := hok2.bound _ _ hreg.self
      rw [treeHash_node_miss E A h id l r hz]
      simp only []
      rw [Heap.read_write_same _ _ _ _ hb, l1, r1]; exact hnz
    · rw [(treeHashC_hit E A h (.node id l r) (fun _ => hz)).2]; exact hz

/-! ## 4. a flush creates each fresh memo-carrying node once -/

/-- `s` carries a memo and its identity is `≥ n` (allocated at or after heap size `n`). -/
def Tree.freshIn (n : Nat) (s : Tree T) : Bool := s.hasMemo && decide (n ≤ s.id)

theorem freshOcc_shift (a b : Nat) (t : Tree T) (hab : a ≤ b)
    (h : ∀ s ∈ t.subtrees, s.hasMemo = true → s.id < a ∨ b ≤ s.id) :
    t.subtrees.countP (Tree.freshIn a) = t.subtrees.countP (Tree.freshIn b) := by
  apply List.countP_congr
  intro s hs
  simp only [Tree.freshIn, Bool.and_eq_true, decide_eq_true_eq]
  constructor
  · rintro ⟨hm, hle⟩
    rcases h s hs hm with h1 | h1
    · omega
    · exact ⟨hm, h1⟩
  · rintro ⟨hm, hle⟩; exact ⟨hm, by omega⟩

theorem freshOcc_zero (n : Nat) (t : Tree T)
    (h : ∀ s ∈ t.subtrees, s.hasMemo = true → s.id < n) :
    t.subtrees.countP (Tree.freshIn n) = 0 := by
  rw [List.countP_eq_zero]
  intro s hs
  simp only [Tree.freshIn, Bool.and_eq_true, decide_eq_true_eq]
  rintro ⟨hm, hle⟩
  have := h s hs hm; omega

/-- occurrences of fresh memo-carrying nodes in the result ≤ allocations. -/
def FreshSpec (pf : Option Nat) (z : H) (m : UMap T) (d : Nat) : Prop :=
  ∀ (h : Heap H) (t : Tree T) (pfx : Nat) (t' : Tree T) (h' : Heap H),
    (∀ s ∈ t.subtrees, s.hasMemo = true → s.id < h.next) →
    updLeaves pf z m h t pfx d = .ok (t', h') →
    t'.subtrees.countP (Tree.freshIn h.next) + h.next ≤ h'.next

theorem optUpd_fresh (pf : Option Nat) (z : H) (m : UMap T) (d : Nat)
    (ih : FreshSpec (H := H) pf z m d) (b : Bool) (h : Heap H) (t : Tree T) (pfx : Nat)
    (t' : Tree T) (h' : Heap H) (hb : ∀ s ∈ t.subtrees, s.hasMemo = true → s.id < h.next)
    (he : optUpd pf z m b h t pfx d = .ok (t', h')) :
    t'.subtrees.countP (Tree.freshIn h.next) + h.next ≤ h'.next := by
  cases b with
  | true =>
    simp only [optUpd, if_true] at he
    exact ih h t pfx t' h' hb he
  | false =>
    simp only [optUpd, Bool.false_eq_true, if_false, Except.ok.injEq, Prod.mk.injEq] at he
    obtain ⟨rfl, rfl⟩ := he
    rw [freshOcc_zero _ _ hb]; omega

theorem nodeBody_fresh (pf : Option Nat) (z : H) (m : UMap T) (d : Nat)
    (ih : FreshSpec (H := H) pf z m d) (h : Heap H) (l r : Tree T) (pfx rp rend : Nat)
    (t' : Tree T) (h' : Heap H)
    (hl : ∀ s ∈ l.subtrees, s.hasMemo = true → s.id < h.next)
    (hr : ∀ s ∈ r.subtrees, s.hasMemo = true → s.id < h.next)
    (he : nodeBody pf z m h l r pfx rp rend d = .ok (t', h')) :
    t'.subtrees.countP (Tree.freshIn h.next) + h.next ≤ h'.next := by
  obtain ⟨l', h1, r', h2, _, hL, hR, rfl, rfl⟩ :=
    (nodeBody_eq_ok_iff pf z m h l r pfx rp rend d _ _).1 he
  have fr := updLeaves_frame pf z m d
  obtain ⟨eL, sL⟩ := optUpd_frame pf z m d fr _ h l pfx l' h1 hL
  obtain ⟨eR, sR⟩ := optUpd_frame pf z m d fr _ h1 r rp r' h2 hR
  have n1 := eL.1
  have n2 := eR.1
  have cL := optUpd_fresh pf z m d ih _ h l pfx l' h1 hl hL
  have cR := optUpd_fresh pf z m d ih _ h1 r rp r' h2
    (fun s hs hm => Nat.lt_of_lt_of_le (hr s hs hm) n1) hR
  have sh : r'.subtrees.countP (Tree.freshIn h.next) = r'.subtrees.countP (Tree.freshIn h1.next) := by
    apply freshOcc_shift _ _ _ n1
    intro s hs hm
    rcases sR s hs with h' | h'
    · left; exact hr s h' hm
    · right; exact h'.1
  have hroot : Tree.freshIn h.next (Tree.node h2.next l' r') = true := by
    simp only [Tree.freshIn, Tree.hasMemo, Tree.id, Bool.true_and]
    exact decide_eq_true (by omega)
  rw [Heap.next_alloc]
  simp only [Tree.subtrees, List.countP_cons, List.countP_append, hroot, if_true]
  omega

theorem fresh_alloc (z : H) (h : Heap H) (t' : Tree T) (hs : t'.subtrees = [t']) :
    t'.subtrees.countP (Tree.freshIn h.next) + h.next ≤ (h.alloc z).2.next := by
  rw [Heap.next_alloc, hs]
  have := List.countP_le_length (p := Tree.freshIn h.next) (l := [t'])
  simp only [List.length_singleton] at this
  omega

/-- every fresh memo-carrying node of the flushed tree occurs in it once: the number of their
*occurrences* is at most the number of allocations. -/
theorem updLeaves_fresh (pf : Option Nat) (z : H) (m : UMap T) :
    ∀ d, FreshSpec (H := H) pf z m d := by
  intro d
  induction d with
  | zero =>
    intro h t pfx t' h' _ he
    cases t with
    | leaf id v =>
      simp only [updLeaves] at he
      split at he
      · simp only [Except.ok.injEq, Prod.mk.injEq] at he
        obtain ⟨rfl, rfl⟩ := he
        exact fresh_alloc z h _ rfl
      · cases he
    | packed id vs =>
      simp only [updLeaves] at he
      split at he
      · simp only [Except.ok.injEq, Prod.mk.injEq] at he
        obtain ⟨rfl, rfl⟩ := he
        exact fresh_alloc z h _ rfl
      · cases he
    | node id l r => simp [updLeaves] at he
    | zero id zd =>
      simp only [updLeaves] at he
      split at he
      · split at he
        · split at he
          · simp only [Except.ok.injEq, Prod.mk.injEq] at he
            obtain ⟨rfl, rfl⟩ := he
            exact fresh_alloc z h _ rfl
          · cases he
        · split at he
          · simp only [Except.ok.injEq, Prod.mk.injEq] at he
            obtain ⟨rfl, rfl⟩ := he
            exact fresh_alloc z h _ rfl
          · cases he
      · cases he
  | succ d ih =>
    intro h t pfx t' h' hb he
    cases t with
    | leaf id v => simp [updLeaves] at he
    | packed id vs => simp [updLeaves] at he
    | node id l r =>
      rw [updLeaves_node] at he
      exact nodeBody_fresh pf z m d ih h l r pfx _ _ t' h'
        (fun s hs => hb s (by simp [Tree.subtrees, hs]))
        (fun s hs => hb s (by simp [Tree.subtrees, hs])) he
    | zero id zd =>
      by_cases hz : zd = d + 1
      · subst hz
        rw [updLeaves_zero_succ] at he
        have hzt : ∀ s ∈ (Tree.zero h.next d : Tree T).subtrees, s.hasMemo = true →
            s.id < ((h.alloc z).2.alloc z).2.next := by
          intro s hs hm
          simp only [Tree.subtrees, List.mem_singleton] at hs
          subst hs; cases hm
        have c := nodeBody_fresh pf z m d ih _ _ _ pfx _ _ t' h' hzt hzt he
        obtain ⟨_, sub, _, _⟩ := nodeBody_frame pf z m d (updLeaves_frame pf z m d) _ _ _ pfx _ _ t' h' he
        have n2 : ((h.alloc z).2.alloc z).2.next = h.next + 2 := by
          rw [Heap.next_alloc, Heap.next_alloc]
        have sh := freshOcc_shift h.next ((h.alloc z).2.alloc z).2.next t' (by omega) (by
          intro s hs hm
          rcases sub s hs with h1 | h1 | h1
          · simp only [Tree.subtrees, List.mem_singleton] at h1; subst h1; cases hm
          · simp only [Tree.subtrees, List.mem_singleton] at h1; subst h1; cases hm
          · right; exact h1.1)
        omega
      · simp [updLeaves, hz] at he

/-! ## 5. C10: after a flush the next root computation rehashes only the rewritten paths -/

/-- the absent memos of the flushed tree are those of the freshly allocated nodes. -/
theorem updLeaves_absent_fresh [DecidableEq H] (E : Elem T H) (A : HashAlg H) (pf : Option Nat)
    (m : UMap T) (f : Registry T) (h : Heap H) (t : Tree T) (hok : HeapOK E A f h)
    (hreg : Registered f t)
    (hmemo : ∀ s ∈ t.subtrees, s.hasMemo = true → h.read A.zero s.id ≠ A.zero)
    (d pfx : Nat) (t' : Tree T) (h1 : Heap H)
    (he : updLeaves pf A.zero m h t pfx d = .ok (t', h1)) :
    ∀ s ∈ t'.subtrees, s.hasMemo = true → h1.read A.zero s.id = A.zero →
      h.next ≤ s.id ∧ s.id < h1.next := by
  intro s hs hm hz
  obtain ⟨ext, sub, _, _⟩ := updLeaves_frame pf A.zero m d h t pfx t' h1 he
  rcases sub s hs with h' | h'
  · have hb : s.id < h.next := hok.bound _ _ (hreg s h')
    rw [ext.2.1 _ hb] at hz
    exact absurd hz (hmemo s h' hm)
  · exact h'

/-- the cost of the root computation after a flush is at most the number of nodes the flush
allocated — whatever the hash values are (no non-zero hypothesis), for every map and prefix. -/
theorem C10_rehash_le_allocated [DecidableEq H] (E : Elem T H) (A : HashAlg H) (pf : Option Nat)
    (m : UMap T) (f : Registry T) (h : Heap H) (t : Tree T) (hok : HeapOK E A f h)
    (hreg : Registered f t)
    (hmemo : ∀ s ∈ t.subtrees, s.hasMemo = true → h.read A.zero s.id ≠ A.zero)
    (d pfx : Nat) (t' : Tree T) (h1 : Heap H)
    (he : updLeaves pf A.zero m h t pfx d = .ok (t', h1)) :
    (treeHashC E A h1 t').2 + h.next ≤ h1.next := by
  obtain ⟨f', _, hok', hreg'⟩ := updLeaves_reg E A pf m d f h t pfx t' h1 hok hreg he
  have c1 := treeHashC_le_absent_occ E A f' t' h1 hok' hreg'
  have c2 : t'.subtrees.countP (Tree.absentIn A h1) ≤ t'.subtrees.countP (Tree.freshIn h.next) := by
    apply List.countP_mono_left
    intro s hs hab
    simp only [Tree.absentIn, Tree.freshIn, Bool.and_eq_true, decide_eq_true_eq] at hab ⊢
    exact ⟨hab.1, (updLeaves_absent_fresh E A pf m f h t hok hreg hmemo d pfx t' h1 he
      s hs hab.1 hab.2).1⟩
  have c3 := updLeaves_fresh pf A.zero m d h t pfx t' h1
    (fun s hs _ => hok.bound _ _ (hreg s hs)) he
  omega

/-- **C10, cost clause.** `t` is a registered tree all of whose memo-carrying nodes are memoised in
`h` (e.g. `h` is the heap after a root computation, see `treeHash_memoises_all` below for when that
is the case); a flush of the well-formed map `m`, `k = (m.range pfx (pfx + cap pf d)).length ≥ 1`
keys in the block, yields `(t', h1)` (hypotheses exactly those of `AllocSpec`). Then

* the next root computation performs at most `k * (3 * d + 3)` hash evaluations
  (`d` the depth of the tree; no assumption on hash values);
* every memo it changes belongs to a node allocated by the flush (`h.next ≤ id < h1.next`), was
  absent, and now holds the true hash of that node;
* it allocates nothing. -/
theorem C10_rehash_only_rewritten [DecidableEq H] (E : Elem T H) (A : HashAlg H) (pf : Option Nat)
    (hpf : PfOK pf) (m : UMap T) (hm : m.WF) (f : Registry T) (h : Heap H) (t : Tree T)
    (hok : HeapOK E A f h) (hreg : Registered f t)
    (hmemo : ∀ s ∈ t.subtrees, s.hasMemo = true → h.read A.zero s.id ≠ A.zero)
    (d pfx : Nat) (ha : pfx % cap pf d = 0) (has : m.hasInRange pfx (pfx + cap pf d) = true)
    (t' : Tree T) (h1 : Heap H) (he : updLeaves pf A.zero m h t pfx d = .ok (t', h1)) :
    (treeHashC E A h1 t').2 ≤ (m.range pfx (pfx + cap pf d)).length * (3 * d + 3) ∧
    (∀ i, (treeHash E A h1 t').2.read A.zero i ≠ h1.read A.zero i →
      h.next ≤ i ∧ i < h1.next ∧ h1.read A.zero i = A.zero ∧
      ∃ s ∈ t'.subtrees, s.id = i ∧ (treeHash E A h1 t').2.read A.zero i = trueHash E A s) ∧
    (treeHash E A h1 t').2.next = h1.next := by
  obtain ⟨f', _, hok', hreg'⟩ := updLeaves_reg E A pf m d f h t pfx t' h1 hok hreg he
  refine ⟨?_, ?_, (treeHash_spec E A f' t' h1 hok' hreg').2.2⟩
  · have a := C10_rehash_le_allocated E A pf m f h t hok hreg hmemo d pfx t' h1 he
    have b := updLeaves_alloc_bound pf hpf A.zero m hm d h t pfx t' h1 ha has he
    omega
  · intro i hne
    obtain ⟨s, hs, hmm, hi⟩ := treeHash_changes E A t' h1 i hne
    rcases treeHash_frame E A f' t' h1 hok' hreg' i with e | ⟨hz, s', hs', e⟩
    · exact absurd e hne
    · subst hi
      have hf : f' s.id = some s := hreg' s hs
      rw [hf] at hs'; cases hs'
      obtain ⟨b1, b2⟩ := updLeaves_absent_fresh E A pf m f h t hok hreg hmemo d pfx t' h1 he
        s hs hmm hz
      exact ⟨b1, b2, hz, s, hs, rfl, e⟩

/-- the whole-tree form (`pfx = 0`): `k` = the number of entries of the map. -/
theorem C10_rehash_only_rewritten_root [DecidableEq H] (E : Elem T H) (A : HashAlg H)
    (pf : Option Nat) (hpf : PfOK pf) (m : UMap T) (hm : m.WF) (f : Registry T) (h : Heap H)
    (t : Tree T) (hok : HeapOK E A f h) (hreg : Registered f t)
    (hmemo : ∀ s ∈ t.subtrees, s.hasMemo = true → h.read A.zero s.id ≠ A.zero)
    (d : Nat) (has : m.hasInRange 0 (cap pf d) = true)
    (t' : Tree T) (h1 : Heap H) (he : updLeaves pf A.zero m h t 0 d = .ok (t', h1)) :
    (treeHashC E A h1 t').2 ≤ m.entries.length * (3 * d + 3) ∧
    (∀ i, (treeHash E A h1 t').2.read A.zero i ≠ h1.read A.zero i → h.next ≤ i ∧ i < h1.next) := by
  obtain ⟨a, b, _⟩ := C10_rehash_only_rewritten E A pf hpf m hm f h t hok hreg hmemo d 0
    (Nat.zero_mod _) (by rw [Nat.zero_add]; exact has) t' h1 he
  refine ⟨?_, fun i hi => ⟨(b i hi).1, (b i hi).2.1⟩⟩
  have : (m.range 0 (0 + cap pf d)).length ≤ m.entries.length := List.length_filter_le _ _
  exact Nat.le_trans a (Nat.mul_le_mul_right _ this)

/-- the same at the level of the collection: `apply_updates` (the flush of `List` / `Vector`) with
`k` pending entries, then `tree_hash_root`: at most `k * (3 * depth + 3)` hash evaluations, all at
nodes allocated by the flush. -/
theorem C10_applyUpdates_rehash [DecidableEq H] (E : Elem T H) (A : HashAlg H) (pf : Option Nat)
    (hpf : PfOK pf) (cfg : Cfg) (c : Coll T) (f : Registry T) (h : Heap H)
    (hok : HeapOK E A f h) (hreg : Registered f c.tree)
    (hmemo : ∀ s ∈ c.tree.subtrees, s.hasMemo = true → h.read A.zero s.id ≠ A.zero)
    (hwf : c.updates.WF) (hne : c.updates.isEmpty = false)
    (hkeys : ∀ k v, (k, v) ∈ c.updates.entries → k < cap pf c.depth)
    (c' : Coll T) (h1 : Heap H)
    (he : Coll.applyUpdates pf A.zero cfg c h = (.ok (), c', h1)) :
    (treeHashC E A h1 c'.tree).2 ≤ c.updates.entries.length * (3 * c.depth + 3) ∧
    (∀ i, (treeHash E A h1 c'.tree).2.read A.zero i ≠ h1.read A.zero i →
      h.next ≤ i ∧ i < h1.next) := by
  have has : c.updates.hasInRange 0 (cap pf c.depth) = true := by
    obtain ⟨k, hk⟩ := (UMap.isEmpty_eq_false_iff c.updates).1 hne
    obtain ⟨v, hv⟩ := (UMap.get_isSome_iff c.updates k).1 hk
    exact (UMap.hasInRange_iff c.updates _ _).2 ⟨k, by omega, hkeys k v hv, hk⟩
  have key : ∀ t' , updLeaves pf A.zero c.updates h c.tree 0 c.depth = .ok (t', h1) →
      (treeHashC E A h1 t').2 ≤ c.updates.entries.length * (3 * c.depth + 3) ∧
      (∀ i, (treeHash E A h1 t').2.read A.zero i ≠ h1.read A.zero i →
        h.next ≤ i ∧ i < h1.next) :=
    fun t' hu => C10_rehash_only_rewritten_root E A pf hpf c.updates hwf f h c.tree hok hreg hmemo
      c.depth has t' h1 hu
  simp only [Coll.applyUpdates, hne, Bool.false_eq_true, if_false, Coll.backingUpdate] at he
  split at he
  · rename_i hmi
    rw [UMap.maxIndex_eq_none_iff, hne] at hmi; cases hmi
  · split at he
    · split at he
      · cases he
      · split at he
        · cases he
        · rename_i t' h' hu
          simp only [Prod.mk.injEq, true_and] at he
          obtain ⟨rfl, rfl⟩ := he
          exact key t' hu
    · split at he
      · cases he
      · split at he
        · cases he
        · rename_i t' h' hu
          simp only [Prod.mk.injEq, true_and] at he
          obtain ⟨rfl, rfl⟩ := he
          exact key t' hu

/-! ## 6. the hypothesis "every memo-carrying node is memoised" is what a root computation
establishes, and the flush / root-computation cycle re-establishes it -/

theorem treeHash_present_mono [DecidableEq H] (E : Elem T H) (A : HashAlg H) (f : Registry T)
    (t : Tree T) (h : Heap H) (hok : HeapOK E A f h) (hreg : Registered f t) (i : Nat)
    (hp : h.read A.zero i ≠ A.zero) : (treeHash E A h t).2.read A.zero i ≠ A.zero := by
  rcases treeHash_frame E A f t h hok hreg i with e | ⟨e, _⟩
  · rw [e]; exact hp
  · exact absurd e hp

/-- below a memoised node everything is memoised (true of every heap produced by root computations
and flushes from a heap where it holds, e.g. the all-absent one). -/
def MemoClosed (A : HashAlg H) (h : Heap H) (t : Tree T) : Prop :=
  ∀ s ∈ t.subtrees, s.hasMemo = true → h.read A.zero s.id ≠ A.zero →
    ∀ u ∈ s.subtrees, u.hasMemo = true → h.read A.zero u.id ≠ A.zero

/-- a root computation memoises every memo-carrying node of the tree (non-zero hashes). -/
theorem treeHash_memoises_all [DecidableEq H] (E : Elem T H) (A : HashAlg H) (f : Registry T)
    (t : Tree T) : ∀ (h : Heap H), HeapOK E A f h → Registered f t →
      (∀ s ∈ t.subtrees, s.hasMemo = true → trueHash E A s ≠ A.zero) → MemoClosed A h t →
      ∀ s ∈ t.subtrees, s.hasMemo = true → (treeHash E A h t).2.read A.zero s.id ≠ A.zero := by
  induction t with
  | leaf id v =>
    intro h hok hreg hnz _ s hs hm
    simp only [Tree.subtrees, List.mem_singleton] at hs
    subst hs
    intro e
    have hb : id < h.next := hok.bound _ _ hreg.self
    simp only [treeHash, Tree.id] at e
    split at e
    · rename_i hp; exact hp e
    · simp only [] at e
      rw [Heap.read_write_same _ _ _ _ hb] at e
      exact hnz _ (Tree.self_mem_subtrees _) rfl e
  | packed id vs =>
    intro h hok hreg hnz _ s hs hm
    simp only [Tree.subtrees, List.mem_singleton] at hs
    subst hs
    intro e
    have hb : id < h.next := hok.bound _ _ hreg.self
    simp only [treeHash, Tree.id] at e
    split at e
    · rename_i hp; exact hp e
    · simp only [] at e
      rw [Heap.read_write_same _ _ _ _ hb] at e
      exact hnz _ (Tree.self_mem_subtrees _) rfl e
  | zero id d =>
    intro h _ _ _ _ s hs hm
    simp only [Tree.subtrees, List.mem_singleton] at hs
    subst hs; cases hm
  | node id l r ihl ihr =>
    intro h hok hreg hnz hcl s hs hm
    by_cases hz : h.read A.zero id = A.zero
    · have hsubL : ∀ s ∈ l.subtrees, s ∈ (Tree.node id l r).subtrees := fun s hs => by
        simp [Tree.subtrees, hs]
      have hsubR : ∀ s ∈ r.subtrees, s ∈ (Tree.node id l r).subtrees := fun s hs => by
        simp [Tree.subtrees, hs]
      obtain ⟨l1, hok1, _⟩ := treeHash_spec E A f l h hok hreg.node_left
      obtain ⟨r1, hok2, _⟩ := treeHash_spec E A f r _ hok1 hreg.node_right
      have hb : id < (treeHash E A (treeHash E A h l).2 r).2.next := hok2.bound _ _ hreg.self
      have IL := ihl h hok hreg.node_left (fun s hs => hnz s (hsubL s hs))
        (fun s hs => hcl s (hsubL s hs))
      have closedR : MemoClosed A (treeHash E A h l).2 r := by
        intro s hs hm hp u hu hmu
        by_cases e : h.read A.zero s.id = A.zero
        · have hne : (treeHash E A h l).2.read A.zero s.id ≠ h.read A.zero s.id := by
            rw [e]; exact hp
          obtain ⟨s', hs', _, hi⟩ := treeHash_changes E A l h s.id hne
          have e1 : f s'.id = some s' := hreg s' (hsubL s' hs')
          have e2 : f s.id = some s := hreg s (hsubR s hs)
          rw [hi, e2] at e1
          cases e1
          exact IL u (Tree.reg_subtrees_trans hs' hu) hmu
        · exact treeHash_present_mono E A f l h hok hreg.node_left _
            (hcl s (hsubR s hs) hm e u hu hmu)
      have IR := ihr _ hok1 hreg.node_right (fun s hs => hnz s (hsubR s hs)) closedR
      rw [treeHash_node_miss E A h id l r hz]
      simp only []
      simp only [Tree.subtrees, List.mem_cons, List.mem_append] at hs
      rcases hs with rfl | hs | hs
      · simp only [Tree.id]
        rw [Heap.read_write_same _ _ _ _ hb, l1, r1]
        exact hnz _ (Tree.self_mem_subtrees _) rfl
      · rw [Heap.read_write_other _ _ _ _ _ (Ne.symm (hreg.id_not_below (Or.inl hs)))]
        exact treeHash_present_mono E A f r _ hok1 hreg.node_right _ (IL s hs hm)
      · rw [Heap.read_write_other _ _ _ _ _ (Ne.symm (hreg.id_not_below (Or.inr hs)))]
        exact IR s hs hm
    · rw [(treeHashC_hit E A h (.node id l r) (fun _ => hz)).2]
      exact hcl _ (Tree.self_mem_subtrees _) rfl hz s hs hm

/-- **the cycle**: from a fully memoised tree, a flush followed by a root computation gives a
fully memoised tree again (so `C10_rehash_only_rewritten` applies to the next flush as well). -/
theorem C10_cycle_memoised [DecidableEq H] (E : Elem T H) (A : HashAlg H) (pf : Option Nat)
    (m : UMap T) (f : Registry T) (h : Heap H) (t : Tree T) (hok : HeapOK E A f h)
    (hreg : Registered f t)
    (hmemo : ∀ s ∈ t.subtrees, s.hasMemo = true → h.read A.zero s.id ≠ A.zero)
    (d pfx : Nat) (t' : Tree T) (h1 : Heap H)
    (he : updLeaves pf A.zero m h t pfx d = .ok (t', h1))
    (hnz : ∀ s ∈ t'.subtrees, s.hasMemo = true → trueHash E A s ≠ A.zero) :
    ∃ f', HeapOK E A f' (treeHash E A h1 t').2 ∧ Registered f' t' ∧
      ∀ s ∈ t'.subtrees, s.hasMemo = true →
        (treeHash E A h1 t').2.read A.zero s.id ≠ A.zero := by
  obtain ⟨f', _, hok', hreg'⟩ := updLeaves_reg E A pf m d f h t pfx t' h1 hok hreg he
  refine ⟨f', (treeHash_spec E A f' t' h1 hok' hreg').2.1, hreg', ?_⟩
  apply treeHash_memoises_all E A f' t' h1 hok' hreg' hnz
  intro s hs hm hp u hu hmu
  obtain ⟨ext, sub, _, _⟩ := updLeaves_frame pf A.zero m d h t pfx t' h1 he
  rcases sub s hs with h' | h'
  · have hu' : u ∈ t.subtrees := Tree.reg_subtrees_trans h' hu
    have hb : u.id < h.next := hok.bound _ _ (hreg u hu')
    rw [ext.2.1 _ hb]
    exact hmemo u hu' hmu
  · exact absurd (ext.2.2 _ h'.1) hp

/-! ## 7. non-vacuity -/

namespace HashCostExample

def E : Elem Nat Nat :=
  { pf := none, leafHash := fun v => v + 1,
    packHash := fun vs => vs.foldl (fun a v => 10 * a + v) 7,
    fixedLen := some 8, enc := fun _ => [], dec := fun _ => none }
def A : HashAlg Nat := ⟨0, fun a b => 2 * a + 3 * b + 1⟩

/-- unpacked elements `[1, 5]` in a depth-2 tree (capacity 4). -/
def t2 : Tree Nat := .leaf 2 1
def t3 : Tree Nat := .leaf 3 5
def t1 : Tree Nat := .node 1 t2 t3
def t4 : Tree Nat := .zero 4 1
def t0 : Tree Nat := .node 0 t1 t4
def f : Registry Nat := fun i => [t0, t1, t2, t3, t4][i]?
/-- all memos absent. -/
def h0 : Heap Nat := ⟨#[0, 0, 0, 0, 0]⟩
/-- the heap after the first root computation. -/
def hA : Heap Nat := (treeHash E A h0 t0).2
def m : UMap Nat := .btree [(1, 9)]

theorem pfOK : PfOK E.pf := by intro p hp; cases hp

theorem reg : Registered f t0 := by
  intro s hs
  simp only [t0, t1, t2, t3, t4, Tree.subtrees, List.mem_cons, List.mem_append,
    List.not_mem_nil, or_false] at hs
  rcases hs with rfl | (rfl | rfl | rfl) | rfl <;> rfl

theorem heapOK : HeapOK E A f h0 := by
  constructor
  · intro id s hs
    exact (List.getElem?_eq_some_iff.1 hs).1
  · intro id s hs
    have hlt : id < 5 := (List.getElem?_eq_some_iff.1 hs).1
    left
    have : id = 0 ∨ id = 1 ∨ id = 2 ∨ id = 3 ∨ id = 4 := by omega
    rcases this with rfl | rfl | rfl | rfl | rfl <;> rfl

theorem nz : ∀ s ∈ t0.subtrees, s.hasMemo = true → trueHash E A s ≠ A.zero := by decide

theorem heapOKA : HeapOK E A f hA := (treeHash_spec E A f t0 h0 heapOK reg).2.1

/-- the first root computation memoises everything (`treeHash_memoises_all`; the closure
hypothesis holds trivially in the all-absent heap). -/
theorem memoA : ∀ s ∈ t0.subtrees, s.hasMemo = true → hA.read A.zero s.id ≠ A.zero :=
  treeHash_memoises_all E A f t0 h0 heapOK reg nz (by
    intro s hs _ hp
    simp only [t0, t1, t2, t3, t4, Tree.subtrees, List.mem_cons, List.mem_append,
      List.not_mem_nil, or_false] at hs
    rcases hs with rfl | (rfl | rfl | rfl) | rfl <;> exact absurd rfl hp)

/-- targets 1–2: the first root computation costs 4 = the number of distinct absent memos
(nodes 0, 1, 2, 3; the `Zero` node 4 costs nothing). -/
example : (treeHashC E A h0 t0).1 = treeHash E A h0 t0 := treeHashC_fst E A t0 h0
example : (treeHashC E A h0 t0).2 = 4 := by decide
example : (treeHashC E A h0 t0).2 ≤ (t0.absentIds A h0).length :=
  treeHashC_le_absentIds E A f t0 h0 heapOK reg (fun s hs hm _ => nz s hs hm)
example : (t0.absentIds A h0).length = 4 := by decide

/-- target 3: the second root computation costs nothing. -/
example : (treeHashC E A hA t0).2 = 0 ∧ (treeHash E A hA t0).2 = hA :=
  treeHashC_memoised_zero E A hA t0 memoA

/-- target 4 on the flush of `{1 ↦ 9}` (one key, depth 2): hypotheses instantiated. -/
example : ∀ t' h1, updLeaves E.pf A.zero m hA t0 0 2 = .ok (t', h1) →
    (treeHashC E A h1 t').2 ≤ (m.range 0 (0 + cap E.pf 2)).length * (3 * 2 + 3) ∧
    (∀ i, (treeHash E A h1 t').2.read A.zero i ≠ h1.read A.zero i →
      hA.next ≤ i ∧ i < h1.next ∧ h1.read A.zero i = A.zero ∧
      ∃ s ∈ t'.subtrees, s.id = i ∧ (treeHash E A h1 t').2.read A.zero i = trueHash E A s) ∧
    (treeHash E A h1 t').2.next = h1.next :=
  fun t' h1 he => C10_rehash_only_rewritten E A E.pf pfOK m (by simp [m, UMap.WF, KeysAsc]) f hA t0
    heapOKA reg memoA 2 0 (by decide) (by decide) t' h1 he

example : (m.range 0 (0 + cap E.pf 2)).length = 1 := by decide

/-- the same run evaluated: the flush succeeds and allocates three nodes (leaf 5, nodes 6 and 7);
the next root computation costs exactly 3 and writes exactly the memos 5, 6, 7. -/
example : updLeaves E.pf A.zero m hA t0 0 2 =
    .ok (.node 7 (.node 6 (.leaf 2 1) (.leaf 5 9)) (.zero 4 1),
      ⟨#[50, 23, 2, 6, 0, 0, 0, 0]⟩) := by rfl

example : (match updLeaves E.pf A.zero m hA t0 0 2 with
    | .ok (t', h1) => some ((treeHashC E A h1 t').2, (treeHash E A h1 t').2)
    | .error _ => none) = some (3, ⟨#[50, 23, 2, 6, 0, 10, 35, 74]⟩) := by rfl

/-- the cycle: the tree is fully memoised again. -/
example : ∀ t' h1, updLeaves E.pf A.zero m hA t0 0 2 = .ok (t', h1) →
    (∀ s ∈ t'.subtrees, s.hasMemo = true → trueHash E A s ≠ A.zero) →
    ∃ f', HeapOK E A f' (treeHash E A h1 t').2 ∧ Registered f' t' ∧
      ∀ s ∈ t'.subtrees, s.hasMemo = true →
        (treeHash E A h1 t').2.read A.zero s.id ≠ A.zero :=
  fun t' h1 he hnz => C10_cycle_memoised E A E.pf m f hA t0 heapOKA reg memoA 2 0 t' h1 he hnz

/-- the collection-level form: `List<_, 4>` holding `[1, 5]` with the pending write `{1 ↦ 9}`. -/
def c : Coll Nat := ⟨.list, t0, 2, 2, m⟩

example : ∀ c' h1, Coll.applyUpdates E.pf A.zero ⟨4, .btree⟩ c hA = (.ok (), c', h1) →
    (treeHashC E A h1 c'.tree).2 ≤ c.updates.entries.length * (3 * c.depth + 3) ∧
    (∀ i, (treeHash E A h1 c'.tree).2.read A.zero i ≠ h1.read A.zero i →
      hA.next ≤ i ∧ i < h1.next) :=
  fun c' h1 he => C10_applyUpdates_rehash E A E.pf pfOK ⟨4, .btree⟩ c f hA heapOKA reg memoA
    (by simp [c, m, UMap.WF, KeysAsc]) (by decide)
    (by intro k v hkv
        have : cap E.pf c.depth = 4 := by decide
        simp [c, m, UMap.entries] at hkv; omega)
    c' h1 he

example : (Coll.applyUpdates E.pf A.zero ⟨4, .btree⟩ c hA).1 = .ok () := by rfl
example : c.updates.entries.length * (3 * c.depth + 3) = 9 := by decide

end HashCostExample

namespace HashCostCounter

/-- a leaf value whose hash is the all-zero word. -/
def E : Elem Nat Nat :=
  { pf := none, leafHash := fun v => v, packHash := fun _ => 1,
    fixedLen := none, enc := fun _ => [], dec := fun _ => none }
def A : HashAlg Nat := ⟨0, fun a b => a + b + 1⟩
/-- the leaf 1 is shared by both children. -/
def t : Tree Nat := .node 0 (.leaf 1 0) (.leaf 1 0)
def f : Registry Nat := fun i => [t, Tree.leaf 1 0][i]?
def h : Heap Nat := ⟨#[0, 0]⟩

end HashCostCounter

/-- **why `hnz` is needed in `treeHashC_le_absent`**: with a leaf whose hash is the all-zero word,
a shared leaf is hashed at every visit (the memo just written reads as "absent"): 3 evaluations
for 2 distinct absent memos. `treeHashC_le_absent_occ` (occurrences) still holds: 3 ≤ 3. -/
theorem treeHashC_zero_hash_counterexample :
    HeapOK HashCostCounter.E HashCostCounter.A HashCostCounter.f HashCostCounter.h ∧
    Registered HashCostCounter.f HashCostCounter.t ∧
    (treeHashC HashCostCounter.E HashCostCounter.A HashCostCounter.h HashCostCounter.t).2 = 3 ∧
    (HashCostCounter.t.absentIds HashCostCounter.A HashCostCounter.h).length = 2 ∧
    HashCostCounter.t.subtrees.countP (Tree.absentIn HashCostCounter.A HashCostCounter.h) = 3 := by
  refine ⟨⟨?_, ?_⟩, ?_, by decide, by decide, by decide⟩
  · intro id s hs
    exact (List.getElem?_eq_some_iff.1 hs).1
  · intro id s hs
    have hlt : id < 2 := (List.getElem?_eq_some_iff.1 hs).1
    left
    have : id = 0 ∨ id = 1 := by omega
    rcases this with rfl | rfl <;> rfl
  · intro s hs
    simp only [HashCostCounter.t, Tree.subtrees, List.mem_cons, List.mem_append,
      List.not_mem_nil, or_false] at hs
    rcases hs with rfl | rfl | rfl <;> rfl

end Milhouse

