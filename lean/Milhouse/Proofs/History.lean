import Milhouse.Proofs.CollOps
/-!
# C01 over all finite histories: a `List` / `Vector` handle refines a plain bounded sequence

`Proofs/CollOps.lean` proves, operation by operation, that under the collection invariant
`CollInv pf cfg c xs` each public operation acts on the shown sequence `Coll.view xs c` like the
operation on a plain vector. This file closes the *unbounded* quantifier of property C01 ("after ANY
SERIES of constructions, element writes, pushes, admissible bulk updates, flushes …"):

* `HOp T` is the language of operations on one handle, `HOut T` what a call returns;
* `mstep` / `mrun` run an operation / a history on the *model* (calling the real model functions);
* `sstep` / `srun` run it on a *plain sequence* `List T × Bool` (the `Bool` is "writes pending"),
  written without any reference to trees, heaps or update maps;
* `step_refines`, `run_refines`, `C01_history_refines_plain_sequence`: for every finite history the
  outputs coincide and the final model state satisfies the invariant and shows the final plain
  sequence;
* corollaries `C14_history_map_independent`, `C15_history_total_wellformed`,
  `C05_history_bounded`.

No `UMap.Normal`-style side condition is needed: the refinement only looks at the pending map
through `entries` (`view`, `hasPending`), never at its literal representation, so the invariant of
the induction is `CollInv` alone. `bulk` on a vector is `HOut.unsupported` on both sides (the Rust
`Vector` has no `bulk_update`).
-/
namespace Milhouse
variable {T H : Type}

open Coll (gapCheck)

/-! ## The operation language -/

/-- the operations on one `List` / `Vector` handle. -/
inductive HOp (T : Type) where
  /-- `push(x)` -/
  | push (x : T)
  /-- `*get_mut(i)? = x` (returns the value seen before the write) -/
  | getMut (i : Nat) (x : T)
  /-- `get_cow(i)?` followed by `act` (returns the value read through the handle first) -/
  | cow (i : Nat) (act : CowAct T)
  /-- `bulk_update(m)` where `m` is `U::default()` with `kvs` inserted in order (lists only) -/
  | bulk (kvs : List (Nat × T))
  /-- `apply_updates()` -/
  | apply
  | len
  | isEmpty
  /-- `has_pending_updates()` -/
  | pending
  | get (i : Nat)
  | toVec
  /-- `iter_from(i)` drained, with the size hint before every item and at the end -/
  | iterFrom (i : Nat)
  /-- `apply_updates()` followed by `to_vec()` of the flushed collection: what is observed through
  the flushed state (as `tree_hash_root`, `pop_front`, `rebase_on` … do) -/
  | flushToVec
  deriving Repr

/-- what a call returns. -/
inductive HOut (T : Type) where
  | ok
  | error (e : Err)
  | none
  | some (v : T)
  | nat (n : Nat)
  | bool (b : Bool)
  | vals (l : List T)
  /-- the items of an iterator, each with the remaining size reported before it, and the remaining
  size reported at the end -/
  | items (l : List (Nat × T)) (fin : Nat)
  /-- the operation does not exist for this kind of handle (`Vector` has no `bulk_update`) -/
  | unsupported
  deriving DecidableEq, Repr

/-- the map handed to `bulk_update`: `kvs` inserted in order into `U::default()`. -/
def bulkMap (k : MapKind) (kvs : List (Nat × T)) : UMap T :=
  kvs.foldl (fun m kv => m.insert kv.1 kv.2) (UMap.empty k)

/-! ## The model step: the real model functions -/

/-- one operation on the model. A rejected call leaves the state unchanged exactly as the Rust
does (`push` / `bulk_update` return only the error); `apply_updates` always returns a collection. -/
def mstep (pf : Option Nat) (z : H) (cfg : Cfg) : Coll T × Heap H → HOp T →
    HOut T × (Coll T × Heap H)
  | (c, h), .push x =>
    match c.push cfg x with
    | .error e => (.error e, (c, h))
    | .ok c' => (.ok, (c', h))
  | (c, h), .getMut i x =>
    match c.getMutSet pf i x with
    | Option.none => (.none, (c, h))
    | Option.some (old, c') => (.some old, (c', h))
  | (c, h), .cow i act =>
    match c.getCow pf i act with
    | Option.none => (.none, (c, h))
    | Option.some (old, c') => (.some old, (c', h))
  | (c, h), .bulk kvs =>
    match c.kind with
    | .vector => (.unsupported, (c, h))
    | .list =>
      match c.bulkUpdate cfg (bulkMap cfg.map kvs) with
      | .error e => (.error e, (c, h))
      | .ok c' => (.ok, (c', h))
  | (c, h), .apply =>
    match c.applyUpdates pf z cfg h with
    | (.ok (), c', h') => (.ok, (c', h'))
    | (.error e, c', h') => (.error e, (c', h'))
  | (c, h), .len => (.nat c.len, (c, h))
  | (c, h), .isEmpty => (.bool c.isEmpty, (c, h))
  | (c, h), .pending => (.bool c.hasPending, (c, h))
  | (c, h), .get i =>
    match c.get pf i with
    | Option.none => (.none, (c, h))
    | Option.some v => (.some v, (c, h))
  | (c, h), .toVec =>
    match c.toVec pf with
    | .error e => (.error e, (c, h))
    | .ok l => (.vals l, (c, h))
  | (c, h), .iterFrom i =>
    match c.iterFrom pf i with
    | .error e => (.error e, (c, h))
    | .ok (its, fin) => (.items its fin, (c, h))
  | (c, h), .flushToVec =>
    match c.applyUpdates pf z cfg h with
    | (.ok (), c', h') =>
      match c'.toVec pf with
      | .error e => (.error e, (c', h'))
      | .ok l => (.vals l, (c', h'))
    | (.error e, c', h') => (.error e, (c', h'))

/-- a history on the model: the outputs in order and the final state. -/
def mrun (pf : Option Nat) (z : H) (cfg : Cfg) : Coll T × Heap H → List (HOp T) →
    List (HOut T) × (Coll T × Heap H)
  | s, [] => ([], s)
  | s, op :: ops =>
    ((mstep pf z cfg s op).1 :: (mrun pf z cfg (mstep pf z cfg s op).2 ops).1,
      (mrun pf z cfg (mstep pf z cfg s op).2 ops).2)

/-! ## The specification step: a plain bounded sequence

Nothing below mentions trees, heaps or update maps: the state is `List T × Bool`. -/

/-- key-sorted, last-insert-wins association list of `kvs`. -/
def plainAssoc (kvs : List (Nat × T)) : List (Nat × T) :=
  kvs.foldl (fun l kv => assocInsert kv.1 kv.2 l) []

/-- overwrite / append the entries in order. -/
def plainApply (v : List T) (es : List (Nat × T)) : List T :=
  es.foldl (fun acc kv => if kv.1 < acc.length then acc.set kv.1 kv.2 else acc ++ [kv.2]) v

/-- every element paired with the number of elements from it to the end. -/
def withRemaining : List T → List (Nat × T)
  | [] => []
  | x :: rest => (rest.length + 1, x) :: withRemaining rest

/-- the effect of an action on a copy-on-write handle at `i` on the plain sequence and its flag. -/
def plainCow (act : CowAct T) (i : Nat) (s : List T × Bool) : List T × Bool :=
  match act with
  | .read => s
  | .intoMut x => (s.1.set i x, true)
  | .makeMut x => (s.1.set i x, true)
  | .makeMut2 _ y => (s.1.set i y, true)

/-- `bulk_update` on a plain bounded list. -/
def plainBulk (N : Nat) (s : List T × Bool) (kvs : List (Nat × T)) : HOut T × (List T × Bool) :=
  if s.2 then (.error .bulkUpdateUnclean, s)
  else
    let es := plainAssoc kvs
    if es.any (fun p => decide (N ≤ p.1)) then (.error .invalidListUpdate, s)
    else
      match gapCheck s.1.length (es.filter (fun p => decide (s.1.length ≤ p.1))) with
      | Option.some (k, next) => (.error (.outOfBoundsUpdate k next), s)
      | Option.none => (.ok, (plainApply s.1 es, !es.isEmpty))

/-- one operation on a plain sequence of capacity `N` (`kind` says whether the handle is a list or
a vector). -/
def sstep (N : Nat) (kind : CKind) : List T × Bool → HOp T → HOut T × (List T × Bool)
  | s, .push x =>
    match kind with
    | .vector => (.error .pushNotSupported, s)
    | .list => if s.1.length = N then (.error (.listFull N), s) else (.ok, (s.1 ++ [x], true))
  | s, .getMut i x =>
    match s.1[i]? with
    | Option.none => (.none, s)
    | Option.some old => (.some old, (s.1.set i x, true))
  | s, .cow i act =>
    match s.1[i]? with
    | Option.none => (.none, s)
    | Option.some old => (.some old, plainCow act i s)
  | s, .bulk kvs =>
    match kind with
    | .vector => (.unsupported, s)
    | .list => plainBulk N s kvs
  | s, .apply => (.ok, (s.1, false))
  | s, .len => (.nat s.1.length, s)
  | s, .isEmpty => (.bool s.1.isEmpty, s)
  | s, .pending => (.bool s.2, s)
  | s, .get i =>
    match s.1[i]? with
    | Option.none => (.none, s)
    | Option.some v => (.some v, s)
  | s, .toVec => (.vals s.1, s)
  | s, .iterFrom i =>
    if i > s.1.length then (.error (.outOfBoundsIterFrom i s.1.length), s)
    else (.items (withRemaining (s.1.drop i)) 0, s)
  | s, .flushToVec => (.vals s.1, (s.1, false))

/-- a history on the plain sequence. -/
def srun (N : Nat) (kind : CKind) : List T × Bool → List (HOp T) → List (HOut T) × (List T × Bool)
  | s, [] => ([], s)
  | s, op :: ops =>
    ((sstep N kind s op).1 :: (srun N kind (sstep N kind s op).2 ops).1,
      (srun N kind (sstep N kind s op).2 ops).2)

/-! ## The map built for `bulk_update` -/

theorem hist_keysAsc_fold (kvs : List (Nat × T)) (l : List (Nat × T)) (hl : KeysAsc l) :
    KeysAsc (kvs.foldl (fun l kv => assocInsert kv.1 kv.2 l) l) := by
  induction kvs generalizing l with
  | nil => exact hl
  | cons p rest ih => exact ih _ (keysAsc_assocInsert p.1 p.2 l hl)

theorem keysAsc_plainAssoc (kvs : List (Nat × T)) : KeysAsc (plainAssoc kvs) :=
  hist_keysAsc_fold kvs [] List.Pairwise.nil

theorem hist_bulk_fold (kvs : List (Nat × T)) (m : UMap T) (l : List (Nat × T))
    (hwf : m.WF) (hx : m.MaxExact) (hg : ∀ k, m.get k = assocGet k l) :
    (kvs.foldl (fun m kv => m.insert kv.1 kv.2) m).WF ∧
    (kvs.foldl (fun m kv => m.insert kv.1 kv.2) m).MaxExact ∧
    (kvs.foldl (fun m kv => m.insert kv.1 kv.2) m).kind = m.kind ∧
    ∀ k, (kvs.foldl (fun m kv => m.insert kv.1 kv.2) m).get k =
      assocGet k (kvs.foldl (fun l kv => assocInsert kv.1 kv.2 l) l) := by
  induction kvs generalizing m l with
  | nil => exact ⟨hwf, hx, rfl, hg⟩
  | cons p rest ih =>
    have := ih (m.insert p.1 p.2) (assocInsert p.1 p.2 l) (UMap.WF_insert m hwf _ _)
      (UMap.MaxExact_insert m hx _ _)
      (fun k => by rw [UMap.get_insert, assocGet_assocInsert, hg])
    rw [UMap.kind_insert] at this
    exact this

/-- the map handed to `bulk_update` is well-formed, of the configured type, has an exact `max_key`
and its entries are the plain association list of `kvs`. -/
theorem bulkMap_spec (k : MapKind) (kvs : List (Nat × T)) :
    (bulkMap k kvs).WF ∧ (bulkMap k kvs).MaxExact ∧ (bulkMap k kvs).kind = k ∧
      (bulkMap k kvs).entries = plainAssoc kvs := by
  obtain ⟨h1, h2, h3, h4⟩ := hist_bulk_fold kvs (UMap.empty k : UMap T) [] (UMap.WF_empty k)
    (UMap.MaxExact_empty k) (fun j => by rw [UMap.get_empty]; rfl)
  refine ⟨h1, h2, h3.trans (UMap.kind_empty k), ?_⟩
  apply keysAsc_ext _ _ (UMap.entries_keysAsc _ h1) (keysAsc_plainAssoc kvs)
  intro j
  rw [← UMap.get_eq_assocGet]
  exact h4 j

theorem plainApply_eq_applyEntries (v : List T) (es : List (Nat × T)) :
    plainApply v es = applyEntries v es := rfl

/-! ## Small facts about the model functions -/

theorem hist_push_ok_pending {cfg : Cfg} {c c' : Coll T} {x : T} (h : c.push cfg x = .ok c') :
    c'.hasPending = true := by
  unfold Coll.push at h
  split at h
  · cases h
  · simp only at h
    split at h
    · cases h
    · cases h
      simp [Coll.hasPending, UMap.co_isEmpty_insert]

theorem hist_getMutSet_pending {pf : Option Nat} {c c' : Coll T} {i : Nat} {x old : T}
    (h : c.getMutSet pf i x = Option.some (old, c')) : c'.hasPending = true := by
  unfold Coll.getMutSet at h
  split at h
  · rename_i o u hu
    cases h
    unfold UMap.getMutSet at hu
    split at hu
    · cases hu; simp [Coll.hasPending, UMap.co_isEmpty_insertEntry]
    · split at hu
      · cases hu; simp [Coll.hasPending, UMap.co_isEmpty_insertEntry]
      · cases hu
  · cases h

theorem hist_bulkUpdate_ok {cfg : Cfg} {c c' : Coll T} {u : UMap T}
    (h : c.bulkUpdate cfg u = .ok c') : c' = { c with updates := u } := by
  unfold Coll.bulkUpdate at h
  split at h
  · cases h
  · split at h
    · cases h; rfl
    · split at h
      · cases h
      · split at h
        · cases h
        · split at h
          · cases h
          · cases h; rfl

/-- two lists of pairs with the same projections are equal. -/
theorem hist_pairs_ext {α β : Type} : ∀ (a b : List (α × β)),
    a.map (·.1) = b.map (·.1) → a.map (·.2) = b.map (·.2) → a = b
  | [], [], _, _ => rfl
  | [], _ :: _, h, _ => by cases h
  | _ :: _, [], h, _ => by cases h
  | (a1, a2) :: ra, (b1, b2) :: rb, h1, h2 => by
    simp only [List.map_cons, List.cons.injEq] at h1 h2
    obtain ⟨e1, r1⟩ := h1
    obtain ⟨e2, r2⟩ := h2
    subst e1; subst e2
    rw [hist_pairs_ext ra rb r1 r2]

theorem withRemaining_snd (l : List T) : (withRemaining l).map (·.2) = l := by
  induction l with
  | nil => rfl
  | cons x rest ih => simp [withRemaining, ih]

theorem withRemaining_fst (l : List T) :
    (withRemaining l).map (·.1) = (List.range' 1 l.length).reverse := by
  induction l with
  | nil => rfl
  | cons x rest ih =>
    simp only [withRemaining, List.map_cons, ih, List.length_cons]
    rw [List.range'_1_concat, List.reverse_append]
    simp [Nat.add_comm]

/-! ## One step refines the plain sequence -/

/-- what it means for a model result `r` (of a step or of a run, from a collection of kind `k`) to
agree with a spec result `s`: same output, and the new model state satisfies the invariant, shows the spec's new
sequence, has the spec's pending flag and the same kind. -/
def Agrees {α : Type} (pf : Option Nat) (cfg : Cfg) (k : CKind) (r : α × (Coll T × Heap H))
    (s : α × (List T × Bool)) : Prop :=
  r.1 = s.1 ∧ ∃ xs', CollInv pf cfg r.2.1 xs' ∧ Coll.view xs' r.2.1 = s.2.1 ∧
    r.2.1.hasPending = s.2.2 ∧ r.2.1.kind = k

section Step
variable {pf : Option Nat} {cfg : Cfg} {c : Coll T} {xs : List T}

theorem step_push (I : CollInv pf cfg c xs) (z : H) (h : Heap H) (x : T) :
    Agrees pf cfg c.kind (mstep pf z cfg (c, h) (.push x))
      (sstep cfg.N c.kind (Coll.view xs c, c.hasPending) (.push x)) := by
  rcases C15_push_total I x with ⟨hk, hp⟩ | ⟨hk, hfull, hp⟩ | ⟨hk, hroom, c', hp, I', hv⟩
  · simp only [mstep, sstep, hp, hk]
    exact ⟨rfl, xs, I, rfl, rfl, hk⟩
  · simp only [mstep, sstep, hp, hk, hfull, if_true]
    exact ⟨rfl, xs, I, rfl, rfl, hk⟩
  · have hne : ¬ (Coll.view xs c).length = cfg.N := by omega
    simp only [mstep, sstep, hp, hk, if_neg hne]
    refine ⟨rfl, xs, I', hv, hist_push_ok_pending hp, ?_⟩
    obtain ⟨c'', hp', _, _, hk'⟩ := C01_push_ok I x hk hroom
    rw [hp] at hp'; cases hp'; exact hk'

theorem step_getMut (K : CfgOK pf cfg) (I : CollInv pf cfg c xs) (z : H) (h : Heap H) (i : Nat)
    (x : T) :
    Agrees pf cfg c.kind (mstep pf z cfg (c, h) (.getMut i x))
      (sstep cfg.N c.kind (Coll.view xs c, c.hasPending) (.getMut i x)) := by
  by_cases hi : i < (Coll.view xs c).length
  · obtain ⟨c', hg, I', hv, hk⟩ := C01_getMutSet_ok K I i x hi
    simp only [mstep, sstep, hg, List.getElem?_eq_getElem hi]
    exact ⟨rfl, xs, I', hv, hist_getMutSet_pending hg, hk⟩
  · have hg := C15_getMutSet_none K I i x (by omega)
    simp only [mstep, sstep, hg, List.getElem?_eq_none (Nat.le_of_not_lt hi)]
    exact ⟨rfl, xs, I, rfl, rfl, rfl⟩

theorem hist_cow_state (i : Nat) (act : CowAct T) (c' : Coll T)
    (old : T) (hg : c.getCow pf i act = Option.some (old, c'))
    (hv : Coll.view xs c' = act.onView i (Coll.view xs c)) :
    (Coll.view xs c', c'.hasPending) = plainCow act i (Coll.view xs c, c.hasPending) := by
  unfold Coll.getCow at hg
  simp only at hg
  split at hg
  · cases hg
  · cases act with
    | read => simp only at hg; cases hg; rfl
    | intoMut x =>
      simp only at hg; cases hg
      simp only [plainCow, hv]
      simp [Coll.hasPending, UMap.co_isEmpty_insertEntry, CowAct.onView]
    | makeMut x =>
      simp only at hg; cases hg
      simp only [plainCow, hv]
      simp [Coll.hasPending, UMap.co_isEmpty_insertEntry, CowAct.onView]
    | makeMut2 x y =>
      simp only at hg; cases hg
      simp only [plainCow, hv]
      simp [Coll.hasPending, UMap.co_isEmpty_insertEntry, CowAct.onView]

theorem step_cow (K : CfgOK pf cfg) (I : CollInv pf cfg c xs) (z : H) (h : Heap H) (i : Nat)
    (act : CowAct T) :
    Agrees pf cfg c.kind (mstep pf z cfg (c, h) (.cow i act))
      (sstep cfg.N c.kind (Coll.view xs c, c.hasPending) (.cow i act)) := by
  by_cases hi : i < (Coll.view xs c).length
  · obtain ⟨c', hg, I', hv, hk⟩ := C01_getCow_ok K I i act hi
    have hs := hist_cow_state i act c' _ hg hv
    simp only [mstep, sstep, hg, List.getElem?_eq_getElem hi]
    refine ⟨rfl, xs, I', ?_, ?_, hk⟩
    · exact congrArg Prod.fst hs
    · exact congrArg Prod.snd hs
  · have hg := C15_getCow_none K I i act (by omega)
    simp only [mstep, sstep, hg, List.getElem?_eq_none (Nat.le_of_not_lt hi)]
    exact ⟨rfl, xs, I, rfl, rfl, rfl⟩

theorem step_bulk (K : CfgOK pf cfg) (I : CollInv pf cfg c xs) (z : H) (h : Heap H)
    (kvs : List (Nat × T)) :
    Agrees pf cfg c.kind (mstep pf z cfg (c, h) (.bulk kvs))
      (sstep cfg.N c.kind (Coll.view xs c, c.hasPending) (.bulk kvs)) := by
  cases hk : c.kind with
  | vector =>
    simp only [mstep, sstep, hk]
    exact ⟨rfl, xs, I, rfl, rfl, hk⟩
  | list =>
    obtain ⟨hwf, hx, hkind, hent⟩ := bulkMap_spec cfg.map kvs
    have hsome : ∀ k, ((bulkMap cfg.map kvs).get k).isSome ↔ ∃ v, (k, v) ∈ plainAssoc kvs := by
      intro k; rw [UMap.get_isSome_iff, hent]
    simp only [mstep, sstep, hk, plainBulk]
    rcases C15_bulkUpdate_total I (bulkMap cfg.map kvs) hkind hwf hx
      (Nat.lt_of_le_of_lt K.le (by decide)) with
      ⟨hp, hb⟩ | ⟨hp, ⟨k, hk1, hk2⟩, hb⟩ | ⟨hp, hkeys, k, nx, hgap, hb⟩ | ⟨hp, hkeys, hgap, c', hb, I', hv⟩
    · simp only [hb, hp, if_true]
      exact ⟨rfl, xs, I, rfl, hp, hk⟩
    · have hany : (plainAssoc kvs).any (fun p => decide (cfg.N ≤ p.1)) = true := by
        obtain ⟨v, hv⟩ := (hsome k).1 hk1
        exact List.any_eq_true.2 ⟨(k, v), hv, by simpa using hk2⟩
      simp only [hb, hp, hany, if_true, Bool.false_eq_true, if_false]
      exact ⟨rfl, xs, I, rfl, hp, hk⟩
    all_goals
      have hany : (plainAssoc kvs).any (fun p => decide (cfg.N ≤ p.1)) = false := by
        rw [List.any_eq_false]
        intro p hp'
        have := hkeys p.1 ((hsome p.1).2 ⟨p.2, hp'⟩)
        simp only [decide_eq_true_eq]; omega
      have hview : Coll.view xs c = xs := C01_view_of_not_pending xs c hp
      have hfil : (plainAssoc kvs).filter (fun p => decide (xs.length ≤ p.1)) =
          (bulkMap cfg.map kvs).range xs.length cfg.N := by
        rw [UMap.range_def, hent]
        apply List.filter_congr
        intro p hp'
        have := hkeys p.1 ((hsome p.1).2 ⟨p.2, hp'⟩)
        simp [this]
    · simp only [hb, hp, hany, Bool.false_eq_true, if_false, hview, hfil, hgap]
      exact ⟨rfl, xs, I, hview, hp, hk⟩
    · simp only [hb, hp, hany, Bool.false_eq_true, if_false, hview, hfil, hgap]
      have hc' := hist_bulkUpdate_ok hb
      refine ⟨rfl, xs, I', ?_, ?_, ?_⟩
      · rw [hv, hent]; rfl
      · subst hc'
        show (!(bulkMap cfg.map kvs).isEmpty) = !(plainAssoc kvs).isEmpty
        rw [UMap.isEmpty, hent]
      · subst hc'; exact hk

theorem step_apply (K : CfgOK pf cfg) (I : CollInv pf cfg c xs) (z : H) (h : Heap H) :
    Agrees pf cfg c.kind (mstep pf z cfg (c, h) .apply)
      (sstep cfg.N c.kind (Coll.view xs c, c.hasPending) .apply) := by
  obtain ⟨c', h', h1, I', he, hv, hk, _⟩ := C01_applyUpdates K I z h
  simp only [mstep, sstep, h1]
  exact ⟨rfl, Coll.view xs c, I', hv, by simp [Coll.hasPending, he], hk⟩

theorem step_flushToVec (K : CfgOK pf cfg) (I : CollInv pf cfg c xs) (z : H) (h : Heap H) :
    Agrees pf cfg c.kind (mstep pf z cfg (c, h) .flushToVec)
      (sstep cfg.N c.kind (Coll.view xs c, c.hasPending) .flushToVec) := by
  obtain ⟨c', h', h1, I', he, hv, hk, _⟩ := C01_applyUpdates K I z h
  simp only [mstep, sstep, h1, C01_toVec K I', hv]
  exact ⟨rfl, Coll.view xs c, I', hv, by simp [Coll.hasPending, he], hk⟩

theorem step_read (K : CfgOK pf cfg) (I : CollInv pf cfg c xs) (z : H) (h : Heap H) (op : HOp T)
    (hop : match op with
      | .len | .isEmpty | .pending | .get _ | .toVec | .iterFrom _ => True
      | _ => False) :
    Agrees pf cfg c.kind (mstep pf z cfg (c, h) op)
      (sstep cfg.N c.kind (Coll.view xs c, c.hasPending) op) := by
  cases op with
  | push _ | getMut _ _ | cow _ _ | bulk _ | apply | flushToVec => exact hop.elim
  | len =>
    simp only [mstep, sstep, C01_len I]
    exact ⟨rfl, xs, I, rfl, rfl, rfl⟩
  | isEmpty =>
    simp only [mstep, sstep, C01_isEmpty I]
    exact ⟨rfl, xs, I, rfl, rfl, rfl⟩
  | pending => exact ⟨rfl, xs, I, rfl, rfl, rfl⟩
  | get i =>
    simp only [mstep, sstep, C01_get K I i]
    cases (Coll.view xs c)[i]? <;> exact ⟨rfl, xs, I, rfl, rfl, rfl⟩
  | toVec =>
    simp only [mstep, sstep, C01_toVec K I]
    exact ⟨rfl, xs, I, rfl, rfl, rfl⟩
  | iterFrom i =>
    by_cases hi : i ≤ (Coll.view xs c).length
    · obtain ⟨its, h1, _, h2, _, h3⟩ := C01_iterFrom_ok K I i hi
      have hits : its = withRemaining ((Coll.view xs c).drop i) := by
        apply hist_pairs_ext
        · rw [h3, withRemaining_fst, List.length_drop]
        · rw [h2, withRemaining_snd]
      simp only [mstep, sstep, h1, if_neg (Nat.not_lt.2 hi), hits]
      exact ⟨rfl, xs, I, rfl, rfl, rfl⟩
    · have h1 := C15_iterFrom_out_of_bounds I i (by omega)
      simp only [mstep, sstep, h1, if_pos (show i > (Coll.view xs c).length by omega)]
      exact ⟨rfl, xs, I, rfl, rfl, rfl⟩

/-- **C01, one step.** Under the invariant, every operation returns on the model what it returns on
the plain sequence the collection shows; the new state satisfies the invariant (for some backing
contents `xs'`), shows the plain model's new sequence, has its pending flag, and the same kind. -/
theorem step_refines (K : CfgOK pf cfg) (I : CollInv pf cfg c xs) (z : H) (h : Heap H)
    (op : HOp T) :
    Agrees pf cfg c.kind (mstep pf z cfg (c, h) op)
      (sstep cfg.N c.kind (Coll.view xs c, c.hasPending) op) := by
  cases op with
  | push x => exact step_push I z h x
  | getMut i x => exact step_getMut K I z h i x
  | cow i act => exact step_cow K I z h i act
  | bulk kvs => exact step_bulk K I z h kvs
  | apply => exact step_apply K I z h
  | len => exact step_read K I z h _ trivial
  | isEmpty => exact step_read K I z h _ trivial
  | pending => exact step_read K I z h _ trivial
  | get i => exact step_read K I z h _ trivial
  | toVec => exact step_read K I z h _ trivial
  | iterFrom i => exact step_read K I z h _ trivial
  | flushToVec => exact step_flushToVec K I z h

end Step

/-! ## All finite histories -/

theorem mrun_append (pf : Option Nat) (z : H) (cfg : Cfg) (s : Coll T × Heap H)
    (a b : List (HOp T)) :
    mrun pf z cfg s (a ++ b) =
      ((mrun pf z cfg s a).1 ++ (mrun pf z cfg (mrun pf z cfg s a).2 b).1,
        (mrun pf z cfg (mrun pf z cfg s a).2 b).2) := by
  induction a generalizing s with
  | nil => rfl
  | cons op rest ih => simp only [List.cons_append, mrun, ih]

theorem srun_append (N : Nat) (kind : CKind) (s : List T × Bool) (a b : List (HOp T)) :
    srun N kind s (a ++ b) =
      ((srun N kind s a).1 ++ (srun N kind (srun N kind s a).2 b).1,
        (srun N kind (srun N kind s a).2 b).2) := by
  induction a generalizing s with
  | nil => rfl
  | cons op rest ih => simp only [List.cons_append, srun, ih]

theorem length_mrun (pf : Option Nat) (z : H) (cfg : Cfg) (s : Coll T × Heap H)
    (ops : List (HOp T)) : (mrun pf z cfg s ops).1.length = ops.length := by
  induction ops generalizing s with
  | nil => rfl
  | cons op rest ih => simp only [mrun, List.length_cons, ih]

/-- **C01, every finite history (the headline).** From every state satisfying the invariant and for
EVERY finite list of operations, the list of outputs of the model is the list of outputs of the
plain bounded sequence started at what the collection shows, and the final model state satisfies
the invariant, shows the plain model's final sequence, has its pending flag, and the same kind. -/
theorem run_refines {pf : Option Nat} {cfg : Cfg} (K : CfgOK pf cfg) (z : H) (ops : List (HOp T)) :
    ∀ (c : Coll T) (h : Heap H) (xs : List T), CollInv pf cfg c xs →
      Agrees pf cfg c.kind (mrun pf z cfg (c, h) ops)
        (srun cfg.N c.kind (Coll.view xs c, c.hasPending) ops) := by
  induction ops with
  | nil => intro c h xs I; exact ⟨rfl, xs, I, rfl, rfl, rfl⟩
  | cons op rest ih =>
    intro c h xs I
    obtain ⟨ho, xs', I', hv, hp, hk⟩ := step_refines K I z h op
    obtain ⟨ho2, xs'', I'', hv2, hp2, hk2⟩ :=
      ih (mstep pf z cfg (c, h) op).2.1 (mstep pf z cfg (c, h) op).2.2 xs' I'
    rw [hv, hp, hk] at ho2 hv2 hp2
    refine ⟨?_, xs'', I'', hv2, hp2, hk2.trans hk⟩
    show (mstep pf z cfg (c, h) op).1 :: _ = (sstep cfg.N c.kind _ op).1 :: _
    rw [ho]
    exact congrArg _ ho2

/-- the state reached in the middle of a history is the state from which the rest of it runs: so
whatever `run_refines` says about final states holds after every step. -/
theorem run_refines_prefix {pf : Option Nat} {cfg : Cfg} (K : CfgOK pf cfg) (z : H)
    (ops : List (HOp T)) (k : Nat) (c : Coll T) (h : Heap H) (xs : List T)
    (I : CollInv pf cfg c xs) :
    Agrees pf cfg c.kind (mrun pf z cfg (c, h) (ops.take k))
        (srun cfg.N c.kind (Coll.view xs c, c.hasPending) (ops.take k)) ∧
      mrun pf z cfg (c, h) ops =
        ((mrun pf z cfg (c, h) (ops.take k)).1 ++
            (mrun pf z cfg (mrun pf z cfg (c, h) (ops.take k)).2 (ops.drop k)).1,
          (mrun pf z cfg (mrun pf z cfg (c, h) (ops.take k)).2 (ops.drop k)).2) := by
  refine ⟨run_refines K z _ c h xs I, ?_⟩
  rw [← mrun_append, List.take_append_drop]

/-! ### the three ways a history can start (and `Vector::from_elem`) -/

section Starts
variable {pf : Option Nat} {cfg : Cfg}

/-- histories starting at `List::empty()`. -/
theorem C01_history_from_empty (K : CfgOK pf cfg) (z : H) (h : Heap H) (ops : List (HOp T)) :
    Agrees pf cfg .list (mrun pf z cfg (Coll.empty (T := T) pf z cfg h) ops)
      (srun cfg.N .list ([], false) ops) := by
  obtain ⟨I, hk, hu, _⟩ := C05_empty (T := T) pf z cfg h
  have := run_refines K z ops _ (Coll.empty (T := T) pf z cfg h).2 [] I
  rw [hk] at this
  have hp : (Coll.empty (T := T) pf z cfg h).1.hasPending = false := by
    rw [C01_hasPending, hu, UMap.co_isEmpty_empty]; rfl
  rw [hp, C01_view_of_not_pending _ _ hp] at this
  exact this

/-- histories starting at `List::try_from_iter(ys)` with `ys.len() ≤ N`. -/
theorem C01_history_from_iter (K : CfgOK pf cfg) (z : H) (ys : List T) (hlen : ys.length ≤ cfg.N)
    (h : Heap H) (ops : List (HOp T)) :
    ∃ c h', Coll.tryFromIter pf z cfg ys h = .ok (c, h') ∧
      Agrees pf cfg .list (mrun pf z cfg (c, h') ops) (srun cfg.N .list (ys, false) ops) := by
  obtain ⟨c, h', h1, I, hk, hu, hv⟩ := C05_tryFromIter_inv K z ys hlen h
  refine ⟨c, h', h1, ?_⟩
  have := run_refines K z ops c h' ys I
  have hp : c.hasPending = false := by rw [C01_hasPending, hu, UMap.co_isEmpty_empty]; rfl
  rw [hk, hp, hv] at this
  exact this

/-- histories starting at `List::repeat(x, n)` with `n ≤ N`. -/
theorem C01_history_from_repeat (K : CfgOK pf cfg) (z : H) (x : T) (n : Nat) (hn : n ≤ cfg.N)
    (h : Heap H) (ops : List (HOp T)) :
    ∃ c h', Coll.repeat_ pf z cfg x n h = .ok (c, h') ∧
      Agrees pf cfg .list (mrun pf z cfg (c, h') ops)
        (srun cfg.N .list (List.replicate n x, false) ops) := by
  obtain ⟨c, h', h1, I, hk, hu, _⟩ := C05_repeat_inv K z x n hn h
  refine ⟨c, h', h1, ?_⟩
  have := run_refines K z ops c h' _ I
  have hp : c.hasPending = false := by rw [C01_hasPending, hu, UMap.co_isEmpty_empty]; rfl
  rw [hk, hp, C01_view_of_not_pending _ _ hp] at this
  exact this

/-- histories of a vector starting at `Vector::from_elem(x)`. -/
theorem C01_history_vector_from_elem (K : CfgOK pf cfg) (z : H) (x : T) (h : Heap H)
    (ops : List (HOp T)) :
    ∃ c h', Coll.vectorFromElem pf z cfg x h = .ok (c, h') ∧
      Agrees pf cfg .vector (mrun pf z cfg (c, h') ops)
        (srun cfg.N .vector (List.replicate cfg.N x, false) ops) := by
  obtain ⟨c, h', h1, I, hk, hu, _⟩ := C05_vector_from_elem_inv K z x h
  refine ⟨c, h', h1, ?_⟩
  have := run_refines K z ops c h' _ I
  have hp : c.hasPending = false := by rw [C01_hasPending, hu, UMap.co_isEmpty_empty]; rfl
  rw [hk, hp, C01_view_of_not_pending _ _ hp] at this
  exact this

/-- **C01.** "A List or Vector behaves exactly like an ordinary bounded sequence: after ANY SERIES
of constructions, element writes, pushes, admissible bulk updates, flushes of pending writes, every
read returns what the same series gives on a plain vector, and every rejected call is rejected with
the same error the plain model predicts": for each of the ways a handle comes into existence and
every finite history `ops`, the model's outputs are the plain model's outputs and the final state
satisfies the invariant and shows the plain model's final sequence (`Agrees`). -/
theorem C01_history_refines_plain_sequence (K : CfgOK pf cfg) (z : H) (h : Heap H)
    (ops : List (HOp T)) :
    Agrees pf cfg .list (mrun pf z cfg (Coll.empty (T := T) pf z cfg h) ops)
      (srun cfg.N .list ([], false) ops) ∧
    (∀ ys : List T, ys.length ≤ cfg.N →
      ∃ c h', Coll.tryFromIter pf z cfg ys h = .ok (c, h') ∧
        Agrees pf cfg .list (mrun pf z cfg (c, h') ops) (srun cfg.N .list (ys, false) ops)) ∧
    (∀ (x : T) (n : Nat), n ≤ cfg.N →
      ∃ c h', Coll.repeat_ pf z cfg x n h = .ok (c, h') ∧
        Agrees pf cfg .list (mrun pf z cfg (c, h') ops)
          (srun cfg.N .list (List.replicate n x, false) ops)) ∧
    (∀ x : T,
      ∃ c h', Coll.vectorFromElem pf z cfg x h = .ok (c, h') ∧
        Agrees pf cfg .vector (mrun pf z cfg (c, h') ops)
          (srun cfg.N .vector (List.replicate cfg.N x, false) ops)) :=
  ⟨C01_history_from_empty K z h ops, fun ys hl => C01_history_from_iter K z ys hl h ops,
    fun x n hn => C01_history_from_repeat K z x n hn h ops,
    fun x => C01_history_vector_from_elem K z x h ops⟩

end Starts

/-! ## C14: the history does not depend on the map type -/

/-- The plain model mentions neither the map type `U`, nor the packing factor, nor the hash type:
two handles of the same kind and capacity that show the same sequence with the same pending flag
answer every history identically, whatever their internal representations. -/
theorem C14_history_independent_of_representation {H1 H2 : Type} {pf1 pf2 : Option Nat}
    {cfg1 cfg2 : Cfg} (K1 : CfgOK pf1 cfg1) (K2 : CfgOK pf2 cfg2) (hN : cfg1.N = cfg2.N)
    (z1 : H1) (z2 : H2) {c1 c2 : Coll T} (h1 : Heap H1) (h2 : Heap H2) {xs1 xs2 : List T}
    (I1 : CollInv pf1 cfg1 c1 xs1) (I2 : CollInv pf2 cfg2 c2 xs2) (hkind : c1.kind = c2.kind)
    (hview : Coll.view xs1 c1 = Coll.view xs2 c2) (hpend : c1.hasPending = c2.hasPending)
    (ops : List (HOp T)) :
    (mrun pf1 z1 cfg1 (c1, h1) ops).1 = (mrun pf2 z2 cfg2 (c2, h2) ops).1 ∧
    ∃ xs1' xs2', CollInv pf1 cfg1 (mrun pf1 z1 cfg1 (c1, h1) ops).2.1 xs1' ∧
      CollInv pf2 cfg2 (mrun pf2 z2 cfg2 (c2, h2) ops).2.1 xs2' ∧
      Coll.view xs1' (mrun pf1 z1 cfg1 (c1, h1) ops).2.1 =
        Coll.view xs2' (mrun pf2 z2 cfg2 (c2, h2) ops).2.1 ∧
      (mrun pf1 z1 cfg1 (c1, h1) ops).2.1.hasPending =
        (mrun pf2 z2 cfg2 (c2, h2) ops).2.1.hasPending := by
  obtain ⟨a1, xs1', a2, a3, a4, _⟩ := run_refines K1 z1 ops c1 h1 xs1 I1
  obtain ⟨b1, xs2', b2, b3, b4, _⟩ := run_refines K2 z2 ops c2 h2 xs2 I2
  rw [hN, hkind, hview, hpend] at a1 a3 a4
  exact ⟨a1.trans b1.symm, xs1', xs2', a2, b2, a3.trans b3.symm, a4.trans b4.symm⟩

/-- **C14.** Two configurations that differ only in the map type `U`: the same history from the
same shown contents yields identical outputs (and identical final contents). -/
theorem C14_history_map_independent {pf : Option Nat} {N : Nat} (k1 k2 : MapKind)
    (K1 : CfgOK pf ⟨N, k1⟩) (K2 : CfgOK pf ⟨N, k2⟩) (z : H) {c1 c2 : Coll T} (h1 h2 : Heap H)
    {xs1 xs2 : List T} (I1 : CollInv pf ⟨N, k1⟩ c1 xs1) (I2 : CollInv pf ⟨N, k2⟩ c2 xs2)
    (hkind : c1.kind = c2.kind) (hview : Coll.view xs1 c1 = Coll.view xs2 c2)
    (hpend : c1.hasPending = c2.hasPending) (ops : List (HOp T)) :
    (mrun pf z ⟨N, k1⟩ (c1, h1) ops).1 = (mrun pf z ⟨N, k2⟩ (c2, h2) ops).1 ∧
      (mrun pf z ⟨N, k1⟩ (c1, h1) ops).2.1.toVec pf =
        (mrun pf z ⟨N, k2⟩ (c2, h2) ops).2.1.toVec pf := by
  obtain ⟨a, xs1', xs2', b1, b2, b3, _⟩ :=
    C14_history_independent_of_representation K1 K2 rfl z z h1 h2 I1 I2 hkind hview hpend ops
  exact ⟨a, by rw [C01_toVec K1 b1, C01_toVec K2 b2, b3]⟩

/-- **C14**, from construction: lists built from the same elements with two map types answer every
history identically. -/
theorem C14_history_map_independent_from_iter {pf : Option Nat} {N : Nat} (k1 k2 : MapKind)
    (K1 : CfgOK pf ⟨N, k1⟩) (K2 : CfgOK pf ⟨N, k2⟩) (z : H) (ys : List T) (hlen : ys.length ≤ N)
    (h1 h2 : Heap H) (ops : List (HOp T)) :
    ∃ c1 g1 c2 g2, Coll.tryFromIter pf z ⟨N, k1⟩ ys h1 = .ok (c1, g1) ∧
      Coll.tryFromIter pf z ⟨N, k2⟩ ys h2 = .ok (c2, g2) ∧
      (mrun pf z ⟨N, k1⟩ (c1, g1) ops).1 = (mrun pf z ⟨N, k2⟩ (c2, g2) ops).1 ∧
      (mrun pf z ⟨N, k1⟩ (c1, g1) ops).2.1.toVec pf =
        (mrun pf z ⟨N, k2⟩ (c2, g2) ops).2.1.toVec pf := by
  obtain ⟨c1, g1, e1, I1, hk1, hu1, hv1⟩ := C05_tryFromIter_inv K1 z ys hlen h1
  obtain ⟨c2, g2, e2, I2, hk2, hu2, hv2⟩ := C05_tryFromIter_inv K2 z ys hlen h2
  have hp1 : c1.hasPending = false := by rw [C01_hasPending, hu1, UMap.co_isEmpty_empty]; rfl
  have hp2 : c2.hasPending = false := by rw [C01_hasPending, hu2, UMap.co_isEmpty_empty]; rfl
  obtain ⟨a, b⟩ := C14_history_map_independent k1 k2 K1 K2 z g1 g2 I1 I2 (hk1.trans hk2.symm)
    (hv1.trans hv2.symm) (hp1.trans hp2.symm) ops
  exact ⟨c1, g1, c2, g2, e1, e2, a, b⟩

/-! ## C15: every call is total and predictable along every history -/

/-- the errors the plain model can report. -/
def PlainErr (N : Nat) (len : Nat) (e : Err) : Prop :=
  e = .pushNotSupported ∨ e = .listFull N ∨ e = .bulkUpdateUnclean ∨ e = .invalidListUpdate ∨
    (∃ k next, e = .outOfBoundsUpdate k next) ∨ (∃ i, e = .outOfBoundsIterFrom i len)

/-- read off `sstep`: an operation of the plain model that reports an error changes nothing, and
the error is one of the six documented ones (never a panic). -/
theorem sstep_error (N : Nat) (kind : CKind) (s : List T × Bool) (op : HOp T) (e : Err)
    (h : (sstep N kind s op).1 = .error e) :
    (sstep N kind s op).2 = s ∧ PlainErr N s.1.length e := by
  unfold PlainErr
  cases op with
  | push x =>
    simp only [sstep] at h ⊢
    cases kind with
    | vector => simp only at h ⊢; cases h; exact ⟨by trivial, Or.inl rfl⟩
    | list =>
      simp only at h ⊢
      split at h
      · rename_i hf; rw [if_pos hf]; cases h; exact ⟨by trivial, Or.inr (Or.inl rfl)⟩
      · cases h
  | getMut i x => simp only [sstep] at h; split at h <;> cases h
  | cow i act => simp only [sstep] at h; split at h <;> cases h
  | bulk kvs =>
    simp only [sstep] at h ⊢
    cases kind with
    | vector => simp only at h; cases h
    | list =>
      simp only [plainBulk] at h ⊢
      split at h
      · rename_i h1; rw [if_pos h1]; cases h; exact ⟨by trivial, Or.inr (Or.inr (Or.inl rfl))⟩
      · rename_i h1; rw [if_neg h1]
        split at h
        · rename_i h2; rw [if_pos h2]; cases h
          exact ⟨by trivial, Or.inr (Or.inr (Or.inr (Or.inl rfl)))⟩
        · rename_i h2; rw [if_neg h2]
          split at h
          · rename_i k nx hg; cases h
            exact ⟨by trivial, Or.inr (Or.inr (Or.inr (Or.inr (Or.inl ⟨k, nx, rfl⟩))))⟩
          · cases h
  | apply => simp only [sstep] at h; cases h
  | len => simp only [sstep] at h; cases h
  | isEmpty => simp only [sstep] at h; cases h
  | pending => simp only [sstep] at h; cases h
  | get i => simp only [sstep] at h; split at h <;> cases h
  | toVec => simp only [sstep] at h; cases h
  | iterFrom i =>
    simp only [sstep] at h ⊢
    split at h
    · rename_i h1; rw [if_pos h1]; cases h
      exact ⟨by trivial, Or.inr (Or.inr (Or.inr (Or.inr (Or.inr ⟨i, rfl⟩))))⟩
    · cases h
  | flushToVec => simp only [sstep] at h; cases h

theorem PlainErr.ne_panic {N len : Nat} {e : Err} (h : PlainErr N len e) : e ≠ .panic := by
  rcases h with h | h | h | h | ⟨_, _, h⟩ | ⟨_, h⟩ <;> rw [h] <;> intro h' <;> cases h'

theorem srun_no_panic (N : Nat) (kind : CKind) (ops : List (HOp T)) :
    ∀ (s : List T × Bool), ∀ o ∈ (srun N kind s ops).1, o ≠ HOut.error .panic := by
  induction ops with
  | nil => intro s o ho; cases ho
  | cons op rest ih =>
    intro s o ho
    simp only [srun, List.mem_cons] at ho
    rcases ho with ho | ho
    · intro he
      rw [he] at ho
      exact (sstep_error N kind s op .panic ho.symm).2.ne_panic rfl
    · exact ih _ o ho

section C15
variable {pf : Option Nat} {cfg : Cfg} {c : Coll T} {xs : List T}

/-- **C15, one call:** a call that is rejected is rejected with one of the plain model's errors,
and leaves the whole collection (and the memo store) untouched. -/
theorem C15_step_error_unchanged (K : CfgOK pf cfg) (I : CollInv pf cfg c xs) (z : H) (h : Heap H)
    (op : HOp T) (e : Err) (he : (mstep pf z cfg (c, h) op).1 = .error e) :
    (mstep pf z cfg (c, h) op).2 = (c, h) ∧ PlainErr cfg.N (Coll.view xs c).length e := by
  refine ⟨?_, ?_⟩
  · cases op with
    | push x => simp only [mstep] at he ⊢; split at he <;> simp_all
    | getMut i x => simp only [mstep] at he ⊢; split at he <;> simp_all
    | cow i act => simp only [mstep] at he ⊢; split at he <;> simp_all
    | bulk kvs =>
      simp only [mstep] at he ⊢
      split at he
      · simp_all
      · split at he <;> simp_all
    | apply =>
      have hno := C15_applyUpdates_no_error K I z h
      simp only [mstep] at he
      split at he
      · cases he
      · rename_i e' c' h' heq; rw [heq] at hno; cases hno
    | len => rfl
    | isEmpty => rfl
    | pending => rfl
    | get i => simp only [mstep] at he ⊢; split at he <;> simp_all
    | toVec => simp only [mstep] at he ⊢; split at he <;> simp_all
    | iterFrom i => simp only [mstep] at he ⊢; split at he <;> simp_all
    | flushToVec =>
      obtain ⟨c', h', h1, I', _⟩ := C01_applyUpdates K I z h
      simp only [mstep, h1, C01_toVec K I'] at he
      cases he
  · obtain ⟨ho, _⟩ := step_refines K I z h op
    rw [ho] at he
    exact (sstep_error cfg.N c.kind _ op e he).2

/-- a collection is *well-formed as a sequence*: the reads are consistent with each other. -/
def Coll.SeqWF (pf : Option Nat) (c : Coll T) : Prop :=
  ∃ l, c.toVec pf = .ok l ∧ c.len = l.length ∧ c.isEmpty = l.isEmpty ∧
    (∀ i, c.get pf i = l[i]?) ∧ (∀ i, (c.get pf i).isSome ↔ i < c.len)

theorem CollInv.seqWF (K : CfgOK pf cfg) (I : CollInv pf cfg c xs) : c.SeqWF pf := by
  refine ⟨Coll.view xs c, C01_toVec K I, C01_len I, C01_isEmpty I, C01_get K I, ?_⟩
  intro i
  rw [C01_get K I, C01_len I]
  constructor
  · intro hs
    rcases Nat.lt_or_ge i (Coll.view xs c).length with hlt | hge
    · exact hlt
    · rw [List.getElem?_eq_none hge] at hs; cases hs
  · intro hlt; rw [List.getElem?_eq_getElem hlt]; rfl

/-- **C15, every history.** From a state satisfying the invariant, along any finite history:
no call panics; every reported error is one the plain model predicts; the state reached is
well-formed as a sequence (`to_vec` succeeds, `len = to_vec().len()`, `get(i)` is `Some` exactly
for `i < len`); and any further call that is rejected leaves that state exactly as it was.
(Instantiate `ops` with a prefix `ops.take k` of a longer history — see `run_refines_prefix` — to
read this as a statement about the state *after every step*.) -/
theorem C15_history_total_wellformed (K : CfgOK pf cfg) (I : CollInv pf cfg c xs) (z : H)
    (h : Heap H) (ops : List (HOp T)) :
    (∀ o ∈ (mrun pf z cfg (c, h) ops).1, o ≠ HOut.error .panic) ∧
    (∀ e, HOut.error e ∈ (mrun pf z cfg (c, h) ops).1 →
      ∃ len, len ≤ cfg.N ∧ PlainErr cfg.N len e) ∧
    (mrun pf z cfg (c, h) ops).2.1.SeqWF pf ∧
    (∀ op e, (mstep pf z cfg (mrun pf z cfg (c, h) ops).2 op).1 = .error e →
      (mstep pf z cfg (mrun pf z cfg (c, h) ops).2 op).2 = (mrun pf z cfg (c, h) ops).2) := by
  obtain ⟨ho, xs', I', _⟩ := run_refines K z ops c h xs I
  refine ⟨?_, ?_, I'.seqWF K, ?_⟩
  · rw [ho]; exact srun_no_panic _ _ ops _
  · intro e he
    obtain ⟨k, hk, hget⟩ := List.getElem_of_mem he
    have hk' : k < ops.length := by rw [length_mrun] at hk; exact hk
    obtain ⟨_, hsplit⟩ := run_refines_prefix K z ops k c h xs I
    obtain ⟨_, ys, J, _⟩ := run_refines K z (ops.take k) c h xs I
    have hdrop : ops.drop k = ops[k] :: ops.drop (k + 1) := (List.drop_eq_getElem_cons hk')
    have hlen : (mrun pf z cfg (c, h) (ops.take k)).1.length = k := by
      rw [length_mrun, List.length_take]; omega
    have hout : (mrun pf z cfg (c, h) ops).1[k]? =
        Option.some (mstep pf z cfg (mrun pf z cfg (c, h) (ops.take k)).2 ops[k]).1 := by
      rw [hsplit, hdrop]
      simp only [mrun]
      rw [List.getElem?_append_right (by omega), hlen]
      simp
    rw [List.getElem?_eq_getElem hk, hget] at hout
    have hout' := Option.some.inj hout
    exact ⟨_, C05_view_length_le J,
      (C15_step_error_unchanged K J z (mrun pf z cfg (c, h) (ops.take k)).2.2 ops[k] e hout'.symm).2⟩
  · intro op e he
    exact (C15_step_error_unchanged K I' z (mrun pf z cfg (c, h) ops).2.2 op e he).1

/-- **C15**, explicitly after every step `k` of a history. -/
theorem C15_history_total_wellformed_prefix (K : CfgOK pf cfg) (I : CollInv pf cfg c xs) (z : H)
    (h : Heap H) (ops : List (HOp T)) (k : Nat) :
    (mrun pf z cfg (c, h) (ops.take k)).2.1.SeqWF pf :=
  (C15_history_total_wellformed K I z h (ops.take k)).2.2.1

/-! ## C05: the capacity bound along every history -/

/-- **C05, every history.** After any finite history (hence after every step) a list shows at most
`N` elements and a vector exactly `N`; so does the plain model run alongside. -/
theorem C05_history_bounded (K : CfgOK pf cfg) (I : CollInv pf cfg c xs) (z : H)
    (h : Heap H) (ops : List (HOp T)) :
    (mrun pf z cfg (c, h) ops).2.1.len =
        (srun cfg.N c.kind (Coll.view xs c, c.hasPending) ops).2.1.length ∧
    (mrun pf z cfg (c, h) ops).2.1.len ≤ cfg.N ∧
    (c.kind = .vector → (mrun pf z cfg (c, h) ops).2.1.len = cfg.N) := by
  obtain ⟨_, xs', I', hv, _, hk⟩ := run_refines K z ops c h xs I
  refine ⟨by rw [C01_len I', hv], C05_len_le I', fun hvec => C05_len_vector I' (hk.trans hvec)⟩

end C15

/-! ## Non-vacuity: a concrete history, run on the model (all three map kinds) and on the spec -/

namespace HistoryExample

/-- `List<_, 5>` with 4 elements per packed leaf. -/
def exCfg (k : MapKind) : Cfg := ⟨5, k⟩

theorem exCfgOK (k : MapKind) : CfgOK (some 4) (exCfg k) :=
  ⟨exPfOK4, (by show 1 ≤ 5; decide), (by show 5 ≤ 2 ^ 63; decide)⟩

/-- 27 operations: pushes, a `get_mut` write, a `bulk_update` rejected because writes are pending,
a flush, a `bulk_update` rejected for a gap, an admissible one (with a repeated key: the last
insert wins), reads, a push rejected because the list is full, `Cow` handles, iteration with size
hints, an out-of-bounds `iter_from`, a `bulk_update` with a key `≥ N`, and a `get_mut` on a clean
`MaxMap` (which leaves `max_key` stale) followed by reads and a flush, and a read through the
flushed state. -/
def exOps : List (HOp Nat) :=
  [.push 1, .push 2, .push 3, .getMut 1 20, .bulk [(0, 9)], .apply, .bulk [(4, 50), (0, 10)],
   .bulk [(4, 50), (3, 40), (0, 10), (4, 51)], .pending, .len, .push 6, .get 4,
   .cow 2 (.makeMut2 7 30), .cow 9 .read, .iterFrom 3, .apply, .toVec, .iterFrom 7, .bulk [(5, 1)],
   .getMut 3 41, .len, .get 3, .apply, .toVec, .getMut 0 11, .flushToVec, .pending]

def exOuts : List (HOut Nat) :=
  [.ok, .ok, .ok, .some 2, .error .bulkUpdateUnclean, .ok, .error (.outOfBoundsUpdate 4 3), .ok,
   .bool true, .nat 5, .error (.listFull 5), .some 51, .some 3, .none, .items [(2, 40), (1, 51)] 0,
   .ok, .vals [10, 20, 30, 40, 51], .error (.outOfBoundsIterFrom 7 5), .error .invalidListUpdate,
   .some 40, .nat 5, .some 41, .ok, .vals [10, 20, 30, 41, 51], .some 10,
   .vals [11, 20, 30, 41, 51], .bool false]

/-- the initial model state: `List::empty()` on the empty memo store. -/
local notation "exStart" k:max => Coll.empty (T := Nat) (some 4) (0 : Nat) (exCfg k) Heap.empty

def exC (k : MapKind) : Coll Nat := (exStart k).1
def exH (k : MapKind) : Heap Nat := (exStart k).2

-- the plain model, by evaluation
theorem exSpec (k : MapKind) : srun (exCfg k).N .list (([] : List Nat), false) exOps =
    (exOuts, ([11, 20, 30, 41, 51], false)) := by
  show srun 5 .list (([] : List Nat), false) exOps = _
  decide

-- the model itself, by evaluation, for each map kind
example (k : MapKind) : (mrun (some 4) (0 : Nat) (exCfg k) (exStart k) exOps).1 = exOuts := by
  cases k <;> decide

-- the same through the theorem (`C01_history_from_empty`) and evaluation of the plain model only;
-- in addition the final state satisfies the invariant and shows `[11, 20, 30, 41, 51]`.
example (k : MapKind) : (mrun (some 4) (0 : Nat) (exCfg k) (exStart k) exOps).1 = exOuts ∧
    ∃ xs', CollInv (some 4) (exCfg k) (mrun (some 4) (0 : Nat) (exCfg k) (exStart k) exOps).2.1 xs' ∧
      Coll.view xs' (mrun (some 4) (0 : Nat) (exCfg k) (exStart k) exOps).2.1 = [11, 20, 30, 41, 51] := by
  obtain ⟨h1, xs', h2, h3, _⟩ := C01_history_from_empty (exCfgOK k) (0 : Nat) Heap.empty exOps
  rw [exSpec] at h1 h3
  exact ⟨h1, xs', h2, h3⟩

-- the hypotheses of `step_refines` / `run_refines` / `C15_…` / `C05_…` at the start state
theorem exStart_inv (k : MapKind) : CollInv (some 4) (exCfg k) (exC k) [] :=
  (C05_empty (some 4) (0 : Nat) (exCfg k) Heap.empty).1

theorem exStart_facts (k : MapKind) : (exC k).kind = .list ∧ Coll.view [] (exC k) = [] ∧
    (exC k).hasPending = false := by
  cases k <;> decide

example (k : MapKind) : Agrees (some 4) (exCfg k) .list
    (mstep (some 4) (0 : Nat) (exCfg k) (exC k, exH k) (.push 1))
    (sstep 5 .list (([] : List Nat), false) (.push 1)) := by
  have := step_refines (exCfgOK k) (exStart_inv k) (0 : Nat) (exH k) (.push 1)
  rw [(exStart_facts k).1, (exStart_facts k).2.1, (exStart_facts k).2.2] at this
  exact this

theorem exRun (k : MapKind) : Agrees (some 4) (exCfg k) .list
    (mrun (some 4) (0 : Nat) (exCfg k) (exC k, exH k) exOps)
    (srun (exCfg k).N .list (([] : List Nat), false) exOps) := by
  have := run_refines (exCfgOK k) (0 : Nat) exOps (exC k) (exH k) [] (exStart_inv k)
  rw [(exStart_facts k).1, (exStart_facts k).2.1, (exStart_facts k).2.2] at this
  exact this

example (k : MapKind) : (mrun (some 4) (0 : Nat) (exCfg k) (exC k, exH k) exOps).1 = exOuts := by
  have := (exRun k).1
  rw [exSpec] at this
  exact this

-- histories starting at `try_from_iter` / `repeat`
example (k : MapKind) : ∃ c h', Coll.tryFromIter (some 4) (0 : Nat) (exCfg k) [7, 8] Heap.empty
      = .ok (c, h') ∧
    (mrun (some 4) (0 : Nat) (exCfg k) (c, h') [.push 9, .get 2, .bulk [(3, 1)], .len]).1 =
      [.ok, .some 9, .error .bulkUpdateUnclean, .nat 3] := by
  obtain ⟨c, h', h1, h2, _⟩ := C01_history_from_iter (exCfgOK k) (0 : Nat) [7, 8]
    (by show 2 ≤ 5; decide) Heap.empty [.push 9, .get 2, .bulk [(3, 1)], .len]
  rw [show (exCfg k).N = 5 from rfl] at h2
  exact ⟨c, h', h1, h2.trans (by decide)⟩

example (k : MapKind) : ∃ c h', Coll.repeat_ (some 4) (0 : Nat) (exCfg k) (7 : Nat) 5 Heap.empty
      = .ok (c, h') ∧
    (mrun (some 4) (0 : Nat) (exCfg k) (c, h') [.push 9, .getMut 4 1, .toVec]).1 =
      [.error (.listFull 5), .some 7, .vals [7, 7, 7, 7, 1]] := by
  obtain ⟨c, h', h1, h2, _⟩ := C01_history_from_repeat (exCfgOK k) (0 : Nat) (7 : Nat) 5
    (by show 5 ≤ 5; decide) Heap.empty [.push 9, .getMut 4 1, .toVec]
  rw [show (exCfg k).N = 5 from rfl] at h2
  exact ⟨c, h', h1, h2.trans (by decide)⟩

/-- a history on a vector. -/
def exVecOps : List (HOp Nat) :=
  [.push 1, .getMut 2 9, .bulk [(0, 1)], .len, .pending, .cow 5 (.makeMut 3), .apply, .toVec,
   .get 5, .iterFrom 3, .isEmpty]

def exVecOuts : List (HOut Nat) :=
  [.error .pushNotSupported, .some 7, .unsupported, .nat 5, .bool true, .none, .ok,
   .vals [7, 7, 9, 7, 7], .none, .items [(2, 7), (1, 7)] 0, .bool false]

theorem exVecSpec :
    (srun 5 .vector (List.replicate 5 (7 : Nat), false) exVecOps).1 = exVecOuts := by decide

-- the model, by evaluation
example (k : MapKind) :
    (match Coll.vectorFromElem (some 4) (0 : Nat) (exCfg k) (7 : Nat) Heap.empty with
      | .ok s => (mrun (some 4) (0 : Nat) (exCfg k) s exVecOps).1
      | .error _ => []) = exVecOuts := by
  cases k <;> decide

-- the model, through the theorem
example (k : MapKind) : ∃ c h',
    Coll.vectorFromElem (some 4) (0 : Nat) (exCfg k) (7 : Nat) Heap.empty = .ok (c, h') ∧
    (mrun (some 4) (0 : Nat) (exCfg k) (c, h') exVecOps).1 = exVecOuts := by
  obtain ⟨c, h', h1, h2, _⟩ := C01_history_vector_from_elem (exCfgOK k) (0 : Nat) (7 : Nat)
    Heap.empty exVecOps
  rw [show (exCfg k).N = 5 from rfl, exVecSpec] at h2
  exact ⟨c, h', h1, h2⟩

-- the map handed to `bulk_update`: sorted, last insert wins, for each map kind
example (k : MapKind) :
    (bulkMap k [(4, 50), (3, 40), (0, 10), (4, 51)] : UMap Nat).entries = [(0, 10), (3, 40), (4, 51)] ∧
    plainAssoc [(4, 50), (3, 40), (0, 10), (4, 51)] = [(0, 10), (3, 40), (4, 51)] := by
  cases k <;> decide

-- C14: `BTreeMap` against `MaxMap<VecMap>`
example : ∃ c1 g1 c2 g2,
    Coll.tryFromIter (some 4) (0 : Nat) ⟨5, .btree⟩ [1, 2, 3] Heap.empty = .ok (c1, g1) ∧
    Coll.tryFromIter (some 4) (0 : Nat) ⟨5, .maxvec⟩ [1, 2, 3] Heap.empty = .ok (c2, g2) ∧
    (mrun (some 4) (0 : Nat) ⟨5, .btree⟩ (c1, g1) exOps).1 =
      (mrun (some 4) (0 : Nat) ⟨5, .maxvec⟩ (c2, g2) exOps).1 ∧
    (mrun (some 4) (0 : Nat) ⟨5, .btree⟩ (c1, g1) exOps).2.1.toVec (some 4) =
      (mrun (some 4) (0 : Nat) ⟨5, .maxvec⟩ (c2, g2) exOps).2.1.toVec (some 4) :=
  C14_history_map_independent_from_iter .btree .maxvec (exCfgOK .btree) (exCfgOK .maxvec) (0 : Nat)
    [1, 2, 3] (by decide) Heap.empty Heap.empty exOps

/-- the same capacity with unpacked leaves and a `BTreeMap`. -/
theorem exCfgOKnone : CfgOK none (exCfg .btree) :=
  ⟨exPfOKnone, (by show 1 ≤ 5; decide), (by show 5 ≤ 2 ^ 63; decide)⟩

def exC' : Coll Nat := (Coll.empty (T := Nat) none (0 : Nat) (exCfg .btree) Heap.empty).1
def exH' : Heap Nat := (Coll.empty (T := Nat) none (0 : Nat) (exCfg .btree) Heap.empty).2

-- C14, general form: a list with packed leaves and a `VecMap` against one with unpacked leaves
-- and a `BTreeMap`
example : (mrun (some 4) (0 : Nat) (exCfg .vec) (exC .vec, exH .vec) exOps).1 =
    (mrun none (0 : Nat) (exCfg .btree) (exC', exH') exOps).1 :=
  (C14_history_independent_of_representation (xs1 := []) (xs2 := []) (exCfgOK .vec) exCfgOKnone
    rfl (0 : Nat) (0 : Nat) (exH .vec) exH' (exStart_inv .vec)
    (C05_empty none (0 : Nat) (exCfg .btree) Heap.empty).1 (by decide) (by decide) (by decide)
    exOps).1

-- C15 / C05 along the example history
example (k : MapKind) :
    (∀ o ∈ (mrun (some 4) (0 : Nat) (exCfg k) (exC k, exH k) exOps).1, o ≠ HOut.error .panic) ∧
    (mrun (some 4) (0 : Nat) (exCfg k) (exC k, exH k) exOps).2.1.SeqWF (some 4) ∧
    (mrun (some 4) (0 : Nat) (exCfg k) (exC k, exH k) exOps).2.1.len ≤ 5 := by
  obtain ⟨h1, _, h3, _⟩ := C15_history_total_wellformed (exCfgOK k) (exStart_inv k) (0 : Nat)
    (exH k) exOps
  exact ⟨h1, h3, (C05_history_bounded (exCfgOK k) (exStart_inv k) (0 : Nat) (exH k) exOps).2.1⟩

-- a rejected call (the push on the full list, step 11 of `exOps`) leaves the state as it was
example (k : MapKind) :
    (mstep (some 4) (0 : Nat) (exCfg k)
      (mrun (some 4) (0 : Nat) (exCfg k) (exC k, exH k) (exOps.take 10)).2 (.push 6)).1
      = .error (.listFull 5) ∧
    (mstep (some 4) (0 : Nat) (exCfg k)
      (mrun (some 4) (0 : Nat) (exCfg k) (exC k, exH k) (exOps.take 10)).2 (.push 6)).2
      = (mrun (some 4) (0 : Nat) (exCfg k) (exC k, exH k) (exOps.take 10)).2 := by
  have h1 : (mstep (some 4) (0 : Nat) (exCfg k)
      (mrun (some 4) (0 : Nat) (exCfg k) (exC k, exH k) (exOps.take 10)).2 (.push 6)).1
      = .error (.listFull 5) := by cases k <;> decide
  exact ⟨h1, (C15_history_total_wellformed (exCfgOK k) (exStart_inv k) (0 : Nat) (exH k)
    (exOps.take 10)).2.2.2 _ _ h1⟩

-- `sstep_error`: its hypothesis is satisfiable
example : (sstep 5 .list ([1, 2, 3, 4, 5], true) (.push (6 : Nat))).2 = ([1, 2, 3, 4, 5], true) ∧
    PlainErr 5 5 (.listFull 5) :=
  sstep_error 5 .list ([1, 2, 3, 4, 5], true) (.push 6) (.listFull 5) (by decide)

end HistoryExample

end Milhouse
