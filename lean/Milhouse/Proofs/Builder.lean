import Milhouse.Proofs.Canon
import Milhouse.Model.Collection
/-!
# The bottom-up builder (C17) and `List::try_from_iter` (C05)

The stack of the builder mirrors the binary representation of the number of complete depth-0
nodes pushed so far. `Stk pf ℓ n xs st` says: `st` (top first) represents the sequence `xs`,
made of `n` complete subtrees' worth of level `ℓ`, by one complete canonical subtree per set bit
of `n`. `PStk` is the same with a top entry that may be only partially filled (this is what the
padding loop of `finish` works on).
-/
namespace Milhouse
variable {T H : Type}

/-! ## Pure arithmetic -/

theorem tzr_succ_even (n : Nat) (h : n % 2 = 0) : tzr (n + 1) = 0 := by
  unfold tzr
  have h1 : (n + 1) % 2 = 1 := by omega
  simp [h1]

theorem tzr_succ_odd (n : Nat) (h : n % 2 = 1) : tzr (n + 1) = tzr (n / 2 + 1) + 1 := by
  rw [tzr]
  have h1 : ¬ ((n + 1) % 2 = 1) := by omega
  have h2 : (n + 1) / 2 = n / 2 + 1 := by omega
  simp only [Nat.add_one_ne_zero, dite_false, h1, if_false, h2]
  omega

theorem tzr_two_mul (n : Nat) (h : n ≠ 0) : tzr (2 * n) = tzr n + 1 := by
  rw [tzr]
  have h0 : 2 * n ≠ 0 := by omega
  have h1 : ¬ ((2 * n) % 2 = 1) := by omega
  have h2 : 2 * n / 2 = n := by omega
  simp only [h0, dite_false, h1, if_false, h2]
  omega

theorem tzr_mul_pow (n c : Nat) (h : n ≠ 0) : tzr (n * 2 ^ c) = tzr n + c := by
  induction c with
  | zero => simp
  | succ c ih =>
    have hne : n * 2 ^ c ≠ 0 := Nat.mul_ne_zero h (Nat.pos_iff_ne_zero.1 (Nat.pow_pos (by decide)))
    rw [Nat.pow_succ, ← Nat.mul_assoc, Nat.mul_comm _ 2, tzr_two_mul _ hne, ih]
    omega

theorem tzr_odd (n : Nat) (h : n % 2 = 1) : tzr n = 0 := by
  unfold tzr
  have h0 : n ≠ 0 := by omega
  simp [h0, h]

theorem succ_divmod_full (k p : Nat) (hp : 0 < p) (h : k % p + 1 = p) :
    (k + 1) % p = 0 ∧ (k + 1) / p = k / p + 1 ∧ k + 1 = (k / p + 1) * p := by
  have e := Nat.div_add_mod k p
  have e1 : k + 1 = p * (k / p + 1) := by rw [Nat.mul_add, Nat.mul_one]; omega
  refine ⟨?_, ?_, ?_⟩
  · rw [e1]; exact Nat.mul_mod_right _ _
  · rw [e1]; exact Nat.mul_div_cancel_left _ hp
  · rw [Nat.mul_comm]; exact e1

theorem succ_divmod_part (k p : Nat) (hp : 0 < p) (h : k % p + 1 < p) :
    (k + 1) % p = k % p + 1 ∧ (k + 1) / p = k / p := by
  have e := Nat.div_add_mod k p
  have e1 : k + 1 = p * (k / p) + (k % p + 1) := by omega
  refine ⟨?_, ?_⟩
  · rw [e1, Nat.mul_add_mod, Nat.mod_eq_of_lt h]
  · conv => lhs; rw [e1]
    rw [Nat.mul_add_div hp, Nat.div_eq_of_lt h]; rfl

theorem tzr_two_pow (c : Nat) : tzr (2 ^ c) = c := by
  have := tzr_mul_pow 1 c (by decide)
  rw [Nat.one_mul, tzr_odd 1 (by decide)] at this
  omega

theorem odd_mul_pow_ne (n c e : Nat) (h : n % 2 = 1) : n * 2 ^ c ≠ 2 ^ (c + e + 1) := by
  intro heq
  have h1 := tzr_mul_pow n c (by omega)
  rw [heq, tzr_two_pow, tzr_odd n h] at h1
  omega

theorem even_mul_pow (n c : Nat) (h : n % 2 = 0) : n * 2 ^ c = n / 2 * 2 ^ (c + 1) := by
  have e : n = n / 2 * 2 := by omega
  conv => lhs; rw [e]
  rw [Nat.pow_succ, Nat.mul_assoc, Nat.mul_comm 2]

theorem odd_mul_pow_step (n c : Nat) (h : n % 2 = 1) :
    n * 2 ^ c + 2 ^ c = (n / 2 + 1) * 2 ^ (c + 1) := by
  have e : n = n / 2 * 2 + 1 := by omega
  conv => lhs; rw [e]
  rw [Nat.pow_succ, Nat.add_mul, Nat.add_mul, Nat.one_mul, Nat.one_mul, Nat.mul_assoc,
    Nat.mul_comm 2, Nat.mul_comm (2 ^ c) 2, Nat.two_mul, Nat.add_assoc]

theorem odd_mul_pow_div (n c : Nat) : n * 2 ^ c / 2 ^ (c + 1) = n / 2 := by
  rw [Nat.pow_succ, Nat.mul_comm (2 ^ c) 2]
  exact Nat.mul_div_mul_right n 2 (Nat.pow_pos (by decide))

/-! ## The stack invariant -/

/-- `st` (top first) holds, for each set bit `j` of `n`, the complete canonical subtree of depth
`ℓ + j`; bottom to top they spell `xs`. -/
def Stk (pf : Option Nat) (ℓ n : Nat) (xs : List T) (st : List (Tree T × Bool)) : Prop :=
  if n = 0 then xs = [] ∧ st = []
  else if n % 2 = 0 then Stk pf (ℓ + 1) (n / 2) xs st
  else ∃ t f st' A B, st = (t, f) :: st' ∧ xs = A ++ B ∧ B.length = cap pf ℓ ∧
        t.erase = canon pf ℓ B ∧ Stk pf (ℓ + 1) (n / 2) A st'
termination_by n
decreasing_by all_goals omega

/-- as `Stk`, but the top entry (at the level of the lowest set bit of `n`) holds between one
element and a full subtree's worth. -/
def PStk (pf : Option Nat) (ℓ n : Nat) (xs : List T) (st : List (Tree T × Bool)) : Prop :=
  if n = 0 then False
  else if n % 2 = 0 then PStk pf (ℓ + 1) (n / 2) xs st
  else ∃ t f st' A S, st = (t, f) :: st' ∧ xs = A ++ S ∧ S ≠ [] ∧ S.length ≤ cap pf ℓ ∧
        t.erase = canon pf ℓ S ∧ Stk pf (ℓ + 1) (n / 2) A st'
termination_by n
decreasing_by all_goals omega

theorem Stk_zero (pf : Option Nat) (ℓ : Nat) (xs : List T) (st : List (Tree T × Bool)) :
    Stk pf ℓ 0 xs st ↔ xs = [] ∧ st = [] := by
  rw [Stk]; simp

theorem Stk_even (pf : Option Nat) (ℓ n : Nat) (xs : List T) (st : List (Tree T × Bool))
    (h0 : n ≠ 0) (h : n % 2 = 0) : Stk pf ℓ n xs st ↔ Stk pf (ℓ + 1) (n / 2) xs st := by
  rw [Stk]; simp [h0, h]

theorem Stk_odd (pf : Option Nat) (ℓ n : Nat) (xs : List T) (st : List (Tree T × Bool))
    (h : n % 2 = 1) : Stk pf ℓ n xs st ↔
      ∃ t f st' A B, st = (t, f) :: st' ∧ xs = A ++ B ∧ B.length = cap pf ℓ ∧
        t.erase = canon pf ℓ B ∧ Stk pf (ℓ + 1) (n / 2) A st' := by
  have h0 : n ≠ 0 := by omega
  have h1 : ¬ (n % 2 = 0) := by omega
  rw [Stk]; simp only [h0, h1, if_false]

theorem PStk_zero (pf : Option Nat) (ℓ : Nat) (xs : List T) (st : List (Tree T × Bool)) :
    ¬ PStk pf ℓ 0 xs st := by
  rw [PStk]; simp

theorem PStk_even (pf : Option Nat) (ℓ n : Nat) (xs : List T) (st : List (Tree T × Bool))
    (h0 : n ≠ 0) (h : n % 2 = 0) : PStk pf ℓ n xs st ↔ PStk pf (ℓ + 1) (n / 2) xs st := by
  rw [PStk]; simp [h0, h]

theorem PStk_odd (pf : Option Nat) (ℓ n : Nat) (xs : List T) (st : List (Tree T × Bool))
    (h : n % 2 = 1) : PStk pf ℓ n xs st ↔
      ∃ t f st' A S, st = (t, f) :: st' ∧ xs = A ++ S ∧ S ≠ [] ∧ S.length ≤ cap pf ℓ ∧
        t.erase = canon pf ℓ S ∧ Stk pf (ℓ + 1) (n / 2) A st' := by
  have h0 : n ≠ 0 := by omega
  have h1 : ¬ (n % 2 = 0) := by omega
  rw [PStk]; simp only [h0, h1, if_false]

/-- the number of elements represented. -/
theorem Stk_length (pf : Option Nat) (n : Nat) : ∀ (ℓ : Nat) (xs : List T)
    (st : List (Tree T × Bool)), Stk pf ℓ n xs st → xs.length = n * cap pf ℓ := by
  induction n using Nat.strongRecOn with
  | _ n ih =>
    intro ℓ xs st hS
    by_cases h0 : n = 0
    · subst h0; rw [Stk_zero] at hS; simp [hS.1]
    · rcases Nat.mod_two_eq_zero_or_one n with h | h
      · rw [Stk_even pf ℓ n xs st h0 h] at hS
        have := ih (n / 2) (by omega) _ _ _ hS
        rw [this, cap_succ, ← Nat.mul_assoc]
        congr 1; omega
      · rw [Stk_odd pf ℓ n xs st h] at hS
        obtain ⟨t, f, st', A, B, rfl, rfl, hB, ht, hA⟩ := hS
        have := ih (n / 2) (by omega) _ _ _ hA
        rw [List.length_append, this, hB, cap_succ, ← Nat.mul_assoc]
        have e : n = n / 2 * 2 + 1 := by omega
        conv => rhs; rw [e]
        rw [Nat.add_mul]; omega

/-- a complete stack is a partial stack. -/
theorem Stk.toPStk (pf : Option Nat) (hpf : PfOK pf) (n : Nat) : ∀ (ℓ : Nat) (xs : List T)
    (st : List (Tree T × Bool)), n ≠ 0 → Stk pf ℓ n xs st → PStk pf ℓ n xs st := by
  induction n using Nat.strongRecOn with
  | _ n ih =>
    intro ℓ xs st h0 hS
    rcases Nat.mod_two_eq_zero_or_one n with h | h
    · rw [Stk_even pf ℓ n xs st h0 h] at hS
      rw [PStk_even pf ℓ n xs st h0 h]
      exact ih (n / 2) (by omega) _ _ _ (by omega) hS
    · rw [Stk_odd pf ℓ n xs st h] at hS
      rw [PStk_odd pf ℓ n xs st h]
      obtain ⟨t, f, st', A, B, rfl, rfl, hB, ht, hA⟩ := hS
      have hc := cap_pos pf hpf ℓ
      refine ⟨t, f, st', A, B, rfl, rfl, ?_, by omega, ht, hA⟩
      intro hB0; subst hB0; simp at hB; omega

/-! ## `push` -/

/-- The carry chain of `push`: adding one complete level-`ℓ` subtree `C` to a stack representing
`n` of them performs exactly `tzr (n+1)` merges and yields the stack for `n+1`. -/
theorem mergeStrict_spec (pf : Option Nat) (hpf : PfOK pf) (z : H) (n : Nat) :
    ∀ (ℓ : Nat) (xs : List T) (st : List (Tree T × Bool)) (top : Tree T) (C : List T) (fl : Bool)
      (h : Heap H), Stk pf ℓ n xs st → C.length = cap pf ℓ → top.erase = canon pf ℓ C →
      ∃ top' st' h', Builder.mergeStrict z (tzr (n + 1)) h top st = .ok (top', st', h') ∧
        Stk pf ℓ (n + 1) (xs ++ C) ((top', fl) :: st') := by
  induction n using Nat.strongRecOn with
  | _ n ih =>
    intro ℓ xs st top C fl h hS hC htop
    rcases Nat.mod_two_eq_zero_or_one n with hn | hn
    · -- bit clear: no merge, the new entry sits on top
      rw [tzr_succ_even n hn]
      refine ⟨top, st, h, by simp [Builder.mergeStrict], ?_⟩
      rw [Stk_odd pf ℓ (n + 1) _ _ (by omega)]
      refine ⟨top, fl, st, xs, C, rfl, rfl, hC, htop, ?_⟩
      have e : (n + 1) / 2 = n / 2 := by omega
      rw [e]
      by_cases h0 : n = 0
      · subst h0; rw [Stk_zero] at hS; simp [hS.1, hS.2, Stk_zero]
      · exact (Stk_even pf ℓ n xs st h0 hn).1 hS
    · -- bit set: merge with the left sibling and carry on one level up
      rw [tzr_succ_odd n hn]
      rw [Stk_odd pf ℓ n xs st hn] at hS
      obtain ⟨t, f, st', A, B, rfl, rfl, hB, ht, hA⟩ := hS
      have hc := cap_pos pf hpf ℓ
      have hnode : ∀ id, (Tree.node id t top).erase = canon pf (ℓ + 1) (B ++ C) := by
        intro id
        simp only [Tree.erase, ht, htop]
        exact canon_node pf ℓ B C (by intro hB0; subst hB0; simp at hB; omega) (Or.inl hB)
          (by omega)
      obtain ⟨top', st'', h', hm, hS'⟩ := ih (n / 2) (by omega) (ℓ + 1) A st'
        (Tree.node (h.alloc z).1 t top) (B ++ C) fl (h.alloc z).2 hA
        (by rw [List.length_append, hB, hC, cap_succ]; omega) (hnode _)
      refine ⟨top', st'', h', ?_, ?_⟩
      · simp only [Builder.mergeStrict]; exact hm
      · rw [Stk_even pf ℓ (n + 1) _ _ (by omega) (by omega)]
        have e : (n + 1) / 2 = n / 2 + 1 := by omega
        rw [e, List.append_assoc]; exact hS'

/-- The stack after pushing `xs`: complete subtrees for the bits of `xs.length / lcap`, and on top
of them, for packed kinds, the partially filled packed leaf (still `Unarced`). -/
def StkInv (pf : Option Nat) (xs : List T) (st : List (Tree T × Bool)) : Prop :=
  (xs.length % lcap pf = 0 ∧ Stk pf 0 (xs.length / lcap pf) xs st) ∨
  (xs.length % lcap pf ≠ 0 ∧ ∃ id vs st' A, st = (Tree.packed id vs, true) :: st' ∧
      xs = A ++ vs ∧ vs.length = xs.length % lcap pf ∧ Stk pf 0 (xs.length / lcap pf) A st')

/-- what `push` does after it has produced the new depth-0 node. -/
theorem push_tail (pf : Option Nat) (hpf : PfOK pf) (z : H) (k : Nat) (hk : k + 1 < 2 ^ 64)
    (top : Tree T) (C A : List T) (st0 : List (Tree T × Bool)) (h1 : Heap H)
    (hS : Stk pf 0 (k / lcap pf) A st0) (hC : C.length = k % lcap pf + 1)
    (htop : top.erase = canon pf 0 C)
    (hpk : k % lcap pf + 1 ≠ lcap pf → ∃ id, top = Tree.packed id C) :
    ∃ top' st' h', Builder.mergeStrict z (tz (k + 1) - pdOf pf) h1 top st0 = .ok (top', st', h') ∧
      StkInv pf (A ++ C) ((top', true) :: st') := by
  have hp := lcap_eq_pow pf hpf
  have hpos := lcap_pos pf hpf
  have hA := Stk_length pf _ _ _ _ hS
  rw [cap_zero] at hA
  have hlen : (A ++ C).length = k + 1 := by
    rw [List.length_append, hA, hC]
    have := Nat.div_add_mod k (lcap pf)
    rw [Nat.mul_comm] at this; omega
  have hr := Nat.mod_lt k hpos
  rw [tz_eq_tzr (k + 1) (by omega) hk]
  by_cases hfull : k % lcap pf + 1 = lcap pf
  · obtain ⟨e1, e2, e3⟩ := succ_divmod_full k (lcap pf) hpos hfull
    have etz : tzr (k + 1) - pdOf pf = tzr (k / lcap pf + 1) := by
      have := tzr_mul_pow (k / lcap pf + 1) (pdOf pf) (Nat.succ_ne_zero _)
      rw [← hp] at this
      rw [e3, this]; omega
    rw [etz]
    obtain ⟨top', st', h', hm, hS'⟩ := mergeStrict_spec pf hpf z (k / lcap pf) 0 A st0 top C true h1
      hS (by rw [hC, cap_zero]; exact hfull) htop
    refine ⟨top', st', h', hm, Or.inl ?_⟩
    rw [hlen, e1, e2]; exact ⟨rfl, hS'⟩
  · obtain ⟨e1, e2⟩ := succ_divmod_part k (lcap pf) hpos (by omega)
    have etz : tzr (k + 1) - pdOf pf = 0 := by
      have : ¬ (pdOf pf ≤ tzr (k + 1)) := by
        rw [le_tzr_iff (k + 1) _ (by omega), ← hp, Nat.dvd_iff_mod_eq_zero]; omega
      omega
    rw [etz]
    obtain ⟨id, rfl⟩ := hpk hfull
    refine ⟨Tree.packed id C, st0, h1, by simp [Builder.mergeStrict], Or.inr ?_⟩
    rw [hlen, e1, e2]
    exact ⟨by omega, id, C, st0, A, rfl, rfl, hC, hS⟩

/-- The builder invariant: configuration fields are fixed, `length` counts the pushed elements,
and the stack is the one determined by them. -/
structure BInv (pf : Option Nat) (D : Nat) (xs : List T) (b : Builder T) : Prop where
  pf_eq : b.pf = pf
  depth_eq : b.depth = D
  level_eq : b.level = 0
  length_eq : b.length = xs.length
  stk : StkInv pf xs b.stack

theorem BInv.capacity_eq {pf : Option Nat} {D : Nat} {xs : List T} {b : Builder T}
    (hb : BInv pf D xs b) (hpf : PfOK pf) : b.capacity = cap pf D := by
  rw [cap_eq_pow pf hpf]; simp [Builder.capacity, Builder.pd, hb.pf_eq, hb.depth_eq]

theorem new_spec (pf : Option Nat) (D : Nat) (hd : D + pdOf pf ≤ 63) :
    ∃ b0 : Builder T, Builder.new pf D 0 = .ok b0 ∧ BInv pf D [] b0 := by
  refine ⟨⟨[], D, 0, 0, pf⟩, ?_, ⟨rfl, rfl, rfl, rfl, Or.inl ?_⟩⟩
  · simp [Builder.new, maxTreeDepth]; omega
  · simp [Stk_zero]

/-- one `push` below capacity succeeds and re-establishes the invariant. -/
theorem push_spec (pf : Option Nat) (hpf : PfOK pf) (z : H) (D : Nat) (hd : D + pdOf pf ≤ 63)
    (xs : List T) (b : Builder T) (hb : BInv pf D xs b) (hlt : xs.length < cap pf D) (x : T)
    (h : Heap H) :
    ∃ b' h', b.push z h x = .ok (b', h') ∧ BInv pf D (xs ++ [x]) b' := by
  have hcap := hb.capacity_eq hpf
  have hne : ¬ (b.length = b.capacity) := by rw [hcap, hb.length_eq]; omega
  have hk : xs.length + 1 < 2 ^ 64 := by
    rw [cap_eq_pow pf hpf] at hlt
    have := Nat.pow_le_pow_right (show 0 < 2 by decide) hd
    have : (2:Nat) ^ 63 < 2 ^ 64 := by decide
    omega
  have hpos := lcap_pos pf hpf
  -- the start of `push`: the new depth-0 node `top` holding `C`, the remaining stack `st0`
  have hstart : ∃ top C A st0 h1,
      (match b.pf with
        | some p =>
          if p = 0 then (Except.error Err.panic : Except Err (Tree T × List (Tree T × Bool) × Heap H))
          else if b.length % p = 0 then
            let (id, h) := h.alloc z
            .ok (.packed id [x], b.stack, h)
          else
            match b.stack with
            | (.packed id vs, true) :: st =>
              if vs.length = p then .error (.packedLeafFull vs.length)
              else .ok (.packed id (vs ++ [x]), st, h)
            | _ => .error .builderExpectedLeaf
        | none =>
          let (id, h) := h.alloc z
          .ok (.leaf id x, b.stack, h)) = .ok (top, st0, h1) ∧
      Stk pf 0 (xs.length / lcap pf) A st0 ∧ C.length = xs.length % lcap pf + 1 ∧
      top.erase = canon pf 0 C ∧ xs ++ [x] = A ++ C ∧
      (xs.length % lcap pf + 1 ≠ lcap pf → ∃ id, top = Tree.packed id C) := by
    have hbpf := hb.pf_eq
    have hlen := hb.length_eq
    cases pf with
    | none =>
      rw [hbpf]
      have hst := hb.stk
      simp only [StkInv, lcap, Option.getD_none, Nat.mod_one, Nat.div_one, ne_eq,
        not_true_eq_false, false_and, or_false, true_and] at hst
      refine ⟨.leaf (h.alloc z).1 x, [x], xs, b.stack, (h.alloc z).2, rfl, ?_, ?_, ?_, rfl, ?_⟩
      · simpa [lcap] using hst
      · simp [lcap, Nat.mod_one]
      · simp [Tree.erase, canon]
      · simp [lcap, Nat.mod_one]
    | some p =>
      rw [hbpf]
      have hp0 : p ≠ 0 := by
        have : 0 < p := by simpa [lcap] using hpos
        omega
      simp only [lcap, Option.getD_some] at *
      rcases hb.stk with ⟨h0, hS⟩ | ⟨h0, id, vs, st', A, hst, hxs, hvs, hS⟩
      · simp only [lcap, Option.getD_some] at h0 hS
        refine ⟨.packed (h.alloc z).1 [x], [x], xs, b.stack, (h.alloc z).2, ?_, hS, ?_, ?_, rfl, ?_⟩
        · simp [hp0, hlen, h0]
        · simp [h0]
        · simp [Tree.erase, canon]
        · intro _; exact ⟨_, rfl⟩
      · simp only [lcap, Option.getD_some] at h0 hS hvs
        have hr := Nat.mod_lt xs.length (Nat.pos_of_ne_zero hp0)
        refine ⟨.packed id (vs ++ [x]), vs ++ [x], A, st', h, ?_, hS, ?_, ?_, ?_, ?_⟩
        · have : ¬ (vs.length = p) := by omega
          simp [hp0, hlen, h0, hst, this]
        · simp [hvs]
        · cases vs with
          | nil => simp [Tree.erase, canon]
          | cons v vs' => simp [Tree.erase, canon]
        · rw [hxs, List.append_assoc]
        · intro _; exact ⟨_, rfl⟩
  obtain ⟨top, C, A, st0, h1, hst, hS, hC, htop, hxs, hpk⟩ := hstart
  obtain ⟨top', st', h', hm, hinv⟩ :=
    push_tail pf hpf z xs.length hk top C A st0 h1 hS hC htop hpk
  refine ⟨{ b with stack := (top', true) :: st', length := b.length + 1 }, h', ?_, ?_⟩
  · unfold Builder.push
    rw [if_neg hne]
    dsimp only
    split
    next e heq => exact nomatch heq.symm.trans hst
    next top2 st2 h2 heq =>
      have := heq.symm.trans hst
      simp only [Except.ok.injEq, Prod.mk.injEq] at this
      obtain ⟨rfl, rfl, rfl⟩ := this
      simp only [Builder.pd, hb.pf_eq, hb.length_eq, hm]
  · exact ⟨hb.pf_eq, hb.depth_eq, hb.level_eq, by simp [hb.length_eq], by rw [hxs]; exact hinv⟩

theorem pushAll_spec (pf : Option Nat) (hpf : PfOK pf) (z : H) (D : Nat) (hd : D + pdOf pf ≤ 63)
    (ys : List T) : ∀ (xs : List T) (b : Builder T) (h : Heap H), BInv pf D xs b →
      xs.length + ys.length ≤ cap pf D →
      ∃ b' h', Coll.pushAll z b h ys = .ok (b', h') ∧ BInv pf D (xs ++ ys) b' := by
  induction ys with
  | nil => intro xs b h hb _; exact ⟨b, h, rfl, by simpa using hb⟩
  | cons y ys ih =>
    intro xs b h hb hlen
    simp only [List.length_cons] at hlen
    obtain ⟨b1, h1, hp, hb1⟩ := push_spec pf hpf z D hd xs b hb (by omega) y h
    obtain ⟨b2, h2, hq, hb2⟩ := ih (xs ++ [y]) b1 h1 hb1 (by simp; omega)
    refine ⟨b2, h2, ?_, by simpa using hb2⟩
    simp only [Coll.pushAll, hp, hq]

/-! ## `finish` -/

/-- The merge loops of `finish`: a (possibly partial) top entry at level `i` on a stack whose
remaining entries represent the bits `m` from `i` upwards is merged with its left siblings up to
the first clear bit; this is the stack of `m + 1` with a partial top. -/
theorem finishMergeUp_spec (pf : Option Nat) (hpf : PfOK pf) (z : H) (b : Builder T)
    (hbpf : b.pf = pf) (hlev : b.level = 0) (next cnt : Nat) :
    ∀ (i m : Nat) (h : Heap H) (top : Tree T) (fl : Bool) (rest : List (Tree T × Bool))
      (A S : List T), m = next / 2 ^ (i + pdOf pf) → m < 2 ^ cnt → Stk pf i m A rest → S ≠ [] →
      S.length ≤ cap pf i → top.erase = canon pf i S →
      ∃ st' h', Builder.finishMergeUp z b next cnt i h ((top, fl) :: rest) = .ok (st', h') ∧
        PStk pf i (m + 1) (A ++ S) st' := by
  induction cnt with
  | zero =>
    intro i m h top fl rest A S _ hlt hS hS0 hSl htop
    have hm0 : m = 0 := by simpa using hlt
    subst hm0
    rw [Stk_zero] at hS
    obtain ⟨rfl, rfl⟩ := hS
    refine ⟨_, h, rfl, ?_⟩
    rw [PStk_odd pf i 1 _ _ (by decide)]
    exact ⟨top, fl, [], [], S, rfl, rfl, hS0, hSl, htop, by simp [Stk_zero]⟩
  | succ cnt ih =>
    intro i m h top fl rest A S hm hlt hS hS0 hSl htop
    have hcond : (next * 2 ^ b.level) / 2 ^ (i + b.pd) % 2 = m % 2 := by
      simp [hlev, Builder.pd, hbpf, hm]
    rcases Nat.mod_two_eq_zero_or_one m with hpar | hpar
    · refine ⟨(top, fl) :: rest, h, ?_, ?_⟩
      · simp [Builder.finishMergeUp, hcond, hpar]
      · rw [PStk_odd pf i (m + 1) _ _ (by omega)]
        refine ⟨top, fl, rest, A, S, rfl, rfl, hS0, hSl, htop, ?_⟩
        have e : (m + 1) / 2 = m / 2 := by omega
        rw [e]
        by_cases h0 : m = 0
        · subst h0; rw [Stk_zero] at hS; simp [hS.1, hS.2, Stk_zero]
        · exact (Stk_even pf i m A rest h0 hpar).1 hS
    · rw [Stk_odd pf i m A rest hpar] at hS
      obtain ⟨t, f, st', A', B, rfl, rfl, hB, ht, hA'⟩ := hS
      have hc := cap_pos pf hpf i
      have hnode : ∀ id, (Tree.node id t top).erase = canon pf (i + 1) (B ++ S) := by
        intro id
        simp only [Tree.erase, ht, htop]
        exact canon_node pf i B S (by intro hB0; subst hB0; simp at hB; omega) (Or.inl hB)
          (by omega)
      obtain ⟨st'', h', hm', hP⟩ := ih (i + 1) (m / 2) (h.alloc z).2
        (Tree.node (h.alloc z).1 t top) true st' A' (B ++ S)
        (by rw [hm, Nat.div_div_eq_div_mul, ← Nat.pow_succ]; congr 2; omega)
        (by rw [Nat.pow_succ] at hlt; omega) hA' (by simp [hS0])
        (by rw [List.length_append, cap_succ]; omega) (hnode _)
      refine ⟨st'', h', ?_, ?_⟩
      · simp only [Builder.finishMergeUp, hcond, hpar, if_true]; exact hm'
      · rw [PStk_even pf i (m + 1) _ _ (by omega) (by omega)]
        have e : (m + 1) / 2 = m / 2 + 1 := by omega
        rw [e, List.append_assoc]; exact hP

/-- the same for the loop that completes a partially filled packed leaf. -/
theorem finishPackedMerge_spec (pf : Option Nat) (hpf : PfOK pf) (z : H) (b : Builder T)
    (hbpf : b.pf = pf) (next cnt : Nat) :
    ∀ (i m : Nat) (h : Heap H) (top : Tree T) (fl : Bool) (rest : List (Tree T × Bool))
      (A S : List T), m = next / 2 ^ (i + pdOf pf) → m < 2 ^ cnt → Stk pf i m A rest → S ≠ [] →
      S.length ≤ cap pf i → top.erase = canon pf i S →
      ∃ st' h', Builder.finishPackedMerge z b next cnt i h ((top, fl) :: rest) = .ok (st', h') ∧
        PStk pf i (m + 1) (A ++ S) st' := by
  induction cnt with
  | zero =>
    intro i m h top fl rest A S _ hlt hS hS0 hSl htop
    have hm0 : m = 0 := by simpa using hlt
    subst hm0
    rw [Stk_zero] at hS
    obtain ⟨rfl, rfl⟩ := hS
    refine ⟨_, h, rfl, ?_⟩
    rw [PStk_odd pf i 1 _ _ (by decide)]
    exact ⟨top, fl, [], [], S, rfl, rfl, hS0, hSl, htop, by simp [Stk_zero]⟩
  | succ cnt ih =>
    intro i m h top fl rest A S hm hlt hS hS0 hSl htop
    have hcond : next / 2 ^ (i + b.pd) % 2 = m % 2 := by
      simp [Builder.pd, hbpf, hm]
    rcases Nat.mod_two_eq_zero_or_one m with hpar | hpar
    · refine ⟨(top, fl) :: rest, h, ?_, ?_⟩
      · simp [Builder.finishPackedMerge, hcond, hpar]
      · rw [PStk_odd pf i (m + 1) _ _ (by omega)]
        refine ⟨top, fl, rest, A, S, rfl, rfl, hS0, hSl, htop, ?_⟩
        have e : (m + 1) / 2 = m / 2 := by omega
        rw [e]
        by_cases h0 : m = 0
        · subst h0; rw [Stk_zero] at hS; simp [hS.1, hS.2, Stk_zero]
        · exact (Stk_even pf i m A rest h0 hpar).1 hS
    · rw [Stk_odd pf i m A rest hpar] at hS
      obtain ⟨t, f, st', A', B, rfl, rfl, hB, ht, hA'⟩ := hS
      have hc := cap_pos pf hpf i
      have hnode : ∀ id, (Tree.node id t top).erase = canon pf (i + 1) (B ++ S) := by
        intro id
        simp only [Tree.erase, ht, htop]
        exact canon_node pf i B S (by intro hB0; subst hB0; simp at hB; omega) (Or.inl hB)
          (by omega)
      obtain ⟨st'', h', hm', hP⟩ := ih (i + 1) (m / 2) (h.alloc z).2
        (Tree.node (h.alloc z).1 t top) true st' A' (B ++ S)
        (by rw [hm, Nat.div_div_eq_div_mul, ← Nat.pow_succ]; congr 2; omega)
        (by rw [Nat.pow_succ] at hlt; omega) hA' (by simp [hS0])
        (by rw [List.length_append, cap_succ]; omega) (hnode _)
      refine ⟨st'', h', ?_, ?_⟩
      · simp only [Builder.finishPackedMerge, hcond, hpar, if_true]; exact hm'
      · rw [PStk_even pf i (m + 1) _ _ (by omega) (by omega)]
        have e : (m + 1) / 2 = m / 2 + 1 := by omega
        rw [e, List.append_assoc]; exact hP

/-- The padding loop: from a stack with a partial top representing `n` level-`ℓ` units it reaches
the single canonical tree of depth `D`, using at most `D - ℓ + 1` units of fuel. -/
theorem finishPad_spec (pf : Option Nat) (hpf : PfOK pf) (z : H) (b : Builder T) (D : Nat)
    (hbpf : b.pf = pf) (hlev : b.level = 0) (hdep : b.depth = D) (hd : D + pdOf pf ≤ 63)
    (d : Nat) :
    ∀ (ℓ n fuel : Nat) (xs : List T) (st : List (Tree T × Bool)) (h : Heap H),
      ℓ + d = D → n ≤ 2 ^ d → PStk pf ℓ n xs st → d + 1 ≤ fuel →
      ∃ t f h', Builder.finishPad z b fuel (n * 2 ^ (ℓ + pdOf pf)) h st = .ok ([(t, f)], h') ∧
        t.erase = canon pf D xs := by
  induction d with
  | zero =>
    intro ℓ n fuel xs st h hℓ hn hP hfuel
    have hn0 : n ≠ 0 := by intro h0; subst h0; exact PStk_zero pf ℓ xs st hP
    have hn1 : n = 1 := by simp at hn; omega
    subst hn1
    have hℓD : ℓ = D := by omega
    subst hℓD
    rw [PStk_odd pf ℓ 1 _ _ (by decide)] at hP
    obtain ⟨t, f, st', A, S, rfl, rfl, hS0, hSl, ht, hA⟩ := hP
    rw [show 1 / 2 = 0 by decide, Stk_zero] at hA
    obtain ⟨rfl, rfl⟩ := hA
    obtain ⟨fuel', rfl⟩ : ∃ fuel', fuel = fuel' + 1 := ⟨fuel - 1, by omega⟩
    refine ⟨t, f, h, ?_, by simpa using ht⟩
    simp [Builder.finishPad, hlev, Builder.capacity, Builder.pd, hbpf, hdep]
  | succ d ih =>
    intro ℓ n fuel xs st h hℓ hn hP hfuel
    have hn0 : n ≠ 0 := by intro h0; subst h0; exact PStk_zero pf ℓ xs st hP
    rcases Nat.mod_two_eq_zero_or_one n with hpar | hpar
    · rw [PStk_even pf ℓ n xs st hn0 hpar] at hP
      have := ih (ℓ + 1) (n / 2) fuel xs st h (by omega) (by rw [Nat.pow_succ] at hn; omega) hP
        (by omega)
      rw [even_mul_pow n _ hpar]
      rw [show ℓ + 1 + pdOf pf = ℓ + pdOf pf + 1 by omega] at this
      exact this
    · rw [PStk_odd pf ℓ n xs st hpar] at hP
      obtain ⟨t, f, st', A, S, rfl, rfl, hS0, hSl, ht, hA⟩ := hP
      obtain ⟨fuel', rfl⟩ : ∃ fuel', fuel = fuel' + 1 := ⟨fuel - 1, by omega⟩
      have hnlt : n < 2 ^ (d + 1) := by
        rcases Nat.lt_or_eq_of_le hn with h1 | h1
        · exact h1
        · rw [h1, Nat.pow_succ] at hpar; omega
      have hD : D = ℓ + d + 1 := by omega
      -- the loop condition is false
      have hne : ¬ (n * 2 ^ (ℓ + pdOf pf) * 2 ^ b.level = b.capacity) := by
        simp only [hlev, Nat.pow_zero, Nat.mul_one, Builder.capacity, Builder.pd, hbpf, hdep, hD]
        rw [show ℓ + d + 1 + pdOf pf = ℓ + pdOf pf + d + 1 by omega]
        exact odd_mul_pow_ne n _ d hpar
      -- the padding depth is `ℓ`
      have hlt64 : n * 2 ^ (ℓ + pdOf pf) < 2 ^ 64 := by
        have h1 : n * 2 ^ (ℓ + pdOf pf) < 2 ^ (d + 1) * 2 ^ (ℓ + pdOf pf) :=
          Nat.mul_lt_mul_of_pos_right hnlt (Nat.pow_pos (by decide))
        rw [← Nat.pow_add] at h1
        have h2 : (2:Nat) ^ (d + 1 + (ℓ + pdOf pf)) ≤ 2 ^ 63 :=
          Nat.pow_le_pow_right (by decide) (by omega)
        have h3 : (2:Nat) ^ 63 < 2 ^ 64 := by decide
        omega
      have hpos : n * 2 ^ (ℓ + pdOf pf) ≠ 0 :=
        Nat.mul_ne_zero hn0 (Nat.pos_iff_ne_zero.1 (Nat.pow_pos (by decide)))
      have htz : tz (n * 2 ^ (ℓ + pdOf pf)) + b.level - b.pd = ℓ := by
        rw [tz_eq_tzr _ hpos hlt64, tzr_mul_pow n _ hn0, tzr_odd n hpar, hlev]
        simp only [Builder.pd, hbpf]; omega
      -- pad the top entry with a zero subtree
      have hnode : ∀ id zid, (Tree.node id t (Tree.zero zid ℓ)).erase = canon pf (ℓ + 1) S := by
        intro id zid
        have := canon_node pf ℓ S [] hS0 (Or.inr rfl) hSl
        rw [canon_nil, List.append_nil] at this
        simp only [Tree.erase, ht]; exact this
      obtain ⟨st3, h3, hm, hP3⟩ := finishMergeUp_spec pf hpf z b hbpf hlev
        (n * 2 ^ (ℓ + pdOf pf)) d (ℓ + 1) (n / 2) ((h.alloc z).2.alloc z).2
        (Tree.node ((h.alloc z).2.alloc z).1 t (Tree.zero (h.alloc z).1 ℓ)) true st' A S
        (by rw [show ℓ + 1 + pdOf pf = ℓ + pdOf pf + 1 by omega, odd_mul_pow_div])
        (by rw [Nat.pow_succ] at hnlt; omega) hA hS0 (by rw [cap_succ]; omega) (hnode _ _)
      obtain ⟨t', f', h', hfin, ht'⟩ := ih (ℓ + 1) (n / 2 + 1) fuel' (A ++ S) st3 h3 (by omega)
        (by rw [Nat.pow_succ] at hnlt; omega) hP3 (by omega)
      refine ⟨t', f', h', ?_, ht'⟩
      rw [Builder.finishPad, if_neg hne]
      simp only [htz]
      rw [show b.depth - (ℓ + 1) = d by omega, hm]
      have hlt2 : ¬ (ℓ + b.pd < b.level) := by omega
      simp only [hlt2, if_false]
      rw [show ℓ + b.pd - b.level = ℓ + pdOf pf by simp [hlev, Builder.pd, hbpf],
        odd_mul_pow_step n _ hpar, show ℓ + pdOf pf + 1 = ℓ + 1 + pdOf pf by omega]
      exact hfin

theorem PStk_ne_nil (pf : Option Nat) (n : Nat) : ∀ (ℓ : Nat) (xs : List T),
    ¬ PStk pf ℓ n xs [] := by
  induction n using Nat.strongRecOn with
  | _ n ih =>
    intro ℓ xs hP
    by_cases h0 : n = 0
    · subst h0; exact PStk_zero pf ℓ xs [] hP
    · rcases Nat.mod_two_eq_zero_or_one n with h | h
      · rw [PStk_even pf ℓ n xs [] h0 h] at hP
        exact ih (n / 2) (by omega) _ _ hP
      · rw [PStk_odd pf ℓ n xs [] h] at hP
        obtain ⟨t, f, st', A, S, hst, _⟩ := hP
        cases hst

/-- the padding loop of `finish` on a stack in padded form, with the fuel `finish` supplies. -/
theorem finish_tail (pf : Option Nat) (hpf : PfOK pf) (z : H) (b : Builder T) (D : Nat)
    (hbpf : b.pf = pf) (hlev : b.level = 0) (hdep : b.depth = D) (hd : D + pdOf pf ≤ 63)
    (n : Nat) (xs : List T) (st : List (Tree T × Bool)) (h : Heap H) (hn : n ≤ 2 ^ D)
    (hP : PStk pf 0 n xs st) :
    ∃ t f h2, Builder.finishPad z b 130 (n * lcap pf) h st = .ok ([(t, f)], h2) ∧
      t.erase = canon pf D xs := by
  have hpd := pdOf_le pf hpf
  obtain ⟨t, f, h', hfin, ht⟩ := finishPad_spec pf hpf z b D hbpf hlev hdep hd D 0 n 130 xs st h
    (by omega) hn hP (by omega)
  rw [Nat.zero_add, ← lcap_eq_pow pf hpf] at hfin
  exact ⟨t, f, h', hfin, ht⟩

/-- `finish` on a builder that satisfies the invariant returns the canonical tree. -/
theorem finish_spec (pf : Option Nat) (hpf : PfOK pf) (z : H) (D : Nat) (hd : D + pdOf pf ≤ 63)
    (xs : List T) (b : Builder T) (hb : BInv pf D xs b) (hlen : xs.length ≤ cap pf D)
    (h : Heap H) :
    ∃ t h2, b.finish z h = .ok ((t, D, xs.length), h2) ∧ t.erase = canon pf D xs := by
  have hpos := lcap_pos pf hpf
  have hbpf := hb.pf_eq
  have hlev := hb.level_eq
  have hdep := hb.depth_eq
  have hblen := hb.length_eq
  have hdm := Nat.div_add_mod xs.length (lcap pf)
  rcases hb.stk with ⟨h0, hS⟩ | ⟨h0, id, vs, st', A, hst, hxs, hvs, hS⟩
  · by_cases hk0 : xs.length = 0
    · have hnil : xs = [] := List.eq_nil_of_length_eq_zero hk0
      subst hnil
      simp only [List.length_nil, Nat.zero_div] at hS
      rw [Stk_zero] at hS
      refine ⟨.zero (h.alloc z).1 D, (h.alloc z).2, ?_, by simp [Tree.erase, canon_nil]⟩
      simp [Builder.finish, hS.2, hdep]
    · have hN0 : xs.length / lcap pf ≠ 0 := by
        intro hz; rw [hz, h0] at hdm; simp at hdm; omega
      have hP := Stk.toPStk pf hpf _ 0 xs b.stack hN0 hS
      have hnle : xs.length / lcap pf ≤ 2 ^ D := by
        apply Nat.div_le_of_le_mul; rw [Nat.mul_comm]; exact hlen
      have hkeq : xs.length = xs.length / lcap pf * lcap pf := by
        rw [h0, Nat.mul_comm] at hdm; omega
      obtain ⟨t, f, h2, hfin, ht⟩ :=
        finish_tail pf hpf z b D hbpf hlev hdep hd _ xs b.stack h hnle hP
      rw [← hkeq] at hfin
      refine ⟨t, h2, ?_, ht⟩
      cases hstk : b.stack with
      | nil => rw [hstk] at hP; exact absurd hP (PStk_ne_nil pf _ _ _)
      | cons e st' =>
        cases pf with
        | none =>
          rw [hstk] at hfin
          simp [Builder.finish, hstk, hbpf, hlev, hblen, hfin, hdep]
        | some p =>
          have hp0 : p ≠ 0 := by
            have : 0 < p := by simpa [lcap] using hpos
            omega
          simp only [lcap, Option.getD_some] at h0
          rw [hstk] at hfin
          simp [Builder.finish, hstk, hbpf, hlev, hblen, hp0, h0, hfin, hdep]
  · cases pf with
    | none => simp [lcap, Nat.mod_one] at h0
    | some p =>
      have hp0 : p ≠ 0 := by
        have : 0 < p := by simpa [lcap] using hpos
        omega
      have hpp := lcap_eq_pow (some p) hpf
      simp only [lcap, Option.getD_some] at h0 hvs hdm hS hpp
      have hr := Nat.mod_lt xs.length (Nat.pos_of_ne_zero hp0)
      have hskip : (p - xs.length % p) % p = p - xs.length % p := Nat.mod_eq_of_lt (by omega)
      have hlt : xs.length / p < 2 ^ D := by
        rw [Nat.div_lt_iff_lt_mul (Nat.pos_of_ne_zero hp0)]
        simp only [cap, lcap, Option.getD_some] at hlen
        rcases Nat.lt_or_eq_of_le hlen with h1 | h1
        · exact h1
        · rw [h1, Nat.mul_mod_left] at h0; exact absurd rfl h0
      have hvs0 : vs ≠ [] := by intro hv; subst hv; simp at hvs; omega
      have hvtop : (Tree.packed id vs).erase = canon (some p) 0 vs := by
        cases vs with
        | nil => exact absurd rfl hvs0
        | cons v vs' => simp [Tree.erase, canon]
      obtain ⟨st1, h1, hm, hP⟩ := finishPackedMerge_spec (some p) hpf z b hbpf xs.length D 0
        (xs.length / p) h (Tree.packed id vs) true st' A vs
        (by rw [Nat.zero_add, ← hpp]) hlt hS hvs0
        (by simp only [cap, lcap, Option.getD_some]; omega) hvtop
      obtain ⟨t, f, h2, hfin, ht⟩ :=
        finish_tail (some p) hpf z b D hbpf hlev hdep hd _ (A ++ vs) st1 h1 (by omega) hP
      have hnext : (xs.length / p + 1) * lcap (some p) = xs.length + (p - xs.length % p) := by
        simp only [lcap, Option.getD_some]
        rw [Nat.add_mul, Nat.one_mul, Nat.mul_comm]; omega
      rw [hnext] at hfin
      refine ⟨t, h2, ?_, by rw [hxs]; exact ht⟩
      have hsk : 0 < p - xs.length % p := by omega
      simp [Builder.finish, hst, hbpf, hlev, hblen, hp0, hskip, hsk, hdep, hm, hfin]

/-! ## C17: the bottom-up builder -/

/-- **C17** (main part). For every depth the builder supports and every `xs` that fits, feeding
`xs` to a fresh builder and finishing returns the stated depth, the length of `xs`, and a tree
whose shape is the canonical tree of `xs`. -/
theorem C17_builder_canonical (pf : Option Nat) (hpf : PfOK pf) (z : H) (depth : Nat)
    (hd : depth + pdOf pf ≤ 63) (xs : List T) (hlen : xs.length ≤ cap pf depth) (h : Heap H) :
    ∃ b0 b h1 t h2, Builder.new pf depth 0 = .ok b0 ∧ Coll.pushAll z b0 h xs = .ok (b, h1) ∧
      b.finish z h1 = .ok ((t, depth, xs.length), h2) ∧ t.erase = canon pf depth xs := by
  obtain ⟨b0, hnew, hb0⟩ := new_spec (T := T) pf depth hd
  obtain ⟨b, h1, hpush, hb⟩ := pushAll_spec pf hpf z depth hd xs [] b0 h hb0 (by simpa using hlen)
  rw [List.nil_append] at hb
  obtain ⟨t, h2, hfin, ht⟩ := finish_spec pf hpf z depth hd xs b hb hlen h1
  exact ⟨b0, b, h1, t, h2, hnew, hpush, hfin, ht⟩

/-- the tree returned by the builder holds exactly the pushed elements, in order: flattening,
counting and indexed reads all give back `xs`. -/
theorem C17_builder_contents (pf : Option Nat) (hpf : PfOK pf) (z : H) (depth : Nat)
    (hd : depth + pdOf pf ≤ 63) (xs : List T) (hlen : xs.length ≤ cap pf depth) (h : Heap H) :
    ∃ b0 b h1 t h2, Builder.new pf depth 0 = .ok b0 ∧ Coll.pushAll z b0 h xs = .ok (b, h1) ∧
      b.finish z h1 = .ok ((t, depth, xs.length), h2) ∧
      t.toList = xs ∧ t.computeLen = xs.length ∧
      ∀ i, i < cap pf depth → getRec pf t i depth = xs[i]? := by
  obtain ⟨b0, b, h1, t, h2, hnew, hpush, hfin, ht⟩ :=
    C17_builder_canonical pf hpf z depth hd xs hlen h
  refine ⟨b0, b, h1, t, h2, hnew, hpush, hfin, ?_, ?_, ?_⟩
  · rw [Tree.toList, ht]; exact toList_canon pf hpf depth xs hlen
  · exact computeLen_canon pf hpf t depth xs ht hlen
  · intro i hi; exact getRec_canon pf hpf t depth xs ht hlen i hi

/-- a full builder rejects one more `push`. -/
theorem push_full (pf : Option Nat) (hpf : PfOK pf) (z : H) (D : Nat) (xs : List T)
    (b : Builder T) (hb : BInv pf D xs b) (hfull : xs.length = cap pf D) (x : T) (h : Heap H) :
    b.push z h x = .error .builderFull := by
  have hcap := hb.capacity_eq hpf
  have : b.length = b.capacity := by rw [hcap, hb.length_eq, hfull]
  simp [Builder.push, this]

/-- feeding more than the capacity fails with `BuilderFull`. -/
theorem pushAll_overflow (pf : Option Nat) (hpf : PfOK pf) (z : H) (D : Nat)
    (hd : D + pdOf pf ≤ 63) (ys : List T) : ∀ (xs : List T) (b : Builder T) (h : Heap H),
      BInv pf D xs b → xs.length ≤ cap pf D → cap pf D < xs.length + ys.length →
      Coll.pushAll z b h ys = .error .builderFull := by
  induction ys with
  | nil => intro xs b h _ h1 h2; simp at h2; omega
  | cons y ys ih =>
    intro xs b h hb hle hgt
    simp only [List.length_cons] at hgt
    rcases Nat.lt_or_eq_of_le hle with hlt | heq
    · obtain ⟨b1, h1, hp, hb1⟩ := push_spec pf hpf z D hd xs b hb hlt y h
      have := ih (xs ++ [y]) b1 h1 hb1 (by simp; omega) (by simp; omega)
      simp only [Coll.pushAll, hp, this]
    · simp only [Coll.pushAll, push_full pf hpf z D xs b hb heq y h]

/-- **C17** (capacity). After `cap pf depth` pushes the next `push` reports `BuilderFull`. -/
theorem C17_push_beyond_capacity (pf : Option Nat) (hpf : PfOK pf) (z : H) (depth : Nat)
    (hd : depth + pdOf pf ≤ 63) (xs : List T) (hlen : xs.length = cap pf depth) (x : T)
    (h : Heap H) :
    ∃ b0 b h1, Builder.new pf depth 0 = .ok b0 ∧ Coll.pushAll z b0 h xs = .ok (b, h1) ∧
      b.push z h1 x = .error .builderFull := by
  obtain ⟨b0, hnew, hb0⟩ := new_spec (T := T) pf depth hd
  obtain ⟨b, h1, hpush, hb⟩ := pushAll_spec pf hpf z depth hd xs [] b0 h hb0 (by simp; omega)
  rw [List.nil_append] at hb
  exact ⟨b0, b, h1, hnew, hpush, push_full pf hpf z depth xs b hb hlen x h1⟩

/-- **C17** (capacity, whole run). Feeding more than `cap pf depth` elements to a fresh builder
fails with `BuilderFull`. -/
theorem C17_pushAll_beyond_capacity (pf : Option Nat) (hpf : PfOK pf) (z : H) (depth : Nat)
    (hd : depth + pdOf pf ≤ 63) (xs : List T) (hlen : cap pf depth < xs.length) (h : Heap H) :
    ∃ b0 : Builder T, Builder.new pf depth 0 = .ok b0 ∧
      Coll.pushAll z b0 h xs = .error .builderFull := by
  obtain ⟨b0, hnew, hb0⟩ := new_spec (T := T) pf depth hd
  exact ⟨b0, hnew, pushAll_overflow pf hpf z depth hd xs [] b0 h hb0 (by simp) (by simpa using hlen)⟩

/-- **C17** (depth). A depth beyond the supported maximum is reported as an error. -/
theorem C17_invalid_depth (pf : Option Nat) (depth level : Nat) (h : depth + pdOf pf > 63) :
    (Builder.new pf depth level : Except Err (Builder T)) = .error (.builderInvalidDepth depth) := by
  simp [Builder.new, maxTreeDepth, h]

/-- **C17** (no panic). Whatever the depth, level and input, creating a builder does not panic;
and for a level-0 builder, feeding any sequence and then finishing does not panic either. -/
theorem C17_never_panics (pf : Option Nat) (hpf : PfOK pf) (z : H) (depth level : Nat)
    (xs : List T) (h : Heap H) :
    (Builder.new pf depth level : Except Err (Builder T)) ≠ .error .panic ∧
    ∀ b0 : Builder T, Builder.new pf depth 0 = .ok b0 →
      Coll.pushAll z b0 h xs ≠ .error .panic ∧
      ∀ b h1, Coll.pushAll z b0 h xs = .ok (b, h1) → b.finish z h1 ≠ .error .panic := by
  refine ⟨?_, ?_⟩
  · unfold Builder.new; split <;> simp
  · intro b0 hb0
    by_cases hd : depth + pdOf pf ≤ 63
    · by_cases hlen : xs.length ≤ cap pf depth
      · obtain ⟨b0', b, h1, t, h2, hnew, hpush, hfin, _⟩ :=
          C17_builder_canonical pf hpf z depth hd xs hlen h
        rw [hnew] at hb0; cases hb0
        refine ⟨by rw [hpush]; simp, ?_⟩
        intro b' h1' hp'
        rw [hpush] at hp'; cases hp'
        rw [hfin]; simp
      · obtain ⟨b0', hnew, hpush⟩ :=
          C17_pushAll_beyond_capacity pf hpf z depth hd xs (by omega) h
        rw [hnew] at hb0; cases hb0
        refine ⟨by rw [hpush]; simp, ?_⟩
        intro b' h1' hp'
        rw [hpush] at hp'; cases hp'
    · rw [C17_invalid_depth pf depth 0 (by omega)] at hb0; cases hb0

/-! ## C05: `List::try_from_iter` -/

theorem listDepth_ok (pf : Option Nat) (hpf : PfOK pf) (N : Nat) (hN : N ≤ 2 ^ 63) :
    listDepth pf N + pdOf pf ≤ 63 ∧ N ≤ cap pf (listDepth pf N) := by
  have h63 : intLog N ≤ 63 := intLog_le N 63 hN
  have hle : N ≤ 2 ^ intLog N := le_pow_intLog N (by
    have : (2:Nat) ^ 63 ≤ 2 ^ 64 := by decide
    omega)
  have hpd := pdOf_le pf hpf
  rw [cap_eq_pow pf hpf]
  cases pf with
  | none =>
    simp only [listDepth, pdOf, Nat.add_zero]
    exact ⟨h63, hle⟩
  | some p =>
    simp only [listDepth, pdOf] at hpd ⊢
    refine ⟨by omega, Nat.le_trans hle (Nat.pow_le_pow_right (by decide) (by omega))⟩

/-- **C05** (`try_from_iter`, accepted). At most `N` elements give a list whose tree is the
canonical tree of the elements, with the exact length, the list depth and no pending updates. -/
theorem C05_tryFromIter_ok (pf : Option Nat) (hpf : PfOK pf) (z : H) (cfg : Cfg)
    (hN : cfg.N ≤ 2 ^ 63) (xs : List T) (hlen : xs.length ≤ cfg.N) (h : Heap H) :
    ∃ c h', Coll.tryFromIter pf z cfg xs h = .ok (c, h') ∧ c.kind = .list ∧
      c.tree.erase = canon pf (listDepth pf cfg.N) xs ∧ c.length = xs.length ∧
      c.depth = listDepth pf cfg.N ∧ c.updates = UMap.empty cfg.map := by
  obtain ⟨hd, hcap⟩ := listDepth_ok pf hpf cfg.N hN
  obtain ⟨b0, b, h1, t, h2, hnew, hpush, hfin, ht⟩ :=
    C17_builder_canonical pf hpf z (listDepth pf cfg.N) hd xs (by omega) h
  refine ⟨Coll.fromParts cfg t (listDepth pf cfg.N) xs.length, h2, ?_, rfl, ht, rfl, rfl, rfl⟩
  have : ¬ (xs.length > cfg.N) := by omega
  simp only [Coll.tryFromIter, hnew, hpush, hfin, this, if_false]

/-- **C05** (`try_from_iter`, rejected). More than `N` elements are rejected with an error
(`BuilderFull`, raised either by the builder or by the final length check); never `ok`, never a
panic. -/
theorem C05_tryFromIter_rejects (pf : Option Nat) (hpf : PfOK pf) (z : H) (cfg : Cfg)
    (hN : cfg.N ≤ 2 ^ 63) (xs : List T) (hlen : cfg.N < xs.length) (h : Heap H) :
    Coll.tryFromIter pf z cfg xs h = .error .builderFull := by
  obtain ⟨hd, hcap⟩ := listDepth_ok pf hpf cfg.N hN
  by_cases hfit : xs.length ≤ cap pf (listDepth pf cfg.N)
  · obtain ⟨b0, b, h1, t, h2, hnew, hpush, hfin, ht⟩ :=
      C17_builder_canonical pf hpf z (listDepth pf cfg.N) hd xs hfit h
    have : xs.length > cfg.N := hlen
    simp only [Coll.tryFromIter, hnew, hpush, hfin, this, if_true]
  · obtain ⟨b0, hnew, hpush⟩ :=
      C17_pushAll_beyond_capacity pf hpf z (listDepth pf cfg.N) hd xs (by omega) h
    simp only [Coll.tryFromIter, hnew, hpush]

/-! ## Non-vacuity: the hypotheses are satisfiable and the statements hold on concrete runs -/

section Examples

/-- decidable equality of outcomes, local to these examples. -/
@[instance_reducible] def builderExamplesDecEqExcept {ε α : Type} [DecidableEq ε] [DecidableEq α] :
    DecidableEq (Except ε α)
  | .ok a, .ok b => if h : a = b then isTrue (by rw [h]) else isFalse (by intro h'; cases h'; exact h rfl)
  | .error a, .error b =>
    if h : a = b then isTrue (by rw [h]) else isFalse (by intro h'; cases h'; exact h rfl)
  | .ok _, .error _ => isFalse (by intro h; cases h)
  | .error _, .ok _ => isFalse (by intro h; cases h)

attribute [local instance] builderExamplesDecEqExcept

/-- run the builder from an empty heap (`H := Nat`, zero word `0`). -/
def runBuilder (pf : Option Nat) (depth : Nat) (xs : List Nat) :
    Except Err (Shape Nat × Nat × Nat) :=
  match (Builder.new pf depth 0 : Except Err (Builder Nat)) with
  | .error e => .error e
  | .ok b0 =>
    match Coll.pushAll (0 : Nat) b0 Heap.empty xs with
    | .error e => .error e
    | .ok (b, h1) =>
      match b.finish (0 : Nat) h1 with
      | .error e => .error e
      | .ok ((t, d, l), _) => .ok (t.erase, d, l)

def runTryFromIter (pf : Option Nat) (N : Nat) (xs : List Nat) :
    Except Err (CKind × Shape Nat × Nat × Nat) :=
  match Coll.tryFromIter pf (0 : Nat) ⟨N, default⟩ xs Heap.empty with
  | .error e => .error e
  | .ok (c, _) => .ok (c.kind, c.tree.erase, c.length, c.depth)

example : PfOK none := by intro p hp; cases hp
example : PfOK (some 4) := by intro p hp; cases hp; exact ⟨2, by decide, rfl⟩
example : 2 + pdOf none ≤ 63 ∧ [10, 20, 30].length ≤ cap none 2 := by decide
example : 2 + pdOf (some 4) ≤ 63 ∧ [10, 20, 30, 40, 50].length ≤ cap (some 4) 2 := by decide

-- C17_builder_canonical, unpacked, 3 and 5 elements
example : runBuilder none 2 [10, 20, 30] = .ok (canon none 2 [10, 20, 30], 2, 3) := by decide
example : runBuilder none 3 [10, 20, 30, 40, 50] =
    .ok (canon none 3 [10, 20, 30, 40, 50], 3, 5) := by decide
example : runBuilder none 2 [10, 20, 30] =
    .ok (.node (.node (.leaf 10) (.leaf 20)) (.node (.leaf 30) (.zero 0)), 2, 3) := by decide
-- packed (`pf = some 4`), 3 and 5 elements, and a full tree
example : runBuilder (some 4) 2 [10, 20, 30] = .ok (canon (some 4) 2 [10, 20, 30], 2, 3) := by
  decide
example : runBuilder (some 4) 2 [10, 20, 30, 40, 50] =
    .ok (canon (some 4) 2 [10, 20, 30, 40, 50], 2, 5) := by decide
example : runBuilder (some 4) 2 [10, 20, 30, 40, 50] =
    .ok (.node (.node (.packed [10, 20, 30, 40]) (.packed [50])) (.zero 1), 2, 5) := by decide
example : runBuilder (some 4) 1 [1, 2, 3, 4, 5, 6, 7, 8] =
    .ok (canon (some 4) 1 [1, 2, 3, 4, 5, 6, 7, 8], 1, 8) := by decide
-- C17_push_beyond_capacity / C17_pushAll_beyond_capacity
example : cap none 1 < [1, 2, 3].length := by decide
example : runBuilder none 1 [1, 2, 3] = .error .builderFull := by decide
example : runBuilder (some 4) 0 [1, 2, 3, 4, 5] = .error .builderFull := by decide
-- C17_invalid_depth (62 + 2 > 63, as in the Rust unit test `depth_upper_limit`)
example : 62 + pdOf (some 4) > 63 := by decide
example : runBuilder (some 4) 62 [] = .error (.builderInvalidDepth 62) := by decide
example : (runBuilder (some 4) 61 []).toBool = true := by decide
-- C05
example : (5 : Nat) ≤ 2 ^ 63 ∧ [1, 2, 3].length ≤ 5 := by decide
example : runTryFromIter none 5 [1, 2, 3] = .ok (.list, canon none 3 [1, 2, 3], 3, 3) := by decide
example : runTryFromIter (some 4) 5 [1, 2, 3, 4, 5] =
    .ok (.list, canon (some 4) 1 [1, 2, 3, 4, 5], 5, 1) := by decide
-- rejected by the final length check (5 < 6 ≤ cap = 8) and by the builder (9 > 8)
example : runTryFromIter none 5 [1, 2, 3, 4, 5, 6] = .error .builderFull := by decide
example : runTryFromIter none 5 [1, 2, 3, 4, 5, 6, 7, 8, 9] = .error .builderFull := by decide

end Examples

end Milhouse
