import Milhouse.Proofs.Canon
import Milhouse.Model.Collection
/-!
# The stack-machine iterator (C01 / C11)

`Iter.next` (the transliteration of `iter.rs:43-99`) returns, for ANY well-formed tree, exactly
`getRec root index`, never fails, and keeps its stack equal to the path towards `index`.
From this: draining from `i` over a canonical tree yields `xs.drop i`; `iter_from`, `to_vec`
and the overlay iterator agree with indexed reads.
-/
namespace Milhouse
variable {T : Type}

/-! ## Arithmetic helpers -/

/-- at the end of a chunk (`p = 2^pd` values per leaf) the next index has `pd` trailing zeros. -/
theorem le_tzr_succ_of_chunk_end (i pd : Nat) (h : i % 2 ^ pd + 1 = 2 ^ pd) :
    pd ≤ tzr (i + 1) := by
  rw [le_tzr_iff (i+1) pd (by omega)]
  rw [Nat.dvd_iff_mod_eq_zero, Nat.add_mod]
  have hp : 0 < 2 ^ pd := Nat.pow_pos (by decide)
  by_cases h1 : 2 ^ pd = 1
  · rw [h1]; simp [Nat.mod_one]
  · have : 1 % 2 ^ pd = 1 := Nat.mod_eq_of_lt (by omega)
    rw [this, h]; simp

/-- inside a chunk, `i` and `i+1` agree on all bits from `pd` upwards. -/
theorem div_succ_eq_of_in_chunk (i pd h : Nat) (hlt : i % 2 ^ pd + 1 < 2 ^ pd) :
    (i + 1) / 2 ^ (h + pd) = i / 2 ^ (h + pd) := by
  have hnd : ¬ 2 ^ pd ∣ (i + 1) := by
    rw [Nat.dvd_iff_mod_eq_zero, Nat.add_mod]
    have : 1 % 2 ^ pd = 1 := Nat.mod_eq_of_lt (by omega)
    rw [this, Nat.mod_eq_of_lt hlt]; omega
  have h1 : (i + 1) / 2 ^ pd = i / 2 ^ pd := by
    rw [Nat.succ_div]; simp [hnd]
  rw [Nat.add_comm h pd, Nat.pow_add, ← Nat.div_div_eq_div_mul, ← Nat.div_div_eq_div_mul, h1]

/-! ## Paths -/

/-- one step down from a node whose children have height `h` (bit `h` of `i`). -/
def child (t : Tree T) (h i : Nat) : Tree T :=
  match t with
  | .node _ l r => if (i / 2 ^ h) % 2 = 0 then l else r
  | t => t

/-- the node reached from `root` (depth `D`) after `k` steps towards index `i`;
`pd` is the packing depth. -/
def descend (pd : Nat) (root : Tree T) (D i : Nat) : Nat → Tree T
  | 0 => root
  | k+1 => child (descend pd root D i k) (D - (k+1) + pd) i

/-- the iterator's stack after `k` descents, top first. -/
def pathStack (pd : Nat) (root : Tree T) (D i : Nat) : Nat → List (Tree T)
  | 0 => [root]
  | k+1 => descend pd root D i (k+1) :: pathStack pd root D i k

theorem pathStack_length (pd : Nat) (root : Tree T) (D i k : Nat) :
    (pathStack pd root D i k).length = k + 1 := by
  induction k with
  | zero => rfl
  | succ k ih => simp [pathStack, ih]

theorem pathStack_head (pd : Nat) (root : Tree T) (D i k : Nat) :
    ∃ rest, pathStack pd root D i k = descend pd root D i k :: rest := by
  cases k <;> simp [pathStack, descend]

theorem pathStack_drop (pd : Nat) (root : Tree T) (D i k m : Nat) (hm : m ≤ k) :
    (pathStack pd root D i k).drop m = pathStack pd root D i (k - m) := by
  induction m generalizing k with
  | zero => simp
  | succ m ih =>
    cases k with
    | zero => omega
    | succ k =>
      simp only [pathStack, List.drop_succ_cons]
      rw [ih k (by omega)]; congr 1; omega

/-- descents that only use bits on which `i` and `i'` agree are the same. -/
theorem descend_congr (pd : Nat) (root : Tree T) (D i i' k : Nat)
    (hk : ∀ h, D - k + pd ≤ h → i' / 2 ^ h = i / 2 ^ h) :
    descend pd root D i' k = descend pd root D i k := by
  induction k with
  | zero => rfl
  | succ k ih =>
    simp only [descend]
    rw [ih (fun h hh => hk h (by omega))]
    unfold child
    split
    · rw [hk _ (Nat.le_refl _)]
    · rfl

theorem pathStack_congr (pd : Nat) (root : Tree T) (D i i' k : Nat)
    (hk : ∀ h, D - k + pd ≤ h → i' / 2 ^ h = i / 2 ^ h) :
    pathStack pd root D i' k = pathStack pd root D i k := by
  induction k with
  | zero => rfl
  | succ k ih =>
    simp only [pathStack]
    rw [descend_congr pd root D i i' (k+1) hk, ih (fun h hh => hk h (by omega))]

/-! ## Well-formed trees -/

/-- `t` is a tree of depth `d` for packing `pf`: leaves (packed leaves with `1..p` values if
`pf = some p`) exactly at depth 0, `zero d` anywhere, nodes join two trees of equal depth. -/
inductive WFTree (pf : Option Nat) : Tree T → Nat → Prop
  | leaf (id : Nat) (v : T) : pf = none → WFTree pf (.leaf id v) 0
  | packed (id p : Nat) (vs : List T) : pf = some p → 1 ≤ vs.length → vs.length ≤ p →
      WFTree pf (.packed id vs) 0
  | zero (id d : Nat) : WFTree pf (.zero id d) d
  | node (id : Nat) {l r : Tree T} {h : Nat} :
      WFTree pf l h → WFTree pf r h → WFTree pf (.node id l r) (h+1)

/-- following the path from a well-formed root: every node on it is well formed for its depth
(or the path has run into a `zero`), and `getRec` from there is `getRec` from the root. -/
theorem descend_spec {pf : Option Nat} {root : Tree T} {D : Nat} (hwf : WFTree pf root D)
    (i : Nat) : ∀ k, k ≤ D →
      (WFTree pf (descend (pdOf pf) root D i k) (D - k) ∨
        ∃ id d, descend (pdOf pf) root D i k = .zero id d) ∧
      getRec pf (descend (pdOf pf) root D i k) i (D - k) = getRec pf root i D := by
  intro k
  induction k with
  | zero => intro _; exact ⟨Or.inl hwf, rfl⟩
  | succ k ih =>
    intro hk
    obtain ⟨h, hg⟩ := ih (by omega)
    have hDk : D - k = (D - (k+1)) + 1 := by omega
    rw [← hg]
    simp only [descend]
    generalize descend (pdOf pf) root D i k = top at h
    rw [hDk] at h ⊢
    generalize D - (k+1) = m at h ⊢
    rcases h with h | ⟨id, d, rfl⟩
    · generalize hm : m + 1 = m1 at h
      cases h with
      | leaf => omega
      | packed => omega
      | zero id d =>
        subst hm
        refine ⟨Or.inr ⟨id, m+1, rfl⟩, ?_⟩
        cases m <;> simp [child, getRec]
      | @node id l r h' hl hr =>
        have : h' = m := by omega
        subst this
        simp only [child, getRec]
        split
        · exact ⟨Or.inl hl, rfl⟩
        · exact ⟨Or.inl hr, rfl⟩
    · refine ⟨Or.inr ⟨id, d, rfl⟩, ?_⟩
      cases m <;> simp [child, getRec]

/-! ## The iterator invariant -/

/-- state invariant of `Iter`: the stack is the path from the root towards `index` (some prefix
of it: the iterator descends lazily), or the walk is over. -/
def PathOK (pf : Option Nat) (root : Tree T) (D length : Nat) (s : IterState T) : Prop :=
  (s.stack = [] ∧ length ≤ s.index) ∨
  ∃ k, k ≤ D ∧ s.stack = pathStack (pdOf pf) root D s.index k

theorem PathOK.fromIndex (pf : Option Nat) (root : Tree T) (D length i : Nat) :
    PathOK pf root D length (Iter.fromIndex i root) :=
  Or.inr ⟨0, Nat.zero_le _, rfl⟩

/-- popping `tz (i+1) - pd + 1` frames from the full path to `i` gives a path to `i+1`. -/
theorem pop_pathOK (pf : Option Nat) (root : Tree T) (D length i : Nat)
    (hlen : length ≤ 2 ^ (D + pdOf pf)) (hpd : pdOf pf ≤ tzr (i+1)) :
    PathOK pf root D length
      ⟨(pathStack (pdOf pf) root D i D).drop (tzr (i+1) - pdOf pf + 1), i+1⟩ := by
  by_cases hcase : tzr (i+1) - pdOf pf + 1 ≤ D
  · right
    refine ⟨D - (tzr (i+1) - pdOf pf + 1), by omega, ?_⟩
    show List.drop _ _ = _
    rw [pathStack_drop _ _ _ _ _ _ hcase]
    symm
    apply pathStack_congr
    intro h hh
    exact div_succ_eq i h (by omega)
  · left
    refine ⟨?_, ?_⟩
    · show List.drop _ _ = []
      apply List.drop_eq_nil_of_le
      rw [pathStack_length]; omega
    · show length ≤ i + 1
      have hd := tzr_dvd (i+1)
      have : 2 ^ (D + pdOf pf) ∣ i + 1 := Nat.dvd_trans (Nat.pow_dvd_pow 2 (by omega)) hd
      have := Nat.le_of_dvd (by omega) this
      omega

theorem succ_lt_two_pow_64 (pf : Option Nat) (D length i : Nat) (hD : D + pdOf pf ≤ 63)
    (hlen : length ≤ 2 ^ (D + pdOf pf)) (hi : i < length) : i + 1 < 2 ^ 64 := by
  have h1 : 2 ^ (D + pdOf pf) ≤ 2 ^ 63 := Nat.pow_le_pow_right (by decide) hD
  have h2 : (2:Nat) ^ 63 < 2 ^ 64 := by decide
  omega

theorem next_core (pf : Option Nat) (hpf : PfOK pf) (root : Tree T) (D length : Nat)
    (hD : D + pdOf pf ≤ 63) (hlen : length ≤ cap pf D) :
    ∀ (n k fuel : Nat) (s : IterState T), n = D - k → k ≤ D → n < fuel →
      (WFTree pf (descend (pdOf pf) root D s.index k) (D - k) ∨
        ∃ id d, descend (pdOf pf) root D s.index k = .zero id d) →
      s.stack = pathStack (pdOf pf) root D s.index k → s.index < length →
      ∃ s', Iter.next pf D length fuel s =
          .ok (getRec pf (descend (pdOf pf) root D s.index k) s.index (D - k), s') ∧
        ((getRec pf (descend (pdOf pf) root D s.index k) s.index (D - k)).isSome →
          s'.index = s.index + 1 ∧ PathOK pf root D length s') := by
  rw [cap_eq_pow pf hpf] at hlen
  intro n
  induction n with
  | zero =>
    intro k fuel s hn hk hf hwf hst hi
    have hkD : k = D := by omega
    have h0 : D - k = 0 := by omega
    have h64 := succ_lt_two_pow_64 pf D length s.index hD hlen hi
    have htz : tz (s.index + 1) = tzr (s.index + 1) := tz_eq_tzr _ (by omega) h64
    obtain ⟨rest, hrest⟩ := pathStack_head (pdOf pf) root D s.index k
    cases fuel with
    | zero => omega
    | succ fuel =>
      rw [h0] at hwf ⊢
      generalize htop : descend (pdOf pf) root D s.index k = top at hwf hrest
      rcases hwf with hwf | ⟨id, d, rfl⟩
      · cases hwf with
        | zero id =>
          exact ⟨s, by simp [Iter.next, Nat.not_le.mpr hi, hst, hrest, getRec], by simp [getRec]⟩
        | leaf id v hnone =>
          subst hnone
          refine ⟨⟨s.stack.drop (tz (s.index + 1) + 1), s.index + 1⟩, ?_, fun _ => ⟨rfl, ?_⟩⟩
          · simp [Iter.next, Nat.not_le.mpr hi, hst, hrest, getRec]
          · rw [hst, hkD, htz]
            have := pop_pathOK none root D length s.index hlen (by simp [pdOf])
            simpa [pdOf] using this
        | packed id p vs hsome hl1 hl2 =>
          subst hsome
          have hp : p = 2 ^ pdOf (some p) := by
            have := lcap_eq_pow (some p) hpf; simpa [lcap] using this
          have hp0 : p ≠ 0 := by
            have : 0 < 2 ^ pdOf (some p) := Nat.pow_pos (by decide)
            omega
          by_cases hend : s.index % p + 1 = p
          · have hle : pdOf (some p) ≤ tzr (s.index + 1) := by
              apply le_tzr_succ_of_chunk_end
              rw [← hp]; exact hend
            refine ⟨⟨s.stack.drop (tz (s.index + 1) - pdOf (some p) + 1), s.index + 1⟩, ?_,
              fun _ => ⟨rfl, ?_⟩⟩
            · simp [Iter.next, Nat.not_le.mpr hi, hst, hrest, getRec, hp0, hend, htz,
                Nat.not_lt.mpr hle]
            · rw [hst, hkD, htz]
              exact pop_pathOK (some p) root D length s.index hlen hle
          · refine ⟨⟨s.stack, s.index + 1⟩, ?_, fun _ => ⟨rfl, ?_⟩⟩
            · simp [Iter.next, Nat.not_le.mpr hi, hst, hrest, getRec, hp0, hend]
            · right
              refine ⟨D, Nat.le_refl _, ?_⟩
              show s.stack = _
              rw [hst, hkD]
              symm
              apply pathStack_congr
              intro h hh
              have hlt : s.index % 2 ^ pdOf (some p) + 1 < 2 ^ pdOf (some p) := by
                rw [← hp]
                have := Nat.mod_lt s.index (Nat.pos_of_ne_zero hp0)
                omega
              have := div_succ_eq_of_in_chunk s.index (pdOf (some p)) (h - pdOf (some p)) hlt
              rwa [show h - pdOf (some p) + pdOf (some p) = h by omega] at this
      · exact ⟨s, by simp [Iter.next, Nat.not_le.mpr hi, hst, hrest, getRec], by simp [getRec]⟩
  | succ n ih =>
    intro k fuel s hn hk hf hwf hst hi
    obtain ⟨rest, hrest⟩ := pathStack_head (pdOf pf) root D s.index k
    cases fuel with
    | zero => omega
    | succ fuel =>
      have hDk : D - k = (D - (k+1)) + 1 := by omega
      generalize htop : descend (pdOf pf) root D s.index k = top at hwf hrest
      rw [hDk] at hwf ⊢
      rcases hwf with hwf | ⟨id, d, rfl⟩
      · generalize hm : D - (k+1) + 1 = m1 at hwf
        cases hwf with
        | leaf => omega
        | packed => omega
        | zero id d =>
          subst hm
          exact ⟨s, by simp [Iter.next, Nat.not_le.mpr hi, hst, hrest, getRec], by simp [getRec]⟩
        | @node id l r h' hl hr =>
          have hh' : h' = D - (k+1) := by omega
          subst hh'
          have hrl : rest.length = k := by
            have := congrArg List.length hrest
            rw [pathStack_length] at this; simpa using this.symm
          have hchild : descend (pdOf pf) root D s.index (k+1) =
              if (s.index / 2 ^ (D - (k+1) + pdOf pf)) % 2 = 0 then l else r := by
            simp [descend, htop, child]
          have hnu : ¬ D < k + 1 := by omega
          by_cases hb : (s.index / 2 ^ (D - (k+1) + pdOf pf)) % 2 = 0
          · have hstep : Iter.next pf D length (fuel+1) s =
                Iter.next pf D length fuel ⟨l :: s.stack, s.index⟩ := by
              simp [Iter.next, Nat.not_le.mpr hi, hst, hrest, hrl, hb, hnu]
            rw [hstep]
            have := ih (k+1) fuel ⟨l :: s.stack, s.index⟩ (by omega) (by omega) (by omega)
              (by simp only [hchild, hb, if_true]; exact Or.inl hl)
              (by simp only [pathStack, hchild, hb, if_true, hst]) hi
            simp only [hchild, hb, if_true] at this
            simpa [getRec, hb] using this
          · have hstep : Iter.next pf D length (fuel+1) s =
                Iter.next pf D length fuel ⟨r :: s.stack, s.index⟩ := by
              simp [Iter.next, Nat.not_le.mpr hi, hst, hrest, hrl, hb, hnu]
            rw [hstep]
            have := ih (k+1) fuel ⟨r :: s.stack, s.index⟩ (by omega) (by omega) (by omega)
              (by simp only [hchild, hb, if_false]; exact Or.inl hr)
              (by simp only [pathStack, hchild, hb, if_false, hst]) hi
            simp only [hchild, hb, if_false] at this
            simpa [getRec, hb] using this
      · exact ⟨s, by simp [Iter.next, Nat.not_le.mpr hi, hst, hrest, getRec], by simp [getRec]⟩

/-- **`Iter::next` is `get_recursive`** (target 1). For any tree that is well formed for depth
`D` (not only canonical ones), any state whose stack is a path towards `index < length`:
the call succeeds (no `expect`/underflow panic, no fuel exhaustion), returns exactly
`getRec root index`, and if an element was returned the index has advanced by one and the
new stack is again a path towards the new index. If `getRec` is `none` (a `zero` region was
reached) the result is `none`. Packed and unpacked leaves are both covered. -/
theorem Iter.next_spec (pf : Option Nat) (hpf : PfOK pf) (root : Tree T) (D length : Nat)
    (hwf : WFTree pf root D) (hD : D + pdOf pf ≤ 63) (hlen : length ≤ cap pf D)
    (s : IterState T) (hs : PathOK pf root D length s) (hi : s.index < length) :
    ∃ s', Iter.next pf D length (D + 2) s = .ok (getRec pf root s.index D, s') ∧
      ((getRec pf root s.index D).isSome →
        s'.index = s.index + 1 ∧ PathOK pf root D length s') := by
  rcases hs with ⟨_, h⟩ | ⟨k, hk, hst⟩
  · omega
  · obtain ⟨hw, hg⟩ := descend_spec hwf s.index k hk
    have := next_core pf hpf root D length hD hlen (D - k) k (D + 2) s rfl hk (by omega) hw hst hi
    rw [hg] at this
    exact this

/-- corollary: `Iter.next` never reports a panic on a path-consistent state. -/
theorem Iter.next_ne_error (pf : Option Nat) (hpf : PfOK pf) (root : Tree T) (D length : Nat)
    (hwf : WFTree pf root D) (hD : D + pdOf pf ≤ 63) (hlen : length ≤ cap pf D)
    (s : IterState T) (hs : PathOK pf root D length s) (e : Err) :
    Iter.next pf D length (D + 2) s ≠ .error e := by
  by_cases hi : s.index < length
  · obtain ⟨s', h, _⟩ := Iter.next_spec pf hpf root D length hwf hD hlen s hs hi
    rw [h]; intro h'; cases h'
  · simp [Iter.next, Nat.not_lt.mp hi]

/-- past the end the iterator keeps answering `None` and does not move. -/
theorem Iter.next_done (pf : Option Nat) (D length fuel : Nat) (s : IterState T)
    (h : length ≤ s.index) : Iter.next pf D length (fuel + 1) s = .ok (none, s) := by
  simp [Iter.next, h]

/-! ## Canonical trees are well formed -/

theorem wf_of_canon (pf : Option Nat) (hpf : PfOK pf) :
    ∀ (d : Nat) (t : Tree T) (xs : List T), t.erase = canon pf d xs → xs.length ≤ cap pf d →
      WFTree pf t d := by
  intro d
  induction d with
  | zero =>
    intro t xs ht hlen
    cases xs with
    | nil =>
      cases t <;> simp [canon, Tree.erase] at ht
      subst ht; exact WFTree.zero _ _
    | cons x rest =>
      cases pf with
      | none =>
        cases t <;> simp [canon, Tree.erase] at ht
        exact WFTree.leaf _ _ rfl
      | some p =>
        cases t <;> simp [canon, Tree.erase] at ht
        subst ht
        refine WFTree.packed _ p _ rfl (by simp) ?_
        simpa [cap, lcap] using hlen
  | succ d ih =>
    intro t xs ht hlen
    have hc := cap_pos pf hpf d
    rw [cap_succ] at hlen
    cases xs with
    | nil =>
      cases t <;> simp [canon, Tree.erase] at ht
      subst ht; exact WFTree.zero _ _
    | cons x rest =>
      cases t with
      | leaf => simp [canon, Tree.erase] at ht
      | packed => simp [canon, Tree.erase] at ht
      | zero => simp [canon, Tree.erase] at ht
      | node id l r =>
      simp only [canon, Tree.erase] at ht
      injection ht with hl hr
      exact WFTree.node id
        (ih l _ hl (by simp only [List.length_take]; omega))
        (ih r _ hr (by simp only [List.length_drop, List.length_cons] at *; omega))

/-! ## Draining the tree iterator (target 2) -/

/-- `Iterator::collect` on `Iter`: call `next` until the first `None`; `n` bounds the number of
items. -/
def Iter.drain (pf : Option Nat) (D length : Nat) : Nat → IterState T → Except Err (List T)
  | 0, _ => .ok []
  | n+1, s =>
    match Iter.next pf D length (D + 2) s with
    | .error e => .error e
    | .ok (none, _) => .ok []
    | .ok (some x, s') =>
      match Iter.drain pf D length n s' with
      | .error e => .error e
      | .ok xs => .ok (x :: xs)

theorem drain_canon_aux (pf : Option Nat) (hpf : PfOK pf) (root : Tree T) (D : Nat) (xs : List T)
    (ht : root.erase = canon pf D xs) (hlen : xs.length ≤ cap pf D) (hD : D + pdOf pf ≤ 63) :
    ∀ (n : Nat) (s : IterState T), PathOK pf root D xs.length s → xs.length - s.index ≤ n →
      Iter.drain pf D xs.length n s = .ok (xs.drop s.index) := by
  have hwf := wf_of_canon pf hpf D root xs ht hlen
  intro n
  induction n with
  | zero =>
    intro s _ hn
    simp only [Iter.drain]
    rw [List.drop_of_length_le (by omega)]
  | succ n ih =>
    intro s hs hn
    by_cases hi : s.index < xs.length
    · obtain ⟨s', hnext, hs'⟩ := Iter.next_spec pf hpf root D xs.length hwf hD hlen s hs hi
      have hget : getRec pf root s.index D = some xs[s.index] := by
        rw [getRec_canon pf hpf root D xs ht hlen s.index (by omega)]
        exact List.getElem?_eq_getElem hi
      rw [hget] at hnext hs'
      obtain ⟨hidx, hpath⟩ := hs' rfl
      simp only [Iter.drain, hnext]
      rw [ih s' hpath (by omega), hidx]
      simp only []
      rw [← List.drop_eq_getElem_cons hi]
    · simp only [Iter.drain, Iter.next_done pf D xs.length (D+1) s (by omega)]
      rw [List.drop_of_length_le (by omega)]

/-- **iterating from `i` yields exactly the elements `i..` in order** (target 2): for a tree
whose shape is the canonical tree of `xs`, draining `Iter::from_index(i, root, D, |xs|)` returns
`xs.drop i` (for every `i`, and any sufficient item bound `n`). -/
theorem iter_from_canon (pf : Option Nat) (hpf : PfOK pf) (root : Tree T) (D : Nat) (xs : List T)
    (ht : root.erase = canon pf D xs) (hlen : xs.length ≤ cap pf D) (hD : D + pdOf pf ≤ 63)
    (i n : Nat) (hn : xs.length - i ≤ n) :
    Iter.drain pf D xs.length n (Iter.fromIndex i root) = .ok (xs.drop i) :=
  drain_canon_aux pf hpf root D xs ht hlen hD n _ (PathOK.fromIndex pf root D xs.length i) hn

/-! ## Update maps: `get` only sees entries -/

theorem assocGet_mem {k : Nat} {x : T} : ∀ (l : List (Nat × T)), assocGet k l = some x → (k, x) ∈ l := by
  intro l
  induction l with
  | nil => intro h; simp [assocGet] at h
  | cons a rest ih =>
    obtain ⟨k', v'⟩ := a
    intro h
    simp only [assocGet] at h
    split at h
    · rename_i hk; subst hk; cases h; simp
    · exact List.mem_cons_of_mem _ (ih h)

theorem vecEntriesFrom_mem {x : T} : ∀ (v : List (Option T)) (base k : Nat),
    v[k]? = some (some x) → (base + k, x) ∈ vecEntriesFrom base v := by
  intro v
  induction v with
  | nil => intro base k h; simp at h
  | cons a rest ih =>
    intro base k h
    cases k with
    | zero =>
      simp at h; subst h; simp [vecEntriesFrom]
    | succ k =>
      simp at h
      have := ih (base+1) k h
      rw [show base + 1 + k = base + (k+1) by omega] at this
      cases a with
      | none => simpa [vecEntriesFrom] using this
      | some y => simp only [vecEntriesFrom]; exact List.mem_cons_of_mem _ this

theorem UMap.get_mem_entries (u : UMap T) (k : Nat) (x : T) (h : u.get k = some x) :
    (k, x) ∈ u.entries := by
  cases u with
  | btree l => exact assocGet_mem l h
  | vec v =>
    simp only [UMap.get] at h
    have : v[k]? = some (some x) := by
      cases hv : v[k]? with
      | none => simp [hv] at h
      | some o => simp [hv] at h; simp [h]
    simpa [UMap.entries] using vecEntriesFrom_mem v 0 k this
  | maxvec v mk =>
    simp only [UMap.get] at h
    have : v[k]? = some (some x) := by
      cases hv : v[k]? with
      | none => simp [hv] at h
      | some o => simp [hv] at h; simp [h]
    simpa [UMap.entries] using vecEntriesFrom_mem v 0 k this

/-- a key above every entry is absent. -/
theorem UMap.get_eq_none_of_entries_lt (u : UMap T) (n : Nat)
    (h : ∀ e, e ∈ u.entries → e.1 < n) (k : Nat) (hk : n ≤ k) : u.get k = none := by
  cases hg : u.get k with
  | none => rfl
  | some x =>
    have := h _ (UMap.get_mem_entries u k x hg)
    simp at this; omega

theorem UMap.get_of_isEmpty (u : UMap T) (h : u.isEmpty = true) (k : Nat) : u.get k = none := by
  cases hg : u.get k with
  | none => rfl
  | some x =>
    have := UMap.get_mem_entries u k x hg
    simp [UMap.isEmpty, List.isEmpty_iff] at h
    rw [h] at this; simp at this

theorem UMap.maxIndex_eq_none_of_flushed (u : UMap T) (h : u.isEmpty = true) : u.maxIndex = none := by
  simp only [UMap.isEmpty, List.isEmpty_iff] at h
  cases u with
  | btree l => simp only [UMap.entries] at h; subst h; rfl
  | vec v => simp only [UMap.entries] at h; simp [UMap.maxIndex, h]
  | maxvec v mk => simp only [UMap.entries] at h; simp [UMap.maxIndex, h]

theorem Coll.length_le_len (c : Coll T) : c.length ≤ c.len := by
  unfold Coll.len; split
  · exact Nat.le_refl _
  · exact Nat.le_max_right _ _

theorem Coll.len_eq_length_of_flushed (c : Coll T) (h : c.updates.isEmpty = true) : c.len = c.length := by
  unfold Coll.len; rw [UMap.maxIndex_eq_none_of_flushed _ h]

/-! ## The interface iterator (targets 3 and 4) -/

/-- The backing of `c` holds `xs` canonically. -/
structure BackingOK (pf : Option Nat) (c : Coll T) (xs : List T) : Prop where
  pfOK : PfOK pf
  tree : c.tree.erase = canon pf c.depth xs
  length : c.length = xs.length
  fits : xs.length ≤ cap pf c.depth
  depth : c.depth + pdOf pf ≤ 63

theorem BackingOK.backingGet {pf : Option Nat} {c : Coll T} {xs : List T} (B : BackingOK pf c xs)
    (j : Nat) : c.backingGet pf j = xs[j]? := by
  unfold Coll.backingGet
  split
  · rename_i h
    exact getRec_canon pf B.pfOK c.tree c.depth xs B.tree B.fits j (by have := B.length; have := B.fits; omega)
  · rename_i h
    rw [List.getElem?_eq_none]; have := B.length; omega

/-- relation between the interface iterator's `index` and its tree iterator: in step and
path-consistent, or both past the backing length. -/
def StepInv (pf : Option Nat) (c : Coll T) (index : Nat) (s : IterState T) : Prop :=
  (s.index = index ∧ PathOK pf c.tree c.depth c.length s) ∨ (c.length ≤ index ∧ c.length ≤ s.index)

/-- one step of the tree iterator inside the interface iterator: it returns the backing's value
at `index` (`None` beyond the backing length, without error) and stays in step. -/
theorem backing_step {pf : Option Nat} {c : Coll T} {xs : List T} (B : BackingOK pf c xs)
    (index : Nat) (s : IterState T) (hinv : StepInv pf c index s) :
    ∃ s', Iter.next pf c.depth c.length (c.depth + 2) s = .ok (c.backingGet pf index, s') ∧
      StepInv pf c (index + 1) s' := by
  have hL := B.length
  have hwf := wf_of_canon pf B.pfOK c.depth c.tree xs B.tree B.fits
  rcases hinv with ⟨hidx, hpath⟩ | ⟨h1, h2⟩
  · by_cases hi : index < c.length
    · obtain ⟨s', hnext, hs'⟩ := Iter.next_spec pf B.pfOK c.tree c.depth c.length hwf B.depth
        (by rw [hL]; exact B.fits) s hpath (by omega)
      have hget : getRec pf c.tree s.index c.depth = some xs[index] := by
        rw [hidx, getRec_canon pf B.pfOK c.tree c.depth xs B.tree B.fits index
          (by have := B.fits; omega)]
        exact List.getElem?_eq_getElem (by omega)
      rw [hget] at hnext hs'
      obtain ⟨hidx', hpath'⟩ := hs' rfl
      refine ⟨s', ?_, Or.inl ⟨by omega, hpath'⟩⟩
      rw [hnext, B.backingGet, List.getElem?_eq_getElem (by omega)]
    · refine ⟨s, ?_, Or.inr ⟨by omega, by omega⟩⟩
      rw [Iter.next_done pf c.depth c.length (c.depth+1) s (by omega)]
      simp [Coll.backingGet, hi]
  · refine ⟨s, ?_, Or.inr ⟨by omega, h2⟩⟩
    rw [Iter.next_done pf c.depth c.length (c.depth+1) s h2]
    simp [Coll.backingGet, Nat.not_lt.mpr h1]

theorem iterCollect_spec {pf : Option Nat} {c : Coll T} {xs : List T} (B : BackingOK pf c xs)
    (total : Nat) (hread : ∀ j, j < total → (c.get pf j).isSome)
    (hend : c.get pf total = none) :
    ∀ (n index : Nat) (s : IterState T), index + n = total + 1 → StepInv pf c index s →
      ∃ items, c.iterCollect pf total n index s = .ok (items, 0) ∧
        items.map (fun x => some x.2) = (List.range' index (total - index)).map (c.get pf) ∧
        items.map (·.1) = (List.range' index (total - index)).map (fun j => total - j) := by
  intro n
  induction n with
  | zero =>
    intro index s hn _
    refine ⟨[], ?_, ?_, ?_⟩
    · simp only [Coll.iterCollect]; congr; omega
    · rw [show total - index = 0 by omega]; rfl
    · rw [show total - index = 0 by omega]; rfl
  | succ n ih =>
    intro index s hn hinv
    obtain ⟨s', hnext, hinv'⟩ := backing_step B index s hinv
    have hstep : ∀ (o : Option T), c.get pf index = o →
        c.iterCollect pf total (n+1) index s =
          match o with
          | none => .ok ([], total - index)
          | some x =>
            match c.iterCollect pf total n (index+1) s' with
            | .error e => .error e
            | .ok (rest, fin) => .ok ((total - index, x) :: rest, fin) := by
      intro o ho
      subst ho
      simp only [Coll.iterCollect, hnext]
      unfold Coll.get
      cases c.updates.get index <;> rfl
    by_cases hlt : index < total
    · obtain ⟨items, hrec, hvals, hsizes⟩ := ih (index+1) s' (by omega) hinv'
      have hsome := hread index hlt
      have hr : List.range' index (total - index) =
          index :: List.range' (index+1) (total - (index+1)) := by
        rw [show total - index = (total - (index+1)) + 1 by omega, List.range'_succ]
      cases hg : c.get pf index with
      | none => rw [hg] at hsome; cases hsome
      | some x =>
        refine ⟨(total - index, x) :: items, ?_, ?_, ?_⟩
        · rw [hstep _ hg]; simp only [hrec]
        · rw [hr]; simp only [List.map_cons, hvals, hg]
        · rw [hr]; simp only [List.map_cons, hsizes]
    · have hidx : index = total := by omega
      subst hidx
      refine ⟨[], ?_, ?_, ?_⟩
      · rw [hstep _ hend]; simp
      · rw [show index - index = 0 by omega]; rfl
      · rw [show index - index = 0 by omega]; rfl

theorem range'_map_getElem? (xs : List T) : ∀ (n i : Nat), i + n = xs.length →
    (List.range' i n).map (fun j => xs[j]?) = (xs.drop i).map some := by
  intro n
  induction n with
  | zero => intro i h; rw [List.drop_of_length_le (by omega)]; rfl
  | succ n ih =>
    intro i h
    have hi : i < xs.length := by omega
    rw [List.range'_succ, List.map_cons, ih (i+1) (by omega), List.drop_eq_getElem_cons hi,
      List.map_cons, List.getElem?_eq_getElem hi]

/-- the recorded size hints `[n, n-1, …, 1]`. -/
theorem sizes_eq_reverse : ∀ (n i : Nat),
    (List.range' i n).map (fun j => i + n - j) = (List.range' 1 n).reverse := by
  intro n
  induction n with
  | zero => intro i; rfl
  | succ n ih =>
    intro i
    rw [List.range'_succ, List.map_cons, List.range'_concat, List.reverse_append]
    have := ih (i+1)
    have e : (fun j => i + 1 + n - j) = (fun j => i + (n+1) - j) := by funext j; omega
    rw [e] at this
    rw [this]
    simp; omega

/-- **C01 with pending writes (target 4): iteration agrees with indexed reads through the
overlay.** The backing holds `xs` canonically, `c.updates` is arbitrary; `len = c.len`. If every
`j < len` is readable and no pending entry sits at key `len` (both hold for maps produced by
`push`/`get_mut`/a gap-checked `bulk_update`; see `readable_of_pending_contiguous`,
`Coll.get_len_eq_none`, `C01_iter_agrees_with_get_keysOK`; the second hypothesis cannot be dropped,
see `exCollStale` below), then `iter_from(i)` drained yields exactly
`c.get i, …, c.get (len-1)` with size hints `len - j`, finishes with size hint 0, and never fails
(the tree iterator keeps stepping past the backing length returning `None`). -/
theorem C01_iter_agrees_with_get (pf : Option Nat) (c : Coll T) (xs : List T)
    (hpf : PfOK pf) (htree : c.tree.erase = canon pf c.depth xs) (hlength : c.length = xs.length)
    (hfits : xs.length ≤ cap pf c.depth) (hdepth : c.depth + pdOf pf ≤ 63)
    (hread : ∀ j, j < c.len → (c.get pf j).isSome)
    (hend : c.updates.get c.len = none)
    (i : Nat) (hi : i ≤ c.len) :
    ∃ items, c.iterFromRaw pf i = .ok (items, 0) ∧
      items.map (fun x => some x.2) = (List.range' i (c.len - i)).map (c.get pf) ∧
      items.map (·.1) = (List.range' i (c.len - i)).map (fun j => c.len - j) := by
  have B : BackingOK pf c xs := ⟨hpf, htree, hlength, hfits, hdepth⟩
  have hend' : c.get pf c.len = none := by
    unfold Coll.get; rw [hend]
    simp [Coll.backingGet, Nat.not_lt.mpr (Coll.length_le_len c)]
  unfold Coll.iterFromRaw
  exact iterCollect_spec B c.len hread hend' (c.len + 1 - i) i _ (by omega)
    (Or.inl ⟨rfl, PathOK.fromIndex pf c.tree c.depth c.length i⟩)

/-- every index below `len` is readable when the pending keys at or beyond the backing length
leave no gap. -/
theorem readable_of_pending_contiguous (pf : Option Nat) (c : Coll T) (xs : List T)
    (hpf : PfOK pf) (htree : c.tree.erase = canon pf c.depth xs) (hlength : c.length = xs.length)
    (hfits : xs.length ≤ cap pf c.depth) (hdepth : c.depth + pdOf pf ≤ 63)
    (hcontig : ∀ j, c.length ≤ j → j < c.len → (c.updates.get j).isSome) :
    ∀ j, j < c.len → (c.get pf j).isSome := by
  have B : BackingOK pf c xs := ⟨hpf, htree, hlength, hfits, hdepth⟩
  intro j hj
  unfold Coll.get
  cases hu : c.updates.get j with
  | some x => rfl
  | none =>
    by_cases hjl : j < c.length
    · simp only [B.backingGet]
      rw [List.getElem?_eq_getElem (by omega)]; rfl
    · have := hcontig j (by omega) hj
      rw [hu] at this; cases this

/-- `get` on a flushed collection reads `xs`. -/
theorem get_flushed (pf : Option Nat) (c : Coll T) (xs : List T)
    (hflushed : c.updates.isEmpty = true) (B : BackingOK pf c xs) (j : Nat) :
    c.get pf j = xs[j]? := by
  unfold Coll.get
  rw [UMap.get_of_isEmpty _ hflushed]
  exact B.backingGet j

/-- **C11 (target 3): iterating from `i` yields exactly the elements `i..` in order**, with the
remaining sizes `|xs|-i, …, 1` reported before each `next` and `0` at the end; the checked
`iter_from` is the same for `i ≤ |xs|`. -/
theorem C11_iter_from_is_drop (pf : Option Nat) (c : Coll T) (xs : List T)
    (hflushed : c.updates.isEmpty = true)
    (hpf : PfOK pf) (htree : c.tree.erase = canon pf c.depth xs) (hlength : c.length = xs.length)
    (hfits : xs.length ≤ cap pf c.depth) (hdepth : c.depth + pdOf pf ≤ 63)
    (i : Nat) (hi : i ≤ xs.length) :
    ∃ items, c.iterFromRaw pf i = .ok (items, 0) ∧
      items.map (·.2) = xs.drop i ∧
      items.map (·.1) = (List.range' i (xs.length - i)).map (fun j => xs.length - j) ∧
      items.map (·.1) = (List.range' 1 (xs.length - i)).reverse ∧
      c.iterFrom pf i = .ok (items, 0) := by
  have B : BackingOK pf c xs := ⟨hpf, htree, hlength, hfits, hdepth⟩
  have hlen : c.len = xs.length := by rw [Coll.len_eq_length_of_flushed c hflushed, hlength]
  have hget := get_flushed pf c xs hflushed B
  obtain ⟨items, hraw, hvals, hsizes⟩ := C01_iter_agrees_with_get pf c xs hpf htree hlength hfits
    hdepth
    (by intro j hj; rw [hget, List.getElem?_eq_getElem (by omega)]; rfl)
    (UMap.get_of_isEmpty _ hflushed _) i (by omega)
  rw [hlen] at hvals hsizes
  refine ⟨items, hraw, ?_, hsizes, ?_, ?_⟩
  · have h1 : (List.range' i (xs.length - i)).map (c.get pf) = (xs.drop i).map some := by
      rw [show c.get pf = fun j => xs[j]? from funext hget]
      exact range'_map_getElem? xs _ i (by omega)
    rw [h1] at hvals
    have h2 : (items.map (·.2)).map some = (xs.drop i).map some := by
      rw [List.map_map]; exact hvals
    exact (List.map_inj_right (fun x y h => Option.some.inj h)).mp h2
  · rw [hsizes]
    have := sizes_eq_reverse (xs.length - i) i
    rw [show i + (xs.length - i) = xs.length by omega] at this
    exact this
  · unfold Coll.iterFrom
    rw [if_neg (by omega)]; exact hraw

/-- `iter_from` beyond the length is rejected. -/
theorem C11_iter_from_out_of_bounds (pf : Option Nat) (c : Coll T) (xs : List T)
    (hflushed : c.updates.isEmpty = true) (hlength : c.length = xs.length)
    (i : Nat) (hi : xs.length < i) :
    c.iterFrom pf i = .error (.outOfBoundsIterFrom i xs.length) := by
  have hlen : c.len = xs.length := by rw [Coll.len_eq_length_of_flushed c hflushed, hlength]
  unfold Coll.iterFrom
  rw [if_pos (by omega), hlen]

/-- **C01 (copy to a vector), flushed case:** `to_vec` returns the contents. -/
theorem C01_to_vec_flushed (pf : Option Nat) (c : Coll T) (xs : List T)
    (hflushed : c.updates.isEmpty = true)
    (hpf : PfOK pf) (htree : c.tree.erase = canon pf c.depth xs) (hlength : c.length = xs.length)
    (hfits : xs.length ≤ cap pf c.depth) (hdepth : c.depth + pdOf pf ≤ 63) :
    c.toVec pf = .ok xs := by
  obtain ⟨items, hraw, hvals, _⟩ := C11_iter_from_is_drop pf c xs hflushed hpf htree hlength hfits
    hdepth 0 (Nat.zero_le _)
  unfold Coll.toVec
  rw [hraw]; simp only [hvals, List.drop_zero]

/-! ### When is `c.updates.get c.len = none`? For every map whose `max_index` is really its
largest key: ascending `BTreeMap`s, every `VecMap`, and `MaxMap`s whose `max_key` is not stale. -/

theorem pairwise_le_getLast : ∀ (l : List (Nat × T)), l.Pairwise (fun a b => a.1 < b.1) →
    ∀ e, e ∈ l → ∃ m, l.getLast? = some m ∧ e.1 ≤ m.1 := by
  intro l
  induction l with
  | nil => intro _ e he; cases he
  | cons a rest ih =>
    intro hs e he
    rw [List.pairwise_cons] at hs
    obtain ⟨ha, hrest⟩ := hs
    cases rest with
    | nil =>
      simp at he; subst he
      exact ⟨e, rfl, Nat.le_refl _⟩
    | cons b rest' =>
      rw [List.getLast?_cons_cons]
      rcases List.mem_cons.mp he with rfl | he'
      · obtain ⟨m, hm, _⟩ := ih hrest b (List.mem_cons_self)
        exact ⟨m, hm, Nat.le_of_lt (ha m (List.mem_of_getLast? hm))⟩
      · exact ih hrest e he'

theorem vecEntriesFrom_sorted : ∀ (v : List (Option T)) (base : Nat),
    (vecEntriesFrom base v).Pairwise (fun a b => a.1 < b.1) ∧
    ∀ e, e ∈ vecEntriesFrom base v → base ≤ e.1 := by
  intro v
  induction v with
  | nil => intro base; simp [vecEntriesFrom]
  | cons a rest ih =>
    intro base
    obtain ⟨h1, h2⟩ := ih (base+1)
    cases a with
    | none =>
      simp only [vecEntriesFrom]
      exact ⟨h1, fun e he => by have := h2 e he; omega⟩
    | some x =>
      simp only [vecEntriesFrom, List.pairwise_cons, List.mem_cons]
      refine ⟨⟨fun e he => by have := h2 e he; simp; omega, h1⟩, ?_⟩
      rintro e (rfl | he)
      · exact Nat.le_refl _
      · have := h2 e he; omega

/-- `max_index` really is the largest key. -/
def UMap.KeysOK : UMap T → Prop
  | .btree l => l.Pairwise (fun a b => a.1 < b.1)
  | .vec _ => True
  | .maxvec v mk => ∀ e, e ∈ vecEntriesFrom 0 v → e.1 ≤ mk

theorem UMap.le_maxIndex (u : UMap T) (h : u.KeysOK) (e : Nat × T) (he : e ∈ u.entries) :
    ∃ mx, u.maxIndex = some mx ∧ e.1 ≤ mx := by
  cases u with
  | btree l =>
    obtain ⟨m, hm, hle⟩ := pairwise_le_getLast l h e he
    exact ⟨m.1, by simp [UMap.maxIndex, hm], hle⟩
  | vec v =>
    obtain ⟨m, hm, hle⟩ := pairwise_le_getLast _ (vecEntriesFrom_sorted v 0).1 e he
    exact ⟨m.1, by simp [UMap.maxIndex, hm], hle⟩
  | maxvec v mk =>
    refine ⟨mk, ?_, h e he⟩
    simp only [UMap.maxIndex, UMap.entries] at he ⊢
    rw [if_neg]
    intro hemp
    rw [List.isEmpty_iff] at hemp
    rw [hemp] at he; cases he

theorem Coll.get_len_eq_none (c : Coll T) (h : c.updates.KeysOK) : c.updates.get c.len = none := by
  apply UMap.get_eq_none_of_entries_lt c.updates c.len _ c.len (Nat.le_refl _)
  intro e he
  obtain ⟨mx, hmx, hle⟩ := UMap.le_maxIndex c.updates h e he
  unfold Coll.len
  rw [hmx]
  simp only
  have := Nat.le_max_left (mx + 1) c.length
  omega

/-- `C01_iter_agrees_with_get` for update maps whose `max_index` is their largest key. -/
theorem C01_iter_agrees_with_get_keysOK (pf : Option Nat) (c : Coll T) (xs : List T)
    (hpf : PfOK pf) (htree : c.tree.erase = canon pf c.depth xs) (hlength : c.length = xs.length)
    (hfits : xs.length ≤ cap pf c.depth) (hdepth : c.depth + pdOf pf ≤ 63)
    (hread : ∀ j, j < c.len → (c.get pf j).isSome)
    (hkeys : c.updates.KeysOK)
    (i : Nat) (hi : i ≤ c.len) :
    ∃ items, c.iterFromRaw pf i = .ok (items, 0) ∧
      items.map (fun x => some x.2) = (List.range' i (c.len - i)).map (c.get pf) ∧
      items.map (·.1) = (List.range' i (c.len - i)).map (fun j => c.len - j) :=
  C01_iter_agrees_with_get pf c xs hpf htree hlength hfits hdepth hread
    (Coll.get_len_eq_none c hkeys) i hi

/-! ## Non-vacuity: the hypotheses hold on concrete trees, and the conclusions compute -/

section Examples

/-- unpacked, depth 2, contents `[10,11,12]` (right edge is a `zero`). -/
def exTreeU : Tree Nat :=
  .node 0 (.node 1 (.leaf 2 10) (.leaf 3 11)) (.node 4 (.leaf 5 12) (.zero 6 0))

/-- packed (4 per leaf), depth 1, contents `[1,…,6]` (second leaf partially filled). -/
def exTreeP : Tree Nat := .node 0 (.packed 1 [1, 2, 3, 4]) (.packed 2 [5, 6])

theorem exPfOK4 : PfOK (some 4) := by
  intro p h; cases h; exact ⟨2, by decide, rfl⟩
theorem exPfOKnone : PfOK none := by intro p h; cases h

theorem exCanonU : exTreeU.erase = canon none 2 [10, 11, 12] := by
  simp [exTreeU, Tree.erase, canon, cap, lcap]
theorem exCanonP : exTreeP.erase = canon (some 4) 1 [1, 2, 3, 4, 5, 6] := by
  simp [exTreeP, Tree.erase, canon, cap, lcap]

theorem exWFU : WFTree none exTreeU 2 :=
  .node 0 (.node 1 (.leaf 2 10 rfl) (.leaf 3 11 rfl)) (.node 4 (.leaf 5 12 rfl) (.zero 6 0))
theorem exWFP : WFTree (some 4) exTreeP 1 :=
  .node 0 (.packed 1 4 _ rfl (by decide) (by decide)) (.packed 2 4 _ rfl (by decide) (by decide))

-- `Iter.next_spec`, unpacked: from the lazily-descended start state at index 1
example : ∃ s', Iter.next none 2 3 (2 + 2) (Iter.fromIndex 1 exTreeU) =
      .ok (getRec none exTreeU 1 2, s') ∧
    ((getRec none exTreeU 1 2).isSome → s'.index = 1 + 1 ∧ PathOK none exTreeU 2 3 s') :=
  Iter.next_spec none exPfOKnone exTreeU 2 3 exWFU (by decide) (by decide) _
    (PathOK.fromIndex none exTreeU 2 3 1) (by decide)
example : Iter.next none 2 3 4 (Iter.fromIndex 1 exTreeU) =
    .ok (some 11, ⟨[.node 0 (.node 1 (.leaf 2 10) (.leaf 3 11)) (.node 4 (.leaf 5 12) (.zero 6 0))], 2⟩) := by
  rfl

-- `Iter.next_spec`, packed: end of the first chunk (index 3) pops back to the root
example : ∃ s', Iter.next (some 4) 1 6 (1 + 2) (Iter.fromIndex 3 exTreeP) =
      .ok (getRec (some 4) exTreeP 3 1, s') ∧
    ((getRec (some 4) exTreeP 3 1).isSome → s'.index = 3 + 1 ∧ PathOK (some 4) exTreeP 1 6 s') :=
  Iter.next_spec (some 4) exPfOK4 exTreeP 1 6 exWFP (by decide) (by decide) _
    (PathOK.fromIndex (some 4) exTreeP 1 6 3) (by decide)
example : Iter.next (some 4) 1 6 3 (Iter.fromIndex 3 exTreeP) = .ok (some 4, ⟨[exTreeP], 4⟩) := by
  rfl
-- … and inside a chunk the stack is kept
example : Iter.next (some 4) 1 6 3 (Iter.fromIndex 1 exTreeP) =
    .ok (some 2, ⟨[.packed 1 [1, 2, 3, 4], exTreeP], 2⟩) := by
  rfl

-- `iter_from_canon`
example : Iter.drain none 2 3 3 (Iter.fromIndex 1 exTreeU) = .ok [11, 12] :=
  iter_from_canon none exPfOKnone exTreeU 2 [10, 11, 12] exCanonU (by decide) (by decide) 1 3
    (by decide)
example : Iter.drain (some 4) 1 6 6 (Iter.fromIndex 2 exTreeP) = .ok [3, 4, 5, 6] :=
  iter_from_canon (some 4) exPfOK4 exTreeP 1 [1, 2, 3, 4, 5, 6] exCanonP (by decide) (by decide)
    2 6 (by decide)

/-- flushed collections over the two trees. -/
def exCollU : Coll Nat := ⟨.list, exTreeU, 3, 2, .btree []⟩
def exCollP : Coll Nat := ⟨.list, exTreeP, 6, 1, .vec []⟩

example : exCollU.toVec none = .ok [10, 11, 12] :=
  C01_to_vec_flushed none exCollU [10, 11, 12] rfl exPfOKnone exCanonU rfl (by decide) (by decide)
example : exCollP.toVec (some 4) = .ok [1, 2, 3, 4, 5, 6] :=
  C01_to_vec_flushed (some 4) exCollP [1, 2, 3, 4, 5, 6] rfl exPfOK4 exCanonP rfl (by decide)
    (by decide)
example : ∃ items, exCollP.iterFromRaw (some 4) 2 = .ok (items, 0) ∧
    items.map (·.2) = [3, 4, 5, 6] ∧ items.map (·.1) = [4, 3, 2, 1] := by
  obtain ⟨items, h1, h2, _, h3, _⟩ := C11_iter_from_is_drop (some 4) exCollP [1, 2, 3, 4, 5, 6] rfl
    exPfOK4 exCanonP rfl (by decide) (by decide) 2 (by decide)
  exact ⟨items, h1, h2, h3⟩
example : exCollP.iterFromRaw (some 4) 2 = .ok ([(4, 3), (3, 4), (2, 5), (1, 6)], 0) := by rfl
example : exCollU.iterFrom none 4 = .error (.outOfBoundsIterFrom 4 3) :=
  C11_iter_from_out_of_bounds none exCollU [10, 11, 12] rfl rfl 4 (by decide)

/-- pending writes: overwrite index 1, push two elements (keys 3, 4) onto `[10,11,12]`. -/
def exCollOv : Coll Nat := ⟨.list, exTreeU, 3, 2, .btree [(1, 99), (3, 13), (4, 14)]⟩

example : ∃ items, exCollOv.iterFromRaw none 1 = .ok (items, 0) ∧
    items.map (fun x => some x.2) = (List.range' 1 (exCollOv.len - 1)).map (exCollOv.get none) ∧
    items.map (·.1) = (List.range' 1 (exCollOv.len - 1)).map (fun j => exCollOv.len - j) :=
  C01_iter_agrees_with_get none exCollOv [10, 11, 12] exPfOKnone exCanonU rfl (by decide)
    (by decide) (by decide) (by decide) 1 (by decide)
example : exCollOv.iterFromRaw none 1 = .ok ([(4, 99), (3, 12), (2, 13), (1, 14)], 0) := by rfl
example : exCollOv.updates.KeysOK := by
  simp [exCollOv, UMap.KeysOK]
example : ∀ j, j < exCollOv.len → exCollOv.length ≤ j → (exCollOv.updates.get j).isSome := by
  decide

/-- The hypothesis `c.updates.get c.len = none` of `C01_iter_agrees_with_get` cannot be dropped
for an *arbitrary* update map: a `MaxMap` whose `max_key` is stale (entry at key 1, `max_key` 0)
has `len = 1`, every index below `len` readable, yet the iterator yields two items. -/
def exCollStale : Coll Nat := ⟨.list, .leaf 0 10, 1, 0, .maxvec [none, some 7] 0⟩
example : exCollStale.len = 1 ∧ (∀ j, j < exCollStale.len → (exCollStale.get none j).isSome) ∧
    exCollStale.iterFromRaw none 0 = .ok ([(1, 10), (0, 7)], 0) := by
  refine ⟨rfl, by decide, rfl⟩

end Examples

end Milhouse
