import Milhouse.Proofs.Inv
import Milhouse.Model.Collection
/-!
# Rebase (L10): C07, C08 and the rebase clause of C03

About `Tree::rebase_on` (`rebaseOn`, `tree.rs:270-408`) and `List/Vector::rebase_on`
(`Coll.rebaseOnColl`).

* `CollisionFree` — the hash assumptions, always an explicit hypothesis; satisfiable
  (`HT.collisionFree`, a free term algebra in which zero padded chunks collide as in SSZ).
* Item 1, semantic lemma (design note A.4): `trueHash_canon_inj`, `trueHash_canon_erase_eq`;
  `semantic_lemma_needs_lengths` shows that the equal-length premise cannot be dropped.
* Equations for the model function: `rebaseOn_same_id/_leaf/_packed/_zero_zero/_zero_left/
  _zero_right/_node`, the 16-arm table `combine` and its compact reading `combine_cases`.
* Item 2, `rebaseOn_sound` (+ `_list`, `_vector`): never fails, actions are truthful, the result
  has the shape of the original, the heap stays valid for an extended registry (memos copied onto
  rebuilt nodes are valid — C03), old memos untouched. The bound `d + pdOf pf ≤ 63` is not needed
  (the model computes `2 ^ fd` in `Nat`).
* Item 3, C08 at tree level: `rebaseOn_equal_disjoint(_canon)`, `rebaseOn_equalReplace_iff`,
  `rebaseOn_shares_positions`, `C08_same_elements_same_node` (positions as index ranges:
  `subAt_canon`, `sliceAt_eq_range`).
* Collection level: `C07_rebase_preserves_meaning`, `C03_rebase_memos_valid`,
  `C08_equal_collections_share_tree`, `C08_shared_positions`.
* `RebaseExample`: concrete instances of all hypotheses and evaluated runs (including the
  trailing-zero pair with colliding, memoised roots, and the counterexample to C08 when the
  collections already share nodes).
-/
namespace Milhouse
variable {T H : Type}

/-! ## Hash assumptions (always explicit hypotheses; nothing is postulated) -/

/-- Collision freedom of the hash primitives, as far as rebase needs it. `pack_inj` is only
claimed for chunks holding the *same number* of values: a shorter chunk is zero padded, so
`packHash [5] = packHash [5, 0]` is allowed (and true for the real SSZ packing). -/
structure CollisionFree (E : Elem T H) (A : HashAlg H) : Prop where
  h2_inj : ∀ a b c d, A.h2 a b = A.h2 c d → a = c ∧ b = d
  leaf_inj : ∀ v w, E.leafHash v = E.leafHash w → v = w
  pack_inj : ∀ vs ws, vs.length = ws.length → E.packHash vs = E.packHash ws → vs = ws

/-- free term algebra of hashes. -/
inductive HT where
  | z
  | leafv (n : Nat)
  | pk (l : List Nat)
  | nd (a b : HT)
  deriving DecidableEq, Repr

/-- the free hash algebra. -/
def HT.alg : HashAlg HT := ⟨HT.z, HT.nd⟩

/-- `Nat` elements hashed in the free algebra; a packed chunk is zero padded to `p` values, so
that trailing zero values collide exactly as they do in SSZ. -/
def HT.elem (pf : Option Nat) : Elem Nat HT where
  pf := pf
  leafHash := HT.leafv
  packHash := fun vs => HT.pk (vs ++ List.replicate (pf.getD 1 - vs.length) 0)
  fixedLen := none
  enc := fun _ => []
  dec := fun _ => none

theorem HT.collisionFree (pf : Option Nat) : CollisionFree (HT.elem pf) HT.alg where
  h2_inj := by intro a b c d h; simpa [HT.alg] using h
  leaf_inj := by intro v w h; simpa [HT.elem] using h
  pack_inj := by
    intro vs ws hl h
    simp only [HT.elem, HT.pk.injEq, hl] at h
    exact List.append_cancel_right h

/-- `CollisionFree` is satisfiable (for every packing factor). -/
example : ∃ (E : Elem Nat HT) (A : HashAlg HT), CollisionFree E A :=
  ⟨HT.elem (some 4), HT.alg, HT.collisionFree _⟩

/-- …and it is compatible with the dangerous collision "trailing zero values". -/
example : (HT.elem (some 4)).packHash [5] = (HT.elem (some 4)).packHash [5, 0] := by decide

/-! ## The Merkle hash only depends on the shape -/

/-- Merkle hash of a shape. -/
def shapeHash (E : Elem T H) (A : HashAlg H) : Shape T → H
  | .leaf v => E.leafHash v
  | .packed vs => E.packHash vs
  | .zero d => zeroHash A d
  | .node l r => A.h2 (shapeHash E A l) (shapeHash E A r)

theorem trueHash_eq_shapeHash (E : Elem T H) (A : HashAlg H) (t : Tree T) :
    trueHash E A t = shapeHash E A t.erase := by
  induction t with
  | leaf id v => rfl
  | packed id vs => rfl
  | zero id d => rfl
  | node id l r ihl ihr => simp [trueHash, shapeHash, Tree.erase, ihl, ihr]

theorem trueHash_congr (E : Elem T H) (A : HashAlg H) {t1 t2 : Tree T} (h : t1.erase = t2.erase) :
    trueHash E A t1 = trueHash E A t2 := by
  rw [trueHash_eq_shapeHash, trueHash_eq_shapeHash, h]

/-! ## Item 1: the semantic lemma (design note A.4) -/

theorem length_take_le_cap (xs : List T) (c : Nat) : (xs.take c).length ≤ c := by
  simp only [List.length_take]; omega

theorem shapeHash_canon_inj (E : Elem T H) (A : HashAlg H) (hcf : CollisionFree E A)
    (pf : Option Nat) :
    ∀ (d : Nat) (xs ys : List T), xs.length = ys.length → xs.length ≤ cap pf d →
      shapeHash E A (canon pf d xs) = shapeHash E A (canon pf d ys) → xs = ys := by
  intro d
  induction d with
  | zero =>
    intro xs ys hl hc hh
    cases xs with
    | nil =>
      cases ys with
      | nil => rfl
      | cons y yr => simp at hl
    | cons x xr =>
      cases ys with
      | nil => simp at hl
      | cons y yr =>
        cases pf with
        | none =>
          simp [cap, lcap] at hc
          subst hc
          have : yr = [] := by simpa using hl.symm
          subst this
          simp only [canon, shapeHash] at hh
          rw [hcf.leaf_inj _ _ hh]
        | some p =>
          simp only [canon, shapeHash] at hh
          exact hcf.pack_inj _ _ hl hh
  | succ d ih =>
    intro xs ys hl hc hh
    cases xs with
    | nil =>
      cases ys with
      | nil => rfl
      | cons y yr => simp at hl
    | cons x xr =>
      cases ys with
      | nil => simp at hl
      | cons y yr =>
        rw [canon_succ_cons, canon_succ_cons] at hh
        simp only [shapeHash] at hh
        obtain ⟨h1, h2⟩ := hcf.h2_inj _ _ _ _ hh
        rw [cap_succ] at hc
        have e1 := ih _ _ (by simp only [List.length_take, hl]) (length_take_le_cap _ _) h1
        have e2 := ih _ _ (by simp only [List.length_drop, hl])
          (by simp only [List.length_drop]; omega) h2
        rw [← List.take_append_drop (cap pf d) (x :: xr), e1, e2, List.take_append_drop]

/-- **Semantic lemma** (A.4). Two canonical trees of the same depth holding the *same number* of
elements and having the same Merkle hash hold the same elements. Without `xs.length = ys.length`
this is false (see `semantic_lemma_needs_lengths` below). -/
theorem trueHash_canon_inj (E : Elem T H) (A : HashAlg H) (hcf : CollisionFree E A)
    (pf : Option Nat) (d : Nat) (t1 t2 : Tree T) (xs ys : List T)
    (hh : trueHash E A t1 = trueHash E A t2)
    (h1 : t1.erase = canon pf d xs) (h2 : t2.erase = canon pf d ys)
    (hl : xs.length = ys.length) (hc : xs.length ≤ cap pf d) : xs = ys := by
  rw [trueHash_eq_shapeHash, trueHash_eq_shapeHash, h1, h2] at hh
  exact shapeHash_canon_inj E A hcf pf d xs ys hl hc hh

/-- the shapes are then equal too. -/
theorem trueHash_canon_erase_eq (E : Elem T H) (A : HashAlg H) (hcf : CollisionFree E A)
    (pf : Option Nat) (d : Nat) (t1 t2 : Tree T) (xs ys : List T)
    (hh : trueHash E A t1 = trueHash E A t2)
    (h1 : t1.erase = canon pf d xs) (h2 : t2.erase = canon pf d ys)
    (hl : xs.length = ys.length) (hc : xs.length ≤ cap pf d) : t1.erase = t2.erase := by
  rw [h1, h2, trueHash_canon_inj E A hcf pf d t1 t2 xs ys hh h1 h2 hl hc]

/-- Why the Rust compares lengths: with unequal lengths the semantic lemma fails even for a
collision free hash — a zero padded partial chunk hashes like a full chunk of zero values. -/
theorem semantic_lemma_needs_lengths :
    shapeHash (HT.elem (some 2)) HT.alg (canon (some 2) 1 [1, 2, 3]) =
      shapeHash (HT.elem (some 2)) HT.alg (canon (some 2) 1 [1, 2, 3, 0]) ∧
    ([1, 2, 3] : List Nat) ≠ [1, 2, 3, 0] := by
  decide

/-! ## Equations for `rebaseOn` -/

section eqns
variable [DecidableEq T] [DecidableEq H]

/-- the tree the caller ends up with (`List::rebase_on`, `list.rs:345-361`). -/
def RebaseAction.result (orig : Tree T) : RebaseAction T → Tree T
  | .notEqualNoop => orig
  | .equalNoop => orig
  | .notEqualReplace t => t
  | .equalReplace t => t

/-- `lengths.is_none_or(|(o, b)| o == b)` -/
def lengthsEq : Option (Nat × Nat) → Bool
  | none => true
  | some (ol, bl) => ol == bl

/-- the lengths handed to the two recursive calls. -/
def splitLengths (lengths : Option (Nat × Nat)) (fd : Nat) :
    Option (Nat × Nat) × Option (Nat × Nat) :=
  match lengths with
  | none => (none, none)
  | some (ol, bl) =>
    (some (min ol (2 ^ fd), min bl (2 ^ fd)), some (ol - min ol (2 ^ fd), bl - min bl (2 ^ fd)))

/-- the 16-arm action table of `rebase_on`, verbatim. -/
def combine (m : H) (l1 r1 base : Tree T) (la ra : RebaseAction T) (h : Heap H) :
    RebaseAction T × Heap H :=
  let mk (l r : Tree T) : RebaseAction T × Heap H :=
    (.notEqualReplace (.node (h.alloc m).1 l r), (h.alloc m).2)
  match la, ra with
  | .notEqualNoop, .notEqualNoop => (.notEqualNoop, h)
  | .notEqualNoop, .equalNoop => (.notEqualNoop, h)
  | .equalNoop, .notEqualNoop => (.notEqualNoop, h)
  | .equalNoop, .equalNoop => (.equalNoop, h)
  | .notEqualNoop, .notEqualReplace nr => mk l1 nr
  | .equalNoop, .notEqualReplace nr => mk l1 nr
  | .notEqualNoop, .equalReplace nr => mk l1 nr
  | .equalNoop, .equalReplace nr => mk l1 nr
  | .notEqualReplace nl, .notEqualNoop => mk nl r1
  | .notEqualReplace nl, .equalNoop => mk nl r1
  | .notEqualReplace nl, .notEqualReplace nr => mk nl nr
  | .notEqualReplace nl, .equalReplace nr => mk nl nr
  | .equalReplace nl, .notEqualNoop => mk nl r1
  | .equalReplace nl, .notEqualReplace nr => mk nl nr
  | .equalReplace _, .equalReplace _ => (.equalReplace base, h)
  | .equalReplace _, .equalNoop => (.equalReplace base, h)

theorem rebaseOn_same_id (z : H) (h : Heap H) (orig base : Tree T) (lengths : Option (Nat × Nat))
    (fd : Nat) (hid : orig.id = base.id) :
    rebaseOn z h orig base lengths fd = .ok (.equalNoop, h) := by
  unfold rebaseOn; simp [hid]

theorem rebaseOn_leaf (z : H) (h : Heap H) (i j : Nat) (v w : T) (lengths : Option (Nat × Nat))
    (fd : Nat) (hid : i ≠ j) :
    rebaseOn z h (.leaf i v) (.leaf j w) lengths fd =
      if v = w then .ok (.equalReplace (.leaf j w), h) else .ok (.notEqualNoop, h) := by
  unfold rebaseOn; simp [Tree.id, hid]

theorem rebaseOn_packed (z : H) (h : Heap H) (i j : Nat) (v w : List T)
    (lengths : Option (Nat × Nat)) (fd : Nat) (hid : i ≠ j) :
    rebaseOn z h (.packed i v) (.packed j w) lengths fd =
      if v = w then .ok (.equalReplace (.packed j w), h) else .ok (.notEqualNoop, h) := by
  unfold rebaseOn; simp [Tree.id, hid]

theorem rebaseOn_zero_zero (z : H) (h : Heap H) (i j : Nat) (v w : Nat)
    (lengths : Option (Nat × Nat)) (fd : Nat) (hid : i ≠ j) :
    rebaseOn z h (.zero i v : Tree T) (.zero j w) lengths fd =
      if v = w then .ok (.equalReplace (.zero j w), h) else .ok (.notEqualNoop, h) := by
  unfold rebaseOn; simp [Tree.id, hid]

theorem rebaseOn_zero_left (z : H) (h : Heap H) (i k : Nat) (base : Tree T)
    (lengths : Option (Nat × Nat)) (fd : Nat) (hid : i ≠ base.id)
    (hb : ∀ j w, base ≠ .zero j w) :
    rebaseOn z h (.zero i k) base lengths fd = .ok (.notEqualNoop, h) := by
  unfold rebaseOn
  cases base <;> simp_all [Tree.id]

theorem rebaseOn_zero_right (z : H) (h : Heap H) (j k : Nat) (orig : Tree T)
    (lengths : Option (Nat × Nat)) (fd : Nat) (hid : orig.id ≠ j)
    (ho : ∀ i w, orig ≠ .zero i w) :
    rebaseOn z h orig (.zero j k) lengths fd = .ok (.notEqualNoop, h) := by
  unfold rebaseOn
  cases orig <;> simp_all [Tree.id]

theorem rebaseOn_node (z : H) (h : Heap H) (oid bid : Nat) (l1 r1 l2 r2 : Tree T)
    (lengths : Option (Nat × Nat)) (fd : Nat) (hid : oid ≠ bid) :
    rebaseOn z h (.node oid l1 r1) (.node bid l2 r2) lengths (fd + 1) =
      if h.read z oid ≠ z ∧ h.read z oid = h.read z bid ∧ lengthsEq lengths = true then
        .ok (.equalReplace (.node bid l2 r2), h)
      else
        match rebaseOn z h l1 l2 (splitLengths lengths fd).1 fd with
        | .error e => .error e
        | .ok (la, h1) =>
          match rebaseOn z h1 r1 r2 (splitLengths lengths fd).2 fd with
          | .error e => .error e
          | .ok (ra, h2) => .ok (combine (h.read z oid) l1 r1 (.node bid l2 r2) la ra h2) := by
  have fin : ∀ (L R : Option (Nat × Nat)) (c : Prop) [Decidable c],
      (if c then
          (Except.ok (RebaseAction.equalReplace (Tree.node bid l2 r2), h) :
            Except Err (RebaseAction T × Heap H))
        else
          match rebaseOn z h l1 l2 L fd with
          | .error e => .error e
          | .ok (la, h1) =>
            match rebaseOn z h1 r1 r2 R fd with
            | .error e => .error e
            | .ok (ra, h2) =>
              match la, ra with
              | .notEqualNoop, .notEqualNoop => .ok (.notEqualNoop, h2)
              | .notEqualNoop, .equalNoop => .ok (.notEqualNoop, h2)
              | .equalNoop, .notEqualNoop => .ok (.notEqualNoop, h2)
              | .equalNoop, .equalNoop => .ok (.equalNoop, h2)
              | .notEqualNoop, .notEqualReplace nr =>
                .ok (.notEqualReplace (.node (h2.alloc (h.read z oid)).1 l1 nr),
                  (h2.alloc (h.read z oid)).2)
              | .equalNoop, .notEqualReplace nr =>
                .ok (.notEqualReplace (.node (h2.alloc (h.read z oid)).1 l1 nr),
                  (h2.alloc (h.read z oid)).2)
              | .notEqualNoop, .equalReplace nr =>
                .ok (.notEqualReplace (.node (h2.alloc (h.read z oid)).1 l1 nr),
                  (h2.alloc (h.read z oid)).2)
              | .equalNoop, .equalReplace nr =>
                .ok (.notEqualReplace (.node (h2.alloc (h.read z oid)).1 l1 nr),
                  (h2.alloc (h.read z oid)).2)
              | .notEqualReplace nl, .notEqualNoop =>
                .ok (.notEqualReplace (.node (h2.alloc (h.read z oid)).1 nl r1),
                  (h2.alloc (h.read z oid)).2)
              | .notEqualReplace nl, .equalNoop =>
                .ok (.notEqualReplace (.node (h2.alloc (h.read z oid)).1 nl r1),
                  (h2.alloc (h.read z oid)).2)
              | .notEqualReplace nl, .notEqualReplace nr =>
                .ok (.notEqualReplace (.node (h2.alloc (h.read z oid)).1 nl nr),
                  (h2.alloc (h.read z oid)).2)
              | .notEqualReplace nl, .equalReplace nr =>
                .ok (.notEqualReplace (.node (h2.alloc (h.read z oid)).1 nl nr),
                  (h2.alloc (h.read z oid)).2)
              | .equalReplace nl, .notEqualNoop =>
                .ok (.notEqualReplace (.node (h2.alloc (h.read z oid)).1 nl r1),
                  (h2.alloc (h.read z oid)).2)
              | .equalReplace nl, .notEqualReplace nr =>
                .ok (.notEqualReplace (.node (h2.alloc (h.read z oid)).1 nl nr),
                  (h2.alloc (h.read z oid)).2)
              | .equalReplace _, .equalReplace _ => .ok (.equalReplace (.node bid l2 r2), h2)
              | .equalReplace _, .equalNoop => .ok (.equalReplace (.node bid l2 r2), h2)) =
      (if c then .ok (.equalReplace (.node bid l2 r2), h)
        else
          match rebaseOn z h l1 l2 L fd with
          | .error e => .error e
          | .ok (la, h1) =>
            match rebaseOn z h1 r1 r2 R fd with
            | .error e => .error e
            | .ok (ra, h2) => .ok (combine (h.read z oid) l1 r1 (.node bid l2 r2) la ra h2)) := by
    intro L R c _
    split
    · rfl
    · cases rebaseOn z h l1 l2 L fd with
      | error e => rfl
      | ok p =>
        obtain ⟨la, h1⟩ := p
        simp only []
        cases rebaseOn z h1 r1 r2 R fd with
        | error e => rfl
        | ok q =>
          obtain ⟨ra, h2⟩ := q
          cases la <;> cases ra <;> rfl
  conv => lhs; unfold rebaseOn
  simp only [Tree.id, hid, if_false]
  cases lengths with
  | none => exact fin _ _ _
  | some p =>
    obtain ⟨ol, bl⟩ := p
    exact fin _ _ _

end eqns

/-! ## Inversion of `erase` and of `canon` -/

theorem rb_erase_eq_zero {t : Tree T} {k : Nat} (h : t.erase = .zero k) : ∃ i, t = .zero i k := by
  cases t <;> simp_all [Tree.erase]

theorem rb_erase_eq_leaf {t : Tree T} {v : T} (h : t.erase = .leaf v) : ∃ i, t = .leaf i v := by
  cases t <;> simp_all [Tree.erase]

theorem rb_erase_eq_packed {t : Tree T} {vs : List T} (h : t.erase = .packed vs) :
    ∃ i, t = .packed i vs := by
  cases t <;> simp_all [Tree.erase]

theorem rb_erase_eq_node {t : Tree T} {a b : Shape T} (h : t.erase = .node a b) :
    ∃ i l r, t = .node i l r ∧ l.erase = a ∧ r.erase = b := by
  cases t with
  | node i l r =>
    simp only [Tree.erase, Shape.node.injEq] at h
    exact ⟨i, l, r, rfl, h.1, h.2⟩
  | _ => simp [Tree.erase] at h

/-! ## Registries: extension -/

/-- `(f', h')` extends `(f, h)`: nothing that existed before was touched. -/
structure Ext (z : H) (f : Registry T) (h : Heap H) (f' : Registry T) (h' : Heap H) : Prop where
  next_le : h.next ≤ h'.next
  reg : ∀ i, i < h.next → f' i = f i
  read : ∀ i, i < h.next → h'.read z i = h.read z i

theorem Ext.refl (z : H) (f : Registry T) (h : Heap H) : Ext z f h f h :=
  ⟨Nat.le_refl _, fun _ _ => rfl, fun _ _ => rfl⟩

theorem Ext.trans {z : H} {f f1 f2 : Registry T} {h h1 h2 : Heap H}
    (a : Ext z f h f1 h1) (b : Ext z f1 h1 f2 h2) : Ext z f h f2 h2 where
  next_le := Nat.le_trans a.next_le b.next_le
  reg := fun i hi => by rw [b.reg i (Nat.lt_of_lt_of_le hi a.next_le), a.reg i hi]
  read := fun i hi => by rw [b.read i (Nat.lt_of_lt_of_le hi a.next_le), a.read i hi]

theorem Registered.ext {E : Elem T H} {A : HashAlg H} {f f' : Registry T} {h h' : Heap H}
    {t : Tree T} (hr : Registered f t) (hok : HeapOK E A f h) (e : Ext A.zero f h f' h') :
    Registered f' t := by
  intro s hs
  have := hr s hs
  rw [e.reg _ (hok.bound _ _ this)]
  exact this

/-- `Arc::new(Node { hash: m, left: l, right: r })` keeps the invariant when `m` is absent or the
true hash of the new node (the rebase clause of C03). -/
theorem alloc_node_ok {E : Elem T H} {A : HashAlg H} {f : Registry T} {h : Heap H}
    (hok : HeapOK E A f h) (l r : Tree T) (hl : Registered f l) (hr : Registered f r) (m : H)
    (hm : m = A.zero ∨ m = trueHash E A (.node h.next l r)) :
    ∃ f', Ext A.zero f h f' (h.alloc m).2 ∧ HeapOK E A f' (h.alloc m).2 ∧
      Registered f' (.node h.next l r) := by
  refine ⟨fun i => if i = h.next then some (.node h.next l r) else f i, ?_, ?_, ?_⟩
  · refine ⟨by rw [Heap.next_alloc]; omega, ?_, ?_⟩
    · intro i hi; simp [Nat.ne_of_lt hi]
    · intro i hi; exact Heap.read_alloc_old h _ m i hi
  · constructor
    · intro id s hs
      rw [Heap.next_alloc]
      by_cases hid : id = h.next
      · omega
      · simp only [hid, if_false] at hs
        have := hok.bound id s hs; omega
    · intro id s hs
      by_cases hid : id = h.next
      · simp only [hid, if_true, Option.some.injEq] at hs
        subst hs
        have := Heap.read_alloc_new h A.zero m
        rw [Heap.alloc_fst] at this
        rw [hid, this]; exact hm
      · simp only [hid, if_false] at hs
        have hb := hok.bound id s hs
        rw [Heap.read_alloc_old h _ m id hb]
        exact hok.memo id s hs
  · intro s hs
    simp only [Tree.subtrees, List.mem_cons, List.mem_append] at hs
    rcases hs with rfl | hs | hs
    · simp [Tree.id]
    · have := hl s hs
      have hb := hok.bound _ _ this
      simp only [Nat.ne_of_lt hb, if_false]; exact this
    · have := hr s hs
      have hb := hok.bound _ _ this
      simp only [Nat.ne_of_lt hb, if_false]; exact this

theorem canon_eq_zero {pf : Option Nat} {d k : Nat} {xs : List T}
    (h : canon pf d xs = .zero k) : xs = [] := by
  cases xs with
  | nil => rfl
  | cons x xr =>
    cases d with
    | zero => cases pf <;> simp [canon] at h
    | succ d => simp [canon] at h

/-! ## Item 2: `rebaseOn_sound` (C07 core, with the heap clauses) -/

/-- What `lengths` must be for contents `xs` / `ys`. List: the two cached lengths. Vector: absent,
and both trees hold the same number of elements (`N`). -/
def LenOK (lengths : Option (Nat × Nat)) (xs ys : List T) : Prop :=
  match lengths with
  | none => xs.length = ys.length
  | some (a, b) => a = xs.length ∧ b = ys.length

theorem LenOK.eq_of_lengthsEq {lengths : Option (Nat × Nat)} {xs ys : List T}
    (h : LenOK lengths xs ys) (he : lengthsEq lengths = true) : xs.length = ys.length := by
  cases lengths with
  | none => exact h
  | some p =>
    obtain ⟨a, b⟩ := p
    simp only [LenOK] at h
    simp only [lengthsEq, beq_iff_eq] at he
    omega

theorem LenOK.split {lengths : Option (Nat × Nat)} {xs ys : List T}
    (h : LenOK lengths xs ys) (fd c : Nat) (hc : c = 2 ^ fd) :
    LenOK (splitLengths lengths fd).1 (xs.take c) (ys.take c) ∧
    LenOK (splitLengths lengths fd).2 (xs.drop c) (ys.drop c) := by
  cases lengths with
  | none =>
    simp only [LenOK] at h
    simp only [splitLengths, LenOK, List.length_take, List.length_drop, h, and_self]
  | some p =>
    obtain ⟨a, b⟩ := p
    simp only [LenOK] at h
    obtain ⟨rfl, rfl⟩ := h
    subst hc
    simp only [splitLengths, LenOK, List.length_take, List.length_drop]
    refine ⟨⟨Nat.min_comm _ _, Nat.min_comm _ _⟩, ?_, ?_⟩ <;> omega

/-- The specification of one call `rebaseOn z h orig base lengths fd = .ok (act, h')` on trees
holding `xs` and `ys`. -/
structure RebaseSpec (E : Elem T H) (A : HashAlg H) (f : Registry T) (h : Heap H)
    (orig base : Tree T) (xs ys : List T) (act : RebaseAction T) (h' : Heap H) : Prop where
  /-- "equal, take the base node": the contents are equal and the node is the base -/
  eqR : ∀ b, act = .equalReplace b → b = base ∧ xs = ys
  /-- "equal and already shared": the contents are equal -/
  eqN : act = .equalNoop → xs = ys
  /-- "rebuilt": the rebuilt node has the shape of the original -/
  neR : ∀ t, act = .notEqualReplace t → t.erase = orig.erase
  /-- the memo store only grew, every old memo is untouched, every memo (including the ones
  copied onto rebuilt nodes) is absent or the true hash, and the resulting tree is registered -/
  heap : ∃ f', Ext A.zero f h f' h' ∧ HeapOK E A f' h' ∧ Registered f' (act.result orig)

/-- calls that do not touch the heap. -/
theorem RebaseSpec.of_unchanged {E : Elem T H} {A : HashAlg H} {f : Registry T} {h : Heap H}
    {orig base : Tree T} {xs ys : List T} {act : RebaseAction T}
    (hok : HeapOK E A f h) (hro : Registered f orig) (hrb : Registered f base)
    (hact : act = .notEqualNoop ∨ (act = .equalNoop ∧ xs = ys) ∨
      (act = .equalReplace base ∧ xs = ys)) :
    RebaseSpec E A f h orig base xs ys act h := by
  rcases hact with rfl | ⟨rfl, e⟩ | ⟨rfl, e⟩
  · exact ⟨by simp, by simp, by simp, f, Ext.refl _ _ _, hok, hro⟩
  · exact ⟨by simp, fun _ => e, by simp, f, Ext.refl _ _ _, hok, hro⟩
  · refine ⟨?_, by simp, by simp, f, Ext.refl _ _ _, hok, hrb⟩
    intro b hb; simp only [RebaseAction.equalReplace.injEq] at hb; exact ⟨hb.symm, e⟩

/-- in every case the tree the caller ends up with has the shape of the original. -/
theorem RebaseSpec.result_erase {E : Elem T H} {A : HashAlg H} {f : Registry T} {h h' : Heap H}
    {orig base : Tree T} {xs ys : List T} {act : RebaseAction T} {pf : Option Nat} {d : Nat}
    (s : RebaseSpec E A f h orig base xs ys act h')
    (ho : orig.erase = canon pf d xs) (hb : base.erase = canon pf d ys) :
    (act.result orig).erase = orig.erase := by
  cases act with
  | notEqualNoop => rfl
  | equalNoop => rfl
  | notEqualReplace t => exact s.neR t rfl
  | equalReplace b =>
    obtain ⟨rfl, rfl⟩ := s.eqR b rfl
    simp only [RebaseAction.result]
    rw [ho, hb]

theorem take_drop_ext {c : Nat} {X Y : List T} (h1 : X.take c = Y.take c)
    (h2 : X.drop c = Y.drop c) : X = Y := by
  rw [← List.take_append_drop c X, h1, h2, List.take_append_drop]

section sound
variable [DecidableEq T] [DecidableEq H]

/-- same node, or one side empty: no recursion. -/
theorem rebaseOn_sound_easy (E : Elem T H) (A : HashAlg H) (pf : Option Nat) (hpf : PfOK pf)
    (d fd : Nat) (f : Registry T) (h : Heap H) (orig base : Tree T) (xs ys : List T)
    (lengths : Option (Nat × Nat))
    (hok : HeapOK E A f h) (hro : Registered f orig) (hrb : Registered f base)
    (ho : orig.erase = canon pf d xs) (hb : base.erase = canon pf d ys)
    (hx : xs.length ≤ cap pf d) (hy : ys.length ≤ cap pf d)
    (hcase : orig.id = base.id ∨ xs = [] ∨ ys = []) :
    ∃ act h', rebaseOn A.zero h orig base lengths fd = .ok (act, h') ∧
      RebaseSpec E A f h orig base xs ys act h' := by
  by_cases hid : orig.id = base.id
  · refine ⟨.equalNoop, h, rebaseOn_same_id _ _ _ _ _ _ hid, ?_⟩
    apply RebaseSpec.of_unchanged hok hro hrb
    right; left; refine ⟨rfl, ?_⟩
    have e : orig = base := by
      have h1 := hro.self
      have h2 := hrb.self
      rw [hid, h2] at h1
      exact (Option.some.inj h1).symm
    subst e
    exact canon_injective pf hpf d xs ys hx hy (ho.symm.trans hb)
  · rcases hcase with h0 | rfl | rfl
    · exact absurd h0 hid
    · rw [canon_nil] at ho
      obtain ⟨i, rfl⟩ := rb_erase_eq_zero ho
      by_cases hbz : ∃ j w, base = .zero j w
      · obtain ⟨j, w, rfl⟩ := hbz
        simp only [Tree.erase] at hb
        have hys : ys = [] := canon_eq_zero hb.symm
        subst hys
        rw [canon_nil] at hb
        simp only [Shape.zero.injEq] at hb
        subst hb
        refine ⟨.equalReplace (.zero j w), h, ?_, ?_⟩
        · rw [rebaseOn_zero_zero _ _ _ _ _ _ _ _ (by simpa [Tree.id] using hid)]; simp
        · exact RebaseSpec.of_unchanged hok hro hrb (Or.inr (Or.inr ⟨rfl, rfl⟩))
      · refine ⟨.notEqualNoop, h, ?_, RebaseSpec.of_unchanged hok hro hrb (Or.inl rfl)⟩
        apply rebaseOn_zero_left _ _ _ _ _ _ _ (by simpa [Tree.id] using hid)
        intro j w e; exact hbz ⟨j, w, e⟩
    · rw [canon_nil] at hb
      obtain ⟨j, rfl⟩ := rb_erase_eq_zero hb
      by_cases hoz : ∃ i w, orig = .zero i w
      · obtain ⟨i, w, rfl⟩ := hoz
        simp only [Tree.erase] at ho
        have hxs : xs = [] := canon_eq_zero ho.symm
        subst hxs
        rw [canon_nil] at ho
        simp only [Shape.zero.injEq] at ho
        subst ho
        refine ⟨.equalReplace (.zero j w), h, ?_, ?_⟩
        · rw [rebaseOn_zero_zero _ _ _ _ _ _ _ _ (by simpa [Tree.id] using hid)]; simp
        · exact RebaseSpec.of_unchanged hok hro hrb (Or.inr (Or.inr ⟨rfl, rfl⟩))
      · refine ⟨.notEqualNoop, h, ?_, RebaseSpec.of_unchanged hok hro hrb (Or.inl rfl)⟩
        apply rebaseOn_zero_right _ _ _ _ _ _ _ (by simpa [Tree.id] using hid)
        intro i w e; exact hoz ⟨i, w, e⟩

omit [DecidableEq T] [DecidableEq H] in
/-- The compact reading of the 16-arm table (design note A.4): both children replaced by base
nodes (or right one already shared) ⇒ the base node; neither replaced ⇒ noop; otherwise a fresh
node, carrying the original memo, over the children's results. -/
theorem combine_cases (m : H) (l1 r1 base : Tree T) (la ra : RebaseAction T) (h : Heap H) :
    (combine m l1 r1 base la ra h = (.equalReplace base, h) ∧
        (∃ a, la = .equalReplace a) ∧ ((∃ b, ra = .equalReplace b) ∨ ra = .equalNoop)) ∨
    (combine m l1 r1 base la ra h = (.equalNoop, h) ∧ la = .equalNoop ∧ ra = .equalNoop) ∨
    (combine m l1 r1 base la ra h = (.notEqualNoop, h) ∧
        la.result l1 = l1 ∧ ra.result r1 = r1) ∨
    (combine m l1 r1 base la ra h =
        (.notEqualReplace (.node h.next (la.result l1) (ra.result r1)), (h.alloc m).2)) := by
  cases la <;> cases ra <;> simp [combine, RebaseAction.result, Heap.alloc_fst]

theorem rebaseOn_sound_aux (E : Elem T H) (A : HashAlg H) (hcf : CollisionFree E A)
    (pf : Option Nat) (hpf : PfOK pf) :
    ∀ (d : Nat) (f : Registry T) (h : Heap H) (orig base : Tree T) (xs ys : List T)
      (lengths : Option (Nat × Nat)),
      HeapOK E A f h → Registered f orig → Registered f base →
      orig.erase = canon pf d xs → base.erase = canon pf d ys →
      xs.length ≤ cap pf d → ys.length ≤ cap pf d → LenOK lengths xs ys →
      ∃ act h', rebaseOn A.zero h orig base lengths (d + pdOf pf) = .ok (act, h') ∧
        RebaseSpec E A f h orig base xs ys act h' := by
  intro d
  induction d with
  | zero =>
    intro f h orig base xs ys lengths hok hro hrb ho hb hx hy hlen
    by_cases hcase : orig.id = base.id ∨ xs = [] ∨ ys = []
    · exact rebaseOn_sound_easy E A pf hpf 0 _ f h orig base xs ys lengths hok hro hrb ho hb hx hy
        hcase
    · have hid : orig.id ≠ base.id := fun e => hcase (Or.inl e)
      cases xs with
      | nil => exact absurd (Or.inr (Or.inl rfl)) hcase
      | cons x xr =>
        cases ys with
        | nil => exact absurd (Or.inr (Or.inr rfl)) hcase
        | cons y yr =>
          cases pf with
          | none =>
            simp only [canon] at ho hb
            obtain ⟨i, rfl⟩ := rb_erase_eq_leaf ho
            obtain ⟨j, rfl⟩ := rb_erase_eq_leaf hb
            simp only [cap, lcap, Option.getD_none, Nat.pow_zero, Nat.mul_one,
              List.length_cons] at hx hy
            have hxr : xr = [] := List.eq_nil_of_length_eq_zero (by omega)
            have hyr : yr = [] := List.eq_nil_of_length_eq_zero (by omega)
            subst hxr hyr
            rw [rebaseOn_leaf _ _ _ _ _ _ _ _ (by simpa [Tree.id] using hid)]
            by_cases hv : x = y
            · subst hv
              exact ⟨_, _, by simp, RebaseSpec.of_unchanged hok hro hrb (Or.inr (Or.inr ⟨rfl, rfl⟩))⟩
            · exact ⟨_, _, by simp [hv], RebaseSpec.of_unchanged hok hro hrb (Or.inl rfl)⟩
          | some p =>
            simp only [canon] at ho hb
            obtain ⟨i, rfl⟩ := rb_erase_eq_packed ho
            obtain ⟨j, rfl⟩ := rb_erase_eq_packed hb
            rw [rebaseOn_packed _ _ _ _ _ _ _ _ (by simpa [Tree.id] using hid)]
            by_cases hv : x :: xr = y :: yr
            · rw [hv] at hro ⊢
              exact ⟨_, _, by simp, RebaseSpec.of_unchanged hok hro hrb (Or.inr (Or.inr ⟨rfl, rfl⟩))⟩
            · exact ⟨_, _, by simp [hv], RebaseSpec.of_unchanged hok hro hrb (Or.inl rfl)⟩
  | succ d ih =>
    intro f h orig base xs ys lengths hok hro hrb ho hb hx hy hlen
    by_cases hcase : orig.id = base.id ∨ xs = [] ∨ ys = []
    · exact rebaseOn_sound_easy E A pf hpf (d+1) _ f h orig base xs ys lengths hok hro hrb ho hb
        hx hy hcase
    · have hid : orig.id ≠ base.id := fun e => hcase (Or.inl e)
      cases xs with
      | nil => exact absurd (Or.inr (Or.inl rfl)) hcase
      | cons x xr =>
        cases ys with
        | nil => exact absurd (Or.inr (Or.inr rfl)) hcase
        | cons y yr =>
          have ho0 := ho
          have hb0 := hb
          rw [canon_succ_cons] at ho hb
          generalize x :: xr = X at *
          generalize y :: yr = Y at *
          obtain ⟨oid, l1, r1, rfl, hl1, hr1⟩ := rb_erase_eq_node ho
          obtain ⟨bid, l2, r2, rfl, hl2, hr2⟩ := rb_erase_eq_node hb
          have hne : oid ≠ bid := by simpa [Tree.id] using hid
          have hc := cap_eq_pow pf hpf d
          have hx' := hx
          have hy' := hy
          rw [cap_succ] at hx' hy'
          rw [show d + 1 + pdOf pf = (d + pdOf pf) + 1 by omega,
            rebaseOn_node _ _ _ _ _ _ _ _ _ _ hne]
          have mo := hok.memo _ _ hro.self
          have mb := hok.memo _ _ hrb.self
          simp only [Tree.id] at mo mb
          by_cases hsc : h.read A.zero oid ≠ A.zero ∧ h.read A.zero oid = h.read A.zero bid ∧
              lengthsEq lengths = true
          · rw [if_pos hsc]
            refine ⟨_, _, rfl, RebaseSpec.of_unchanged hok hro hrb (Or.inr (Or.inr ⟨rfl, ?_⟩))⟩
            obtain ⟨h1, h2, h3⟩ := hsc
            have eo : h.read A.zero oid = trueHash E A (.node oid l1 r1) := by
              rcases mo with e | e
              · exact absurd e h1
              · exact e
            have eb : h.read A.zero bid = trueHash E A (.node bid l2 r2) := by
              rcases mb with e | e
              · exact absurd (h2.trans e) h1
              · exact e
            exact trueHash_canon_inj E A hcf pf (d+1) _ _ X Y (eo.symm.trans (h2.trans eb))
              ho0 hb0 (hlen.eq_of_lengthsEq h3) hx
          · rw [if_neg hsc]
            obtain ⟨hsl, hsr⟩ := hlen.split (d + pdOf pf) (cap pf d) hc
            have hxl : (X.take (cap pf d)).length ≤ cap pf d := length_take_le_cap _ _
            have hyl : (Y.take (cap pf d)).length ≤ cap pf d := length_take_le_cap _ _
            have hxr : (X.drop (cap pf d)).length ≤ cap pf d := by
              simp only [List.length_drop]; omega
            have hyr : (Y.drop (cap pf d)).length ≤ cap pf d := by
              simp only [List.length_drop]; omega
            obtain ⟨la, h1, e1, s1⟩ := ih f h l1 l2 _ _ _ hok hro.node_left hrb.node_left
              hl1 hl2 hxl hyl hsl
            rw [e1]; simp only []
            obtain ⟨f1, x1, ok1, reg1⟩ := s1.heap
            obtain ⟨ra, h2, e2, s2⟩ := ih f1 h1 r1 r2 _ _ _ ok1 (hro.node_right.ext hok x1)
              (hrb.node_right.ext hok x1) hr1 hr2 hxr hyr hsr
            rw [e2]; simp only []
            obtain ⟨f2, x2, ok2, reg2⟩ := s2.heap
            have x02 := x1.trans x2
            have regl : Registered f2 (la.result l1) := reg1.ext ok1 x2
            have erl := s1.result_erase hl1 hl2
            have err := s2.result_erase hr1 hr2
            generalize hcomb : combine (h.read A.zero oid) l1 r1 (.node bid l2 r2) la ra h2 = res
            obtain ⟨act, h3⟩ := res
            refine ⟨act, h3, rfl, ?_⟩
            rcases combine_cases (h.read A.zero oid) l1 r1 (.node bid l2 r2) la ra h2 with
              ⟨e, ⟨a, rfl⟩, hra⟩ | ⟨e, rfl, rfl⟩ | ⟨e, -, -⟩ | e
            · rw [hcomb] at e; cases e
              have hXY : X = Y := by
                apply take_drop_ext (s1.eqR a rfl).2
                rcases hra with ⟨b, rfl⟩ | rfl
                · exact (s2.eqR b rfl).2
                · exact s2.eqN rfl
              refine ⟨?_, by simp, by simp, f2, x02, ok2, hrb.ext hok x02⟩
              intro b hb; simp only [RebaseAction.equalReplace.injEq] at hb; exact ⟨hb.symm, hXY⟩
            · rw [hcomb] at e; cases e
              have hXY : X = Y := take_drop_ext (s1.eqN rfl) (s2.eqN rfl)
              exact ⟨by simp, fun _ => hXY, by simp, f2, x02, ok2, hro.ext hok x02⟩
            · rw [hcomb] at e; cases e
              exact ⟨by simp, by simp, by simp, f2, x02, ok2, hro.ext hok x02⟩
            · rw [hcomb] at e; cases e
              have hm : h.read A.zero oid = A.zero ∨ h.read A.zero oid =
                  trueHash E A (.node h2.next (la.result l1) (ra.result r1)) := by
                rcases mo with e | e
                · exact Or.inl e
                · right; rw [e]; apply trueHash_congr; simp only [Tree.erase, erl, err]
              obtain ⟨f3, x3, ok3, reg3⟩ := alloc_node_ok ok2 _ _ regl reg2 _ hm
              refine ⟨by simp, by simp, ?_, f3, x02.trans x3, ok3, reg3⟩
              intro t ht
              simp only [RebaseAction.notEqualReplace.injEq] at ht
              subst ht
              simp only [Tree.erase, erl, err]

end sound

/-! ### `rebaseOn_sound`, stated without the auxiliary structures -/

section sound_public
variable [DecidableEq T] [DecidableEq H]

/-- **C07 core / rebase clause of C03.** `Tree::rebase_on` on two registered canonical trees of
the same depth, with the `lengths` argument the collections pass (`LenOK`: the two lengths for a
list, `none` and equally many elements for a vector), under a collision free hash:

* never fails;
* `equalReplace b` ⇒ `b` is the base node and the contents are equal; `equalNoop` ⇒ the contents
  are equal; `notEqualReplace t` ⇒ `t` has the shape of `orig`; in every case the tree the caller
  ends up with has the shape of `orig`;
* there is an extension `f'` of the registry (agreeing with `f` on every id allocated before)
  under which the new heap is valid — so every memo copied onto a rebuilt node is absent or the
  true hash of that node —, the resulting tree and the base are registered, and every memo that
  existed before is unchanged. -/
theorem rebaseOn_sound (E : Elem T H) (A : HashAlg H) (hcf : CollisionFree E A)
    (pf : Option Nat) (hpf : PfOK pf) (d : Nat) (f : Registry T) (h : Heap H)
    (orig base : Tree T) (xs ys : List T) (lengths : Option (Nat × Nat))
    (hok : HeapOK E A f h) (hro : Registered f orig) (hrb : Registered f base)
    (ho : orig.erase = canon pf d xs) (hb : base.erase = canon pf d ys)
    (hx : xs.length ≤ cap pf d) (hy : ys.length ≤ cap pf d) (hlen : LenOK lengths xs ys) :
    ∃ act h', rebaseOn A.zero h orig base lengths (d + pdOf pf) = .ok (act, h') ∧
      (∀ b, act = .equalReplace b → b = base ∧ xs = ys) ∧
      (act = .equalNoop → xs = ys) ∧
      (∀ t, act = .notEqualReplace t → t.erase = orig.erase) ∧
      (act.result orig).erase = orig.erase ∧
      ∃ f', (∀ i, i < h.next → f' i = f i) ∧
        (∀ i, i < h.next → h'.read A.zero i = h.read A.zero i) ∧
        h.next ≤ h'.next ∧ HeapOK E A f' h' ∧
        Registered f' (act.result orig) ∧ Registered f' orig ∧ Registered f' base := by
  obtain ⟨act, h', e, s⟩ := rebaseOn_sound_aux E A hcf pf hpf d f h orig base xs ys lengths
    hok hro hrb ho hb hx hy hlen
  obtain ⟨f', x, ok', reg'⟩ := s.heap
  exact ⟨act, h', e, s.eqR, s.eqN, s.neR, s.result_erase ho hb, f', x.reg, x.read, x.next_le, ok',
    reg', hro.ext hok x, hrb.ext hok x⟩

/-- list case: `lengths = some (orig length, base length)`. -/
theorem rebaseOn_sound_list (E : Elem T H) (A : HashAlg H) (hcf : CollisionFree E A)
    (pf : Option Nat) (hpf : PfOK pf) (d : Nat) (f : Registry T) (h : Heap H)
    (orig base : Tree T) (xs ys : List T)
    (hok : HeapOK E A f h) (hro : Registered f orig) (hrb : Registered f base)
    (ho : orig.erase = canon pf d xs) (hb : base.erase = canon pf d ys)
    (hx : xs.length ≤ cap pf d) (hy : ys.length ≤ cap pf d) :
    ∃ act h', rebaseOn A.zero h orig base (some (xs.length, ys.length)) (d + pdOf pf)
        = .ok (act, h') ∧
      (∀ b, act = .equalReplace b → b = base ∧ xs = ys) ∧
      (act = .equalNoop → xs = ys) ∧
      (∀ t, act = .notEqualReplace t → t.erase = orig.erase) ∧
      (act.result orig).erase = orig.erase ∧
      ∃ f', (∀ i, i < h.next → f' i = f i) ∧
        (∀ i, i < h.next → h'.read A.zero i = h.read A.zero i) ∧
        h.next ≤ h'.next ∧ HeapOK E A f' h' ∧
        Registered f' (act.result orig) ∧ Registered f' orig ∧ Registered f' base :=
  rebaseOn_sound E A hcf pf hpf d f h orig base xs ys _ hok hro hrb ho hb hx hy ⟨rfl, rfl⟩

/-- vector case: `lengths = none`, both trees hold the same number `n` of elements. -/
theorem rebaseOn_sound_vector (E : Elem T H) (A : HashAlg H) (hcf : CollisionFree E A)
    (pf : Option Nat) (hpf : PfOK pf) (d n : Nat) (f : Registry T) (h : Heap H)
    (orig base : Tree T) (xs ys : List T)
    (hok : HeapOK E A f h) (hro : Registered f orig) (hrb : Registered f base)
    (ho : orig.erase = canon pf d xs) (hb : base.erase = canon pf d ys)
    (hxn : xs.length = n) (hyn : ys.length = n) (hn : n ≤ cap pf d) :
    ∃ act h', rebaseOn A.zero h orig base none (d + pdOf pf) = .ok (act, h') ∧
      (∀ b, act = .equalReplace b → b = base ∧ xs = ys) ∧
      (act = .equalNoop → xs = ys) ∧
      (∀ t, act = .notEqualReplace t → t.erase = orig.erase) ∧
      (act.result orig).erase = orig.erase ∧
      ∃ f', (∀ i, i < h.next → f' i = f i) ∧
        (∀ i, i < h.next → h'.read A.zero i = h.read A.zero i) ∧
        h.next ≤ h'.next ∧ HeapOK E A f' h' ∧
        Registered f' (act.result orig) ∧ Registered f' orig ∧ Registered f' base :=
  rebaseOn_sound E A hcf pf hpf d f h orig base xs ys none hok hro hrb ho hb (by omega) (by omega)
    (show xs.length = ys.length by omega)

end sound_public

/-! ## Item 3: C08, physical sharing after a rebase -/

/-- the identities of all nodes of a tree. -/
def Tree.ids : Tree T → List Nat
  | .node id l r => id :: (l.ids ++ r.ids)
  | .leaf id _ => [id]
  | .packed id _ => [id]
  | .zero id _ => [id]

/-- "shares no memory with": no node identity in common. -/
def Tree.Disjoint (a b : Tree T) : Prop := ∀ i, i ∈ a.ids → i ∉ b.ids

theorem Tree.id_mem_ids (t : Tree T) : t.id ∈ t.ids := by
  cases t <;> simp [Tree.ids, Tree.id]

theorem Tree.Disjoint.id_ne {a b : Tree T} (h : a.Disjoint b) : a.id ≠ b.id := by
  intro e
  exact h _ a.id_mem_ids (e ▸ b.id_mem_ids)

theorem Tree.Disjoint.left {i j : Nat} {l1 r1 l2 r2 : Tree T}
    (h : (Tree.node i l1 r1).Disjoint (.node j l2 r2)) : l1.Disjoint l2 := by
  intro k hk hk'
  exact h k (by simp [Tree.ids, hk]) (by simp [Tree.ids, hk'])

theorem Tree.Disjoint.right {i j : Nat} {l1 r1 l2 r2 : Tree T}
    (h : (Tree.node i l1 r1).Disjoint (.node j l2 r2)) : r1.Disjoint r2 := by
  intro k hk hk'
  exact h k (by simp [Tree.ids, hk]) (by simp [Tree.ids, hk'])

/-- the subtree at a position: the path from the root, `false` = left, `true` = right. -/
def subAt : Tree T → List Bool → Option (Tree T)
  | t, [] => some t
  | .node _ l r, b :: p => if b then subAt r p else subAt l p
  | _, _ :: _ => none

/-- height of a shape (leaves, packed leaves and zero nodes have height 0). -/
def Shape.height : Shape T → Nat
  | .node l r => max l.height r.height + 1
  | _ => 0

theorem height_canon_le (pf : Option Nat) : ∀ (d : Nat) (xs : List T),
    (canon pf d xs).height ≤ d := by
  intro d
  induction d with
  | zero =>
    intro xs
    cases xs with
    | nil => simp [canon, Shape.height]
    | cons x xr => cases pf <;> simp [canon, Shape.height]
  | succ d ih =>
    intro xs
    cases xs with
    | nil => simp [canon, Shape.height]
    | cons x xr =>
      simp only [canon, Shape.height]
      have := ih ((x :: xr).take (cap pf d))
      have := ih ((x :: xr).drop (cap pf d))
      omega

section sharing
variable [DecidableEq T] [DecidableEq H]

/-- **C08 (a), tree level.** Rebasing a tree on a tree of the same shape that shares no node
with it returns the base node itself (whatever the memos and the `lengths` argument are), and
allocates nothing. -/
theorem rebaseOn_equal_disjoint (z : H) :
    ∀ (a b : Tree T) (h : Heap H) (lengths : Option (Nat × Nat)) (fd : Nat),
      a.erase = b.erase → a.Disjoint b → a.erase.height ≤ fd →
      rebaseOn z h a b lengths fd = .ok (.equalReplace b, h) := by
  intro a
  induction a with
  | leaf i v =>
    intro b h lengths fd he hd _
    obtain ⟨j, rfl⟩ := rb_erase_eq_leaf he.symm
    rw [rebaseOn_leaf _ _ _ _ _ _ _ _ (by simpa [Tree.id] using hd.id_ne)]; simp
  | packed i vs =>
    intro b h lengths fd he hd _
    obtain ⟨j, rfl⟩ := rb_erase_eq_packed he.symm
    rw [rebaseOn_packed _ _ _ _ _ _ _ _ (by simpa [Tree.id] using hd.id_ne)]; simp
  | zero i k =>
    intro b h lengths fd he hd _
    obtain ⟨j, rfl⟩ := rb_erase_eq_zero he.symm
    rw [rebaseOn_zero_zero _ _ _ _ _ _ _ _ (by simpa [Tree.id] using hd.id_ne)]; simp
  | node i l1 r1 ihl ihr =>
    intro b h lengths fd he hd hh
    obtain ⟨j, l2, r2, rfl, hl, hr⟩ := rb_erase_eq_node he.symm
    simp only [Tree.erase, Shape.height] at hh
    obtain ⟨fd, rfl⟩ : ∃ k, fd = k + 1 := ⟨fd - 1, by omega⟩
    rw [rebaseOn_node _ _ _ _ _ _ _ _ _ _ (by simpa [Tree.id] using hd.id_ne)]
    split
    · rfl
    · rw [ihl l2 h _ fd hl.symm hd.left (by omega)]
      simp only []
      rw [ihr r2 h _ fd hr.symm hd.right (by omega)]
      simp only [combine]

omit [DecidableEq T] [DecidableEq H] in
/-- the tree resulting from the table is the base, or a node over the children's results. -/
theorem combine_result (m : H) (oid bid : Nat) (l1 r1 l2 r2 : Tree T) (la ra : RebaseAction T)
    (h : Heap H) :
    (combine m l1 r1 (.node bid l2 r2) la ra h).1.result (.node oid l1 r1) = .node bid l2 r2 ∨
    ∃ id, (combine m l1 r1 (.node bid l2 r2) la ra h).1.result (.node oid l1 r1) =
      .node id (la.result l1) (ra.result r1) := by
  cases la <;> cases ra <;> simp [combine, RebaseAction.result]

/-- **C08 (b), tree level.** After `rebase_on` of a tree on a base that shares no node with it,
every position at which the two trees had subtrees of the same shape holds the base's node. -/
theorem rebaseOn_shares_positions (z : H) :
    ∀ (p : List Bool) (orig base : Tree T) (h : Heap H) (lengths : Option (Nat × Nat)) (fd : Nat)
      (act : RebaseAction T) (h' : Heap H),
      rebaseOn z h orig base lengths fd = .ok (act, h') →
      orig.Disjoint base → orig.erase.height ≤ fd →
      ∀ a b, subAt orig p = some a → subAt base p = some b → a.erase = b.erase →
        subAt (act.result orig) p = some b := by
  intro p
  induction p with
  | nil =>
    intro orig base h lengths fd act h' hr hd hh a b ha hb he
    simp only [subAt, Option.some.injEq] at ha hb
    subst ha hb
    rw [rebaseOn_equal_disjoint z _ _ h lengths fd he hd hh] at hr
    cases hr
    simp only [RebaseAction.result, subAt]
  | cons dir p ih =>
    intro orig base h lengths fd act h' hr hd hh a b ha hb he
    cases orig with
    | node oid l1 r1 =>
      cases base with
      | node bid l2 r2 =>
        simp only [Tree.erase, Shape.height] at hh
        obtain ⟨fd, rfl⟩ : ∃ k, fd = k + 1 := ⟨fd - 1, by omega⟩
        rw [rebaseOn_node _ _ _ _ _ _ _ _ _ _ (by simpa [Tree.id] using hd.id_ne)] at hr
        split at hr
        · cases hr
          exact hb
        · cases e1 : rebaseOn z h l1 l2 (splitLengths lengths fd).1 fd with
          | error e => rw [e1] at hr; cases hr
          | ok p1 =>
            obtain ⟨la, h1⟩ := p1
            rw [e1] at hr
            simp only [] at hr
            cases e2 : rebaseOn z h1 r1 r2 (splitLengths lengths fd).2 fd with
            | error e => rw [e2] at hr; cases hr
            | ok p2 =>
              obtain ⟨ra, h2⟩ := p2
              rw [e2] at hr
              simp only [Except.ok.injEq] at hr
              have hact : act = (combine (h.read z oid) l1 r1 (.node bid l2 r2) la ra h2).1 := by
                rw [hr]
              rcases combine_result (h.read z oid) oid bid l1 r1 l2 r2 la ra h2 with e | ⟨id, e⟩
              · rw [hact, e]; exact hb
              · rw [hact, e]
                simp only [subAt] at ha hb ⊢
                cases dir with
                | false =>
                  simp only [Bool.false_eq_true, if_false] at ha hb ⊢
                  exact ih l1 l2 h _ fd la h1 e1 hd.left (by omega) a b ha hb he
                | true =>
                  simp only [if_true] at ha hb ⊢
                  exact ih r1 r2 h1 _ fd ra h2 e2 hd.right (by omega) a b ha hb he
      | _ => simp [subAt] at hb
    | _ => simp [subAt] at ha

/-- **C08 (a)** for canonical trees: two trees holding the same `xs` and sharing no node. -/
theorem rebaseOn_equal_disjoint_canon (z : H) (pf : Option Nat) (d : Nat) (xs : List T)
    (orig base : Tree T) (h : Heap H) (lengths : Option (Nat × Nat))
    (ho : orig.erase = canon pf d xs) (hb : base.erase = canon pf d xs)
    (hdis : orig.Disjoint base) :
    rebaseOn z h orig base lengths (d + pdOf pf) = .ok (.equalReplace base, h) := by
  apply rebaseOn_equal_disjoint z orig base h lengths _ (ho.trans hb.symm) hdis
  rw [ho]; have := height_canon_le pf d xs; omega

/-- Under the hypotheses of `rebaseOn_sound` and "no shared memory", `rebase_on` answers
"equal, take the base node" exactly when the contents are equal. -/
theorem rebaseOn_equalReplace_iff (E : Elem T H) (A : HashAlg H) (hcf : CollisionFree E A)
    (pf : Option Nat) (hpf : PfOK pf) (d : Nat) (f : Registry T) (h : Heap H)
    (orig base : Tree T) (xs ys : List T) (lengths : Option (Nat × Nat))
    (hok : HeapOK E A f h) (hro : Registered f orig) (hrb : Registered f base)
    (ho : orig.erase = canon pf d xs) (hb : base.erase = canon pf d ys)
    (hx : xs.length ≤ cap pf d) (hy : ys.length ≤ cap pf d) (hlen : LenOK lengths xs ys)
    (hdis : orig.Disjoint base) :
    (∃ h', rebaseOn A.zero h orig base lengths (d + pdOf pf) = .ok (.equalReplace base, h')) ↔
      xs = ys := by
  constructor
  · rintro ⟨h', e⟩
    obtain ⟨act, h'', e', hR, _⟩ := rebaseOn_sound E A hcf pf hpf d f h orig base xs ys lengths
      hok hro hrb ho hb hx hy hlen
    rw [e] at e'
    cases e'
    exact (hR base rfl).2
  · rintro rfl
    exact ⟨h, rebaseOn_equal_disjoint_canon A.zero pf d xs orig base h lengths ho hb hdis⟩

end sharing

/-! ## Collection level: C07, C08, and the rebase clause of C03 -/

/-- A collection whose backing tree is the registered canonical tree of `xs`. (For a vector the
model keeps `N` in `length`, and the tree holds all `N` elements.) Pending writes are arbitrary:
`rebase_on` does not look at them. -/
structure CollOK (pf : Option Nat) (f : Registry T) (c : Coll T) (xs : List T) : Prop where
  shape : c.tree.erase = canon pf c.depth xs
  len : c.length = xs.length
  fits : xs.length ≤ cap pf c.depth
  reg : Registered f c.tree

/-- Everything one can observe of a collection without looking at node identities or memos is
determined by the shape of its tree and its scalar fields. -/
theorem Coll.obs_congr [DecidableEq T] (pf : Option Nat) (E : Elem T H) (A : HashAlg H)
    (c c' : Coll T)
    (he : c'.tree.erase = c.tree.erase) (hl : c'.length = c.length) (hd : c'.depth = c.depth)
    (hu : c'.updates = c.updates) :
    (∀ i, c'.get pf i = c.get pf i) ∧ c'.len = c.len ∧ c'.isEmpty = c.isEmpty ∧
    (∀ o : Coll T, c'.beq o = c.beq o ∧ o.beq c' = o.beq c) ∧
    trueHash E A c'.tree = trueHash E A c.tree := by
  refine ⟨?_, ?_, ?_, ?_, trueHash_congr E A he⟩
  · intro i
    simp only [Coll.get, Coll.backingGet, getRec_erase, he, hl, hd, hu]
  · simp only [Coll.len, hl, hu]
  · simp only [Coll.isEmpty, Coll.len, hl, hu]
  · intro o
    simp only [Coll.beq, he, hl, hd, hu, and_self]

section coll
variable [DecidableEq T] [DecidableEq H]

/-- the `lengths` argument `List::rebase_on` / `Vector::rebase_on` pass down. -/
def collLengths (c base : Coll T) : Option (Nat × Nat) :=
  match c.kind with
  | .list => some (c.length, base.length)
  | .vector => none

/-- `rebase_on` of a collection: run `Tree::rebase_on` and install the resulting tree. -/
theorem rebaseOnColl_eq (pf : Option Nat) (z : H) (c base : Coll T) (h : Heap H) :
    c.rebaseOnColl pf z base h =
      match rebaseOn z h c.tree base.tree (collLengths c base) (c.depth + pdOf pf) with
      | .error e => .error e
      | .ok (act, h') => .ok ({ c with tree := act.result c.tree }, h') := by
  obtain ⟨kind, tree, length, depth, updates⟩ := c
  cases kind
  · simp only [Coll.rebaseOnColl, collLengths]
    cases rebaseOn z h tree base.tree (some (length, base.length)) (depth + pdOf pf) with
    | error e => rfl
    | ok r => obtain ⟨act, h'⟩ := r; cases act <;> rfl
  · simp only [Coll.rebaseOnColl, collLengths]
    cases rebaseOn z h tree base.tree none (depth + pdOf pf) with
    | error e => rfl
    | ok r => obtain ⟨act, h'⟩ := r; cases act <;> rfl

/-- **C07.** Rebasing a collection on any base of the same type (same depth; for vectors the same
`N`) succeeds and changes nothing observable: the new collection has the same tree *shape*, cached
length, depth, pending writes and kind, hence the same reads, `len`, equality with anything, and
Merkle hash; it is again a valid collection for the same contents `xs`. The base is unaffected:
it is the same value, still valid for `ys`, and no memo that existed before has changed. The new
heap is valid (`HeapOK`) for an extension `f'` of the registry — this is the rebase clause of C03:
the memos copied onto rebuilt nodes are valid for them.

This covers pairs whose subtrees have equal hashes but different lengths (trailing zero values):
`xs` and `ys` are arbitrary. -/
theorem C07_rebase_preserves_meaning (E : Elem T H) (A : HashAlg H) (hcf : CollisionFree E A)
    (pf : Option Nat) (hpf : PfOK pf) (f : Registry T) (h : Heap H) (c base : Coll T)
    (xs ys : List T) (hok : HeapOK E A f h)
    (hc : CollOK pf f c xs) (hbs : CollOK pf f base ys)
    (hdepth : c.depth = base.depth) (hvec : c.kind = .vector → c.length = base.length) :
    ∃ c' h' f', c.rebaseOnColl pf A.zero base h = .ok (c', h') ∧
      -- nothing observable changed
      c'.tree.erase = c.tree.erase ∧ c'.length = c.length ∧ c'.depth = c.depth ∧
      c'.updates = c.updates ∧ c'.kind = c.kind ∧
      (∀ i, c'.get pf i = c.get pf i) ∧ c'.len = c.len ∧ c'.isEmpty = c.isEmpty ∧
      (∀ o : Coll T, c'.beq o = c.beq o ∧ o.beq c' = o.beq c) ∧
      trueHash E A c'.tree = trueHash E A c.tree ∧
      -- the invariants are kept, for the result, the original and the base
      HeapOK E A f' h' ∧ CollOK pf f' c' xs ∧ CollOK pf f' c xs ∧ CollOK pf f' base ys ∧
      -- nothing that existed before was touched
      (∀ i, i < h.next → f' i = f i) ∧
      (∀ i, i < h.next → h'.read A.zero i = h.read A.zero i) ∧ h.next ≤ h'.next := by
  have hlen : LenOK (collLengths c base) xs ys := by
    unfold collLengths
    cases hk : c.kind with
    | list => exact ⟨hc.len, hbs.len⟩
    | vector =>
      have := hvec hk
      show xs.length = ys.length
      rw [← hc.len, ← hbs.len]; exact this
  obtain ⟨act, h', e, _, _, _, her, f', hf, hr, hn, ok', reg', rego, regb⟩ :=
    rebaseOn_sound E A hcf pf hpf c.depth f h c.tree base.tree xs ys _ hok hc.reg hbs.reg
      hc.shape (hdepth ▸ hbs.shape) hc.fits (hdepth ▸ hbs.fits) hlen
  have hrun : c.rebaseOnColl pf A.zero base h = .ok ({ c with tree := act.result c.tree }, h') := by
    rw [rebaseOnColl_eq, e]
  obtain ⟨o1, o2, o3, o4, o5⟩ :=
    Coll.obs_congr pf E A c { c with tree := act.result c.tree } her rfl rfl rfl
  exact ⟨_, h', f', hrun, her, rfl, rfl, rfl, rfl, o1, o2, o3, o4, o5, ok',
    ⟨her ▸ hc.shape, hc.len, hc.fits, reg'⟩, ⟨hc.shape, hc.len, hc.fits, rego⟩,
    ⟨hbs.shape, hbs.len, hbs.fits, regb⟩, hf, hr, hn⟩

/-- **Rebase clause of C03**, spelled out: after `rebase_on`, every node of the resulting
collection — in particular every rebuilt node, which carries a memo copied from the node it
replaces — has a memo that is absent or equal to its true Merkle hash; so have the nodes of the
original and of the base. -/
theorem C03_rebase_memos_valid (E : Elem T H) (A : HashAlg H) (hcf : CollisionFree E A)
    (pf : Option Nat) (hpf : PfOK pf) (f : Registry T) (h : Heap H) (c base : Coll T)
    (xs ys : List T) (hok : HeapOK E A f h)
    (hc : CollOK pf f c xs) (hbs : CollOK pf f base ys)
    (hdepth : c.depth = base.depth) (hvec : c.kind = .vector → c.length = base.length) :
    ∃ c' h', c.rebaseOnColl pf A.zero base h = .ok (c', h') ∧
      ∀ t, t = c'.tree ∨ t = c.tree ∨ t = base.tree → ∀ s ∈ t.subtrees,
        h'.read A.zero s.id = A.zero ∨ h'.read A.zero s.id = trueHash E A s := by
  obtain ⟨c', h', f', e, _, _, _, _, _, _, _, _, _, _, ok', r1, r2, r3, _⟩ :=
    C07_rebase_preserves_meaning E A hcf pf hpf f h c base xs ys hok hc hbs hdepth hvec
  refine ⟨c', h', e, ?_⟩
  intro t ht s hs
  rcases ht with rfl | rfl | rfl
  · exact ok'.memo _ _ (r1.reg s hs)
  · exact ok'.memo _ _ (r2.reg s hs)
  · exact ok'.memo _ _ (r3.reg s hs)

/-- **C08 (a).** Equal collections that share no memory end up sharing their entire tree: the
rebased collection's root *is* the base's root node (and nothing is allocated). -/
theorem C08_equal_collections_share_tree (pf : Option Nat) (z : H) (c base : Coll T) (h : Heap H)
    (xs : List T) (hc : c.tree.erase = canon pf c.depth xs)
    (heq : c.tree.erase = base.tree.erase) (hdis : c.tree.Disjoint base.tree) :
    c.rebaseOnColl pf z base h = .ok ({ c with tree := base.tree }, h) := by
  have hh : c.tree.erase.height ≤ c.depth + pdOf pf := by
    rw [hc]; have := height_canon_le pf c.depth xs; omega
  rw [rebaseOnColl_eq, rebaseOn_equal_disjoint z c.tree base.tree h _ _ heq hdis hh]
  rfl

/-- **C08 (b).** After rebasing a collection on a base it shares no memory with, every subtree
position at which both trees have the same shape (i.e. hold the same elements over the same index
range, see `C08_same_elements_same_node`) is physically the base's node in the result. -/
theorem C08_shared_positions (pf : Option Nat) (z : H) (c base c' : Coll T) (h h' : Heap H)
    (xs : List T) (hc : c.tree.erase = canon pf c.depth xs)
    (hdis : c.tree.Disjoint base.tree)
    (hrun : c.rebaseOnColl pf z base h = .ok (c', h'))
    (p : List Bool) (a b : Tree T) (ha : subAt c.tree p = some a) (hb : subAt base.tree p = some b)
    (he : a.erase = b.erase) : subAt c'.tree p = some b := by
  have hh : c.tree.erase.height ≤ c.depth + pdOf pf := by
    rw [hc]; have := height_canon_le pf c.depth xs; omega
  rw [rebaseOnColl_eq] at hrun
  cases e : rebaseOn z h c.tree base.tree (collLengths c base) (c.depth + pdOf pf) with
  | error err => rw [e] at hrun; cases hrun
  | ok r =>
    obtain ⟨act, h1⟩ := r
    rw [e] at hrun
    cases hrun
    exact rebaseOn_shares_positions z p _ _ _ _ _ _ _ e hdis hh a b ha hb he

end coll

/-! ### Positions of canonical trees are index ranges -/

/-- the elements below position `p` of the canonical depth-`d` tree of `xs`. -/
def sliceAt (pf : Option Nat) : Nat → List Bool → List T → List T
  | d+1, b :: p, xs =>
    if b then sliceAt pf d p (xs.drop (cap pf d)) else sliceAt pf d p (xs.take (cap pf d))
  | _, _, xs => xs

/-- index of the first element below position `p` in a depth-`d` tree. -/
def offsetAt (pf : Option Nat) : Nat → List Bool → Nat
  | d+1, b :: p => (if b then cap pf d else 0) + offsetAt pf d p
  | _, _ => 0

theorem sliceAt_nil (pf : Option Nat) (d : Nat) (xs : List T) : sliceAt pf d [] xs = xs := by
  cases d <;> simp [sliceAt]

/-- The subtree at position `p` of a canonical tree is the canonical tree of a slice. -/
theorem subAt_canon (pf : Option Nat) :
    ∀ (p : List Bool) (d : Nat) (t : Tree T) (xs : List T) (a : Tree T),
      t.erase = canon pf d xs → subAt t p = some a →
      p.length ≤ d ∧ a.erase = canon pf (d - p.length) (sliceAt pf d p xs) := by
  intro p
  induction p with
  | nil =>
    intro d t xs a ht ha
    simp only [subAt, Option.some.injEq] at ha
    subst ha
    simpa [sliceAt_nil] using ht
  | cons b p ih =>
    intro d t xs a ht ha
    cases t with
    | node i l r =>
      cases d with
      | zero =>
        cases xs with
        | nil => simp [canon, Tree.erase] at ht
        | cons x xr => cases pf <;> simp [canon, Tree.erase] at ht
      | succ d =>
        cases xs with
        | nil => simp [canon, Tree.erase] at ht
        | cons x xr =>
          rw [canon_succ_cons] at ht
          simp only [Tree.erase, Shape.node.injEq] at ht
          simp only [subAt] at ha
          simp only [sliceAt, List.length_cons, Nat.add_sub_add_right]
          cases b with
          | false =>
            simp only [Bool.false_eq_true, if_false] at ha ⊢
            have := ih d l _ a ht.1 ha
            exact ⟨by omega, this.2⟩
          | true =>
            simp only [if_true] at ha ⊢
            have := ih d r _ a ht.2 ha
            exact ⟨by omega, this.2⟩
    | _ => simp [subAt] at ha

/-- `sliceAt` is the index range `[offsetAt, offsetAt + cap pf (d - |p|))` of the sequence. -/
theorem sliceAt_eq_range (pf : Option Nat) :
    ∀ (p : List Bool) (d : Nat) (xs : List T), p.length ≤ d → xs.length ≤ cap pf d →
      sliceAt pf d p xs = (xs.drop (offsetAt pf d p)).take (cap pf (d - p.length)) := by
  intro p
  induction p with
  | nil =>
    intro d xs _ hx
    cases d <;> simp [sliceAt, offsetAt, List.take_of_length_le hx]
  | cons b p ih =>
    intro d xs hp hx
    cases d with
    | zero => simp at hp
    | succ d =>
      simp only [List.length_cons, Nat.add_le_add_iff_right] at hp
      simp only [sliceAt, offsetAt, List.length_cons, Nat.add_sub_add_right]
      rw [cap_succ] at hx
      have hmono : offsetAt pf d p + cap pf (d - p.length) ≤ cap pf d := by
        clear ih hx
        induction p generalizing d with
        | nil => cases d <;> simp [offsetAt]
        | cons b p ihp =>
          cases d with
          | zero => simp at hp
          | succ d =>
            simp only [List.length_cons, Nat.add_le_add_iff_right] at hp
            have := ihp d hp
            simp only [offsetAt, List.length_cons, Nat.add_sub_add_right, cap_succ]
            cases b <;> simp <;> omega
      cases b with
      | false =>
        simp only [Bool.false_eq_true, if_false, Nat.zero_add]
        rw [ih d _ hp (length_take_le_cap _ _)]
        rw [List.drop_take, List.take_take]
        congr 1
        omega
      | true =>
        simp only [if_true]
        rw [ih d _ hp (by simp only [List.length_drop]; omega)]
        rw [List.drop_drop]

section sharing_elems
variable [DecidableEq T] [DecidableEq H]

/-- **C08 (b), in terms of elements.** If `orig` holds `xs` and `base` holds `ys` (canonical trees
of depth `d`, no node in common), then after `rebase_on` every position `p` present in both trees
below which both hold the same elements — `sliceAt pf d p`, i.e. the index range starting at
`offsetAt pf d p` of length `cap pf (d - |p|)`, see `sliceAt_eq_range` — holds the *base's* node
in the resulting tree. -/
theorem C08_same_elements_same_node (pf : Option Nat) (z : H) (d : Nat) (orig base : Tree T)
    (xs ys : List T) (h h' : Heap H) (lengths : Option (Nat × Nat)) (act : RebaseAction T)
    (ho : orig.erase = canon pf d xs) (hb : base.erase = canon pf d ys)
    (hdis : orig.Disjoint base)
    (hrun : rebaseOn z h orig base lengths (d + pdOf pf) = .ok (act, h'))
    (p : List Bool) (a b : Tree T) (ha : subAt orig p = some a) (hbp : subAt base p = some b)
    (hsame : sliceAt pf d p xs = sliceAt pf d p ys) :
    subAt (act.result orig) p = some b := by
  have hh : orig.erase.height ≤ d + pdOf pf := by
    rw [ho]; have := height_canon_le pf d xs; omega
  have e1 := (subAt_canon pf p d orig xs a ho ha).2
  have e2 := (subAt_canon pf p d base ys b hb hbp).2
  exact rebaseOn_shares_positions z p orig base h lengths _ act h' hrun hdis hh a b ha hbp
    (by rw [e1, e2, hsame])

end sharing_elems

/-! ## Non-vacuity: concrete instances of every hypothesis, and evaluated runs -/

namespace RebaseExample

theorem pfOK_none : PfOK none := by intro p h; cases h
theorem pfOK_two : PfOK (some 2) := by
  intro p h; cases h; exact ⟨1, by omega, rfl⟩

/-! ### An unpacked list: `[5, 6]` rebased on `[5, 7]`, depth 1 -/

def orig : Tree Nat := .node 2 (.leaf 0 5) (.leaf 1 6)
def base : Tree Nat := .node 5 (.leaf 3 5) (.leaf 4 7)

/-- some memos present (true hashes), some absent. -/
def heap : Heap HT :=
  ⟨#[.leafv 5, .z, .nd (.leafv 5) (.leafv 6), .z, .leafv 7, .nd (.leafv 5) (.leafv 7)]⟩

def reg : Registry Nat := fun i =>
  match i with
  | 0 => some (.leaf 0 5)
  | 1 => some (.leaf 1 6)
  | 2 => some orig
  | 3 => some (.leaf 3 5)
  | 4 => some (.leaf 4 7)
  | 5 => some base
  | _ => none

theorem heapOK : HeapOK (HT.elem none) HT.alg reg heap where
  bound := by
    intro id s hs
    unfold reg at hs
    split at hs <;> first | (cases hs; decide) | cases hs
  memo := by
    intro id s hs
    unfold reg at hs
    split at hs <;> first | (cases hs; decide) | cases hs

theorem reg_orig : Registered reg orig := by
  intro s hs
  simp only [orig, Tree.subtrees, List.mem_cons, List.mem_append, List.not_mem_nil, or_false]
    at hs
  rcases hs with rfl | rfl | rfl <;> rfl

theorem reg_base : Registered reg base := by
  intro s hs
  simp only [base, Tree.subtrees, List.mem_cons, List.mem_append, List.not_mem_nil, or_false]
    at hs
  rcases hs with rfl | rfl | rfl <;> rfl

/-- all hypotheses of `rebaseOn_sound` (list case) hold on a concrete non-trivial input. -/
example : ∃ act h', rebaseOn HT.z heap orig base (some (2, 2)) (1 + pdOf none) = .ok (act, h') ∧
    (act.result orig).erase = orig.erase := by
  obtain ⟨act, h', e, _, _, _, her, _⟩ :=
    rebaseOn_sound_list (HT.elem none) HT.alg (HT.collisionFree none) none pfOK_none 1 reg heap
      orig base [5, 6] [5, 7] heapOK reg_orig reg_base rfl rfl (by decide) (by decide)
  exact ⟨act, h', e, her⟩

/-- …and of the vector case. -/
example : ∃ act h', rebaseOn HT.z heap orig base none (1 + pdOf none) = .ok (act, h') ∧
    (act.result orig).erase = orig.erase := by
  obtain ⟨act, h', e, _, _, _, her, _⟩ :=
    rebaseOn_sound_vector (HT.elem none) HT.alg (HT.collisionFree none) none pfOK_none 1 2 reg
      heap orig base [5, 6] [5, 7] heapOK reg_orig reg_base rfl rfl rfl rfl (by decide)
  exact ⟨act, h', e, her⟩

/-- the hypotheses of the semantic lemma `trueHash_canon_inj` are satisfiable (two physically
different trees with the same hash and the same number of elements). -/
example : ([5, 6] : List Nat) = [5, 6] :=
  trueHash_canon_inj (HT.elem none) HT.alg (HT.collisionFree none) none 1 orig
    (.node 12 (.leaf 10 5) (.leaf 11 6)) [5, 6] [5, 6] (by decide) rfl rfl rfl (by decide)

/-- the run itself: the equal left leaf is taken from the base, the root is rebuilt (fresh id 6)
and carries the original root's memo. -/
example : rebaseOn HT.z heap orig base (some (2, 2)) 1 =
    .ok (.notEqualReplace (.node 6 (.leaf 3 5) (.leaf 1 6)),
      ⟨heap.memo.push (.nd (.leafv 5) (.leafv 6))⟩) := by
  rfl

/-! ### Trailing zero values: packed `[1, 2, 3]` rebased on `[1, 2, 3, 0]` (`pf = 2`, depth 1)

Both roots have the *same* Merkle hash (the partial chunk `[3]` is zero padded), and both memos are
present. Only the length comparison keeps `rebase_on` from replacing the list by the base. -/

def origP : Tree Nat := .node 2 (.packed 0 [1, 2]) (.packed 1 [3])
def baseP : Tree Nat := .node 5 (.packed 3 [1, 2]) (.packed 4 [3, 0])

def heapP : Heap HT :=
  ⟨#[.pk [1, 2], .pk [3, 0], .nd (.pk [1, 2]) (.pk [3, 0]),
     .z, .pk [3, 0], .nd (.pk [1, 2]) (.pk [3, 0])]⟩

def regP : Registry Nat := fun i =>
  match i with
  | 0 => some (.packed 0 [1, 2])
  | 1 => some (.packed 1 [3])
  | 2 => some origP
  | 3 => some (.packed 3 [1, 2])
  | 4 => some (.packed 4 [3, 0])
  | 5 => some baseP
  | _ => none

theorem heapOKP : HeapOK (HT.elem (some 2)) HT.alg regP heapP where
  bound := by
    intro id s hs
    unfold regP at hs
    split at hs <;> first | (cases hs; decide) | cases hs
  memo := by
    intro id s hs
    unfold regP at hs
    split at hs <;> first | (cases hs; decide) | cases hs

theorem reg_origP : Registered regP origP := by
  intro s hs
  simp only [origP, Tree.subtrees, List.mem_cons, List.mem_append, List.not_mem_nil, or_false]
    at hs
  rcases hs with rfl | rfl | rfl <;> rfl

theorem reg_baseP : Registered regP baseP := by
  intro s hs
  simp only [baseP, Tree.subtrees, List.mem_cons, List.mem_append, List.not_mem_nil, or_false]
    at hs
  rcases hs with rfl | rfl | rfl <;> rfl

/-- the two roots really collide, and both memos are present and equal. -/
example : trueHash (HT.elem (some 2)) HT.alg origP = trueHash (HT.elem (some 2)) HT.alg baseP ∧
    heapP.read HT.z 2 = heapP.read HT.z 5 ∧ heapP.read HT.z 2 ≠ HT.z := by decide

/-- the hypotheses of `rebaseOn_sound` hold for this pair (different lengths 3 and 4). -/
example : ∃ act h', rebaseOn HT.z heapP origP baseP (some (3, 4)) (1 + pdOf (some 2))
      = .ok (act, h') ∧ (act.result origP).erase = origP.erase := by
  obtain ⟨act, h', e, _, _, _, her, _⟩ :=
    rebaseOn_sound_list (HT.elem (some 2)) HT.alg (HT.collisionFree _) (some 2) pfOK_two 1 regP
      heapP origP baseP [1, 2, 3] [1, 2, 3, 0] heapOKP reg_origP reg_baseP rfl rfl
      (by decide) (by decide)
  exact ⟨act, h', e, her⟩

/-- the run: the contents are kept (`[3]` stays), the equal left chunk is shared with the base. -/
example : rebaseOn HT.z heapP origP baseP (some (3, 4)) (1 + pdOf (some 2)) =
    .ok (.notEqualReplace (.node 6 (.packed 3 [1, 2]) (.packed 1 [3])),
      ⟨heapP.memo.push (.nd (.pk [1, 2]) (.pk [3, 0]))⟩) := by
  rfl

/-- with a wrong `lengths` argument (violating `LenOK`) the short-cut would fire and change the
contents: the premise `LenOK` of `rebaseOn_sound` cannot be dropped. -/
example : rebaseOn HT.z heapP origP baseP (some (3, 3)) (1 + pdOf (some 2)) =
    .ok (.equalReplace baseP, heapP) := by
  rfl

/-! ### Collections -/

def cfgU : UMap Nat := UMap.btree [(7, 9)]

/-- a list `[5, 6]` with a pending write, and a list `[5, 7]`. -/
def collA : Coll Nat := ⟨.list, orig, 2, 1, cfgU⟩
def collB : Coll Nat := ⟨.list, base, 2, 1, .btree []⟩

theorem collA_ok : CollOK none reg collA [5, 6] := ⟨rfl, rfl, by decide, reg_orig⟩
theorem collB_ok : CollOK none reg collB [5, 7] := ⟨rfl, rfl, by decide, reg_base⟩

/-- the hypotheses of `C07_rebase_preserves_meaning` / `C03_rebase_memos_valid` are satisfiable. -/
example : ∃ c' h', collA.rebaseOnColl none HT.z collB heap = .ok (c', h') ∧
    c'.tree.erase = collA.tree.erase ∧ c'.len = collA.len := by
  obtain ⟨c', h', f', e, he, _, _, _, _, _, hl, _⟩ :=
    C07_rebase_preserves_meaning (HT.elem none) HT.alg (HT.collisionFree none) none pfOK_none reg
      heap collA collB [5, 6] [5, 7] heapOK collA_ok collB_ok rfl (by intro h; cases h)
  exact ⟨c', h', e, he, hl⟩

example : ∃ c' h', collA.rebaseOnColl none HT.z collB heap = .ok (c', h') ∧
    ∀ s ∈ c'.tree.subtrees, h'.read HT.z s.id = HT.z ∨
      h'.read HT.z s.id = trueHash (HT.elem none) HT.alg s := by
  obtain ⟨c', h', e, hv⟩ :=
    C03_rebase_memos_valid (HT.elem none) HT.alg (HT.collisionFree none) none pfOK_none reg
      heap collA collB [5, 6] [5, 7] heapOK collA_ok collB_ok rfl (by intro h; cases h)
  exact ⟨c', h', e, hv c'.tree (Or.inl rfl)⟩

/-- packed vectors of `N = 4` elements (`[1,2,3,0]` on `[1,2,3,0]`-like base): the vector case. -/
def vecA : Coll Nat := ⟨.vector, .node 2 (.packed 0 [1, 2]) (.packed 1 [3, 4]), 4, 1, .btree []⟩
def vecB : Coll Nat := ⟨.vector, .node 5 (.packed 3 [1, 2]) (.packed 4 [3, 0]), 4, 1, .btree []⟩

example : vecA.rebaseOnColl (some 2) HT.z vecB ⟨#[.z, .z, .z, .z, .z, .z]⟩ =
    .ok ({ vecA with tree := .node 6 (.packed 3 [1, 2]) (.packed 1 [3, 4]) },
      ⟨#[.z, .z, .z, .z, .z, .z, .z]⟩) := by
  rfl

/-! ### C08 -/

/-- a second copy of `[5, 6]`, sharing no node with `orig`. -/
def copy : Tree Nat := .node 12 (.leaf 10 5) (.leaf 11 6)
def collC : Coll Nat := ⟨.list, copy, 2, 1, .btree []⟩

theorem disj_orig_copy : orig.Disjoint copy := by
  intro i hi hi'
  simp only [orig, copy, Tree.ids, List.mem_cons, List.not_mem_nil, or_false,
    List.cons_append, List.nil_append] at hi hi'
  omega

theorem disj_orig_base : orig.Disjoint base := by
  intro i hi hi'
  simp only [orig, base, Tree.ids, List.mem_cons, List.not_mem_nil, or_false,
    List.cons_append, List.nil_append] at hi hi'
  omega

/-- hypotheses of `C08_equal_collections_share_tree` hold; the result is the base's root. -/
example : collA.rebaseOnColl none HT.z collC heap = .ok ({ collA with tree := copy }, heap) :=
  C08_equal_collections_share_tree none HT.z collA collC heap [5, 6] rfl rfl disj_orig_copy

/-- hypotheses of `C08_shared_positions` / `C08_same_elements_same_node` hold: `[5, 6]` on
`[5, 7]` agree on the index range `[0, 1)` = position `[false]`; afterwards that position holds
the base's leaf (id 3). -/
example : ∀ c' h', collA.rebaseOnColl none HT.z collB heap = .ok (c', h') →
    subAt c'.tree [false] = some (.leaf 3 5) := by
  intro c' h' hrun
  exact C08_shared_positions none HT.z collA collB c' heap h' [5, 6] rfl disj_orig_base hrun
    [false] (.leaf 0 5) (.leaf 3 5) rfl rfl rfl

example : ∀ act h', rebaseOn HT.z heap orig base (some (2, 2)) (1 + pdOf none) = .ok (act, h') →
    subAt (act.result orig) [false] = some (.leaf 3 5) := by
  intro act h' hrun
  exact C08_same_elements_same_node none HT.z 1 orig base [5, 6] [5, 7] heap h' _ act rfl rfl
    disj_orig_base hrun [false] (.leaf 0 5) (.leaf 3 5) rfl rfl (by decide)

/-- without the "no shared memory" premise C08 fails — the arm `(equalNoop, equalReplace)`: the
left children are already the same node, the right ones are equal but distinct; the result is a
*fresh* root, not the base's root, although the collections are equal. -/
example : rebaseOn HT.z ⟨#[.z, .z, .z, .z, .z]⟩
      (.node 2 (.leaf 0 5) (.leaf 1 6)) (.node 4 (.leaf 0 5) (.leaf 3 6)) (some (2, 2)) 1 =
    .ok (.notEqualReplace (.node 5 (.leaf 0 5) (.leaf 3 6)), ⟨#[.z, .z, .z, .z, .z, .z]⟩) := by
  rfl

end RebaseExample

end Milhouse
