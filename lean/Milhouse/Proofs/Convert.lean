import Milhouse.Proofs.CollInv
import Milhouse.Proofs.CollOps
import Milhouse.Proofs.Repeat
import Milhouse.Proofs.Ssz
/-!
# Conversions, slow constructors, serde and SSZ at the collection level (C05, C06, C12, C13, C17)

* C17: `updLeaf_canon` (`Tree::with_updated_leaf` on a canonical tree), `C17_one_at_a_time`,
  `C17_builder_eq_one_at_a_time`.
* C05: `C05_tryFromIterSlow`, `C05_toVector` / `_rejects` / `_ok_iff`, `C05_toList`,
  `C05_vectorNew`, `C05_vectorFromIter`, `C05_vector_ok_iff`.
* C12: `C12_list_roundtrip`, `C12_list_strict`, `C12_vector_roundtrip`, `C12_vector_strict`.
* C13: `C13_roundtrip`, `C13_rejects`, `C13_ok_iff`.
-/
namespace Milhouse
variable {T H : Type}

/-! ## Target 1: `Tree::with_updated_leaf` on canonical trees (C17) -/

/-- overwrite at `j` if `j` is inside, append otherwise (only used with `j ≤ xs.length`). -/
def cvInsAt (xs : List T) (j : Nat) (x : T) : List T :=
  if j < xs.length then xs.set j x else xs ++ [x]

theorem cvInsAt_ne_nil (xs : List T) (j : Nat) (x : T) : cvInsAt xs j x ≠ [] := by
  unfold cvInsAt
  split
  · rename_i h
    intro he
    have := congrArg List.length he
    rw [List.length_set, List.length_nil] at this; omega
  · simp

theorem length_cvInsAt (xs : List T) (j : Nat) (x : T) :
    (cvInsAt xs j x).length = if j < xs.length then xs.length else xs.length + 1 := by
  unfold cvInsAt
  split <;> simp

/-- updating in the left half. -/
theorem cvInsAt_left (xs : List T) (c j : Nat) (x : T) (hj : j < c) (hjl : j ≤ xs.length) :
    cvInsAt (xs.take c) j x ++ xs.drop c = cvInsAt xs j x := by
  unfold cvInsAt
  by_cases h : j < xs.length
  · have h1 : j < (xs.take c).length := by simp only [List.length_take]; omega
    rw [if_pos h1, if_pos h]
    conv => rhs; rw [← List.take_append_drop c xs]
    rw [List.set_append_left _ _ h1]
  · have hl : xs.length = j := by omega
    have h1 : ¬ j < (xs.take c).length := by simp only [List.length_take]; omega
    rw [if_neg h1, if_neg h, List.take_of_length_le (by omega), List.drop_of_length_le (by omega)]
    simp

/-- updating in the right half. -/
theorem cvInsAt_right (xs : List T) (c k : Nat) (x : T) (hc : c ≤ xs.length) :
    xs.take c ++ cvInsAt (xs.drop c) k x = cvInsAt xs (c + k) x := by
  unfold cvInsAt
  have hlt : (xs.take c).length = c := by simp only [List.length_take]; omega
  by_cases h : k < (xs.drop c).length
  · have h' : c + k < xs.length := by simp only [List.length_drop] at h; omega
    rw [if_pos h, if_pos h']
    conv => rhs; rw [← List.take_append_drop c xs]
    rw [List.set_append_right _ _ (by omega), hlt, Nat.add_sub_cancel_left]
  · have h' : ¬ c + k < xs.length := by simp only [List.length_drop] at h; omega
    rw [if_neg h, if_neg h', ← List.append_assoc, List.take_append_drop]

theorem cvPackedInsert_eq (vs : List T) (j : Nat) (x : T) (hj : j ≤ vs.length) :
    packedInsert vs j x = .ok (cvInsAt vs j x) := by
  unfold packedInsert cvInsAt
  by_cases h : j = vs.length
  · subst h; simp
  · have h' : j < vs.length := by omega
    simp [h, h']

theorem cvCanon_zero_some (p : Nat) (ys : List T) (h : ys ≠ []) :
    canon (some p) 0 ys = .packed ys := by
  cases ys with
  | nil => exact absurd rfl h
  | cons y ys => simp [canon]

theorem cvMod_cap_succ (pf : Option Nat) (d i : Nat) :
    i % cap pf (d+1) = (i / cap pf d % 2) * cap pf d + i % cap pf d := by
  rw [cap_succ, Nat.mul_comm 2, Nat.mod_mul]; ac_rfl

/-- **C17 / `with_updated_leaf`, general form** (the index is passed down unchanged; a subtree of
depth `d` only looks at `i % cap pf d`). On a canonical tree of `xs`, writing at a position
`j = i % cap pf d ≤ xs.length` succeeds and gives the canonical tree of `xs` with position `j`
overwritten (`j < xs.length`) resp. `x` appended (`j = xs.length`), using between 1 and `3*d+3`
allocations. -/
theorem updLeaf_canon_gen (pf : Option Nat) (hpf : PfOK pf) (z : H) (x : T) (i : Nat) :
    ∀ (d : Nat) (t : Tree T) (xs : List T) (h : Heap H),
      t.erase = canon pf d xs → xs.length ≤ cap pf d → i % cap pf d ≤ xs.length →
      ∃ t' h', updLeaf pf z i x h t d = .ok (t', h') ∧
        t'.erase = canon pf d (cvInsAt xs (i % cap pf d) x) ∧
        h.next < h'.next ∧ h'.next ≤ h.next + (3 * d + 3) := by
  intro d
  induction d with
  | zero =>
    intro t xs h ht hlen hj
    cases xs with
    | nil =>
      rw [canon_nil] at ht
      obtain ⟨id, rfl⟩ := erase_eq_zero ht
      have hj0 : i % cap pf 0 = 0 := by simpa using hj
      rw [hj0]
      cases pf with
      | none =>
        refine ⟨.leaf h.next x, (h.alloc z).2, by simp [updLeaf, Heap.alloc, Heap.next], ?_, ?_, ?_⟩
        · simp [cvInsAt, canon, Tree.erase]
        · rw [Heap.next_alloc]; omega
        · rw [Heap.next_alloc]; omega
      | some p =>
        refine ⟨.packed h.next [x], (h.alloc z).2, by simp [updLeaf, Heap.alloc, Heap.next], ?_, ?_, ?_⟩
        · simp [cvInsAt, canon, Tree.erase]
        · rw [Heap.next_alloc]; omega
        · rw [Heap.next_alloc]; omega
    | cons a rest =>
      cases pf with
      | none =>
        have hr : rest = [] := by
          simp [cap, lcap] at hlen; exact hlen
        subst hr
        have ht' : t.erase = .leaf a := by rw [ht]; simp [canon]
        obtain ⟨id, rfl⟩ := erase_eq_leaf ht'
        refine ⟨.leaf h.next x, (h.alloc z).2, by simp [updLeaf, Heap.alloc, Heap.next], ?_, ?_, ?_⟩
        · simp [cvInsAt, cap, lcap, Nat.mod_one, canon, Tree.erase]
        · rw [Heap.next_alloc]; omega
        · rw [Heap.next_alloc]; omega
      | some p =>
        have ht' : t.erase = .packed (a :: rest) := by rw [ht]; simp [canon]
        obtain ⟨id, rfl⟩ := erase_eq_packed ht'
        have hcap : cap (some p) 0 = p := by simp [cap, lcap]
        rw [hcap] at hj ⊢
        have hpi := cvPackedInsert_eq (a :: rest) (i % p) x hj
        refine ⟨.packed h.next (cvInsAt (a :: rest) (i % p) x), (h.alloc z).2, ?_, ?_, ?_, ?_⟩
        · simp [updLeaf, hpi, Heap.alloc, Heap.next]
        · rw [cvCanon_zero_some _ _ (cvInsAt_ne_nil _ _ _)]; rfl
        · rw [Heap.next_alloc]; omega
        · rw [Heap.next_alloc]; omega
  | succ d ih =>
    intro t xs h ht hlen hj
    have hc := cap_pos pf hpf d
    have hce := cap_eq_pow pf hpf d
    have hmod := cvMod_cap_succ pf d i
    have hlt := Nat.mod_lt i hc
    rw [cap_succ] at hlen
    cases xs with
    | nil =>
      rw [canon_nil] at ht
      obtain ⟨id, rfl⟩ := erase_eq_zero ht
      have hj0 : i % cap pf (d+1) = 0 := by simpa using hj
      have hb : i / cap pf d % 2 = 0 := by
        rcases Nat.mod_two_eq_zero_or_one (i / cap pf d) with h0 | h1
        · exact h0
        · rw [hmod, h1] at hj0; omega
      have hic : i % cap pf d = 0 := by rw [hmod, hb] at hj0; omega
      rw [hj0]
      obtain ⟨l', h', hl, hle, hn1, hn2⟩ :=
        ih (.zero h.next d) [] ((h.alloc z).2.alloc z).2 (by simp [Tree.erase, canon_nil])
          (by simp) (by rw [hic]; simp)
      rw [hic] at hle
      refine ⟨.node h'.next l' (.zero h.next d), (h'.alloc z).2, ?_, ?_, ?_, ?_⟩
      · have hb' : i / 2 ^ (d + pdOf pf) % 2 = 0 := by rw [← hce]; exact hb
        simp only [Heap.alloc, Heap.next] at hl
        simp only [updLeaf, if_true, hb', Heap.alloc, Heap.next, hl]
      · have := canon_node pf d (cvInsAt [] 0 x) ([] : List T) (cvInsAt_ne_nil _ _ _)
          (Or.inr rfl) (by simp [cvInsAt]; omega)
        rw [List.append_nil, canon_nil] at this
        simp only [Tree.erase, hle]
        exact this
      · simp only [Heap.next_alloc] at hn1 hn2 ⊢; omega
      · simp only [Heap.next_alloc] at hn1 hn2 ⊢; omega
    | cons a rest =>
      rw [canon_succ_cons] at ht
      obtain ⟨id, l, r, rfl, hl, hr⟩ := erase_eq_node ht
      generalize hys : a :: rest = ys at *
      have hne : ys ≠ [] := by rw [← hys]; simp
      rcases Nat.mod_two_eq_zero_or_one (i / cap pf d) with hb | hb
      · -- left half
        have hjc : i % cap pf (d+1) = i % cap pf d := by rw [hmod, hb]; omega
        rw [hjc] at hj ⊢
        obtain ⟨l', h', hu, hle, hn1, hn2⟩ :=
          ih l (ys.take (cap pf d)) h hl (by simp only [List.length_take]; omega)
            (by simp only [List.length_take]; omega)
        refine ⟨.node h'.next l' r, (h'.alloc z).2, ?_, ?_, ?_, ?_⟩
        · have hb' : i / 2 ^ (d + pdOf pf) % 2 = 0 := by rw [← hce]; exact hb
          simp only [updLeaf, hb', if_true, hu, Heap.alloc, Heap.next]
        · simp only [Tree.erase, hle, hr]
          rw [canon_node pf d _ _ (cvInsAt_ne_nil _ _ _), cvInsAt_left ys _ _ x hlt hj]
          · rw [length_cvInsAt]
            simp only [List.length_take, List.drop_eq_nil_iff]
            split <;> omega
          · rw [length_cvInsAt]
            simp only [List.length_take]
            split <;> omega
        · simp only [Heap.next_alloc]; omega
        · simp only [Heap.next_alloc]; omega
      · -- right half
        have hjc : i % cap pf (d+1) = cap pf d + i % cap pf d := by rw [hmod, hb]; omega
        rw [hjc] at hj ⊢
        obtain ⟨r', h', hu, hle, hn1, hn2⟩ :=
          ih r (ys.drop (cap pf d)) h hr (by simp only [List.length_drop]; omega)
            (by simp only [List.length_drop]; omega)
        refine ⟨.node h'.next l r', (h'.alloc z).2, ?_, ?_, ?_, ?_⟩
        · have hb' : i / 2 ^ (d + pdOf pf) % 2 = 1 := by rw [← hce]; exact hb
          simp only [updLeaf, hb', show (1 = 0) = False by decide, if_false, hu, Heap.alloc,
            Heap.next]
        · simp only [Tree.erase, hle, hl]
          have hcl : cap pf d ≤ ys.length := by omega
          rw [canon_node pf d _ _ _ _ _, cvInsAt_right ys _ _ x hcl]
          · intro he
            have := congrArg List.length he
            simp only [List.length_take, List.length_nil] at this; omega
          · left; simp only [List.length_take]; omega
          · simp only [List.length_take]; omega
        · simp only [Heap.next_alloc]; omega
        · simp only [Heap.next_alloc]; omega

/-- **C17 / `with_updated_leaf`** at the root of a canonical tree: for an index `i ≤ xs.length`
inside the capacity the update succeeds and returns the canonical tree of `xs` with `i` overwritten
resp. `x` appended; it allocates at least one and at most `3*d+3` nodes. (The bound
`d + pdOf pf ≤ 63` of the Rust is not needed by the model, which computes in `Nat`.) -/
theorem updLeaf_canon (pf : Option Nat) (hpf : PfOK pf) (z : H) (i : Nat) (x : T) (h : Heap H)
    (t : Tree T) (d : Nat) (xs : List T) (ht : t.erase = canon pf d xs)
    (hlen : xs.length ≤ cap pf d) (hi : i ≤ xs.length) (hic : i < cap pf d) :
    ∃ t' h', updLeaf pf z i x h t d = .ok (t', h') ∧
      t'.erase = canon pf d (if i < xs.length then xs.set i x else xs ++ [x]) ∧
      h.next ≤ h'.next ∧ h'.next ≤ h.next + (3 * d + 3) := by
  obtain ⟨t', h', h1, h2, h3, h4⟩ := updLeaf_canon_gen pf hpf z x i d t xs h ht hlen
    (by rw [Nat.mod_eq_of_lt hic]; exact hi)
  rw [Nat.mod_eq_of_lt hic] at h2
  exact ⟨t', h', h1, h2, Nat.le_of_lt h3, h4⟩

/-- an index outside the capacity of the tree is *not* rejected by `with_updated_leaf`: only the low
bits are used (this is why the callers check the index first). Stated for completeness. -/
theorem updLeaf_canon_wraps (pf : Option Nat) (hpf : PfOK pf) (z : H) (i : Nat) (x : T) (h : Heap H)
    (t : Tree T) (d : Nat) (xs : List T) (ht : t.erase = canon pf d xs)
    (hlen : xs.length ≤ cap pf d) (hi : i % cap pf d ≤ xs.length) :
    ∃ t' h', updLeaf pf z i x h t d = .ok (t', h') ∧
      t'.erase = canon pf d (cvInsAt xs (i % cap pf d) x) :=
  let ⟨t', h', h1, h2, _, _⟩ := updLeaf_canon_gen pf hpf z x i d t xs h ht hlen hi
  ⟨t', h', h1, h2⟩

/-- inserting the elements of a sequence one at a time with `with_updated_leaf`, at the indices
`i, i+1, …`. -/
def insertSeq (pf : Option Nat) (z : H) (d : Nat) :
    List T → Nat → Tree T → Heap H → Except Err (Tree T × Heap H)
  | [], _, t, h => .ok (t, h)
  | x :: xs, i, t, h =>
    match updLeaf pf z i x h t d with
    | .error e => .error e
    | .ok (t', h') => insertSeq pf z d xs (i+1) t' h'

theorem insertSeq_canon (pf : Option Nat) (hpf : PfOK pf) (z : H) (d : Nat) :
    ∀ (xs pre : List T) (t : Tree T) (h : Heap H), t.erase = canon pf d pre →
      pre.length + xs.length ≤ cap pf d →
      ∃ t' h', insertSeq pf z d xs pre.length t h = .ok (t', h') ∧
        t'.erase = canon pf d (pre ++ xs) ∧ h.next ≤ h'.next ∧
        h'.next ≤ h.next + xs.length * (3 * d + 3) := by
  intro xs
  induction xs with
  | nil =>
    intro pre t h ht _
    exact ⟨t, h, rfl, by simpa using ht, Nat.le_refl _, by simp⟩
  | cons x xs ih =>
    intro pre t h ht hlen
    simp only [List.length_cons] at hlen
    obtain ⟨t1, h1, hu, he, hn1, hn2⟩ := updLeaf_canon pf hpf z pre.length x h t d pre ht
      (by omega) (Nat.le_refl _) (by omega)
    rw [if_neg (Nat.lt_irrefl _)] at he
    obtain ⟨t2, h2, hu2, he2, hn3, hn4⟩ := ih (pre ++ [x]) t1 h1 he (by simp; omega)
    refine ⟨t2, h2, ?_, ?_, by omega, ?_⟩
    · simp only [List.length_append, List.length_cons, List.length_nil] at hu2
      simp only [insertSeq, hu, hu2]
    · rw [he2]; simp
    · simp only [List.length_cons]
      rw [Nat.succ_mul]; omega

/-- **C17 (one at a time)**: inserting `xs` element by element with `with_updated_leaf` at the
indices `0, 1, 2, …` into the empty tree `Zero(d)` yields the canonical tree of `xs`. -/
theorem C17_one_at_a_time (pf : Option Nat) (hpf : PfOK pf) (z : H) (d : Nat) (xs : List T)
    (hlen : xs.length ≤ cap pf d) (id : Nat) (h : Heap H) :
    ∃ t' h', insertSeq pf z d xs 0 (.zero id d) h = .ok (t', h') ∧ t'.erase = canon pf d xs ∧
      h.next ≤ h'.next ∧ h'.next ≤ h.next + xs.length * (3 * d + 3) := by
  have := insertSeq_canon pf hpf z d xs [] (.zero id d) h (by simp [Tree.erase, canon_nil])
    (by simpa using hlen)
  simpa using this

/-- **C17 (builder = one at a time)**: the tree returned by the bottom-up builder for `xs` and the
tree obtained by inserting the same elements one at a time into an empty tree have the same shape
(they are equal under the derived `PartialEq`, which ignores the memoised hashes). -/
theorem C17_builder_eq_one_at_a_time (pf : Option Nat) (hpf : PfOK pf) (z : H) (d : Nat)
    (hd : d + pdOf pf ≤ 63) (xs : List T) (hlen : xs.length ≤ cap pf d) (id : Nat)
    (h1 h2 : Heap H) :
    ∃ b0 b hb tb hb' ti hi, Builder.new pf d 0 = .ok b0 ∧ Coll.pushAll z b0 h1 xs = .ok (b, hb) ∧
      b.finish z hb = .ok ((tb, d, xs.length), hb') ∧
      insertSeq pf z d xs 0 (.zero id d) h2 = .ok (ti, hi) ∧ tb.erase = ti.erase := by
  obtain ⟨b0, b, hb, tb, hb', e1, e2, e3, e4⟩ := C17_builder_canonical pf hpf z d hd xs hlen h1
  obtain ⟨ti, hi, e5, e6, _, _⟩ := C17_one_at_a_time pf hpf z d xs hlen id h2
  exact ⟨b0, b, hb, tb, hb', ti, hi, e1, e2, e3, e5, by rw [e4, e6]⟩

/-! ## Facts proved in `Proofs/CollOps.lean`, as named `Prop`s

This file was developed in parallel with `Proofs/CollOps.lean`. The three facts used below are
stated as `Prop`s in exactly the shape of the theorems there; the `_of` theorems take them as
hypotheses, and the section "with the `CollOps` facts discharged" near the end instantiates them:
* `FlushSpec T pf z cfg` is `fun _ _ h I => C01_applyUpdates K I z h` (with `K : CfgOK pf cfg`);
* `PushSpec T pf cfg`   is `fun _ _ x I hk hr => C01_push_ok I x hk hr`;
* `LenSpec T pf cfg`    is `fun _ _ I => C01_len I`.

Note that the flush does *not* always return the literal `UMap.empty cfg.map`: `CollInv` allows an
empty-but-not-default map (`.vec [none]`, `.maxvec [] 7`), for which `apply_updates` returns the
collection unchanged. Hence the last conjunct of `FlushSpec`, and the normality premise
(`c.updates.isEmpty = true → c.updates = UMap.empty cfg.map`, true of every reachable state) where
the literal default map matters (derived `PartialEq` of `MaxMap` compares `max_key`). -/

/-- `Interface::apply_updates` on a collection satisfying the invariant (`C01_applyUpdates`). -/
def FlushSpec (T : Type) {H : Type} (pf : Option Nat) (z : H) (cfg : Cfg) : Prop :=
  ∀ (c : Coll T) (xs : List T) (h : Heap H), CollInv pf cfg c xs →
    ∃ c' h', c.applyUpdates pf z cfg h = (.ok (), c', h') ∧ CollInv pf cfg c' (Coll.view xs c) ∧
      c'.updates.isEmpty = true ∧ Coll.view (Coll.view xs c) c' = Coll.view xs c ∧
      c'.kind = c.kind ∧ h.next ≤ h'.next ∧
      (c.updates.isEmpty = false → c'.updates = UMap.empty cfg.map)

/-- `push` on a list with room (`C01_push_ok`). -/
def PushSpec (T : Type) (pf : Option Nat) (cfg : Cfg) : Prop :=
  ∀ (c : Coll T) (xs : List T) (x : T), CollInv pf cfg c xs → c.kind = .list →
    (Coll.view xs c).length < cfg.N →
    ∃ c', c.push cfg x = .ok c' ∧ CollInv pf cfg c' xs ∧
      Coll.view xs c' = Coll.view xs c ++ [x] ∧ c'.kind = .list

/-- `Interface::len` is the length of the shown sequence (`C01_len`). -/
def LenSpec (T : Type) (pf : Option Nat) (cfg : Cfg) : Prop :=
  ∀ (c : Coll T) (xs : List T), CollInv pf cfg c xs → c.len = (Coll.view xs c).length

/-! ## helper facts: empty maps, flushed collections -/

theorem cvEntries_empty (k : MapKind) : (UMap.empty k : UMap T).entries = [] := by
  cases k <;> rfl

theorem cvIsEmpty_empty (k : MapKind) : (UMap.empty k : UMap T).isEmpty = true := by
  cases k <;> rfl

theorem cvMaxIndex_empty (k : MapKind) : (UMap.empty k : UMap T).maxIndex = none := by
  cases k <;> rfl

theorem cvRange_empty (k : MapKind) (s e : Nat) : (UMap.empty k : UMap T).range s e = [] := by
  simp [UMap.range, cvEntries_empty]

theorem cvMaxRel_empty (k : MapKind) (n : Nat) : (UMap.empty k : UMap T).MaxRel n := by
  cases k
  · trivial
  · trivial
  · exact ⟨by intro j hj; simp [UMap.get] at hj, Or.inl rfl⟩

theorem cvLen_of_isEmpty (c : Coll T) (h : c.updates.isEmpty = true) : c.len = c.length := by
  have := (UMap.maxIndex_eq_none_iff c.updates).2 h
  simp [Coll.len, this]

theorem cvView_of_isEmpty (xs : List T) (c : Coll T) (h : c.updates.isEmpty = true) :
    Coll.view xs c = xs := by
  have : c.updates.entries = [] := by simpa [UMap.isEmpty] using h
  simp [Coll.view, applyEntries, this]

theorem cvView_of_flushed (xs : List T) (c : Coll T) (k : MapKind) (h : c.updates = UMap.empty k) :
    Coll.view xs c = xs :=
  cvView_of_isEmpty xs c (by rw [h]; exact cvIsEmpty_empty k)

/-- `apply_updates` without pending writes is the identity. -/
theorem cvApplyUpdates_of_isEmpty (pf : Option Nat) (z : H) (cfg : Cfg) (c : Coll T) (h : Heap H)
    (he : c.updates.isEmpty = true) : c.applyUpdates pf z cfg h = (.ok (), c, h) := by
  simp [Coll.applyUpdates, he]

/-- a collection without pending writes (literally the default map) whose backing is canonical
satisfies the invariant. -/
theorem CollInv.cv_of_flushed (pf : Option Nat) (cfg : Cfg) (c : Coll T) (xs : List T)
    (hshape : c.tree.erase = canon pf (listDepth pf cfg.N) xs) (hlen : c.length = xs.length)
    (hdepth : c.depth = listDepth pf cfg.N)
    (hbound : match c.kind with
      | .list => xs.length ≤ cfg.N
      | .vector => xs.length = cfg.N)
    (hu : c.updates = UMap.empty cfg.map) : CollInv pf cfg c xs where
  shape := by rw [hdepth]; exact hshape
  len := hlen
  depth := hdepth
  bound := hbound
  mapKind := by rw [hu]; exact UMap.kind_empty _
  wf := by rw [hu]; exact UMap.WF_empty _
  keys := by intro k v hkv; rw [hu, cvEntries_empty] at hkv; cases hkv
  contiguous := by rw [hu, cvRange_empty]; rfl
  maxRel := by rw [hu]; exact cvMaxRel_empty _ _

/-- `List::empty` satisfies the invariant with no elements. -/
theorem C05_empty_collInv (pf : Option Nat) (z : H) (cfg : Cfg) (h : Heap H) :
    CollInv pf cfg (Coll.empty (T := T) pf z cfg h).1 ([] : List T) ∧
      (Coll.empty (T := T) pf z cfg h).1.kind = .list ∧
      (Coll.empty (T := T) pf z cfg h).1.updates = UMap.empty cfg.map :=
  ⟨CollInv.cv_of_flushed pf cfg _ [] (by simp [Coll.empty, Coll.fromParts, Tree.erase, canon_nil]) rfl rfl
    (by simp [Coll.empty, Coll.fromParts]) rfl, rfl, rfl⟩

/-- **C05** (`List::try_from_iter`) in terms of the invariant. -/
theorem C05_tryFromIter_collInv (pf : Option Nat) (z : H) (cfg : Cfg) (K : CfgOK pf cfg)
    (xs : List T) (hlen : xs.length ≤ cfg.N) (h : Heap H) :
    ∃ c h', Coll.tryFromIter pf z cfg xs h = .ok (c, h') ∧ CollInv pf cfg c xs ∧
      c.updates = UMap.empty cfg.map ∧ c.kind = .list := by
  obtain ⟨c, h', e, hk, hs, hl, hd, hu⟩ := C05_tryFromIter_ok pf K.pf z cfg K.le xs hlen h
  exact ⟨c, h', e, CollInv.cv_of_flushed pf cfg c xs hs hl hd (by rw [hk]; exact hlen) hu, hu, hk⟩

/-! ## Target 3: conversions (C05, C06) -/

/-- the result of the `List → Vector` conversion after the flush keeps the invariant. -/
theorem CollInv.cv_asVector {pf : Option Nat} {cfg : Cfg} {c : Coll T} {v : List T}
    (I : CollInv pf cfg c v) (hv : v.length = cfg.N) :
    CollInv pf cfg { c with kind := .vector, length := cfg.N } v where
  shape := I.shape
  len := hv.symm
  depth := I.depth
  bound := hv
  mapKind := I.mapKind
  wf := I.wf
  keys := I.keys
  contiguous := I.contiguous
  maxRel := I.maxRel

/-- **C05 (`TryFrom<List> for Vector`, accepted).** A list showing exactly `N` elements converts:
pending writes are flushed first, and the result is a vector satisfying the invariant whose
*backing* holds the `N` shown elements (a vector's tree always holds exactly `N` elements), with no
pending writes. `hflush`/`hlenS` are the facts of `Proofs/CollOps.lean`. -/
theorem C05_toVector_of (pf : Option Nat) (z : H) (cfg : Cfg) (hflush : FlushSpec T pf z cfg)
    (hlenS : LenSpec T pf cfg) (c : Coll T) (xs : List T) (I : CollInv pf cfg c xs)
    (hv : (Coll.view xs c).length = cfg.N) (h : Heap H) :
    ∃ c' h', Coll.toVector pf z cfg c h = .ok (c', h') ∧ c'.kind = .vector ∧
      CollInv pf cfg c' (Coll.view xs c) ∧ c'.updates.isEmpty = true ∧
      Coll.view (Coll.view xs c) c' = Coll.view xs c ∧ h.next ≤ h'.next ∧
      ((c.updates.isEmpty = true → c.updates = UMap.empty cfg.map) →
        c'.updates = UMap.empty cfg.map) := by
  obtain ⟨c1, h1, hap, I1, he1, hv1, _, hn, hlit⟩ := hflush c xs h I
  have hl : c.len = cfg.N := by rw [hlenS c xs I, hv]
  refine ⟨{ c1 with kind := .vector, length := cfg.N }, h1, ?_, rfl, I1.cv_asVector hv, he1, hv1, hn,
    ?_⟩
  · simp only [Coll.toVector, hl, if_true, hap]
  · intro hnorm
    show c1.updates = _
    cases hce : c.updates.isEmpty with
    | false => exact hlit hce
    | true =>
      rw [cvApplyUpdates_of_isEmpty pf z cfg c h hce] at hap
      cases hap
      exact hnorm hce

/-- **C05 (`TryFrom<List> for Vector`, rejected).** A list showing a number of elements different
from `N` is rejected with `WrongVectorLength`; the conversion never panics. -/
theorem C05_toVector_rejects_of (pf : Option Nat) (z : H) (cfg : Cfg) (hlenS : LenSpec T pf cfg)
    (c : Coll T) (xs : List T) (I : CollInv pf cfg c xs)
    (hv : (Coll.view xs c).length ≠ cfg.N) (h : Heap H) :
    Coll.toVector pf z cfg c h = .error (.wrongVectorLength (Coll.view xs c).length cfg.N) := by
  have hl := hlenS c xs I
  simp only [Coll.toVector, hl, hv, if_false]

/-- the same two facts for a list without pending writes (no fact from `CollOps` needed). -/
theorem C05_toVector_flushed (pf : Option Nat) (z : H) (cfg : Cfg) (c : Coll T) (xs : List T)
    (I : CollInv pf cfg c xs) (hu : c.updates = UMap.empty cfg.map) (h : Heap H) :
    (xs.length = cfg.N → ∃ c', Coll.toVector pf z cfg c h = .ok (c', h) ∧ c'.kind = .vector ∧
      CollInv pf cfg c' xs ∧ c'.updates = UMap.empty cfg.map) ∧
    (xs.length ≠ cfg.N →
      Coll.toVector pf z cfg c h = .error (.wrongVectorLength xs.length cfg.N)) := by
  have he : c.updates.isEmpty = true := by rw [hu]; exact cvIsEmpty_empty _
  have hl : c.len = xs.length := by rw [cvLen_of_isEmpty c he, I.len]
  constructor
  · intro hx
    refine ⟨{ c with kind := .vector, length := cfg.N }, ?_, rfl, I.cv_asVector hx, hu⟩
    simp only [Coll.toVector, hl, hx, if_true, cvApplyUpdates_of_isEmpty pf z cfg c h he]
  · intro hx
    simp only [Coll.toVector, hl, hx, if_false]

/-- **C05 (`From<Vector> for List`).** The conversion keeps the tree and the pending writes, sets
the cached length to `N`, and the result is a list satisfying the invariant with the same backing
contents, hence the same shown sequence. -/
theorem C05_toList (pf : Option Nat) (cfg : Cfg) (c : Coll T) (xs : List T)
    (I : CollInv pf cfg c xs) (hk : c.kind = .vector) :
    CollInv pf cfg (Coll.toList cfg c) xs ∧ (Coll.toList cfg c).kind = .list ∧
      Coll.view xs (Coll.toList cfg c) = Coll.view xs c ∧
      (Coll.toList cfg c).tree = c.tree ∧ (Coll.toList cfg c).updates = c.updates := by
  have hb : xs.length = cfg.N := by have := I.bound; rw [hk] at this; exact this
  refine ⟨⟨I.shape, hb.symm, I.depth, ?_, I.mapKind, I.wf, I.keys, I.contiguous, I.maxRel⟩,
    rfl, rfl, rfl, rfl⟩
  show xs.length ≤ cfg.N
  omega

/-- **C05 (`Vector::new`).** Exactly `N` elements give a vector satisfying the invariant (backing
contents = the input, no pending writes); any other number is rejected with `WrongVectorLength`.
Never a panic. -/
theorem C05_vectorNew (pf : Option Nat) (z : H) (cfg : Cfg) (K : CfgOK pf cfg) (xs : List T)
    (h : Heap H) :
    (xs.length = cfg.N → ∃ c h', Coll.vectorNew pf z cfg xs h = .ok (c, h') ∧ c.kind = .vector ∧
      CollInv pf cfg c xs ∧ c.updates = UMap.empty cfg.map) ∧
    (xs.length ≠ cfg.N →
      Coll.vectorNew pf z cfg xs h = .error (.wrongVectorLength xs.length cfg.N)) := by
  constructor
  · intro hx
    obtain ⟨c, h', e, I, hu, _⟩ := C05_tryFromIter_collInv pf z cfg K xs (by omega) h
    obtain ⟨c', e', hk', I', hu'⟩ := (C05_toVector_flushed pf z cfg c xs I hu h').1 hx
    exact ⟨c', h', by simp only [Coll.vectorNew, hx, if_true, e, e'], hk', I', hu'⟩
  · intro hx
    simp only [Coll.vectorNew, hx, if_false]

/-- **C05 (`Vector::try_from_iter`).** Exactly `N` elements give a vector satisfying the invariant;
fewer are rejected with `WrongVectorLength` (by the conversion), more with `BuilderFull` (by
`List::try_from_iter`). Never `ok` with another length, never a panic. -/
theorem C05_vectorFromIter (pf : Option Nat) (z : H) (cfg : Cfg) (K : CfgOK pf cfg) (xs : List T)
    (h : Heap H) :
    (xs.length = cfg.N → ∃ c h', Coll.vectorFromIter pf z cfg xs h = .ok (c, h') ∧
      c.kind = .vector ∧ CollInv pf cfg c xs ∧ c.updates = UMap.empty cfg.map) ∧
    (xs.length < cfg.N →
      Coll.vectorFromIter pf z cfg xs h = .error (.wrongVectorLength xs.length cfg.N)) ∧
    (xs.length > cfg.N → Coll.vectorFromIter pf z cfg xs h = .error .builderFull) := by
  refine ⟨?_, ?_, ?_⟩
  · intro hx
    obtain ⟨c, h', e, I, hu, _⟩ := C05_tryFromIter_collInv pf z cfg K xs (by omega) h
    obtain ⟨c', e', hk', I', hu'⟩ := (C05_toVector_flushed pf z cfg c xs I hu h').1 hx
    exact ⟨c', h', by simp only [Coll.vectorFromIter, e, e'], hk', I', hu'⟩
  · intro hx
    obtain ⟨c, h', e, I, hu, _⟩ := C05_tryFromIter_collInv pf z cfg K xs (by omega) h
    have := (C05_toVector_flushed pf z cfg c xs I hu h').2 (by omega)
    simp only [Coll.vectorFromIter, e, this]
  · intro hx
    simp only [Coll.vectorFromIter, C05_tryFromIter_rejects pf K.pf z cfg K.le xs hx h]

/-- `Vector::new` / `Vector::try_from_iter` succeed iff the input has exactly `N` elements. -/
theorem C05_vector_ok_iff (pf : Option Nat) (z : H) (cfg : Cfg) (K : CfgOK pf cfg) (xs : List T)
    (h : Heap H) :
    ((∃ r, Coll.vectorNew pf z cfg xs h = .ok r) ↔ xs.length = cfg.N) ∧
    ((∃ r, Coll.vectorFromIter pf z cfg xs h = .ok r) ↔ xs.length = cfg.N) := by
  obtain ⟨a1, a2⟩ := C05_vectorNew pf z cfg K xs h
  obtain ⟨b1, b2, b3⟩ := C05_vectorFromIter pf z cfg K xs h
  constructor
  · constructor
    · rintro ⟨r, hr⟩
      apply Classical.byContradiction
      intro hne
      rw [a2 hne] at hr; cases hr
    · intro hx
      obtain ⟨c, h', e, _⟩ := a1 hx
      exact ⟨_, e⟩
  · constructor
    · rintro ⟨r, hr⟩
      apply Classical.byContradiction
      intro hne
      rcases Nat.lt_or_gt_of_ne hne with hlt | hgt
      · rw [b2 hlt] at hr; cases hr
      · rw [b3 hgt] at hr; cases hr
    · intro hx
      obtain ⟨c, h', e, _⟩ := b1 hx
      exact ⟨_, e⟩

/-! ## Target 5: SSZ at the collection level (C12) -/

/-- **C12 (list, round trip).** Decoding the encoding of at most `N` elements (encoded size below
`2^32`, the range of SSZ offsets) gives a list satisfying the invariant with exactly these backing
contents and no pending writes. -/
theorem C12_list_roundtrip {E : Elem T H} (hE : CodecOK E) (z : H) (cfg : Cfg)
    (K : CfgOK E.pf cfg) (xs : List T) (hN : xs.length ≤ cfg.N)
    (h32 : (sszEncode E xs).length < 2 ^ 32) (h : Heap H) :
    ∃ c h', sszDecodeList E z cfg (sszEncode E xs) h = .ok (c, h') ∧ CollInv E.pf cfg c xs ∧
      c.updates = UMap.empty cfg.map ∧ c.kind = .list :=
  C12_decodeList_roundtrip_of_tryFromIter hE z cfg
    (fun c xs => CollInv E.pf cfg c xs ∧ c.updates = UMap.empty cfg.map ∧ c.kind = .list)
    (fun xs h hx => C05_tryFromIter_collInv E.pf z cfg K xs hx h)
    (fun h => C05_empty_collInv E.pf z cfg h |>.imp_right fun p => ⟨p.2, p.1⟩) xs h hN h32

/-- **C12 (list, strictness).** Whatever the bytes: if `List::from_ssz_bytes` succeeds, the bytes are
the canonical encoding of some `xs` with at most `N` elements, the result satisfies the invariant
with backing contents `xs` and no pending writes, and re-encoding what it shows returns the input
bytes. Every failure is a `DecodeError` (`C12_decodeList_error`). -/
theorem C12_list_strict {E : Elem T H} (hE : CodecOK E) (z : H) (cfg : Cfg) (K : CfgOK E.pf cfg)
    (bs : List UInt8) (h : Heap H) (c : Coll T) (h' : Heap H)
    (hok : sszDecodeList E z cfg bs h = .ok (c, h')) :
    ∃ xs, sszEncode E xs = bs ∧ xs.length ≤ cfg.N ∧ CollInv E.pf cfg c xs ∧
      c.updates = UMap.empty cfg.map ∧ c.kind = .list ∧ Coll.view xs c = xs ∧
      sszEncode E (Coll.view xs c) = bs := by
  obtain ⟨xs, henc, hlen, hcase⟩ := C12_decodeList_strict hE z cfg bs h c h' hok
  have key : CollInv E.pf cfg c xs ∧ c.updates = UMap.empty cfg.map ∧ c.kind = .list := by
    rcases hcase with ⟨hx, he⟩ | ⟨_, htf⟩
    · subst hx
      have := C05_empty_collInv (T := T) E.pf z cfg h
      rw [he] at this
      exact ⟨this.1, this.2.2, this.2.1⟩
    · obtain ⟨c0, h0, e, I, hu, hk⟩ := C05_tryFromIter_collInv E.pf z cfg K xs hlen h
      rw [htf] at e
      cases e
      exact ⟨I, hu, hk⟩
  have hview := cvView_of_flushed xs c cfg.map key.2.1
  exact ⟨xs, henc, hlen, key.1, key.2.1, key.2.2, hview, by rw [hview]; exact henc⟩

/-- **C12 (vector, round trip).** Decoding the encoding of exactly `N` elements gives a vector
satisfying the invariant with these backing contents and no pending writes. -/
theorem C12_vector_roundtrip {E : Elem T H} (hE : CodecOK E) (z : H) (cfg : Cfg)
    (K : CfgOK E.pf cfg) (xs : List T) (hN : xs.length = cfg.N)
    (h32 : (sszEncode E xs).length < 2 ^ 32) (h : Heap H) :
    ∃ c h', sszDecodeVector E z cfg (sszEncode E xs) h = .ok (c, h') ∧ CollInv E.pf cfg c xs ∧
      c.updates = UMap.empty cfg.map ∧ c.kind = .vector := by
  obtain ⟨c, h', e, I, hu, _⟩ := C12_list_roundtrip hE z cfg K xs (by omega) h32 h
  obtain ⟨c', e', hk', I', hu'⟩ := (C05_toVector_flushed E.pf z cfg c xs I hu h').1 hN
  exact ⟨c', h', by simp only [sszDecodeVector, e, e'], I', hu', hk'⟩

/-- a sequence of the wrong length does not decode as a vector: `DecodeError`, no panic. -/
theorem C12_vector_rejects_length {E : Elem T H} (hE : CodecOK E) (z : H) (cfg : Cfg)
    (K : CfgOK E.pf cfg) (xs : List T) (hN : xs.length ≠ cfg.N)
    (h32 : (sszEncode E xs).length < 2 ^ 32) (h : Heap H) :
    sszDecodeVector E z cfg (sszEncode E xs) h = .error .ssz := by
  cases hr : sszDecodeVector E z cfg (sszEncode E xs) h with
  | error e => rw [C12_decodeVector_error E z cfg _ h e hr]
  | ok r =>
    exfalso
    obtain ⟨v, h''⟩ := r
    obtain ⟨c, h', hl, _, htv⟩ := C12_decodeVector_ok E z cfg _ h v h'' hr
    obtain ⟨ys, henc, hlen, I, hu, _, _, _⟩ := C12_list_strict hE z cfg K _ h c h' hl
    have hys : ys = xs := by
      have h1 := C12_roundtrip_items hE cfg.N ys hlen (by rw [henc]; exact h32)
      by_cases hx : xs.length ≤ cfg.N
      · have h2 := C12_roundtrip_items hE cfg.N xs hx h32
        rw [henc, h2] at h1
        cases h1; rfl
      · -- `xs` is longer than `N`: the strict decoder does not accept its encoding at all
        have h2 := C12_roundtrip_items hE xs.length xs (Nat.le_refl _) h32
        have h3 := C12_roundtrip_items hE xs.length ys (by omega) (by rw [henc]; exact h32)
        rw [henc, h2] at h3
        cases h3; rfl
    subst hys
    rw [(C05_toVector_flushed E.pf z cfg c ys I hu h').2 hN] at htv
    cases htv

/-- **C12 (vector, strictness).** If `Vector::from_ssz_bytes` succeeds on ANY bytes, they are the
canonical encoding of some `xs` with exactly `N` elements, the result is a vector satisfying the
invariant with backing contents `xs` and no pending writes, and re-encoding what it shows returns the
input bytes. Every failure is a `DecodeError` (`C12_decodeVector_error`). -/
theorem C12_vector_strict {E : Elem T H} (hE : CodecOK E) (z : H) (cfg : Cfg) (K : CfgOK E.pf cfg)
    (bs : List UInt8) (h : Heap H) (v : Coll T) (h'' : Heap H)
    (hok : sszDecodeVector E z cfg bs h = .ok (v, h'')) :
    ∃ xs, sszEncode E xs = bs ∧ xs.length = cfg.N ∧ CollInv E.pf cfg v xs ∧
      v.updates = UMap.empty cfg.map ∧ v.kind = .vector ∧ Coll.view xs v = xs ∧
      sszEncode E (Coll.view xs v) = bs := by
  obtain ⟨c, h', hl, _, htv⟩ := C12_decodeVector_ok E z cfg bs h v h'' hok
  obtain ⟨xs, henc, hlen, I, hu, _, _, _⟩ := C12_list_strict hE z cfg K bs h c h' hl
  obtain ⟨a, b⟩ := C05_toVector_flushed E.pf z cfg c xs I hu h'
  by_cases hx : xs.length = cfg.N
  · obtain ⟨c', e', hk', I', hu'⟩ := a hx
    rw [htv] at e'
    cases e'
    have hview := cvView_of_flushed xs v cfg.map hu'
    exact ⟨xs, henc, hx, I', hu', hk', hview, by rw [hview]; exact henc⟩
  · rw [b hx] at htv; cases htv

/-! ## Target 2: `List::try_from_iter_slow` (C05) -/

/-- pushing a sequence that fits, one element at a time. -/
theorem cvPushAllSlow_ok (pf : Option Nat) (cfg : Cfg) (hpush : PushSpec T pf cfg)
    (xs0 : List T) : ∀ (ys : List T) (c : Coll T), CollInv pf cfg c xs0 → c.kind = .list →
      (Coll.view xs0 c).length + ys.length ≤ cfg.N →
      ∃ c', Coll.pushAllSlow cfg c ys = .ok c' ∧ CollInv pf cfg c' xs0 ∧
        Coll.view xs0 c' = Coll.view xs0 c ++ ys ∧ c'.kind = .list := by
  intro ys
  induction ys with
  | nil => intro c I hk _; exact ⟨c, rfl, I, by simp, hk⟩
  | cons y ys ih =>
    intro c I hk hlen
    simp only [List.length_cons] at hlen
    obtain ⟨c1, e1, I1, hv1, hk1⟩ := hpush c xs0 y I hk (by omega)
    obtain ⟨c2, e2, I2, hv2, hk2⟩ := ih c1 I1 hk1 (by rw [hv1]; simp; omega)
    refine ⟨c2, by simp only [Coll.pushAllSlow, e1, e2], I2, ?_, hk2⟩
    rw [hv2, hv1]; simp

/-- pushing a sequence that does not fit stops with `ListFull` at the bound. -/
theorem cvPushAllSlow_full (pf : Option Nat) (cfg : Cfg) (hpush : PushSpec T pf cfg)
    (hlenS : LenSpec T pf cfg) (xs0 : List T) : ∀ (ys : List T) (c : Coll T),
      CollInv pf cfg c xs0 → c.kind = .list → (Coll.view xs0 c).length ≤ cfg.N →
      cfg.N < (Coll.view xs0 c).length + ys.length →
      Coll.pushAllSlow cfg c ys = .error (.listFull cfg.N) := by
  intro ys
  induction ys with
  | nil => intro c _ _ h1 h2; simp at h2; omega
  | cons y ys ih =>
    intro c I hk hle hgt
    simp only [List.length_cons] at hgt
    rcases Nat.lt_or_eq_of_le hle with hlt | heq
    · obtain ⟨c1, e1, I1, hv1, hk1⟩ := hpush c xs0 y I hk hlt
      have := ih c1 I1 hk1 (by rw [hv1]; simp; omega) (by rw [hv1]; simp; omega)
      simp only [Coll.pushAllSlow, e1, this]
    · have hl : c.len = cfg.N := by rw [hlenS c xs0 I, heq]
      simp only [Coll.pushAllSlow, Coll.push, hk, hl, if_true]

/-- **C05 (`List::try_from_iter_slow`).** Given the push and flush facts of `Proofs/CollOps.lean`:
at most `N` elements give a list satisfying the invariant with backing contents `xs` and no pending
writes — the same abstract state (and, by `canon`, the same tree shape) as `try_from_iter`; more
than `N` elements are rejected with `ListFull(N)`. -/
theorem C05_tryFromIterSlow_of (pf : Option Nat) (z : H) (cfg : Cfg) (hflush : FlushSpec T pf z cfg)
    (hpush : PushSpec T pf cfg) (hlenS : LenSpec T pf cfg) (xs : List T) (h : Heap H) :
    (xs.length ≤ cfg.N → ∃ c h', Coll.tryFromIterSlow pf z cfg xs h = .ok (c, h') ∧
      CollInv pf cfg c xs ∧ c.updates = UMap.empty cfg.map ∧ c.kind = .list) ∧
    (xs.length > cfg.N → Coll.tryFromIterSlow pf z cfg xs h = .error (.listFull cfg.N)) := by
  obtain ⟨I0, hk0, hu0⟩ := C05_empty_collInv (T := T) pf z cfg h
  have hv0 : Coll.view [] (Coll.empty (T := T) pf z cfg h).1 = [] :=
    cvView_of_flushed _ _ cfg.map hu0
  constructor
  · intro hlen
    obtain ⟨c1, e1, I1, hv1, hk1⟩ := cvPushAllSlow_ok pf cfg hpush [] xs _ I0 hk0
      (by rw [hv0]; simpa using hlen)
    rw [hv0, List.nil_append] at hv1
    obtain ⟨c2, h2, e2, I2, he2, _, hk2, _, hlit⟩ := hflush c1 [] (Coll.empty (T := T) pf z cfg h).2 I1
    rw [hv1] at I2
    refine ⟨c2, h2, ?_, I2, ?_, by rw [hk2, hk1]⟩
    · simp only [Coll.tryFromIterSlow, e1, e2]
    · cases hce : c1.updates.isEmpty with
      | false => exact hlit hce
      | true =>
        -- nothing was pushed: `xs = []` and the collection is still `List::empty`
        have hx : xs = [] := by rw [← hv1]; exact cvView_of_isEmpty [] c1 hce
        subst hx
        simp only [Coll.pushAllSlow] at e1
        cases e1
        rw [cvApplyUpdates_of_isEmpty pf z cfg _ _ hce] at e2
        cases e2
        exact hu0
  · intro hgt
    have := cvPushAllSlow_full pf cfg hpush hlenS [] xs _ I0 hk0 (by rw [hv0]; simp)
      (by rw [hv0]; simpa using hgt)
    simp only [Coll.tryFromIterSlow, this]

/-- `try_from_iter_slow` and `try_from_iter` agree: both accept exactly the sequences of at most `N`
elements, and on those the two results have the same tree shape, cached length, depth and (empty)
pending map — they are equal under the derived `PartialEq`. -/
theorem C05_tryFromIterSlow_eq_fast_of [DecidableEq T] (pf : Option Nat) (z : H) (cfg : Cfg)
    (K : CfgOK pf cfg) (hflush : FlushSpec T pf z cfg) (hpush : PushSpec T pf cfg)
    (hlenS : LenSpec T pf cfg) (xs : List T) (hlen : xs.length ≤ cfg.N) (h1 h2 : Heap H) :
    ∃ c h' c' h'', Coll.tryFromIterSlow pf z cfg xs h1 = .ok (c, h') ∧
      Coll.tryFromIter pf z cfg xs h2 = .ok (c', h'') ∧ Coll.beq c c' = true := by
  obtain ⟨c, h', e, I, hu, _⟩ := (C05_tryFromIterSlow_of pf z cfg hflush hpush hlenS xs h1).1 hlen
  obtain ⟨c', h'', e', I', hu', _⟩ := C05_tryFromIter_collInv pf z cfg K xs hlen h2
  refine ⟨c, h', c', h'', e, e', ?_⟩
  have hbe : (UMap.empty cfg.map : UMap T).beq (UMap.empty cfg.map) = true := by
    cases cfg.map <;> simp [UMap.beq, UMap.empty]
  simp [Coll.beq, I.shape, I'.shape, I.depth, I'.depth, I.len, I'.len, hu, hu', hbe]

/-! ## Target 4: serde (C13)

`Serialize` writes the sequence produced by the overlay-aware iterator (`Coll.toVec`, the driver's
`ser`); `Deserialize` collects the sequence and calls `List::try_from_iter` (`serde.rs`), for a
vector followed by `TryFrom<List>` (`#[serde(try_from = "List<T, N, U>")]`), every error being
mapped to a serde error (rendered as `Err.ssz`, as the driver's `de` does). -/

/-- `map_err(serde::de::Error::custom)`. -/
def serdeMapErr {α : Type} (r : Except Err α) : Except Err α :=
  match r with
  | .ok x => .ok x
  | .error _ => .error .ssz

/-- `Deserialize` for `List` (`k = .list`) and `Vector` (`k = .vector`) on an element sequence. -/
def serdeDe (k : CKind) (pf : Option Nat) (z : H) (cfg : Cfg) (vs : List T) (h : Heap H) :
    Except Err (Coll T × Heap H) :=
  match k with
  | .list => serdeMapErr (Coll.tryFromIter pf z cfg vs h)
  | .vector => serdeMapErr (Coll.vectorFromIter pf z cfg vs h)

theorem cvBeq_empty [DecidableEq T] (k : MapKind) :
    (UMap.empty k : UMap T).beq (UMap.empty k) = true := by
  cases k <;> simp [UMap.beq, UMap.empty]

/-- **C13 (round trip).** Let `c` satisfy the invariant and be *normal* (a map without entries is
the default map — true of every reachable state, since entries are never removed except by
`mem::take`). Serialising `c` writes what it shows (`htovec`, proved with the iterator theorems);
deserialising that sequence succeeds and gives a collection of the same kind, satisfying the
invariant with backing contents = the shown sequence and no pending writes, which is equal (derived
`PartialEq`) to the original after `apply_updates`. -/
theorem C13_roundtrip_of [DecidableEq T] (pf : Option Nat) (z : H) (cfg : Cfg) (K : CfgOK pf cfg)
    (hflush : FlushSpec T pf z cfg) (c : Coll T) (xs : List T) (I : CollInv pf cfg c xs)
    (hnorm : c.updates.isEmpty = true → c.updates = UMap.empty cfg.map)
    (htovec : c.toVec pf = .ok (Coll.view xs c)) (h h2 : Heap H) :
    ∃ v c1 h1 c2 h2', c.toVec pf = .ok v ∧ v = Coll.view xs c ∧
      c.applyUpdates pf z cfg h = (.ok (), c1, h1) ∧
      serdeDe c.kind pf z cfg v h2 = .ok (c2, h2') ∧ c2.kind = c.kind ∧
      CollInv pf cfg c2 v ∧ c2.updates = UMap.empty cfg.map ∧ Coll.view v c2 = v ∧
      Coll.beq c2 c1 = true := by
  obtain ⟨c1, h1, hap, I1, he1, _, hk1, _, hlit⟩ := hflush c xs h I
  have hu1 : c1.updates = UMap.empty cfg.map := by
    cases hce : c.updates.isEmpty with
    | false => exact hlit hce
    | true =>
      rw [cvApplyUpdates_of_isEmpty pf z cfg c h hce] at hap
      cases hap
      exact hnorm hce
  have hb1 := I1.bound
  rw [hk1] at hb1
  have hbeq : ∀ c2 : Coll T, CollInv pf cfg c2 (Coll.view xs c) →
      c2.updates = UMap.empty cfg.map → Coll.beq c2 c1 = true := by
    intro c2 I2 hu2
    simp [Coll.beq, I1.shape, I2.shape, I1.depth, I2.depth, I1.len, I2.len, hu1, hu2, cvBeq_empty]
  cases hk : c.kind with
  | list =>
    rw [hk] at hb1
    obtain ⟨c2, h2', e2, I2, hu2, hk2⟩ :=
      C05_tryFromIter_collInv pf z cfg K (Coll.view xs c) hb1 h2
    exact ⟨_, c1, h1, c2, h2', htovec, rfl, hap, by simp only [serdeDe, e2, serdeMapErr], hk2, I2,
      hu2, cvView_of_flushed _ _ _ hu2, hbeq c2 I2 hu2⟩
  | vector =>
    rw [hk] at hb1
    obtain ⟨c2, h2', e2, hk2, I2, hu2⟩ :=
      (C05_vectorFromIter pf z cfg K (Coll.view xs c) h2).1 hb1
    exact ⟨_, c1, h1, c2, h2', htovec, rfl, hap, by simp only [serdeDe, e2, serdeMapErr], hk2, I2,
      hu2, cvView_of_flushed _ _ _ hu2, hbeq c2 I2 hu2⟩

/-- **C13 (rejection).** A sequence longer than `N` does not deserialise as a list, and a sequence
of length different from `N` does not deserialise as a vector: a serde error, never `ok`, never a
panic. -/
theorem C13_rejects (pf : Option Nat) (z : H) (cfg : Cfg) (K : CfgOK pf cfg) (vs : List T)
    (h : Heap H) :
    (vs.length > cfg.N → serdeDe .list pf z cfg vs h = .error .ssz) ∧
    (vs.length ≠ cfg.N → serdeDe .vector pf z cfg vs h = .error .ssz) := by
  constructor
  · intro hgt
    simp only [serdeDe, C05_tryFromIter_rejects pf K.pf z cfg K.le vs hgt h, serdeMapErr]
  · intro hne
    obtain ⟨_, b2, b3⟩ := C05_vectorFromIter pf z cfg K vs h
    rcases Nat.lt_or_gt_of_ne hne with hlt | hgt
    · simp only [serdeDe, b2 hlt, serdeMapErr]
    · simp only [serdeDe, b3 hgt, serdeMapErr]

/-- deserialisation never panics and succeeds exactly on the admissible lengths. -/
theorem C13_ok_iff (pf : Option Nat) (z : H) (cfg : Cfg) (K : CfgOK pf cfg) (vs : List T)
    (h : Heap H) :
    ((∃ r, serdeDe .list pf z cfg vs h = .ok r) ↔ vs.length ≤ cfg.N) ∧
    ((∃ r, serdeDe .vector pf z cfg vs h = .ok r) ↔ vs.length = cfg.N) := by
  obtain ⟨r1, r2⟩ := C13_rejects pf z cfg K vs h
  constructor
  · constructor
    · rintro ⟨r, hr⟩
      apply Classical.byContradiction
      intro hne
      rw [r1 (by omega)] at hr; cases hr
    · intro hx
      obtain ⟨c, h', e, _⟩ := C05_tryFromIter_collInv pf z cfg K vs hx h
      exact ⟨(c, h'), by simp only [serdeDe, e, serdeMapErr]⟩
  · constructor
    · rintro ⟨r, hr⟩
      apply Classical.byContradiction
      intro hne
      rw [r2 hne] at hr; cases hr
    · intro hx
      obtain ⟨c, h', e, _⟩ := (C05_vectorFromIter pf z cfg K vs h).1 hx
      exact ⟨(c, h'), by simp only [serdeDe, e, serdeMapErr]⟩

/-! ## The same theorems with the `CollOps` facts discharged

`Proofs/CollOps.lean` has been delivered in the meantime; the three facts are instances of
`C01_applyUpdates`, `C01_push_ok`, `C01_len` (one `exact` each), and the serialisation premise of
C13 is `C01_toVec`. The `_of` versions above remain for reference. -/

theorem flushSpec_holds {pf : Option Nat} {cfg : Cfg} (K : CfgOK pf cfg) (z : H) :
    FlushSpec T pf z cfg := fun _ _ h I => C01_applyUpdates K I z h

theorem pushSpec_holds (pf : Option Nat) (cfg : Cfg) : PushSpec T pf cfg :=
  fun _ _ x I hk hr => C01_push_ok I x hk hr

theorem lenSpec_holds (pf : Option Nat) (cfg : Cfg) : LenSpec T pf cfg := fun _ _ I => C01_len I

/-- **C05 (`List::try_from_iter_slow`).** At most `N` elements give a list satisfying the invariant
with backing contents `xs` and no pending writes; more than `N` are rejected with `ListFull(N)`. -/
theorem C05_tryFromIterSlow (pf : Option Nat) (z : H) (cfg : Cfg) (K : CfgOK pf cfg) (xs : List T)
    (h : Heap H) :
    (xs.length ≤ cfg.N → ∃ c h', Coll.tryFromIterSlow pf z cfg xs h = .ok (c, h') ∧
      CollInv pf cfg c xs ∧ c.updates = UMap.empty cfg.map ∧ c.kind = .list) ∧
    (xs.length > cfg.N → Coll.tryFromIterSlow pf z cfg xs h = .error (.listFull cfg.N)) :=
  C05_tryFromIterSlow_of pf z cfg (flushSpec_holds K z) (pushSpec_holds pf cfg) (lenSpec_holds pf cfg)
    xs h

/-- `try_from_iter_slow` and `try_from_iter` build equal lists (derived `PartialEq`). -/
theorem C05_tryFromIterSlow_eq_fast [DecidableEq T] (pf : Option Nat) (z : H) (cfg : Cfg)
    (K : CfgOK pf cfg) (xs : List T) (hlen : xs.length ≤ cfg.N) (h1 h2 : Heap H) :
    ∃ c h' c' h'', Coll.tryFromIterSlow pf z cfg xs h1 = .ok (c, h') ∧
      Coll.tryFromIter pf z cfg xs h2 = .ok (c', h'') ∧ Coll.beq c c' = true :=
  C05_tryFromIterSlow_eq_fast_of pf z cfg K (flushSpec_holds K z) (pushSpec_holds pf cfg)
    (lenSpec_holds pf cfg) xs hlen h1 h2

/-- **C05 (`TryFrom<List> for Vector`, accepted)**: see `C05_toVector_of`. -/
theorem C05_toVector (pf : Option Nat) (z : H) (cfg : Cfg) (K : CfgOK pf cfg) (c : Coll T)
    (xs : List T) (I : CollInv pf cfg c xs) (hv : (Coll.view xs c).length = cfg.N) (h : Heap H) :
    ∃ c' h', Coll.toVector pf z cfg c h = .ok (c', h') ∧ c'.kind = .vector ∧
      CollInv pf cfg c' (Coll.view xs c) ∧ c'.updates.isEmpty = true ∧
      Coll.view (Coll.view xs c) c' = Coll.view xs c ∧ h.next ≤ h'.next ∧
      ((c.updates.isEmpty = true → c.updates = UMap.empty cfg.map) →
        c'.updates = UMap.empty cfg.map) :=
  C05_toVector_of pf z cfg (flushSpec_holds K z) (lenSpec_holds pf cfg) c xs I hv h

/-- **C05 (`TryFrom<List> for Vector`, rejected)**: see `C05_toVector_rejects_of`. -/
theorem C05_toVector_rejects (pf : Option Nat) (z : H) (cfg : Cfg) (c : Coll T) (xs : List T)
    (I : CollInv pf cfg c xs) (hv : (Coll.view xs c).length ≠ cfg.N) (h : Heap H) :
    Coll.toVector pf z cfg c h = .error (.wrongVectorLength (Coll.view xs c).length cfg.N) :=
  C05_toVector_rejects_of pf z cfg (lenSpec_holds pf cfg) c xs I hv h

/-- the conversion succeeds exactly on lists showing `N` elements; it never panics. -/
theorem C05_toVector_ok_iff (pf : Option Nat) (z : H) (cfg : Cfg) (K : CfgOK pf cfg) (c : Coll T)
    (xs : List T) (I : CollInv pf cfg c xs) (h : Heap H) :
    (∃ r, Coll.toVector pf z cfg c h = .ok r) ↔ (Coll.view xs c).length = cfg.N := by
  constructor
  · rintro ⟨r, hr⟩
    apply Classical.byContradiction
    intro hne
    rw [C05_toVector_rejects pf z cfg c xs I hne h] at hr; cases hr
  · intro hv
    obtain ⟨c', h', e, _⟩ := C05_toVector pf z cfg K c xs I hv h
    exact ⟨(c', h'), e⟩

/-- **C05 round trip `Vector → List → Vector`.** Converting a vector to a list and back succeeds and
gives a vector with the same shown sequence, now flushed into the backing tree. -/
theorem C05_toList_toVector (pf : Option Nat) (z : H) (cfg : Cfg) (K : CfgOK pf cfg) (c : Coll T)
    (xs : List T) (I : CollInv pf cfg c xs) (hk : c.kind = .vector) (h : Heap H) :
    ∃ c' h', Coll.toVector pf z cfg (Coll.toList cfg c) h = .ok (c', h') ∧ c'.kind = .vector ∧
      CollInv pf cfg c' (Coll.view xs c) ∧ c'.updates.isEmpty = true ∧
      Coll.view (Coll.view xs c) c' = Coll.view xs c := by
  obtain ⟨I', _, hv, _, _⟩ := C05_toList pf cfg c xs I hk
  have hN : (Coll.view xs (Coll.toList cfg c)).length = cfg.N := by
    rw [hv]; exact C05_view_length_vector I hk
  obtain ⟨c', h', e, hk', I'', he, hv', _, _⟩ :=
    C05_toVector pf z cfg K (Coll.toList cfg c) xs I' hN h
  rw [hv] at I'' hv'
  exact ⟨c', h', e, hk', I'', he, hv'⟩

/-- **C13 (round trip)**: see `C13_roundtrip_of`; the serialisation premise is `C01_toVec`. -/
theorem C13_roundtrip [DecidableEq T] (pf : Option Nat) (z : H) (cfg : Cfg) (K : CfgOK pf cfg)
    (c : Coll T) (xs : List T) (I : CollInv pf cfg c xs)
    (hnorm : c.updates.isEmpty = true → c.updates = UMap.empty cfg.map) (h h2 : Heap H) :
    ∃ v c1 h1 c2 h2', c.toVec pf = .ok v ∧ v = Coll.view xs c ∧
      c.applyUpdates pf z cfg h = (.ok (), c1, h1) ∧
      serdeDe c.kind pf z cfg v h2 = .ok (c2, h2') ∧ c2.kind = c.kind ∧
      CollInv pf cfg c2 v ∧ c2.updates = UMap.empty cfg.map ∧ Coll.view v c2 = v ∧
      Coll.beq c2 c1 = true :=
  C13_roundtrip_of pf z cfg K (flushSpec_holds K z) c xs I hnorm (C01_toVec K I) h h2

/-! ## Non-vacuity: the hypotheses are satisfiable and the statements hold on concrete runs -/

namespace ConvertExample

theorem pfOK_four : PfOK (some 4) := by
  intro p hp; cases hp; exact ⟨2, by decide, rfl⟩

theorem pfOK_none : PfOK none := by intro p hp; cases hp

theorem cfgOK_four : CfgOK (some 4) ⟨5, .maxvec⟩ := ⟨pfOK_four, by decide, by decide⟩
theorem cfgOK_none : CfgOK none ⟨4, .btree⟩ := ⟨pfOK_none, by decide, by decide⟩

/-- packed elements (4 per leaf), depth 1, five elements. -/
def exTree : Tree Nat := .node 0 (.packed 1 [1, 2, 3, 4]) (.packed 2 [5])
def exHeap : Heap Nat := ⟨#[0, 0, 0]⟩

/-- erased result of a tree operation. -/
def shapeOf (r : Except Err (Tree Nat × Heap Nat)) : Option (Shape Nat) :=
  match r with
  | .ok (t, _) => some t.erase
  | .error _ => none

-- hypotheses of `updLeaf_canon` on a concrete input (overwrite at 1, append at 5)
example : exTree.erase = canon (some 4) 1 [1, 2, 3, 4, 5] ∧ [1, 2, 3, 4, 5].length ≤ cap (some 4) 1 ∧
    1 ≤ [1, 2, 3, 4, 5].length ∧ 5 ≤ [1, 2, 3, 4, 5].length ∧ 5 < cap (some 4) 1 := by decide

example : ∃ t' h', updLeaf (some 4) 0 5 60 exHeap exTree 1 = .ok (t', h') ∧
    t'.erase = canon (some 4) 1 [1, 2, 3, 4, 5, 60] ∧ exHeap.next ≤ h'.next ∧
    h'.next ≤ exHeap.next + (3 * 1 + 3) :=
  updLeaf_canon (some 4) pfOK_four 0 5 60 exHeap exTree 1 [1, 2, 3, 4, 5] (by decide) (by decide)
    (by decide) (by decide)

-- the same runs, evaluated
example : shapeOf (updLeaf (some 4) 0 5 60 exHeap exTree 1) =
    some (canon (some 4) 1 [1, 2, 3, 4, 5, 60]) := by decide
example : shapeOf (updLeaf (some 4) 0 1 20 exHeap exTree 1) =
    some (canon (some 4) 1 [1, 20, 3, 4, 5]) := by decide
-- splitting `zero` nodes on the way down (unpacked, depth 2, append at index 1)
example : shapeOf (updLeaf none 0 1 7 exHeap (.node 0 (.node 1 (.leaf 2 1) (.zero 3 0)) (.zero 4 1)) 2)
    = some (canon none 2 [1, 7]) := by decide
-- only the low bits of the index are used (`updLeaf_canon_wraps`): index 13 = 8 + 5
example : shapeOf (updLeaf (some 4) 0 13 60 exHeap exTree 1) =
    some (canon (some 4) 1 [1, 2, 3, 4, 5, 60]) := by decide
-- an index beyond the end of the contents is rejected at the packed leaf
example : shapeOf (updLeaf (some 4) 0 7 60 exHeap exTree 1) = none := by decide

-- `C17_one_at_a_time` and `C17_builder_eq_one_at_a_time`
example : [10, 20, 30, 40, 50].length ≤ cap (some 4) 2 ∧ 2 + pdOf (some 4) ≤ 63 := by decide
example : ∃ t' h', insertSeq (some 4) (0 : Nat) 2 [10, 20, 30, 40, 50] 0 (.zero 0 2) exHeap = .ok (t', h') ∧
    t'.erase = canon (some 4) 2 [10, 20, 30, 40, 50] ∧ exHeap.next ≤ h'.next ∧
    h'.next ≤ exHeap.next + [10, 20, 30, 40, 50].length * (3 * 2 + 3) :=
  C17_one_at_a_time (some 4) pfOK_four 0 2 [10, 20, 30, 40, 50] (by decide) 0 exHeap
example : shapeOf (insertSeq (some 4) 0 2 [10, 20, 30, 40, 50] 0 (.zero 0 2) exHeap) =
    some (.node (.node (.packed [10, 20, 30, 40]) (.packed [50])) (.zero 1)) := by decide
example : (match runBuilder (some 4) 2 [10, 20, 30, 40, 50] with
    | .ok (s, _, _) => some s
    | .error _ => none) =
    shapeOf (insertSeq (some 4) 0 2 [10, 20, 30, 40, 50] 0 (.zero 0 2) exHeap) := by decide
example : shapeOf (insertSeq none 0 2 [10, 20, 30] 0 (.zero 0 2) exHeap) =
    some (canon none 2 [10, 20, 30]) := by decide

/-- what is observed of a constructed collection (`inl` = error). -/
def obsOf (r : Except Err (Coll Nat × Heap Nat)) :
    Sum Err (CKind × Shape Nat × Nat × Nat × Bool) :=
  match r with
  | .ok (c, _) => .inr (c.kind, c.tree.erase, c.length, c.depth, c.updates.isEmpty)
  | .error e => .inl e

-- `C05_tryFromIterSlow`: accepted (3 ≤ 5, 5 ≤ 5) and rejected (6 > 5) inputs, evaluated
example : obsOf (Coll.tryFromIterSlow (some 4) 0 ⟨5, .maxvec⟩ [1, 2, 3] Heap.empty) =
    .inr (.list, canon (some 4) 1 [1, 2, 3], 3, 1, true) := by decide
example : obsOf (Coll.tryFromIterSlow (some 4) 0 ⟨5, .btree⟩ [1, 2, 3, 4, 5] Heap.empty) =
    obsOf (Coll.tryFromIter (some 4) 0 ⟨5, .btree⟩ [1, 2, 3, 4, 5] Heap.empty) := by decide
example : obsOf (Coll.tryFromIterSlow (some 4) 0 ⟨5, .vec⟩ [1, 2, 3, 4, 5, 6] Heap.empty) =
    .inl (.listFull 5) := by decide
example : obsOf (Coll.tryFromIterSlow none 0 ⟨4, .maxvec⟩ [] Heap.empty) =
    .inr (.list, canon none 2 [], 0, 2, true) := by decide
-- the premise `CollInv` of the three `CollOps` facts is satisfiable (`List::empty`)
example : CollInv (some 4) ⟨5, .maxvec⟩ (Coll.empty (T := Nat) (some 4) (0 : Nat) ⟨5, .maxvec⟩ Heap.empty).1 [] :=
  (C05_empty_collInv (some 4) (0 : Nat) ⟨5, .maxvec⟩ Heap.empty).1

/-- a `List<_, 5>` with backing `[1,2,3,4]` and one pending push. -/
def exListTree : Coll Nat :=
  ⟨.list, .node 0 (.packed 1 [1, 2, 3, 4]) (.zero 2 0), 4, 1, (UMap.empty .maxvec).insert 4 5⟩

theorem exListTree_inv : CollInv (some 4) ⟨5, .maxvec⟩ exListTree [1, 2, 3, 4] where
  shape := by decide
  len := rfl
  depth := by decide
  bound := by show [1, 2, 3, 4].length ≤ 5; decide
  mapKind := rfl
  wf := trivial
  keys := by
    intro k v hkv
    have e : exListTree.updates.entries = [(4, 5)] := by decide
    rw [e] at hkv; simp at hkv; show k < 5; omega
  contiguous := by decide
  maxRel := by
    show UMap.MaxRel (.maxvec [none, none, none, none, some 5] 4) 4
    refine ⟨?_, Or.inr (by decide)⟩
    intro k hk
    by_cases h4 : k ≤ 4
    · exact Or.inl h4
    · exfalso
      have : ([none, none, none, none, some 5] : List (Option Nat))[k]? = none :=
        List.getElem?_eq_none (by simp; omega)
      simp only [UMap.get, this] at hk
      cases hk

-- `C05_toVector`: its premises on a concrete list with a pending push, and the evaluated run
example : CollInv (some 4) ⟨5, .maxvec⟩ exListTree [1, 2, 3, 4] ∧
    (Coll.view [1, 2, 3, 4] exListTree).length = 5 := ⟨exListTree_inv, by decide⟩
example : obsOf (Coll.toVector (some 4) 0 ⟨5, .maxvec⟩ exListTree exHeap) =
    .inr (.vector, canon (some 4) 1 [1, 2, 3, 4, 5], 5, 1, true) := by decide
-- `C05_toVector_rejects`: the same list for `N = 8` shows 5 ≠ 8 elements
example : obsOf (Coll.toVector (some 4) 0 ⟨8, .maxvec⟩ exListTree exHeap) =
    .inl (.wrongVectorLength 5 8) := by decide
-- `C05_toList` on the vector just obtained
example : (match Coll.toVector (some 4) (0 : Nat) ⟨5, .maxvec⟩ exListTree exHeap with
    | .ok (v, _) => some ((Coll.toList ⟨5, .maxvec⟩ v).kind, (Coll.toList ⟨5, .maxvec⟩ v).length,
        (Coll.toList ⟨5, .maxvec⟩ v).tree.erase)
    | .error _ => none) = some (.list, 5, canon (some 4) 1 [1, 2, 3, 4, 5]) := by decide

-- `C05_vectorNew`, `C05_vectorFromIter` instantiated (`CfgOK` holds, lengths 5 = 5, 3 ≠ 5, 6 > 5)
example : ∃ c h', Coll.vectorNew (some 4) (0 : Nat) ⟨5, .maxvec⟩ [1, 2, 3, 4, 5] Heap.empty = .ok (c, h') ∧
    c.kind = .vector ∧ CollInv (some 4) ⟨5, .maxvec⟩ c [1, 2, 3, 4, 5] ∧ c.updates = UMap.empty .maxvec :=
  (C05_vectorNew (some 4) (0 : Nat) ⟨5, .maxvec⟩ cfgOK_four [1, 2, 3, 4, 5] Heap.empty).1 rfl
example : Coll.vectorNew (some 4) (0 : Nat) ⟨5, .maxvec⟩ [1, 2, 3] Heap.empty =
    .error (.wrongVectorLength 3 5) :=
  (C05_vectorNew (some 4) (0 : Nat) ⟨5, .maxvec⟩ cfgOK_four [1, 2, 3] Heap.empty).2 (by decide)
example : Coll.vectorFromIter (some 4) (0 : Nat) ⟨5, .maxvec⟩ [1, 2, 3] Heap.empty =
    .error (.wrongVectorLength 3 5) :=
  (C05_vectorFromIter (some 4) (0 : Nat) ⟨5, .maxvec⟩ cfgOK_four [1, 2, 3] Heap.empty).2.1 (by decide)
example : Coll.vectorFromIter (some 4) (0 : Nat) ⟨5, .maxvec⟩ [1, 2, 3, 4, 5, 6] Heap.empty =
    .error .builderFull :=
  (C05_vectorFromIter (some 4) (0 : Nat) ⟨5, .maxvec⟩ cfgOK_four [1, 2, 3, 4, 5, 6] Heap.empty).2.2
    (by decide)
example : obsOf (Coll.vectorFromIter (some 4) 0 ⟨5, .maxvec⟩ [1, 2, 3, 4, 5] Heap.empty) =
    .inr (.vector, canon (some 4) 1 [1, 2, 3, 4, 5], 5, 1, true) := by decide

-- the theorems with the `CollOps` facts discharged, instantiated
example : ∃ c' h', Coll.toVector (some 4) (0 : Nat) ⟨5, .maxvec⟩ exListTree exHeap = .ok (c', h') ∧
    c'.kind = .vector ∧ CollInv (some 4) ⟨5, .maxvec⟩ c' (Coll.view [1, 2, 3, 4] exListTree) := by
  obtain ⟨c', h', e, hk, I, _⟩ := C05_toVector (some 4) (0 : Nat) ⟨5, .maxvec⟩ cfgOK_four exListTree
    [1, 2, 3, 4] exListTree_inv (by decide) exHeap
  exact ⟨c', h', e, hk, I⟩
example : Coll.toVector (some 4) (0 : Nat) ⟨5, .maxvec⟩
      (Coll.empty (T := Nat) (some 4) (0 : Nat) ⟨5, .maxvec⟩ Heap.empty).1 exHeap =
    .error (.wrongVectorLength 0 5) :=
  C05_toVector_rejects (some 4) (0 : Nat) ⟨5, .maxvec⟩ _ []
    (C05_empty_collInv (some 4) (0 : Nat) ⟨5, .maxvec⟩ Heap.empty).1 (by decide) exHeap
example : ∃ c h', Coll.tryFromIterSlow (some 4) (0 : Nat) ⟨5, .maxvec⟩ [1, 2, 3] Heap.empty = .ok (c, h') ∧
    CollInv (some 4) ⟨5, .maxvec⟩ c [1, 2, 3] ∧ c.updates = UMap.empty .maxvec ∧ c.kind = .list :=
  (C05_tryFromIterSlow (some 4) (0 : Nat) ⟨5, .maxvec⟩ cfgOK_four [1, 2, 3] Heap.empty).1 (by decide)
example : Coll.tryFromIterSlow (some 4) (0 : Nat) ⟨5, .maxvec⟩ [1, 2, 3, 4, 5, 6] Heap.empty =
    .error (.listFull 5) :=
  (C05_tryFromIterSlow (some 4) (0 : Nat) ⟨5, .maxvec⟩ cfgOK_four [1, 2, 3, 4, 5, 6] Heap.empty).2
    (by decide)
example : ∃ v c1 h1 c2 h2', exListTree.toVec (some 4) = .ok v ∧
    Coll.applyUpdates (some 4) (0 : Nat) ⟨5, .maxvec⟩ exListTree exHeap = (.ok (), c1, h1) ∧
    serdeDe .list (some 4) (0 : Nat) ⟨5, .maxvec⟩ v exHeap = .ok (c2, h2') ∧ Coll.beq c2 c1 = true := by
  obtain ⟨v, c1, h1, c2, h2', a, _, b, c, _, _, _, _, d⟩ :=
    C13_roundtrip (some 4) (0 : Nat) ⟨5, .maxvec⟩ cfgOK_four exListTree [1, 2, 3, 4] exListTree_inv
      (fun h => absurd h (by decide)) exHeap exHeap
  exact ⟨v, c1, h1, c2, h2', a, b, c, d⟩

-- C13: premises of `C13_roundtrip` on the concrete list (`toVec` shows the view; the map is normal)
example : exListTree.toVec (some 4) = .ok (Coll.view [1, 2, 3, 4] exListTree) ∧
    (exListTree.updates.isEmpty = true → exListTree.updates = UMap.empty .maxvec) :=
  ⟨rfl, fun h => absurd h (by decide)⟩
-- and its conclusion, evaluated: deserialising what was serialised equals the flushed original
example : (match exListTree.toVec (some 4), Coll.applyUpdates (some 4) (0 : Nat) ⟨5, .maxvec⟩ exListTree exHeap with
    | .ok v, (.ok (), c1, _) =>
      (match serdeDe .list (some 4) (0 : Nat) ⟨5, .maxvec⟩ v exHeap with
       | .ok (c2, _) => Coll.beq c2 c1
       | .error _ => false)
    | _, _ => false) = true := by decide
example : serdeDe .list (some 4) (0 : Nat) ⟨5, .maxvec⟩ [1, 2, 3, 4, 5, 6] Heap.empty = .error .ssz :=
  (C13_rejects (some 4) (0 : Nat) ⟨5, .maxvec⟩ cfgOK_four [1, 2, 3, 4, 5, 6] Heap.empty).1 (by decide)
example : serdeDe .vector (some 4) (0 : Nat) ⟨5, .maxvec⟩ [1, 2, 3, 4] Heap.empty = .error .ssz :=
  (C13_rejects (some 4) (0 : Nat) ⟨5, .maxvec⟩ cfgOK_four [1, 2, 3, 4] Heap.empty).2 (by decide)

-- C12 with the variable-size codec of `Proofs/Ssz.lean` (`N = 4` list, `N = 3` vector)
theorem cfgOK_var4 : CfgOK sszExVar.pf ⟨4, .btree⟩ := ⟨pfOK_none, by decide, by decide⟩
theorem cfgOK_var3 : CfgOK sszExVar.pf ⟨3, .btree⟩ := ⟨pfOK_none, by decide, by decide⟩

example : sszExV.length ≤ 4 ∧ (sszEncode sszExVar sszExV).length < 2 ^ 32 := by decide

example : ∃ c h', sszDecodeList sszExVar () ⟨4, .btree⟩ (sszEncode sszExVar sszExV) Heap.empty = .ok (c, h') ∧
    CollInv sszExVar.pf ⟨4, .btree⟩ c sszExV ∧ c.updates = UMap.empty .btree ∧ c.kind = .list :=
  C12_list_roundtrip sszExVar_ok () ⟨4, .btree⟩ cfgOK_var4 sszExV (by decide) (by decide) Heap.empty

/-- the premise of `C12_list_strict` holds for the bytes `[12,0,0,0,15,0,0,0,15,0,0,0,1,2,3,9]`,
and the conclusion says they re-encode to themselves. -/
example : ∃ xs, sszEncode sszExVar xs = [12, 0, 0, 0, 15, 0, 0, 0, 15, 0, 0, 0, 1, 2, 3, 9] ∧
    xs.length ≤ 4 := by
  obtain ⟨c, h', e, _⟩ := C12_list_roundtrip sszExVar_ok () ⟨4, .btree⟩ cfgOK_var4 sszExV
    (by decide) (by decide) Heap.empty
  have hb : sszEncode sszExVar sszExV = [12, 0, 0, 0, 15, 0, 0, 0, 15, 0, 0, 0, 1, 2, 3, 9] := by
    decide
  rw [hb] at e
  obtain ⟨xs, h1, h2, _⟩ := C12_list_strict sszExVar_ok () ⟨4, .btree⟩ cfgOK_var4 _ _ c h' e
  exact ⟨xs, h1, h2⟩

example : ∃ c h', sszDecodeVector sszExVar () ⟨3, .btree⟩ (sszEncode sszExVar sszExV) Heap.empty = .ok (c, h') ∧
    CollInv sszExVar.pf ⟨3, .btree⟩ c sszExV ∧ c.updates = UMap.empty .btree ∧ c.kind = .vector :=
  C12_vector_roundtrip sszExVar_ok () ⟨3, .btree⟩ cfgOK_var3 sszExV (by decide) (by decide) Heap.empty

example : ∃ xs, sszEncode sszExVar xs = sszEncode sszExVar sszExV ∧ xs.length = 3 := by
  obtain ⟨c, h', e, _⟩ := C12_vector_roundtrip sszExVar_ok () ⟨3, .btree⟩ cfgOK_var3 sszExV
    (by decide) (by decide) Heap.empty
  obtain ⟨xs, h1, h2, _⟩ := C12_vector_strict sszExVar_ok () ⟨3, .btree⟩ cfgOK_var3 _ _ c h' e
  exact ⟨xs, h1, h2⟩

example : sszDecodeVector sszExVar () ⟨4, .btree⟩ (sszEncode sszExVar sszExV) Heap.empty = .error .ssz :=
  C12_vector_rejects_length sszExVar_ok () ⟨4, .btree⟩ cfgOK_var4 sszExV (by decide) (by decide)
    Heap.empty

end ConvertExample

end Milhouse
