import Milhouse.Proofs.Inv
import Milhouse.Proofs.Rebase
import Milhouse.Proofs.Intra
import Milhouse.Proofs.Merkle
import Milhouse.Model.Ssz
/-!
# The registry invariant is established and preserved by every allocating operation

`HeapOK E A f h ∧ every live tree Registered f` is an invariant of every operation of the model:
each allocation extends the registry by the node just built (`Ext`), with the zero memo.
This is the allocation / identity half of C03, C04 and C10.

* `RegPost E A f h t' h'`, `RegPost.refl/trans/keeps/toIExt`, `Registered.of_subtree`.
* 1. `alloc_leaf_ok`, `alloc_packed_ok`, `alloc_zero_ok`, `alloc_transient_ok` (+ `reg_alloc_gen`).
* 2. `updLeaf_reg`, `updLeaves_reg`.
* 3. Builder. `StackReg`; `finish_reg`, `pushNode_reg` as expected. `push` mutates the `Unarced`
  packed leaf on top of the stack in place, so `push_reg`/`pushAll_reg`/`popFeed_reg` with
  `StackReg` + `Ext` only hold for unpacked kinds (`b.pf = none`; `push_reg_counterexample`).
  The general forms use the pending-aware invariant `PStackReg` and the relation `ExtA lo`
  (`push_preg`, `pushNode_preg`, `pushAll_preg`, `popFeed_preg`, `finish_preg`); a whole builder
  run is again an `Ext` step from the state in which the builder was created
  (`builder_run_regPost`, `Ext.transA`, `ExtA.toExt`).
* 4. `repeatTree_reg`.
* 5. `empty_reg`, `tryFromIter_reg`, `tryFromIterSlow_reg`, `repeat_reg`, `vectorNew_reg`,
  `vectorFromIter_reg`, `vectorFromElem_reg`, `applyUpdates_reg` (both outcomes), `toVector_reg`,
  `toList_reg`, `popFront_reg` (all outcomes), `popFrontSlow_reg`, `sszDecodeList_reg`,
  `sszDecodeVector_reg`; `levelIter_next_inv`, `levelIter_collect_inv`, `levelIterFrom_subtrees`;
  `reg_push_tree`, `reg_getMutSet_tree`, `reg_getCow_tree`, `reg_bulkUpdate_tree` (the tree is not touched).
* 6. `IExt_of_Ext`.
-/
namespace Milhouse
variable {T H : Type}

/-- the post-condition of an allocating call: some extension of the registry (agreeing with `f`
and leaving every memo below `h.next` untouched) validates the new heap and registers `t'`. -/
def RegPost (E : Elem T H) (A : HashAlg H) (f : Registry T) (h : Heap H) (t' : Tree T)
    (h' : Heap H) : Prop :=
  ∃ f', Ext A.zero f h f' h' ∧ HeapOK E A f' h' ∧ Registered f' t'

/-! ## Subtrees -/

theorem Tree.reg_subtrees_trans {s t u : Tree T} (hs : s ∈ t.subtrees) (hu : u ∈ s.subtrees) :
    u ∈ t.subtrees := by
  induction t with
  | node id l r ihl ihr =>
    simp only [Tree.subtrees, List.mem_cons, List.mem_append] at hs ⊢
    rcases hs with rfl | hs | hs
    · simpa only [Tree.subtrees, List.mem_cons, List.mem_append] using hu
    · exact Or.inr (Or.inl (ihl hs))
    · exact Or.inr (Or.inr (ihr hs))
  | leaf id v => simp only [Tree.subtrees, List.mem_singleton] at hs; subst hs; exact hu
  | packed id vs => simp only [Tree.subtrees, List.mem_singleton] at hs; subst hs; exact hu
  | zero id d => simp only [Tree.subtrees, List.mem_singleton] at hs; subst hs; exact hu

/-- a subtree of a registered tree is registered. -/
theorem Registered.of_subtree {f : Registry T} {t s : Tree T} (h : Registered f t)
    (hs : s ∈ t.subtrees) : Registered f s :=
  fun u hu => h u (Tree.reg_subtrees_trans hs hu)

theorem Tree.reg_left_mem_subtrees (id : Nat) (l r : Tree T) : l ∈ (Tree.node id l r).subtrees := by
  simp only [Tree.subtrees, List.mem_cons, List.mem_append]
  exact Or.inr (Or.inl l.self_mem_subtrees)

theorem Tree.reg_right_mem_subtrees (id : Nat) (l r : Tree T) : r ∈ (Tree.node id l r).subtrees := by
  simp only [Tree.subtrees, List.mem_cons, List.mem_append]
  exact Or.inr (Or.inr r.self_mem_subtrees)

/-! ## `RegPost`: basic rules -/

theorem RegPost.refl {E : Elem T H} {A : HashAlg H} {f : Registry T} {h : Heap H} {t : Tree T}
    (hok : HeapOK E A f h) (ht : Registered f t) : RegPost E A f h t h :=
  ⟨f, Ext.refl _ _ _, hok, ht⟩

/-- Everything registered before stays registered (and, by `Ext.read`, keeps its memo). -/
theorem RegPost.keeps {E : Elem T H} {A : HashAlg H} {f : Registry T} {h h' : Heap H}
    {t' : Tree T} (hok : HeapOK E A f h) (hp : RegPost E A f h t' h') :
    ∃ f', Ext A.zero f h f' h' ∧ HeapOK E A f' h' ∧ Registered f' t' ∧
      (∀ s, Registered f s → Registered f' s) ∧
      (∀ i, i < h.next → h'.read A.zero i = h.read A.zero i) := by
  obtain ⟨f', x, ok', r'⟩ := hp
  exact ⟨f', x, ok', r', fun s hs => hs.ext hok x, x.read⟩

/-- sequencing: a step from `(f, h)` followed by a step from the intermediate state. -/
theorem RegPost.trans {E : Elem T H} {A : HashAlg H} {f : Registry T} {h h1 h2 : Heap H}
    {t1 t2 : Tree T} (hp : RegPost E A f h t1 h1)
    (hq : ∀ f1, Ext A.zero f h f1 h1 → HeapOK E A f1 h1 → Registered f1 t1 →
      RegPost E A f1 h1 t2 h2) : RegPost E A f h t2 h2 := by
  obtain ⟨f1, x1, ok1, r1⟩ := hp
  obtain ⟨f2, x2, ok2, r2⟩ := hq f1 x1 ok1 r1
  exact ⟨f2, x1.trans x2, ok2, r2⟩

/-! ## 1. Primitive allocation steps -/

/-- the generic allocation step: the new node's proper subtrees are registered. -/
theorem reg_alloc_gen {E : Elem T H} {A : HashAlg H} {f : Registry T} {h : Heap H}
    (hok : HeapOK E A f h) (t : Tree T) (hid : t.id = h.next)
    (hsub : ∀ s ∈ t.subtrees, s = t ∨ f s.id = some s) (m : H)
    (hm : m = A.zero ∨ m = trueHash E A t) :
    ∃ f', Ext A.zero f h f' (h.alloc m).2 ∧ HeapOK E A f' (h.alloc m).2 ∧ Registered f' t := by
  refine ⟨fun i => if i = h.next then some t else f i, ?_, ?_, ?_⟩
  · refine ⟨by rw [Heap.next_alloc]; omega, ?_, ?_⟩
    · intro i hi; simp [Nat.ne_of_lt hi]
    · intro i hi; exact Heap.read_alloc_old h _ m i hi
  · constructor
    · intro id s hs
      rw [Heap.next_alloc]
      by_cases hid' : id = h.next
      · omega
      · simp only [hid', if_false] at hs
        have := hok.bound id s hs; omega
    · intro id s hs
      by_cases hid' : id = h.next
      · simp only [hid', if_true, Option.some.injEq] at hs
        subst hs
        have := Heap.read_alloc_new h A.zero m
        rw [Heap.alloc_fst] at this
        rw [hid', this]; exact hm
      · simp only [hid', if_false] at hs
        have hb := hok.bound id s hs
        rw [Heap.read_alloc_old h _ m id hb]
        exact hok.memo id s hs
  · intro s hs
    rcases hsub s hs with rfl | hf
    · simp [hid]
    · have hb := hok.bound _ _ hf
      simp only [Nat.ne_of_lt hb, if_false]; exact hf

/-- `Arc::new(Leaf { hash: m, value: v })`. -/
theorem alloc_leaf_ok {E : Elem T H} {A : HashAlg H} {f : Registry T} {h : Heap H}
    (hok : HeapOK E A f h) (v : T) (m : H)
    (hm : m = A.zero ∨ m = trueHash E A (.leaf h.next v)) :
    ∃ f', Ext A.zero f h f' (h.alloc m).2 ∧ HeapOK E A f' (h.alloc m).2 ∧
      Registered f' (.leaf h.next v) :=
  reg_alloc_gen hok _ rfl (by intro s hs; left; simpa [Tree.subtrees] using hs) m hm

/-- `Arc::new(PackedLeaf { hash: m, values: vs })`. -/
theorem alloc_packed_ok {E : Elem T H} {A : HashAlg H} {f : Registry T} {h : Heap H}
    (hok : HeapOK E A f h) (vs : List T) (m : H)
    (hm : m = A.zero ∨ m = trueHash E A (.packed h.next vs)) :
    ∃ f', Ext A.zero f h f' (h.alloc m).2 ∧ HeapOK E A f' (h.alloc m).2 ∧
      Registered f' (.packed h.next vs) :=
  reg_alloc_gen hok _ rfl (by intro s hs; left; simpa [Tree.subtrees] using hs) m hm

/-- `Arc::new(Zero(d))` (a zero node has no memo cell in the Rust; the model gives it one). -/
theorem alloc_zero_ok {E : Elem T H} {A : HashAlg H} {f : Registry T} {h : Heap H}
    (hok : HeapOK E A f h) (d : Nat) (m : H)
    (hm : m = A.zero ∨ m = trueHash E A (.zero h.next d : Tree T)) :
    ∃ f', Ext A.zero f h f' (h.alloc m).2 ∧ HeapOK E A f' (h.alloc m).2 ∧
      Registered f' (.zero h.next d) :=
  reg_alloc_gen hok _ rfl (by intro s hs; left; simpa [Tree.subtrees] using hs) m hm

/-- a transient allocation: the id is allocated and never used, the registry is unchanged. -/
theorem alloc_transient_ok {E : Elem T H} {A : HashAlg H} {f : Registry T} {h : Heap H}
    (hok : HeapOK E A f h) (m : H) :
    Ext A.zero f h f (h.alloc m).2 ∧ HeapOK E A f (h.alloc m).2 := by
  refine ⟨⟨by rw [Heap.next_alloc]; omega, fun _ _ => rfl,
    fun i hi => Heap.read_alloc_old h _ m i hi⟩, ?_, ?_⟩
  · intro id s hs
    rw [Heap.next_alloc]
    have := hok.bound id s hs; omega
  · intro id s hs
    rw [Heap.read_alloc_old h _ m id (hok.bound id s hs)]
    exact hok.memo id s hs

/-! `RegPost` forms with the zero memo, as the model uses them. -/

theorem reg_leaf {E : Elem T H} {A : HashAlg H} {f : Registry T} {h : Heap H}
    (hok : HeapOK E A f h) (v : T) :
    RegPost E A f h (.leaf (h.alloc A.zero).1 v) (h.alloc A.zero).2 :=
  alloc_leaf_ok hok v A.zero (Or.inl rfl)

theorem reg_packed {E : Elem T H} {A : HashAlg H} {f : Registry T} {h : Heap H}
    (hok : HeapOK E A f h) (vs : List T) :
    RegPost E A f h (.packed (h.alloc A.zero).1 vs) (h.alloc A.zero).2 :=
  alloc_packed_ok hok vs A.zero (Or.inl rfl)

theorem reg_zero {E : Elem T H} {A : HashAlg H} {f : Registry T} {h : Heap H}
    (hok : HeapOK E A f h) (d : Nat) :
    RegPost E A f h (.zero (h.alloc A.zero).1 d) (h.alloc A.zero).2 :=
  alloc_zero_ok hok d A.zero (Or.inl rfl)

theorem reg_node {E : Elem T H} {A : HashAlg H} {f : Registry T} {h : Heap H}
    (hok : HeapOK E A f h) {l r : Tree T} (hl : Registered f l) (hr : Registered f r) :
    RegPost E A f h (.node (h.alloc A.zero).1 l r) (h.alloc A.zero).2 :=
  alloc_node_ok hok l r hl hr A.zero (Or.inl rfl)

/-- after a step, allocate a node over two trees registered after the step. -/
theorem RegPost.then_node {E : Elem T H} {A : HashAlg H} {f : Registry T} {h h1 : Heap H}
    {t1 l r : Tree T} (hp : RegPost E A f h t1 h1)
    (hl : ∀ f1, Ext A.zero f h f1 h1 → HeapOK E A f1 h1 → Registered f1 t1 → Registered f1 l)
    (hr : ∀ f1, Ext A.zero f h f1 h1 → HeapOK E A f1 h1 → Registered f1 t1 → Registered f1 r) :
    RegPost E A f h (.node (h1.alloc A.zero).1 l r) (h1.alloc A.zero).2 :=
  hp.trans fun f1 x1 ok1 r1 => reg_node ok1 (hl f1 x1 ok1 r1) (hr f1 x1 ok1 r1)

/-! ## 2. `updLeaf`, `updLeaves` -/

theorem updLeaf_reg (E : Elem T H) (A : HashAlg H) (pf : Option Nat) (i : Nat) (x : T) :
    ∀ (d : Nat) (f : Registry T) (h : Heap H) (t t' : Tree T) (h' : Heap H),
      HeapOK E A f h → Registered f t →
      updLeaf pf A.zero i x h t d = .ok (t', h') → RegPost E A f h t' h' := by
  intro d
  induction d with
  | zero =>
    intro f h t t' h' hok hr he
    cases t with
    | leaf id v =>
      simp only [updLeaf, Except.ok.injEq, Prod.mk.injEq] at he
      obtain ⟨rfl, rfl⟩ := he
      exact reg_leaf hok x
    | packed id vs =>
      simp only [updLeaf] at he
      split at he
      · simp only [Except.ok.injEq, Prod.mk.injEq] at he
        obtain ⟨rfl, rfl⟩ := he
        exact reg_packed hok _
      · cases he
    | node id l r => simp [updLeaf] at he
    | zero id zd =>
      simp only [updLeaf] at he
      split at he
      · cases pf with
        | none =>
          simp only [Except.ok.injEq, Prod.mk.injEq] at he
          obtain ⟨rfl, rfl⟩ := he
          exact reg_leaf hok x
        | some p =>
          simp only [Except.ok.injEq, Prod.mk.injEq] at he
          obtain ⟨rfl, rfl⟩ := he
          exact reg_packed hok _
      · cases he
  | succ d ih =>
    intro f h t t' h' hok hr he
    cases t with
    | leaf id v => simp [updLeaf] at he
    | packed id vs => simp [updLeaf] at he
    | node id l r =>
      simp only [updLeaf] at he
      split at he
      · split at he
        · rename_i l' h1 e1
          simp only [Except.ok.injEq, Prod.mk.injEq] at he
          obtain ⟨rfl, rfl⟩ := he
          exact (ih f h l l' h1 hok hr.node_left e1).then_node (fun _ _ _ r1 => r1)
            (fun _ x1 _ _ => hr.node_right.ext hok x1)
        · cases he
      · split at he
        · rename_i r' h1 e1
          simp only [Except.ok.injEq, Prod.mk.injEq] at he
          obtain ⟨rfl, rfl⟩ := he
          exact (ih f h r r' h1 hok hr.node_right e1).then_node
            (fun _ x1 _ _ => hr.node_left.ext hok x1) (fun _ _ _ r1 => r1)
        · cases he
    | zero id zd =>
      simp only [updLeaf] at he
      split at he
      · -- the shared fresh `zero` child and the transient node
        obtain ⟨f1, x1, ok1, rz⟩ := reg_zero (E := E) hok d
        obtain ⟨x2, ok2⟩ := alloc_transient_ok ok1 A.zero
        have rz2 := rz.ext ok1 x2
        have x02 := x1.trans x2
        split at he
        · split at he
          · rename_i l' h3 e3
            simp only [Except.ok.injEq, Prod.mk.injEq] at he
            obtain ⟨rfl, rfl⟩ := he
            obtain ⟨f4, x4, ok4, r4⟩ := (ih f1 _ _ l' h3 ok2 rz2 e3).then_node
              (fun _ _ _ r1 => r1) (fun _ x3 _ _ => rz2.ext ok2 x3)
            exact ⟨f4, x02.trans x4, ok4, r4⟩
          · cases he
        · split at he
          · rename_i r' h3 e3
            simp only [Except.ok.injEq, Prod.mk.injEq] at he
            obtain ⟨rfl, rfl⟩ := he
            obtain ⟨f4, x4, ok4, r4⟩ := (ih f1 _ _ r' h3 ok2 rz2 e3).then_node
              (fun _ x3 _ _ => rz2.ext ok2 x3) (fun _ _ _ r1 => r1)
            exact ⟨f4, x02.trans x4, ok4, r4⟩
          · cases he
      · cases he

/-- the shape shared by the `node` and the zero-splitting case of `updLeaves`: optionally rebuild
the left child, optionally the right child, allocate the parent. -/
theorem reg_updLeaves_node {E : Elem T H} {A : HashAlg H} {f : Registry T} {h h' : Heap H}
    {l r t' : Tree T} (cl cr : Bool) (L R : Heap H → Except Err (Tree T × Heap H))
    (hok : HeapOK E A f h) (hl : Registered f l) (hr : Registered f r)
    (hL : ∀ f1 h1 t1 h2, HeapOK E A f1 h1 → Registered f1 l → L h1 = .ok (t1, h2) →
      RegPost E A f1 h1 t1 h2)
    (hR : ∀ f1 h1 t1 h2, HeapOK E A f1 h1 → Registered f1 r → R h1 = .ok (t1, h2) →
      RegPost E A f1 h1 t1 h2)
    (he : (match (if cl then L h else .ok (l, h) : Except Err (Tree T × Heap H)) with
      | .error e => .error e
      | .ok (l', h1) =>
        match (if cr then R h1 else .ok (r, h1) : Except Err (Tree T × Heap H)) with
        | .error e => .error e
        | .ok (r', h2) => .ok (Tree.node (h2.alloc A.zero).1 l' r', (h2.alloc A.zero).2)) =
      (.ok (t', h') : Except Err (Tree T × Heap H))) :
    RegPost E A f h t' h' := by
  split at he
  · cases he
  · rename_i l' h1 e1
    have p1 : RegPost E A f h l' h1 := by
      cases cl with
      | true => exact hL f h l' h1 hok hl (by simpa using e1)
      | false =>
        simp only [Bool.false_eq_true, if_false, Except.ok.injEq, Prod.mk.injEq] at e1
        obtain ⟨rfl, rfl⟩ := e1
        exact RegPost.refl hok hl
    obtain ⟨f1, x1, ok1, r1⟩ := p1
    split at he
    · cases he
    · rename_i r' h2 e2
      simp only [Except.ok.injEq, Prod.mk.injEq] at he
      obtain ⟨rfl, rfl⟩ := he
      have hr1 := hr.ext hok x1
      have p2 : RegPost E A f1 h1 r' h2 := by
        cases cr with
        | true => exact hR f1 h1 r' h2 ok1 hr1 (by simpa using e2)
        | false =>
          simp only [Bool.false_eq_true, if_false, Except.ok.injEq, Prod.mk.injEq] at e2
          obtain ⟨rfl, rfl⟩ := e2
          exact RegPost.refl ok1 hr1
      obtain ⟨f3, x3, ok3, r3⟩ := p2.then_node (l := l') (r := r')
        (fun _ x2 _ _ => r1.ext ok1 x2) (fun _ _ _ r2 => r2)
      exact ⟨f3, x1.trans x3, ok3, r3⟩

theorem updLeaves_reg (E : Elem T H) (A : HashAlg H) (pf : Option Nat) (m : UMap T) :
    ∀ (d : Nat) (f : Registry T) (h : Heap H) (t : Tree T) (pfx : Nat) (t' : Tree T) (h' : Heap H),
      HeapOK E A f h → Registered f t →
      updLeaves pf A.zero m h t pfx d = .ok (t', h') → RegPost E A f h t' h' := by
  intro d
  induction d with
  | zero =>
    intro f h t pfx t' h' hok hr he
    cases t with
    | leaf id v =>
      simp only [updLeaves] at he
      split at he
      · simp only [Except.ok.injEq, Prod.mk.injEq] at he
        obtain ⟨rfl, rfl⟩ := he
        exact reg_leaf hok _
      · cases he
    | packed id vs =>
      simp only [updLeaves] at he
      split at he
      · simp only [Except.ok.injEq, Prod.mk.injEq] at he
        obtain ⟨rfl, rfl⟩ := he
        exact reg_packed hok _
      · cases he
    | node id l r => simp [updLeaves] at he
    | zero id zd =>
      simp only [updLeaves] at he
      split at he
      · cases pf with
        | none =>
          simp only [] at he
          split at he
          · simp only [Except.ok.injEq, Prod.mk.injEq] at he
            obtain ⟨rfl, rfl⟩ := he
            exact reg_leaf hok _
          · cases he
        | some p =>
          simp only [] at he
          split at he
          · simp only [Except.ok.injEq, Prod.mk.injEq] at he
            obtain ⟨rfl, rfl⟩ := he
            exact reg_packed hok _
          · cases he
      · cases he
  | succ d ih =>
    intro f h t pfx t' h' hok hr he
    cases t with
    | leaf id v => simp [updLeaves] at he
    | packed id vs => simp [updLeaves] at he
    | node id l r =>
      simp only [updLeaves] at he
      split at he
      · cases he
      · exact reg_updLeaves_node _ _ (fun h1 => updLeaves pf A.zero m h1 l pfx d)
          (fun h1 => updLeaves pf A.zero m h1 r (pfx ||| 2 ^ (d + pdOf pf)) d) hok
          hr.node_left hr.node_right
          (fun f1 h1 t1 h2 a b c => ih f1 h1 l _ t1 h2 a b c)
          (fun f1 h1 t1 h2 a b c => ih f1 h1 r _ t1 h2 a b c) he
    | zero id zd =>
      simp only [updLeaves] at he
      split at he
      · obtain ⟨f1, x1, ok1, rz⟩ := reg_zero (E := E) hok d
        obtain ⟨x2, ok2⟩ := alloc_transient_ok ok1 A.zero
        have rz2 := rz.ext ok1 x2
        have x02 := x1.trans x2
        split at he
        · cases he
        · obtain ⟨f4, x4, ok4, r4⟩ := reg_updLeaves_node _ _
            (fun h1 => updLeaves pf A.zero m h1 (.zero (h.alloc A.zero).1 d) pfx d)
            (fun h1 => updLeaves pf A.zero m h1 (.zero (h.alloc A.zero).1 d)
              (pfx ||| 2 ^ (d + pdOf pf)) d) ok2 rz2 rz2
            (fun f1 h1 t1 h2 a b c => ih f1 h1 _ _ t1 h2 a b c)
            (fun f1 h1 t1 h2 a b c => ih f1 h1 _ _ t1 h2 a b c) he
          exact ⟨f4, x02.trans x4, ok4, r4⟩
      · cases he

/-! ## 3. Builder

`Builder::push` grows the `Unarced` packed leaf on top of the stack *in place* (`builder.rs:51`;
in the model: same id, longer value list). Such a leaf is therefore not yet a node of the
registry: it is *pending* (allocated, unregistered, zero memo) until it is buried or merged, at
which point it is registered with its final value. Registering an id below `h.next` is not an
`Ext` step from the state just before, but it is one from the state in which the builder was
created (`lo = h0.next ≤ id`): `ExtA lo` is the relation for the intermediate steps, and
`Ext.transA` brings the result back to `Ext` from the builder's creation.

With `StackReg` alone (every entry registered) `push` does NOT preserve the invariant for packed
kinds: see `push_reg_counterexample` below. -/

/-- every entry of a builder stack is registered. -/
def StackReg {α : Type} (f : Registry T) (st : List (Tree T × α)) : Prop :=
  ∀ p ∈ st, Registered f p.1

theorem StackReg.nil {α : Type} (f : Registry T) : StackReg f ([] : List (Tree T × α)) := by
  intro p hp; cases hp

theorem StackReg.cons_iff {α : Type} {f : Registry T} {p : Tree T × α} {st : List (Tree T × α)} :
    StackReg f (p :: st) ↔ Registered f p.1 ∧ StackReg f st := by
  simp only [StackReg, List.mem_cons, forall_eq_or_imp]

theorem StackReg.ext {α : Type} {E : Elem T H} {A : HashAlg H} {f f' : Registry T} {h h' : Heap H}
    {st : List (Tree T × α)} (hs : StackReg f st) (hok : HeapOK E A f h)
    (e : Ext A.zero f h f' h') : StackReg f' st :=
  fun p hp => (hs p hp).ext hok e

/-- extension that may also register ids in `[lo, h.next)` that were not registered before. -/
structure ExtA (z : H) (lo : Nat) (f : Registry T) (h : Heap H) (f' : Registry T) (h' : Heap H) :
    Prop where
  next_le : h.next ≤ h'.next
  reg : ∀ i, i < lo → f' i = f i
  mono : ∀ i s, f i = some s → f' i = some s
  read : ∀ i, i < h.next → h'.read z i = h.read z i

theorem ExtA.refl (z : H) (lo : Nat) (f : Registry T) (h : Heap H) : ExtA z lo f h f h :=
  ⟨Nat.le_refl _, fun _ _ => rfl, fun _ _ hs => hs, fun _ _ => rfl⟩

theorem ExtA.trans {z : H} {lo : Nat} {f f1 f2 : Registry T} {h h1 h2 : Heap H}
    (a : ExtA z lo f h f1 h1) (b : ExtA z lo f1 h1 f2 h2) : ExtA z lo f h f2 h2 where
  next_le := Nat.le_trans a.next_le b.next_le
  reg := fun i hi => by rw [b.reg i hi, a.reg i hi]
  mono := fun i s hs => b.mono i s (a.mono i s hs)
  read := fun i hi => by rw [b.read i (Nat.lt_of_lt_of_le hi a.next_le), a.read i hi]

/-- an `Ext` step is an `ExtA lo` step for every `lo ≤ h.next`. -/
theorem Ext.toExtA {E : Elem T H} {A : HashAlg H} {f f' : Registry T} {h h' : Heap H}
    (e : Ext A.zero f h f' h') (hok : HeapOK E A f h) {lo : Nat} (hlo : lo ≤ h.next) :
    ExtA A.zero lo f h f' h' where
  next_le := e.next_le
  reg := fun i hi => e.reg i (Nat.lt_of_lt_of_le hi hlo)
  mono := fun i s hs => by rw [e.reg i (hok.bound i s hs)]; exact hs
  read := e.read

/-- `ExtA h.next` is `Ext`. -/
theorem ExtA.toExt {z : H} {f f' : Registry T} {h h' : Heap H} (e : ExtA z h.next f h f' h') :
    Ext z f h f' h' :=
  ⟨e.next_le, e.reg, e.read⟩

/-- seen from the state in which the builder was created, `ExtA` steps are `Ext` steps. -/
theorem Ext.transA {z : H} {f0 f f' : Registry T} {h0 h h' : Heap H}
    (a : Ext z f0 h0 f h) (b : ExtA z h0.next f h f' h') : Ext z f0 h0 f' h' where
  next_le := Nat.le_trans a.next_le b.next_le
  reg := fun i hi => by rw [b.reg i hi, a.reg i hi]
  read := fun i hi => by rw [b.read i (Nat.lt_of_lt_of_le hi a.next_le), a.read i hi]

theorem Registered.extA {z : H} {lo : Nat} {f f' : Registry T} {h h' : Heap H} {t : Tree T}
    (hr : Registered f t) (e : ExtA z lo f h f' h') : Registered f' t :=
  fun s hs => e.mono _ _ (hr s hs)

theorem StackReg.extA {α : Type} {z : H} {lo : Nat} {f f' : Registry T} {h h' : Heap H}
    {st : List (Tree T × α)} (hs : StackReg f st) (e : ExtA z lo f h f' h') : StackReg f' st :=
  fun p hp => (hs p hp).extA e

/-- an allocated, unregistered id with the zero memo. -/
def RegPending (z : H) (f : Registry T) (lo : Nat) (h : Heap H) (id : Nat) : Prop :=
  lo ≤ id ∧ id < h.next ∧ f id = none ∧ h.read z id = z

/-- the builder stack invariant: every entry is registered, except that for a packed kind an
`Unarced` packed leaf on top is pending. -/
def PStackReg (z : H) (f : Registry T) (lo : Nat) (h : Heap H) :
    Option Nat → List (Tree T × Bool) → Prop
  | some _, (.packed id _, true) :: rest => RegPending z f lo h id ∧ StackReg f rest
  | _, st => StackReg f st

def Tree.RegIsNode (t : Tree T) : Prop := ∃ id l r, t = .node id l r

theorem PStackReg.none_iff {z : H} {f : Registry T} {lo : Nat} {h : Heap H}
    {st : List (Tree T × Bool)} : PStackReg z f lo h none st ↔ StackReg f st := by
  simp [PStackReg]

theorem PStackReg.nil_iff {z : H} {f : Registry T} {lo : Nat} {h : Heap H} {pf : Option Nat} :
    PStackReg z f lo h pf ([] : List (Tree T × Bool)) ↔ True := by
  cases pf <;> simp [PStackReg, StackReg]

theorem PStackReg.pending_iff {z : H} {f : Registry T} {lo : Nat} {h : Heap H} {p id : Nat}
    {vs : List T} {rest : List (Tree T × Bool)} :
    PStackReg z f lo h (some p) ((.packed id vs, true) :: rest) ↔
      RegPending z f lo h id ∧ StackReg f rest := by
  simp [PStackReg]

/-- an entry that is `Arced` or an internal node is never pending. -/
theorem PStackReg.of_stackReg {z : H} {f : Registry T} {lo : Nat} {h : Heap H} {pf : Option Nat}
    {t : Tree T} {fl : Bool} {rest : List (Tree T × Bool)}
    (hs : StackReg f ((t, fl) :: rest)) (hn : fl = false ∨ t.RegIsNode) :
    PStackReg z f lo h pf ((t, fl) :: rest) := by
  cases pf with
  | none => exact PStackReg.none_iff.2 hs
  | some p =>
    rcases hn with rfl | ⟨id, l, r, rfl⟩
    · cases t <;> simpa [PStackReg] using hs
    · simpa [PStackReg] using hs

/-- registering the pending leaf (if any) with its current value. -/
theorem PStackReg.settle {E : Elem T H} {A : HashAlg H} {f : Registry T} {lo : Nat} {h : Heap H}
    {pf : Option Nat} {st : List (Tree T × Bool)} (hok : HeapOK E A f h)
    (hs : PStackReg A.zero f lo h pf st) :
    ∃ f', ExtA A.zero lo f h f' h ∧ HeapOK E A f' h ∧ StackReg f' st := by
  by_cases hp : ∃ p id vs rest, pf = some p ∧ st = (Tree.packed id vs, true) :: rest
  · obtain ⟨p, id, vs, rest, rfl, rfl⟩ := hp
    obtain ⟨⟨hlo, hlt, hnone, hread⟩, hrest⟩ := PStackReg.pending_iff.1 hs
    have hne : ∀ i s, f i = some s → i ≠ id := by
      intro i s hfi e; subst e; rw [hnone] at hfi; cases hfi
    refine ⟨fun i => if i = id then some (.packed id vs) else f i, ?_, ?_, ?_⟩
    · refine ⟨Nat.le_refl _, ?_, ?_, fun _ _ => rfl⟩
      · intro i hi; simp [show i ≠ id by omega]
      · intro i s hs; simp [hne i s hs, hs]
    · constructor
      · intro i s hs
        by_cases hi : i = id
        · omega
        · simp only [hi, if_false] at hs; exact hok.bound i s hs
      · intro i s hs
        by_cases hi : i = id
        · left; rw [hi]; exact hread
        · simp only [hi, if_false] at hs; exact hok.memo i s hs
    · rw [StackReg.cons_iff]
      refine ⟨?_, ?_⟩
      · intro s hs
        simp only [Tree.subtrees, List.mem_singleton] at hs
        subst hs; simp [Tree.id]
      · intro q hq s hs
        have := hrest q hq s hs
        simp [hne _ _ this, this]
  · refine ⟨f, ExtA.refl _ _ _ _, hok, ?_⟩
    cases pf with
    | none => exact PStackReg.none_iff.1 hs
    | some p =>
      cases st with
      | nil => exact StackReg.nil f
      | cons q rest =>
        obtain ⟨t, fl⟩ := q
        cases fl with
        | false => cases t <;> simpa [PStackReg] using hs
        | true =>
          cases t with
          | packed id vs => exact absurd ⟨p, id, vs, rest, rfl, rfl⟩ hp
          | leaf id v => simpa [PStackReg] using hs
          | node id l r => simpa [PStackReg] using hs
          | zero id d => simpa [PStackReg] using hs

/-- the merge loop of `push` on registered entries. -/
theorem mergeStrict_reg (E : Elem T H) (A : HashAlg H) :
    ∀ (n : Nat) (f : Registry T) (h : Heap H) (top : Tree T) (st : List (Tree T × Bool))
      (top' : Tree T) (st' : List (Tree T × Bool)) (h' : Heap H),
      HeapOK E A f h → Registered f top → StackReg f st →
      Builder.mergeStrict A.zero n h top st = .ok (top', st', h') →
      ∃ f', Ext A.zero f h f' h' ∧ HeapOK E A f' h' ∧ Registered f' top' ∧ StackReg f' st' ∧
        ((n ≠ 0 ∨ top.RegIsNode) → top'.RegIsNode) := by
  intro n
  induction n with
  | zero =>
    intro f h top st top' st' h' hok ht hs he
    simp only [Builder.mergeStrict, Except.ok.injEq, Prod.mk.injEq] at he
    obtain ⟨rfl, rfl, rfl⟩ := he
    exact ⟨f, Ext.refl _ _ _, hok, ht, hs, fun hn => hn.resolve_left (by simp)⟩
  | succ n ih =>
    intro f h top st top' st' h' hok ht hs he
    cases st with
    | nil => simp [Builder.mergeStrict] at he
    | cons q st2 =>
      obtain ⟨left, fl⟩ := q
      simp only [Builder.mergeStrict] at he
      obtain ⟨hl, hs2⟩ := StackReg.cons_iff.1 hs
      obtain ⟨f1, x1, ok1, r1⟩ := reg_node hok hl ht
      obtain ⟨f2, x2, ok2, r2, s2, n2⟩ := ih f1 _ _ st2 top' st' h' ok1 r1 (hs2.ext hok x1) he
      exact ⟨f2, x1.trans x2, ok2, r2, s2, fun _ => n2 (Or.inr ⟨_, _, _, rfl⟩)⟩

/-- the merge loop of `push_node` on registered entries. -/
theorem mergeLax_reg (E : Elem T H) (A : HashAlg H) :
    ∀ (n : Nat) (f : Registry T) (h : Heap H) (top : Tree T × Bool) (st : List (Tree T × Bool)),
      HeapOK E A f h → Registered f top.1 → StackReg f st →
      ∃ f', Ext A.zero f h f' (Builder.mergeLax A.zero n h top st).2.2 ∧
        HeapOK E A f' (Builder.mergeLax A.zero n h top st).2.2 ∧
        Registered f' (Builder.mergeLax A.zero n h top st).1.1 ∧
        StackReg f' (Builder.mergeLax A.zero n h top st).2.1 ∧
        ((top.2 = false ∨ top.1.RegIsNode) →
          ((Builder.mergeLax A.zero n h top st).1.2 = false ∨
            (Builder.mergeLax A.zero n h top st).1.1.RegIsNode)) := by
  intro n
  induction n with
  | zero =>
    intro f h top st hok ht hs
    simp only [Builder.mergeLax]
    exact ⟨f, Ext.refl _ _ _, hok, ht, hs, id⟩
  | succ n ih =>
    intro f h top st hok ht hs
    cases st with
    | nil =>
      simp only [Builder.mergeLax]
      exact ih f h top [] hok ht hs
    | cons q st2 =>
      obtain ⟨left, fl⟩ := q
      simp only [Builder.mergeLax]
      obtain ⟨hl, hs2⟩ := StackReg.cons_iff.1 hs
      obtain ⟨f1, x1, ok1, r1⟩ := reg_node hok hl ht
      obtain ⟨f2, x2, ok2, r2, s2, n2⟩ := ih f1 (h.alloc A.zero).2
        (.node (h.alloc A.zero).1 left top.1, true) st2 ok1 r1 (hs2.ext hok x1)
      exact ⟨f2, x1.trans x2, ok2, r2, s2, fun _ => n2 (Or.inr ⟨_, _, _, rfl⟩)⟩

/-- the merge loop of `push` with a possibly pending top. -/
theorem mergeStrict_preg (E : Elem T H) (A : HashAlg H) (pf : Option Nat) (lo : Nat)
    (n : Nat) (f : Registry T) (h : Heap H) (top : Tree T) (st : List (Tree T × Bool))
    (top' : Tree T) (st' : List (Tree T × Bool)) (h' : Heap H)
    (hok : HeapOK E A f h) (hlo : lo ≤ h.next)
    (hs : PStackReg A.zero f lo h pf ((top, true) :: st))
    (he : Builder.mergeStrict A.zero n h top st = .ok (top', st', h')) :
    ∃ f', ExtA A.zero lo f h f' h' ∧ HeapOK E A f' h' ∧
      PStackReg A.zero f' lo h' pf ((top', true) :: st') := by
  cases n with
  | zero =>
    simp only [Builder.mergeStrict, Except.ok.injEq, Prod.mk.injEq] at he
    obtain ⟨rfl, rfl, rfl⟩ := he
    exact ⟨f, ExtA.refl _ _ _ _, hok, hs⟩
  | succ n =>
    obtain ⟨f1, x1, ok1, s1⟩ := hs.settle hok
    obtain ⟨ht, hst⟩ := StackReg.cons_iff.1 s1
    obtain ⟨f2, x2, ok2, r2, s2, n2⟩ :=
      mergeStrict_reg E A (n+1) f1 h top st top' st' h' ok1 ht hst he
    exact ⟨f2, x1.trans (x2.toExtA ok1 hlo), ok2,
      PStackReg.of_stackReg (StackReg.cons_iff.2 ⟨r2, s2⟩) (Or.inr (n2 (Or.inl (by simp))))⟩

/-- **`Builder::push`** keeps the stack invariant (pending-aware form). -/
theorem push_preg (E : Elem T H) (A : HashAlg H) (lo : Nat) (b b' : Builder T) (f : Registry T)
    (h h' : Heap H) (x : T) (hok : HeapOK E A f h) (hlo : lo ≤ h.next)
    (hs : PStackReg A.zero f lo h b.pf b.stack)
    (he : b.push A.zero h x = .ok (b', h')) :
    ∃ f', ExtA A.zero lo f h f' h' ∧ HeapOK E A f' h' ∧
      PStackReg A.zero f' lo h' b'.pf b'.stack ∧ b'.pf = b.pf := by
  simp only [Builder.push] at he
  split at he
  · cases he
  · split at he
    · cases he
    · rename_i top st h1 hstart
      -- the state after the first phase
      have key : ∃ f1, ExtA A.zero lo f h f1 h1 ∧ HeapOK E A f1 h1 ∧
          PStackReg A.zero f1 lo h1 b.pf ((top, true) :: st) := by
        split at hstart
        · rename_i p hpf
          rw [hpf] at hs ⊢
          split at hstart
          · cases hstart
          · split at hstart
            · -- a new packed leaf: settle the stack, allocate, the new leaf is pending
              simp only [Except.ok.injEq, Prod.mk.injEq] at hstart
              obtain ⟨rfl, rfl, rfl⟩ := hstart
              obtain ⟨f1, x1, ok1, s1⟩ := hs.settle hok
              obtain ⟨x2, ok2⟩ := alloc_transient_ok ok1 A.zero
              refine ⟨f1, x1.trans (x2.toExtA ok1 hlo), ok2, PStackReg.pending_iff.2 ⟨?_, s1⟩⟩
              refine ⟨hlo, by rw [Heap.next_alloc]; exact Nat.lt_succ_self _, ?_, ?_⟩
              · cases hfi : f1 (h.alloc A.zero).1 with
                | none => rfl
                | some s => exact absurd (ok1.bound _ _ hfi) (Nat.lt_irrefl _)
              · exact Heap.read_alloc_new h A.zero A.zero
            · -- the pending leaf grows in place
              split at hstart
              · rename_i id vs st0 hst
                rw [hst] at hs
                split at hstart
                · cases hstart
                · simp only [Except.ok.injEq, Prod.mk.injEq] at hstart
                  obtain ⟨rfl, rfl, rfl⟩ := hstart
                  exact ⟨f, ExtA.refl _ _ _ _, hok,
                    PStackReg.pending_iff.2 (PStackReg.pending_iff.1 hs)⟩
              · cases hstart
        · rename_i hpf
          rw [hpf] at hs ⊢
          simp only [Except.ok.injEq, Prod.mk.injEq] at hstart
          obtain ⟨rfl, rfl, rfl⟩ := hstart
          obtain ⟨f1, x1, ok1, r1⟩ := reg_leaf hok x
          exact ⟨f1, x1.toExtA hok hlo, ok1, PStackReg.none_iff.2
            (StackReg.cons_iff.2 ⟨r1, (PStackReg.none_iff.1 hs).ext hok x1⟩)⟩
      obtain ⟨f1, x1, ok1, s1⟩ := key
      split at he
      · cases he
      · rename_i top' st' h2 hm
        simp only [Except.ok.injEq, Prod.mk.injEq] at he
        obtain ⟨rfl, rfl⟩ := he
        obtain ⟨f2, x2, ok2, s2⟩ := mergeStrict_preg E A b.pf lo _ f1 h1 top st top' st' h2 ok1
          (Nat.le_trans hlo x1.next_le) s1 hm
        exact ⟨f2, x1.trans x2, ok2, s2, rfl⟩

/-- **`Builder::push_node`** keeps the stack invariant (pending-aware form). -/
theorem pushNode_preg (E : Elem T H) (A : HashAlg H) (lo : Nat) (b b' : Builder T)
    (f : Registry T) (h h' : Heap H) (node : Tree T) (len : Nat) (hok : HeapOK E A f h)
    (hlo : lo ≤ h.next) (hs : PStackReg A.zero f lo h b.pf b.stack) (hn : Registered f node)
    (he : b.pushNode A.zero h node len = .ok (b', h')) :
    ∃ f', ExtA A.zero lo f h f' h' ∧ HeapOK E A f' h' ∧
      PStackReg A.zero f' lo h' b'.pf b'.stack ∧ b'.pf = b.pf := by
  simp only [Builder.pushNode] at he
  split at he
  · cases he
  · simp only [Except.ok.injEq, Prod.mk.injEq] at he
    obtain ⟨rfl, rfl⟩ := he
    obtain ⟨f1, x1, ok1, s1⟩ := hs.settle hok
    obtain ⟨f2, x2, ok2, r2, s2, n2⟩ := mergeLax_reg E A
      (if b.level = 0 then tz (b.length / 2 ^ b.level + 1) - b.pd
        else tz (b.length / 2 ^ b.level + 1)) f1 h (node, false) b.stack ok1 (hn.extA x1) s1
    exact ⟨f2, x1.trans (x2.toExtA ok1 hlo), ok2,
      PStackReg.of_stackReg (StackReg.cons_iff.2 ⟨r2, s2⟩) (n2 (Or.inl rfl)), rfl⟩

/-! ### `finish` -/

/-- one merge of the two top entries (shared by both merge loops of `finish`). -/
theorem reg_merge_top {E : Elem T H} {A : HashAlg H} {f : Registry T} {h : Heap H}
    {right left : Tree T} {fr fl : Bool} {st2 : List (Tree T × Bool)} (hok : HeapOK E A f h)
    (hs : StackReg f ((right, fr) :: (left, fl) :: st2)) :
    ∃ f', Ext A.zero f h f' (h.alloc A.zero).2 ∧ HeapOK E A f' (h.alloc A.zero).2 ∧
      StackReg f' ((.node (h.alloc A.zero).1 left right, true) :: st2) := by
  obtain ⟨hr, hs1⟩ := StackReg.cons_iff.1 hs
  obtain ⟨hl, hs2⟩ := StackReg.cons_iff.1 hs1
  obtain ⟨f1, x1, ok1, r1⟩ := reg_node hok hl hr
  exact ⟨f1, x1, ok1, StackReg.cons_iff.2 ⟨r1, hs2.ext hok x1⟩⟩

theorem finishPackedMerge_reg (E : Elem T H) (A : HashAlg H) (b : Builder T) (next : Nat) :
    ∀ (n i : Nat) (f : Registry T) (h : Heap H) (st st' : List (Tree T × Bool)) (h' : Heap H),
      HeapOK E A f h → StackReg f st →
      Builder.finishPackedMerge A.zero b next n i h st = .ok (st', h') →
      ∃ f', Ext A.zero f h f' h' ∧ HeapOK E A f' h' ∧ StackReg f' st' := by
  intro n
  induction n with
  | zero =>
    intro i f h st st' h' hok hs he
    simp only [Builder.finishPackedMerge, Except.ok.injEq, Prod.mk.injEq] at he
    obtain ⟨rfl, rfl⟩ := he
    exact ⟨f, Ext.refl _ _ _, hok, hs⟩
  | succ n ih =>
    intro i f h st st' h' hok hs he
    simp only [Builder.finishPackedMerge] at he
    split at he
    · split at he
      · cases he
      · split at he
        · cases he
        · obtain ⟨f1, x1, ok1, s1⟩ := reg_merge_top hok hs
          obtain ⟨f2, x2, ok2, s2⟩ := ih _ f1 _ _ st' h' ok1 s1 he
          exact ⟨f2, x1.trans x2, ok2, s2⟩
    · simp only [Except.ok.injEq, Prod.mk.injEq] at he
      obtain ⟨rfl, rfl⟩ := he
      exact ⟨f, Ext.refl _ _ _, hok, hs⟩

theorem finishMergeUp_reg (E : Elem T H) (A : HashAlg H) (b : Builder T) (next : Nat) :
    ∀ (n i : Nat) (f : Registry T) (h : Heap H) (st st' : List (Tree T × Bool)) (h' : Heap H),
      HeapOK E A f h → StackReg f st →
      Builder.finishMergeUp A.zero b next n i h st = .ok (st', h') →
      ∃ f', Ext A.zero f h f' h' ∧ HeapOK E A f' h' ∧ StackReg f' st' := by
  intro n
  induction n with
  | zero =>
    intro i f h st st' h' hok hs he
    simp only [Builder.finishMergeUp, Except.ok.injEq, Prod.mk.injEq] at he
    obtain ⟨rfl, rfl⟩ := he
    exact ⟨f, Ext.refl _ _ _, hok, hs⟩
  | succ n ih =>
    intro i f h st st' h' hok hs he
    simp only [Builder.finishMergeUp] at he
    split at he
    · split at he
      · cases he
      · split at he
        · cases he
        · obtain ⟨f1, x1, ok1, s1⟩ := reg_merge_top hok hs
          obtain ⟨f2, x2, ok2, s2⟩ := ih _ f1 _ _ st' h' ok1 s1 he
          exact ⟨f2, x1.trans x2, ok2, s2⟩
    · simp only [Except.ok.injEq, Prod.mk.injEq] at he
      obtain ⟨rfl, rfl⟩ := he
      exact ⟨f, Ext.refl _ _ _, hok, hs⟩

theorem finishPad_reg (E : Elem T H) (A : HashAlg H) (b : Builder T) :
    ∀ (fuel next : Nat) (f : Registry T) (h : Heap H) (st st' : List (Tree T × Bool))
      (h' : Heap H), HeapOK E A f h → StackReg f st →
      Builder.finishPad A.zero b fuel next h st = .ok (st', h') →
      ∃ f', Ext A.zero f h f' h' ∧ HeapOK E A f' h' ∧ StackReg f' st' := by
  intro fuel
  induction fuel with
  | zero =>
    intro next f h st st' h' hok hs he
    simp [Builder.finishPad] at he
  | succ fuel ih =>
    intro next f h st st' h' hok hs he
    simp only [Builder.finishPad] at he
    split at he
    · simp only [Except.ok.injEq, Prod.mk.injEq] at he
      obtain ⟨rfl, rfl⟩ := he
      exact ⟨f, Ext.refl _ _ _, hok, hs⟩
    · split at he
      · cases he
      · rename_i top fl st1
        obtain ⟨ht, hs1⟩ := StackReg.cons_iff.1 hs
        obtain ⟨f1, x1, ok1, rz⟩ := reg_zero (E := E) hok (tz next + b.level - b.pd)
        obtain ⟨f2, x2, ok2, rn⟩ := reg_node ok1 (ht.ext hok x1) rz
        have x02 := x1.trans x2
        have s2 : StackReg f2 ((Tree.node ((h.alloc A.zero).2.alloc A.zero).1 top
            (.zero (h.alloc A.zero).1 (tz next + b.level - b.pd)), true) :: st1) :=
          StackReg.cons_iff.2 ⟨rn, (hs1.ext hok x1).ext ok1 x2⟩
        split at he
        · cases he
        · rename_i st3 h3 e3
          obtain ⟨f3, x3, ok3, s3⟩ := finishMergeUp_reg E A b next _ _ f2 _ _ st3 h3 ok2 s2 e3
          split at he
          · cases he
          · obtain ⟨f4, x4, ok4, s4⟩ := ih _ f3 h3 st3 st' h' ok3 s3 he
            exact ⟨f4, (x02.trans x3).trans x4, ok4, s4⟩

/-- **`Builder::finish`** on a stack of registered entries: the resulting tree is registered. -/
theorem finish_reg (E : Elem T H) (A : HashAlg H) (b : Builder T) (f : Registry T)
    (h h' : Heap H) (t : Tree T) (d n : Nat) (hok : HeapOK E A f h) (hs : StackReg f b.stack)
    (he : b.finish A.zero h = .ok ((t, d, n), h')) : RegPost E A f h t h' := by
  simp only [Builder.finish] at he
  split at he
  · simp only [Except.ok.injEq, Prod.mk.injEq] at he
    obtain ⟨⟨rfl, -, -⟩, rfl⟩ := he
    exact reg_zero hok _
  · split at he
    · cases he
    · rename_i next st1 h1 hstage
      have key : ∃ f1, Ext A.zero f h f1 h1 ∧ HeapOK E A f1 h1 ∧ StackReg f1 st1 := by
        split at hstage
        · split at hstage
          · cases hstage
          · split at hstage
            · split at hstage
              · cases hstage
              · rename_i st2 h2 e2
                simp only [Except.ok.injEq, Prod.mk.injEq] at hstage
                obtain ⟨-, rfl, rfl⟩ := hstage
                exact finishPackedMerge_reg E A b _ _ _ f h _ _ _ hok hs e2
            · simp only [Except.ok.injEq, Prod.mk.injEq] at hstage
              obtain ⟨-, rfl, rfl⟩ := hstage
              exact ⟨f, Ext.refl _ _ _, hok, hs⟩
        · simp only [Except.ok.injEq, Prod.mk.injEq] at hstage
          obtain ⟨-, rfl, rfl⟩ := hstage
          exact ⟨f, Ext.refl _ _ _, hok, hs⟩
      obtain ⟨f1, x1, ok1, s1⟩ := key
      split at he
      · cases he
      · rename_i st2 h2 e2
        obtain ⟨f2, x2, ok2, s2⟩ := finishPad_reg E A b _ _ f1 h1 st1 st2 h2 ok1 s1 e2
        split at he
        · cases he
        · split at he
          · simp only [Except.ok.injEq, Prod.mk.injEq] at he
            obtain ⟨⟨rfl, -, -⟩, rfl⟩ := he
            exact ⟨f2, x1.trans x2, ok2, (StackReg.cons_iff.1 s2).1⟩
          · cases he

/-- `finish` from the pending-aware invariant. -/
theorem finish_preg (E : Elem T H) (A : HashAlg H) (lo : Nat) (b : Builder T) (f : Registry T)
    (h h' : Heap H) (t : Tree T) (d n : Nat) (hok : HeapOK E A f h) (hlo : lo ≤ h.next)
    (hs : PStackReg A.zero f lo h b.pf b.stack)
    (he : b.finish A.zero h = .ok ((t, d, n), h')) :
    ∃ f', ExtA A.zero lo f h f' h' ∧ HeapOK E A f' h' ∧ Registered f' t := by
  obtain ⟨f1, x1, ok1, s1⟩ := hs.settle hok
  obtain ⟨f2, x2, ok2, r2⟩ := finish_reg E A b f1 h h' t d n ok1 s1 he
  exact ⟨f2, x1.trans (x2.toExtA ok1 hlo), ok2, r2⟩

/-! ### the forms with `StackReg` and `Ext` (as far as they are true) -/

/-- **`Builder::push`, unpacked kinds**: every entry stays registered, by an `Ext` step. For packed
kinds this statement is false (`push_reg_counterexample`); use `push_preg`. -/
theorem push_reg (E : Elem T H) (A : HashAlg H) (b b' : Builder T) (f : Registry T)
    (h h' : Heap H) (x : T) (hpf : b.pf = none) (hok : HeapOK E A f h)
    (hs : StackReg f b.stack) (he : b.push A.zero h x = .ok (b', h')) :
    ∃ f', Ext A.zero f h f' h' ∧ HeapOK E A f' h' ∧ StackReg f' b'.stack := by
  obtain ⟨f', x', ok', s', e'⟩ := push_preg E A h.next b b' f h h' x hok (Nat.le_refl _)
    (by rw [hpf]; exact PStackReg.none_iff.2 hs) he
  rw [e', hpf] at s'
  exact ⟨f', x'.toExt, ok', PStackReg.none_iff.1 s'⟩

/-- **`Builder::push_node`**: every entry stays registered and the pushed node is part of the
registered stack, by an `Ext` step (true for every kind: `push_node` never mutates). -/
theorem pushNode_reg (E : Elem T H) (A : HashAlg H) (b b' : Builder T) (f : Registry T)
    (h h' : Heap H) (node : Tree T) (len : Nat) (hok : HeapOK E A f h)
    (hs : StackReg f b.stack) (hn : Registered f node)
    (he : b.pushNode A.zero h node len = .ok (b', h')) :
    ∃ f', Ext A.zero f h f' h' ∧ HeapOK E A f' h' ∧ StackReg f' b'.stack ∧ Registered f' node := by
  simp only [Builder.pushNode] at he
  split at he
  · cases he
  · simp only [Except.ok.injEq, Prod.mk.injEq] at he
    obtain ⟨rfl, rfl⟩ := he
    obtain ⟨f2, x2, ok2, r2, s2, -⟩ := mergeLax_reg E A
      (if b.level = 0 then tz (b.length / 2 ^ b.level + 1) - b.pd
        else tz (b.length / 2 ^ b.level + 1)) f h (node, false) b.stack hok hn hs
    exact ⟨f2, x2, ok2, StackReg.cons_iff.2 ⟨r2, s2⟩, hn.ext hok x2⟩

/-- `pushAll` (the loop of `try_from_iter`), pending-aware form. -/
theorem pushAll_preg (E : Elem T H) (A : HashAlg H) (lo : Nat) :
    ∀ (xs : List T) (b b' : Builder T) (f : Registry T) (h h' : Heap H),
      HeapOK E A f h → lo ≤ h.next → PStackReg A.zero f lo h b.pf b.stack →
      Coll.pushAll A.zero b h xs = .ok (b', h') →
      ∃ f', ExtA A.zero lo f h f' h' ∧ HeapOK E A f' h' ∧
        PStackReg A.zero f' lo h' b'.pf b'.stack ∧ b'.pf = b.pf := by
  intro xs
  induction xs with
  | nil =>
    intro b b' f h h' hok hlo hs he
    simp only [Coll.pushAll, Except.ok.injEq, Prod.mk.injEq] at he
    obtain ⟨rfl, rfl⟩ := he
    exact ⟨f, ExtA.refl _ _ _ _, hok, hs, rfl⟩
  | cons x xs ih =>
    intro b b' f h h' hok hlo hs he
    simp only [Coll.pushAll] at he
    split at he
    · cases he
    · rename_i b1 h1 e1
      obtain ⟨f1, x1, ok1, s1, p1⟩ := push_preg E A lo b b1 f h h1 x hok hlo hs e1
      obtain ⟨f2, x2, ok2, s2, p2⟩ := ih b1 b' f1 h1 h' ok1 (Nat.le_trans hlo x1.next_le) s1 he
      exact ⟨f2, x1.trans x2, ok2, s2, p2.trans p1⟩

/-- `pushAll` for unpacked kinds, with `StackReg` and `Ext`. -/
theorem pushAll_reg (E : Elem T H) (A : HashAlg H) (xs : List T) (b b' : Builder T)
    (f : Registry T) (h h' : Heap H) (hpf : b.pf = none) (hok : HeapOK E A f h)
    (hs : StackReg f b.stack) (he : Coll.pushAll A.zero b h xs = .ok (b', h')) :
    ∃ f', Ext A.zero f h f' h' ∧ HeapOK E A f' h' ∧ StackReg f' b'.stack := by
  obtain ⟨f', x', ok', s', e'⟩ := pushAll_preg E A h.next xs b b' f h h' hok (Nat.le_refl _)
    (by rw [hpf]; exact PStackReg.none_iff.2 hs) he
  rw [e', hpf] at s'
  exact ⟨f', x'.toExt, ok', PStackReg.none_iff.1 s'⟩

/-- the items fed by `pop_front` that are whole nodes are registered. -/
def ItemsReg (f : Registry T) (items : List (LevelNode T)) : Prop :=
  ∀ t, LevelNode.internal t ∈ items → Registered f t

/-- `popFeed` (the feeding loop of `pop_front`), pending-aware form. -/
theorem popFeed_preg (E : Elem T H) (A : HashAlg H) (lo level : Nat) :
    ∀ (items : List (LevelNode T)) (b b' : Builder T) (f : Registry T) (h h' : Heap H),
      HeapOK E A f h → lo ≤ h.next → PStackReg A.zero f lo h b.pf b.stack → ItemsReg f items →
      Coll.popFeed A.zero level b h items = .ok (b', h') →
      ∃ f', ExtA A.zero lo f h f' h' ∧ HeapOK E A f' h' ∧
        PStackReg A.zero f' lo h' b'.pf b'.stack ∧ b'.pf = b.pf := by
  intro items
  induction items with
  | nil =>
    intro b b' f h h' hok hlo hs hi he
    simp only [Coll.popFeed, Except.ok.injEq, Prod.mk.injEq] at he
    obtain ⟨rfl, rfl⟩ := he
    exact ⟨f, ExtA.refl _ _ _ _, hok, hs, rfl⟩
  | cons it rest ih =>
    intro b b' f h h' hok hlo hs hi he
    have hrest : ∀ f1 h1, ExtA A.zero lo f h f1 h1 → ItemsReg f1 rest :=
      fun f1 h1 x1 t ht => (hi t (List.mem_cons_of_mem _ ht)).extA x1
    cases it with
    | internal node =>
      simp only [Coll.popFeed] at he
      split at he
      · cases he
      · rename_i b1 h1 e1
        obtain ⟨f1, x1, ok1, s1, p1⟩ := pushNode_preg E A lo b b1 f h h1 node _ hok hlo hs
          (hi node (List.mem_cons_self ..)) e1
        obtain ⟨f2, x2, ok2, s2, p2⟩ := ih b1 b' f1 h1 h' ok1 (Nat.le_trans hlo x1.next_le) s1
          (hrest f1 h1 x1) he
        exact ⟨f2, x1.trans x2, ok2, s2, p2.trans p1⟩
    | packedLeaf v =>
      simp only [Coll.popFeed] at he
      split at he
      · cases he
      · rename_i b1 h1 e1
        obtain ⟨f1, x1, ok1, s1, p1⟩ := push_preg E A lo b b1 f h h1 v hok hlo hs e1
        obtain ⟨f2, x2, ok2, s2, p2⟩ := ih b1 b' f1 h1 h' ok1 (Nat.le_trans hlo x1.next_le) s1
          (hrest f1 h1 x1) he
        exact ⟨f2, x1.trans x2, ok2, s2, p2.trans p1⟩

/-- `popFeed` with `StackReg` and `Ext` for unpacked kinds. -/
theorem popFeed_reg (E : Elem T H) (A : HashAlg H) (level : Nat) (items : List (LevelNode T))
    (b b' : Builder T) (f : Registry T) (h h' : Heap H) (hpf : b.pf = none)
    (hok : HeapOK E A f h) (hs : StackReg f b.stack) (hi : ItemsReg f items)
    (he : Coll.popFeed A.zero level b h items = .ok (b', h')) :
    ∃ f', Ext A.zero f h f' h' ∧ HeapOK E A f' h' ∧ StackReg f' b'.stack := by
  obtain ⟨f', x', ok', s', e'⟩ := popFeed_preg E A h.next level items b b' f h h' hok
    (Nat.le_refl _) (by rw [hpf]; exact PStackReg.none_iff.2 hs) hi he
  rw [e', hpf] at s'
  exact ⟨f', x'.toExt, ok', PStackReg.none_iff.1 s'⟩

/-- a whole builder run seen from the state in which the builder was created: feed
(`ExtA h0.next` steps) then `finish` gives a `RegPost` from `(f0, h0)`. -/
theorem builder_run_regPost {E : Elem T H} {A : HashAlg H} {f0 f1 : Registry T} {h0 h1 h2 : Heap H}
    {b : Builder T} {t : Tree T} {d n : Nat}
    (x1 : ExtA A.zero h0.next f0 h0 f1 h1) (ok1 : HeapOK E A f1 h1)
    (s1 : PStackReg A.zero f1 h0.next h1 b.pf b.stack)
    (he : b.finish A.zero h1 = .ok ((t, d, n), h2)) : RegPost E A f0 h0 t h2 := by
  obtain ⟨f2, x2, ok2, r2⟩ := finish_preg E A h0.next b f1 h1 h2 t d n ok1 x1.next_le s1 he
  exact ⟨f2, (x1.trans x2).toExt, ok2, r2⟩

/-- **Why `push_reg` needs `b.pf = none`.** With a packing factor, `push` grows the `Unarced`
packed leaf on top of the stack in place (same id `0`, values `[1]` then `[1, 2]`): no `Ext`
extension of a registry in which the stack was registered registers the new stack. -/
theorem push_reg_counterexample :
    ∃ (b b' : Builder Nat) (f : Registry Nat) (h h' : Heap HT),
      HeapOK (HT.elem (some 4)) HT.alg f h ∧ StackReg f b.stack ∧
      b.push HT.alg.zero h 2 = .ok (b', h') ∧
      ¬ ∃ f', Ext HT.alg.zero f h f' h' ∧ StackReg f' b'.stack := by
  refine ⟨⟨[(.packed 0 [1], true)], 0, 0, 1, some 4⟩, ⟨[(.packed 0 [1, 2], true)], 0, 0, 2, some 4⟩,
    fun i => if i = 0 then some (.packed 0 [1]) else none, ⟨#[HT.z]⟩, ⟨#[HT.z]⟩, ?_, ?_, rfl, ?_⟩
  · constructor
    · intro id s hs
      by_cases hi : id = 0
      · subst hi; decide
      · simp [hi] at hs
    · intro id s hs
      by_cases hi : id = 0
      · subst hi; left; rfl
      · simp [hi] at hs
  · intro p hp
    simp only [List.mem_singleton] at hp
    subst hp
    intro s hs
    simp only [Tree.subtrees, List.mem_singleton] at hs
    subst hs; rfl
  · rintro ⟨f', x, hs⟩
    have h1 := (hs _ (List.mem_singleton.2 rfl)).self
    have h2 := x.reg 0 (by decide)
    simp only [Tree.id] at h1
    rw [h1] at h2
    simp at h2

/-! ## 4. `repeat_list` -/

theorem repeatStep_reg (E : Elem T H) (A : HashAlg H) (depth : Nat) (f : Registry T)
    (h h' : Heap H) (layer layer' : List (Tree T × Nat)) (hok : HeapOK E A f h)
    (hs : StackReg f layer) (he : repeatStep A.zero depth h layer = .ok (layer', h')) :
    ∃ f', Ext A.zero f h f' h' ∧ HeapOK E A f' h' ∧ StackReg f' layer' := by
  unfold repeatStep at he
  split at he
  · -- one pair
    rename_i a c
    have ha : Registered f a := (StackReg.cons_iff.1 hs).1
    split at he
    · simp only [Except.ok.injEq, Prod.mk.injEq] at he
      obtain ⟨rfl, rfl⟩ := he
      obtain ⟨f1, x1, ok1, rz⟩ := reg_zero (E := E) hok depth
      obtain ⟨f2, x2, ok2, rn⟩ := reg_node ok1 (ha.ext hok x1) rz
      exact ⟨f2, x1.trans x2, ok2, StackReg.cons_iff.2 ⟨rn, StackReg.nil _⟩⟩
    · split at he
      · simp only [Except.ok.injEq, Prod.mk.injEq] at he
        obtain ⟨rfl, rfl⟩ := he
        obtain ⟨f1, x1, ok1, rn⟩ := reg_node hok ha ha
        exact ⟨f1, x1, ok1, StackReg.cons_iff.2 ⟨rn, StackReg.nil _⟩⟩
      · simp only [Except.ok.injEq, Prod.mk.injEq] at he
        obtain ⟨rfl, rfl⟩ := he
        obtain ⟨f1, x1, ok1, rn1⟩ := reg_node hok ha ha
        obtain ⟨f2, x2, ok2, rz⟩ := reg_zero (E := E) ok1 depth
        obtain ⟨f3, x3, ok3, rn3⟩ := reg_node ok2 ((ha.ext hok x1).ext ok1 x2) rz
        exact ⟨f3, (x1.trans x2).trans x3, ok3, StackReg.cons_iff.2
          ⟨(rn1.ext ok1 x2).ext ok2 x3, StackReg.cons_iff.2 ⟨rn3, StackReg.nil _⟩⟩⟩
  · -- a pair and a lonely node
    rename_i a c b
    have ha : Registered f a := (StackReg.cons_iff.1 hs).1
    have hb : Registered f b := (StackReg.cons_iff.1 (StackReg.cons_iff.1 hs).2).1
    split at he
    · simp only [Except.ok.injEq, Prod.mk.injEq] at he
      obtain ⟨rfl, rfl⟩ := he
      obtain ⟨f1, x1, ok1, rn⟩ := reg_node hok ha hb
      exact ⟨f1, x1, ok1, StackReg.cons_iff.2 ⟨rn, StackReg.nil _⟩⟩
    · split at he
      · simp only [Except.ok.injEq, Prod.mk.injEq] at he
        obtain ⟨rfl, rfl⟩ := he
        obtain ⟨f1, x1, ok1, rn1⟩ := reg_node hok ha ha
        obtain ⟨f2, x2, ok2, rz⟩ := reg_zero (E := E) ok1 depth
        obtain ⟨f3, x3, ok3, rn3⟩ := reg_node ok2 ((hb.ext hok x1).ext ok1 x2) rz
        exact ⟨f3, (x1.trans x2).trans x3, ok3, StackReg.cons_iff.2
          ⟨(rn1.ext ok1 x2).ext ok2 x3, StackReg.cons_iff.2 ⟨rn3, StackReg.nil _⟩⟩⟩
      · simp only [Except.ok.injEq, Prod.mk.injEq] at he
        obtain ⟨rfl, rfl⟩ := he
        obtain ⟨f1, x1, ok1, rn1⟩ := reg_node hok ha ha
        obtain ⟨f2, x2, ok2, rn2⟩ := reg_node ok1 (ha.ext hok x1) (hb.ext hok x1)
        exact ⟨f2, x1.trans x2, ok2, StackReg.cons_iff.2
          ⟨rn1.ext ok1 x2, StackReg.cons_iff.2 ⟨rn2, StackReg.nil _⟩⟩⟩
  · cases he

theorem repeatLoop_reg (E : Elem T H) (A : HashAlg H) :
    ∀ (n depth : Nat) (f : Registry T) (h h' : Heap H) (layer layer' : List (Tree T × Nat)),
      HeapOK E A f h → StackReg f layer →
      repeatLoop A.zero n depth h layer = .ok (layer', h') →
      ∃ f', Ext A.zero f h f' h' ∧ HeapOK E A f' h' ∧ StackReg f' layer' := by
  intro n
  induction n with
  | zero =>
    intro depth f h h' layer layer' hok hs he
    simp only [repeatLoop, Except.ok.injEq, Prod.mk.injEq] at he
    obtain ⟨rfl, rfl⟩ := he
    exact ⟨f, Ext.refl _ _ _, hok, hs⟩
  | succ n ih =>
    intro depth f h h' layer layer' hok hs he
    simp only [repeatLoop] at he
    split at he
    · cases he
    · rename_i l1 h1 e1
      obtain ⟨f1, x1, ok1, s1⟩ := repeatStep_reg E A depth f h h1 layer l1 hok hs e1
      obtain ⟨f2, x2, ok2, s2⟩ := ih _ f1 h1 h' l1 layer' ok1 s1 he
      exact ⟨f2, x1.trans x2, ok2, s2⟩

/-- **`repeat_list`**: the root is registered after an `Ext` step. -/
theorem repeatTree_reg (E : Elem T H) (A : HashAlg H) (pf : Option Nat) (N d : Nat) (x : T)
    (n : Nat) (f : Registry T) (h h' : Heap H) (root : Tree T) (hok : HeapOK E A f h)
    (he : repeatTree pf A.zero N d x n h = .ok (root, h')) : RegPost E A f h root h' := by
  simp only [repeatTree] at he
  split at he
  · cases he
  · split at he
    · cases he
    · rename_i layer h1 hinit
      have key : ∃ f1, Ext A.zero f h f1 h1 ∧ HeapOK E A f1 h1 ∧ StackReg f1 layer := by
        split at hinit
        · rename_i p
          split at hinit
          · cases hinit
          · obtain ⟨f1, x1, ok1, r1⟩ := reg_packed (E := E) hok (List.replicate p x)
            obtain ⟨f2, x2, ok2, r2⟩ := reg_packed (E := E) ok1 (List.replicate (n % p) x)
            have r1' := r1.ext ok1 x2
            split at hinit
            · cases hinit
            · split at hinit
              · simp only [Except.ok.injEq, Prod.mk.injEq] at hinit
                obtain ⟨rfl, rfl⟩ := hinit
                exact ⟨f2, x1.trans x2, ok2, StackReg.cons_iff.2 ⟨r1', StackReg.nil _⟩⟩
              · split at hinit
                · simp only [Except.ok.injEq, Prod.mk.injEq] at hinit
                  obtain ⟨rfl, rfl⟩ := hinit
                  exact ⟨f2, x1.trans x2, ok2, StackReg.cons_iff.2 ⟨r2, StackReg.nil _⟩⟩
                · simp only [Except.ok.injEq, Prod.mk.injEq] at hinit
                  obtain ⟨rfl, rfl⟩ := hinit
                  exact ⟨f2, x1.trans x2, ok2,
                    StackReg.cons_iff.2 ⟨r1', StackReg.cons_iff.2 ⟨r2, StackReg.nil _⟩⟩⟩
        · simp only [Except.ok.injEq, Prod.mk.injEq] at hinit
          obtain ⟨rfl, rfl⟩ := hinit
          obtain ⟨f1, x1, ok1, r1⟩ := reg_leaf (E := E) hok x
          exact ⟨f1, x1, ok1, StackReg.cons_iff.2 ⟨r1, StackReg.nil _⟩⟩
      obtain ⟨f1, x1, ok1, s1⟩ := key
      split at he
      · cases he
      · rename_i layer2 h2 e2
        obtain ⟨f2, x2, ok2, s2⟩ := repeatLoop_reg E A d 0 f1 h1 h2 layer layer2 ok1 s1 e2
        split at he
        · cases he
        · rename_i root' count rest hrev
          split at he
          · cases he
          · simp only [Except.ok.injEq, Prod.mk.injEq] at he
            obtain ⟨rfl, rfl⟩ := he
            have hm : (root', count) ∈ layer2 :=
              List.mem_reverse.1 (hrev ▸ List.mem_cons_self ..)
            exact ⟨f2, x1.trans x2, ok2, s2 _ hm⟩

/-! ## 5. Collections -/

/-- `List::empty`. -/
theorem empty_reg (E : Elem T H) (A : HashAlg H) (pf : Option Nat) (cfg : Cfg) (f : Registry T)
    (h h' : Heap H) (c' : Coll T) (hok : HeapOK E A f h)
    (he : Coll.empty pf A.zero cfg h = (c', h')) : RegPost E A f h c'.tree h' := by
  simp only [Coll.empty, Coll.fromParts, Prod.mk.injEq] at he
  obtain ⟨rfl, rfl⟩ := he
  exact reg_zero hok _

/-- `List::try_from_iter`. -/
theorem tryFromIter_reg (E : Elem T H) (A : HashAlg H) (pf : Option Nat) (cfg : Cfg)
    (xs : List T) (f : Registry T) (h h' : Heap H) (c' : Coll T) (hok : HeapOK E A f h)
    (he : Coll.tryFromIter pf A.zero cfg xs h = .ok (c', h')) : RegPost E A f h c'.tree h' := by
  simp only [Coll.tryFromIter] at he
  split at he
  · cases he
  · rename_i b hb
    have hst : b.stack = [] := by
      simp only [Builder.new] at hb
      split at hb
      · cases hb
      · simp only [Except.ok.injEq] at hb; subst hb; rfl
    split at he
    · cases he
    · rename_i b1 h1 e1
      obtain ⟨f1, x1, ok1, s1, -⟩ := pushAll_preg E A h.next xs b b1 f h h1 hok (Nat.le_refl _)
        (by rw [hst]; exact PStackReg.nil_iff.2 trivial) e1
      split at he
      · cases he
      · rename_i tree depth length h2 e2
        split at he
        · cases he
        · simp only [Except.ok.injEq, Prod.mk.injEq] at he
          obtain ⟨rfl, rfl⟩ := he
          exact builder_run_regPost x1 ok1 s1 e2

/-- `MutList::update` (both outcomes: the returned collection's tree is registered). -/
theorem backingUpdate_reg (E : Elem T H) (A : HashAlg H) (pf : Option Nat) (cfg : Cfg)
    (c c' : Coll T) (u : UMap T) (f : Registry T) (h h' : Heap H) (r : Except Err Unit)
    (hok : HeapOK E A f h) (hc : Registered f c.tree)
    (he : Coll.backingUpdate pf A.zero cfg c u h = (r, c', h')) : RegPost E A f h c'.tree h' := by
  simp only [Coll.backingUpdate] at he
  split at he
  · simp only [Prod.mk.injEq] at he
    obtain ⟨-, rfl, rfl⟩ := he
    exact RegPost.refl hok hc
  · split at he
    · split at he
      · simp only [Prod.mk.injEq] at he
        obtain ⟨-, rfl, rfl⟩ := he
        exact RegPost.refl hok hc
      · split at he
        · simp only [Prod.mk.injEq] at he
          obtain ⟨-, rfl, rfl⟩ := he
          exact RegPost.refl hok hc
        · rename_i t h1 e1
          simp only [Prod.mk.injEq] at he
          obtain ⟨-, rfl, rfl⟩ := he
          exact updLeaves_reg E A pf u c.depth f h c.tree 0 t h1 hok hc e1
    · split at he
      · simp only [Prod.mk.injEq] at he
        obtain ⟨-, rfl, rfl⟩ := he
        exact RegPost.refl hok hc
      · split at he
        · simp only [Prod.mk.injEq] at he
          obtain ⟨-, rfl, rfl⟩ := he
          exact RegPost.refl hok hc
        · rename_i t h1 e1
          simp only [Prod.mk.injEq] at he
          obtain ⟨-, rfl, rfl⟩ := he
          exact updLeaves_reg E A pf u c.depth f h c.tree 0 t h1 hok hc e1

/-- **`Interface::apply_updates`**: in the ok and in the error outcome the returned collection's
tree is registered after an `Ext` step (on an error the tree and the heap are the old ones). -/
theorem applyUpdates_reg (E : Elem T H) (A : HashAlg H) (pf : Option Nat) (cfg : Cfg)
    (c c' : Coll T) (f : Registry T) (h h' : Heap H) (r : Except Err Unit)
    (hok : HeapOK E A f h) (hc : Registered f c.tree)
    (he : c.applyUpdates pf A.zero cfg h = (r, c', h')) : RegPost E A f h c'.tree h' := by
  simp only [Coll.applyUpdates] at he
  split at he
  · simp only [Prod.mk.injEq] at he
    obtain ⟨-, rfl, rfl⟩ := he
    exact RegPost.refl hok hc
  · exact backingUpdate_reg E A pf cfg { c with updates := UMap.empty cfg.map } c' c.updates
      f h h' r hok hc he

theorem reg_pushAllSlow_tree (cfg : Cfg) : ∀ (xs : List T) (c c' : Coll T),
    Coll.pushAllSlow cfg c xs = .ok c' → c'.tree = c.tree := by
  intro xs
  induction xs with
  | nil => intro c c' he; simp only [Coll.pushAllSlow, Except.ok.injEq] at he; rw [he]
  | cons x xs ih =>
    intro c c' he
    simp only [Coll.pushAllSlow] at he
    split at he
    · cases he
    · rename_i c1 e1
      rw [ih c1 c' he]
      simp only [Coll.push] at e1
      split at e1
      · cases e1
      · split at e1
        · cases e1
        · simp only [Except.ok.injEq] at e1; rw [← e1]

/-- `List::try_from_iter_slow`. -/
theorem tryFromIterSlow_reg (E : Elem T H) (A : HashAlg H) (pf : Option Nat) (cfg : Cfg)
    (xs : List T) (f : Registry T) (h h' : Heap H) (c' : Coll T) (hok : HeapOK E A f h)
    (he : Coll.tryFromIterSlow pf A.zero cfg xs h = .ok (c', h')) : RegPost E A f h c'.tree h' := by
  simp only [Coll.tryFromIterSlow] at he
  obtain ⟨f1, x1, ok1, r1⟩ := empty_reg E A pf cfg f h _ _ hok rfl
  split at he
  · cases he
  · rename_i c1 e1
    have ht := reg_pushAllSlow_tree cfg xs _ c1 e1
    split at he
    · cases he
    · rename_i c2 h2 e2
      simp only [Except.ok.injEq, Prod.mk.injEq] at he
      obtain ⟨rfl, rfl⟩ := he
      obtain ⟨f2, x2, ok2, r2⟩ := applyUpdates_reg E A pf cfg c1 c2 f1 _ h2 _ ok1
        (by rw [ht]; exact r1) e2
      exact ⟨f2, x1.trans x2, ok2, r2⟩

/-- `List::repeat`. -/
theorem repeat_reg (E : Elem T H) (A : HashAlg H) (pf : Option Nat) (cfg : Cfg) (x : T) (n : Nat)
    (f : Registry T) (h h' : Heap H) (c' : Coll T) (hok : HeapOK E A f h)
    (he : Coll.repeat_ pf A.zero cfg x n h = .ok (c', h')) : RegPost E A f h c'.tree h' := by
  simp only [Coll.repeat_] at he
  split at he
  · simp only [Except.ok.injEq] at he
    exact empty_reg E A pf cfg f h h' c' hok he
  · split at he
    · cases he
    · rename_i root h1 e1
      simp only [Except.ok.injEq, Prod.mk.injEq] at he
      obtain ⟨rfl, rfl⟩ := he
      exact repeatTree_reg E A pf cfg.N _ x n f h h1 root hok e1

/-- `TryFrom<List> for Vector`. -/
theorem toVector_reg (E : Elem T H) (A : HashAlg H) (pf : Option Nat) (cfg : Cfg)
    (c c' : Coll T) (f : Registry T) (h h' : Heap H) (hok : HeapOK E A f h)
    (hc : Registered f c.tree)
    (he : Coll.toVector pf A.zero cfg c h = .ok (c', h')) : RegPost E A f h c'.tree h' := by
  simp only [Coll.toVector] at he
  split at he
  · split at he
    · cases he
    · rename_i c1 h1 e1
      simp only [Except.ok.injEq, Prod.mk.injEq] at he
      obtain ⟨rfl, rfl⟩ := he
      exact applyUpdates_reg E A pf cfg c c1 f h h1 _ hok hc e1
  · cases he

/-- `From<Vector> for List`: the same tree. -/
theorem reg_toList_tree (cfg : Cfg) (c : Coll T) : (Coll.toList cfg c).tree = c.tree := rfl

theorem toList_reg (E : Elem T H) (A : HashAlg H) (cfg : Cfg) (c : Coll T) (f : Registry T)
    (h : Heap H) (hok : HeapOK E A f h) (hc : Registered f c.tree) :
    RegPost E A f h (Coll.toList cfg c).tree h :=
  RegPost.refl hok hc

/-- a constructor followed by `toVector`. -/
theorem reg_then_toVector {E : Elem T H} {A : HashAlg H} {pf : Option Nat} {cfg : Cfg}
    {c c' : Coll T} {f : Registry T} {h h1 h' : Heap H} (hp : RegPost E A f h c.tree h1)
    (he : Coll.toVector pf A.zero cfg c h1 = .ok (c', h')) : RegPost E A f h c'.tree h' :=
  hp.trans fun f1 _ ok1 r1 => toVector_reg E A pf cfg c c' f1 h1 h' ok1 r1 he

/-- `Vector::new`. -/
theorem vectorNew_reg (E : Elem T H) (A : HashAlg H) (pf : Option Nat) (cfg : Cfg)
    (xs : List T) (f : Registry T) (h h' : Heap H) (c' : Coll T) (hok : HeapOK E A f h)
    (he : Coll.vectorNew pf A.zero cfg xs h = .ok (c', h')) : RegPost E A f h c'.tree h' := by
  simp only [Coll.vectorNew] at he
  split at he
  · split at he
    · cases he
    · rename_i c1 h1 e1
      exact reg_then_toVector (tryFromIter_reg E A pf cfg xs f h h1 c1 hok e1) he
  · cases he

/-- `Vector::try_from_iter`. -/
theorem vectorFromIter_reg (E : Elem T H) (A : HashAlg H) (pf : Option Nat) (cfg : Cfg)
    (xs : List T) (f : Registry T) (h h' : Heap H) (c' : Coll T) (hok : HeapOK E A f h)
    (he : Coll.vectorFromIter pf A.zero cfg xs h = .ok (c', h')) : RegPost E A f h c'.tree h' := by
  simp only [Coll.vectorFromIter] at he
  split at he
  · cases he
  · rename_i c1 h1 e1
    exact reg_then_toVector (tryFromIter_reg E A pf cfg xs f h h1 c1 hok e1) he

/-- `Vector::from_elem`. -/
theorem vectorFromElem_reg (E : Elem T H) (A : HashAlg H) (pf : Option Nat) (cfg : Cfg)
    (x : T) (f : Registry T) (h h' : Heap H) (c' : Coll T) (hok : HeapOK E A f h)
    (he : Coll.vectorFromElem pf A.zero cfg x h = .ok (c', h')) : RegPost E A f h c'.tree h' := by
  simp only [Coll.vectorFromElem] at he
  split at he
  · cases he
  · rename_i c1 h1 e1
    exact reg_then_toVector (repeat_reg E A pf cfg x cfg.N f h h1 c1 hok e1) he

/-- `List::pop_front_slow`. -/
theorem popFrontSlow_reg (E : Elem T H) (A : HashAlg H) (pf : Option Nat) (cfg : Cfg)
    (c c' : Coll T) (n : Nat) (f : Registry T) (h h' : Heap H) (hok : HeapOK E A f h)
    (he : Coll.popFrontSlow pf A.zero cfg c n h = .ok (c', h')) : RegPost E A f h c'.tree h' := by
  simp only [Coll.popFrontSlow] at he
  split at he
  · cases he
  · exact tryFromIter_reg E A pf cfg _ f h h' c' hok he

/-- `List::from_ssz_bytes`. -/
theorem sszDecodeList_reg (E : Elem T H) (A : HashAlg H) (cfg : Cfg) (bs : List UInt8)
    (f : Registry T) (h h' : Heap H) (c' : Coll T) (hok : HeapOK E A f h)
    (he : sszDecodeList E A.zero cfg bs h = .ok (c', h')) : RegPost E A f h c'.tree h' := by
  simp only [sszDecodeList] at he
  split at he
  · simp only [Except.ok.injEq] at he
    exact empty_reg E A E.pf cfg f h h' c' hok he
  · split at he
    · cases he
    · split at he
      · cases he
      · rename_i r e1
        simp only [Except.ok.injEq] at he
        subst he
        exact tryFromIter_reg E A E.pf cfg _ f h h' c' hok e1

/-- `Vector::from_ssz_bytes`. -/
theorem sszDecodeVector_reg (E : Elem T H) (A : HashAlg H) (cfg : Cfg) (bs : List UInt8)
    (f : Registry T) (h h' : Heap H) (c' : Coll T) (hok : HeapOK E A f h)
    (he : sszDecodeVector E A.zero cfg bs h = .ok (c', h')) : RegPost E A f h c'.tree h' := by
  simp only [sszDecodeVector] at he
  split at he
  · cases he
  · rename_i c1 h1 e1
    split at he
    · cases he
    · rename_i r e2
      simp only [Except.ok.injEq] at he
      subst he
      exact reg_then_toVector (sszDecodeList_reg E A cfg bs f h h1 c1 hok e1) e2

/-! ### `LevelIter`: every item yielded is a subtree of the root -/

/-- `LevelIter::next` only moves within a set of trees closed under taking children: the new stack
and the yielded node stay inside it. -/
theorem levelIter_next_inv (P : Tree T → Prop)
    (hP : ∀ id l r, P (.node id l r) → P l ∧ P r) (pf : Option Nat)
    (fullDepth level length : Nat) :
    ∀ (fuel : Nat) (s s' : IterState T) (item : Option (LevelNode T)),
      (∀ t ∈ s.stack, P t) →
      LevelIter.next pf fullDepth level length fuel s = .ok (item, s') →
      (∀ t ∈ s'.stack, P t) ∧ (∀ t, item = some (.internal t) → P t) := by
  intro fuel
  induction fuel with
  | zero => intro s s' item hst he; simp [LevelIter.next] at he
  | succ fuel ih =>
    intro s s' item hst he
    have hdrop : ∀ k, ∀ t ∈ s.stack.drop k, P t := fun k t ht => hst t (List.mem_of_mem_drop ht)
    have fin : ∀ (x : Option (LevelNode T)) (st : List (Tree T)) (ix : Nat),
        (∀ t ∈ st, P t) → (∀ t, x = some (.internal t) → P t) →
        (Except.ok (x, ⟨st, ix⟩) : Except Err _) = .ok (item, s') →
        (∀ t ∈ s'.stack, P t) ∧ (∀ t, item = some (.internal t) → P t) := by
      intro x st ix h1 h2 e
      simp only [Except.ok.injEq, Prod.mk.injEq] at e
      obtain ⟨rfl, rfl⟩ := e
      exact ⟨h1, h2⟩
    have nopk : ∀ (o : Option T) (t : Tree T),
        o.map LevelNode.packedLeaf = some (.internal t) → False := by
      intro o t e; cases o <;> simp at e
    simp only [LevelIter.next] at he
    split at he
    · exact fin none s.stack s.index hst (by simp) he
    · split at he
      · exact fin none s.stack s.index hst (by simp) he
      · exact fin none s.stack s.index hst (by simp) he
      · rename_i heq
        have htop := hst _ (heq ▸ List.mem_cons_self ..)
        split at he
        · cases he
        · exact fin _ _ _ (hdrop _) (by intro t ht; cases ht; exact htop) he
      · rename_i heq
        have htop := hst _ (heq ▸ List.mem_cons_self ..)
        split at he
        · cases he
        · split at he
          · split at he
            · cases he
            · exact fin _ _ _ (hdrop _) (by intro t ht; cases ht; exact htop) he
          · split at he
            · cases he
            · split at he
              · cases he
              · split at he
                · split at he
                  · cases he
                  · refine fin _ _ _ (hdrop _) ?_ he
                    intro t ht
                    exact (nopk _ t ht).elim
                · refine fin _ _ _ hst ?_ he
                  intro t ht
                  exact (nopk _ t ht).elim
      · rename_i heq
        have htop := hst _ (heq ▸ List.mem_cons_self ..)
        split at he
        · cases he
        · split at he
          · split at he
            · cases he
            · exact fin _ _ _ (hdrop _) (by intro t ht; cases ht; exact htop) he
          · split at he
            · refine ih _ s' item ?_ he
              intro t ht
              simp only [List.mem_cons] at ht
              rcases ht with rfl | ht
              · exact (hP _ _ _ htop).1
              · exact hst t ht
            · refine ih _ s' item ?_ he
              intro t ht
              simp only [List.mem_cons] at ht
              rcases ht with rfl | ht
              · exact (hP _ _ _ htop).2
              · exact hst t ht

theorem levelIter_collect_inv (P : Tree T → Prop)
    (hP : ∀ id l r, P (.node id l r) → P l ∧ P r) (pf : Option Nat)
    (fullDepth level length : Nat) :
    ∀ (n : Nat) (s : IterState T) (items : List (LevelNode T)),
      (∀ t ∈ s.stack, P t) →
      LevelIter.collect pf fullDepth level length n s = .ok items →
      ∀ t, LevelNode.internal t ∈ items → P t := by
  intro n
  induction n with
  | zero =>
    intro s items hst he t ht
    simp only [LevelIter.collect, Except.ok.injEq] at he
    subst he; cases ht
  | succ n ih =>
    intro s items hst he t ht
    simp only [LevelIter.collect] at he
    split at he
    · cases he
    · simp only [Except.ok.injEq] at he
      subst he; cases ht
    · rename_i x s1 e1
      obtain ⟨hs1, hx⟩ := levelIter_next_inv P hP pf fullDepth level length _ s s1 _ hst e1
      split at he
      · cases he
      · rename_i xs e2
        simp only [Except.ok.injEq] at he
        subst he
        simp only [List.mem_cons] at ht
        rcases ht with rfl | ht
        · exact hx t rfl
        · exact ih s1 xs hs1 e2 t ht

/-- the nodes yielded by `level_iter_from` are subtrees of the root. -/
theorem levelIterFrom_subtrees (pf : Option Nat) (c : Coll T) (index : Nat)
    (items : List (LevelNode T)) (he : c.levelIterFrom pf index = .ok items) :
    ∀ t, LevelNode.internal t ∈ items → t ∈ c.tree.subtrees := by
  simp only [Coll.levelIterFrom] at he
  split at he
  · cases he
  · split at he
    · cases he
    · refine levelIter_collect_inv (fun t => t ∈ c.tree.subtrees) ?_ pf _ _ _ _ _ items ?_ he
      · intro id l r hn
        exact ⟨Tree.reg_subtrees_trans hn (Tree.reg_left_mem_subtrees id l r),
          Tree.reg_subtrees_trans hn (Tree.reg_right_mem_subtrees id l r)⟩
      · intro t ht
        simp only [Iter.fromIndex, List.mem_singleton] at ht
        subst ht; exact c.tree.self_mem_subtrees

/-- …hence registered. -/
theorem levelIterFrom_reg (pf : Option Nat) (c : Coll T) (index : Nat)
    (items : List (LevelNode T)) (f : Registry T) (hc : Registered f c.tree)
    (he : c.levelIterFrom pf index = .ok items) : ItemsReg f items :=
  fun t ht => hc.of_subtree (levelIterFrom_subtrees pf c index items he t ht)

/-- **`List::pop_front`**: in every outcome (flush failed, request rejected, builder failed,
success) the returned collection's tree is registered after an `Ext` step. -/
theorem popFront_reg (E : Elem T H) (A : HashAlg H) (pf : Option Nat) (cfg : Cfg)
    (c c' : Coll T) (n : Nat) (f : Registry T) (h h' : Heap H) (r : Except Err Unit)
    (hok : HeapOK E A f h) (hc : Registered f c.tree)
    (he : c.popFront pf A.zero cfg n h = (r, c', h')) : RegPost E A f h c'.tree h' := by
  simp only [Coll.popFront] at he
  split at he
  · rename_i e c1 h1 e1
    simp only [Prod.mk.injEq] at he
    obtain ⟨-, rfl, rfl⟩ := he
    exact applyUpdates_reg E A pf cfg c c1 f h h1 _ hok hc e1
  · rename_i c1 h1 e1
    have p1 := applyUpdates_reg E A pf cfg c c1 f h h1 _ hok hc e1
    have done : ∀ {r0 : Except Err Unit}, (r0, c1, h1) = (r, c', h') → RegPost E A f h c'.tree h' := by
      intro r0 e
      simp only [Prod.mk.injEq] at e
      obtain ⟨-, rfl, rfl⟩ := e
      exact p1
    split at he
    · exact done he
    · split at he
      · exact done he
      · rename_i b hb
        have hst : b.stack = [] := by
          simp only [Builder.new] at hb
          split at hb
          · cases hb
          · simp only [Except.ok.injEq] at hb; subst hb; rfl
        split at he
        · exact done he
        · rename_i items hitems
          split at he
          · exact done he
          · rename_i b2 h2 e2
            obtain ⟨f1, x1, ok1, r1⟩ := p1
            obtain ⟨f2, x2, ok2, s2, -⟩ := popFeed_preg E A h1.next _ items b b2 f1 h1 h2 ok1
              (Nat.le_refl _) (by rw [hst]; exact PStackReg.nil_iff.2 trivial)
              (levelIterFrom_reg pf c1 n items f1 r1 hitems) e2
            split at he
            · simp only [Prod.mk.injEq] at he
              obtain ⟨-, rfl, rfl⟩ := he
              exact ⟨f2, x1.trans x2.toExt, ok2, r1.extA x2⟩
            · rename_i tree depth length h3 e3
              simp only [Prod.mk.injEq] at he
              obtain ⟨-, rfl, rfl⟩ := he
              obtain ⟨f3, x3, ok3, r3⟩ := builder_run_regPost x2 ok2 s2 e3
              exact ⟨f3, x1.trans x3, ok3, r3⟩

/-! ## 6. Bridge to `IExt` -/

/-- an `Ext` step is an `IExt` step (no memo changed at all). -/
theorem IExt_of_Ext {E : Elem T H} {A : HashAlg H} {f f' : Registry T} {h h' : Heap H}
    (e : Ext A.zero f h f' h') : IExt E A f h f' h' :=
  ⟨e.reg, e.next_le, fun i hi => Or.inl (e.read i hi)⟩

theorem RegPost.toIExt {E : Elem T H} {A : HashAlg H} {f : Registry T} {h h' : Heap H}
    {t' : Tree T} (hp : RegPost E A f h t' h') :
    ∃ f', IExt E A f h f' h' ∧ HeapOK E A f' h' ∧ Registered f' t' := by
  obtain ⟨f', x, ok', r'⟩ := hp
  exact ⟨f', IExt_of_Ext x, ok', r'⟩

/-! ### operations that do not touch the tree -/

theorem reg_push_tree (cfg : Cfg) (c c' : Coll T) (x : T) (he : c.push cfg x = .ok c') :
    c'.tree = c.tree := by
  simp only [Coll.push] at he
  split at he
  · cases he
  · split at he
    · cases he
    · simp only [Except.ok.injEq] at he; rw [← he]

theorem reg_getMutSet_tree (pf : Option Nat) (c c' : Coll T) (i : Nat) (x old : T)
    (he : c.getMutSet pf i x = some (old, c')) : c'.tree = c.tree := by
  simp only [Coll.getMutSet] at he
  split at he
  · simp only [Option.some.injEq, Prod.mk.injEq] at he; rw [← he.2]
  · cases he

theorem reg_getCow_tree (pf : Option Nat) (c c' : Coll T) (i : Nat) (act : CowAct T) (old : T)
    (he : c.getCow pf i act = some (old, c')) : c'.tree = c.tree := by
  simp only [Coll.getCow] at he
  split at he
  · cases he
  · cases act <;> (simp only [Option.some.injEq, Prod.mk.injEq] at he; rw [← he.2])

theorem reg_bulkUpdate_tree (cfg : Cfg) (c c' : Coll T) (u : UMap T)
    (he : c.bulkUpdate cfg u = .ok c') : c'.tree = c.tree := by
  simp only [Coll.bulkUpdate] at he
  split at he
  · cases he
  · split at he
    · simp only [Except.ok.injEq] at he; rw [← he]
    · split at he
      · cases he
      · split at he
        · cases he
        · split at he
          · cases he
          · simp only [Except.ok.injEq] at he; rw [← he]

/-! ## Non-vacuity: the hypotheses hold on concrete runs

`MerkleExample`: `List<u64,16>` holding `[1,2,3]` (packing factor 4, depth 2), five registered
nodes with ids `0..4`, heap `h0` with five zero memos. -/
namespace RegistryExample
open MerkleExample

def cfg : Cfg := ⟨16, .btree⟩

/-- `MerkleExample.c` (`[1,2,3]`) with two pending writes. -/
def cp : Coll Nat := { c with updates := .btree [(1, 9), (3, 7)] }
/-- … with a pending write beyond `N`. -/
def cbad : Coll Nat := { c with updates := .btree [(20, 9)] }

example : ∃ t' h', updLeaf E.pf A.zero 1 9 h0 t0 2 = .ok (t', h') ∧ RegPost E A f h0 t' h' :=
  ⟨_, _, rfl, updLeaf_reg E A E.pf 1 9 2 f h0 t0 _ _ heapOK reg rfl⟩

example : ∃ t' h', updLeaves E.pf A.zero (.btree [(1, 9), (3, 7)]) h0 t0 0 2 = .ok (t', h') ∧
    RegPost E A f h0 t' h' :=
  ⟨_, _, rfl, updLeaves_reg E A E.pf (.btree [(1, 9), (3, 7)]) 2 f h0 t0 0 _ _ heapOK reg rfl⟩

example : ∃ c' h', cp.applyUpdates E.pf A.zero cfg h0 = (.ok (), c', h') ∧
    c'.tree.erase = canon E.pf 2 [1, 9, 3, 7] ∧ h'.next = 8 ∧ RegPost E A f h0 c'.tree h' :=
  ⟨_, _, rfl, by decide, rfl, applyUpdates_reg E A E.pf cfg cp _ f h0 _ _ heapOK reg rfl⟩

example : ∃ c' , cbad.applyUpdates E.pf A.zero cfg h0 = (.error .invalidListUpdate, c', h0) ∧
    RegPost E A f h0 c'.tree h0 :=
  ⟨_, rfl, applyUpdates_reg E A E.pf cfg cbad _ f h0 _ _ heapOK reg rfl⟩

example : ∃ c' h', Coll.tryFromIter E.pf A.zero cfg [1, 2, 3, 4, 5] h0 = .ok (c', h') ∧
    RegPost E A f h0 c'.tree h' :=
  ⟨_, _, rfl, tryFromIter_reg E A E.pf cfg [1, 2, 3, 4, 5] f h0 _ _ heapOK rfl⟩

example : ∃ c' h', Coll.repeat_ E.pf A.zero cfg 7 6 h0 = .ok (c', h') ∧
    RegPost E A f h0 c'.tree h' :=
  ⟨_, _, rfl, repeat_reg E A E.pf cfg 7 6 f h0 _ _ heapOK rfl⟩

example : ∃ c' h' r, cp.popFront E.pf A.zero cfg 1 h0 = (r, c', h') ∧ r = .ok () ∧
    RegPost E A f h0 c'.tree h' :=
  ⟨_, _, _, rfl, rfl, popFront_reg E A E.pf cfg cp _ 1 f h0 _ _ heapOK reg rfl⟩


/-- the heap after the builder allocated its first packed leaf (id 5), still pending. -/
def h1 : Heap Nat := (h0.alloc 0).2
/-- the builder of `List<u64,16>` after `push 1`: the `Unarced` leaf `packed 5 [1]` on top. -/
def b1 : Builder Nat := ⟨[(.packed 5 [1], true)], 2, 0, 1, some 4⟩

theorem heapOK1 : HeapOK E A f h1 := (alloc_transient_ok heapOK 0).2

theorem pstack1 : PStackReg A.zero f h0.next h1 b1.pf b1.stack :=
  PStackReg.pending_iff.2 ⟨⟨by decide, by decide, rfl, rfl⟩, StackReg.nil _⟩

example : ∃ b' h', b1.push A.zero h1 2 = .ok (b', h') ∧
    b'.stack = [(.packed 5 [1, 2], true)] ∧
    ∃ f', ExtA A.zero h0.next f h1 f' h' ∧ HeapOK E A f' h' ∧
      PStackReg A.zero f' h0.next h' b'.pf b'.stack ∧ b'.pf = b1.pf :=
  ⟨_, _, rfl, rfl, push_preg E A h0.next b1 _ f h1 _ 2 heapOK1 (by decide) pstack1 rfl⟩

example : ∃ t d n h', b1.finish A.zero h1 = .ok ((t, d, n), h') ∧
    t.erase = canon E.pf 2 [1] ∧ RegPost E A f h0 t h' :=
  ⟨_, _, _, _, rfl, by decide,
    builder_run_regPost ((alloc_transient_ok heapOK 0).1.toExtA heapOK (Nat.le_refl _)) heapOK1
      pstack1 rfl⟩

/-- a builder at level 2 (whole packed leaves are pushed as nodes). -/
def b2 : Builder Nat := ⟨[], 2, 2, 0, some 4⟩

example : ∃ b' h', b2.pushNode A.zero h0 t2 3 = .ok (b', h') ∧
    ∃ f', Ext A.zero f h0 f' h' ∧ HeapOK E A f' h' ∧ StackReg f' b'.stack ∧ Registered f' t2 :=
  ⟨_, _, rfl, pushNode_reg E A b2 _ f h0 _ t2 3 heapOK (StackReg.nil _) reg.node_left.node_left rfl⟩

example : ∃ t d n h', (⟨[(t2, false)], 2, 2, 3, some 4⟩ : Builder Nat).finish A.zero h0
      = .ok ((t, d, n), h') ∧ t.erase = canon E.pf 2 [1, 2, 3] ∧ RegPost E A f h0 t h' :=
  ⟨_, _, _, _, rfl, by decide, finish_reg E A ⟨[(t2, false)], 2, 2, 3, some 4⟩ f h0 _ _ _ _ heapOK
    (StackReg.cons_iff.2 ⟨reg.node_left.node_left, StackReg.nil _⟩) rfl⟩

/-- unpacked kind: the `StackReg`/`Ext` form of `push`. -/
example : ∃ b' h', (⟨[], 2, 0, 0, none⟩ : Builder Nat).push A.zero h0 7 = .ok (b', h') ∧
    ∃ f', Ext A.zero f h0 f' h' ∧ HeapOK { E with pf := none } A f' h' ∧ StackReg f' b'.stack :=
  ⟨_, _, rfl, push_reg { E with pf := none } A ⟨[], 2, 0, 0, none⟩ _ f h0 _ 7 rfl
    ⟨heapOK.bound, fun id s hs => by
      have hlt : id < 5 := (List.getElem?_eq_some_iff.1 hs).1
      left
      have : id = 0 ∨ id = 1 ∨ id = 2 ∨ id = 3 ∨ id = 4 := by omega
      rcases this with rfl | rfl | rfl | rfl | rfl <;> rfl⟩ (StackReg.nil _) rfl⟩

example : ∃ c' h', Coll.toVector E.pf A.zero ⟨3, .btree⟩ c h0 = .ok (c', h') ∧
    RegPost E A f h0 c'.tree h' :=
  ⟨_, _, rfl, toVector_reg E A E.pf ⟨3, .btree⟩ c _ f h0 _ heapOK reg rfl⟩

example : ∃ c' h', Coll.vectorFromElem E.pf A.zero cfg 7 h0 = .ok (c', h') ∧
    c'.kind = .vector ∧ RegPost E A f h0 c'.tree h' :=
  ⟨_, _, rfl, rfl, vectorFromElem_reg E A E.pf cfg 7 f h0 _ _ heapOK rfl⟩

example : ∃ c' h', Coll.vectorNew E.pf A.zero ⟨3, .btree⟩ [4, 5, 6] h0 = .ok (c', h') ∧
    RegPost E A f h0 c'.tree h' :=
  ⟨_, _, rfl, vectorNew_reg E A E.pf ⟨3, .btree⟩ [4, 5, 6] f h0 _ _ heapOK rfl⟩

example : ∃ c' h', Coll.tryFromIterSlow E.pf A.zero cfg [1, 2, 3, 4, 5] h0 = .ok (c', h') ∧
    c'.tree.erase = canon E.pf 2 [1, 2, 3, 4, 5] ∧ RegPost E A f h0 c'.tree h' :=
  ⟨_, _, rfl, by decide, tryFromIterSlow_reg E A E.pf cfg [1, 2, 3, 4, 5] f h0 _ _ heapOK rfl⟩

example : ∃ c' h', Coll.popFrontSlow E.pf A.zero cfg cp 1 h0 = .ok (c', h') ∧
    c'.tree.erase = canon E.pf 2 [9, 3, 7] ∧ RegPost E A f h0 c'.tree h' :=
  ⟨_, _, rfl, by decide, popFrontSlow_reg E A E.pf cfg cp _ 1 f h0 _ heapOK rfl⟩

example : ∃ c' h', sszDecodeList E A.zero cfg [] h0 = .ok (c', h') ∧
    RegPost E A f h0 c'.tree h' :=
  ⟨_, _, rfl, sszDecodeList_reg E A cfg [] f h0 _ _ heapOK rfl⟩

/-- what was registered stays registered, and its memo is untouched. -/
example : ∃ c' h' f', cp.applyUpdates E.pf A.zero cfg h0 = (.ok (), c', h') ∧
    HeapOK E A f' h' ∧ Registered f' c'.tree ∧ Registered f' t0 ∧
    ∀ i, i < h0.next → h'.read A.zero i = h0.read A.zero i := by
  obtain ⟨f', -, ok', r', keep, rd⟩ := RegPost.keeps heapOK
    (applyUpdates_reg E A E.pf cfg cp _ f h0 _ _ heapOK reg rfl)
  exact ⟨_, _, f', rfl, ok', r', keep _ reg, rd⟩

example : ∃ c' h', sszDecodeVector E A.zero ⟨0, .btree⟩ [] h0 = .ok (c', h') ∧
    c'.kind = .vector ∧ RegPost E A f h0 c'.tree h' :=
  ⟨_, _, rfl, rfl, sszDecodeVector_reg E A ⟨0, .btree⟩ [] f h0 _ _ heapOK rfl⟩

end RegistryExample

end Milhouse
