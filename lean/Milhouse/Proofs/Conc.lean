import Milhouse.Proofs.Inv
/-!
# C16 — interleaving model of concurrent memoised hashing, and its theorems

This file is the one place where new *model* code is defined next to its theorems: a small-step
semantics of `Tree::tree_hash` (`/repo/src/tree.rs:529-572`, `packed_leaf.rs:30-49`) run by many
threads over trees that share nodes.

## Atomicity premise (what is assumed, not proved)

* One atomic step performs **at most one memo access**: exactly one memo read (`*hash.read()`,
  guard dropped at once) or exactly one memo write (`*hash.write() = v`) — this is what the
  `RwLock` makes atomic — or the thread-local computation `hash32_concat(l, r)` once both sides of
  a `rayon::join` have returned.  Thread-local computation that follows a read (`leafHash`,
  `packHash`, the zero-hash table lookup) is fused with that read: it touches no shared state.
* The code holds **no lock across the recursion or the `join`**: between the read of a node's memo
  and the write of the computed hash, arbitrarily many steps of other tasks (and of the sibling
  branch of the same `join`) may happen.
* The scheduler is **arbitrary**: among all tasks of the pool and, inside a task, among the two
  sides of any `join` (`Pos.left`/`Pos.right`).  A schedule may also name disabled positions or
  non-existent tasks; such actions are no-ops (they model a scheduler that picks a thread which
  turns out to have nothing to do).
* Everything other threads do privately (update, flush, rebase, clone of a packed leaf) only
  *allocates* fresh ids (`Arc::new`), with an initial memo that is absent or valid.  This is the
  action `Act.alloc s m`.  Trees themselves are immutable values.

The sequential transliteration `treeHash` (`Model/Rebase.lean`) is shown to be one particular
schedule of this semantics (`treeHash_is_schedule`), which ties the new model to the one that is
checked against the Rust by the correspondence runs.

## Contents

1. `Task`, `Pos`, `step`, `mu`, `TaskOK` (memo-independent), `RegLe`, `MemoLe`
2. `step_mu` (unconditional), `step_next`, `step_inv`, `step_sound`; `progress`/`enabledPos`
3. `Act`, `act`, `runSchedule`, `runPure`, `ownSteps`, `PoolOK`, `run_inv`, `run_inv_pure`
4. `treeHash_seq` (sequential result = `trueHash` under `HeapOK`), `treeHash_is_schedule`
5. `C16_any_schedule`, `C16_pure_schedule`, `memo_monotone`, `memo_stable`
6. `totalMu`, `stateAt`, `NonStalling`, `Fair`, `eventually_allFin`, `C16_fair_terminates`,
   the greedy scheduler, `exists_completing_schedule`
7. admissibility of the allocations the code performs; reads take no heap
8. concrete examples (`Ex`), all by `rfl`/`decide`
9. the main theorems restated as `Milhouse.*`

Not in this file: the oracle formulation `rebaseOnO` of `rebase_on` (optional target). What this
file provides for it is `C16_oracle_valid`: at every instant of every schedule, every memo of a
registered node reads as absent or as the node's true hash, i.e. `HeapOK` holds at every instant,
which is the only fact about memos that the rebase proofs use.
-/
namespace Milhouse
namespace Conc
variable {T H : Type}

/-! ## 1. Small-step semantics -/

/-- A suspended `tree_hash` call. -/
inductive Task (T H : Type) where
  /-- about to read the memo of `t` (`hash.read()`), or, for `Zero`, to return `zero_hash` -/
  | visit (t : Tree T)
  /-- inside `rayon::join` on the children of node `id`; then `hash32_concat` and write -/
  | join (id : Nat) (l r : Task T H)
  /-- about to execute `*hash.write() = v` on node `id` -/
  | wr (id : Nat) (v : H)
  /-- returned `v` -/
  | fin (v : H)
  deriving Repr, Inhabited

/-- Positions inside a task at which a step may be taken. -/
inductive Pos where
  | here
  | left (p : Pos)
  | right (p : Pos)
  deriving DecidableEq, Repr, Inhabited

/-- One atomic step at position `p`; `none` when no step is enabled there. -/
def step [DecidableEq H] (E : Elem T H) (A : HashAlg H) (h : Heap H) :
    Task T H → Pos → Option (Heap H × Task T H)
  | .visit (.zero _ d), .here => some (h, .fin (zeroHash A d))
  | .visit (.leaf id v), .here =>
      if h.read A.zero id ≠ A.zero then some (h, .fin (h.read A.zero id))
      else some (h, .wr id (E.leafHash v))
  | .visit (.packed id vs), .here =>
      if h.read A.zero id ≠ A.zero then some (h, .fin (h.read A.zero id))
      else some (h, .wr id (E.packHash vs))
  | .visit (.node id l r), .here =>
      if h.read A.zero id ≠ A.zero then some (h, .fin (h.read A.zero id))
      else some (h, .join id (.visit l) (.visit r))
  | .wr id v, .here => some (h.write id v, .fin v)
  | .join id (.fin a) (.fin b), .here => some (h, .wr id (A.h2 a b))
  | .join id l r, .left p => (step E A h l p).map fun (h', l') => (h', .join id l' r)
  | .join id l r, .right p => (step E A h r p).map fun (h', r') => (h', .join id l r')
  | _, _ => none

/-- The task's own termination measure. `mu (visit t) = 3 * size t`. -/
def mu : Task T H → Nat
  | .visit t => 3 * t.size
  | .join _ l r => mu l + mu r + 2
  | .wr _ _ => 1
  | .fin _ => 0

/-- `task` is an in-flight computation of the hash of `t`: every value it already carries is the
true hash of its node. Deliberately independent of the memo store, so that no step of any other
thread can invalidate it. -/
def TaskOK (E : Elem T H) (A : HashAlg H) (f : Registry T) : Task T H → Tree T → Prop
  | .visit t', t => t' = t ∧ Registered f t
  | .join id l r, .node id' tl tr =>
      id = id' ∧ f id = some (.node id tl tr) ∧ TaskOK E A f l tl ∧ TaskOK E A f r tr
  | .join _ _ _, _ => False
  | .wr id v, t => f id = some t ∧ v = trueHash E A t
  | .fin v, t => v = trueHash E A t

/-- Registry extension (other threads allocate new nodes). -/
def RegLe (f f' : Registry T) : Prop := ∀ id s, f id = some s → f' id = some s

theorem RegLe.refl (f : Registry T) : RegLe f f := fun _ _ h => h

theorem RegLe.trans {f g k : Registry T} (h1 : RegLe f g) (h2 : RegLe g k) : RegLe f k :=
  fun id s h => h2 id s (h1 id s h)

theorem registered_mono {f f' : Registry T} (hle : RegLe f f') {t : Tree T}
    (h : Registered f t) : Registered f' t := fun s hs => hle _ _ (h s hs)

theorem TaskOK.mono (E : Elem T H) (A : HashAlg H) {f f' : Registry T} (hle : RegLe f f') :
    ∀ (task : Task T H) (t : Tree T), TaskOK E A f task t → TaskOK E A f' task t := by
  intro task
  induction task with
  | visit t' => intro t h; exact ⟨h.1, registered_mono hle h.2⟩
  | wr id v => intro t h; exact ⟨hle _ _ h.1, h.2⟩
  | fin v => intro t h; exact h
  | join id l r ihl ihr =>
    intro t h
    cases t with
    | node id' tl tr =>
      obtain ⟨rfl, hc, hl, hr⟩ := h
      exact ⟨rfl, hle _ _ hc, ihl _ hl, ihr _ hr⟩
    | leaf _ _ => exact h.elim
    | packed _ _ => exact h.elim
    | zero _ _ => exact h.elim

/-- A memo only ever changes from absent to the true hash of the node registered under that id
(and a second writer stores the same value, so nothing changes). -/
def MemoLe (E : Elem T H) (A : HashAlg H) (f : Registry T) (h h' : Heap H) : Prop :=
  ∀ id, h'.read A.zero id = h.read A.zero id ∨
    (h.read A.zero id = A.zero ∧ ∃ s, f id = some s ∧ h'.read A.zero id = trueHash E A s)

theorem MemoLe.refl (E : Elem T H) (A : HashAlg H) (f : Registry T) (h : Heap H) :
    MemoLe E A f h h := fun _ => Or.inl rfl

theorem MemoLe.mono {E : Elem T H} {A : HashAlg H} {f f' : Registry T} {h h' : Heap H}
    (hle : RegLe f f') (hm : MemoLe E A f h h') : MemoLe E A f' h h' := by
  intro id
  rcases hm id with h1 | ⟨h0, s, hs, h1⟩
  · exact Or.inl h1
  · exact Or.inr ⟨h0, s, hle _ _ hs, h1⟩

theorem MemoLe.trans {E : Elem T H} {A : HashAlg H} {f : Registry T} {h1 h2 h3 : Heap H}
    (h12 : MemoLe E A f h1 h2) (h23 : MemoLe E A f h2 h3) : MemoLe E A f h1 h3 := by
  intro id
  rcases h12 id with e12 | ⟨z1, s, hs, e2⟩
  · rcases h23 id with e23 | ⟨z2, s, hs, e3⟩
    · exact Or.inl (e23.trans e12)
    · exact Or.inr ⟨e12 ▸ z2, s, hs, e3⟩
  · rcases h23 id with e23 | ⟨z2, s', hs', e3⟩
    · exact Or.inr ⟨z1, s, hs, e23.trans e2⟩
    · exact Or.inr ⟨z1, s', hs', e3⟩

/-- Writing the true hash of a registered node preserves `HeapOK` and is `MemoLe`-monotone. -/
theorem write_true (E : Elem T H) (A : HashAlg H) (f : Registry T) (h : Heap H) (id : Nat)
    (t : Tree T) (hok : HeapOK E A f h) (hc : f id = some t) :
    HeapOK E A f (h.write id (trueHash E A t)) ∧
      MemoLe E A f h (h.write id (trueHash E A t)) := by
  have hb : id < h.next := hok.bound id t hc
  refine ⟨⟨?_, ?_⟩, ?_⟩
  · intro id' s hs; rw [Heap.next_write]; exact hok.bound id' s hs
  · intro id' s hs
    by_cases he : id = id'
    · subst he
      rw [hc] at hs; cases hs
      right; exact Heap.read_write_same _ _ _ _ hb
    · rw [Heap.read_write_other _ _ _ _ _ he]; exact hok.memo id' s hs
  · intro id'
    by_cases he : id = id'
    · subst he
      rw [Heap.read_write_same _ _ _ _ hb]
      rcases hok.memo id t hc with h0 | h1
      · exact Or.inr ⟨h0, t, hc, rfl⟩
      · exact Or.inl h1.symm
    · exact Or.inl (Heap.read_write_other _ _ _ _ _ he)

variable [DecidableEq H]

/-! ## 2. Single-step theorems -/

/-- Every enabled step strictly decreases the task's own measure — with no hypothesis at all on
the heap or on what other threads did. -/
theorem step_mu (E : Elem T H) (A : HashAlg H) :
    ∀ (task : Task T H) (p : Pos) (h h' : Heap H) (task' : Task T H),
      step E A h task p = some (h', task') → mu task' < mu task := by
  intro task
  induction task with
  | visit t =>
    intro p h h' task' hs
    cases p with
    | here =>
      cases t with
      | zero i d => simp [step] at hs; obtain ⟨-, rfl⟩ := hs; simp [mu, Tree.size]
      | leaf id v =>
        simp only [step] at hs
        split at hs <;> (simp at hs; obtain ⟨-, rfl⟩ := hs; simp [mu, Tree.size])
      | packed id vs =>
        simp only [step] at hs
        split at hs <;> (simp at hs; obtain ⟨-, rfl⟩ := hs; simp [mu, Tree.size])
      | node id l r =>
        simp only [step] at hs
        split at hs <;> (simp at hs; obtain ⟨-, rfl⟩ := hs; simp [mu, Tree.size]; try omega)
    | left p => simp [step] at hs
    | right p => simp [step] at hs
  | wr id v =>
    intro p h h' task' hs
    cases p <;> simp [step] at hs
    obtain ⟨-, rfl⟩ := hs; simp [mu]
  | fin v => intro p h h' task' hs; cases p <;> simp [step] at hs
  | join id l r ihl ihr =>
    intro p h h' task' hs
    cases p with
    | here =>
      cases l <;> cases r <;> simp [step] at hs
      obtain ⟨-, rfl⟩ := hs; simp [mu]
    | left p =>
      simp only [step, Option.map_eq_some_iff] at hs
      obtain ⟨⟨h1, l1⟩, hs1, heq⟩ := hs
      simp at heq; obtain ⟨-, rfl⟩ := heq
      have := ihl p h h1 l1 hs1
      simp [mu]; omega
    | right p =>
      simp only [step, Option.map_eq_some_iff] at hs
      obtain ⟨⟨h1, r1⟩, hs1, heq⟩ := hs
      simp at heq; obtain ⟨-, rfl⟩ := heq
      have := ihr p h h1 r1 hs1
      simp [mu]; omega

/-- A hashing step never allocates. -/
theorem step_next (E : Elem T H) (A : HashAlg H) :
    ∀ (task : Task T H) (p : Pos) (h h' : Heap H) (task' : Task T H),
      step E A h task p = some (h', task') → h'.next = h.next := by
  intro task
  induction task with
  | visit t =>
    intro p h h' task' hs
    cases p with
    | here =>
      cases t with
      | zero i d => simp [step] at hs; obtain ⟨rfl, -⟩ := hs; rfl
      | leaf id v =>
        simp only [step] at hs
        split at hs <;> (simp at hs; obtain ⟨rfl, -⟩ := hs; rfl)
      | packed id vs =>
        simp only [step] at hs
        split at hs <;> (simp at hs; obtain ⟨rfl, -⟩ := hs; rfl)
      | node id l r =>
        simp only [step] at hs
        split at hs <;> (simp at hs; obtain ⟨rfl, -⟩ := hs; rfl)
    | left p => simp [step] at hs
    | right p => simp [step] at hs
  | wr id v =>
    intro p h h' task' hs
    cases p <;> simp [step] at hs
    obtain ⟨rfl, -⟩ := hs; exact Heap.next_write _ _ _
  | fin v => intro p h h' task' hs; cases p <;> simp [step] at hs
  | join id l r ihl ihr =>
    intro p h h' task' hs
    cases p with
    | here =>
      cases l <;> cases r <;> simp [step] at hs
      obtain ⟨rfl, -⟩ := hs; rfl
    | left p =>
      simp only [step, Option.map_eq_some_iff] at hs
      obtain ⟨⟨h1, l1⟩, hs1, heq⟩ := hs
      simp at heq; obtain ⟨rfl, -⟩ := heq
      exact ihl p h h1 l1 hs1
    | right p =>
      simp only [step, Option.map_eq_some_iff] at hs
      obtain ⟨⟨h1, r1⟩, hs1, heq⟩ := hs
      simp at heq; obtain ⟨rfl, -⟩ := heq
      exact ihr p h h1 r1 hs1

/-- Invariant part of the single-step theorem: from a valid heap, an enabled step of a valid task
gives a valid heap (same registry), a valid task, and changes memos only from absent to true. -/
theorem step_inv (E : Elem T H) (A : HashAlg H) (f : Registry T) :
    ∀ (task : Task T H) (t : Tree T) (p : Pos) (h h' : Heap H) (task' : Task T H),
      HeapOK E A f h → TaskOK E A f task t → step E A h task p = some (h', task') →
      HeapOK E A f h' ∧ TaskOK E A f task' t ∧ MemoLe E A f h h' := by
  intro task
  induction task with
  | visit t' =>
    intro t p h h' task' hm hok hs
    obtain ⟨rfl, hreg⟩ := hok
    have hc := hreg.self
    cases p with
    | here =>
      cases t' with
      | zero i d =>
        simp [step] at hs; obtain ⟨rfl, rfl⟩ := hs
        exact ⟨hm, by simp [TaskOK, trueHash], MemoLe.refl _ _ _ _⟩
      | leaf id v =>
        simp only [step] at hs
        split at hs
        · simp at hs; obtain ⟨rfl, rfl⟩ := hs
          rename_i hne
          rcases hm.memo id _ hc with h0 | h1
          · exact absurd h0 hne
          · exact ⟨hm, h1, MemoLe.refl _ _ _ _⟩
        · simp at hs; obtain ⟨rfl, rfl⟩ := hs
          exact ⟨hm, ⟨hc, by simp [trueHash]⟩, MemoLe.refl _ _ _ _⟩
      | packed id vs =>
        simp only [step] at hs
        split at hs
        · simp at hs; obtain ⟨rfl, rfl⟩ := hs
          rename_i hne
          rcases hm.memo id _ hc with h0 | h1
          · exact absurd h0 hne
          · exact ⟨hm, h1, MemoLe.refl _ _ _ _⟩
        · simp at hs; obtain ⟨rfl, rfl⟩ := hs
          exact ⟨hm, ⟨hc, by simp [trueHash]⟩, MemoLe.refl _ _ _ _⟩
      | node id l r =>
        simp only [step] at hs
        split at hs
        · simp at hs; obtain ⟨rfl, rfl⟩ := hs
          rename_i hne
          rcases hm.memo id _ hc with h0 | h1
          · exact absurd h0 hne
          · exact ⟨hm, h1, MemoLe.refl _ _ _ _⟩
        · simp at hs; obtain ⟨rfl, rfl⟩ := hs
          exact ⟨hm, ⟨rfl, hc, ⟨rfl, hreg.node_left⟩, ⟨rfl, hreg.node_right⟩⟩, MemoLe.refl _ _ _ _⟩
    | left p => simp [step] at hs
    | right p => simp [step] at hs
  | wr id v =>
    intro t p h h' task' hm hok hs
    obtain ⟨hc, rfl⟩ := hok
    cases p with
    | here =>
      simp [step] at hs; obtain ⟨rfl, rfl⟩ := hs
      obtain ⟨h1, h2⟩ := write_true E A f h id t hm hc
      exact ⟨h1, by simp [TaskOK], h2⟩
    | left p => simp [step] at hs
    | right p => simp [step] at hs
  | fin v =>
    intro t p h h' task' hm hok hs
    cases p <;> simp [step] at hs
  | join id l r ihl ihr =>
    intro t p h h' task' hm hok hs
    cases t with
    | leaf _ _ => exact hok.elim
    | packed _ _ => exact hok.elim
    | zero _ _ => exact hok.elim
    | node id' tl tr =>
      obtain ⟨rfl, hc, hl, hr⟩ := hok
      cases p with
      | here =>
        cases l <;> cases r <;> simp [step] at hs
        rename_i a b
        obtain ⟨rfl, rfl⟩ := hs
        simp only [TaskOK] at hl hr
        subst hl hr
        exact ⟨hm, ⟨hc, rfl⟩, MemoLe.refl _ _ _ _⟩
      | left p =>
        simp only [step, Option.map_eq_some_iff] at hs
        obtain ⟨⟨h1, l1⟩, hs1, heq⟩ := hs
        simp at heq; obtain ⟨rfl, rfl⟩ := heq
        obtain ⟨hm', hl', hle⟩ := ihl tl p h h1 l1 hm hl hs1
        exact ⟨hm', ⟨rfl, hc, hl', hr⟩, hle⟩
      | right p =>
        simp only [step, Option.map_eq_some_iff] at hs
        obtain ⟨⟨h1, r1⟩, hs1, heq⟩ := hs
        simp at heq; obtain ⟨rfl, rfl⟩ := heq
        obtain ⟨hm', hr', hle⟩ := ihr tr p h h1 r1 hm hr hs1
        exact ⟨hm', ⟨rfl, hc, hl, hr'⟩, hle⟩

/-- **Single-step theorem.** Every enabled step of a task that is computing the true hash of a
registered tree, from a valid heap, yields a valid heap for the *same* registry with `next`
unchanged, a task that is still valid, and a strictly smaller own measure. -/
theorem step_sound (E : Elem T H) (A : HashAlg H) (f : Registry T)
    (task : Task T H) (t : Tree T) (p : Pos) (h h' : Heap H) (task' : Task T H)
    (hh : HeapOK E A f h) (hok : TaskOK E A f task t) (hs : step E A h task p = some (h', task')) :
    HeapOK E A f h' ∧ h'.next = h.next ∧ TaskOK E A f task' t ∧ mu task' < mu task :=
  have ⟨h1, h2, _⟩ := step_inv E A f task t p h h' task' hh hok hs
  ⟨h1, step_next E A task p h h' task' hs, h2, step_mu E A task p h h' task' hs⟩

/-! ### Progress: a task that has not returned always has an enabled step -/

/-- A position at which the task can step (leftmost-innermost), `none` iff the task is `fin`. -/
def enabledPos : Task T H → Option Pos
  | .visit _ => some .here
  | .wr _ _ => some .here
  | .fin _ => none
  | .join _ l r =>
    match enabledPos l with
    | some p => some (.left p)
    | none =>
      match enabledPos r with
      | some p => some (.right p)
      | none => some .here

omit [DecidableEq H] in
theorem enabledPos_none (task : Task T H) : enabledPos task = none ↔ ∃ v, task = .fin v := by
  cases task with
  | visit t => simp [enabledPos]
  | wr id v => simp [enabledPos]
  | fin v => simp [enabledPos]
  | join id l r =>
    simp only [enabledPos]
    split
    · simp
    · split <;> simp

theorem fin_stuck (E : Elem T H) (A : HashAlg H) (h : Heap H) (v : H) (p : Pos) :
    step E A h (.fin v : Task T H) p = none := by
  cases p <;> simp [step]

/-- No step ever waits: the position `enabledPos` is enabled in *every* heap. -/
theorem enabledPos_enabled (E : Elem T H) (A : HashAlg H) (h : Heap H) :
    ∀ (task : Task T H) (p : Pos), enabledPos task = some p → (step E A h task p).isSome := by
  intro task
  induction task with
  | visit t =>
    intro p hp; simp [enabledPos] at hp; subst hp
    cases t <;> simp only [step] <;> (try split) <;> simp
  | wr id v => intro p hp; simp [enabledPos] at hp; subst hp; simp [step]
  | fin v => intro p hp; simp [enabledPos] at hp
  | join id l r ihl ihr =>
    intro p hp
    simp only [enabledPos] at hp
    split at hp
    · rename_i q hq
      simp at hp; subst hp
      have := ihl q hq
      simp only [step, Option.isSome_map]; exact this
    · rename_i hl
      split at hp
      · rename_i q hq
        simp at hp; subst hp
        have := ihr q hq
        simp only [step, Option.isSome_map]; exact this
      · rename_i hr
        simp at hp; subst hp
        obtain ⟨a, rfl⟩ := (enabledPos_none l).1 hl
        obtain ⟨b, rfl⟩ := (enabledPos_none r).1 hr
        simp [step]

/-- **Progress.** A task that is not `fin` has an enabled step, whatever the heap contains. -/
theorem progress (E : Elem T H) (A : HashAlg H) (h : Heap H) (task : Task T H)
    (hnf : ∀ v, task ≠ .fin v) : ∃ p r, step E A h task p = some r := by
  cases hp : enabledPos task with
  | none => obtain ⟨v, hv⟩ := (enabledPos_none task).1 hp; exact absurd hv (hnf v)
  | some p =>
    have := enabledPos_enabled E A h task p hp
    exact ⟨p, Option.isSome_iff_exists.1 this⟩

omit [DecidableEq H] in
theorem mu_eq_zero (task : Task T H) : mu task = 0 ↔ ∃ v, task = .fin v := by
  cases task with
  | visit t => cases t <;> simp [mu, Tree.size]
  | wr id v => simp [mu]
  | fin v => simp [mu]
  | join id l r => simp [mu]

/-! ## 3. Pools and schedules -/

/-- One scheduler action: run task `i` at position `p`, or a foreign allocation
(`Arc::new` of node `s` with initial memo `m`) by some thread's private update/rebase/clone. -/
inductive Act (T H : Type) where
  | run (i : Nat) (p : Pos)
  | alloc (s : Tree T) (m : H)
  deriving Repr

/-- Shared heap and the pool of hashing tasks. -/
abbrev St (T H : Type) := Heap H × List (Task T H)

/-- Execute one action. Actions naming a missing task or a disabled position are no-ops. -/
def act (E : Elem T H) (A : HashAlg H) (st : St T H) : Act T H → St T H
  | .run i p =>
    match st.2[i]? with
    | none => st
    | some tk =>
      match step E A st.1 tk p with
      | none => st
      | some (h', tk') => (h', st.2.set i tk')
  | .alloc _ m => ((st.1.alloc m).2, st.2)

/-- Run a schedule. -/
def runSchedule (E : Elem T H) (A : HashAlg H) (st : St T H) (sched : List (Act T H)) : St T H :=
  sched.foldl (act E A) st

/-- The simple schedules of the task statement: which task, which position. -/
def runPure (E : Elem T H) (A : HashAlg H) (st : St T H) (sched : List (Nat × Pos)) : St T H :=
  runSchedule E A st (sched.map fun ip => .run ip.1 ip.2)

/-- does action `a` make task `i` take a step in state `st`? -/
def fires (E : Elem T H) (A : HashAlg H) (st : St T H) (a : Act T H) (i : Nat) : Bool :=
  match a with
  | .run j p =>
    j == i && (match st.2[j]? with
      | some tk => (step E A st.1 tk p).isSome
      | none => false)
  | .alloc _ _ => false

/-- number of steps task `i` itself takes along the schedule. -/
def ownSteps (E : Elem T H) (A : HashAlg H) (i : Nat) : St T H → List (Act T H) → Nat
  | _, [] => 0
  | st, a :: as => (if fires E A st a i then 1 else 0) + ownSteps E A i (act E A st a) as

/-- measure of task `i` of the pool (0 if there is no such task). -/
def muAt (pool : List (Task T H)) (i : Nat) : Nat :=
  match pool[i]? with
  | some tk => mu tk
  | none => 0

/-- a foreign allocation is admissible if the initial memo is absent or valid for the node. -/
def AllocOK (E : Elem T H) (A : HashAlg H) : Act T H → Prop
  | .run _ _ => True
  | .alloc s m => m = A.zero ∨ m = trueHash E A s

instance (E : Elem T H) (A : HashAlg H) (a : Act T H) : Decidable (AllocOK E A a) := by
  cases a <;> simp only [AllocOK] <;> infer_instance

theorem runSchedule_nil (E : Elem T H) (A : HashAlg H) (st : St T H) :
    runSchedule E A st [] = st := rfl

theorem runSchedule_cons (E : Elem T H) (A : HashAlg H) (st : St T H) (a : Act T H)
    (as : List (Act T H)) :
    runSchedule E A st (a :: as) = runSchedule E A (act E A st a) as := rfl

theorem runSchedule_append (E : Elem T H) (A : HashAlg H) (st : St T H)
    (s1 s2 : List (Act T H)) :
    runSchedule E A st (s1 ++ s2) = runSchedule E A (runSchedule E A st s1) s2 := by
  simp [runSchedule, List.foldl_append]

theorem act_run_none (E : Elem T H) (A : HashAlg H) (st : St T H) (i : Nat) (p : Pos)
    (hi : st.2[i]? = none) : act E A st (.run i p) = st := by
  simp [act, hi]

theorem act_run_stuck (E : Elem T H) (A : HashAlg H) (st : St T H) (i : Nat) (p : Pos)
    (tk : Task T H) (hi : st.2[i]? = some tk) (hs : step E A st.1 tk p = none) :
    act E A st (.run i p) = st := by
  simp [act, hi, hs]

theorem act_run_some (E : Elem T H) (A : HashAlg H) (st : St T H) (i : Nat) (p : Pos)
    (tk tk' : Task T H) (h' : Heap H) (hi : st.2[i]? = some tk)
    (hs : step E A st.1 tk p = some (h', tk')) :
    act E A st (.run i p) = (h', st.2.set i tk') := by
  simp [act, hi, hs]

theorem fires_run (E : Elem T H) (A : HashAlg H) (st : St T H) (i j : Nat) (p : Pos) :
    fires E A st (.run j p) i = true ↔
      j = i ∧ ∃ tk r, st.2[j]? = some tk ∧ step E A st.1 tk p = some r := by
  simp only [fires, Bool.and_eq_true, beq_iff_eq]
  constructor
  · rintro ⟨rfl, h⟩
    refine ⟨rfl, ?_⟩
    split at h
    · rename_i tk htk
      obtain ⟨r, hr⟩ := Option.isSome_iff_exists.1 h
      exact ⟨tk, r, htk, hr⟩
    · exact absurd h (by simp)
  · rintro ⟨rfl, tk, r, htk, hr⟩
    simp [htk, hr]

/-- A step of one task never touches another task (hence neither its `TaskOK` nor its `mu`). -/
theorem act_other (E : Elem T H) (A : HashAlg H) (st : St T H) (i j : Nat) (p : Pos)
    (hij : i ≠ j) : (act E A st (.run i p)).2[j]? = st.2[j]? := by
  cases hi : st.2[i]? with
  | none => rw [act_run_none E A st i p hi]
  | some tk =>
    cases hs : step E A st.1 tk p with
    | none => rw [act_run_stuck E A st i p tk hi hs]
    | some r =>
      obtain ⟨h', tk'⟩ := r
      rw [act_run_some E A st i p tk tk' h' hi hs]
      simp [List.getElem?_set_ne hij]

theorem act_length (E : Elem T H) (A : HashAlg H) (st : St T H) (a : Act T H) :
    (act E A st a).2.length = st.2.length := by
  cases a with
  | alloc s m => rfl
  | run i p =>
    cases hi : st.2[i]? with
    | none => rw [act_run_none E A st i p hi]
    | some tk =>
      cases hs : step E A st.1 tk p with
      | none => rw [act_run_stuck E A st i p tk hi hs]
      | some r =>
        obtain ⟨h', tk'⟩ := r
        rw [act_run_some E A st i p tk tk' h' hi hs]
        simp

/-- The measure of every task is non-increasing under *every* action, and drops by at least one
when the task itself steps. No hypothesis on the heap, the registry, or the other tasks. -/
theorem act_mu (E : Elem T H) (A : HashAlg H) (st : St T H) (a : Act T H) (i : Nat) :
    (if fires E A st a i then 1 else 0) + muAt (act E A st a).2 i ≤ muAt st.2 i := by
  cases a with
  | alloc s m => simp [fires, act]
  | run j p =>
    cases hj : st.2[j]? with
    | none =>
      rw [act_run_none E A st j p hj]
      have : fires E A st (.run j p) i = false := by simp [fires, hj]
      simp [this]
    | some tk =>
      cases hs : step E A st.1 tk p with
      | none =>
        rw [act_run_stuck E A st j p tk hj hs]
        have : fires E A st (.run j p) i = false := by simp [fires, hj, hs]
        simp [this]
      | some r =>
        obtain ⟨h', tk'⟩ := r
        rw [act_run_some E A st j p tk tk' h' hj hs]
        have hmu := step_mu E A tk p st.1 h' tk' hs
        by_cases hji : j = i
        · subst hji
          have hlt : j < st.2.length := by
            rcases List.getElem?_eq_some_iff.1 hj with ⟨hlt, _⟩; exact hlt
          have : fires E A st (.run j p) j = true := by simp [fires, hj, hs]
          simp [this, muAt, List.getElem?_set_self hlt, hj]
          omega
        · have : fires E A st (.run j p) i = false := by simp [fires, hji]
          simp [this, muAt, List.getElem?_set_ne hji]

/-- **Bounded own work.** Along every schedule, the number of steps task `i` takes plus its
remaining measure never exceeds its initial measure — whatever the other threads do. -/
theorem ownSteps_le (E : Elem T H) (A : HashAlg H) (i : Nat) :
    ∀ (sched : List (Act T H)) (st : St T H),
      ownSteps E A i st sched + muAt (runSchedule E A st sched).2 i ≤ muAt st.2 i := by
  intro sched
  induction sched with
  | nil => intro st; simp [ownSteps, runSchedule]
  | cons a as ih =>
    intro st
    have h1 := act_mu E A st a i
    have h2 := ih (act E A st a)
    simp only [ownSteps, runSchedule_cons]
    omega

/-! ### The pool invariant -/

/-- Heap valid for registry `f`; task `i` is an in-flight hash computation of `trees[i]`. -/
structure PoolOK (E : Elem T H) (A : HashAlg H) (f : Registry T) (st : St T H)
    (trees : List (Tree T)) : Prop where
  heap : HeapOK E A f st.1
  len : st.2.length = trees.length
  tasks : ∀ (i : Nat) (tk : Task T H) (t : Tree T),
    st.2[i]? = some tk → trees[i]? = some t → TaskOK E A f tk t

/-- A hashing action preserves the pool invariant for the same registry, allocates nothing, and
changes memos only from absent to true. -/
theorem act_run_inv (E : Elem T H) (A : HashAlg H) (f : Registry T) (st : St T H)
    (trees : List (Tree T)) (i : Nat) (p : Pos) (hok : PoolOK E A f st trees) :
    PoolOK E A f (act E A st (.run i p)) trees ∧
      (act E A st (.run i p)).1.next = st.1.next ∧
      MemoLe E A f st.1 (act E A st (.run i p)).1 := by
  cases hi : st.2[i]? with
  | none => rw [act_run_none E A st i p hi]; exact ⟨hok, rfl, MemoLe.refl _ _ _ _⟩
  | some tk =>
    cases hs : step E A st.1 tk p with
    | none => rw [act_run_stuck E A st i p tk hi hs]; exact ⟨hok, rfl, MemoLe.refl _ _ _ _⟩
    | some r =>
      obtain ⟨h', tk'⟩ := r
      rw [act_run_some E A st i p tk tk' h' hi hs]
      have hlt : i < st.2.length := by
        rcases List.getElem?_eq_some_iff.1 hi with ⟨hlt, _⟩; exact hlt
      have hlt' : i < trees.length := hok.len ▸ hlt
      have ht : trees[i]? = some trees[i] := List.getElem?_eq_getElem hlt'
      have htk := hok.tasks i tk _ hi ht
      obtain ⟨h1, h2, h3⟩ := step_inv E A f tk _ p st.1 h' tk' hok.heap htk hs
      refine ⟨⟨h1, by simpa using hok.len, ?_⟩, step_next E A tk p st.1 h' tk' hs, h3⟩
      intro j tkj tj hj htj
      by_cases hij : i = j
      · subst hij
        simp [List.getElem?_set_self hlt] at hj
        subst hj
        rw [ht] at htj; cases htj
        exact h2
      · simp only [List.getElem?_set_ne hij] at hj
        exact hok.tasks j tkj tj hj htj

/-- registry after a foreign allocation of node `s` -/
def regExt (f : Registry T) (n : Nat) (s : Tree T) : Registry T :=
  fun i => if i = n then some s else f i

/-- A foreign allocation with an absent or valid initial memo preserves the pool invariant for
the registry extended by the new node. -/
theorem act_alloc_inv (E : Elem T H) (A : HashAlg H) (f : Registry T) (st : St T H)
    (trees : List (Tree T)) (s : Tree T) (m : H) (hok : PoolOK E A f st trees)
    (hm : m = A.zero ∨ m = trueHash E A s) :
    RegLe f (regExt f st.1.next s) ∧
      PoolOK E A (regExt f st.1.next s) (act E A st (.alloc s m)) trees ∧
      MemoLe E A (regExt f st.1.next s) st.1 (act E A st (.alloc s m)).1 := by
  have hle : RegLe f (regExt f st.1.next s) := by
    intro id s' hs'
    have := hok.heap.bound id s' hs'
    simp only [regExt]
    rw [if_neg (by omega)]; exact hs'
  refine ⟨hle, ⟨⟨?_, ?_⟩, hok.len, ?_⟩, ?_⟩
  · intro id s' hs'
    simp only [act, Heap.next_alloc]
    simp only [regExt] at hs'
    split at hs'
    · omega
    · have := hok.heap.bound id s' hs'; omega
  · intro id s' hs'
    simp only [act]
    simp only [regExt] at hs'
    split at hs'
    · rename_i he; subst he
      cases hs'
      have := Heap.read_alloc_new st.1 A.zero m
      rw [Heap.alloc_fst] at this
      rw [this]; exact hm
    · have hb := hok.heap.bound id s' hs'
      rw [Heap.read_alloc_old _ _ _ _ hb]
      exact hok.heap.memo id s' hs'
  · intro i tk t hi ht
    exact TaskOK.mono E A hle tk t (hok.tasks i tk t hi ht)
  · intro id
    simp only [act]
    rcases Nat.lt_trichotomy id st.1.next with hlt | heq | hgt
    · exact Or.inl (Heap.read_alloc_old _ _ _ _ hlt)
    · subst heq
      have hnew := Heap.read_alloc_new st.1 A.zero m
      rw [Heap.alloc_fst] at hnew
      have hold := Heap.read_fresh st.1 A.zero st.1.next (Nat.le_refl _)
      rcases hm with h0 | h1
      · left; rw [hnew, hold, h0]
      · right; exact ⟨hold, s, by simp [regExt], by rw [hnew, h1]⟩
    · left
      rw [Heap.read_fresh _ _ _ (by rw [Heap.next_alloc]; omega),
        Heap.read_fresh _ _ _ (by omega)]

/-- **Invariant along every schedule** (with foreign allocations): there is an extension of the
registry for which the pool invariant holds at the end, and memos changed only from absent to
true. -/
theorem run_inv (E : Elem T H) (A : HashAlg H) (trees : List (Tree T)) :
    ∀ (sched : List (Act T H)) (f : Registry T) (st : St T H),
      PoolOK E A f st trees → (∀ a ∈ sched, AllocOK E A a) →
      ∃ f', RegLe f f' ∧ PoolOK E A f' (runSchedule E A st sched) trees ∧
        MemoLe E A f' st.1 (runSchedule E A st sched).1 := by
  intro sched
  induction sched with
  | nil => intro f st hok _; exact ⟨f, RegLe.refl f, hok, MemoLe.refl _ _ _ _⟩
  | cons a as ih =>
    intro f st hok hall
    have has : ∀ a ∈ as, AllocOK E A a := fun a ha => hall a (List.mem_cons_of_mem _ ha)
    rw [runSchedule_cons]
    cases a with
    | run i p =>
      obtain ⟨h1, _, h3⟩ := act_run_inv E A f st trees i p hok
      obtain ⟨f', hle, hok', hm'⟩ := ih f _ h1 has
      exact ⟨f', hle, hok', (h3.mono hle).trans hm'⟩
    | alloc s m =>
      have hm : m = A.zero ∨ m = trueHash E A s := hall (.alloc s m) (List.mem_cons_self ..)
      obtain ⟨hle1, h1, h3⟩ := act_alloc_inv E A f st trees s m hok hm
      obtain ⟨f', hle, hok', hm'⟩ := ih _ _ h1 has
      exact ⟨f', hle1.trans hle, hok', (h3.mono hle).trans hm'⟩

/-- Schedules of hashing steps only: same registry, `next` unchanged. -/
theorem run_inv_pure (E : Elem T H) (A : HashAlg H) (trees : List (Tree T)) (f : Registry T) :
    ∀ (sched : List (Nat × Pos)) (st : St T H),
      PoolOK E A f st trees →
      PoolOK E A f (runPure E A st sched) trees ∧ (runPure E A st sched).1.next = st.1.next ∧
        MemoLe E A f st.1 (runPure E A st sched).1 := by
  intro sched
  induction sched with
  | nil => intro st hok; exact ⟨hok, rfl, MemoLe.refl _ _ _ _⟩
  | cons a as ih =>
    intro st hok
    obtain ⟨h1, h2, h3⟩ := act_run_inv E A f st trees a.1 a.2 hok
    obtain ⟨k1, k2, k3⟩ := ih _ h1
    simp only [runPure, List.map_cons, runSchedule_cons] at *
    exact ⟨k1, k2.trans h2, h3.trans k3⟩

/-! ## 4. The sequential `treeHash` of the model

(kept local to this file: the value and invariant facts needed for clause (ii), and the fact that
the sequential transliteration is one schedule of the small-step semantics) -/

/-- Under `HeapOK`, the sequential `treeHash` returns the true hash, keeps the heap valid for the
same registry, allocates nothing and changes memos only from absent to true. -/
theorem treeHash_seq (E : Elem T H) (A : HashAlg H) (f : Registry T) :
    ∀ (t : Tree T) (h : Heap H), HeapOK E A f h → Registered f t →
      (treeHash E A h t).1 = trueHash E A t ∧ HeapOK E A f (treeHash E A h t).2 ∧
      (treeHash E A h t).2.next = h.next ∧ MemoLe E A f h (treeHash E A h t).2 := by
  intro t
  induction t with
  | zero i d => intro h hok _; simp [treeHash, trueHash, hok, MemoLe.refl]
  | leaf id v =>
    intro h hok hreg
    have hc := hreg.self
    simp only [treeHash]
    split
    · rename_i hne
      rcases hok.memo id _ hc with h0 | h1
      · exact absurd h0 hne
      · exact ⟨h1, hok, rfl, MemoLe.refl _ _ _ _⟩
    · obtain ⟨w1, w2⟩ := write_true E A f h id _ hok hc
      exact ⟨rfl, w1, Heap.next_write _ _ _, w2⟩
  | packed id vs =>
    intro h hok hreg
    have hc := hreg.self
    simp only [treeHash]
    split
    · rename_i hne
      rcases hok.memo id _ hc with h0 | h1
      · exact absurd h0 hne
      · exact ⟨h1, hok, rfl, MemoLe.refl _ _ _ _⟩
    · obtain ⟨w1, w2⟩ := write_true E A f h id _ hok hc
      exact ⟨rfl, w1, Heap.next_write _ _ _, w2⟩
  | node id l r ihl ihr =>
    intro h hok hreg
    have hc := hreg.self
    simp only [treeHash]
    split
    · rename_i hne
      rcases hok.memo id _ hc with h0 | h1
      · exact absurd h0 hne
      · exact ⟨h1, hok, rfl, MemoLe.refl _ _ _ _⟩
    · obtain ⟨l1, l2, l3, l4⟩ := ihl h hok hreg.node_left
      obtain ⟨r1, r2, r3, r4⟩ := ihr _ l2 hreg.node_right
      obtain ⟨w1, w2⟩ := write_true E A f _ id _ r2 hc
      simp only [trueHash] at w1 w2 ⊢
      rw [l1, r1]
      exact ⟨rfl, w1, by rw [Heap.next_write, r3, l3], (l4.trans r4).trans w2⟩

/-- Run one task alone along a list of positions; fails if some position is not enabled. -/
def runTask (E : Elem T H) (A : HashAlg H) :
    Heap H × Task T H → List Pos → Option (Heap H × Task T H)
  | c, [] => some c
  | c, p :: ps =>
    match step E A c.1 c.2 p with
    | none => none
    | some c' => runTask E A c' ps

theorem runTask_append (E : Elem T H) (A : HashAlg H) :
    ∀ (ps qs : List Pos) (c c' : Heap H × Task T H), runTask E A c ps = some c' →
      runTask E A c (ps ++ qs) = runTask E A c' qs := by
  intro ps
  induction ps with
  | nil => intro qs c c' h; simp [runTask] at h; subst h; rfl
  | cons p ps ih =>
    intro qs c c' h
    simp only [runTask, List.cons_append] at h ⊢
    cases hs : step E A c.1 c.2 p with
    | none => simp [hs] at h
    | some c1 => simp only [hs] at h ⊢; exact ih qs c1 c' h

theorem runTask_left (E : Elem T H) (A : HashAlg H) (id : Nat) (r : Task T H) :
    ∀ (ps : List Pos) (h h' : Heap H) (l l' : Task T H),
      runTask E A (h, l) ps = some (h', l') →
      runTask E A (h, .join id l r) (ps.map .left) = some (h', .join id l' r) := by
  intro ps
  induction ps with
  | nil => intro h h' l l' hr; simp [runTask] at hr ⊢; obtain ⟨rfl, rfl⟩ := hr; exact ⟨rfl, rfl⟩
  | cons p ps ih =>
    intro h h' l l' hr
    simp only [runTask, List.map_cons] at hr ⊢
    cases hs : step E A h l p with
    | none => simp [hs] at hr
    | some c1 =>
      obtain ⟨h1, l1⟩ := c1
      simp only [hs] at hr
      simp only [step, hs, Option.map_some]
      exact ih h1 h' l1 l' hr

theorem runTask_right (E : Elem T H) (A : HashAlg H) (id : Nat) (l : Task T H) :
    ∀ (ps : List Pos) (h h' : Heap H) (r r' : Task T H),
      runTask E A (h, r) ps = some (h', r') →
      runTask E A (h, .join id l r) (ps.map .right) = some (h', .join id l r') := by
  intro ps
  induction ps with
  | nil => intro h h' r r' hr; simp [runTask] at hr ⊢; obtain ⟨rfl, rfl⟩ := hr; exact ⟨rfl, rfl⟩
  | cons p ps ih =>
    intro h h' r r' hr
    simp only [runTask, List.map_cons] at hr ⊢
    cases hs : step E A h r p with
    | none => simp [hs] at hr
    | some c1 =>
      obtain ⟨h1, r1⟩ := c1
      simp only [hs] at hr
      simp only [step, hs, Option.map_some]
      exact ih h1 h' r1 r' hr

/-- The schedule that the sequential code follows: read; on a miss, the whole left child, then
the whole right child, then combine, then write. -/
def seqSched (E : Elem T H) (A : HashAlg H) : Heap H → Tree T → List Pos
  | _, .zero _ _ => [.here]
  | h, .leaf id _ => if h.read A.zero id ≠ A.zero then [.here] else [.here, .here]
  | h, .packed id _ => if h.read A.zero id ≠ A.zero then [.here] else [.here, .here]
  | h, .node id l r =>
    if h.read A.zero id ≠ A.zero then [.here]
    else
      .here :: ((seqSched E A h l).map .left ++
        ((seqSched E A (treeHash E A h l).2 r).map .right ++ [.here, .here]))

/-- **The sequential transliteration is one schedule of the small-step semantics** (no
hypotheses): running `visit t` alone along `seqSched` ends in `fin` of the value that the model's
`treeHash` returns, in exactly the heap that `treeHash` returns. -/
theorem treeHash_is_schedule (E : Elem T H) (A : HashAlg H) :
    ∀ (t : Tree T) (h : Heap H),
      runTask E A (h, .visit t) (seqSched E A h t) =
        some ((treeHash E A h t).2, .fin (treeHash E A h t).1) := by
  intro t
  induction t with
  | zero i d => intro h; simp [seqSched, runTask, step, treeHash]
  | leaf id v =>
    intro h
    simp only [seqSched, treeHash]
    split <;> simp [runTask, step, *]
  | packed id vs =>
    intro h
    simp only [seqSched, treeHash]
    split <;> simp [runTask, step, *]
  | node id l r ihl ihr =>
    intro h
    simp only [seqSched, treeHash]
    split
    · simp [runTask, step, *]
    · rename_i hz
      simp only [runTask, step, hz, if_false]
      have e1 := runTask_left E A id (.visit r) _ _ _ _ _ (ihl h)
      rw [runTask_append E A _ _ _ _ e1]
      have e2 := runTask_right E A id (.fin (treeHash E A h l).1) _ _ _ _ _
        (ihr (treeHash E A h l).2)
      rw [runTask_append E A _ _ _ _ e2]
      simp [runTask, step]

/-- A single-task run is a pool schedule of a one-task pool. -/
theorem runTask_runPure (E : Elem T H) (A : HashAlg H) :
    ∀ (ps : List Pos) (c c' : Heap H × Task T H), runTask E A c ps = some c' →
      runPure E A (c.1, [c.2]) (ps.map fun p => (0, p)) = (c'.1, [c'.2]) := by
  intro ps
  induction ps with
  | nil => intro c c' h; simp [runTask] at h; subst h; rfl
  | cons p ps ih =>
    intro c c' h
    simp only [runTask] at h
    cases hs : step E A c.1 c.2 p with
    | none => simp [hs] at h
    | some c1 =>
      simp only [hs] at h
      have := ih c1 c' h
      simp only [runPure, List.map_cons, runSchedule_cons] at this ⊢
      rw [act_run_some E A (c.1, [c.2]) 0 p c.2 c1.2 c1.1 (by simp) (by simpa using hs)]
      simpa using this

/-! ## 5. Pool-level theorems -/

/-- the initial state: every thread is about to call `tree_hash` on its tree. -/
def initSt (h0 : Heap H) (trees : List (Tree T)) : St T H := (h0, trees.map .visit)

omit [DecidableEq H] in
theorem poolOK_init (E : Elem T H) (A : HashAlg H) (f : Registry T) (h0 : Heap H)
    (trees : List (Tree T)) (hh : HeapOK E A f h0) (hreg : ∀ t ∈ trees, Registered f t) :
    PoolOK E A f (initSt h0 trees) trees := by
  refine ⟨hh, by simp [initSt], ?_⟩
  intro i tk t hi ht
  simp only [initSt, List.getElem?_map, ht, Option.map_some, Option.some.injEq] at hi
  subst hi
  exact ⟨rfl, hreg t (List.mem_of_getElem? ht)⟩

/-- A finished task stays finished, with the same value, under every action. -/
theorem act_fin_stable (E : Elem T H) (A : HashAlg H) (st : St T H) (a : Act T H) (i : Nat)
    (v : H) (hi : st.2[i]? = some (.fin v)) : (act E A st a).2[i]? = some (.fin v) := by
  cases a with
  | alloc s m => exact hi
  | run j p =>
    by_cases hji : j = i
    · subst hji
      rw [act_run_stuck E A st j p _ hi (fin_stuck E A _ v p)]; exact hi
    · rw [act_other E A st j i p hji]; exact hi

theorem run_fin_stable (E : Elem T H) (A : HashAlg H) (i : Nat) (v : H) :
    ∀ (sched : List (Act T H)) (st : St T H), st.2[i]? = some (.fin v) →
      (runSchedule E A st sched).2[i]? = some (.fin v) := by
  intro sched
  induction sched with
  | nil => intro st h; exact h
  | cons a as ih => intro st h; exact ih _ (act_fin_stable E A st a i v h)

/-- In every state whatsoever, a task that has not returned can take a step right now:
no step ever waits for another thread. -/
theorem no_wait (E : Elem T H) (A : HashAlg H) (st : St T H) (i : Nat) (tk : Task T H)
    (hi : st.2[i]? = some tk) (hnf : ∀ v, tk ≠ .fin v) :
    ∃ p, fires E A st (.run i p) i = true := by
  obtain ⟨p, r, hs⟩ := progress E A st.1 tk hnf
  exact ⟨p, (fires_run E A st i i p).2 ⟨rfl, tk, r, hi, hs⟩⟩

/-- **C16, every schedule.** Pool of threads each calling `tree_hash` on a registered tree (the
same tree, trees sharing nodes, trees in which one subtree occurs at several positions), any
schedule of hashing steps and admissible foreign allocations. At every instant `k`:
(i) the heap is valid for an extension of the registry;
(ii) a task that has returned `v` returned the true hash of its tree, which is what the sequential
`treeHash` returns from the initial heap;
(iii) task `i` has taken at most `3 * size tᵢ` steps, whatever the others did;
(iv) every task that has not returned has a step enabled right now (no waiting, no deadlock);
(v) the number of tasks never changes. -/
theorem C16_any_schedule (E : Elem T H) (A : HashAlg H) (f : Registry T) (h0 : Heap H)
    (trees : List (Tree T)) (sched : List (Act T H))
    (hh : HeapOK E A f h0) (hreg : ∀ t ∈ trees, Registered f t)
    (hal : ∀ a ∈ sched, AllocOK E A a) :
    ∀ k : Nat,
      let st := runSchedule E A (initSt h0 trees) (sched.take k)
      (∃ f', RegLe f f' ∧ HeapOK E A f' st.1) ∧
      (∀ (i : Nat) (v : H) (t : Tree T), st.2[i]? = some (.fin v) → trees[i]? = some t →
        v = trueHash E A t ∧ v = (treeHash E A h0 t).1) ∧
      (∀ (i : Nat) (t : Tree T), trees[i]? = some t →
        ownSteps E A i (initSt h0 trees) (sched.take k) ≤ 3 * t.size) ∧
      (∀ (i : Nat) (tk : Task T H), st.2[i]? = some tk → (∀ v, tk ≠ .fin v) →
        ∃ p, fires E A st (.run i p) i = true) ∧
      st.2.length = trees.length := by
  intro k
  have hal' : ∀ a ∈ sched.take k, AllocOK E A a := fun a ha => hal a (List.mem_of_mem_take ha)
  obtain ⟨f', hle, hok, _⟩ :=
    run_inv E A trees (sched.take k) f _ (poolOK_init E A f h0 trees hh hreg) hal'
  refine ⟨⟨f', hle, hok.heap⟩, ?_, ?_, ?_, hok.len⟩
  · intro i v t hi ht
    have h1 : v = trueHash E A t := hok.tasks i _ t hi ht
    have h2 := (treeHash_seq E A f t h0 hh (hreg t (List.mem_of_getElem? ht))).1
    exact ⟨h1, h1.trans h2.symm⟩
  · intro i t ht
    have := ownSteps_le E A i (sched.take k) (initSt h0 trees)
    have h0' : muAt (initSt h0 trees).2 i = 3 * t.size := by
      simp [muAt, initSt, List.getElem?_map, ht, mu]
    omega
  · intro i tk hi hnf
    exact no_wait E A _ i tk hi hnf

/-- **C16 for schedules of hashing steps only** (`List (Nat × Pos)`: which task, which position):
the registry and `next` stay the same. -/
theorem C16_pure_schedule (E : Elem T H) (A : HashAlg H) (f : Registry T) (h0 : Heap H)
    (trees : List (Tree T)) (sched : List (Nat × Pos))
    (hh : HeapOK E A f h0) (hreg : ∀ t ∈ trees, Registered f t) :
    ∀ k : Nat,
      let st := runPure E A (initSt h0 trees) (sched.take k)
      HeapOK E A f st.1 ∧ st.1.next = h0.next ∧ MemoLe E A f h0 st.1 ∧
      (∀ (i : Nat) (v : H) (t : Tree T), st.2[i]? = some (.fin v) → trees[i]? = some t →
        v = trueHash E A t ∧ v = (treeHash E A h0 t).1) := by
  intro k
  obtain ⟨hok, hn, hm⟩ :=
    run_inv_pure E A trees f (sched.take k) _ (poolOK_init E A f h0 trees hh hreg)
  refine ⟨hok.heap, hn, hm, ?_⟩
  intro i v t hi ht
  have h1 : v = trueHash E A t := hok.tasks i _ t hi ht
  have h2 := (treeHash_seq E A f t h0 hh (hreg t (List.mem_of_getElem? ht))).1
  exact ⟨h1, h1.trans h2.symm⟩

/-- **Memo monotonicity.** Between any two instants of any schedule, every memo either is
unchanged or went from absent to the true hash of the node registered under its id (so a second
writer stored the same value as the first). -/
theorem memo_monotone (E : Elem T H) (A : HashAlg H) (f : Registry T) (h0 : Heap H)
    (trees : List (Tree T)) (s1 s2 : List (Act T H))
    (hh : HeapOK E A f h0) (hreg : ∀ t ∈ trees, Registered f t)
    (hal : ∀ a ∈ s1 ++ s2, AllocOK E A a) :
    ∃ f', RegLe f f' ∧
      HeapOK E A f' (runSchedule E A (initSt h0 trees) (s1 ++ s2)).1 ∧
      MemoLe E A f' (runSchedule E A (initSt h0 trees) s1).1
        (runSchedule E A (initSt h0 trees) (s1 ++ s2)).1 := by
  obtain ⟨f1, hle1, hok1, _⟩ :=
    run_inv E A trees s1 f _ (poolOK_init E A f h0 trees hh hreg)
      (fun a ha => hal a (List.mem_append_left _ ha))
  obtain ⟨f2, hle2, hok2, hm2⟩ :=
    run_inv E A trees s2 f1 _ hok1 (fun a ha => hal a (List.mem_append_right _ ha))
  rw [runSchedule_append]
  exact ⟨f2, hle1.trans hle2, hok2.heap, hm2⟩

/-- Idempotent writes, stated directly: once a registered memo is present it never changes. -/
theorem memo_stable (E : Elem T H) (A : HashAlg H) (f : Registry T) (h0 : Heap H)
    (trees : List (Tree T)) (s1 s2 : List (Act T H))
    (hh : HeapOK E A f h0) (hreg : ∀ t ∈ trees, Registered f t)
    (hal : ∀ a ∈ s1 ++ s2, AllocOK E A a) (id : Nat)
    (hne : (runSchedule E A (initSt h0 trees) s1).1.read A.zero id ≠ A.zero) :
    (runSchedule E A (initSt h0 trees) (s1 ++ s2)).1.read A.zero id =
      (runSchedule E A (initSt h0 trees) s1).1.read A.zero id := by
  obtain ⟨f', _, _, hm⟩ := memo_monotone E A f h0 trees s1 s2 hh hreg hal
  rcases hm id with h | ⟨h, _⟩
  · exact h
  · exact absurd h hne

/-! ## 6. Termination: global measure, infinite schedules, fairness -/

/-- total remaining work of the pool. -/
def totalMu : List (Task T H) → Nat
  | [] => 0
  | t :: ts => mu t + totalMu ts

/-- every task of the pool has returned. -/
def AllFin (pool : List (Task T H)) : Prop := ∀ tk ∈ pool, ∃ v, tk = Task.fin v

omit [DecidableEq H] in
theorem totalMu_set : ∀ (l : List (Task T H)) (i : Nat) (x y : Task T H), l[i]? = some y →
    totalMu (l.set i x) + mu y = totalMu l + mu x := by
  intro l
  induction l with
  | nil => intro i x y h; simp at h
  | cons a l ih =>
    intro i x y h
    cases i with
    | zero => simp at h; subst h; simp [totalMu]; omega
    | succ i =>
      simp at h
      have := ih i x y h
      simp [totalMu]; omega

omit [DecidableEq H] in
theorem totalMu_eq_zero (l : List (Task T H)) : totalMu l = 0 ↔ AllFin l := by
  induction l with
  | nil => simp [totalMu, AllFin]
  | cons a l ih =>
    simp only [totalMu, AllFin, List.mem_cons, forall_eq_or_imp, Nat.add_eq_zero_iff, mu_eq_zero]
    rw [ih]; rfl

/-- does the action make *some* task step? -/
def anyFires (E : Elem T H) (A : HashAlg H) (st : St T H) : Act T H → Bool
  | .run j p => fires E A st (.run j p) j
  | .alloc _ _ => false

theorem fires_anyFires (E : Elem T H) (A : HashAlg H) (st : St T H) (a : Act T H) (i : Nat)
    (h : fires E A st a i = true) : anyFires E A st a = true := by
  cases a with
  | alloc s m => simp [fires] at h
  | run j p =>
    have := ((fires_run E A st i j p).1 h).1
    subst this; exact h

/-- Every action leaves the total measure non-increasing; an effective step decreases it. -/
theorem act_totalMu (E : Elem T H) (A : HashAlg H) (st : St T H) (a : Act T H) :
    (if anyFires E A st a then 1 else 0) + totalMu (act E A st a).2 ≤ totalMu st.2 := by
  cases a with
  | alloc s m => simp [anyFires, act]
  | run j p =>
    cases hj : st.2[j]? with
    | none =>
      rw [act_run_none E A st j p hj]
      have : anyFires E A st (.run j p) = false := by simp [anyFires, fires, hj]
      simp [this]
    | some tk =>
      cases hs : step E A st.1 tk p with
      | none =>
        rw [act_run_stuck E A st j p tk hj hs]
        have : anyFires E A st (.run j p) = false := by simp [anyFires, fires, hj, hs]
        simp [this]
      | some r =>
        obtain ⟨h', tk'⟩ := r
        rw [act_run_some E A st j p tk tk' h' hj hs]
        have hmu := step_mu E A tk p st.1 h' tk' hs
        have hset := totalMu_set st.2 j tk' tk hj
        have : anyFires E A st (.run j p) = true := by simp [anyFires, fires, hj, hs]
        simp only [this, if_true]
        omega

/-- **Global bound.** Along any schedule at most `totalMu` effective steps happen in total. -/
theorem run_totalMu (E : Elem T H) (A : HashAlg H) :
    ∀ (sched : List (Act T H)) (st : St T H),
      totalMu (runSchedule E A st sched).2 ≤ totalMu st.2 := by
  intro sched
  induction sched with
  | nil => intro st; exact Nat.le_refl _
  | cons a as ih =>
    intro st
    have h1 := act_totalMu E A st a
    have h2 := ih (act E A st a)
    rw [runSchedule_cons]; omega

/-- state after `n` actions of the infinite schedule `σ`. -/
def stateAt (E : Elem T H) (A : HashAlg H) (st0 : St T H) (σ : Nat → Act T H) : Nat → St T H
  | 0 => st0
  | n+1 => act E A (stateAt E A st0 σ n) (σ n)

theorem stateAt_eq_run (E : Elem T H) (A : HashAlg H) (st0 : St T H) (σ : Nat → Act T H) :
    ∀ n, stateAt E A st0 σ n = runSchedule E A st0 ((List.range n).map σ) := by
  intro n
  induction n with
  | zero => rfl
  | succ n ih =>
    rw [List.range_succ, List.map_append, runSchedule_append, ← ih]
    rfl

theorem totalMu_stateAt_mono (E : Elem T H) (A : HashAlg H) (st0 : St T H) (σ : Nat → Act T H)
    (n d : Nat) : totalMu (stateAt E A st0 σ (n + d)).2 ≤ totalMu (stateAt E A st0 σ n).2 := by
  induction d with
  | zero => exact Nat.le_refl _
  | succ d ih =>
    have := act_totalMu E A (stateAt E A st0 σ (n + d)) (σ (n + d))
    show totalMu (act E A (stateAt E A st0 σ (n + d)) (σ (n + d))).2 ≤ _
    omega

/-- The scheduler does not stall: as long as some task has not returned, an effective step is
eventually taken (of *some* task — the weakest liveness assumption one can make). -/
def NonStalling (E : Elem T H) (A : HashAlg H) (st0 : St T H) (σ : Nat → Act T H) : Prop :=
  ∀ n, ¬ AllFin (stateAt E A st0 σ n).2 →
    ∃ n', n ≤ n' ∧ anyFires E A (stateAt E A st0 σ n') (σ n') = true

/-- Fair schedule: every task that has not returned eventually takes a step itself. -/
def Fair (E : Elem T H) (A : HashAlg H) (st0 : St T H) (σ : Nat → Act T H) : Prop :=
  ∀ (n i : Nat) (tk : Task T H), (stateAt E A st0 σ n).2[i]? = some tk → (∀ v, tk ≠ .fin v) →
    ∃ n', n ≤ n' ∧ fires E A (stateAt E A st0 σ n') (σ n') i = true

theorem Fair.nonStalling {E : Elem T H} {A : HashAlg H} {st0 : St T H} {σ : Nat → Act T H}
    (hf : Fair E A st0 σ) : NonStalling E A st0 σ := by
  intro n hn
  have : ∃ (i : Nat) (tk : Task T H),
      (stateAt E A st0 σ n).2[i]? = some tk ∧ ∀ v, tk ≠ Task.fin v := by
    apply Classical.byContradiction
    intro hc
    apply hn
    intro tk htk
    obtain ⟨i, hi⟩ := List.getElem?_of_mem htk
    apply Classical.byContradiction
    intro hnf
    exact hc ⟨i, tk, hi, fun v hv => hnf ⟨v, hv⟩⟩
  obtain ⟨i, tk, hi, hnf⟩ := this
  obtain ⟨n', hle, hfire⟩ := hf n i tk hi hnf
  exact ⟨n', hle, fires_anyFires E A _ _ i hfire⟩

/-- **Termination.** Every non-stalling schedule reaches, after finitely many actions, a state
in which all tasks have returned, and stays there. No hypothesis on heap or registry. -/
theorem eventually_allFin (E : Elem T H) (A : HashAlg H) (st0 : St T H) (σ : Nat → Act T H)
    (hns : NonStalling E A st0 σ) : ∃ N, ∀ n, N ≤ n → AllFin (stateAt E A st0 σ n).2 := by
  have key : ∀ M n, totalMu (stateAt E A st0 σ n).2 ≤ M →
      ∃ N, AllFin (stateAt E A st0 σ N).2 := by
    intro M
    induction M with
    | zero => intro n h; exact ⟨n, (totalMu_eq_zero _).1 (by omega)⟩
    | succ M ih =>
      intro n h
      by_cases hfin : AllFin (stateAt E A st0 σ n).2
      · exact ⟨n, hfin⟩
      · obtain ⟨n', hle, hfire⟩ := hns n hfin
        have h1 := act_totalMu E A (stateAt E A st0 σ n') (σ n')
        simp only [hfire, if_true] at h1
        have h2 := totalMu_stateAt_mono E A st0 σ n (n' - n)
        rw [Nat.add_sub_cancel' hle] at h2
        exact ih (n' + 1) (by show totalMu (act E A _ _).2 ≤ M; omega)
  obtain ⟨N, hN⟩ := key _ 0 (Nat.le_refl _)
  refine ⟨N, fun n hn => ?_⟩
  have h0 := (totalMu_eq_zero _).2 hN
  have h2 := totalMu_stateAt_mono E A st0 σ N (n - N)
  rw [Nat.add_sub_cancel' hn] at h2
  exact (totalMu_eq_zero _).1 (by omega)

theorem act_not_fires (E : Elem T H) (A : HashAlg H) (st : St T H) (a : Act T H) (i : Nat)
    (h : fires E A st a i = false) : (act E A st a).2[i]? = st.2[i]? := by
  cases a with
  | alloc s m => rfl
  | run j p =>
    by_cases hji : j = i
    · subst hji
      cases hj : st.2[j]? with
      | none => rw [act_run_none E A st j p hj]; exact hj
      | some tk =>
        cases hs : step E A st.1 tk p with
        | none => rw [act_run_stuck E A st j p tk hj hs]; exact hj
        | some r => simp [fires, hj, hs] at h
    · exact act_other E A st j i p hji

/-- Since no step ever waits, non-stalling already implies fairness towards every task: the two
liveness notions coincide for this system. -/
theorem NonStalling.fair {E : Elem T H} {A : HashAlg H} {st0 : St T H} {σ : Nat → Act T H}
    (hns : NonStalling E A st0 σ) : Fair E A st0 σ := by
  intro n i tk hi hnf
  apply Classical.byContradiction
  intro hc
  have hno : ∀ n', n ≤ n' → fires E A (stateAt E A st0 σ n') (σ n') i = false := by
    intro n' hle
    cases hf : fires E A (stateAt E A st0 σ n') (σ n') i with
    | false => rfl
    | true => exact absurd ⟨n', hle, hf⟩ hc
  have hsame : ∀ d, (stateAt E A st0 σ (n + d)).2[i]? = some tk := by
    intro d
    induction d with
    | zero => exact hi
    | succ d ih =>
      show (act E A (stateAt E A st0 σ (n + d)) (σ (n + d))).2[i]? = _
      rw [act_not_fires E A _ _ i (hno (n + d) (by omega))]; exact ih
  obtain ⟨N, hN⟩ := eventually_allFin E A st0 σ hns
  have h1 := hsame N
  obtain ⟨v, hv⟩ := hN (n + N) (by omega) tk (List.mem_of_getElem? h1)
  exact hnf v hv

/-- **C16, termination with the right answers.** Under every non-stalling (in particular every
fair) infinite schedule of hashing steps and admissible foreign allocations, from some instant on
every thread has returned the true hash of its tree = the sequential result. -/
theorem C16_fair_terminates (E : Elem T H) (A : HashAlg H) (f : Registry T) (h0 : Heap H)
    (trees : List (Tree T)) (σ : Nat → Act T H)
    (hh : HeapOK E A f h0) (hreg : ∀ t ∈ trees, Registered f t)
    (hal : ∀ n, AllocOK E A (σ n)) (hns : NonStalling E A (initSt h0 trees) σ) :
    ∃ N, ∀ n, N ≤ n → ∀ (i : Nat) (t : Tree T), trees[i]? = some t →
      (stateAt E A (initSt h0 trees) σ n).2[i]? = some (.fin (trueHash E A t)) ∧
      trueHash E A t = (treeHash E A h0 t).1 := by
  obtain ⟨N, hN⟩ := eventually_allFin E A _ σ hns
  refine ⟨N, fun n hn i t ht => ?_⟩
  have hfin := hN n hn
  rw [stateAt_eq_run] at hfin ⊢
  have hal' : ∀ a ∈ (List.range n).map σ, AllocOK E A a := by
    intro a ha
    obtain ⟨k, _, rfl⟩ := List.mem_map.1 ha
    exact hal k
  obtain ⟨f', _, hok, _⟩ :=
    run_inv E A trees _ f _ (poolOK_init E A f h0 trees hh hreg) hal'
  have hlt : i < trees.length := (List.getElem?_eq_some_iff.1 ht).1
  have hlt' : i < (runSchedule E A (initSt h0 trees) ((List.range n).map σ)).2.length :=
    hok.len ▸ hlt
  have hi := List.getElem?_eq_getElem hlt'
  obtain ⟨v, hv⟩ := hfin _ (List.mem_of_getElem? hi)
  rw [hv] at hi
  have h1 : v = trueHash E A t := hok.tasks i _ t hi ht
  subst h1
  exact ⟨hi, (treeHash_seq E A f t h0 hh (hreg t (List.mem_of_getElem? ht))).1.symm⟩

/-! ### A non-stalling scheduler exists (satisfiability of the liveness hypothesis) -/

/-- first task that has not returned, with an enabled position. -/
def firstEnabled : List (Task T H) → Option (Nat × Pos)
  | [] => none
  | tk :: ts =>
    match enabledPos tk with
    | some p => some (0, p)
    | none => (firstEnabled ts).map fun ip => (ip.1 + 1, ip.2)

omit [DecidableEq H] in
theorem firstEnabled_none : ∀ (l : List (Task T H)), firstEnabled l = none → AllFin l := by
  intro l
  induction l with
  | nil => intro _ tk h; simp at h
  | cons a l ih =>
    intro h tk htk
    simp only [firstEnabled] at h
    split at h
    · simp at h
    · rename_i ha
      simp at h
      rcases List.mem_cons.1 htk with rfl | hm
      · exact (enabledPos_none _).1 ha
      · exact ih h tk hm

omit [DecidableEq H] in
theorem firstEnabled_some : ∀ (l : List (Task T H)) (i : Nat) (p : Pos),
    firstEnabled l = some (i, p) → ∃ tk, l[i]? = some tk ∧ enabledPos tk = some p := by
  intro l
  induction l with
  | nil => intro i p h; simp [firstEnabled] at h
  | cons a l ih =>
    intro i p h
    simp only [firstEnabled] at h
    split at h
    · rename_i q hq
      simp at h; obtain ⟨rfl, rfl⟩ := h
      exact ⟨a, by simp, hq⟩
    · simp only [Option.map_eq_some_iff] at h
      obtain ⟨⟨j, q⟩, hjq, heq⟩ := h
      simp at heq; obtain ⟨rfl, rfl⟩ := heq
      obtain ⟨tk, h1, h2⟩ := ih j q hjq
      exact ⟨tk, by simpa using h1, h2⟩

/-- the greedy scheduler's choice in a state. -/
def pick (st : St T H) : Act T H :=
  match firstEnabled st.2 with
  | some (i, p) => .run i p
  | none => .run 0 .here

def greedySt (E : Elem T H) (A : HashAlg H) (st0 : St T H) : Nat → St T H
  | 0 => st0
  | n+1 => act E A (greedySt E A st0 n) (pick (greedySt E A st0 n))

/-- the greedy schedule: always step the first unfinished task. -/
def greedy (E : Elem T H) (A : HashAlg H) (st0 : St T H) (n : Nat) : Act T H :=
  pick (greedySt E A st0 n)

theorem stateAt_greedy (E : Elem T H) (A : HashAlg H) (st0 : St T H) :
    ∀ n, stateAt E A st0 (greedy E A st0) n = greedySt E A st0 n := by
  intro n
  induction n with
  | zero => rfl
  | succ n ih => simp only [stateAt, greedySt, ih, greedy]

theorem greedy_nonStalling (E : Elem T H) (A : HashAlg H) (st0 : St T H) :
    NonStalling E A st0 (greedy E A st0) := by
  intro n hn
  refine ⟨n, Nat.le_refl _, ?_⟩
  rw [stateAt_greedy] at hn ⊢
  simp only [greedy, pick]
  cases hfe : firstEnabled (greedySt E A st0 n).2 with
  | none => exact absurd (firstEnabled_none _ hfe) hn
  | some ip =>
    obtain ⟨i, p⟩ := ip
    obtain ⟨tk, h1, h2⟩ := firstEnabled_some _ i p hfe
    obtain ⟨r, hr⟩ := Option.isSome_iff_exists.1 (enabledPos_enabled E A (greedySt E A st0 n).1 tk p h2)
    exact (fires_run E A _ i i p).2 ⟨rfl, tk, r, h1, hr⟩

theorem greedy_allocOK (E : Elem T H) (A : HashAlg H) (st0 : St T H) (n : Nat) :
    AllocOK E A (greedy E A st0 n) := by
  simp only [greedy, pick]
  split <;> trivial

/-- **Deadlock freedom, constructively**: from every state whatsoever there is a finite schedule
of hashing steps after which every task has returned. -/
theorem exists_completing_schedule (E : Elem T H) (A : HashAlg H) (st0 : St T H) :
    ∃ sched : List (Act T H), (∀ a ∈ sched, AllocOK E A a) ∧
      AllFin (runSchedule E A st0 sched).2 := by
  obtain ⟨N, hN⟩ := eventually_allFin E A st0 _ (greedy_nonStalling E A st0)
  refine ⟨(List.range N).map (greedy E A st0), ?_, ?_⟩
  · intro a ha
    obtain ⟨k, _, rfl⟩ := List.mem_map.1 ha
    exact greedy_allocOK E A st0 k
  · rw [← stateAt_eq_run]; exact hN N (Nat.le_refl _)

/-! ## 7. Foreign allocations that occur in the code are admissible; reads never see the memo -/

omit [DecidableEq H] in
/-- update / flush / builder: `Arc::new` with an absent memo. -/
theorem allocOK_zero (E : Elem T H) (A : HashAlg H) (s : Tree T) :
    AllocOK E A (.alloc s A.zero) := Or.inl rfl

omit [DecidableEq H] in
/-- rebase (`Self::node(l, r, orig_hash)`), intra-rebase, `PackedLeaf::clone`: the new node copies
a memo read *at any earlier instant* from a registered node with the same true hash. The condition
is on the value, not on the state, so it does not matter how many steps of other threads happen
between the read and the allocation. -/
theorem allocOK_copy (E : Elem T H) (A : HashAlg H) (f : Registry T) (h : Heap H)
    (hok : HeapOK E A f h) (id : Nat) (s s' : Tree T) (hs : f id = some s)
    (heq : trueHash E A s' = trueHash E A s) :
    AllocOK E A (.alloc s' (h.read A.zero id)) := by
  rcases hok.memo id s hs with h0 | h1
  · exact Or.inl h0
  · exact Or.inr (h1.trans heq.symm)

/-- **Reads commute with everything.** Element reads (`getRec`), iteration, `len`, `clone` of an
`Arc` take a tree and no heap: whatever observation `obs` a reader computes from its tree, it is
the same before, during and after any schedule of other threads' hashing steps and allocations.
(True by the *types* of `getRec`/`toList`/`computeLen` in the model: the memo store is not an
argument. The trees of the pool are immutable values; `runSchedule` has no way to change them.) -/
theorem reads_commute {α : Type} (obs : Tree T → α) (E : Elem T H) (A : HashAlg H)
    (st : St T H) (sched : List (Act T H)) (t : Tree T) :
    (fun (_ : St T H) => obs t) (runSchedule E A st sched) = (fun (_ : St T H) => obs t) st := rfl

/-- instance for element reads. -/
theorem getRec_commutes (pf : Option Nat) (t : Tree T) (i d : Nat) (E : Elem T H) (A : HashAlg H)
    (st : St T H) (sched : List (Act T H)) :
    (fun (_ : St T H) => getRec pf t i d) (runSchedule E A st sched) = getRec pf t i d := rfl

/-! ## 8. Non-vacuity: concrete pools, schedules and hypotheses -/

namespace Ex

/-- a free (collision-free, uninterpreted) hash algebra. -/
inductive FH where
  | z
  | lf (n : Nat)
  | pk (ns : List Nat)
  | nd (a b : FH)
  deriving DecidableEq, Repr

def A : HashAlg FH := ⟨.z, .nd⟩
def E : Elem Nat FH :=
  { pf := none, leafHash := .lf, packHash := .pk, fixedLen := some 8,
    enc := fun _ => [], dec := fun _ => none }

/-- a 3-node tree, hashed by two threads at once. -/
def t3 : Tree Nat := .node 2 (.leaf 0 7) (.leaf 1 9)
/-- a tree in which the same subtree occurs at several positions (as built by `repeat`). -/
def dag : Tree Nat := .node 2 (.node 1 (.leaf 0 7) (.leaf 0 7)) (.node 1 (.leaf 0 7) (.leaf 0 7))

def h0 : Heap FH := ⟨#[.z, .z, .z]⟩

def reg3 : Registry Nat := fun i =>
  match i with
  | 0 => some (.leaf 0 7)
  | 1 => some (.leaf 1 9)
  | 2 => some t3
  | _ => none

def regDag : Registry Nat := fun i =>
  match i with
  | 0 => some (.leaf 0 7)
  | 1 => some (.node 1 (.leaf 0 7) (.leaf 0 7))
  | 2 => some dag
  | _ => none

theorem reg3_ok : Registered reg3 t3 := by
  intro s hs
  simp [t3, Tree.subtrees] at hs
  rcases hs with rfl | rfl | rfl <;> rfl

theorem regDag_ok : Registered regDag dag := by
  intro s hs
  simp [dag, Tree.subtrees] at hs
  rcases hs with rfl | rfl | rfl | rfl | rfl <;> rfl

theorem h0_ok3 : HeapOK E A reg3 h0 := by
  refine ⟨?_, ?_⟩
  · intro id s hs
    match id, hs with
    | 0, _ => decide
    | 1, _ => decide
    | 2, _ => decide
  · intro id s hs
    match id, hs with
    | 0, _ => exact Or.inl rfl
    | 1, _ => exact Or.inl rfl
    | 2, _ => exact Or.inl rfl

theorem h0_okDag : HeapOK E A regDag h0 := by
  refine ⟨?_, ?_⟩
  · intro id s hs
    match id, hs with
    | 0, _ => decide
    | 1, _ => decide
    | 2, _ => decide
  · intro id s hs
    match id, hs with
    | 0, _ => exact Or.inl rfl
    | 1, _ => exact Or.inl rfl
    | 2, _ => exact Or.inl rfl

open Pos in
/-- schedule A: thread 0 runs alone to completion, then thread 1 (which hits the root memo). -/
def schedA : List (Nat × Pos) :=
  [(0, here), (0, left here), (0, left here), (0, right here), (0, right here), (0, here),
   (0, here), (1, here)]

open Pos in
/-- schedule B: both threads miss the root memo, both descend, both compute and write every node
(the second write of each memo stores the same value); includes a disabled action `(0, left here)`
after the left side has returned and an action for a non-existent thread. -/
def schedB : List (Nat × Pos) :=
  [(0, here), (1, here), (0, left here), (1, left here), (1, right here), (0, left here),
   (1, left here), (0, left here), (7, here), (0, right here), (1, right here), (0, right here),
   (0, here), (1, here), (1, here), (0, here)]

/-- the common answer. -/
def v3 : FH := .nd (.lf 7) (.lf 9)

example : trueHash E A t3 = v3 := rfl
example : (treeHash E A h0 t3).1 = v3 := by decide

/-- both schedules end with both threads holding the same (sequential) value … -/
example : (runPure E A (initSt h0 [t3, t3]) schedA).2 = [.fin v3, .fin v3] := by rfl
example : (runPure E A (initSt h0 [t3, t3]) schedB).2 = [.fin v3, .fin v3] := by rfl
/-- … and the same memo store. -/
example : (runPure E A (initSt h0 [t3, t3]) schedA).1.memo = #[.lf 7, .lf 9, v3] := by decide
example : (runPure E A (initSt h0 [t3, t3]) schedB).1.memo = #[.lf 7, .lf 9, v3] := by decide
/-- in the middle of schedule B both threads are inside the `join` of the same node. -/
example : (runPure E A (initSt h0 [t3, t3]) (schedB.take 5)).2 =
    [.join 2 (.wr 0 (.lf 7)) (.visit (.leaf 1 9)), .join 2 (.wr 0 (.lf 7)) (.wr 1 (.lf 9))] := by
  rfl
/-- own step counts under schedule B: 7 and 7 (bound: `3 * size = 9`). -/
example : ownSteps E A 0 (initSt h0 [t3, t3]) (schedB.map fun ip => .run ip.1 ip.2) = 7 := by
  decide
example : ownSteps E A 1 (initSt h0 [t3, t3]) (schedB.map fun ip => .run ip.1 ip.2) = 7 := by
  decide

/-- the hypotheses of `C16_any_schedule` / `C16_pure_schedule` / `memo_monotone` hold here. -/
example : HeapOK E A reg3 h0 ∧ (∀ t ∈ [t3, t3], Registered reg3 t) ∧
    (∀ a ∈ schedB.map (fun ip => (Act.run ip.1 ip.2 : Act Nat FH)), AllocOK E A a) := by
  refine ⟨h0_ok3, ?_, ?_⟩
  · intro t ht; simp at ht; subst ht; exact reg3_ok
  · intro a ha
    obtain ⟨ip, _, rfl⟩ := List.mem_map.1 ha
    trivial

open Pos in
/-- a tree with internal sharing, hashed in parallel by ONE thread whose two `join` sides work on
the same physical subtree (node 1) at the same time, interleaved with a second thread and with a
foreign allocation of a rebased copy of node 1 carrying a copied (here: absent) memo. -/
def schedDag : List (Act Nat FH) :=
  [.run 0 here, .run 0 (left here), .run 0 (right here), .run 1 here,
   .alloc (.node 3 (.leaf 0 7) (.leaf 0 7)) .z,
   .run 0 (left (left here)), .run 0 (right (left here)), .run 0 (right (right here)),
   .run 0 (left (right here)), .run 0 (left (left here)), .run 0 (left (right here)),
   .run 0 (right (left here)), .run 0 (right (right here)),
   .run 0 (left here), .run 0 (right here), .run 0 (right here), .run 0 (left here),
   .run 1 (left here), .run 1 (right here),
   .run 0 here, .run 0 here, .run 1 here, .run 1 here]

def vDag : FH := .nd (.nd (.lf 7) (.lf 7)) (.nd (.lf 7) (.lf 7))

example : (runSchedule E A (initSt h0 [dag, dag]) schedDag).2 = [.fin vDag, .fin vDag] := by rfl
example : (runSchedule E A (initSt h0 [dag, dag]) schedDag).1.memo =
    #[.lf 7, .nd (.lf 7) (.lf 7), vDag, .z] := by decide
example : trueHash E A dag = vDag ∧ (treeHash E A h0 dag).1 = vDag := by decide

example : HeapOK E A regDag h0 ∧ (∀ t ∈ [dag, dag], Registered regDag t) ∧
    (∀ a ∈ schedDag, AllocOK E A a) := by
  refine ⟨h0_okDag, ?_, ?_⟩
  · intro t ht; simp at ht; subst ht; exact regDag_ok
  · decide

/-- the liveness hypothesis of `C16_fair_terminates` is satisfiable for every pool (greedy). -/
example : NonStalling E A (initSt h0 [dag, t3]) (greedy E A (initSt h0 [dag, t3])) :=
  greedy_nonStalling E A _

/-- the sequential code is a schedule: concrete instance. -/
example : runTask E A (h0, .visit dag) (seqSched E A h0 dag) =
    some ((treeHash E A h0 dag).2, .fin vDag) := treeHash_is_schedule E A dag h0

end Ex

end Conc

/-! ## 9. The C16 theorems under their manifest names (`Milhouse.*`)

Same statements as in `Milhouse.Conc`, restated in full so that they can be audited by name. -/
section Main
open Conc
variable {T H : Type} [DecidableEq H]

/-- Single-step soundness (target 2). -/
theorem step_sound (E : Elem T H) (A : HashAlg H) (f : Registry T)
    (task : Task T H) (t : Tree T) (p : Pos) (h h' : Heap H) (task' : Task T H)
    (hh : HeapOK E A f h) (hok : TaskOK E A f task t) (hs : step E A h task p = some (h', task')) :
    HeapOK E A f h' ∧ h'.next = h.next ∧ TaskOK E A f task' t ∧ mu task' < mu task :=
  Conc.step_sound E A f task t p h h' task' hh hok hs

/-- A step of task `i` leaves every other task of the pool untouched (target 2, frame part;
`TaskOK` and `mu` do not mention the heap, so nothing else about task `j` can change). -/
theorem step_frame (E : Elem T H) (A : HashAlg H) (st : St T H) (i j : Nat) (p : Pos)
    (hij : i ≠ j) : (act E A st (.run i p)).2[j]? = st.2[j]? :=
  Conc.act_other E A st i j p hij

/-- Target 3, clauses (i)–(iii) and "no step ever waits", at every instant `k` of every schedule. -/
theorem C16_any_schedule (E : Elem T H) (A : HashAlg H) (f : Registry T) (h0 : Heap H)
    (trees : List (Tree T)) (sched : List (Act T H))
    (hh : HeapOK E A f h0) (hreg : ∀ t ∈ trees, Registered f t)
    (hal : ∀ a ∈ sched, AllocOK E A a) :
    ∀ k : Nat,
      let st := runSchedule E A (initSt h0 trees) (sched.take k)
      (∃ f', RegLe f f' ∧ HeapOK E A f' st.1) ∧
      (∀ (i : Nat) (v : H) (t : Tree T), st.2[i]? = some (.fin v) → trees[i]? = some t →
        v = trueHash E A t ∧ v = (treeHash E A h0 t).1) ∧
      (∀ (i : Nat) (t : Tree T), trees[i]? = some t →
        ownSteps E A i (initSt h0 trees) (sched.take k) ≤ 3 * t.size) ∧
      (∀ (i : Nat) (tk : Task T H), st.2[i]? = some tk → (∀ v, tk ≠ .fin v) →
        ∃ p, fires E A st (.run i p) i = true) ∧
      st.2.length = trees.length :=
  Conc.C16_any_schedule E A f h0 trees sched hh hreg hal

/-- Target 3 for plain `List (Nat × Pos)` schedules: same registry, nothing allocated. -/
theorem C16_pure_schedule (E : Elem T H) (A : HashAlg H) (f : Registry T) (h0 : Heap H)
    (trees : List (Tree T)) (sched : List (Nat × Pos))
    (hh : HeapOK E A f h0) (hreg : ∀ t ∈ trees, Registered f t) :
    ∀ k : Nat,
      let st := runPure E A (initSt h0 trees) (sched.take k)
      HeapOK E A f st.1 ∧ st.1.next = h0.next ∧ MemoLe E A f h0 st.1 ∧
      (∀ (i : Nat) (v : H) (t : Tree T), st.2[i]? = some (.fin v) → trees[i]? = some t →
        v = trueHash E A t ∧ v = (treeHash E A h0 t).1) :=
  Conc.C16_pure_schedule E A f h0 trees sched hh hreg

/-- Target 3 (iii), unconditional form: own steps + remaining own measure ≤ initial own measure,
for every state, schedule and task — no hypothesis at all. -/
theorem C16_own_steps_bounded (E : Elem T H) (A : HashAlg H) (i : Nat)
    (sched : List (Act T H)) (st : St T H) :
    ownSteps E A i st sched + muAt (runSchedule E A st sched).2 i ≤ muAt st.2 i :=
  Conc.ownSteps_le E A i sched st

/-- Target 3, deadlock freedom: in every state an unfinished task can step now, and from every
state some finite schedule finishes all tasks. -/
theorem C16_deadlock_free (E : Elem T H) (A : HashAlg H) (st : St T H) :
    (∀ (i : Nat) (tk : Task T H), st.2[i]? = some tk → (∀ v, tk ≠ .fin v) →
      ∃ p, fires E A st (.run i p) i = true) ∧
    (∃ sched : List (Act T H), (∀ a ∈ sched, AllocOK E A a) ∧
      AllFin (runSchedule E A st sched).2) :=
  ⟨fun i tk hi hnf => Conc.no_wait E A st i tk hi hnf, Conc.exists_completing_schedule E A st⟩

/-- Target 3, termination: every non-stalling (hence every fair) infinite schedule ends with all
threads holding the true = sequential hash of their trees. -/
theorem C16_fair_terminates (E : Elem T H) (A : HashAlg H) (f : Registry T) (h0 : Heap H)
    (trees : List (Tree T)) (σ : Nat → Act T H)
    (hh : HeapOK E A f h0) (hreg : ∀ t ∈ trees, Registered f t)
    (hal : ∀ n, AllocOK E A (σ n)) (hns : NonStalling E A (initSt h0 trees) σ) :
    ∃ N, ∀ n, N ≤ n → ∀ (i : Nat) (t : Tree T), trees[i]? = some t →
      (stateAt E A (initSt h0 trees) σ n).2[i]? = some (.fin (trueHash E A t)) ∧
      trueHash E A t = (treeHash E A h0 t).1 :=
  Conc.C16_fair_terminates E A f h0 trees σ hh hreg hal hns

/-- fair ⇒ non-stalling (so `C16_fair_terminates` applies to every fair schedule) and conversely. -/
theorem C16_fair_iff_nonStalling (E : Elem T H) (A : HashAlg H) (st0 : St T H)
    (σ : Nat → Act T H) : Fair E A st0 σ ↔ NonStalling E A st0 σ :=
  ⟨fun h => h.nonStalling, fun h => h.fair⟩

/-- Target 4. -/
theorem memo_monotone (E : Elem T H) (A : HashAlg H) (f : Registry T) (h0 : Heap H)
    (trees : List (Tree T)) (s1 s2 : List (Act T H))
    (hh : HeapOK E A f h0) (hreg : ∀ t ∈ trees, Registered f t)
    (hal : ∀ a ∈ s1 ++ s2, AllocOK E A a) :
    ∃ f', RegLe f f' ∧
      HeapOK E A f' (runSchedule E A (initSt h0 trees) (s1 ++ s2)).1 ∧
      MemoLe E A f' (runSchedule E A (initSt h0 trees) s1).1
        (runSchedule E A (initSt h0 trees) (s1 ++ s2)).1 :=
  Conc.memo_monotone E A f h0 trees s1 s2 hh hreg hal

/-- What any memo read by any thread (e.g. a private `rebase_on` walking shared nodes that other
threads are hashing) can observe at any instant `k` of any schedule: absent, or the true hash of
the node. This is the validity of the "memo oracle" against which rebase is to be proved: every
interleaving shows a reader only values that some `HeapOK` heap would show. -/
theorem C16_oracle_valid (E : Elem T H) (A : HashAlg H) (f : Registry T) (h0 : Heap H)
    (trees : List (Tree T)) (sched : List (Act T H))
    (hh : HeapOK E A f h0) (hreg : ∀ t ∈ trees, Registered f t)
    (hal : ∀ a ∈ sched, AllocOK E A a) (k id : Nat) (s : Tree T) (hs : f id = some s) :
    let h := (runSchedule E A (initSt h0 trees) (sched.take k)).1
    h.read A.zero id = A.zero ∨ h.read A.zero id = trueHash E A s := by
  obtain ⟨⟨f', hle, hok⟩, _⟩ := Conc.C16_any_schedule E A f h0 trees sched hh hreg hal k
  exact hok.memo id s (hle id s hs)

/-- The sequential model function is one schedule of the concurrent semantics. -/
theorem C16_sequential_is_schedule (E : Elem T H) (A : HashAlg H) (t : Tree T) (h : Heap H) :
    runTask E A (h, .visit t) (seqSched E A h t) =
      some ((treeHash E A h t).2, .fin (treeHash E A h t).1) :=
  Conc.treeHash_is_schedule E A t h

/-- Target 5: element reads take no heap, hence commute with every schedule. -/
theorem C16_reads_commute (pf : Option Nat) (t : Tree T) (i d : Nat) (E : Elem T H)
    (A : HashAlg H) (st : St T H) (sched : List (Act T H)) :
    (fun (_ : St T H) => getRec pf t i d) (runSchedule E A st sched) = getRec pf t i d := rfl

end Main

end Milhouse
