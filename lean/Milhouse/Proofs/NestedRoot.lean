import Milhouse.Proofs.SszNested
import Milhouse.Proofs.Merkle
/-!
# C02 — roots of collections of collections

SSZ defines `hash_tree_root` by recursion on the type: the chunks of a `List[List[T, N], M]` are the
roots of its inner lists.  In the model the hash of an element is the abstract `Elem.leafHash`;
this file instantiates it for the nested kind of `SszNested.lean` with the *specification's* root of
the inner list and records that

* what the outer tree stores for an element is what the inner collection's own `tree_hash_root`
  computes (`C02_nested_element_root` — C02 of the inner collection), and
* the outer collection's `tree_hash_root` is then the recursive SSZ definition
  (`C02_nested_list_root`, through `C02_nested_root_unfolds`),

so C02 composes through nesting to any depth with no new assumption (no hash assumption at all).
-/
namespace Milhouse
variable {T H : Type}

/-- an inner `List<T, N>` as element, hashed as SSZ prescribes: the element's chunk is the
`hash_tree_root` of the inner list (`tree_hash_type = List`, never packed). -/
def nestedListHashed (E : Elem T H) (A : HashAlg H) (mixIn : H → Nat → H) (N : Nat) :
    Elem (NestedSeq E N) H :=
  nestedListElem E N (fun x => Spec.listRoot E A mixIn N x.1) (fun _ => A.zero)

/-- the SSZ root of a list of lists is the recursive definition of the specification: merkleize
the roots of the inner lists (limit `M`), mix in the outer length. -/
theorem C02_nested_root_unfolds (E : Elem T H) (A : HashAlg H) (mixIn : H → Nat → H) (N M : Nat)
    (xss : List (NestedSeq E N)) :
    Spec.listRoot (nestedListHashed E A mixIn N) A mixIn M xss
      = mixIn (Spec.merk A (Spec.limitDepth M)
          (xss.map (fun x => Spec.listRoot E A mixIn N x.1))) xss.length := by
  rfl

/-- **C02 (nesting, element)**: the chunk the outer collection uses for an element whose value is
`xs` is exactly what `tree_hash_root` of a canonical, flushed inner list holding `xs` returns. -/
theorem C02_nested_element_root [DecidableEq H] (E : Elem T H) (A : HashAlg H)
    (mixIn : H → Nat → H) (f : Registry T) (c : Coll T) (h : Heap H) (N : Nat)
    (x : NestedSeq E N)
    (hpf : PfOK E.pf) (hkind : c.kind = .list) (hupd : c.updates.isEmpty = true)
    (htree : c.tree.erase = canon E.pf c.depth x.1) (hlen : c.length = x.1.length)
    (hdepth : c.depth = listDepth E.pf N) (hcap : x.1.length ≤ cap E.pf c.depth)
    (hok : HeapOK E A f h) (hreg : Registered f c.tree) (hN1 : 1 ≤ N) (hN2 : N ≤ 2 ^ 64) :
    ∃ h', Coll.treeHashRoot E A mixIn c h
        = .ok ((nestedListHashed E A mixIn N).leafHash x, h') ∧ HeapOK E A f h' :=
  C02_list_root_is_spec E A mixIn f c h N x.1 hpf hkind hupd htree hlen hdepth hcap hok hreg hN1 hN2

/-- **C02 (nesting, outer)**: `tree_hash_root` of a canonical, flushed list whose elements are
inner lists is the recursive SSZ `hash_tree_root`: merkleize the inner roots, mix in the length. -/
theorem C02_nested_list_root [DecidableEq H] (E : Elem T H) (A : HashAlg H)
    (mixIn : H → Nat → H) (N M : Nat) (f : Registry (NestedSeq E N)) (c : Coll (NestedSeq E N))
    (h : Heap H) (xss : List (NestedSeq E N))
    (hkind : c.kind = .list) (hupd : c.updates.isEmpty = true)
    (htree : c.tree.erase = canon none c.depth xss) (hlen : c.length = xss.length)
    (hdepth : c.depth = listDepth none M) (hcap : xss.length ≤ cap none c.depth)
    (hok : HeapOK (nestedListHashed E A mixIn N) A f h) (hreg : Registered f c.tree)
    (hM1 : 1 ≤ M) (hM2 : M ≤ 2 ^ 64) :
    ∃ h', Coll.treeHashRoot (nestedListHashed E A mixIn N) A mixIn c h
        = .ok (mixIn (Spec.merk A (Spec.limitDepth M)
            (xss.map (fun x => Spec.listRoot E A mixIn N x.1))) xss.length, h') ∧
      HeapOK (nestedListHashed E A mixIn N) A f h' := by
  have hpf : PfOK (nestedListHashed E A mixIn N).pf := by intro p hp; cases hp
  have := C02_list_root_is_spec (nestedListHashed E A mixIn N) A mixIn f c h M xss hpf hkind hupd
    htree hlen hdepth hcap hok hreg hM1 hM2
  rwa [C02_nested_root_unfolds] at this

/-! ## Inner vectors -/

/-- an inner `Vector<T, N>` of fixed-size items as element, hashed by the specification's root of
`Vector[T, N]` (no length mixed in). -/
def nestedVectorHashed (E : Elem T H) (A : HashAlg H) (N k : Nat) : Elem (NestedVec E N) H :=
  nestedVectorElem E N k (fun x => Spec.vectorRoot E A N x.1) (fun _ => A.zero)

/-- the root of a list of vectors (`List<Vector<u64, U8>, M>`, kind `nestv`) is the recursive SSZ
definition. -/
theorem C02_nested_vector_root_unfolds (E : Elem T H) (A : HashAlg H) (mixIn : H → Nat → H)
    (N k M : Nat) (xss : List (NestedVec E N)) :
    Spec.listRoot (nestedVectorHashed E A N k) A mixIn M xss
      = mixIn (Spec.merk A (Spec.limitDepth M)
          (xss.map (fun x => Spec.vectorRoot E A N x.1))) xss.length := by
  rfl

/-- **C02 (nesting, vector element)**: the chunk used for an element that is an inner vector is
what `tree_hash_root` of a canonical, flushed inner `Vector<T, N>` returns. -/
theorem C02_nested_vector_element_root [DecidableEq H] (E : Elem T H) (A : HashAlg H)
    (mixIn : H → Nat → H) (f : Registry T) (c : Coll T) (h : Heap H) (N k : Nat)
    (x : NestedVec E N)
    (hpf : PfOK E.pf) (hkind : c.kind = .vector) (hupd : c.updates.isEmpty = true)
    (htree : c.tree.erase = canon E.pf c.depth x.1) (hlen : c.length = x.1.length)
    (hdepth : c.depth = listDepth E.pf N) (hcap : x.1.length ≤ cap E.pf c.depth)
    (hok : HeapOK E A f h) (hreg : Registered f c.tree) (hN1 : 1 ≤ N) (hN2 : N ≤ 2 ^ 64) :
    ∃ h', Coll.treeHashRoot E A mixIn c h
        = .ok ((nestedVectorHashed E A N k).leafHash x, h') ∧ HeapOK E A f h' :=
  C02_vector_root_is_spec E A mixIn f c h N x.1 hpf hkind hupd htree hlen hdepth hcap hok hreg
    hN1 hN2

end Milhouse
