import Milhouse.Proofs.WorldClosed
/-!
# SSZ and serde inside the multi-handle history language

`Proofs/World.lean` proves that a family of handles over one shared memo store refines a family of
plain sequences along every finite history of `WOp`s. SSZ encoding / decoding and serde were only
proved per operation (`Proofs/Ssz.lean`, `Proofs/Convert.lean`, `Proofs/Registry.lean`). This file
wraps the language: `XOp` = `WOp` + `sszEncode i`, `newFromSsz kind bytes`, `serdeSer i`,
`newFromSerde kind values`, and lifts the refinement.

* `XOp`, `XOut`, `xstep`, `xrun`: the model (real model functions, one shared heap);
* `XBound`, `xsstep`, `xsrun`: the specification on plain sequences (no trees, heaps, builders, maps);
* `xstep_refines`, `xrun_refines_from`, `xrun_refines`: the refinement for EVERY finite X-history;
* closed corollaries, all for EVERY finite X-history from the empty world: `C12_history_closed`,
  `C12_history_closed_obs`, `C12_history_decoded_eq_original`, `C12_history_strict`,
  `C13_history_closed`, `C13_history_closed_obs`, `C13_history_rejects`, `C13_history_ok_iff`,
  `C05_history_bounded_x`, `C05_history_bounded_x_model`, `C02_history_x`, `C03_roots_invisible_x`,
  `C03_root_insert_invisible_x`, `C03_no_stale_memo_x`, `C04_new_ops_invisible_x`, `C04_isolation_x`;
* structural frame statements (no hypothesis): `xstep_sszEncode_state`, `xstep_serdeSer_state`,
  `xstep_ctor_cases`, `xstep_ctor_failed_state`, `xstep_newFromSsz_frame`, `xstep_newFromSerde_frame`,
  `xstep_frame_model`, `xsstep_frame`; and `xstep_constructor_memos` (under `WInv`).

The only size condition anywhere is the one inherent to SSZ: for VARIABLE-size elements the round
trip needs the encoding to fit the four-byte offsets (`(sszEncode E xs).length < 2 ^ 32`, hypothesis
`h32` of `C12_history_closed`, exactly that of `C12_roundtrip_items`); the refinement itself and all
other corollaries need no such condition, fixed-size elements never do.
-/
set_option linter.unusedSectionVars false

namespace Milhouse
variable {T H : Type}

/-! ## The wrapper language -/

/-- world operations plus SSZ / serde. -/
inductive XOp (T : Type) where
  /-- any operation of `Proofs/World.lean` -/
  | w (o : WOp T)
  /-- `handle_i.as_ssz_bytes()` together with `handle_i.ssz_bytes_len()` -/
  | sszEncode (i : Nat)
  /-- `List::from_ssz_bytes(bs)` / `Vector::from_ssz_bytes(bs)`: a new handle -/
  | newFromSsz (kind : CKind) (bs : List UInt8)
  /-- `serde::Serialize` of handle `i`: the element sequence handed to the serializer -/
  | serdeSer (i : Nat)
  /-- `serde::Deserialize` on an element sequence: a new handle -/
  | newFromSerde (kind : CKind) (xs : List T)
  deriving Repr

/-- what an X-operation returns. -/
inductive XOut (T H : Type) where
  | w (o : WOut T H)
  /-- the bytes written and the length announced -/
  | bytes (b : List UInt8) (len : Nat)
  | seq (xs : List T)
  deriving DecidableEq, Repr

/-- the capacity bound of a kind: a list holds at most `N`, a vector exactly `N` elements. -/
def XBound (N : Nat) : CKind → Nat → Prop
  | .list, n => n ≤ N
  | .vector, n => n = N

instance (N n : Nat) : (k : CKind) → Decidable (XBound N k n)
  | .list => inferInstanceAs (Decidable (n ≤ N))
  | .vector => inferInstanceAs (Decidable (n = N))

section Steps
variable [DecidableEq T] [DecidableEq H]

/-- one X-operation on the model: the real model functions over the one shared heap. Encoding and
serialisation go through `Coll.toVec`, i.e. the overlay-aware iterator (`ssz_append` and
`Serialize` iterate `self.iter()`, which sees pending writes); they do not change the world.
Decoding / deserialising appends the new handle and takes the new heap on success; on failure the
world is unchanged. -/
def xstep (E : Elem T H) (A : HashAlg H) (mixIn : H → Nat → H) (cfg : Cfg) :
    MWorld T H → XOp T → XOut T H × MWorld T H
  | w, .w o => (.w (wstep E A mixIn cfg w o).1, (wstep E A mixIn cfg w o).2)
  | w, .sszEncode i =>
    match w.colls[i]? with
    | none => (.w (.out .unsupported), w)
    | some c =>
      match c.toVec E.pf with
      | .ok vs => (.bytes (sszEncode E vs) (sszBytesLen E vs), w)
      | .error e => (.w (.out (.error e)), w)
  | w, .newFromSsz .list bs =>
    match sszDecodeList E A.zero cfg bs w.heap with
    | .error e => (.w (.out (.error e)), w)
    | .ok (c, h) => (.w (.out .ok), ⟨h, w.colls ++ [c]⟩)
  | w, .newFromSsz .vector bs =>
    match sszDecodeVector E A.zero cfg bs w.heap with
    | .error e => (.w (.out (.error e)), w)
    | .ok (c, h) => (.w (.out .ok), ⟨h, w.colls ++ [c]⟩)
  | w, .serdeSer i =>
    match w.colls[i]? with
    | none => (.w (.out .unsupported), w)
    | some c =>
      match c.toVec E.pf with
      | .ok vs => (.seq vs, w)
      | .error e => (.w (.out (.error e)), w)
  | w, .newFromSerde k xs =>
    match serdeDe k E.pf A.zero cfg xs w.heap with
    | .error e => (.w (.out (.error e)), w)
    | .ok (c, h) => (.w (.out .ok), ⟨h, w.colls ++ [c]⟩)

/-- an X-history on the model: the outputs in order and the final world. -/
def xrun (E : Elem T H) (A : HashAlg H) (mixIn : H → Nat → H) (cfg : Cfg) :
    MWorld T H → List (XOp T) → List (XOut T H) × MWorld T H
  | w, [] => ([], w)
  | w, op :: ops =>
    ((xstep E A mixIn cfg w op).1 :: (xrun E A mixIn cfg (xstep E A mixIn cfg w op).2 ops).1,
      (xrun E A mixIn cfg (xstep E A mixIn cfg w op).2 ops).2)

/-- one X-operation on the plain sequences (`N` is the capacity). Encoding answers the SSZ encoding
of the plain contents and its true length; decoding succeeds exactly when the strict item decoder
`sszDecodeItems` accepts the bytes and the number of items fits the kind; deserialising succeeds
exactly when the number of values fits the kind. A new handle has no pending writes. -/
def xsstep (E : Elem T H) (A : HashAlg H) (mixIn : H → Nat → H) (N : Nat) :
    SWorld T → XOp T → XOut T H × SWorld T
  | s, .w o => (.w (wsstep E A mixIn N s o).1, (wsstep E A mixIn N s o).2)
  | s, .sszEncode i =>
    match s[i]? with
    | none => (.w (.out .unsupported), s)
    | some e => (.bytes (sszEncode E e.2.1) (sszEncode E e.2.1).length, s)
  | s, .newFromSsz k bs =>
    match sszDecodeItems E N bs with
    | none => (.w (.out (.error .ssz)), s)
    | some xs =>
      if XBound N k xs.length then (.w (.out .ok), s ++ [(k, xs, false)])
      else (.w (.out (.error .ssz)), s)
  | s, .serdeSer i =>
    match s[i]? with
    | none => (.w (.out .unsupported), s)
    | some e => (.seq e.2.1, s)
  | s, .newFromSerde k xs =>
    if XBound N k xs.length then (.w (.out .ok), s ++ [(k, xs, false)])
    else (.w (.out (.error .ssz)), s)

/-- an X-history on the plain sequences. -/
def xsrun (E : Elem T H) (A : HashAlg H) (mixIn : H → Nat → H) (N : Nat) :
    SWorld T → List (XOp T) → List (XOut T H) × SWorld T
  | s, [] => ([], s)
  | s, op :: ops =>
    ((xsstep E A mixIn N s op).1 :: (xsrun E A mixIn N (xsstep E A mixIn N s op).2 ops).1,
      (xsrun E A mixIn N (xsstep E A mixIn N s op).2 ops).2)

end Steps

/-! ## Decoding against the item decoder -/

section Decode
variable {E : Elem T H} {cfg : Cfg}

theorem xs_decodeItems_nil (E : Elem T H) (N : Nat) : sszDecodeItems E N [] = some [] := rfl

theorem xs_decodeItems_of_isEmpty {N : Nat} {bs : List UInt8} {xs : List T}
    (hb : bs.isEmpty = true) (hx : sszDecodeItems E N bs = some xs) : xs = [] := by
  unfold sszDecodeItems at hx
  rw [if_pos hb] at hx
  cases hx; rfl

/-- `List::from_ssz_bytes` against the strict item decoder. -/
theorem xs_decodeList (K : CfgOK E.pf cfg) (hE : CodecOK E) (z : H) (bs : List UInt8)
    (h : Heap H) :
    (sszDecodeItems E cfg.N bs = none → sszDecodeList E z cfg bs h = .error .ssz) ∧
    (∀ xs, sszDecodeItems E cfg.N bs = some xs → xs.length ≤ cfg.N ∧
      ∃ c h', sszDecodeList E z cfg bs h = .ok (c, h') ∧ CollInv E.pf cfg c xs ∧
        c.updates = UMap.empty cfg.map ∧ c.kind = .list) := by
  constructor
  · intro hn
    cases hb : bs.isEmpty with
    | true =>
      have : bs = [] := by simpa using hb
      subst this
      rw [xs_decodeItems_nil] at hn; cases hn
    | false => simp only [sszDecodeList, hb, hn, Bool.false_eq_true, if_false]
  · intro xs hx
    have hl := (C12_strict hE cfg.N bs xs hx).2
    refine ⟨hl, ?_⟩
    cases hb : bs.isEmpty with
    | true =>
      have := xs_decodeItems_of_isEmpty hb hx
      subst this
      obtain ⟨I, hk, hu⟩ := C05_empty_collInv (T := T) E.pf z cfg h
      exact ⟨(Coll.empty (T := T) E.pf z cfg h).1, (Coll.empty (T := T) E.pf z cfg h).2,
        by simp only [sszDecodeList, hb, if_true], I, hu, hk⟩
    | false =>
      obtain ⟨c, h', e, I, hu, hk⟩ := C05_tryFromIter_collInv E.pf z cfg K xs hl h
      exact ⟨c, h', by simp only [sszDecodeList, hb, hx, e, Bool.false_eq_true, if_false], I, hu, hk⟩

/-- `Vector::from_ssz_bytes` against the strict item decoder. -/
theorem xs_decodeVector (K : CfgOK E.pf cfg) (hE : CodecOK E) (z : H) (bs : List UInt8)
    (h : Heap H) :
    (sszDecodeItems E cfg.N bs = none → sszDecodeVector E z cfg bs h = .error .ssz) ∧
    (∀ xs, sszDecodeItems E cfg.N bs = some xs →
      (xs.length = cfg.N → ∃ c h', sszDecodeVector E z cfg bs h = .ok (c, h') ∧
        CollInv E.pf cfg c xs ∧ c.updates = UMap.empty cfg.map ∧ c.kind = .vector) ∧
      (xs.length ≠ cfg.N → sszDecodeVector E z cfg bs h = .error .ssz)) := by
  obtain ⟨l1, l2⟩ := xs_decodeList K hE z bs h
  constructor
  · intro hn
    simp only [sszDecodeVector, l1 hn]
  · intro xs hx
    obtain ⟨_, c, h', e, I, hu, _⟩ := l2 xs hx
    obtain ⟨a, b⟩ := C05_toVector_flushed E.pf z cfg c xs I hu h'
    constructor
    · intro hN
      obtain ⟨c', e', hk', I', hu'⟩ := a hN
      exact ⟨c', h', by simp only [sszDecodeVector, e, e'], I', hu', hk'⟩
    · intro hN
      simp only [sszDecodeVector, e, b hN]

end Decode

/-! ## One X-step refines the plain sequences -/

section Refine
variable [DecidableEq T] [DecidableEq H]
variable {E : Elem T H} {A : HashAlg H} {mixIn : H → Nat → H} {cfg : Cfg} {w : MWorld T H}
  {sw : SWorld T}

/-- the statement of one refinement step. -/
def XRef (E : Elem T H) (A : HashAlg H) (mixIn : H → Nat → H) (cfg : Cfg) (w : MWorld T H)
    (sw : SWorld T) (op : XOp T) : Prop :=
  (xstep E A mixIn cfg w op).1 = (xsstep E A mixIn cfg.N sw op).1 ∧
    WInv E A cfg (xstep E A mixIn cfg w op).2 (xsstep E A mixIn cfg.N sw op).2

/-- a freshly built, flushed handle joins the world. -/
theorem xs_winv_append {f : Registry T} (hok : HeapOK E A f w.heap)
    (Hs : HandlesOK E.pf cfg f w.colls sw) {c : Coll T} {h' : Heap H} {k : CKind} {ys : List T}
    (hr : RegPost E A f w.heap c.tree h') (I : CollInv E.pf cfg c ys)
    (hu : c.updates = UMap.empty cfg.map) (hk : c.kind = k) :
    WInv E A cfg ⟨h', w.colls ++ [c]⟩ (sw ++ [(k, ys, false)]) := by
  obtain ⟨f', ok', r', hm⟩ := WRegPost.elim hok hr
  exact ⟨f', ok', Hs.append hm (ws_hinv_fresh I hu hk r')⟩

theorem xref_w (K : CfgOK E.pf cfg) (hcf : CollisionFree E A) (nz : NoZeroNode A)
    (W : WInv E A cfg w sw) (o : WOp T) : XRef E A mixIn cfg w sw (.w o) := by
  obtain ⟨ho, W'⟩ := wstep_refines (mixIn := mixIn) K hcf nz (regFacts_holds E A cfg) W o
  exact ⟨congrArg XOut.w ho, W'⟩

theorem xref_sszEncode (K : CfgOK E.pf cfg) (hE : CodecOK E) (W : WInv E A cfg w sw) (i : Nat) :
    XRef E A mixIn cfg w sw (.sszEncode i) := by
  obtain ⟨f, hok, Hs⟩ := W
  cases hc : w.colls[i]? with
  | none =>
    have hs := Hs.get_none hc
    simp only [XRef, xstep, xsstep, hc, hs]
    exact ⟨by trivial, f, hok, Hs⟩
  | some c =>
    obtain ⟨s, hs, hI⟩ := Hs.get_some hc
    obtain ⟨xs, I, hv⟩ := hI.inv
    have ht := C01_toVec K I
    rw [hv] at ht
    simp only [XRef, xstep, xsstep, hc, hs, ht, C12_len hE]
    exact ⟨by trivial, f, hok, Hs⟩

theorem xref_serdeSer (K : CfgOK E.pf cfg) (W : WInv E A cfg w sw) (i : Nat) :
    XRef E A mixIn cfg w sw (.serdeSer i) := by
  obtain ⟨f, hok, Hs⟩ := W
  cases hc : w.colls[i]? with
  | none =>
    have hs := Hs.get_none hc
    simp only [XRef, xstep, xsstep, hc, hs]
    exact ⟨by trivial, f, hok, Hs⟩
  | some c =>
    obtain ⟨s, hs, hI⟩ := Hs.get_some hc
    obtain ⟨xs, I, hv⟩ := hI.inv
    have ht := C01_toVec K I
    rw [hv] at ht
    simp only [XRef, xstep, xsstep, hc, hs, ht]
    exact ⟨by trivial, f, hok, Hs⟩

theorem xref_newFromSsz (K : CfgOK E.pf cfg) (hE : CodecOK E) (W : WInv E A cfg w sw)
    (k : CKind) (bs : List UInt8) : XRef E A mixIn cfg w sw (.newFromSsz k bs) := by
  obtain ⟨f, hok, Hs⟩ := W
  cases k with
  | list =>
    obtain ⟨l1, l2⟩ := xs_decodeList K hE A.zero bs w.heap
    cases hx : sszDecodeItems E cfg.N bs with
    | none =>
      simp only [XRef, xstep, xsstep, hx, l1 hx]
      exact ⟨by trivial, f, hok, Hs⟩
    | some xs =>
      obtain ⟨hl, c, h', e, I, hu, hk⟩ := l2 xs hx
      have hb : XBound cfg.N .list xs.length := hl
      simp only [XRef, xstep, xsstep, hx, e, if_pos hb]
      exact ⟨by trivial,
        xs_winv_append hok Hs (sszDecodeList_reg E A cfg bs f w.heap h' c hok e) I hu hk⟩
  | vector =>
    obtain ⟨l1, l2⟩ := xs_decodeVector K hE A.zero bs w.heap
    cases hx : sszDecodeItems E cfg.N bs with
    | none =>
      simp only [XRef, xstep, xsstep, hx, l1 hx]
      exact ⟨by trivial, f, hok, Hs⟩
    | some xs =>
      obtain ⟨a, b⟩ := l2 xs hx
      by_cases hN : xs.length = cfg.N
      · obtain ⟨c, h', e, I, hu, hk⟩ := a hN
        have hb : XBound cfg.N .vector xs.length := hN
        simp only [XRef, xstep, xsstep, hx, e, if_pos hb]
        exact ⟨by trivial,
          xs_winv_append hok Hs (sszDecodeVector_reg E A cfg bs f w.heap h' c hok e) I hu hk⟩
      · have hb : ¬ XBound cfg.N .vector xs.length := hN
        simp only [XRef, xstep, xsstep, hx, b hN, if_neg hb]
        exact ⟨by trivial, f, hok, Hs⟩

theorem xref_newFromSerde (K : CfgOK E.pf cfg) (W : WInv E A cfg w sw)
    (k : CKind) (xs : List T) : XRef E A mixIn cfg w sw (.newFromSerde k xs) := by
  obtain ⟨f, hok, Hs⟩ := W
  cases k with
  | list =>
    by_cases hl : xs.length ≤ cfg.N
    · obtain ⟨c, h', e, I, hu, hk⟩ := C05_tryFromIter_collInv E.pf A.zero cfg K xs hl w.heap
      have hb : XBound cfg.N .list xs.length := hl
      have e' : serdeDe .list E.pf A.zero cfg xs w.heap = .ok (c, h') := by
        simp only [serdeDe, e, serdeMapErr]
      simp only [XRef, xstep, xsstep, e', if_pos hb]
      exact ⟨by trivial,
        xs_winv_append hok Hs (tryFromIter_reg E A E.pf cfg xs f w.heap h' c hok e) I hu hk⟩
    · have hb : ¬ XBound cfg.N .list xs.length := hl
      have e' := (C13_rejects E.pf A.zero cfg K xs w.heap).1 (by omega)
      simp only [XRef, xstep, xsstep, e', if_neg hb]
      exact ⟨by trivial, f, hok, Hs⟩
  | vector =>
    by_cases hN : xs.length = cfg.N
    · obtain ⟨c, h', e, hk, I, hu⟩ := (C05_vectorFromIter E.pf A.zero cfg K xs w.heap).1 hN
      have hb : XBound cfg.N .vector xs.length := hN
      have e' : serdeDe .vector E.pf A.zero cfg xs w.heap = .ok (c, h') := by
        simp only [serdeDe, e, serdeMapErr]
      simp only [XRef, xstep, xsstep, e', if_pos hb]
      exact ⟨by trivial,
        xs_winv_append hok Hs (vectorFromIter_reg E A E.pf cfg xs f w.heap h' c hok e) I hu hk⟩
    · have hb : ¬ XBound cfg.N .vector xs.length := hN
      have e' := (C13_rejects E.pf A.zero cfg K xs w.heap).2 hN
      simp only [XRef, xstep, xsstep, e', if_neg hb]
      exact ⟨by trivial, f, hok, Hs⟩

/-- **One X-step refines the plain sequences.** Under the world invariant every operation —
including SSZ encoding / decoding and serde — returns on the model what it returns on the plain
sequences, and the invariant holds again. -/
theorem xstep_refines (K : CfgOK E.pf cfg) (hE : CodecOK E) (hcf : CollisionFree E A)
    (nz : NoZeroNode A) (W : WInv E A cfg w sw) (op : XOp T) :
    (xstep E A mixIn cfg w op).1 = (xsstep E A mixIn cfg.N sw op).1 ∧
      WInv E A cfg (xstep E A mixIn cfg w op).2 (xsstep E A mixIn cfg.N sw op).2 := by
  cases op with
  | w o => exact xref_w K hcf nz W o
  | sszEncode i => exact xref_sszEncode K hE W i
  | newFromSsz k bs => exact xref_newFromSsz K hE W k bs
  | serdeSer i => exact xref_serdeSer K W i
  | newFromSerde k xs => exact xref_newFromSerde K W k xs

end Refine

/-! ## All finite X-histories -/

section Runs
variable [DecidableEq T] [DecidableEq H]
variable {E : Elem T H} {A : HashAlg H} {mixIn : H → Nat → H} {cfg : Cfg}

theorem xrun_append (E : Elem T H) (A : HashAlg H) (mixIn : H → Nat → H) (cfg : Cfg)
    (w : MWorld T H) (a b : List (XOp T)) :
    xrun E A mixIn cfg w (a ++ b) =
      ((xrun E A mixIn cfg w a).1 ++ (xrun E A mixIn cfg (xrun E A mixIn cfg w a).2 b).1,
        (xrun E A mixIn cfg (xrun E A mixIn cfg w a).2 b).2) := by
  induction a generalizing w with
  | nil => rfl
  | cons op rest ih => simp only [List.cons_append, xrun, ih]

theorem xsrun_append (E : Elem T H) (A : HashAlg H) (mixIn : H → Nat → H) (N : Nat)
    (s : SWorld T) (a b : List (XOp T)) :
    xsrun E A mixIn N s (a ++ b) =
      ((xsrun E A mixIn N s a).1 ++ (xsrun E A mixIn N (xsrun E A mixIn N s a).2 b).1,
        (xsrun E A mixIn N (xsrun E A mixIn N s a).2 b).2) := by
  induction a generalizing s with
  | nil => rfl
  | cons op rest ih => simp only [List.cons_append, xsrun, ih]

theorem length_xrun (E : Elem T H) (A : HashAlg H) (mixIn : H → Nat → H) (cfg : Cfg)
    (w : MWorld T H) (ops : List (XOp T)) : (xrun E A mixIn cfg w ops).1.length = ops.length := by
  induction ops generalizing w with
  | nil => rfl
  | cons op rest ih => simp only [xrun, List.length_cons, ih]

theorem length_xsrun (E : Elem T H) (A : HashAlg H) (mixIn : H → Nat → H) (N : Nat)
    (s : SWorld T) (ops : List (XOp T)) : (xsrun E A mixIn N s ops).1.length = ops.length := by
  induction ops generalizing s with
  | nil => rfl
  | cons op rest ih => simp only [xsrun, List.length_cons, ih]

/-- **The X-refinement, every finite history, from every world satisfying the invariant.** -/
theorem xrun_refines_from (K : CfgOK E.pf cfg) (hE : CodecOK E) (hcf : CollisionFree E A)
    (nz : NoZeroNode A) (ops : List (XOp T)) :
    ∀ (w : MWorld T H) (sw : SWorld T), WInv E A cfg w sw →
      (xrun E A mixIn cfg w ops).1 = (xsrun E A mixIn cfg.N sw ops).1 ∧
        WInv E A cfg (xrun E A mixIn cfg w ops).2 (xsrun E A mixIn cfg.N sw ops).2 := by
  induction ops with
  | nil => intro w sw W; exact ⟨rfl, W⟩
  | cons op rest ih =>
    intro w sw W
    obtain ⟨ho, W'⟩ := xstep_refines (mixIn := mixIn) K hE hcf nz W op
    obtain ⟨ho2, W''⟩ := ih _ _ W'
    refine ⟨?_, W''⟩
    show (xstep E A mixIn cfg w op).1 :: _ = (xsstep E A mixIn cfg.N sw op).1 :: _
    rw [ho, ho2]

/-- **The multi-handle whole-history refinement with SSZ and serde.** For EVERY finite list of
X-operations started in the empty world, the outputs of the model (bytes written, lengths
announced, sequences serialised, decode successes and failures included) are the outputs of the
plain sequences, and the world invariant holds at the end. -/
theorem xrun_refines (K : CfgOK E.pf cfg) (hE : CodecOK E) (hcf : CollisionFree E A)
    (nz : NoZeroNode A) (ops : List (XOp T)) :
    (xrun E A mixIn cfg MWorld.empty ops).1 = (xsrun E A mixIn cfg.N [] ops).1 ∧
      WInv E A cfg (xrun E A mixIn cfg MWorld.empty ops).2 (xsrun E A mixIn cfg.N [] ops).2 :=
  xrun_refines_from K hE hcf nz ops _ _ (WInv.empty E A cfg)

/-- one more operation after a history answers on the model what it answers on the plain
sequences. -/
theorem xrun_then_step (K : CfgOK E.pf cfg) (hE : CodecOK E) (hcf : CollisionFree E A)
    (nz : NoZeroNode A) (ops : List (XOp T)) (r : XOp T) :
    (xstep E A mixIn cfg (xrun E A mixIn cfg MWorld.empty ops).2 r).1 =
      (xsstep E A mixIn cfg.N (xsrun E A mixIn cfg.N [] ops).2 r).1 :=
  (xstep_refines K hE hcf nz (xrun_refines K hE hcf nz ops).2 r).1

/-- a history of plain world operations is a special X-history. -/
theorem xrun_w (E : Elem T H) (A : HashAlg H) (mixIn : H → Nat → H) (cfg : Cfg) (w : MWorld T H)
    (ops : List (WOp T)) :
    xrun E A mixIn cfg w (ops.map .w) =
      ((wrun E A mixIn cfg w ops).1.map .w, (wrun E A mixIn cfg w ops).2) := by
  induction ops generalizing w with
  | nil => rfl
  | cons op rest ih => simp only [List.map_cons, xrun, wrun, xstep, ih]

end Runs

/-! ## Structural facts (no hypothesis): what the new operations can touch -/

/-- the handle an X-operation is addressed to in place. The new operations are addressed to none. -/
def XOp.writes : XOp T → Option Nat
  | .w o => o.writes
  | _ => none

/-- the operations that create a handle from bytes / from a serialised sequence. -/
def XOp.isCtor : XOp T → Bool
  | .newFromSsz _ _ => true
  | .newFromSerde _ _ => true
  | _ => false

section Frames
variable [DecidableEq T] [DecidableEq H]
variable {E : Elem T H} {A : HashAlg H} {mixIn : H → Nat → H} {cfg : Cfg} {N : Nat}

/-- encoding does not change the world at all (not even a memo). -/
theorem xstep_sszEncode_state (w : MWorld T H) (i : Nat) :
    (xstep E A mixIn cfg w (.sszEncode i)).2 = w := by
  simp only [xstep]
  repeat' split
  all_goals rfl

/-- serialising does not change the world at all. -/
theorem xstep_serdeSer_state (w : MWorld T H) (i : Nat) :
    (xstep E A mixIn cfg w (.serdeSer i)).2 = w := by
  simp only [xstep]
  repeat' split
  all_goals rfl

theorem xsstep_sszEncode_state (s : SWorld T) (i : Nat) :
    (xsstep E A mixIn N s (.sszEncode i)).2 = s := by
  simp only [xsstep]
  split <;> rfl

theorem xsstep_serdeSer_state (s : SWorld T) (i : Nat) :
    (xsstep E A mixIn N s (.serdeSer i)).2 = s := by
  simp only [xsstep]
  split <;> rfl

/-- a constructor either leaves the world literally unchanged (and then it has not answered `ok`),
or answers `ok`, appends one handle and replaces the heap. -/
theorem xstep_ctor_cases (w : MWorld T H) (o : XOp T) (ho : o.isCtor = true) :
    ((xstep E A mixIn cfg w o).2 = w ∧ ∃ e, (xstep E A mixIn cfg w o).1 = .w (.out (.error e))) ∨
    ((xstep E A mixIn cfg w o).1 = .w (.out .ok) ∧
      ∃ c h', (xstep E A mixIn cfg w o).2 = ⟨h', w.colls ++ [c]⟩) := by
  cases o with
  | w o => cases ho
  | sszEncode i => cases ho
  | serdeSer i => cases ho
  | newFromSsz k bs =>
    cases k with
    | list =>
      simp only [xstep]
      split
      · exact Or.inl ⟨rfl, _, rfl⟩
      · exact Or.inr ⟨rfl, _, _, rfl⟩
    | vector =>
      simp only [xstep]
      split
      · exact Or.inl ⟨rfl, _, rfl⟩
      · exact Or.inr ⟨rfl, _, _, rfl⟩
  | newFromSerde k xs =>
    simp only [xstep]
    split
    · exact Or.inl ⟨rfl, _, rfl⟩
    · exact Or.inr ⟨rfl, _, _, rfl⟩

/-- a constructor that does not answer `ok` leaves the world literally unchanged. -/
theorem xstep_ctor_failed_state (w : MWorld T H) (o : XOp T) (ho : o.isCtor = true)
    (hf : (xstep E A mixIn cfg w o).1 ≠ .w (.out .ok)) : (xstep E A mixIn cfg w o).2 = w := by
  rcases xstep_ctor_cases (E := E) (A := A) (mixIn := mixIn) (cfg := cfg) w o ho with ⟨h, _⟩ | ⟨h, _⟩
  · exact h
  · exact absurd h hf

/-- decoding only appends: the existing handles are literally the same values. -/
theorem xstep_newFromSsz_frame (w : MWorld T H) (k : CKind) (bs : List UInt8) :
    (xstep E A mixIn cfg w (.newFromSsz k bs)).2.colls.take w.colls.length = w.colls := by
  rcases xstep_ctor_cases (E := E) (A := A) (mixIn := mixIn) (cfg := cfg) w (.newFromSsz k bs) rfl
    with ⟨h, _⟩ | ⟨_, c, h', h⟩
  · rw [h, List.take_length]
  · rw [h]; exact List.take_left' rfl

/-- deserialising only appends: the existing handles are literally the same values. -/
theorem xstep_newFromSerde_frame (w : MWorld T H) (k : CKind) (xs : List T) :
    (xstep E A mixIn cfg w (.newFromSerde k xs)).2.colls.take w.colls.length = w.colls := by
  rcases xstep_ctor_cases (E := E) (A := A) (mixIn := mixIn) (cfg := cfg) w (.newFromSerde k xs) rfl
    with ⟨h, _⟩ | ⟨_, c, h', h⟩
  · rw [h, List.take_length]
  · rw [h]; exact List.take_left' rfl

/-- immutability is structural, X-version: an X-operation does not touch the `Coll` value of any
existing handle but the one it is addressed to. -/
theorem xstep_frame_model (w : MWorld T H) (o : XOp T) (k : Nat) (hk : k < w.colls.length)
    (hw : o.writes ≠ some k) : (xstep E A mixIn cfg w o).2.colls[k]? = w.colls[k]? := by
  cases o with
  | w o => exact wstep_frame_model w o k hk hw
  | sszEncode i => rw [xstep_sszEncode_state]
  | serdeSer i => rw [xstep_serdeSer_state]
  | newFromSsz kd bs =>
    have := xstep_newFromSsz_frame (E := E) (A := A) (mixIn := mixIn) (cfg := cfg) w kd bs
    rw [← List.getElem?_take_of_lt hk, this]
  | newFromSerde kd xs =>
    have := xstep_newFromSerde_frame (E := E) (A := A) (mixIn := mixIn) (cfg := cfg) w kd xs
    rw [← List.getElem?_take_of_lt hk, this]

/-- the same on the plain sequences. -/
theorem xsstep_frame (s : SWorld T) (o : XOp T) (k : Nat) (hk : k < s.length)
    (hw : o.writes ≠ some k) : (xsstep E A mixIn N s o).2[k]? = s[k]? := by
  cases o with
  | w o => exact wsstep_frame s o k hk hw
  | sszEncode i => rw [xsstep_sszEncode_state]
  | serdeSer i => rw [xsstep_serdeSer_state]
  | newFromSsz kd bs =>
    simp only [xsstep]
    repeat' split
    all_goals first | rfl | exact List.getElem?_append_left hk
  | newFromSerde kd xs =>
    simp only [xsstep]
    split
    · exact List.getElem?_append_left hk
    · rfl

/-- a constructor leaves every memo of the old heap untouched (it only allocates). -/
theorem xstep_constructor_memos {w : MWorld T H} {sw : SWorld T} (W : WInv E A cfg w sw)
    (o : XOp T) (ho : o.isCtor = true) :
    ∀ i, i < w.heap.next →
      (xstep E A mixIn cfg w o).2.heap.read A.zero i = w.heap.read A.zero i := by
  obtain ⟨f, hok, _⟩ := W
  intro i hi
  cases o with
  | w o => cases ho
  | sszEncode i => cases ho
  | serdeSer i => cases ho
  | newFromSsz k bs =>
    cases k with
    | list =>
      cases e : sszDecodeList E A.zero cfg bs w.heap with
      | error er => simp only [xstep, e]
      | ok r =>
        obtain ⟨c, h'⟩ := r
        obtain ⟨_, _, _, _, _, rd⟩ :=
          RegPost.keeps hok (sszDecodeList_reg E A cfg bs f w.heap h' c hok e)
        simp only [xstep, e]
        exact rd i hi
    | vector =>
      cases e : sszDecodeVector E A.zero cfg bs w.heap with
      | error er => simp only [xstep, e]
      | ok r =>
        obtain ⟨c, h'⟩ := r
        obtain ⟨_, _, _, _, _, rd⟩ :=
          RegPost.keeps hok (sszDecodeVector_reg E A cfg bs f w.heap h' c hok e)
        simp only [xstep, e]
        exact rd i hi
  | newFromSerde k xs =>
    cases e : serdeDe k E.pf A.zero cfg xs w.heap with
    | error er => simp only [xstep, e]
    | ok r =>
      obtain ⟨c, h'⟩ := r
      simp only [xstep, e]
      cases k with
      | list =>
        simp only [serdeDe, serdeMapErr] at e
        split at e
        · rename_i r' e'
          cases e
          obtain ⟨_, _, _, _, _, rd⟩ :=
            RegPost.keeps hok (tryFromIter_reg E A E.pf cfg xs f w.heap h' c hok e')
          exact rd i hi
        · cases e
      | vector =>
        simp only [serdeDe, serdeMapErr] at e
        split at e
        · rename_i r' e'
          cases e
          obtain ⟨_, _, _, _, _, rd⟩ :=
            RegPost.keeps hok (vectorFromIter_reg E A E.pf cfg xs f w.heap h' c hok e')
          exact rd i hi
        · cases e

end Frames

/-! ## Closed corollaries: C05, C12, C13 for every finite X-history -/

section Closed
variable [DecidableEq T] [DecidableEq H]
variable {E : Elem T H} {A : HashAlg H} {mixIn : H → Nat → H} {cfg : Cfg}

/-- under the world invariant every plain sequence respects the bound of its kind, and the model
handle reports exactly its length. -/
theorem xs_bound_of_winv {w : MWorld T H} {sw : SWorld T} (W : WInv E A cfg w sw) {i : Nat}
    {k : CKind} {xs : List T} {p : Bool} (h : sw[i]? = some (k, xs, p)) :
    XBound cfg.N k xs.length ∧
      ∃ c, w.colls[i]? = some c ∧ c.kind = k ∧ c.len = xs.length ∧ c.hasPending = p := by
  obtain ⟨f, _, Hs⟩ := W
  have hi : i < sw.length := by
    rcases Nat.lt_or_ge i sw.length with h' | h'
    · exact h'
    · rw [List.getElem?_eq_none h'] at h; cases h
  have hi' : i < w.colls.length := Hs.1 ▸ hi
  have hc : w.colls[i]? = some w.colls[i] := List.getElem?_eq_getElem hi'
  have hI := Hs.2 i _ _ hc h
  obtain ⟨ys, I, hv⟩ := hI.inv
  have hk : w.colls[i].kind = k := hI.kind
  have hv' : Coll.view ys w.colls[i] = xs := hv
  refine ⟨?_, w.colls[i], hc, hk, by rw [C01_len I, hv'], hI.pending⟩
  cases k with
  | list => rw [← hv']; exact C05_view_length_le I
  | vector => rw [← hv']; exact C05_view_length_vector I hk

/-- **C05, every X-history.** After any finite history — SSZ decoding and serde deserialisation of
arbitrary inputs included — every handle's plain contents respect the capacity: a list holds at most
`N`, a vector exactly `N` elements. -/
theorem C05_history_bounded_x (K : CfgOK E.pf cfg) (hE : CodecOK E) (hcf : CollisionFree E A)
    (nz : NoZeroNode A) (ops : List (XOp T)) (i : Nat) (k : CKind) (xs : List T) (p : Bool)
    (h : (xsrun E A mixIn cfg.N [] ops).2[i]? = some (k, xs, p)) : XBound cfg.N k xs.length :=
  (xs_bound_of_winv (xrun_refines (mixIn := mixIn) K hE hcf nz ops).2 h).1

/-- **C05, every X-history, on the model only:** every handle reports a length within the bound of
its kind, and `to_vec()` succeeds with that many elements. -/
theorem C05_history_bounded_x_model (K : CfgOK E.pf cfg) (hE : CodecOK E)
    (hcf : CollisionFree E A) (nz : NoZeroNode A) (ops : List (XOp T)) :
    ∀ c ∈ (xrun E A mixIn cfg MWorld.empty ops).2.colls,
      XBound cfg.N c.kind c.len ∧ ∃ vs, c.toVec E.pf = .ok vs ∧ vs.length = c.len := by
  obtain ⟨f, _, Hs⟩ := (xrun_refines (mixIn := mixIn) K hE hcf nz ops).2
  intro c hc
  obtain ⟨j, hj, hget⟩ := List.getElem_of_mem hc
  obtain ⟨se, _, hI⟩ := Hs.get_some (i := j) (c := c) (by rw [List.getElem?_eq_getElem hj, hget])
  obtain ⟨ys, I, _⟩ := hI.inv
  refine ⟨?_, _, C01_toVec K I, (C01_len I).symm⟩
  cases hk : c.kind with
  | list => exact C05_len_le I
  | vector => exact C05_len_vector I hk

/-- the item decoder accepts the encoding of every in-bounds sequence (for variable-size elements
the encoding must fit the four-byte SSZ offsets). -/
theorem xs_roundtrip_items (hE : CodecOK E) (N : Nat) (k : CKind) (xs : List T)
    (hb : XBound N k xs.length) (h32 : E.fixedLen = none → (sszEncode E xs).length < 2 ^ 32) :
    sszDecodeItems E N (sszEncode E xs) = some xs := by
  have hl : xs.length ≤ N := by
    cases k with
    | list => exact hb
    | vector => exact Nat.le_of_eq hb
  cases hk : E.fixedLen with
  | some n => exact C12_roundtrip_fixed hE hk N xs hl
  | none => exact C12_roundtrip_var hE hk N xs hl (h32 hk)

/-- the SSZ round trip on the plain sequences. -/
theorem xs_spec_ssz_roundtrip (hE : CodecOK E) (N : Nat) (s : SWorld T) (i : Nat) (k : CKind)
    (xs : List T) (p : Bool) (h : s[i]? = some (k, xs, p)) (hb : XBound N k xs.length)
    (h32 : E.fixedLen = none → (sszEncode E xs).length < 2 ^ 32) :
    xsrun E A mixIn N s [.sszEncode i, .newFromSsz k (sszEncode E xs)] =
      ([.bytes (sszEncode E xs) (sszEncode E xs).length, .w (.out .ok)], s ++ [(k, xs, false)]) := by
  simp only [xsrun, xsstep, h, xs_roundtrip_items hE N k xs hb h32, if_pos hb]

/-- the serde round trip on the plain sequences. -/
theorem xs_spec_serde_roundtrip (N : Nat) (s : SWorld T) (i : Nat) (k : CKind)
    (xs : List T) (p : Bool) (h : s[i]? = some (k, xs, p)) (hb : XBound N k xs.length) :
    xsrun E A mixIn N s [.serdeSer i, .newFromSerde k xs] =
      ([.seq xs, .w (.out .ok)], s ++ [(k, xs, false)]) := by
  simp only [xsrun, xsstep, h, if_pos hb]

/-- **C12, every X-history (round trip).** After ANY finite history, for every existing handle `i`
whose plain contents are `(k, xs, p)` (pending writes allowed):
* `.sszEncode i` writes the SSZ encoding of `xs` and announces its true length;
* continuing the history with `[.sszEncode i, .newFromSsz k (those bytes)]` outputs those bytes and
  `ok`, and ends in a state whose new last handle has plain contents `(k, xs, false)`: decoding what
  was encoded yields a handle of the same kind with the same contents and no pending writes; the
  model world after the continuation satisfies the invariant against that state, so every later
  observation on the new handle is that of `xs` (`C12_history_closed_obs`).
For variable-size elements the encoding must fit the four-byte SSZ offsets (`h32`); for fixed-size
elements there is no size condition. -/
theorem C12_history_closed (K : CfgOK E.pf cfg) (hE : CodecOK E) (hcf : CollisionFree E A)
    (nz : NoZeroNode A) (ops : List (XOp T)) (i : Nat) (k : CKind) (xs : List T) (p : Bool)
    (h : (xsrun E A mixIn cfg.N [] ops).2[i]? = some (k, xs, p))
    (h32 : E.fixedLen = none → (sszEncode E xs).length < 2 ^ 32) :
    (xstep E A mixIn cfg (xrun E A mixIn cfg MWorld.empty ops).2 (.sszEncode i)).1 =
        .bytes (sszEncode E xs) (sszEncode E xs).length ∧
    (xrun E A mixIn cfg MWorld.empty (ops ++ [.sszEncode i, .newFromSsz k (sszEncode E xs)])).1 =
        (xrun E A mixIn cfg MWorld.empty ops).1 ++
          [.bytes (sszEncode E xs) (sszEncode E xs).length, .w (.out .ok)] ∧
    (xsrun E A mixIn cfg.N [] (ops ++ [.sszEncode i, .newFromSsz k (sszEncode E xs)])).2 =
        (xsrun E A mixIn cfg.N [] ops).2 ++ [(k, xs, false)] ∧
    WInv E A cfg
      (xrun E A mixIn cfg MWorld.empty (ops ++ [.sszEncode i, .newFromSsz k (sszEncode E xs)])).2
      ((xsrun E A mixIn cfg.N [] ops).2 ++ [(k, xs, false)]) := by
  obtain ⟨_, W⟩ := xrun_refines (mixIn := mixIn) K hE hcf nz ops
  have hb := (xs_bound_of_winv W h).1
  have hsp := xs_spec_ssz_roundtrip (A := A) (mixIn := mixIn) hE cfg.N _ i k xs p h hb h32
  obtain ⟨ho2, W2⟩ := xrun_refines_from (mixIn := mixIn) K hE hcf nz
    [.sszEncode i, .newFromSsz k (sszEncode E xs)] _ _ W
  rw [hsp] at ho2 W2
  refine ⟨?_, ?_, ?_, ?_⟩
  · rw [(xstep_refines K hE hcf nz W (.sszEncode i)).1]
    simp only [xsstep, h]
  · rw [xrun_append, ho2]
  · rw [xsrun_append, hsp]
  · rw [xrun_append]; exact W2

/-- **C12, every X-history (what the decoded handle shows).** After the round trip of
`C12_history_closed`, EVERY continuation `post` — reads, iteration, writes, roots, equality with the
original, rebasing onto it, further encodings … — answers on the model what it answers on the plain
sequences extended by `(k, xs, false)`. -/
theorem C12_history_closed_obs (K : CfgOK E.pf cfg) (hE : CodecOK E) (hcf : CollisionFree E A)
    (nz : NoZeroNode A) (ops post : List (XOp T)) (i : Nat) (k : CKind) (xs : List T) (p : Bool)
    (h : (xsrun E A mixIn cfg.N [] ops).2[i]? = some (k, xs, p))
    (h32 : E.fixedLen = none → (sszEncode E xs).length < 2 ^ 32) :
    (xrun E A mixIn cfg
        (xrun E A mixIn cfg MWorld.empty
          (ops ++ [.sszEncode i, .newFromSsz k (sszEncode E xs)])).2 post).1 =
      (xsrun E A mixIn cfg.N ((xsrun E A mixIn cfg.N [] ops).2 ++ [(k, xs, false)]) post).1 :=
  (xrun_refines_from K hE hcf nz post _ _
    (C12_history_closed K hE hcf nz ops i k xs p h h32).2.2.2).1

/-- **C12, every X-history: the decoded handle equals the flushed original.** If the original has
no pending writes, the derived `==` between it and the handle decoded from its encoding answers
`true`. -/
theorem C12_history_decoded_eq_original (K : CfgOK E.pf cfg) (hE : CodecOK E)
    (hcf : CollisionFree E A) (nz : NoZeroNode A) (ops : List (XOp T)) (i : Nat) (k : CKind)
    (xs : List T) (h : (xsrun E A mixIn cfg.N [] ops).2[i]? = some (k, xs, false))
    (h32 : E.fixedLen = none → (sszEncode E xs).length < 2 ^ 32) :
    (xstep E A mixIn cfg
        (xrun E A mixIn cfg MWorld.empty
          (ops ++ [.sszEncode i, .newFromSsz k (sszEncode E xs)])).2
        (.w (.eqFlushed i (xsrun E A mixIn cfg.N [] ops).2.length))).1 = .w (.out (.bool true)) := by
  have W := (C12_history_closed K hE hcf nz ops i k xs false h h32).2.2.2
  rw [(xstep_refines K hE hcf nz W _).1]
  have hi : i < (xsrun E A mixIn cfg.N [] ops).2.length := by
    rcases Nat.lt_or_ge i (xsrun E A mixIn cfg.N [] ops).2.length with h' | h'
    · exact h'
    · rw [List.getElem?_eq_none h'] at h; cases h
  have h1 : ((xsrun E A mixIn cfg.N [] ops).2 ++ [(k, xs, false)])[i]? = some (k, xs, false) := by
    rw [List.getElem?_append_left hi]; exact h
  have h2 : ((xsrun E A mixIn cfg.N [] ops).2 ++ [(k, xs, false)])[
      (xsrun E A mixIn cfg.N [] ops).2.length]? = some (k, xs, false) := by
    rw [List.getElem?_append_right (Nat.le_refl _), Nat.sub_self]; rfl
  simp only [xsstep, wsstep, h1, h2, and_self, if_true, decide_true]

/-- **C12, every X-history (strictness).** After ANY finite history and for ANY byte string `bs`,
`.newFromSsz k bs` either
* answers `ok`: then `bs` is the canonical SSZ encoding of the new handle's plain contents `xs`, the
  bound of the kind holds for `xs`, the new handle is appended with no pending writes, and the world
  invariant holds against the extended state; or
* answers the decode error `ssz` (never a panic, never another error) and the model world is
  literally unchanged (and so are the plain sequences). -/
theorem C12_history_strict (K : CfgOK E.pf cfg) (hE : CodecOK E) (hcf : CollisionFree E A)
    (nz : NoZeroNode A) (ops : List (XOp T)) (k : CKind) (bs : List UInt8) :
    (∃ xs,
      (xstep E A mixIn cfg (xrun E A mixIn cfg MWorld.empty ops).2 (.newFromSsz k bs)).1 =
          .w (.out .ok) ∧
        bs = sszEncode E xs ∧ XBound cfg.N k xs.length ∧
        (xsstep E A mixIn cfg.N (xsrun E A mixIn cfg.N [] ops).2 (.newFromSsz k bs)).2 =
          (xsrun E A mixIn cfg.N [] ops).2 ++ [(k, xs, false)] ∧
        (∃ c h', (xstep E A mixIn cfg (xrun E A mixIn cfg MWorld.empty ops).2
            (.newFromSsz k bs)).2 = ⟨h', (xrun E A mixIn cfg MWorld.empty ops).2.colls ++ [c]⟩) ∧
        WInv E A cfg
          (xstep E A mixIn cfg (xrun E A mixIn cfg MWorld.empty ops).2 (.newFromSsz k bs)).2
          ((xsrun E A mixIn cfg.N [] ops).2 ++ [(k, xs, false)])) ∨
    ((xstep E A mixIn cfg (xrun E A mixIn cfg MWorld.empty ops).2 (.newFromSsz k bs)).1 =
        .w (.out (.error .ssz)) ∧
      (xstep E A mixIn cfg (xrun E A mixIn cfg MWorld.empty ops).2 (.newFromSsz k bs)).2 =
        (xrun E A mixIn cfg MWorld.empty ops).2 ∧
      (xsstep E A mixIn cfg.N (xsrun E A mixIn cfg.N [] ops).2 (.newFromSsz k bs)).2 =
        (xsrun E A mixIn cfg.N [] ops).2) := by
  obtain ⟨_, W⟩ := xrun_refines (mixIn := mixIn) K hE hcf nz ops
  obtain ⟨ho, W'⟩ := xstep_refines (mixIn := mixIn) K hE hcf nz W (.newFromSsz k bs)
  have hfail : ∀ {o : XOut T H}, o = .w (.out (.error .ssz)) → o ≠ .w (.out .ok) := by
    intro o h1 h2; rw [h1] at h2; cases h2
  cases hx : sszDecodeItems E cfg.N bs with
  | none =>
    right
    have e1 : (xsstep E A mixIn cfg.N (xsrun E A mixIn cfg.N [] ops).2 (.newFromSsz k bs)) =
        (.w (.out (.error .ssz)), (xsrun E A mixIn cfg.N [] ops).2) := by
      simp only [xsstep, hx]
    rw [e1] at ho
    exact ⟨ho, xstep_ctor_failed_state _ _ rfl (hfail ho), by rw [e1]⟩
  | some xs =>
    by_cases hb : XBound cfg.N k xs.length
    · left
      have e1 : (xsstep E A mixIn cfg.N (xsrun E A mixIn cfg.N [] ops).2 (.newFromSsz k bs)) =
          (.w (.out .ok), (xsrun E A mixIn cfg.N [] ops).2 ++ [(k, xs, false)]) := by
        simp only [xsstep, hx, if_pos hb]
      rw [e1] at ho W'
      refine ⟨xs, ho, (C12_strict hE cfg.N bs xs hx).1.symm, hb, by rw [e1], ?_, W'⟩
      rcases xstep_ctor_cases (E := E) (A := A) (mixIn := mixIn) (cfg := cfg)
        (xrun E A mixIn cfg MWorld.empty ops).2 (.newFromSsz k bs) rfl with ⟨_, e, he⟩ | ⟨_, hc⟩
      · rw [he] at ho; cases ho
      · exact hc
    · right
      have e1 : (xsstep E A mixIn cfg.N (xsrun E A mixIn cfg.N [] ops).2 (.newFromSsz k bs)) =
          (.w (.out (.error .ssz)), (xsrun E A mixIn cfg.N [] ops).2) := by
        simp only [xsstep, hx, if_neg hb]
      rw [e1] at ho
      exact ⟨ho, xstep_ctor_failed_state _ _ rfl (hfail ho), by rw [e1]⟩

/-- **C13, every X-history (round trip).** After ANY finite history, for every existing handle `i`
with plain contents `(k, xs, p)`: `.serdeSer i` hands `xs` to the serializer (pending writes are
seen), and continuing with `[.serdeSer i, .newFromSerde k xs]` answers `ok` and ends in a state
whose new last handle is `(k, xs, false)`; the model world satisfies the invariant against it. No
size condition. -/
theorem C13_history_closed (K : CfgOK E.pf cfg) (hE : CodecOK E) (hcf : CollisionFree E A)
    (nz : NoZeroNode A) (ops : List (XOp T)) (i : Nat) (k : CKind) (xs : List T) (p : Bool)
    (h : (xsrun E A mixIn cfg.N [] ops).2[i]? = some (k, xs, p)) :
    (xstep E A mixIn cfg (xrun E A mixIn cfg MWorld.empty ops).2 (.serdeSer i)).1 = .seq xs ∧
    (xrun E A mixIn cfg MWorld.empty (ops ++ [.serdeSer i, .newFromSerde k xs])).1 =
        (xrun E A mixIn cfg MWorld.empty ops).1 ++ [.seq xs, .w (.out .ok)] ∧
    (xsrun E A mixIn cfg.N [] (ops ++ [.serdeSer i, .newFromSerde k xs])).2 =
        (xsrun E A mixIn cfg.N [] ops).2 ++ [(k, xs, false)] ∧
    WInv E A cfg
      (xrun E A mixIn cfg MWorld.empty (ops ++ [.serdeSer i, .newFromSerde k xs])).2
      ((xsrun E A mixIn cfg.N [] ops).2 ++ [(k, xs, false)]) := by
  obtain ⟨_, W⟩ := xrun_refines (mixIn := mixIn) K hE hcf nz ops
  have hb := (xs_bound_of_winv W h).1
  have hsp := xs_spec_serde_roundtrip (E := E) (A := A) (mixIn := mixIn) cfg.N _ i k xs p h hb
  obtain ⟨ho2, W2⟩ := xrun_refines_from (mixIn := mixIn) K hE hcf nz
    [.serdeSer i, .newFromSerde k xs] _ _ W
  rw [hsp] at ho2 W2
  refine ⟨?_, ?_, ?_, ?_⟩
  · rw [(xstep_refines K hE hcf nz W (.serdeSer i)).1]
    simp only [xsstep, h]
  · rw [xrun_append, ho2]
  · rw [xsrun_append, hsp]
  · rw [xrun_append]; exact W2

/-- **C13, every X-history (what the deserialised handle shows).** After the serde round trip every
continuation answers on the model what it answers on the plain sequences extended by
`(k, xs, false)`. -/
theorem C13_history_closed_obs (K : CfgOK E.pf cfg) (hE : CodecOK E) (hcf : CollisionFree E A)
    (nz : NoZeroNode A) (ops post : List (XOp T)) (i : Nat) (k : CKind) (xs : List T) (p : Bool)
    (h : (xsrun E A mixIn cfg.N [] ops).2[i]? = some (k, xs, p)) :
    (xrun E A mixIn cfg
        (xrun E A mixIn cfg MWorld.empty (ops ++ [.serdeSer i, .newFromSerde k xs])).2 post).1 =
      (xsrun E A mixIn cfg.N ((xsrun E A mixIn cfg.N [] ops).2 ++ [(k, xs, false)]) post).1 :=
  (xrun_refines_from K hE hcf nz post _ _ (C13_history_closed K hE hcf nz ops i k xs p h).2.2.2).1

/-- `Deserialize` with a wrong number of values is rejected in EVERY world (no invariant needed):
serde error, the world literally unchanged. -/
theorem xstep_newFromSerde_rejects (K : CfgOK E.pf cfg) (w : MWorld T H) (k : CKind) (xs : List T)
    (hb : ¬ XBound cfg.N k xs.length) :
    xstep E A mixIn cfg w (.newFromSerde k xs) = (.w (.out (.error .ssz)), w) := by
  obtain ⟨r1, r2⟩ := C13_rejects E.pf A.zero cfg K xs w.heap
  cases k with
  | list =>
    have : ¬ xs.length ≤ cfg.N := hb
    simp only [xstep, r1 (by omega)]
  | vector =>
    have : ¬ xs.length = cfg.N := hb
    simp only [xstep, r2 this]

/-- **C13, every X-history (rejection).** After ANY finite history, deserialising a sequence whose
length does not fit the kind (more than `N` for a list, different from `N` for a vector) answers
the serde error and leaves the model world literally unchanged (and the plain sequences too). -/
theorem C13_history_rejects (K : CfgOK E.pf cfg) (ops : List (XOp T)) (k : CKind) (xs : List T)
    (hb : ¬ XBound cfg.N k xs.length) :
    (xstep E A mixIn cfg (xrun E A mixIn cfg MWorld.empty ops).2 (.newFromSerde k xs)).1 =
        .w (.out (.error .ssz)) ∧
      (xstep E A mixIn cfg (xrun E A mixIn cfg MWorld.empty ops).2 (.newFromSerde k xs)).2 =
        (xrun E A mixIn cfg MWorld.empty ops).2 ∧
      (xsstep E A mixIn cfg.N (xsrun E A mixIn cfg.N [] ops).2 (.newFromSerde k xs)) =
        (.w (.out (.error .ssz)), (xsrun E A mixIn cfg.N [] ops).2) := by
  rw [xstep_newFromSerde_rejects K _ k xs hb]
  exact ⟨rfl, rfl, by simp only [xsstep, if_neg hb]⟩

/-- **C13, every X-history (acceptance is exactly the bound).** `.newFromSerde k xs` answers `ok`
iff the number of values fits the kind. -/
theorem C13_history_ok_iff (K : CfgOK E.pf cfg) (hE : CodecOK E) (hcf : CollisionFree E A)
    (nz : NoZeroNode A) (ops : List (XOp T)) (k : CKind) (xs : List T) :
    (xstep E A mixIn cfg (xrun E A mixIn cfg MWorld.empty ops).2 (.newFromSerde k xs)).1 =
        .w (.out .ok) ↔ XBound cfg.N k xs.length := by
  rw [xrun_then_step K hE hcf nz ops]
  by_cases hb : XBound cfg.N k xs.length
  · have e : (xsstep E A mixIn cfg.N (xsrun E A mixIn cfg.N [] ops).2 (.newFromSerde k xs)).1 =
        .w (.out .ok) := by simp only [xsstep, if_pos hb]
    exact ⟨fun _ => hb, fun _ => e⟩
  · have e : (xsstep E A mixIn cfg.N (xsrun E A mixIn cfg.N [] ops).2 (.newFromSerde k xs)).1 =
        .w (.out (.error .ssz)) := by simp only [xsstep, if_neg hb]
    rw [e]
    constructor
    · intro h; cases h
    · intro h; exact absurd h hb

end Closed

/-! ## C03 / C04 for X-histories -/

/-- the handles an X-operation mentions. -/
def XOp.handles : XOp T → List Nat
  | .w o => o.handles
  | .sszEncode i => [i]
  | .serdeSer i => [i]
  | .newFromSsz _ _ => []
  | .newFromSerde _ _ => []

def XOp.isRoot : XOp T → Bool
  | .w o => o.isRoot
  | _ => false

/-- the X-history without its root computations. -/
def xstripRoots (ops : List (XOp T)) : List (XOp T) := ops.filter (fun o => !o.isRoot)

/-- the outputs at the positions of the operations that are not root computations. -/
def xnonRootOuts {α : Type} : List (XOp T) → List α → List α
  | o :: ops, x :: xs => if o.isRoot then xnonRootOuts ops xs else x :: xnonRootOuts ops xs
  | _, _ => []

section SpecFactsX
variable [DecidableEq T] [DecidableEq H] {E : Elem T H} {A : HashAlg H} {mixIn : H → Nat → H} {N : Nat}

/-- the output of an X-operation only depends on the entries of the handles it mentions. -/
theorem xsstep_out_congr (s s' : SWorld T) (r : XOp T) (h : ∀ k ∈ r.handles, s[k]? = s'[k]?) :
    (xsstep E A mixIn N s r).1 = (xsstep E A mixIn N s' r).1 := by
  cases r with
  | w o => exact congrArg XOut.w (wsstep_out_congr s s' o h)
  | sszEncode i =>
    have := h i (by simp [XOp.handles])
    simp only [xsstep, this]; split <;> rfl
  | serdeSer i =>
    have := h i (by simp [XOp.handles])
    simp only [xsstep, this]; split <;> rfl
  | newFromSsz k bs => simp only [xsstep]; (repeat' split) <;> rfl
  | newFromSerde k xs => simp only [xsstep]; split <;> rfl

/-- a root computation does not change the plain sequences. -/
theorem xsstep_root_state (s : SWorld T) (o : XOp T) (hr : o.isRoot = true) :
    (xsstep E A mixIn N s o).2 = s := by
  cases o with
  | w o =>
    cases o <;> simp [XOp.isRoot, WOp.isRoot] at hr
    exact wsstep_root_state s _
  | _ => simp [XOp.isRoot] at hr

/-- removing the root computations from an X-history leaves all other outputs, and the final plain
sequences, unchanged. -/
theorem xsrun_stripRoots (ops : List (XOp T)) : ∀ s : SWorld T,
    xnonRootOuts ops (xsrun E A mixIn N s ops).1 = (xsrun E A mixIn N s (xstripRoots ops)).1 ∧
      (xsrun E A mixIn N s ops).2 = (xsrun E A mixIn N s (xstripRoots ops)).2 := by
  induction ops with
  | nil => intro s; exact ⟨rfl, rfl⟩
  | cons o rest ih =>
    intro s
    cases hr : o.isRoot with
    | true =>
      have hst : xstripRoots (o :: rest) = xstripRoots rest := by
        simp [xstripRoots, hr]
      have hstate : (xsstep E A mixIn N s o).2 = s := xsstep_root_state s o hr
      rw [hst]
      simp only [xsrun, xnonRootOuts, hr, if_true, hstate]
      exact ih s
    | false =>
      have hst : xstripRoots (o :: rest) = o :: xstripRoots rest := by
        simp [xstripRoots, hr]
      rw [hst]
      simp only [xsrun, xnonRootOuts, hr, Bool.false_eq_true, if_false]
      obtain ⟨a, b⟩ := ih (xsstep E A mixIn N s o).2
      exact ⟨by rw [a], b⟩

/-- inserting anywhere in an X-history an operation that does not change the plain sequences
changes no other output and not the final plain sequences. -/
theorem xsrun_insert_invisible (o : XOp T) (ho : ∀ s, (xsstep E A mixIn N s o).2 = s)
    (pre post : List (XOp T)) (s : SWorld T) :
    (xsrun E A mixIn N s (pre ++ o :: post)).1.eraseIdx pre.length =
        (xsrun E A mixIn N s (pre ++ post)).1 ∧
      (xsrun E A mixIn N s (pre ++ o :: post)).2 = (xsrun E A mixIn N s (pre ++ post)).2 := by
  rw [xsrun_append, xsrun_append]
  simp only [xsrun, ho]
  refine ⟨?_, by trivial⟩
  rw [List.eraseIdx_append_of_length_le (by rw [length_xsrun]; exact Nat.le_refl _), length_xsrun,
    Nat.sub_self]
  rfl

end SpecFactsX

section CorollariesX
variable [DecidableEq T] [DecidableEq H]
variable {E : Elem T H} {A : HashAlg H} {mixIn : H → Nat → H} {cfg : Cfg}

/-- **C03 (root computations are invisible), X-histories.** For every finite X-history the outputs
of all operations other than root computations — SSZ encodings, announced lengths, serialised
sequences, decode results included — are exactly the outputs of the history from which every root
computation has been removed: no memo written by a root computation is ever observable, not even
through `as_ssz_bytes` or serde. -/
theorem C03_roots_invisible_x (K : CfgOK E.pf cfg) (hE : CodecOK E) (hcf : CollisionFree E A)
    (nz : NoZeroNode A) (ops : List (XOp T)) :
    xnonRootOuts ops (xrun E A mixIn cfg MWorld.empty ops).1 =
      (xrun E A mixIn cfg MWorld.empty (xstripRoots ops)).1 := by
  rw [(xrun_refines K hE hcf nz ops).1, (xrun_refines K hE hcf nz (xstripRoots ops)).1]
  exact (xsrun_stripRoots ops []).1

/-- an X-operation that does not change the plain sequences can be inserted anywhere in an
X-history without changing any other output. -/
theorem xinsert_invisible (K : CfgOK E.pf cfg) (hE : CodecOK E) (hcf : CollisionFree E A)
    (nz : NoZeroNode A) (o : XOp T) (ho : ∀ s, (xsstep E A mixIn cfg.N s o).2 = s)
    (pre post : List (XOp T)) :
    (xrun E A mixIn cfg MWorld.empty (pre ++ o :: post)).1.eraseIdx pre.length =
      (xrun E A mixIn cfg MWorld.empty (pre ++ post)).1 := by
  rw [(xrun_refines K hE hcf nz (pre ++ o :: post)).1, (xrun_refines K hE hcf nz (pre ++ post)).1]
  exact (xsrun_insert_invisible o ho pre post []).1

/-- **C03**, one root computation inserted anywhere in an X-history: every other output is
unchanged. -/
theorem C03_root_insert_invisible_x (K : CfgOK E.pf cfg) (hE : CodecOK E)
    (hcf : CollisionFree E A) (nz : NoZeroNode A) (pre post : List (XOp T)) (i : Nat) :
    (xrun E A mixIn cfg MWorld.empty (pre ++ .w (.root i) :: post)).1.eraseIdx pre.length =
      (xrun E A mixIn cfg MWorld.empty (pre ++ post)).1 :=
  xinsert_invisible K hE hcf nz (.w (.root i)) (fun s => wsstep_root_state s i) pre post

/-- **C04, the new observations are pure.** Inserting an SSZ encoding or a serde serialisation of
any handle anywhere in an X-history changes no other output (on the model they do not change the
world at all: `xstep_sszEncode_state`, `xstep_serdeSer_state`). -/
theorem C04_new_ops_invisible_x (K : CfgOK E.pf cfg) (hE : CodecOK E) (hcf : CollisionFree E A)
    (nz : NoZeroNode A) (pre post : List (XOp T)) (i : Nat) :
    (xrun E A mixIn cfg MWorld.empty (pre ++ .sszEncode i :: post)).1.eraseIdx pre.length =
        (xrun E A mixIn cfg MWorld.empty (pre ++ post)).1 ∧
      (xrun E A mixIn cfg MWorld.empty (pre ++ .serdeSer i :: post)).1.eraseIdx pre.length =
        (xrun E A mixIn cfg MWorld.empty (pre ++ post)).1 :=
  ⟨xinsert_invisible K hE hcf nz (.sszEncode i) (fun s => xsstep_sszEncode_state s i) pre post,
   xinsert_invisible K hE hcf nz (.serdeSer i) (fun s => xsstep_serdeSer_state s i) pre post⟩

/-- **C04 (versions are isolated), X-histories.** After any X-history `ops`, let `o` be any
X-operation (a decode of arbitrary bytes, a deserialisation, or any world operation) and `r` any
X-operation all of whose handles exist already and none of which is the handle `o` is addressed to.
Then `r` — e.g. the SSZ encoding of an old handle — answers after `ops ++ [o]` exactly what it
answers after `ops`. -/
theorem C04_isolation_x (K : CfgOK E.pf cfg) (hE : CodecOK E) (hcf : CollisionFree E A)
    (nz : NoZeroNode A) (ops : List (XOp T)) (o r : XOp T)
    (hr : ∀ k ∈ r.handles, k < (xrun E A mixIn cfg MWorld.empty ops).2.colls.length ∧
      o.writes ≠ some k) :
    (xstep E A mixIn cfg (xrun E A mixIn cfg MWorld.empty (ops ++ [o])).2 r).1 =
      (xstep E A mixIn cfg (xrun E A mixIn cfg MWorld.empty ops).2 r).1 := by
  rw [xrun_then_step K hE hcf nz (ops ++ [o]) r, xrun_then_step K hE hcf nz ops r]
  apply xsstep_out_congr
  intro k hk
  obtain ⟨hlt, hw⟩ := hr k hk
  rw [xsrun_append]
  simp only [xsrun]
  apply xsstep_frame _ _ _ _ hw
  obtain ⟨f, _, Hs⟩ := (xrun_refines (mixIn := mixIn) K hE hcf nz ops).2
  rw [← Hs.1]; exact hlt

/-- **C03 (no stale memo, ever), X-histories.** After every finite X-history every memoised hash of
every node reachable from every live handle (decoded / deserialised ones included) is absent or the
true Merkle hash of the subtree it labels. -/
theorem C03_no_stale_memo_x (K : CfgOK E.pf cfg) (hE : CodecOK E) (hcf : CollisionFree E A)
    (nz : NoZeroNode A) (ops : List (XOp T)) :
    ∀ c ∈ (xrun E A mixIn cfg MWorld.empty ops).2.colls, ∀ s ∈ c.tree.subtrees,
      (xrun E A mixIn cfg MWorld.empty ops).2.heap.read A.zero s.id = A.zero ∨
      (xrun E A mixIn cfg MWorld.empty ops).2.heap.read A.zero s.id = trueHash E A s := by
  obtain ⟨f, hok, Hs⟩ := (xrun_refines (mixIn := mixIn) K hE hcf nz ops).2
  intro c hc s hs
  obtain ⟨k, hk, hget⟩ := List.getElem_of_mem hc
  obtain ⟨se, _, hI⟩ := Hs.get_some (i := k) (c := c) (by rw [List.getElem?_eq_getElem hk, hget])
  exact hok.memo _ _ (hI.reg s hs)

/-- **C02 after SSZ / serde.** After any X-history, the root of a handle without pending writes is
the SSZ `hash_tree_root` of its plain contents — in particular the root of a decoded handle is the
root of the sequence that was encoded. -/
theorem C02_history_x (K : CfgOK E.pf cfg) (hE : CodecOK E) (hcf : CollisionFree E A)
    (nz : NoZeroNode A) (ops : List (XOp T)) (i : Nat) (k : CKind) (xs : List T)
    (h : (xsrun E A mixIn cfg.N [] ops).2[i]? = some (k, xs, false)) :
    (xstep E A mixIn cfg (xrun E A mixIn cfg MWorld.empty ops).2 (.w (.root i))).1 =
      .w (.hash (specRoot E A mixIn cfg.N k xs)) := by
  rw [xrun_then_step K hE hcf nz ops (.w (.root i))]
  simp only [xsstep, wsstep, h, Bool.false_eq_true, if_false]
  cases k <;> rfl

end CorollariesX

/-! ## Non-vacuity: a concrete X-history, run on the model and on the specification

Elements are bytes (`UInt8`, fixed SSZ size 1, codec `x ↦ [x]`), hashes are terms of the free
algebra `HT` of `Proofs/Rebase.lean`; `List<u8, 8>` / `Vector<u8, 8>` with two elements per packed
leaf. All hypotheses of the theorems above hold for this instance. -/

namespace WorldSszExample

/-- bytes, hashed in the free algebra (a packed chunk is zero padded to two values). -/
def exElem : Elem UInt8 HT where
  pf := some 2
  leafHash := fun x => HT.leafv x.toNat
  packHash := fun vs => HT.pk (vs.map UInt8.toNat ++ List.replicate (2 - vs.length) 0)
  fixedLen := some 1
  enc := fun x => [x]
  dec := fun bs =>
    match bs with
    | [x] => some x
    | _ => none

theorem exCodec : CodecOK exElem where
  dec_enc := by intro x; rfl
  enc_dec := by
    intro bs x h
    match bs, h with
    | [y], h => simp only [exElem, Option.some.injEq] at h; subst h; rfl
  fixed_len := by intro k x h; simp only [exElem, Option.some.injEq] at h; subst h; rfl
  fixed_pos := by intro k h; simp only [exElem, Option.some.injEq] at h; subst h; decide

theorem exMap_toNat_inj : ∀ (vs ws : List UInt8), vs.map UInt8.toNat = ws.map UInt8.toNat → vs = ws
  | [], [], _ => rfl
  | [], _ :: _, h => by cases h
  | _ :: _, [], h => by cases h
  | a :: vs, b :: ws, h => by
    simp only [List.map_cons, List.cons.injEq] at h
    rw [UInt8.toNat_inj.1 h.1, exMap_toNat_inj vs ws h.2]

theorem exCF : CollisionFree exElem HT.alg where
  h2_inj := by intro a b c d h; simpa [HT.alg] using h
  leaf_inj := by
    intro v w h
    simp only [exElem, HT.leafv.injEq] at h
    exact UInt8.toNat_inj.1 h
  pack_inj := by
    intro vs ws hl h
    simp only [exElem, HT.pk.injEq, hl] at h
    exact exMap_toNat_inj vs ws (List.append_cancel_right h)

def exCfg (k : MapKind) : Cfg := ⟨8, k⟩

theorem exK (k : MapKind) : CfgOK exElem.pf (exCfg k) :=
  ⟨RebaseExample.pfOK_two, (by show 1 ≤ 8; decide), (by show 8 ≤ 2 ^ 63; decide)⟩

theorem exNZ : NoZeroNode HT.alg := by intro a b h; cases h

def exMix : HT → Nat → HT := fun r n => HT.nd r (HT.leafv n)

/-- 19 operations over five handles: construction, a pending push, encoding through the pending
write, decoding of the bytes just written, flush, equality of decoded and original, serde of the
decoded handle into a vector (rejected: wrong length), a vector built by `from_elem`, its encoding
decoded as a vector and as a list, roots, non-canonical / oversized / trailing bytes rejected,
a rejected deserialisation, missing handles. -/
def exOps : List (XOp UInt8) :=
  [.w (.newFromIter .list [1, 2, 3]), .w (.on 0 (.push 4)), .sszEncode 0,
   .newFromSsz .list [1, 2, 3, 4], .w (.on 0 .apply), .w (.eqFlushed 0 1), .serdeSer 1,
   .newFromSerde .vector [1, 2, 3, 4], .w (.fromElem 7), .sszEncode 2,
   .newFromSsz .vector [7, 7, 7, 7, 7, 7, 7, 7], .newFromSsz .list [7, 7, 7, 7, 7, 7, 7, 7],
   .w (.root 3), .w (.root 4), .newFromSsz .list [1, 2, 3, 4, 5, 6, 7, 8, 9],
   .newFromSsz .vector [1, 2, 3], .newFromSerde .list [1, 2, 3, 4, 5, 6, 7, 8, 9], .sszEncode 9,
   .newFromSsz .list []]

def exR7v : HT := .nd (.nd (.pk [7, 7]) (.pk [7, 7])) (.nd (.pk [7, 7]) (.pk [7, 7]))

def exOuts : List (XOut UInt8 HT) :=
  [.w (.out .ok), .w (.out .ok), .bytes [1, 2, 3, 4] 4, .w (.out .ok), .w (.out .ok),
   .w (.out (.bool true)), .seq [1, 2, 3, 4], .w (.out (.error .ssz)), .w (.out .ok),
   .bytes [7, 7, 7, 7, 7, 7, 7, 7] 8, .w (.out .ok), .w (.out .ok), .w (.hash exR7v),
   .w (.hash (.nd exR7v (.leafv 8))), .w (.out (.error .ssz)), .w (.out (.error .ssz)),
   .w (.out (.error .ssz)), .w (.out .unsupported), .w (.out .ok)]

def exFinal : SWorld UInt8 :=
  [(.list, [1, 2, 3, 4], false), (.list, [1, 2, 3, 4], false),
   (.vector, [7, 7, 7, 7, 7, 7, 7, 7], false), (.vector, [7, 7, 7, 7, 7, 7, 7, 7], false),
   (.list, [7, 7, 7, 7, 7, 7, 7, 7], false), (.list, [], false)]

-- the specification, by evaluation
theorem exSpec : xsrun exElem HT.alg exMix 8 [] exOps = (exOuts, exFinal) := by decide

-- the model itself (trees, node identities, memos, pending maps, builder), by evaluation
example (k : MapKind) :
    (xrun exElem HT.alg exMix (exCfg k) MWorld.empty exOps).1 = exOuts := by
  cases k <;> decide

-- the same through the theorem (all its hypotheses hold here): only the specification is evaluated
example (k : MapKind) :
    (xrun exElem HT.alg exMix (exCfg k) MWorld.empty exOps).1 = exOuts ∧
      WInv exElem HT.alg (exCfg k)
        (xrun exElem HT.alg exMix (exCfg k) MWorld.empty exOps).2 exFinal := by
  have h := xrun_refines (mixIn := exMix) (exK k) exCodec exCF exNZ exOps
  rw [show (exCfg k).N = 8 from rfl, exSpec] at h
  exact h

/-- the state after the first two operations: handle 0 shows `[1, 2, 3, 4]` with a write pending. -/
theorem exSpec2 : (xsrun exElem HT.alg exMix 8 [] (exOps.take 2)).2 = [(.list, [1, 2, 3, 4], true)] := by
  decide

-- `C12_history_closed` instantiated: the encoding sees the pending push, the decoded handle is flushed
example (k : MapKind) :
    (xstep exElem HT.alg exMix (exCfg k)
        (xrun exElem HT.alg exMix (exCfg k) MWorld.empty (exOps.take 2)).2 (.sszEncode 0)).1 =
      .bytes [1, 2, 3, 4] 4 :=
  (C12_history_closed (mixIn := exMix) (exK k) exCodec exCF exNZ (exOps.take 2) 0 .list
    [1, 2, 3, 4] true (by rw [show (exCfg k).N = 8 from rfl, exSpec2]; rfl)
    (by intro h; cases h)).1

example (k : MapKind) :
    (xsrun exElem HT.alg exMix (exCfg k).N []
        (exOps.take 2 ++ [.sszEncode 0, .newFromSsz .list (sszEncode exElem [1, 2, 3, 4])])).2 =
      (xsrun exElem HT.alg exMix (exCfg k).N [] (exOps.take 2)).2 ++ [(.list, [1, 2, 3, 4], false)] :=
  (C12_history_closed (mixIn := exMix) (exK k) exCodec exCF exNZ (exOps.take 2) 0 .list
    [1, 2, 3, 4] true (by rw [show (exCfg k).N = 8 from rfl, exSpec2]; rfl)
    (by intro h; cases h)).2.2.1

-- `C13_history_closed` instantiated
example (k : MapKind) :
    (xstep exElem HT.alg exMix (exCfg k)
        (xrun exElem HT.alg exMix (exCfg k) MWorld.empty (exOps.take 2)).2 (.serdeSer 0)).1 =
      .seq [1, 2, 3, 4] :=
  (C13_history_closed (mixIn := exMix) (exK k) exCodec exCF exNZ (exOps.take 2) 0 .list
    [1, 2, 3, 4] true (by rw [show (exCfg k).N = 8 from rfl, exSpec2]; rfl)).1

-- `C13_history_rejects` instantiated: nine values do not deserialise as a `List<_, 8>`
example (k : MapKind) :
    (xstep exElem HT.alg exMix (exCfg k)
        (xrun exElem HT.alg exMix (exCfg k) MWorld.empty (exOps.take 2)).2
        (.newFromSerde .list [1, 2, 3, 4, 5, 6, 7, 8, 9])).1 = .w (.out (.error .ssz)) :=
  (C13_history_rejects (mixIn := exMix) (exK k) (exOps.take 2) .list [1, 2, 3, 4, 5, 6, 7, 8, 9]
    (by show ¬ (9 ≤ 8); decide)).1

-- `C12_history_strict`: both alternatives occur (by evaluation of the specification)
example : (xsstep exElem HT.alg exMix 8 [] (.newFromSsz .list [1, 2, 3])) =
    (.w (.out .ok), [(.list, [1, 2, 3], false)]) := by decide
example : (xsstep exElem HT.alg exMix 8 [] (.newFromSsz .vector [1, 2, 3])) =
    (.w (.out (.error .ssz)), []) := by decide

-- `C05_history_bounded_x` instantiated on the whole example history
example (k : MapKind) (i : Nat) (kd : CKind) (xs : List UInt8) (p : Bool)
    (h : exFinal[i]? = some (kd, xs, p)) : XBound 8 kd xs.length :=
  C05_history_bounded_x (mixIn := exMix) (exK k) exCodec exCF exNZ exOps i kd xs p
    (by rw [show (exCfg k).N = 8 from rfl, exSpec]; exact h)

-- roots are invisible in the example: the history without its two root computations
example : xstripRoots exOps = exOps.take 12 ++ exOps.drop 14 := rfl
example (k : MapKind) : xnonRootOuts exOps (xrun exElem HT.alg exMix (exCfg k) MWorld.empty exOps).1 =
    (xrun exElem HT.alg exMix (exCfg k) MWorld.empty (xstripRoots exOps)).1 :=
  C03_roots_invisible_x (exK k) exCodec exCF exNZ exOps

/-! ### variable-size elements: the size hypothesis `h32` of `C12_history_closed` is satisfiable -/

/-- byte blobs of length at most 8 (variable SSZ size), unpacked leaves. -/
def exVElem : Elem {x : List UInt8 // x.length ≤ 8} HT where
  pf := none
  leafHash := fun x => HT.pk (x.1.map UInt8.toNat)
  packHash := fun vs => vs.foldr (fun x acc => HT.nd (HT.pk (x.1.map UInt8.toNat)) acc) HT.z
  fixedLen := none
  enc := fun x => x.1
  dec := fun bs => if h : bs.length ≤ 8 then some ⟨bs, h⟩ else none

theorem exVCodec : CodecOK exVElem where
  dec_enc := by intro x; simp [exVElem, x.2]
  enc_dec := by
    intro bs x h
    simp only [exVElem] at h ⊢
    split at h
    · cases h; rfl
    · cases h
  fixed_len := by intro k x h; simp [exVElem] at h
  fixed_pos := by intro k h; simp [exVElem] at h

theorem exVLeaf_inj (v w : {x : List UInt8 // x.length ≤ 8})
    (h : HT.pk (v.1.map UInt8.toNat) = HT.pk (w.1.map UInt8.toNat)) : v = w := by
  simp only [HT.pk.injEq] at h
  exact Subtype.ext (exMap_toNat_inj _ _ h)

theorem exVCF : CollisionFree exVElem HT.alg where
  h2_inj := by intro a b c d h; simpa [HT.alg] using h
  leaf_inj := by intro v w h; exact exVLeaf_inj v w h
  pack_inj := by
    intro vs
    induction vs with
    | nil =>
      intro ws hl _
      cases ws with
      | nil => rfl
      | cons b ws => cases hl
    | cons a vs ih =>
      intro ws hl h
      cases ws with
      | nil => cases hl
      | cons b ws =>
        simp only [exVElem, List.foldr_cons, HT.nd.injEq] at h
        rw [exVLeaf_inj a b h.1, ih ws (by simpa using hl) h.2]

theorem exVK (k : MapKind) : CfgOK exVElem.pf ⟨4, k⟩ :=
  ⟨ConvertExample.pfOK_none, (by show 1 ≤ 4; decide), (by show 4 ≤ 2 ^ 63; decide)⟩

def exVxs : List {x : List UInt8 // x.length ≤ 8} :=
  [⟨[1, 2, 3], by decide⟩, ⟨[], by decide⟩, ⟨[9], by decide⟩]

def exVOps : List (XOp {x : List UInt8 // x.length ≤ 8}) :=
  [.w (.newFromIter .list exVxs), .sszEncode 0,
   .newFromSsz .list [12, 0, 0, 0, 15, 0, 0, 0, 15, 0, 0, 0, 1, 2, 3, 9], .w (.eqFlushed 0 1),
   .newFromSsz .list [12, 0, 0, 0, 14, 0, 0, 0, 13, 0, 0, 0, 1, 2], .newFromSsz .vector [4, 0, 0, 0, 5]]

theorem exVSpec : xsrun exVElem HT.alg exMix 4 [] exVOps =
    ([.w (.out .ok), .bytes [12, 0, 0, 0, 15, 0, 0, 0, 15, 0, 0, 0, 1, 2, 3, 9] 16, .w (.out .ok),
      .w (.out (.bool true)), .w (.out (.error .ssz)), .w (.out (.error .ssz))],
     [(.list, exVxs, false), (.list, exVxs, false)]) := by decide

example (k : MapKind) : (xrun exVElem HT.alg exMix ⟨4, k⟩ MWorld.empty exVOps).1 =
    (xsrun exVElem HT.alg exMix 4 [] exVOps).1 :=
  (xrun_refines (mixIn := exMix) (cfg := ⟨4, k⟩) (exVK k) exVCodec exVCF exNZ exVOps).1

example (k : MapKind) : (xrun exVElem HT.alg exMix ⟨4, k⟩ MWorld.empty exVOps).1 =
    (xsrun exVElem HT.alg exMix 4 [] exVOps).1 := by
  cases k <;> decide

theorem exVSpec1 : (xsrun exVElem HT.alg exMix 4 [] (exVOps.take 1)).2[0]? =
    some (.list, exVxs, false) := by decide

-- `C12_history_closed` with a genuinely used size hypothesis
example (k : MapKind) :
    (xsrun exVElem HT.alg exMix 4 []
        (exVOps.take 1 ++ [.sszEncode 0, .newFromSsz .list (sszEncode exVElem exVxs)])).2 =
      (xsrun exVElem HT.alg exMix 4 [] (exVOps.take 1)).2 ++ [(.list, exVxs, false)] :=
  (C12_history_closed (mixIn := exMix) (cfg := ⟨4, k⟩) (exVK k) exVCodec exVCF exNZ (exVOps.take 1)
    0 .list exVxs false exVSpec1 (by intro _; decide)).2.2.1

-- and the decoded handle equals the original
example (k : MapKind) :
    (xstep exVElem HT.alg exMix ⟨4, k⟩
        (xrun exVElem HT.alg exMix ⟨4, k⟩ MWorld.empty
          (exVOps.take 1 ++ [.sszEncode 0, .newFromSsz .list (sszEncode exVElem exVxs)])).2
        (.w (.eqFlushed 0 (xsrun exVElem HT.alg exMix 4 [] (exVOps.take 1)).2.length))).1 =
      .w (.out (.bool true)) :=
  C12_history_decoded_eq_original (mixIn := exMix) (cfg := ⟨4, k⟩) (exVK k) exVCodec exVCF exNZ
    (exVOps.take 1) 0 .list exVxs exVSpec1 (by intro _; decide)

end WorldSszExample

end Milhouse
