import Milhouse.Proofs.UpdLeaves
import Milhouse.Proofs.Iter
import Milhouse.Proofs.Builder
/-!
# The collection invariant and the abstraction to a plain sequence

`CollInv pf cfg c xs` says that the collection `c` (a `List<T,N,U>` or `Vector<T,N,U>`) is
well-formed with *backing* contents `xs`: the backing tree is the canonical tree of `xs`, the cached
length is `xs.length`, the bound `N` is respected, and the pending-write map is admissible (its
keys are below `N`, keys beyond the backing length extend it contiguously, and — for `MaxMap` —
the cached `max_key` is sound). `Coll.view xs c` is the sequence the collection *shows*: the
backing contents overlaid with the pending writes. Every public operation is shown (in
`Proofs/CollOps.lean` and the per-operation files) to preserve `CollInv` and to act on `view` like
the corresponding operation on a plain vector.
-/
namespace Milhouse
variable {T : Type}

/-- soundness of `MaxMap::max_key` relative to the backing length `n`: every key is `≤ max_key` or
lies inside the backing contents (`get_mut`/`Cow` insertions do not raise `max_key`, and they only
insert below the current length), and `max_key` is itself a key unless it still has its initial
value. Trivial for the other two map types. -/
def UMap.MaxRel (m : UMap T) (n : Nat) : Prop :=
  match m with
  | .maxvec v mk =>
    (∀ k, ((UMap.maxvec v mk).get k).isSome → k ≤ mk ∨ k < n) ∧
    (mk = 0 ∨ ((UMap.maxvec v mk).get mk).isSome)
  | _ => True

structure CollInv (pf : Option Nat) (cfg : Cfg) (c : Coll T) (xs : List T) : Prop where
  /-- the backing tree is the canonical tree of the backing contents -/
  shape : c.tree.erase = canon pf c.depth xs
  /-- cached length (a vector keeps `N` here) -/
  len : c.length = xs.length
  /-- `List::depth()` -/
  depth : c.depth = listDepth pf cfg.N
  /-- capacity: a list holds at most `N`, a vector exactly `N` elements -/
  bound : match c.kind with
    | .list => xs.length ≤ cfg.N
    | .vector => xs.length = cfg.N
  /-- the pending map has the configured type and is well-formed -/
  mapKind : c.updates.kind = cfg.map
  wf : c.updates.WF
  /-- pending keys are below `N` … -/
  keys : ∀ k v, (k, v) ∈ c.updates.entries → k < cfg.N
  /-- … and those at or beyond the backing length extend it contiguously (pending pushes) -/
  contiguous : Coll.gapCheck xs.length (c.updates.range xs.length cfg.N) = none
  /-- `MaxMap::max_key` is sound -/
  maxRel : c.updates.MaxRel xs.length

/-- what the collection shows: backing contents overlaid with the pending writes. -/
def Coll.view (xs : List T) (c : Coll T) : List T := applyEntries xs c.updates.entries

/-- the configuration is supported: `1 ≤ N ≤ 2^63` (so that `depth + packing depth ≤ 63`, the
declared `MAX_TREE_DEPTH`) and the packing factor is a power of two `≤ 32`. -/
structure CfgOK (pf : Option Nat) (cfg : Cfg) : Prop where
  pf : PfOK pf
  pos : 1 ≤ cfg.N
  le : cfg.N ≤ 2 ^ 63

end Milhouse
