import Milhouse.Proofs.CollInv
import Milhouse.Proofs.Repeat
/-!
# C01 / C05 / C06 / C15: every public operation of `List` / `Vector` acts like the plain sequence

Under the collection invariant `CollInv pf cfg c xs` (`Proofs/CollInv.lean`) the collection `c`
*shows* the plain sequence `v := Coll.view xs c` (backing contents overlaid with the pending
writes). This file proves, for all three map kinds, lists and vectors:

* reads (`len`, `isEmpty`, `get`, `hasPending`, `toVec`, `iterFrom` with the size hints) return what
  `v` returns, and `v.length ≤ N` (`= N` for a vector) — C01, C05;
* writes (`push`, `getMutSet`, `getCow`, `bulkUpdate`, `applyUpdates`, `iterCow`) preserve the
  invariant and act on the view like the plain operation; each rejected call is rejected with the
  error the plain model predicts — C01, C05, C15;
* the constructors produce the invariant; equality of flushed collections is equality of contents
  (C06).
-/
namespace Milhouse
variable {T H : Type}

open Coll (gapCheck)

/-! ## facts about the empty map -/

theorem UMap.co_entries_empty (k : MapKind) : (UMap.empty k : UMap T).entries = [] := by
  cases k <;> rfl

theorem UMap.co_isEmpty_empty (k : MapKind) : (UMap.empty k : UMap T).isEmpty = true := by
  cases k <;> rfl

theorem UMap.co_maxIndex_empty (k : MapKind) : (UMap.empty k : UMap T).maxIndex = none := by
  cases k <;> rfl

theorem UMap.co_range_empty (k : MapKind) (s e : Nat) : (UMap.empty k : UMap T).range s e = [] := by
  rw [UMap.range_def, UMap.co_entries_empty]; rfl

theorem UMap.co_maxRel_empty (k : MapKind) (n : Nat) : (UMap.empty k : UMap T).MaxRel n := by
  cases k
  · trivial
  · trivial
  · refine ⟨?_, Or.inl rfl⟩
    intro j hj
    have := UMap.get_empty (T := T) .maxvec j
    simp only [UMap.empty] at this
    rw [this] at hj; cases hj

theorem UMap.co_entries_of_isEmpty (m : UMap T) (h : m.isEmpty = true) : m.entries = [] := by
  simpa [UMap.isEmpty, List.isEmpty_iff] using h

theorem UMap.co_beq_empty [DecidableEq T] (k : MapKind) :
    (UMap.empty k : UMap T).beq (UMap.empty k) = true := by
  cases k <;> simp [UMap.empty, UMap.beq]

/-- `MaxExact` (what `insert` alone maintains) implies `MaxRel` for every backing length. -/
theorem UMap.MaxExact.maxRel {m : UMap T} (h : m.MaxExact) (n : Nat) : m.MaxRel n := by
  cases m with
  | btree l => trivial
  | vec v => trivial
  | maxvec v mk => exact ⟨fun k hk => Or.inl (h.1 k hk), h.2⟩

/-! ## `gapCheck`, semantically -/

/-- an ascending list whose key set is an interval `[n, n+r)` passes the gap check. -/
theorem co_gapCheck_none_of_keys (es : List (Nat × T)) (hs : KeysAsc es) :
    ∀ (n r : Nat), (∀ k, (∃ w, (k, w) ∈ es) ↔ (n ≤ k ∧ k < n + r)) → gapCheck n es = none := by
  induction es with
  | nil => intros; rfl
  | cons p rest ih =>
    intro n r h
    obtain ⟨k, v⟩ := p
    have hs' := List.pairwise_cons.1 hs
    have hk := (h k).1 ⟨v, by simp⟩
    have hn : ∃ w, (n, w) ∈ (k, v) :: rest := (h n).2 ⟨Nat.le_refl _, by omega⟩
    have hkn : k = n := by
      obtain ⟨w, hw⟩ := hn
      simp only [List.mem_cons, Prod.mk.injEq] at hw
      rcases hw with hw | hw
      · exact hw.1.symm
      · have := hs'.1 _ hw; simp at this; omega
    subst hkn
    simp only [gapCheck, if_true]
    apply ih hs'.2 (k+1) (r-1)
    intro j
    constructor
    · rintro ⟨w, hw⟩
      have h1 := hs'.1 _ hw
      have h2 := (h j).1 ⟨w, by simp [hw]⟩
      simp at h1; omega
    · rintro ⟨h1, h2⟩
      obtain ⟨w, hw⟩ := (h j).2 ⟨by omega, by omega⟩
      simp only [List.mem_cons, Prod.mk.injEq] at hw
      rcases hw with hw | hw
      · omega
      · exact ⟨w, hw⟩

/-- a map whose keys in `[n, N)` are exactly `[n, n+r)` passes the contiguity check. -/
theorem UMap.co_contig_of_get (m : UMap T) (hm : m.WF) (n N r : Nat)
    (h : ∀ k, ((m.get k).isSome ∧ n ≤ k ∧ k < N) ↔ (n ≤ k ∧ k < n + r)) :
    gapCheck n (m.range n N) = none := by
  apply co_gapCheck_none_of_keys _ (UMap.range_keysAsc m hm n N) n r
  intro k
  rw [← h k]
  constructor
  · rintro ⟨w, hw⟩
    have := (UMap.mem_range_iff m hm n N k w).1 hw
    exact ⟨by simp [this.1], this.2⟩
  · rintro ⟨h1, h2⟩
    obtain ⟨w, hw⟩ := Option.isSome_iff_exists.1 h1
    exact ⟨w, (UMap.mem_range_iff m hm n N k w).2 ⟨hw, h2⟩⟩

/-- what `gapCheck` reports when it fails: `next` is the first missing index at or after `n`, and
`k` is the smallest key above it. -/
theorem co_gapCheck_some_spec (es : List (Nat × T)) (hs : KeysAsc es) :
    ∀ (n k nx : Nat), (∀ q ∈ es, n ≤ q.1) → gapCheck n es = some (k, nx) →
      n ≤ nx ∧ nx < k ∧ (∃ w, (k, w) ∈ es) ∧ (∀ j, n ≤ j → j < nx → ∃ w, (j, w) ∈ es) ∧
      (¬ ∃ w, (nx, w) ∈ es) ∧ (∀ q ∈ es, nx ≤ q.1 → k ≤ q.1) := by
  induction es with
  | nil => intro n k nx _ h; simp [gapCheck] at h
  | cons p rest ih =>
    intro n k nx hge h
    obtain ⟨k0, v0⟩ := p
    have hs' := List.pairwise_cons.1 hs
    have hk0 : n ≤ k0 := hge (k0, v0) (by simp)
    simp only [gapCheck] at h
    by_cases hkn : k0 = n
    · subst hkn
      rw [if_pos rfl] at h
      obtain ⟨h1, h2, ⟨w, hw⟩, h4, h5, h6⟩ := ih hs'.2 (k0+1) k nx
        (fun q hq => by have := hs'.1 q hq; simp at this; omega) h
      refine ⟨by omega, h2, ⟨w, by simp [hw]⟩, ?_, ?_, ?_⟩
      · intro j hj1 hj2
        by_cases hj : j = k0
        · subst hj; exact ⟨v0, by simp⟩
        · obtain ⟨w', hw'⟩ := h4 j (by omega) hj2
          exact ⟨w', by simp [hw']⟩
      · rintro ⟨w', hw'⟩
        simp only [List.mem_cons, Prod.mk.injEq] at hw'
        rcases hw' with hw' | hw'
        · omega
        · exact h5 ⟨w', hw'⟩
      · intro q hq hq2
        simp only [List.mem_cons] at hq
        rcases hq with hq | hq
        · subst hq; simp at hq2; omega
        · exact h6 q hq hq2
    · rw [if_neg hkn] at h
      simp only [Option.some.injEq, Prod.mk.injEq] at h
      obtain ⟨rfl, rfl⟩ := h
      refine ⟨Nat.le_refl _, by omega, ⟨v0, by simp⟩, ?_, ?_, ?_⟩
      · intro j h1 h2; omega
      · rintro ⟨w', hw'⟩
        simp only [List.mem_cons, Prod.mk.injEq] at hw'
        rcases hw' with hw' | hw'
        · omega
        · have := hs'.1 _ hw'; simp at this; omega
      · intro q hq _
        simp only [List.mem_cons] at hq
        rcases hq with hq | hq
        · subst hq; exact Nat.le_refl _
        · exact Nat.le_of_lt (hs'.1 q hq)

/-! ## the map part of the invariant -/

/-- the part of `CollInv` that concerns the pending map, relative to a backing length `n`. -/
structure MapOK (cfg : Cfg) (m : UMap T) (n : Nat) : Prop where
  mapKind : m.kind = cfg.map
  wf : m.WF
  keys : ∀ k v, (k, v) ∈ m.entries → k < cfg.N
  contiguous : gapCheck n (m.range n cfg.N) = none
  maxRel : m.MaxRel n

theorem CollInv.mapOK {pf : Option Nat} {cfg : Cfg} {c : Coll T} {xs : List T}
    (I : CollInv pf cfg c xs) : MapOK cfg c.updates xs.length :=
  ⟨I.mapKind, I.wf, I.keys, I.contiguous, I.maxRel⟩

theorem CollInv.le_N {pf : Option Nat} {cfg : Cfg} {c : Coll T} {xs : List T}
    (I : CollInv pf cfg c xs) : xs.length ≤ cfg.N := by
  have := I.bound
  cases hk : c.kind <;> rw [hk] at this <;> simp only at this <;> omega

theorem MapOK.empty (cfg : Cfg) (n : Nat) : MapOK cfg (UMap.empty cfg.map : UMap T) n :=
  ⟨UMap.kind_empty _, UMap.WF_empty _,
   (by intro k v h; rw [UMap.co_entries_empty] at h; cases h),
   (by rw [UMap.co_range_empty]; rfl), UMap.co_maxRel_empty _ _⟩

section MapLemmas
variable {cfg : Cfg} {m : UMap T} {xs : List T}

/-- reading the view is reading the pending map first, the backing contents second. -/
theorem MapOK.getElem? (M : MapOK cfg m xs.length) (hn : xs.length ≤ cfg.N) (i : Nat) :
    (applyEntries xs m.entries)[i]? = (m.get i).or xs[i]? :=
  getElem?_applyEntries m M.wf cfg.N xs hn M.keys M.contiguous i

theorem MapOK.length_eq (M : MapOK cfg m xs.length) (hn : xs.length ≤ cfg.N) :
    (applyEntries xs m.entries).length = xs.length + (m.range xs.length cfg.N).length := by
  rw [← overlayBlock_root m M.wf cfg.N xs hn M.keys M.contiguous, length_overlayBlock]
  simp

/-- **C05** at the level of the view: never more than `N` elements. -/
theorem MapOK.length_le (M : MapOK cfg m xs.length) (hn : xs.length ≤ cfg.N) :
    (applyEntries xs m.entries).length ≤ cfg.N := by
  rw [M.length_eq hn]
  exact gapCheck_length_le xs.length cfg.N _ M.contiguous
    (fun q hq => (UMap.mem_range_bounds m _ _ q hq).2) hn

theorem MapOK.length_ge (M : MapOK cfg m xs.length) (hn : xs.length ≤ cfg.N) :
    xs.length ≤ (applyEntries xs m.entries).length := by
  rw [M.length_eq hn]; omega

/-- every pending key is a position of the view. -/
theorem MapOK.key_lt (M : MapOK cfg m xs.length) (hn : xs.length ≤ cfg.N) (k : Nat)
    (hk : (m.get k).isSome) : k < (applyEntries xs m.entries).length := by
  have h := M.getElem? hn k
  obtain ⟨w, hw⟩ := Option.isSome_iff_exists.1 hk
  rw [hw, Option.some_or] at h
  rcases Nat.lt_or_ge k (applyEntries xs m.entries).length with hlt | hge
  · exact hlt
  · rw [List.getElem?_eq_none hge] at h; cases h

/-- beyond the backing length the positions of the view are exactly the pending keys. -/
theorem MapOK.isSome_iff (M : MapOK cfg m xs.length) (hn : xs.length ≤ cfg.N) (k : Nat)
    (hk : xs.length ≤ k) : (m.get k).isSome ↔ k < (applyEntries xs m.entries).length := by
  constructor
  · exact M.key_lt hn k
  · intro hlt
    have h := M.getElem? hn k
    rw [List.getElem?_eq_none (l := xs) hk, Option.or_none, List.getElem?_eq_getElem hlt] at h
    rw [← h]; rfl

end MapLemmas

/-! ## `max_index` under `MaxRel` -/

/-- what `max_index` means under `MaxRel n`: it bounds every key that is not inside the backing
contents, and it is a key unless it is the initial `0`. -/
theorem UMap.co_maxIndex_rel (m : UMap T) (hm : m.WF) (n : Nat) (hr : m.MaxRel n) (mx : Nat)
    (h : m.maxIndex = some mx) :
    (∀ k, (m.get k).isSome → k ≤ mx ∨ k < n) ∧ (mx = 0 ∨ (m.get mx).isSome) ∧
      m.isEmpty = false := by
  have hne : m.isEmpty = false := by
    cases he : m.isEmpty with
    | false => rfl
    | true => rw [(UMap.maxIndex_eq_none_iff m).2 he] at h; cases h
  cases m with
  | btree l =>
    obtain ⟨h1, h2⟩ := (UMap.maxIndex_eq_some_iff _ hm trivial mx).1 h
    exact ⟨fun k hk => Or.inl (h2 k hk), Or.inr h1, hne⟩
  | vec v =>
    obtain ⟨h1, h2⟩ := (UMap.maxIndex_eq_some_iff _ hm trivial mx).1 h
    exact ⟨fun k hk => Or.inl (h2 k hk), Or.inr h1, hne⟩
  | maxvec v mk =>
    rw [UMap.maxIndex_maxvec, hne] at h
    simp only [Bool.false_eq_true, if_false, Option.some.injEq] at h
    subst h
    exact ⟨hr.1, hr.2, hne⟩

section MapLemmas2
variable {cfg : Cfg} {m : UMap T} {xs : List T}

/-- the `MaxRel` version of `length_applyEntries`: `updated_length` is the length of the view. -/
theorem MapOK.length_of_maxIndex (M : MapOK cfg m xs.length) (hn : xs.length ≤ cfg.N) (mx : Nat)
    (h : m.maxIndex = some mx) :
    (applyEntries xs m.entries).length = max (mx + 1) xs.length := by
  obtain ⟨ha, hb, hc⟩ := UMap.co_maxIndex_rel m M.wf xs.length M.maxRel mx h
  have hge := M.length_ge hn
  have h1 : mx + 1 ≤ (applyEntries xs m.entries).length := by
    rcases hb with h0 | hs
    · obtain ⟨k, hk⟩ := (UMap.isEmpty_eq_false_iff m).1 hc
      have := M.key_lt hn k hk
      omega
    · have := M.key_lt hn mx hs
      omega
  have h2 : xs.length < (applyEntries xs m.entries).length →
      (applyEntries xs m.entries).length ≤ mx + 1 := by
    intro hlt
    have hs := (M.isSome_iff hn ((applyEntries xs m.entries).length - 1) (by omega)).2 (by omega)
    rcases ha _ hs with h3 | h3 <;> omega
  by_cases hlt : xs.length < (applyEntries xs m.entries).length
  · have := h2 hlt; omega
  · omega

theorem MapOK.length_of_maxIndex_none (h : m.maxIndex = none) :
    applyEntries xs m.entries = xs := by
  rw [UMap.co_entries_of_isEmpty m ((UMap.maxIndex_eq_none_iff m).1 h)]; rfl

/-- a strict upper bound on `max_index` (this is where `1 ≤ N` is needed: an untouched
`max_key = 0` of a non-empty `MaxMap`). -/
theorem MapOK.maxIndex_lt (M : MapOK cfg m xs.length) (hn : xs.length ≤ cfg.N) (mx : Nat)
    (h : m.maxIndex = some mx) : mx < (applyEntries xs m.entries).length := by
  have := M.length_of_maxIndex hn mx h
  omega

end MapLemmas2

/-! ## Reads (C01, C05) -/

section Reads
variable {pf : Option Nat} {cfg : Cfg} {c : Coll T} {xs : List T}

theorem CollInv.backingOK (K : CfgOK pf cfg) (I : CollInv pf cfg c xs) : BackingOK pf c xs := by
  obtain ⟨hd, hcap⟩ := listDepth_ok pf K.pf cfg.N K.le
  exact ⟨K.pf, I.shape, I.len, by rw [I.depth]; exact Nat.le_trans I.le_N hcap,
    by rw [I.depth]; exact hd⟩

/-- **C01 (length).** `len()` is the length of the shown sequence. -/
theorem C01_len (I : CollInv pf cfg c xs) : c.len = (Coll.view xs c).length := by
  unfold Coll.len Coll.view
  cases h : c.updates.maxIndex with
  | none => simp only; rw [MapOK.length_of_maxIndex_none h, I.len]
  | some mx => simp only; rw [I.mapOK.length_of_maxIndex I.le_N mx h, I.len]

/-- **C05 (capacity), every reachable state:** a list never shows more than `N` elements. -/
theorem C05_view_length_le (I : CollInv pf cfg c xs) : (Coll.view xs c).length ≤ cfg.N :=
  I.mapOK.length_le I.le_N

/-- **C05**, vectors: always exactly `N` elements. -/
theorem C05_view_length_vector (I : CollInv pf cfg c xs) (hk : c.kind = .vector) :
    (Coll.view xs c).length = cfg.N := by
  have h1 := C05_view_length_le I
  have h2 : xs.length ≤ (Coll.view xs c).length := I.mapOK.length_ge I.le_N
  have h3 := I.bound
  rw [hk] at h3
  simp only at h3
  omega

/-- **C05** in terms of the reported length. -/
theorem C05_len_le (I : CollInv pf cfg c xs) : c.len ≤ cfg.N := by
  rw [C01_len I]; exact C05_view_length_le I

theorem C05_len_vector (I : CollInv pf cfg c xs) (hk : c.kind = .vector) : c.len = cfg.N := by
  rw [C01_len I]; exact C05_view_length_vector I hk

/-- **C01 (emptiness).** -/
theorem C01_isEmpty (I : CollInv pf cfg c xs) : c.isEmpty = (Coll.view xs c).isEmpty := by
  unfold Coll.isEmpty
  rw [C01_len I]
  cases Coll.view xs c <;> simp

/-- **C01 (indexed read)**, every index (also `i ≥ len` and huge `i`): reads reflect pending writes
immediately. -/
theorem C01_get (K : CfgOK pf cfg) (I : CollInv pf cfg c xs) (i : Nat) :
    c.get pf i = (Coll.view xs c)[i]? := by
  unfold Coll.get Coll.view
  rw [I.mapOK.getElem? I.le_N i, (I.backingOK K).backingGet]
  cases c.updates.get i <;> rfl

/-- **C01 (pending writes?)** — by definition. -/
theorem C01_hasPending (c : Coll T) : c.hasPending = !c.updates.isEmpty := rfl

/-- `hasPending` is false exactly when the view is the backing contents with no entry. -/
theorem C01_view_of_not_pending (xs : List T) (c : Coll T) (h : c.hasPending = false) :
    Coll.view xs c = xs := by
  unfold Coll.view
  rw [UMap.co_entries_of_isEmpty c.updates (by simpa [Coll.hasPending] using h)]; rfl

/-- **C01 (full and suffix iteration, with the remaining size each step reports).**
`iter_from(i)` for `i ≤ len` yields exactly the elements `i..` of the shown sequence; the size
hint recorded before the element at position `j` is `len - j` (so the hints are
`len - i, …, 1`), and it is `0` at the end. The iteration never fails. -/
theorem C01_iterFrom_ok (K : CfgOK pf cfg) (I : CollInv pf cfg c xs) (i : Nat)
    (hi : i ≤ (Coll.view xs c).length) :
    ∃ items, c.iterFrom pf i = .ok (items, 0) ∧ c.iterFromRaw pf i = .ok (items, 0) ∧
      items.map (·.2) = (Coll.view xs c).drop i ∧
      items.map (·.1) = (List.range' i ((Coll.view xs c).length - i)).map
        (fun j => (Coll.view xs c).length - j) ∧
      items.map (·.1) = (List.range' 1 ((Coll.view xs c).length - i)).reverse := by
  have B := I.backingOK K
  have hlen := C01_len I
  have hget := C01_get K I
  have hend : c.updates.get c.len = none := by
    have h := hget c.len
    rw [List.getElem?_eq_none (by omega)] at h
    unfold Coll.get at h
    cases hu : c.updates.get c.len with
    | none => rfl
    | some x => rw [hu] at h; cases h
  obtain ⟨items, hraw, hvals, hsizes⟩ := C01_iter_agrees_with_get pf c xs B.pfOK B.tree B.length
    B.fits B.depth
    (by intro j hj; rw [hget, List.getElem?_eq_getElem (by omega)]; rfl)
    hend i (by omega)
  rw [hlen] at hvals hsizes
  refine ⟨items, ?_, hraw, ?_, hsizes, ?_⟩
  · unfold Coll.iterFrom
    rw [if_neg (by omega)]; exact hraw
  · have h1 : (List.range' i ((Coll.view xs c).length - i)).map (c.get pf) =
        ((Coll.view xs c).drop i).map some := by
      rw [show c.get pf = fun j => (Coll.view xs c)[j]? from funext hget]
      exact range'_map_getElem? _ _ i (by omega)
    rw [h1] at hvals
    have h2 : (items.map (·.2)).map some = ((Coll.view xs c).drop i).map some := by
      rw [List.map_map]; exact hvals
    exact (List.map_inj_right (fun x y h => Option.some.inj h)).mp h2
  · rw [hsizes]
    have := sizes_eq_reverse ((Coll.view xs c).length - i) i
    rw [show i + ((Coll.view xs c).length - i) = (Coll.view xs c).length by omega] at this
    exact this

/-- **C15 / C01:** `iter_from` beyond the length is rejected with the plain model's error. -/
theorem C15_iterFrom_out_of_bounds (I : CollInv pf cfg c xs) (i : Nat)
    (hi : (Coll.view xs c).length < i) :
    c.iterFrom pf i = .error (.outOfBoundsIterFrom i (Coll.view xs c).length) := by
  unfold Coll.iterFrom
  rw [C01_len I, if_pos hi]

/-- **C01 (copy to a vector)**, with pending writes. -/
theorem C01_toVec (K : CfgOK pf cfg) (I : CollInv pf cfg c xs) :
    c.toVec pf = .ok (Coll.view xs c) := by
  obtain ⟨items, _, hraw, hvals, _⟩ := C01_iterFrom_ok K I 0 (Nat.zero_le _)
  unfold Coll.toVec
  rw [hraw]; simp only [hvals, List.drop_zero]

end Reads

/-! ## Point updates of the pending map -/

theorem UMap.co_maxRel_insert (m : UMap T) (n k : Nat) (x : T) (h : m.MaxRel n) :
    (m.insert k x).MaxRel n := by
  cases m with
  | btree l => trivial
  | vec v => trivial
  | maxvec v mk =>
    have e := fun j => UMap.get_insert (UMap.maxvec v mk) k j x
    simp only [UMap.insert] at e ⊢
    refine ⟨?_, ?_⟩
    · intro j hj
      rw [e] at hj
      by_cases hjk : j = k
      · subst hjk; left; split <;> omega
      · rw [if_neg hjk] at hj
        rcases h.1 j hj with h1 | h1
        · left; split <;> omega
        · right; exact h1
    · rw [e]
      by_cases hgt : k > mk
      · right; simp [hgt]
      · rw [if_neg hgt]
        by_cases hkk : mk = k
        · right; simp [hkk]
        · rw [if_neg hkk]; exact h.2

/-- `get_mut` / `Cow` insertions keep `MaxRel`: they only touch keys inside the backing contents
or keys already present. -/
theorem UMap.co_maxRel_insertEntry (m : UMap T) (n k : Nat) (x : T) (h : m.MaxRel n)
    (hk : k < n ∨ (m.get k).isSome) : (m.insertEntry k x).MaxRel n := by
  cases m with
  | btree l => trivial
  | vec v => trivial
  | maxvec v mk =>
    have e := fun j => UMap.get_insertEntry (UMap.maxvec v mk) k j x
    simp only [UMap.insertEntry] at e ⊢
    refine ⟨?_, ?_⟩
    · intro j hj
      rw [e] at hj
      by_cases hjk : j = k
      · subst hjk
        rcases hk with hk | hk
        · right; exact hk
        · exact h.1 j hk
      · rw [if_neg hjk] at hj
        exact h.1 j hj
    · rw [e]
      by_cases hkk : mk = k
      · right; simp [hkk]
      · rw [if_neg hkk]; exact h.2

section MapWrites
variable {cfg : Cfg} {m : UMap T} {xs : List T}

theorem MapOK.key_lt_N {n : Nat} (M : MapOK cfg m n) (k : Nat) (hk : (m.get k).isSome) :
    k < cfg.N := by
  obtain ⟨w, hw⟩ := (UMap.get_isSome_iff m k).1 hk
  exact M.keys k w hw

/-- a point update of the map at a position of the view, or at its end, keeps the map invariant and
acts on the view as a point update / an append. -/
theorem MapOK.point_update (M : MapOK cfg m xs.length) (hn : xs.length ≤ cfg.N) (m' : UMap T)
    (i : Nat) (x : T) (hkind : m'.kind = m.kind) (hwf : m'.WF)
    (hget : ∀ k, m'.get k = if k = i then some x else m.get k)
    (hmax : m'.MaxRel xs.length) (hi : i ≤ (applyEntries xs m.entries).length) (hiN : i < cfg.N) :
    MapOK cfg m' xs.length ∧ ∀ j, (applyEntries xs m'.entries)[j]? =
      if j = i then some x else (applyEntries xs m.entries)[j]? := by
  have hL := M.length_le hn
  have hge := M.length_ge hn
  have M' : MapOK cfg m' xs.length := by
    refine ⟨hkind.trans M.mapKind, hwf, ?_, ?_, hmax⟩
    · intro k w hkw
      have := (UMap.get_eq_some_iff m' hwf k w).2 hkw
      rw [hget] at this
      by_cases hki : k = i
      · subst hki; exact hiN
      · rw [if_neg hki] at this
        exact M.key_lt_N k (by rw [this]; rfl)
    · apply UMap.co_contig_of_get m' hwf xs.length cfg.N
        (max (applyEntries xs m.entries).length (i+1) - xs.length)
      intro k
      rw [hget]
      by_cases hki : k = i
      · subst hki
        simp only [if_true, Option.isSome_some, true_and]
        constructor
        · intro h; omega
        · intro h; omega
      · rw [if_neg hki]
        constructor
        · rintro ⟨h1, h2, h3⟩
          have := (M.isSome_iff hn k h2).1 h1
          omega
        · rintro ⟨h1, h2⟩
          have hk : k < (applyEntries xs m.entries).length := by omega
          exact ⟨(M.isSome_iff hn k h1).2 hk, h1, by omega⟩
  refine ⟨M', ?_⟩
  intro j
  rw [M'.getElem? hn j, M.getElem? hn j, hget]
  by_cases hji : j = i
  · simp [hji]
  · simp [hji]

end MapWrites

/-! ## Writes (C01, C05, C15) -/

section Writes
variable {pf : Option Nat} {cfg : Cfg} {c : Coll T} {xs : List T}

theorem CollInv.with_updates (I : CollInv pf cfg c xs) (u : UMap T) (M : MapOK cfg u xs.length) :
    CollInv pf cfg { c with updates := u } xs :=
  ⟨I.shape, I.len, I.depth, I.bound, M.mapKind, M.wf, M.keys, M.contiguous, M.maxRel⟩

/-- **C01 / C05, `push` with room:** accepted, the invariant is kept and the shown sequence grows
by the pushed element. -/
theorem C01_push_ok (I : CollInv pf cfg c xs) (x : T) (hk : c.kind = .list)
    (hroom : (Coll.view xs c).length < cfg.N) :
    ∃ c', c.push cfg x = .ok c' ∧ CollInv pf cfg c' xs ∧
      Coll.view xs c' = Coll.view xs c ++ [x] ∧ c'.kind = .list := by
  have hlen := C01_len I
  obtain ⟨M', hv⟩ := I.mapOK.point_update I.le_N (c.updates.insert c.len x) c.len x
    (UMap.kind_insert _ _ _) (UMap.WF_insert _ I.wf _ _) (fun k => UMap.get_insert _ _ _ _)
    (UMap.co_maxRel_insert _ _ _ _ I.maxRel) (by rw [hlen]; exact Nat.le_refl _)
    (by rw [hlen]; exact hroom)
  refine ⟨{ c with updates := c.updates.insert c.len x }, ?_, I.with_updates _ M', ?_, hk⟩
  · unfold Coll.push
    rw [hk]
    simp only
    rw [if_neg (by omega)]
  · show applyEntries xs (c.updates.insert c.len x).entries = applyEntries xs c.updates.entries ++ [x]
    apply List.ext_getElem?
    intro j
    rw [hv j, List.getElem?_append]
    unfold Coll.view at hlen
    by_cases hj : j = c.len
    · subst hj
      rw [if_pos rfl, if_neg (by omega), hlen]; simp
    · rw [if_neg hj]
      by_cases hlt : j < (applyEntries xs c.updates.entries).length
      · rw [if_pos hlt]
      · rw [if_neg hlt, List.getElem?_eq_none (by omega)]
        rw [List.getElem?_eq_none (by simp; omega)]

/-- **C05 / C15, `push` on a full list:** rejected with `ListFull`. -/
theorem C15_push_full (I : CollInv pf cfg c xs) (x : T) (hk : c.kind = .list)
    (hfull : (Coll.view xs c).length = cfg.N) : c.push cfg x = .error (.listFull cfg.N) := by
  unfold Coll.push
  rw [hk]
  simp only
  rw [if_pos (by rw [C01_len I]; exact hfull), C01_len I, hfull]

/-- **C15, `push` on a vector:** rejected with `PushNotSupported`. -/
theorem C15_push_vector (cfg : Cfg) (c : Coll T) (x : T) (hk : c.kind = .vector) :
    c.push cfg x = .error .pushNotSupported := by
  unfold Coll.push; rw [hk]

/-- **C15, `push` is total and predictable:** exactly one of the three plain-model outcomes; in
particular never a panic, and a rejected push returns only the error (the collection is a value:
nothing is changed). -/
theorem C15_push_total (I : CollInv pf cfg c xs) (x : T) :
    (c.kind = .vector ∧ c.push cfg x = .error .pushNotSupported) ∨
    (c.kind = .list ∧ (Coll.view xs c).length = cfg.N ∧ c.push cfg x = .error (.listFull cfg.N)) ∨
    (c.kind = .list ∧ (Coll.view xs c).length < cfg.N ∧ ∃ c', c.push cfg x = .ok c' ∧
      CollInv pf cfg c' xs ∧ Coll.view xs c' = Coll.view xs c ++ [x]) := by
  cases hk : c.kind with
  | vector => exact Or.inl ⟨rfl, C15_push_vector cfg c x hk⟩
  | list =>
    right
    have hle := C05_view_length_le I
    by_cases hfull : (Coll.view xs c).length = cfg.N
    · exact Or.inl ⟨rfl, hfull, C15_push_full I x hk hfull⟩
    · obtain ⟨c', h1, h2, h3, _⟩ := C01_push_ok I x hk (by omega)
      exact Or.inr ⟨rfl, by omega, c', h1, h2, h3⟩

/-- the effect of making the entry at `i < len` mutable and writing `x`. -/
theorem CollInv.insertEntry (I : CollInv pf cfg c xs) (i : Nat) (x : T)
    (hi : i < (Coll.view xs c).length) :
    CollInv pf cfg { c with updates := c.updates.insertEntry i x } xs ∧
      Coll.view xs { c with updates := c.updates.insertEntry i x } = (Coll.view xs c).set i x := by
  have hL := C05_view_length_le I
  obtain ⟨M', hv⟩ := I.mapOK.point_update I.le_N (c.updates.insertEntry i x) i x
    (UMap.kind_insertEntry _ _ _) (UMap.WF_insertEntry _ I.wf _ _)
    (fun k => UMap.get_insertEntry _ _ _ _)
    (UMap.co_maxRel_insertEntry _ _ _ _ I.maxRel (by
      by_cases h : i < xs.length
      · exact Or.inl h
      · exact Or.inr ((I.mapOK.isSome_iff I.le_N i (by omega)).2 hi)))
    (Nat.le_of_lt hi) (by omega)
  refine ⟨I.with_updates _ M', ?_⟩
  show applyEntries xs (c.updates.insertEntry i x).entries = (applyEntries xs c.updates.entries).set i x
  apply List.ext_getElem?
  intro j
  rw [hv j, List.getElem?_set]
  unfold Coll.view at hi
  by_cases hj : j = i
  · subst hj; simp [hi]
  · rw [if_neg hj, if_neg (Ne.symm hj)]

/-- **C01, write through a mutable reference:** for `i < len` the reference shows the current
element, and the write acts like `v[i] = x`. -/
theorem C01_getMutSet_ok (K : CfgOK pf cfg) (I : CollInv pf cfg c xs) (i : Nat) (x : T)
    (hi : i < (Coll.view xs c).length) :
    ∃ c', c.getMutSet pf i x = some ((Coll.view xs c)[i], c') ∧ CollInv pf cfg c' xs ∧
      Coll.view xs c' = (Coll.view xs c).set i x ∧ c'.kind = c.kind := by
  obtain ⟨I', hv⟩ := I.insertEntry i x hi
  refine ⟨_, ?_, I', hv, rfl⟩
  have hg := C01_get K I i
  rw [List.getElem?_eq_getElem hi] at hg
  unfold Coll.get at hg
  unfold Coll.getMutSet UMap.getMutSet
  cases hu : c.updates.get i with
  | some old =>
    rw [hu] at hg
    simp only at hg ⊢
    cases hg; rfl
  | none =>
    rw [hu] at hg
    simp only at hg ⊢
    rw [hg]

/-- **C15, `get_mut` out of bounds:** `None`, nothing changes. -/
theorem C15_getMutSet_none (K : CfgOK pf cfg) (I : CollInv pf cfg c xs) (i : Nat) (x : T)
    (hi : (Coll.view xs c).length ≤ i) : c.getMutSet pf i x = none := by
  have hg := C01_get K I i
  rw [List.getElem?_eq_none hi] at hg
  unfold Coll.get at hg
  unfold Coll.getMutSet UMap.getMutSet
  cases hu : c.updates.get i with
  | some old => rw [hu] at hg; cases hg
  | none =>
    rw [hu] at hg
    simp only at hg ⊢
    rw [hg]

/-- the view after the action performed on a `Cow` at index `i`. -/
def CowAct.onView (act : CowAct T) (i : Nat) (v : List T) : List T :=
  match act with
  | .read => v
  | .intoMut x => v.set i x
  | .makeMut x => v.set i x
  | .makeMut2 _ y => v.set i y

/-- **C01, write through a copy-on-write handle:** for `i < len` the handle shows the current
element; `into_mut`/`make_mut` followed by a write act like `v[i] = x` (two writes: the last one
wins); a handle that is only read changes nothing. -/
theorem C01_getCow_ok (K : CfgOK pf cfg) (I : CollInv pf cfg c xs) (i : Nat) (act : CowAct T)
    (hi : i < (Coll.view xs c).length) :
    ∃ c', c.getCow pf i act = some ((Coll.view xs c)[i], c') ∧ CollInv pf cfg c' xs ∧
      Coll.view xs c' = act.onView i (Coll.view xs c) ∧ c'.kind = c.kind := by
  have hg := C01_get K I i
  rw [List.getElem?_eq_getElem hi] at hg
  unfold Coll.get at hg
  have hcow : ∀ c', (match act with
      | .read => some ((Coll.view xs c)[i], c)
      | .intoMut x => some ((Coll.view xs c)[i], { c with updates := c.updates.insertEntry i x })
      | .makeMut x => some ((Coll.view xs c)[i], { c with updates := c.updates.insertEntry i x })
      | .makeMut2 _ y => some ((Coll.view xs c)[i], { c with updates := c.updates.insertEntry i y }))
        = some ((Coll.view xs c)[i], c') → c.getCow pf i act = some ((Coll.view xs c)[i], c') := by
    intro c' h
    unfold Coll.getCow
    simp only
    cases hu : c.updates.get i with
    | some old =>
      rw [hu] at hg
      simp only at hg ⊢
      cases hg
      rw [← h]
      cases act <;> rfl
    | none =>
      rw [hu] at hg
      simp only at hg ⊢
      rw [hg, ← h]
      cases act <;> rfl
  cases act with
  | read => exact ⟨c, hcow c rfl, I, rfl, rfl⟩
  | intoMut x =>
    obtain ⟨I', hv⟩ := I.insertEntry i x hi
    exact ⟨_, hcow _ rfl, I', hv, rfl⟩
  | makeMut x =>
    obtain ⟨I', hv⟩ := I.insertEntry i x hi
    exact ⟨_, hcow _ rfl, I', hv, rfl⟩
  | makeMut2 x y =>
    obtain ⟨I', hv⟩ := I.insertEntry i y hi
    exact ⟨_, hcow _ rfl, I', hv, rfl⟩

/-- a `Cow` that is only read leaves the collection itself unchanged. -/
theorem C01_getCow_read (K : CfgOK pf cfg) (I : CollInv pf cfg c xs) (i : Nat)
    (hi : i < (Coll.view xs c).length) :
    c.getCow pf i .read = some ((Coll.view xs c)[i], c) := by
  have hg := C01_get K I i
  rw [List.getElem?_eq_getElem hi] at hg
  unfold Coll.get at hg
  unfold Coll.getCow
  simp only
  cases hu : c.updates.get i with
  | some old => rw [hu] at hg; simp only at hg ⊢; cases hg; rfl
  | none => rw [hu] at hg; simp only at hg ⊢; rw [hg]

/-- **C15, `get_cow` out of bounds:** `None`, whatever would have been done with the handle. -/
theorem C15_getCow_none (K : CfgOK pf cfg) (I : CollInv pf cfg c xs) (i : Nat) (act : CowAct T)
    (hi : (Coll.view xs c).length ≤ i) : c.getCow pf i act = none := by
  have hg := C01_get K I i
  rw [List.getElem?_eq_none hi] at hg
  unfold Coll.get at hg
  unfold Coll.getCow
  simp only
  cases hu : c.updates.get i with
  | some old => rw [hu] at hg; cases hg
  | none => rw [hu] at hg; simp only at hg ⊢; rw [hg]

/-! ### `apply_updates` -/

theorem CollInv.of_parts {c : Coll T} {ys : List T} (hshape : c.tree.erase = canon pf c.depth ys)
    (hlen : c.length = ys.length) (hdepth : c.depth = listDepth pf cfg.N)
    (hbound : match c.kind with
      | .list => ys.length ≤ cfg.N
      | .vector => ys.length = cfg.N)
    (M : MapOK cfg c.updates ys.length) : CollInv pf cfg c ys :=
  ⟨hshape, hlen, hdepth, hbound, M.mapKind, M.wf, M.keys, M.contiguous, M.maxRel⟩

/-- nothing pending: `apply_updates` is the identity. -/
theorem C01_applyUpdates_unchanged (pf : Option Nat) (z : H) (cfg : Cfg) (c : Coll T) (h : Heap H)
    (he : c.updates.isEmpty = true) : c.applyUpdates pf z cfg h = (.ok (), c, h) := by
  simp [Coll.applyUpdates, he]

/-- **C01, flush:** "flushing pending writes always succeeds and never changes what is read".
For lists and vectors and all three map kinds (`MaxRel` instead of `MaxExact`): `apply_updates`
returns `Ok`, the new backing contents are the previously shown sequence, nothing is pending any
more and the shown sequence is the same. -/
theorem C01_applyUpdates (K : CfgOK pf cfg) (I : CollInv pf cfg c xs) (z : H) (h : Heap H) :
    ∃ c' h', c.applyUpdates pf z cfg h = (.ok (), c', h') ∧ CollInv pf cfg c' (Coll.view xs c) ∧
      c'.updates.isEmpty = true ∧ Coll.view (Coll.view xs c) c' = Coll.view xs c ∧
      c'.kind = c.kind ∧ h.next ≤ h'.next ∧
      (c.updates.isEmpty = false → c'.updates = UMap.empty cfg.map) := by
  cases he : c.updates.isEmpty with
  | true =>
    have hv : Coll.view xs c = xs := by
      unfold Coll.view; rw [UMap.co_entries_of_isEmpty _ he]; rfl
    rw [hv]
    exact ⟨c, h, C01_applyUpdates_unchanged pf z cfg c h he, I, he, hv, rfl, Nat.le_refl _,
      fun h => by cases h⟩
  | false =>
    have B := I.backingOK K
    obtain ⟨hd, hcap⟩ := listDepth_ok pf K.pf cfg.N K.le
    have hN : cfg.N ≤ cap pf c.depth := by rw [I.depth]; exact hcap
    have hkeys' : ∀ k v, (k, v) ∈ c.updates.entries → k < cap pf c.depth :=
      fun k v hkv => Nat.lt_of_lt_of_le (I.keys k v hkv) hN
    have hgap' : gapCheck xs.length (c.updates.range xs.length (cap pf c.depth)) = none := by
      rw [← range_upper_congr c.updates xs.length cfg.N _ (fun q hq => I.keys q.1 q.2 hq) hN]
      exact I.contiguous
    obtain ⟨t', h', hupd, ht', hnext⟩ := updLeaves_root pf K.pf z c.updates I.wf c.depth B.depth h
      c.tree xs I.shape B.fits he hkeys' hgap'
    have hL := C05_view_length_le I
    have hME : ∀ n, MapOK cfg (UMap.empty cfg.map : UMap T) n := MapOK.empty cfg
    have hview : ∀ c'' : Coll T, c''.updates = UMap.empty cfg.map →
        Coll.view (Coll.view xs c) c'' = Coll.view xs c := by
      intro c'' hu
      show applyEntries (Coll.view xs c) c''.updates.entries = _
      rw [hu, UMap.co_entries_empty]; rfl
    cases hmi : c.updates.maxIndex with
    | none => rw [UMap.maxIndex_eq_none_iff, he] at hmi; cases hmi
    | some mx =>
      have hlen := I.mapOK.length_of_maxIndex I.le_N mx hmi
      have hmxL := I.mapOK.maxIndex_lt I.le_N mx hmi
      change mx < (Coll.view xs c).length at hmxL
      change (Coll.view xs c).length = _ at hlen
      have hmxN : mx < cfg.N := by omega
      cases hk : c.kind with
      | list =>
        refine ⟨{ c with updates := UMap.empty cfg.map, length := max (mx + 1) c.length, tree := t' },
          h', ?_, ?_, UMap.co_isEmpty_empty _, hview _ rfl, hk, hnext, fun _ => rfl⟩
        · simp only [Coll.applyUpdates, he, Bool.false_eq_true, if_false, Coll.backingUpdate, hmi,
            hk, ge_iff_le, Nat.not_le.2 hmxN, hupd]
        · refine CollInv.of_parts ht' ?_ I.depth ?_ (hME _)
          · show max (mx + 1) c.length = _
            rw [I.len, hlen]
          · show match c.kind with
              | .list => (Coll.view xs c).length ≤ cfg.N
              | .vector => (Coll.view xs c).length = cfg.N
            rw [hk]; exact hL
      | vector =>
        have hvec := C05_view_length_vector I hk
        have hxs : xs.length = cfg.N := by
          have := I.bound; rw [hk] at this; exact this
        refine ⟨{ c with updates := UMap.empty cfg.map, tree := t' }, h', ?_, ?_,
          UMap.co_isEmpty_empty _, hview _ rfl, hk, hnext, fun _ => rfl⟩
        · have hmxl : ¬ (c.length ≤ mx) := by rw [I.len]; omega
          simp only [Coll.applyUpdates, he, Bool.false_eq_true, if_false, Coll.backingUpdate, hmi,
            hk, ge_iff_le, hmxl, hupd]
        · refine CollInv.of_parts ht' ?_ I.depth ?_ (hME _)
          · show c.length = _
            rw [I.len, hvec, hxs]
          · show match c.kind with
              | .list => (Coll.view xs c).length ≤ cfg.N
              | .vector => (Coll.view xs c).length = cfg.N
            rw [hk]; exact hvec

/-- the flush for collections whose empty pending map is the default one (true for every map made
by `insert`/`insertEntry` from `U::default()`): afterwards the pending map is literally the
default map. -/
theorem C01_applyUpdates_normal (K : CfgOK pf cfg) (I : CollInv pf cfg c xs) (z : H) (h : Heap H)
    (hnorm : c.updates.isEmpty = true → c.updates = UMap.empty cfg.map) :
    ∃ c' h', c.applyUpdates pf z cfg h = (.ok (), c', h') ∧ CollInv pf cfg c' (Coll.view xs c) ∧
      c'.updates.isEmpty = true ∧ Coll.view (Coll.view xs c) c' = Coll.view xs c ∧
      c'.kind = c.kind ∧ h.next ≤ h'.next ∧ c'.updates = UMap.empty cfg.map := by
  cases he : c.updates.isEmpty with
  | true =>
    obtain ⟨c', h', h1, h2, h3, h4, h5, h6, _⟩ := C01_applyUpdates K I z h
    rw [C01_applyUpdates_unchanged pf z cfg c h he] at h1
    have hc : c' = c := by injection h1 with _ h1; injection h1 with h1 _; exact h1.symm
    subst hc
    exact ⟨c', h', by rw [C01_applyUpdates_unchanged pf z cfg c' h he]; simp_all, h2, h3, h4, h5,
      h6, hnorm he⟩
  | false =>
    obtain ⟨c', h', h1, h2, h3, h4, h5, h6, h7⟩ := C01_applyUpdates K I z h
    exact ⟨c', h', h1, h2, h3, h4, h5, h6, h7 he⟩

/-- **C15:** `apply_updates` never reports an error (in particular no panic) on a collection
satisfying the invariant. -/
theorem C15_applyUpdates_no_error (K : CfgOK pf cfg) (I : CollInv pf cfg c xs) (z : H)
    (h : Heap H) : (c.applyUpdates pf z cfg h).1 = .ok () := by
  obtain ⟨c', h', h1, _⟩ := C01_applyUpdates K I z h
  rw [h1]

end Writes

/-! ## `bulk_update` (C01, C15) -/

section Bulk
variable {pf : Option Nat} {cfg : Cfg} {c : Coll T} {xs : List T}

/-- **C15:** `bulk_update` with writes pending is rejected with `BulkUpdateUnclean`. (As for all
rejections of `bulk_update`/`push`: the function returns only the error, the collection is
untouched.) -/
theorem C15_bulkUpdate_unclean (cfg : Cfg) (c : Coll T) (u : UMap T) (h : c.hasPending = true) :
    c.bulkUpdate cfg u = .error .bulkUpdateUnclean := by
  unfold Coll.bulkUpdate; rw [if_pos h]

/-- **C15:** a clean collection rejects a map with some key `≥ N` with `InvalidListUpdate`. -/
theorem C15_bulkUpdate_invalid (cfg : Cfg) (c : Coll T) (u : UMap T) (hwf : u.WF)
    (hx : u.MaxExact) (hclean : c.hasPending = false) (k : Nat) (hk : (u.get k).isSome)
    (hkN : cfg.N ≤ k) : c.bulkUpdate cfg u = .error .invalidListUpdate := by
  unfold Coll.bulkUpdate
  rw [if_neg (by rw [hclean]; simp)]
  cases hmi : u.maxIndex with
  | none =>
    have := (UMap.isEmpty_iff u).1 ((UMap.maxIndex_eq_none_iff u).1 hmi) k
    rw [this] at hk; cases hk
  | some mx =>
    have := ((UMap.maxIndex_eq_some_iff u hwf hx mx).1 hmi).2 k hk
    simp only
    rw [if_pos (by omega)]

/-- when no key exceeds `mx`, the bounded walk of the `fix:` for F8 is the plain contiguity check. -/
theorem co_gapCheckMax_eq (mx : Nat) : ∀ (l : List (Nat × T)) (n : Nat), (∀ q ∈ l, q.1 ≤ mx) →
    Coll.gapCheckMax mx n l = gapCheck n l := by
  intro l
  induction l with
  | nil => intro n _; rfl
  | cons q rest ih =>
    intro n h
    obtain ⟨k, v⟩ := q
    have hk : k ≤ mx := h (k, v) (List.mem_cons_self ..)
    simp only [Coll.gapCheckMax, Coll.gapCheck]
    by_cases hkn : k = n
    · rw [if_pos ⟨hkn, hk⟩, if_pos hkn]
      exact ih (n+1) (fun q hq => h q (List.mem_cons_of_mem _ hq))
    · rw [if_neg (fun hh => hkn hh.1), if_neg hkn]

/-- with all keys below `N`, a clean `bulk_update` is decided by the contiguity check of the keys
at or beyond the backing length. (`N < 2^64`: keys are `usize` values, and the Rust walks the keys
up to `usize::MAX`.) -/
theorem co_bulkUpdate_reduce (hlen : c.length = xs.length) (u : UMap T) (hwf : u.WF)
    (hx : u.MaxExact) (hclean : c.hasPending = false)
    (hkeys : ∀ k, (u.get k).isSome → k < cfg.N) (hN : cfg.N < 2 ^ 64) :
    c.bulkUpdate cfg u =
      match gapCheck xs.length (u.range xs.length cfg.N) with
      | some (index, next) => .error (.outOfBoundsUpdate index next)
      | none => .ok { c with updates := u } := by
  unfold Coll.bulkUpdate
  rw [if_neg (by rw [hclean]; simp)]
  cases hmi : u.maxIndex with
  | none =>
    have he := UMap.co_entries_of_isEmpty u ((UMap.maxIndex_eq_none_iff u).1 hmi)
    have : u.range xs.length cfg.N = [] := by rw [UMap.range_def, he]; rfl
    rw [this]; rfl
  | some mx =>
    obtain ⟨h1, h2⟩ := (UMap.maxIndex_eq_some_iff u hwf hx mx).1 hmi
    have hmx := hkeys mx h1
    have hall : ∀ q ∈ u.entries, q.1 < mx + 1 := fun q hq => by
      have := h2 q.1 ((UMap.get_isSome_iff u q.1).2 ⟨q.2, hq⟩); omega
    have hmaxkey : ¬ ((u.get (2 ^ 64 - 1)).isSome = true) := fun hh => by
      have := hkeys _ hh; omega
    simp only
    rw [if_neg (by omega), if_neg hmaxkey, hlen]
    have hr1 : u.range xs.length (2 ^ 64 - 1) = u.range xs.length (mx + 1) :=
      (range_upper_congr u xs.length (mx + 1) (2 ^ 64 - 1) hall (by omega)).symm
    rw [hr1, co_gapCheckMax_eq mx _ _ (fun q hq => by
        have := (UMap.mem_range_bounds u xs.length (mx + 1) q hq).2; omega),
      range_upper_congr u xs.length (mx + 1) cfg.N hall (by omega)]
    generalize gapCheck xs.length (u.range xs.length cfg.N) = g
    cases g with
    | none => rfl
    | some p => cases p; rfl

/-- **C15:** a clean collection rejects a map (keys `< N`) whose keys at or beyond the backing
length are not contiguous, with `OutOfBoundsUpdate k next` for the first offending key `k`
(see `C15_bulkUpdate_gap_spec` for what `k` and `next` are). -/
theorem C15_bulkUpdate_gap (I : CollInv pf cfg c xs) (u : UMap T) (hwf : u.WF) (hx : u.MaxExact)
    (hclean : c.hasPending = false) (hkeys : ∀ k, (u.get k).isSome → k < cfg.N) (k next : Nat)
    (hgap : gapCheck xs.length (u.range xs.length cfg.N) = some (k, next)) (hN : cfg.N < 2 ^ 64) :
    c.bulkUpdate cfg u = .error (.outOfBoundsUpdate k next) := by
  rw [co_bulkUpdate_reduce I.len u hwf hx hclean hkeys hN, hgap]

/-- the meaning of a failed contiguity check: `next` is the first index at or after `n` without
a key, `k` is the smallest key above it. -/
theorem C15_bulkUpdate_gap_spec (u : UMap T) (hwf : u.WF) (n N k next : Nat)
    (hgap : gapCheck n (u.range n N) = some (k, next)) :
    n ≤ next ∧ next < k ∧ k < N ∧ (u.get k).isSome ∧ (∀ j, n ≤ j → j < next → (u.get j).isSome) ∧
      u.get next = none ∧ (∀ j, next ≤ j → j < N → (u.get j).isSome → k ≤ j) := by
  obtain ⟨h1, h2, ⟨w, hw⟩, h4, h5, h6⟩ := co_gapCheck_some_spec _ (UMap.range_keysAsc u hwf n N)
    n k next (fun q hq => (UMap.mem_range_bounds u n N q hq).1) hgap
  have hk := (UMap.mem_range_iff u hwf n N k w).1 hw
  refine ⟨h1, h2, hk.2.2, by rw [hk.1]; rfl, ?_, ?_, ?_⟩
  · intro j hj1 hj2
    obtain ⟨w', hw'⟩ := h4 j hj1 hj2
    rw [((UMap.mem_range_iff u hwf n N j w').1 hw').1]; rfl
  · cases hg : u.get next with
    | none => rfl
    | some w' =>
      exact absurd ⟨w', (UMap.mem_range_iff u hwf n N next w').2 ⟨hg, h1, by omega⟩⟩ h5
  · intro j hj1 hj2 hj3
    obtain ⟨w', hw'⟩ := Option.isSome_iff_exists.1 hj3
    exact h6 (j, w') ((UMap.mem_range_iff u hwf n N j w').2 ⟨hw', by omega, hj2⟩) hj1

/-- **C01, admissible `bulk_update`:** a clean collection accepts a map of the configured type
whose keys are `< N` and extend the backing contents contiguously; the invariant holds for the
result and it shows the entries folded over the contents. -/
theorem C01_bulkUpdate_ok (I : CollInv pf cfg c xs) (u : UMap T) (hkind : u.kind = cfg.map)
    (hwf : u.WF) (hx : u.MaxExact) (hclean : c.hasPending = false)
    (hkeys : ∀ k, (u.get k).isSome → k < cfg.N)
    (hgap : gapCheck xs.length (u.range xs.length cfg.N) = none) (hN : cfg.N < 2 ^ 64) :
    ∃ c', c.bulkUpdate cfg u = .ok c' ∧ CollInv pf cfg c' xs ∧
      Coll.view xs c' = applyEntries xs u.entries ∧ c'.kind = c.kind := by
  refine ⟨{ c with updates := u }, ?_, I.with_updates u ⟨hkind, hwf, ?_, hgap, hx.maxRel _⟩, rfl, rfl⟩
  · rw [co_bulkUpdate_reduce I.len u hwf hx hclean hkeys hN, hgap]
  · intro k v hkv
    exact hkeys k ((UMap.get_isSome_iff u k).2 ⟨v, hkv⟩)

/-- **C15, `bulk_update` is total and predictable:** for a map built by `insert` only, exactly the
four outcomes of the plain model, decided in this order; never a panic. A rejected call returns
only the error, so the collection is unchanged. -/
theorem C15_bulkUpdate_total (I : CollInv pf cfg c xs) (u : UMap T) (hkind : u.kind = cfg.map)
    (hwf : u.WF) (hx : u.MaxExact) (hN : cfg.N < 2 ^ 64) :
    (c.hasPending = true ∧ c.bulkUpdate cfg u = .error .bulkUpdateUnclean) ∨
    (c.hasPending = false ∧ (∃ k, (u.get k).isSome ∧ cfg.N ≤ k) ∧
      c.bulkUpdate cfg u = .error .invalidListUpdate) ∨
    (c.hasPending = false ∧ (∀ k, (u.get k).isSome → k < cfg.N) ∧
      ∃ k next, gapCheck xs.length (u.range xs.length cfg.N) = some (k, next) ∧
        c.bulkUpdate cfg u = .error (.outOfBoundsUpdate k next)) ∨
    (c.hasPending = false ∧ (∀ k, (u.get k).isSome → k < cfg.N) ∧
      gapCheck xs.length (u.range xs.length cfg.N) = none ∧
      ∃ c', c.bulkUpdate cfg u = .ok c' ∧ CollInv pf cfg c' xs ∧
        Coll.view xs c' = applyEntries xs u.entries) := by
  cases hp : c.hasPending with
  | true => exact Or.inl ⟨rfl, C15_bulkUpdate_unclean cfg c u hp⟩
  | false =>
    right
    by_cases hbig : ∃ k, (u.get k).isSome ∧ cfg.N ≤ k
    · obtain ⟨k, hk1, hk2⟩ := hbig
      exact Or.inl ⟨rfl, ⟨k, hk1, hk2⟩, C15_bulkUpdate_invalid cfg c u hwf hx hp k hk1 hk2⟩
    · right
      have hkeys : ∀ k, (u.get k).isSome → k < cfg.N :=
        fun k hk => Nat.lt_of_not_le (fun h => hbig ⟨k, hk, h⟩)
      cases hg : gapCheck xs.length (u.range xs.length cfg.N) with
      | some p =>
        obtain ⟨k, nx⟩ := p
        exact Or.inl ⟨rfl, hkeys, k, nx, rfl, C15_bulkUpdate_gap I u hwf hx hp hkeys k nx hg hN⟩
      | none =>
        obtain ⟨c', h1, h2, h3, _⟩ := C01_bulkUpdate_ok I u hkind hwf hx hp hkeys hg hN
        exact Or.inr ⟨rfl, hkeys, rfl, c', h1, h2, h3⟩

end Bulk

/-! ## `iter_cow` (C01) -/

/-- one step of `iter_cow` at an index that reads `None`: the iteration ends. -/
theorem co_iterCow_step_none (pf : Option Nat) (c : Coll T) (f : Nat → T → Option T) (n i : Nat)
    (s s' : IterState T) (u : UMap T) (bv : Option T)
    (hnext : Iter.next pf c.depth c.length (c.depth + 2) s = .ok (bv, s'))
    (hcur : (u.get i).or bv = none) :
    c.iterCow pf f (n+1) i s u = .ok ([], u) := by
  simp only [Coll.iterCow, hnext]
  cases hu : u.get i with
  | some x0 => rw [hu] at hcur; simp at hcur
  | none => rw [hu] at hcur; simp at hcur; subst hcur; rfl

/-- one step of `iter_cow` at an index that reads `old`. -/
theorem co_iterCow_step_some (pf : Option Nat) (c : Coll T) (f : Nat → T → Option T) (n i : Nat)
    (s s' : IterState T) (u : UMap T) (bv : Option T) (old : T)
    (hnext : Iter.next pf c.depth c.length (c.depth + 2) s = .ok (bv, s'))
    (hcur : (u.get i).or bv = some old) (rest : List (Nat × T)) (uf : UMap T)
    (hrec : c.iterCow pf f n (i+1) s' ((f i old).elim u (fun x => u.insertEntry i x))
      = .ok (rest, uf)) :
    c.iterCow pf f (n+1) i s u = .ok ((i, old) :: rest, uf) := by
  simp only [Coll.iterCow, hnext]
  cases hu : u.get i with
  | some x0 =>
    rw [hu] at hcur; simp at hcur; subst hcur
    simp only
    cases hf : f i x0 with
    | none => rw [hf] at hrec; simp only [Option.elim] at hrec; simp only [hrec]
    | some y => rw [hf] at hrec; simp only [Option.elim] at hrec; simp only [hrec]
  | none =>
    rw [hu] at hcur; simp at hcur; subst hcur
    simp only
    cases hf : f i old with
    | none => rw [hf] at hrec; simp only [Option.elim] at hrec; simp only [hrec]
    | some y => rw [hf] at hrec; simp only [Option.elim] at hrec; simp only [hrec]

section IterCow
variable {pf : Option Nat} {cfg : Cfg} {c : Coll T} {xs : List T}

theorem co_iterCow_aux (K : CfgOK pf cfg) (I : CollInv pf cfg c xs) (f : Nat → T → Option T)
    (L : Nat) :
    ∀ (n i : Nat) (s : IterState T) (u : UMap T), CollInv pf cfg { c with updates := u } xs →
      (applyEntries xs u.entries).length = L → i ≤ L → L < i + n → StepInv pf c i s →
      ∃ items uf, c.iterCow pf f n i s u = .ok (items, uf) ∧
        CollInv pf cfg { c with updates := uf } xs ∧
        items.map (·.1) = List.range' i (L - i) ∧
        items.map (·.2) = (applyEntries xs u.entries).drop i ∧
        (applyEntries xs uf.entries).length = L ∧
        ∀ j, (applyEntries xs uf.entries)[j]? =
          if i ≤ j then ((applyEntries xs u.entries)[j]?).map (fun a => (f j a).getD a)
          else (applyEntries xs u.entries)[j]? := by
  intro n
  induction n with
  | zero => intro i s u _ _ h1 h2; omega
  | succ n ih =>
    intro i s u Iu hwl hi hfuel hinv
    have B := I.backingOK K
    obtain ⟨s', hnext, hinv'⟩ := backing_step B i s hinv
    have M : MapOK cfg u xs.length := Iu.mapOK
    have hcur : (u.get i).or (c.backingGet pf i) = (applyEntries xs u.entries)[i]? := by
      rw [B.backingGet]; exact (M.getElem? I.le_N i).symm
    by_cases hiL : i = L
    · have hnone : (applyEntries xs u.entries)[i]? = none := List.getElem?_eq_none (by omega)
      rw [hnone] at hcur
      refine ⟨[], u, co_iterCow_step_none pf c f n i s s' u _ hnext hcur, Iu, ?_, ?_, hwl, ?_⟩
      · rw [show L - i = 0 by omega]; rfl
      · rw [List.drop_of_length_le (by omega)]; rfl
      · intro j
        by_cases hj : i ≤ j
        · rw [if_pos hj, List.getElem?_eq_none (by omega)]; rfl
        · rw [if_neg hj]
    · have hlt : i < (applyEntries xs u.entries).length := by omega
      rw [List.getElem?_eq_getElem hlt] at hcur
      -- the map after the policy has acted on position `i`
      have hu' : CollInv pf cfg { c with updates :=
            ((f i (applyEntries xs u.entries)[i]).elim u (fun x => u.insertEntry i x)) } xs ∧
          applyEntries xs
            ((f i (applyEntries xs u.entries)[i]).elim u (fun x => u.insertEntry i x)).entries =
          (applyEntries xs u.entries).set i
            ((f i (applyEntries xs u.entries)[i]).getD (applyEntries xs u.entries)[i]) := by
        cases hf : f i (applyEntries xs u.entries)[i] with
        | none =>
          simp only [Option.elim, Option.getD_none]
          exact ⟨Iu, (List.set_getElem_self hlt).symm⟩
        | some y =>
          simp only [Option.elim, Option.getD_some]
          exact Iu.insertEntry i y hlt
      obtain ⟨Iu', hview'⟩ := hu'
      obtain ⟨rest, uf, hrec, Iuf, hfst, hsnd, hlenf, hget⟩ := ih (i+1) s' _ Iu'
        (by rw [hview', List.length_set]; exact hwl) (by omega) (by omega) hinv'
      refine ⟨_, uf, co_iterCow_step_some pf c f n i s s' u _ _ hnext hcur rest uf hrec, Iuf,
        ?_, ?_, hlenf, ?_⟩
      · rw [List.map_cons, hfst, show L - i = (L - (i+1)) + 1 by omega, List.range'_succ]
      · rw [List.map_cons, hsnd, hview', List.drop_set_of_lt (by omega),
          List.drop_eq_getElem_cons hlt]
      · intro j
        rw [hget j, hview', List.getElem?_set]
        by_cases hji : i = j
        · subst hji
          rw [if_neg (by omega), if_pos rfl, if_pos hlt, if_pos (Nat.le_refl _),
            List.getElem?_eq_getElem hlt]
          rfl
        · rw [if_neg hji]
          by_cases hj : i + 1 ≤ j
          · rw [if_pos hj, if_pos (by omega)]
          · rw [if_neg hj, if_neg (by omega)]

/-- **C01, `iter_cow` drained with a policy `f`** (enough fuel: any `n > len`; the harness uses
`len + 1`): it yields `(i, v[i])` for every `i < len` in order — the value seen through each
handle is the shown element — and afterwards the invariant holds and the collection shows `v`
with every position `j` for which `f j v[j] = some x` replaced by `x`. -/
theorem C01_iterCow (K : CfgOK pf cfg) (I : CollInv pf cfg c xs) (f : Nat → T → Option T) (n : Nat)
    (hn : (Coll.view xs c).length < n) :
    ∃ items uf, c.iterCow pf f n 0 (Iter.fromIndex 0 c.tree) c.updates = .ok (items, uf) ∧
      CollInv pf cfg { c with updates := uf } xs ∧
      items.map (·.1) = List.range (Coll.view xs c).length ∧
      items.map (·.2) = Coll.view xs c ∧
      (∀ j, (Coll.view xs { c with updates := uf })[j]? =
        ((Coll.view xs c)[j]?).map (fun a => (f j a).getD a)) ∧
      Coll.view xs { c with updates := uf } =
        (Coll.view xs c).zipIdx.map (fun p => (f p.2 p.1).getD p.1) := by
  obtain ⟨items, uf, h1, h2, h3, h4, h5, h6⟩ := co_iterCow_aux K I f (Coll.view xs c).length n 0
    (Iter.fromIndex 0 c.tree) c.updates I rfl (Nat.zero_le _) (by omega)
    (Or.inl ⟨rfl, PathOK.fromIndex pf c.tree c.depth c.length 0⟩)
  have h6' : ∀ j, (Coll.view xs { c with updates := uf })[j]? =
      ((Coll.view xs c)[j]?).map (fun a => (f j a).getD a) := by
    intro j
    have := h6 j
    rw [if_pos (Nat.zero_le _)] at this
    exact this
  refine ⟨items, uf, h1, h2, ?_, ?_, h6', ?_⟩
  · rw [h3, List.range_eq_range']; rfl
  · rw [h4]; rfl
  · apply List.ext_getElem?
    intro j
    rw [h6' j, List.getElem?_map, List.getElem?_zipIdx]
    cases (Coll.view xs c)[j]? with
    | none => rfl
    | some a => simp

end IterCow

/-! ## Constructors (C05) -/

section Constructors
variable {pf : Option Nat} {cfg : Cfg}

/-- a flushed collection with a canonical tree satisfies the invariant. -/
theorem CollInv.of_flushed {c : Coll T} {ys : List T}
    (hshape : c.tree.erase = canon pf (listDepth pf cfg.N) ys) (hlen : c.length = ys.length)
    (hdepth : c.depth = listDepth pf cfg.N)
    (hbound : match c.kind with
      | .list => ys.length ≤ cfg.N
      | .vector => ys.length = cfg.N)
    (hu : c.updates = UMap.empty cfg.map) : CollInv pf cfg c ys :=
  CollInv.of_parts (by rw [hdepth]; exact hshape) hlen hdepth hbound (by rw [hu]; exact MapOK.empty _ _)

/-- **C05, `List::empty`:** the invariant holds with no contents. -/
theorem C05_empty (pf : Option Nat) (z : H) (cfg : Cfg) (h : Heap H) :
    CollInv pf cfg (Coll.empty (T := T) pf z cfg h).1 [] ∧
      (Coll.empty (T := T) pf z cfg h).1.kind = .list ∧
      (Coll.empty (T := T) pf z cfg h).1.updates = UMap.empty cfg.map ∧
      h.next ≤ (Coll.empty (T := T) pf z cfg h).2.next := by
  refine ⟨CollInv.of_flushed ?_ rfl rfl (Nat.zero_le _) rfl, rfl, rfl, ?_⟩
  · show (Tree.zero _ _ : Tree T).erase = _
    rw [canon_nil]; rfl
  · simp [Coll.empty, Heap.next_alloc]

/-- **C05, `List::try_from_iter`** with at most `N` elements produces the invariant. -/
theorem C05_tryFromIter_inv (K : CfgOK pf cfg) (z : H) (ys : List T) (hlen : ys.length ≤ cfg.N)
    (h : Heap H) :
    ∃ c h', Coll.tryFromIter pf z cfg ys h = .ok (c, h') ∧ CollInv pf cfg c ys ∧
      c.kind = .list ∧ c.updates = UMap.empty cfg.map ∧ Coll.view ys c = ys := by
  obtain ⟨c, h', h1, h2, h3, h4, h5, h6⟩ := C05_tryFromIter_ok pf K.pf z cfg K.le ys hlen h
  refine ⟨c, h', h1, CollInv.of_flushed h3 h4 h5 (by rw [h2]; exact hlen) h6, h2, h6, ?_⟩
  unfold Coll.view; rw [h6, UMap.co_entries_empty]; rfl

/-- **C05, `List::repeat`** with `n ≤ N` produces the invariant. -/
theorem C05_repeat_inv (K : CfgOK pf cfg) (z : H) (x : T) (n : Nat) (hn : n ≤ cfg.N)
    (h : Heap H) :
    ∃ c h', Coll.repeat_ pf z cfg x n h = .ok (c, h') ∧ CollInv pf cfg c (List.replicate n x) ∧
      c.kind = .list ∧ c.updates = UMap.empty cfg.map ∧ h.next ≤ h'.next := by
  have hN : cfg.N ≤ 2 ^ 64 := Nat.le_trans K.le (by decide)
  obtain ⟨c, h', h1, h2, h3, _, _, h6, h7, _, h9, h10⟩ :=
    (C05_repeat pf K.pf z cfg x n h hN).1 hn
  exact ⟨c, h', h1, CollInv.of_flushed h7 (by simpa using h3) h6 (by rw [h2]; simpa using hn) h9,
    h2, h9, h10⟩

/-- **C05, `Vector::from_elem`** produces the invariant (exactly `N` elements). -/
theorem C05_vector_from_elem_inv (K : CfgOK pf cfg) (z : H) (x : T) (h : Heap H) :
    ∃ c h', Coll.vectorFromElem pf z cfg x h = .ok (c, h') ∧
      CollInv pf cfg c (List.replicate cfg.N x) ∧
      c.kind = .vector ∧ c.updates = UMap.empty cfg.map ∧ h.next ≤ h'.next := by
  have hN : cfg.N ≤ 2 ^ 64 := Nat.le_trans K.le (by decide)
  obtain ⟨c, h', h1, h2, h3, _, h5, h6, _, h8, h9⟩ := C05_vector_from_elem pf K.pf z cfg x h hN
  exact ⟨c, h', h1, CollInv.of_flushed h6 (by simpa using h3) h5 (by rw [h2]; simp) h8, h2, h8, h9⟩

end Constructors

/-! ## Equality (C06) -/

/-- **C06:** two flushed collections are equal (derived `PartialEq`) exactly when their contents
are equal. (No hypothesis on the kinds is needed; in Rust both sides have the same type.) -/
theorem C06_eq_iff_contents [DecidableEq T] {pf : Option Nat} {cfg : Cfg} {a b : Coll T}
    {xs ys : List T} (K : CfgOK pf cfg) (Ia : CollInv pf cfg a xs) (Ib : CollInv pf cfg b ys)
    (ha : a.updates = UMap.empty cfg.map) (hb : b.updates = UMap.empty cfg.map) :
    Coll.beq a b = true ↔ xs = ys := by
  obtain ⟨_, hcap⟩ := listDepth_ok pf K.pf cfg.N K.le
  simp only [Coll.beq, Bool.and_eq_true, decide_eq_true_eq, beq_iff_eq]
  rw [ha, hb, UMap.co_beq_empty, Ia.shape, Ib.shape, Ia.len, Ib.len, Ia.depth, Ib.depth]
  constructor
  · rintro ⟨⟨⟨h1, _⟩, _⟩, _⟩
    exact canon_injective pf K.pf _ xs ys (Nat.le_trans Ia.le_N hcap) (Nat.le_trans Ib.le_N hcap) h1
  · intro h; subst h; simp

/-- **C06**, as a Boolean equation. -/
theorem C06_beq_eq_decide [DecidableEq T] {pf : Option Nat} {cfg : Cfg} {a b : Coll T}
    {xs ys : List T} (K : CfgOK pf cfg) (Ia : CollInv pf cfg a xs) (Ib : CollInv pf cfg b ys)
    (ha : a.updates = UMap.empty cfg.map) (hb : b.updates = UMap.empty cfg.map) :
    Coll.beq a b = decide (xs = ys) := by
  have := C06_eq_iff_contents K Ia Ib ha hb
  cases hbq : Coll.beq a b with
  | true => rw [hbq] at this; exact (decide_eq_true (this.1 rfl)).symm
  | false =>
    rw [hbq] at this
    exact (decide_eq_false (fun h => by have := this.2 h; cases this)).symm

/-! ## Empty pending maps are the default map on every reachable state

`CollInv` does not say that a pending map without entries is literally `U::default()` (e.g.
`VecMap [None]`). Maps produced by the interface are: `insert`/`insertEntry` never yield an empty
map. This discharges the hypothesis of `C01_applyUpdates_normal` / `C06_eq_iff_contents`. -/

/-- a map without entries is the default map. -/
def UMap.Normal (m : UMap T) : Prop := m.isEmpty = true → m = UMap.empty m.kind

theorem UMap.normal_empty (k : MapKind) : (UMap.empty k : UMap T).Normal :=
  fun _ => by rw [UMap.kind_empty]

theorem UMap.co_isEmpty_insert (m : UMap T) (k : Nat) (x : T) : (m.insert k x).isEmpty = false :=
  (UMap.isEmpty_eq_false_iff _).2 ⟨k, by rw [UMap.get_insert]; simp⟩

theorem UMap.co_isEmpty_insertEntry (m : UMap T) (k : Nat) (x : T) :
    (m.insertEntry k x).isEmpty = false :=
  (UMap.isEmpty_eq_false_iff _).2 ⟨k, by rw [UMap.get_insertEntry]; simp⟩

theorem UMap.normal_insert (m : UMap T) (k : Nat) (x : T) : (m.insert k x).Normal :=
  fun h => by rw [UMap.co_isEmpty_insert] at h; cases h

theorem UMap.normal_insertEntry (m : UMap T) (k : Nat) (x : T) : (m.insertEntry k x).Normal :=
  fun h => by rw [UMap.co_isEmpty_insertEntry] at h; cases h

theorem UMap.Normal.eq_empty {m : UMap T} (h : m.Normal) {cfg : Cfg} (hk : m.kind = cfg.map)
    (he : m.isEmpty = true) : m = UMap.empty cfg.map := by
  rw [← hk]; exact h he

/-! ## Non-vacuity: concrete instances of the invariant with pending writes, all map kinds -/

namespace CollOpsExample

/-- `List<_, 4>`, unpacked elements. -/
def exCfg (k : MapKind) : Cfg := ⟨4, k⟩

theorem exCfgOK (k : MapKind) : CfgOK none (exCfg k) :=
  ⟨exPfOKnone, (by show 1 ≤ 4; decide), (by show 4 ≤ 2 ^ 63; decide)⟩

/-- a flushed list `[10, 11, 12]`. -/
def exBase (k : MapKind) : Coll Nat := ⟨.list, exTreeU, 3, 2, UMap.empty k⟩

theorem exBase_inv (k : MapKind) : CollInv none (exCfg k) (exBase k) [10, 11, 12] :=
  CollInv.of_flushed (by
    show exTreeU.erase = canon none (listDepth none 4) [10, 11, 12]
    rw [show listDepth none 4 = 2 by decide]; exact exCanonU) rfl
    (by show 2 = listDepth none 4; decide)
    (by show [10, 11, 12].length ≤ 4; decide) rfl

/-- the same list after `*get_mut(1) = 99` and `push(13)`: a non-empty pending map holding an
entry below the backing length (not reflected in `MaxMap::max_key`) and a pushed one. -/
def exPending (k : MapKind) : Coll Nat :=
  ⟨.list, exTreeU, 3, 2, ((UMap.empty k).insertEntry 1 99).insert 3 13⟩

theorem exPending_inv (k : MapKind) : CollInv none (exCfg k) (exPending k) [10, 11, 12] := by
  obtain ⟨I1, hv1⟩ := (exBase_inv k).insertEntry 1 99 (by cases k <;> decide)
  obtain ⟨c', h1, h2, _⟩ := C01_push_ok I1 13 rfl (by rw [hv1]; cases k <;> decide)
  have hp : Coll.push (exCfg k) { exBase k with updates := (exBase k).updates.insertEntry 1 99 } 13
      = .ok (exPending k) := by cases k <;> rfl
  rw [hp] at h1
  cases h1
  exact h2

theorem exView (k : MapKind) : Coll.view [10, 11, 12] (exPending k) = [10, 99, 12, 13] := by
  cases k <;> decide

-- the pending map is not empty, for each kind (for `MaxMap`: `max_key = 3`; see `exStale` below
-- for a `MaxMap` whose `max_key = 0` is below the pending key 1).
example : (exPending .btree).hasPending = true ∧ (exPending .vec).hasPending = true ∧
    (exPending .maxvec).hasPending = true := by decide

/-- a `MaxMap` whose `max_key` (0) is *below* a pending key (1): `MaxRel` but not `MaxExact`. -/
def exStale : Coll Nat := ⟨.list, exTreeU, 3, 2, (UMap.empty .maxvec).insertEntry 1 99⟩

theorem exStale_inv : CollInv none (exCfg .maxvec) exStale [10, 11, 12] :=
  ((exBase_inv .maxvec).insertEntry 1 99 (by decide)).1

example : exStale.updates.maxIndex = some 0 ∧ exStale.updates.get 1 = some 99 ∧
    ¬ exStale.updates.MaxExact := by
  refine ⟨by decide, by decide, ?_⟩
  intro h
  have := h.1 1 (by decide)
  omega

-- reads
example (k : MapKind) : (exPending k).len = 4 := by rw [C01_len (exPending_inv k), exView]; rfl
example : exStale.len = 3 := by rw [C01_len exStale_inv]; decide
example (k : MapKind) : (exPending k).isEmpty = false := by
  rw [C01_isEmpty (exPending_inv k), exView]; rfl
example (k : MapKind) : (exPending k).get none 1 = some 99 ∧ (exPending k).get none 3 = some 13 ∧
    (exPending k).get none 4 = none ∧ (exPending k).get none (2 ^ 64) = none := by
  simp only [C01_get (exCfgOK k) (exPending_inv k), exView]
  decide
example (k : MapKind) : (exPending k).toVec none = .ok [10, 99, 12, 13] := by
  rw [C01_toVec (exCfgOK k) (exPending_inv k), exView]
example (k : MapKind) : ∃ items, (exPending k).iterFrom none 1 = .ok (items, 0) ∧
    items.map (·.2) = [99, 12, 13] ∧ items.map (·.1) = [3, 2, 1] := by
  obtain ⟨items, h1, _, h2, _, h3⟩ := C01_iterFrom_ok (exCfgOK k) (exPending_inv k) 1
    (by rw [exView]; decide)
  rw [exView] at h2 h3
  exact ⟨items, h1, h2, h3⟩
example (k : MapKind) : (exPending k).iterFrom none 5 = .error (.outOfBoundsIterFrom 5 4) := by
  have := C15_iterFrom_out_of_bounds (exPending_inv k) 5 (by rw [exView]; decide)
  rw [exView] at this; exact this
example (k : MapKind) : (Coll.view [10, 11, 12] (exPending k)).length ≤ (exCfg k).N :=
  C05_view_length_le (exPending_inv k)

-- writes
example (k : MapKind) : ∃ c', (exBase k).push (exCfg k) 13 = .ok c' ∧
    CollInv none (exCfg k) c' [10, 11, 12] ∧ Coll.view [10, 11, 12] c' = [10, 11, 12, 13] := by
  obtain ⟨c', h1, h2, h3, _⟩ := C01_push_ok (exBase_inv k) 13 rfl (by cases k <;> decide)
  refine ⟨c', h1, h2, ?_⟩
  rw [h3]; cases k <;> decide
example (k : MapKind) : (exPending k).push (exCfg k) 5 = .error (.listFull 4) :=
  C15_push_full (exPending_inv k) 5 rfl (by rw [exView]; rfl)
example (k : MapKind) : ∃ c', (exPending k).getMutSet none 3 7 = some (13, c') ∧
    CollInv none (exCfg k) c' [10, 11, 12] ∧ Coll.view [10, 11, 12] c' = [10, 99, 12, 7] := by
  obtain ⟨c', h1, h2, h3, _⟩ := C01_getMutSet_ok (exCfgOK k) (exPending_inv k) 3 7
    (by rw [exView]; decide)
  simp only [exView] at h1 h3
  exact ⟨c', h1, h2, h3⟩
example (k : MapKind) : (exPending k).getMutSet none 4 7 = none :=
  C15_getMutSet_none (exCfgOK k) (exPending_inv k) 4 7 (by rw [exView]; decide)
example (k : MapKind) : ∃ c', (exPending k).getCow none 0 (.makeMut2 5 6) = some (10, c') ∧
    CollInv none (exCfg k) c' [10, 11, 12] ∧ Coll.view [10, 11, 12] c' = [6, 99, 12, 13] := by
  obtain ⟨c', h1, h2, h3, _⟩ := C01_getCow_ok (exCfgOK k) (exPending_inv k) 0 (.makeMut2 5 6)
    (by rw [exView]; decide)
  simp only [exView] at h1 h3
  exact ⟨c', h1, h2, h3⟩
example (k : MapKind) : (exPending k).getCow none 9 .read = none :=
  C15_getCow_none (exCfgOK k) (exPending_inv k) 9 .read (by rw [exView]; decide)

-- flush
example (k : MapKind) : ∃ c' h', (exPending k).applyUpdates none (0 : Nat) (exCfg k) Heap.empty
      = (.ok (), c', h') ∧ CollInv none (exCfg k) c' [10, 99, 12, 13] ∧
    c'.updates = UMap.empty k ∧ Coll.view [10, 99, 12, 13] c' = [10, 99, 12, 13] := by
  obtain ⟨c', h', h1, h2, _, h4, _, _, h7⟩ :=
    C01_applyUpdates (exCfgOK k) (exPending_inv k) (0 : Nat) Heap.empty
  rw [exView] at h2 h4
  exact ⟨c', h', h1, h2, h7 (by cases k <;> decide), h4⟩
example : ∃ c' h', exStale.applyUpdates none (0 : Nat) (exCfg .maxvec) Heap.empty
      = (.ok (), c', h') ∧ CollInv none (exCfg .maxvec) c' [10, 99, 12] := by
  obtain ⟨c', h', h1, h2, _⟩ := C01_applyUpdates (exCfgOK .maxvec) exStale_inv (0 : Nat) Heap.empty
  rw [show Coll.view [10, 11, 12] exStale = [10, 99, 12] by decide] at h2
  exact ⟨c', h', h1, h2⟩

-- `iter_cow`: add 1 at the even positions
example (k : MapKind) : ∃ items uf,
    (exPending k).iterCow none (fun i a => if i % 2 = 0 then some (a + 1) else none) 5 0
      (Iter.fromIndex 0 (exPending k).tree) (exPending k).updates = .ok (items, uf) ∧
    items.map (·.1) = [0, 1, 2, 3] ∧ items.map (·.2) = [10, 99, 12, 13] ∧
    Coll.view [10, 11, 12] { exPending k with updates := uf } = [11, 99, 13, 13] := by
  obtain ⟨items, uf, h1, _, h3, h4, _, h6⟩ := C01_iterCow (exCfgOK k) (exPending_inv k)
    (fun i a => if i % 2 = 0 then some (a + 1) else none) 5 (by rw [exView]; decide)
  rw [exView] at h3 h4 h6
  exact ⟨items, uf, h1, h3, h4, h6⟩

/-- a vector of exactly 4 elements with a pending write. -/
def exTreeV : Tree Nat :=
  .node 0 (.node 1 (.leaf 2 10) (.leaf 3 11)) (.node 4 (.leaf 5 12) (.leaf 6 13))

def exVec (k : MapKind) : Coll Nat := ⟨.vector, exTreeV, 4, 2, (UMap.empty k).insertEntry 2 77⟩

theorem exVec_inv (k : MapKind) : CollInv none (exCfg k) (exVec k) [10, 11, 12, 13] := by
  have I0 : CollInv none (exCfg k) (⟨.vector, exTreeV, 4, 2, UMap.empty k⟩ : Coll Nat)
      [10, 11, 12, 13] :=
    CollInv.of_flushed (by
      show exTreeV.erase = canon none (listDepth none 4) [10, 11, 12, 13]
      rw [show listDepth none 4 = 2 by decide]
      simp [exTreeV, Tree.erase, canon, cap, lcap]) rfl (by show 2 = listDepth none 4; decide)
      (by show [10, 11, 12, 13].length = 4; decide) rfl
  exact (I0.insertEntry 2 77 (by cases k <;> decide)).1

example (k : MapKind) : (exVec k).len = 4 := C05_len_vector (exVec_inv k) rfl
example (k : MapKind) : (exVec k).push (exCfg k) 1 = .error .pushNotSupported :=
  C15_push_vector _ _ _ rfl
example (k : MapKind) : ∃ c' h', (exVec k).applyUpdates none (0 : Nat) (exCfg k) Heap.empty
      = (.ok (), c', h') ∧ CollInv none (exCfg k) c' [10, 11, 77, 13] ∧ c'.kind = .vector := by
  obtain ⟨c', h', h1, h2, _, _, h5, _⟩ :=
    C01_applyUpdates (exCfgOK k) (exVec_inv k) (0 : Nat) Heap.empty
  rw [show Coll.view [10, 11, 12, 13] (exVec k) = [10, 11, 77, 13] by cases k <;> decide] at h2
  exact ⟨c', h', h1, h2, h5⟩

/-- `List<_, 8>` with 4 elements per packed leaf, contents `[1, …, 6]`, for `bulk_update`. -/
def exCfgP (k : MapKind) : Cfg := ⟨8, k⟩

theorem exCfgPOK (k : MapKind) : CfgOK (some 4) (exCfgP k) :=
  ⟨exPfOK4, (by show 1 ≤ 8; decide), (by show 8 ≤ 2 ^ 63; decide)⟩

def exBaseP (k : MapKind) : Coll Nat := ⟨.list, exTreeP, 6, 1, UMap.empty k⟩

theorem exBaseP_inv (k : MapKind) : CollInv (some 4) (exCfgP k) (exBaseP k) [1, 2, 3, 4, 5, 6] :=
  CollInv.of_flushed (by
    show exTreeP.erase = canon (some 4) (listDepth (some 4) 8) [1, 2, 3, 4, 5, 6]
    rw [show listDepth (some 4) 8 = 1 by decide]; exact exCanonP) rfl
    (by show 1 = listDepth (some 4) 8; decide)
    (by show [1, 2, 3, 4, 5, 6].length ≤ 8; decide) rfl

theorem exKeys (k : MapKind) (l : List (Nat × Nat)) (hl : ∀ p ∈ l, p.1 < 8) :
    ∀ j, ((l.foldl (fun m p => m.insert p.1 p.2) (UMap.empty k : UMap Nat)).get j).isSome →
      j < 8 := by
  suffices h : ∀ (l : List (Nat × Nat)) (m : UMap Nat), (∀ p ∈ l, p.1 < 8) →
      (∀ j, (m.get j).isSome → j < 8) →
      ∀ j, ((l.foldl (fun m p => m.insert p.1 p.2) m).get j).isSome → j < 8 from
    h l _ hl (fun j hj => by rw [UMap.get_empty] at hj; cases hj)
  intro l
  induction l with
  | nil => intro m _ hm; exact hm
  | cons p rest ih =>
    intro m hl hm
    apply ih _ (fun q hq => hl q (by simp [hq]))
    intro j hj
    rw [UMap.get_insert] at hj
    by_cases hjp : j = p.1
    · rw [hjp]; exact hl p (by simp)
    · rw [if_neg hjp] at hj; exact hm j hj

theorem exMaxExact (k : MapKind) (l : List (Nat × Nat)) :
    (l.foldl (fun m p => m.insert p.1 p.2) (UMap.empty k : UMap Nat)).MaxExact ∧
    (l.foldl (fun m p => m.insert p.1 p.2) (UMap.empty k : UMap Nat)).WF ∧
    (l.foldl (fun m p => m.insert p.1 p.2) (UMap.empty k : UMap Nat)).kind = k := by
  suffices h : ∀ (l : List (Nat × Nat)) (m : UMap Nat), m.MaxExact → m.WF →
      (l.foldl (fun m p => m.insert p.1 p.2) m).MaxExact ∧
      (l.foldl (fun m p => m.insert p.1 p.2) m).WF ∧
      (l.foldl (fun m p => m.insert p.1 p.2) m).kind = m.kind by
    have := h l _ (UMap.MaxExact_empty k) (UMap.WF_empty k)
    rw [UMap.kind_empty] at this; exact this
  intro l
  induction l with
  | nil => intro m h1 h2; exact ⟨h1, h2, rfl⟩
  | cons p rest ih =>
    intro m h1 h2
    have := ih _ (UMap.MaxExact_insert m h1 p.1 p.2) (UMap.WF_insert m h2 p.1 p.2)
    rw [UMap.kind_insert] at this
    exact this

/-- maps built with `insert` only. -/
def exU (k : MapKind) (l : List (Nat × Nat)) : UMap Nat :=
  l.foldl (fun m p => m.insert p.1 p.2) (UMap.empty k)

-- accepted: one overwrite and two appended keys
example (k : MapKind) : ∃ c', (exBaseP k).bulkUpdate (exCfgP k) (exU k [(6, 60), (2, 20), (7, 70)])
      = .ok c' ∧ CollInv (some 4) (exCfgP k) c' [1, 2, 3, 4, 5, 6] ∧
    Coll.view [1, 2, 3, 4, 5, 6] c' = [1, 2, 20, 4, 5, 6, 60, 70] := by
  obtain ⟨h1, h2, h3⟩ := exMaxExact k [(6, 60), (2, 20), (7, 70)]
  obtain ⟨c', h4, h5, h6, _⟩ := C01_bulkUpdate_ok (exBaseP_inv k) (exU k [(6, 60), (2, 20), (7, 70)])
    h3 h2 h1 (by cases k <;> decide) (exKeys k _ (by decide)) (by cases k <;> decide)
    (by show 8 < 2 ^ 64; decide)
  refine ⟨c', h4, h5, ?_⟩
  rw [h6]; cases k <;> decide
-- rejected: key 7 without key 6
example (k : MapKind) : (exBaseP k).bulkUpdate (exCfgP k) (exU k [(7, 70), (2, 20)])
    = .error (.outOfBoundsUpdate 7 6) := by
  obtain ⟨h1, h2, _⟩ := exMaxExact k [(7, 70), (2, 20)]
  exact C15_bulkUpdate_gap (exBaseP_inv k) _ h2 h1 (by cases k <;> decide) (exKeys k _ (by decide))
    7 6 (by cases k <;> decide) (by show 8 < 2 ^ 64; decide)
example : 6 ≤ 6 ∧ 6 < 7 ∧ 7 < 8 ∧ ((exU .vec [(7, 70), (2, 20)]).get 7).isSome ∧
    (∀ j, 6 ≤ j → j < 6 → ((exU .vec [(7, 70), (2, 20)]).get j).isSome) ∧
    (exU .vec [(7, 70), (2, 20)]).get 6 = none ∧
    (∀ j, 6 ≤ j → j < 8 → ((exU .vec [(7, 70), (2, 20)]).get j).isSome → 7 ≤ j) :=
  C15_bulkUpdate_gap_spec _ (exMaxExact .vec _).2.1 6 8 7 6 (by decide)
-- rejected: a key `≥ N`
example (k : MapKind) : (exBaseP k).bulkUpdate (exCfgP k) (exU k [(8, 80), (2, 20)])
    = .error .invalidListUpdate := by
  obtain ⟨h1, h2, _⟩ := exMaxExact k [(8, 80), (2, 20)]
  exact C15_bulkUpdate_invalid _ _ _ h2 h1 (by cases k <;> decide) 8 (by cases k <;> decide)
    (by show 8 ≤ 8; decide)
-- rejected: writes pending
example (k : MapKind) (u : UMap Nat) :
    (exPending k).bulkUpdate (exCfg k) u = .error .bulkUpdateUnclean :=
  C15_bulkUpdate_unclean _ _ _ (by cases k <;> decide)

-- constructors
example (k : MapKind) : CollInv none (exCfg k) (Coll.empty (T := Nat) none (0 : Nat) (exCfg k)
    Heap.empty).1 [] := (C05_empty none (0 : Nat) (exCfg k) Heap.empty).1
example (k : MapKind) : ∃ c h', Coll.tryFromIter none (0 : Nat) (exCfg k) [1, 2, 3] Heap.empty
    = .ok (c, h') ∧ CollInv none (exCfg k) c [1, 2, 3] := by
  obtain ⟨c, h', h1, h2, _⟩ := C05_tryFromIter_inv (exCfgOK k) (0 : Nat) [1, 2, 3]
    (by show 3 ≤ 4; decide) Heap.empty
  exact ⟨c, h', h1, h2⟩
example (k : MapKind) : ∃ c h', Coll.vectorFromElem none (0 : Nat) (exCfg k) (7 : Nat) Heap.empty
    = .ok (c, h') ∧ CollInv none (exCfg k) c [7, 7, 7, 7] := by
  obtain ⟨c, h', h1, h2, _⟩ := C05_vector_from_elem_inv (exCfgOK k) (0 : Nat) (7 : Nat) Heap.empty
  exact ⟨c, h', h1, h2⟩

-- equality: the flushed `exPending` equals a freshly built `[10, 99, 12, 13]` and differs from
-- `exBase`
example (k : MapKind) : ∃ c' h' d h'', (exPending k).applyUpdates none (0 : Nat) (exCfg k) Heap.empty
      = (.ok (), c', h') ∧
    Coll.tryFromIter none (0 : Nat) (exCfg k) [10, 99, 12, 13] Heap.empty = .ok (d, h'') ∧
    Coll.beq c' d = true ∧ Coll.beq c' (exBase k) = false := by
  obtain ⟨c', h', h1, h2, _, _, _, _, h7⟩ :=
    C01_applyUpdates (exCfgOK k) (exPending_inv k) (0 : Nat) Heap.empty
  rw [exView] at h2
  obtain ⟨d, h'', g1, g2, _, g4, _⟩ := C05_tryFromIter_inv (exCfgOK k) (0 : Nat) [10, 99, 12, 13]
    (by show 4 ≤ 4; decide) Heap.empty
  have hu := h7 (by cases k <;> decide)
  refine ⟨c', h', d, h'', h1, g1, (C06_eq_iff_contents (exCfgOK k) h2 g2 hu g4).2 rfl, ?_⟩
  rw [C06_beq_eq_decide (exCfgOK k) h2 (exBase_inv k) hu rfl]
  decide

end CollOpsExample

end Milhouse
